(* Integer / decimal numeric and bitwise scalar functions (definitions only; proofs in
   proofs/NumFnProofs.v).  Each function twice:
     impl_f   a transcription of what the Rust code does, operator by operator
     spec_f   the mathematical definition, "Err when the value is not representable"

   Transcribed from crates/glaredb_core/src/functions/scalar/builtin/
     numeric/gcd.rs        Gcd<S>::execute     (signed widths 8..128)
         let mut a = a.abs(); let mut b = b.abs();          num_traits Signed::abs = `if x < 0 { -x } else { x }`
         if a == 0 { return put(b) }  if b == 0 { return put(a) }
         while b != 0 { let temp = b; b = a % b; a = temp; }  put(a)
     numeric/lcm.rs        Lcm<S>::execute
         if a.is_zero() || b.is_zero() { put(0); return }
         let abs_a = a.abs(); let abs_b = b.abs(); (the same loop on x, y) let gcd = x;
         let lcm = (abs_a / gcd) * abs_b;                    native `/` and `*`
     numeric/factorial.rs  Factorial::execute  (Int64 -> Int128)
         if n < 0 { put_null }  if n == 0 || n == 1 { put(1) }
         for i in 2..=n { match result.checked_mul(i as i128) { Some(r) => result = r, None => { put_null; return } } }
     binary/shl.rs, shr.rs a.checked_shl(b as u32).unwrap_or_default()   (b : i32; None when the count >= the width)
     binary/bitand.rs, bitor.rs, xor.rs, bitnot.rs           a & b, a | b, a ^ b, !a   (all ten integer widths)
     numeric/round.rs      RoundDecimal::{bind, execute} over cast/builtin/to_decimal.rs DecimalToDecimal
     numeric/{abs,sign,ceil,floor,trunc,round}.rs            Float16/32/64 signatures ONLY: an integer or decimal
         argument is implicitly cast to Float64 (`v as f64`; decimals: `(v as f64) / POWERS_OF_10[scale]`)
         and the float operation is applied.

   The native `-x`, `*` panic on overflow in builds with overflow checks (mode Debug) and wrap
   without (Release); `/` and `%` panic for a zero divisor and for MIN / -1, MIN % -1 in every
   build (model/Arith.v: arith_result Native, div_fault).  Loops run on fuel; `None` = out of fuel
   (the theorems show that the fuel given here always suffices). *)
From Coq Require Import ZArith List Bool.
From GV Require Import model.Arith model.Decimal.
Import ListNotations.
Open Scope Z_scope.

(* ---------------------------------------------------------------- Rust primitives *)
(* num_traits::Signed::abs on iN: `-x` for negative x *)
Definition rust_abs (m : mode) (w a : Z) : outcome Z := arith_result Native m Signed w (Z.abs a).
Definition rust_rem (w a b : Z) : outcome Z := if div_fault Signed w a b then Panic else Ok (Z.rem a b).
Definition rust_div (w a b : Z) : outcome Z := if div_fault Signed w a b then Panic else Ok (Z.quot a b).
Definition rust_mul (m : mode) (w a b : Z) : outcome Z := arith_result Native m Signed w (a * b).

(* ---------------------------------------------------------------- gcd / lcm *)
(* while b != 0 { temp = b; b = a % b; a = temp } *)
Fixpoint euclid (fuel : nat) (w a b : Z) : option (outcome Z) :=
  if b =? 0 then Some (Ok a) else
  match fuel with
  | O => None
  | S f => match rust_rem w a b with
           | Ok r => euclid f w b r
           | Err => Some Err
           | Panic => Some Panic
           end
  end.

(* |b| at least halves every two iterations and |b| <= 2^(w-1): 2w + 1 iterations suffice *)
Definition euclid_fuel (w : Z) : nat := S (2 * Z.to_nat w).

Definition old_impl_gcd (m : mode) (w a b : Z) : option (outcome Z) :=
  match rust_abs m w a with
  | Ok a' =>
    match rust_abs m w b with
    | Ok b' => if a' =? 0 then Some (Ok b') else if b' =? 0 then Some (Ok a')
               else euclid (euclid_fuel w) w a' b'
    | Err => Some Err
    | Panic => Some Panic
    end
  | Err => Some Err
  | Panic => Some Panic
  end.

Definition old_impl_lcm (m : mode) (w a b : Z) : option (outcome Z) :=
  if (a =? 0) || (b =? 0) then Some (Ok 0) else
  match rust_abs m w a with
  | Ok abs_a =>
    match rust_abs m w b with
    | Ok abs_b =>
      match euclid (euclid_fuel w) w abs_a abs_b with
      | Some (Ok g) => Some (bind_out (rust_div w abs_a g) (fun q => rust_mul m w q abs_b))
      | Some Err => Some Err
      | Some Panic => Some Panic
      | None => None
      end
    | Err => Some Err
    | Panic => Some Panic
    end
  | Err => Some Err
  | Panic => Some Panic
  end.

(* the greatest common divisor / least common multiple of the integers, non-negative *)
Definition spec_gcd (w a b : Z) : outcome Z := spec_of Signed w (Some (Z.gcd a b)).
Definition spec_lcm (w a b : Z) : outcome Z := spec_of Signed w (Some (Z.lcm a b)).

(* ---------------------------------------------------------------- factorial *)
(* for i in 2..=n { result = result.checked_mul(i)? }   inner None = SQL NULL *)
Fixpoint fact_loop (fuel : nat) (i n r : Z) : option (option Z) :=
  if n <? i then Some (Some r) else
  match fuel with
  | O => None
  | S f => if in_range Signed 128 (r * i) then fact_loop f (i + 1) n (r * i) else Some None
  end.

Definition fact_fuel : nat := 40.

Definition old_impl_factorial (n : Z) : option (outcome (option Z)) :=
  if n <? 0 then Some (Ok None)
  else if (n =? 0) || (n =? 1) then Some (Ok (Some 1))
  else match fact_loop fact_fuel 2 n 1 with None => None | Some r => Some (Ok r) end.

Fixpoint zfact (k : nat) : Z := match k with O => 1 | S k' => Z.of_nat k * zfact k' end.

(* n! for n >= 0 when it fits Int128; undefined (negative n) or unrepresentable: an error *)
Definition spec_factorial (n : Z) : outcome (option Z) :=
  if n <? 0 then Err
  else if in_range Signed 128 (zfact (Z.to_nat n)) then Ok (Some (zfact (Z.to_nat n))) else Err.
(* the same, computable for huge n (34! > 2^127; proofs/NumFnProofs.v: spec_factorial_exec_eq) *)
Definition spec_factorial_exec (n : Z) : outcome (option Z) :=
  if n <? 0 then Err else if 33 <? n then Err else spec_factorial n.

(* ---------------------------------------------------------------- bitwise: on the w-bit pattern *)
Definition to_bits (w a : Z) : Z := a mod 2 ^ w.             (* two's-complement pattern, 0 <= . < 2^w *)
Definition of_bits (sg : sgn) (w u : Z) : Z := wrap sg w u.  (* the value a pattern stands for *)

Definition impl_bitand (sg : sgn) (w a b : Z) : outcome Z := Ok (of_bits sg w (Z.land (to_bits w a) (to_bits w b))).
Definition impl_bitor (sg : sgn) (w a b : Z) : outcome Z := Ok (of_bits sg w (Z.lor (to_bits w a) (to_bits w b))).
Definition impl_xor (sg : sgn) (w a b : Z) : outcome Z := Ok (of_bits sg w (Z.lxor (to_bits w a) (to_bits w b))).
Definition impl_bitnot (sg : sgn) (w a : Z) : outcome Z := Ok (of_bits sg w (2 ^ w - 1 - to_bits w a)).

(* the operation on the (infinite two's-complement) integers *)
Definition spec_bitand (sg : sgn) (w a b : Z) : outcome Z := Ok (Z.land a b).
Definition spec_bitor (sg : sgn) (w a b : Z) : outcome Z := Ok (Z.lor a b).
Definition spec_xor (sg : sgn) (w a b : Z) : outcome Z := Ok (Z.lxor a b).
Definition spec_bitnot (sg : sgn) (w a : Z) : outcome Z :=
  Ok (match sg with Signed => Z.lnot a | Unsigned => Z.lxor a (Z.ones w) end).

(* shifts: `b as u32`, checked_shl/shr = None when the count >= the width, unwrap_or_default = 0.
   `<<` on the pattern drops the bits shifted out; `>>` is arithmetic for iN, logical for uN:
   floor (a / 2^n) in both cases *)
Definition as_u32 (b : Z) : Z := b mod 2 ^ 32.
Definition impl_shl (sg : sgn) (w a b : Z) : outcome Z :=
  let n := as_u32 b in
  if n <? w then Ok (of_bits sg w (Z.shiftl (to_bits w a) n)) else Ok 0.
Definition old_impl_shr (sg : sgn) (w a b : Z) : outcome Z :=
  let n := as_u32 b in
  if n <? w then Ok (a / 2 ^ n) else Ok 0.

(* shifting by b >= 0 bits: the low w bits of a * 2^b;  floor (a / 2^b).  A negative count is not a
   number of bits (docs silent): everything is shifted out, the value is 0 -- a definitional choice *)
Definition spec_shl (sg : sgn) (w a b : Z) : outcome Z :=
  if b <? 0 then Ok 0 else Ok (wrap sg w (Z.shiftl a b)).
Definition spec_shr (sg : sgn) (w a b : Z) : outcome Z :=
  if b <? 0 then Ok 0 else Ok (Z.shiftr a b).

(* the same, computable for huge counts (proofs/NumFnProofs.v: spec_shl_exec_eq, spec_shr_exec_eq) *)
Definition spec_shl_exec (sg : sgn) (w a b : Z) : outcome Z :=
  if b <? 0 then Ok 0 else if w <=? b then Ok 0 else Ok (wrap sg w (Z.shiftl a b)).
Definition spec_shr_exec (sg : sgn) (w a b : Z) : outcome Z :=
  if b <? 0 then Ok 0 else if w <=? b then Ok (if a <? 0 then -1 else 0) else Ok (Z.shiftr a b).

(* ---------------------------------------------------------------- round(decimal(p,s) [, n]) *)
(* RoundDecimal::bind:
     scale = i8::try_from(n)  (error "Decimal scale too large");  no second argument: n = 0
     new_scale = i8::min(scale, s);  result type decimal(p, new_scale)
   DecimalToDecimal::bind:
     scale_diff = s - new_scale                       (native i8 subtraction)
     scale_amount = checked_pow(TEN, |scale_diff|)    (error if it leaves the primitive)
     rounding_addition = scale_amount / 2 when scale_diff > 0
   result of bind: (new_scale, scale_diff, scale_amount) *)
Definition old_round_bind (m : mode) (kd : dkind) (s n : Z) : outcome (Z * Z * Z) :=
  if in_range Signed 8 n then
    let ns := Z.min n s in
    bind_out (arith_result Native m Signed 8 (s - ns)) (fun diff =>
    bind_out (checked kd (10 ^ Z.abs diff)) (fun amount => Ok (ns, diff, amount)))
  else Err.

(* validate_precision(value, precision) with precision <= MAX_PRECISION (the type exists) *)
Definition vprec (v p : Z) : bool := (v =? 0) || (digits v <=? p).

(* DecimalToDecimal::cast, one value *)
Definition round_val (kd : dkind) (p diff amount v : Z) : outcome Z :=
  let scaled :=
    if diff <? 0 then checked kd (v * amount)
    else if 0 <? diff then
      let adj := if 0 <=? v then amount / 2 else - (amount / 2) in
      bind_out (checked kd (v + adj)) (fun x => Ok (Z.quot x amount))
    else Ok v in
  bind_out scaled (fun x => if vprec x p then Ok x else Err).

(* (scale of the result type, unscaled result) *)
Definition old_impl_round (m : mode) (kd : dkind) (p s n v : Z) : outcome (Z * Z) :=
  bind_out (old_round_bind m kd s n) (fun b =>
    let '(ns, diff, amount) := b in
    bind_out (round_val kd p diff amount v) (fun x => Ok (ns, x))).

(* round half away from zero of v / d, d > 0 *)
Definition rha (v d : Z) : Z := Z.sgn v * ((2 * Z.abs v + d) / (2 * d)).
(* x = v / 10^s rounded to n fractional digits (n < 0: to a multiple of 10^-n), as a decimal(p, min n s);
   a scale below -128 is not a type *)
Definition spec_round (p s n v : Z) : outcome (Z * Z) :=
  let ns := Z.min n s in
  if ns <? -128 then Err
  else let r := rha v (10 ^ (s - ns)) in
       if fits p r then Ok (ns, r) else Err.

(* ---------------------------------------------------------------- the CURRENT source of gcd, lcm, factorial, shr,
   DecimalToDecimal::bind (after the fixes 9b10c8448, e09e186b9, eb21ac26a, 36f5e65a8): the checked operations of
   arith/checked.rs (CheckedArith / CheckedNeg) as + - * / % use them, an unrepresentable result is an error, an
   over-long right shift keeps the sign.  The definitions prefixed old_ further up transcribe what these five files did
   before; vlib/tables_numfn.py reads from the source which variant each file has (gen/TablesNumfn.v: all repaired today)
   and the driver runs that one against the engine, so that a regression is recognised for what it is.
     gcd:  Euclid on the signed operands, `b = a.rem_checked(b).unwrap_or(0)`, then |result| via neg_checked
     lcm:  a.div_checked(gcd).and_then(|q| q.mul_checked(b)), then |.| via neg_checked
     factorial: negative input and a product that leaves Int128 fail the statement
     shr:  `None if b > 0 => (a >> (bits - 1)) >> 1`, a negative count still gives 0
     DecimalToDecimal::bind: scale_diff = src.scale.checked_sub(target.scale) or an error *)
Definition rem_checked (a b : Z) : option Z := if b =? 0 then None else Some (Z.rem a b).   (* MIN % -1 = 0 *)
Definition div_checked (w a b : Z) : option Z := if div_fault Signed w a b then None else Some (Z.quot a b).
Definition mul_checked (w a b : Z) : option Z := if in_range Signed w (a * b) then Some (a * b) else None.
Definition neg_checked (w a : Z) : option Z := if in_range Signed w (- a) then Some (- a) else None.
Definition abs_checked (w a : Z) : option Z := if a <? 0 then neg_checked w a else Some a.
Definition of_opt (o : option Z) : outcome Z := match o with Some v => Ok v | None => Err end.

Fixpoint euclid_c (fuel : nat) (a b : Z) : option Z :=
  if b =? 0 then Some a else
  match fuel with
  | O => None
  | S f => euclid_c f b (match rem_checked a b with Some r => r | None => 0 end)
  end.

Definition impl_gcd (w a b : Z) : option (outcome Z) :=
  option_map (fun g => of_opt (abs_checked w g)) (euclid_c (euclid_fuel w) a b).

Definition impl_lcm (w a b : Z) : option (outcome Z) :=
  if (a =? 0) || (b =? 0) then Some (Ok 0) else
  option_map (fun g => of_opt (match div_checked w a g with
                               | Some q => match mul_checked w q b with Some v => abs_checked w v | None => None end
                               | None => None
                               end))
             (euclid_c (euclid_fuel w) a b).

Definition impl_factorial (n : Z) : option (outcome (option Z)) :=
  if n <? 0 then Some Err
  else if (n =? 0) || (n =? 1) then Some (Ok (Some 1))
  else match fact_loop fact_fuel 2 n 1 with
       | None => None
       | Some (Some r) => Some (Ok (Some r))
       | Some None => Some Err
       end.

Definition impl_shr (sg : sgn) (w a b : Z) : outcome Z :=
  let n := as_u32 b in
  if n <? w then Ok (a / 2 ^ n) else if 0 <? b then Ok ((a / 2 ^ (w - 1)) / 2) else Ok 0.

Definition round_bind (kd : dkind) (s n : Z) : outcome (Z * Z * Z) :=
  if in_range Signed 8 n then
    let ns := Z.min n s in
    bind_out (if in_range Signed 8 (s - ns) then Ok (s - ns) else Err) (fun diff =>
    bind_out (checked kd (10 ^ Z.abs diff)) (fun amount => Ok (ns, diff, amount)))
  else Err.
Definition impl_round (kd : dkind) (p s n v : Z) : outcome (Z * Z) :=
  bind_out (round_bind kd s n) (fun b =>
    let '(ns, diff, amount) := b in
    bind_out (round_val kd p diff amount v) (fun x => Ok (ns, x))).

(* the variant the source has: Native = the old_ definitions, Checked = the current ones *)
Definition impl_gcd_src (st : style) (m : mode) (w a b : Z) : option (outcome Z) :=
  match st with Native => old_impl_gcd m w a b | Checked => impl_gcd w a b end.
Definition impl_lcm_src (st : style) (m : mode) (w a b : Z) : option (outcome Z) :=
  match st with Native => old_impl_lcm m w a b | Checked => impl_lcm w a b end.
Definition impl_factorial_src (st : style) (n : Z) : option (outcome (option Z)) :=
  match st with Native => old_impl_factorial n | Checked => impl_factorial n end.
Definition impl_shr_src (st : style) (sg : sgn) (w a b : Z) : outcome Z :=
  match st with Native => old_impl_shr sg w a b | Checked => impl_shr sg w a b end.
Definition impl_round_src (st : style) (m : mode) (kd : dkind) (p s n v : Z) : outcome (Z * Z) :=
  match st with Native => old_impl_round m kd p s n v | Checked => impl_round kd p s n v end.

(* ---------------------------------------------------------------- abs sign ceil floor trunc round
   on integers and decimals: computed in binary64 *)
Inductive fop := FAbs | FSign | FCeil | FFloor | FTrunc | FRound.

(* a finite non-zero binary64 (normal range) as (negative?, m, e): value (-1)^neg * m * 2^e *)
Definition f64_decode (bits : Z) : bool * Z * Z :=
  let neg := 2 ^ 63 <=? bits in
  let r := bits mod 2 ^ 63 in
  (neg, 2 ^ 52 + r mod 2 ^ 52, r / 2 ^ 52 - 1075).

(* nearest binary64 (ties to even) of n / (m * 2^e) *)
Definition f64_div_me (n m e : Z) : option Z :=
  if 0 <=? e then round_q_f64 n (m * 2 ^ e) else round_q_f64 (n * 2 ^ (- e)) m.

(* the Float64 a decimal argument is cast to, as a bit pattern: `(v as f64) / POWERS_OF_10[s]`
   where the table entry is the literal 1e<s>, i.e. the binary64 nearest to 10^s *)
Definition dec_to_f64 (v s : Z) : option Z :=
  let '(n, _) := int_as_f64 v in
  match round_q_f64 (10 ^ s) 1 with
  | Some pb => let '(_, m, e) := f64_decode pb in f64_div_me n m e
  | None => None
  end.

(* result of a float operation that is an integer (ceil floor trunc round sign), with the sign of
   a zero result, or any float as its bit pattern (abs) *)
Inductive fres := FInt (negzero : bool) (n : Z) | FBits (bits : Z).

(* f64::abs / the closure of sign.rs / ceil / floor / the closure of trunc.rs (v < 0 ? ceil : floor) /
   f64::round (half away from zero) on a finite float given by its bit pattern *)
Definition f_apply (op : fop) (bits : Z) : fres :=
  if bits mod 2 ^ 63 =? 0 then
    match op with
    | FAbs => FBits 0
    | FSign => FInt false 0
    | _ => FInt (2 ^ 63 <=? bits) 0
    end
  else
  let '(neg, m, e) := f64_decode bits in
  let q := if 0 <=? e then m * 2 ^ e else m / 2 ^ (- e) in        (* integer part of the magnitude *)
  let r := if 0 <=? e then 0 else m mod 2 ^ (- e) in               (* fraction, in units of 2^e *)
  let up := if 0 <? r then q + 1 else q in
  let nearest := if 0 <=? e then q else if 2 ^ (- e) <=? 2 * r then q + 1 else q in
  let signed (k : Z) := FInt (neg && (k =? 0)) (if neg then - k else k) in
  match op with
  | FAbs => FBits (bits mod 2 ^ 63)
  | FSign => FInt false (if neg then -1 else 1)
  | FCeil => signed (if neg then q else up)
  | FFloor => signed (if neg then up else q)
  | FTrunc => signed q
  | FRound => signed nearest
  end.

(* integers: `a as f64` is itself an integer (model/Decimal.v int_as_f64), so ceil floor trunc round
   return it unchanged *)
Definition impl_int_fn (op : fop) (a : Z) : fres :=
  let '(n, _) := int_as_f64 a in
  match op with
  | FAbs => FInt false (Z.abs n)
  | FSign => FInt false (Z.sgn n)
  | _ => FInt false n
  end.
Definition impl_dec_fn (op : fop) (v s : Z) : option fres := option_map (f_apply op) (dec_to_f64 v s).

(* the exact function of the exact argument *)
Definition spec_int_fn (op : fop) (a : Z) : fres :=
  match op with
  | FAbs => FInt false (Z.abs a)
  | FSign => FInt false (Z.sgn a)
  | _ => FInt false a
  end.
(* decimals: the argument is v / 10^s; abs is not integer valued: its definition is the binary64
   nearest to |v| / 10^s *)
Definition spec_dec_fn (op : fop) (v s : Z) : option fres :=
  let d := 10 ^ s in
  match op with
  | FAbs => option_map FBits (round_q_f64 (Z.abs v) d)
  | FSign => Some (FInt false (Z.sgn v))
  | FCeil => Some (FInt false (- ((- v) / d)))
  | FFloor => Some (FInt false (v / d))
  | FTrunc => Some (FInt false (Z.quot v d))
  | FRound => Some (FInt false (rha v d))
  end.

(* equality of results up to the sign of zero (the definitions do not distinguish -0.0) *)
Definition fres_eqb (x y : fres) : bool :=
  match x, y with
  | FInt _ a, FInt _ b => a =? b
  | FBits a, FBits b => a =? b
  | _, _ => false
  end.

(* ---------------------------------------------------------------- comparisons across integer types
   (definition only: the six comparisons of the mathematical integers, whatever the two operand types;
   the implicit casts the binder inserts are the typing property's subject) *)
Inductive cmpop := CLt | CLe | CEq | CNe | CGe | CGt.
Definition spec_cmp (op : cmpop) (a b : Z) : bool :=
  match op with
  | CLt => a <? b | CLe => a <=? b | CEq => a =? b | CNe => negb (a =? b) | CGe => b <=? a | CGt => b <? a
  end.
