(* Integer / decimal numeric and bitwise scalar functions (definitions only; proofs in
   proofs/NumFnProofs.v).  Each function twice:
     impl_f   a transcription of what the Rust code does, operator by operator
     spec_f   the mathematical definition, "Err when the value is not representable"

   Transcribed from crates/glaredb_core/src/functions/scalar/builtin/
     numeric/gcd.rs        Gcd<S>::execute     (signed widths 8..128)
         let mut a = a.abs(); let mut b = b.abs();          num_traits Signed::abs = `if x < 0 { -x } else { x }`
         if a == 0 { return put(b) }  if b == 0 { return put(a) }
         while b != 0 { let temp = b; b = a % b; a = temp; }  put(a)
     numeric/lcm.rs        Lcm<S>::execute
         if a.is_zero() || b.is_zero() { put(0); return }
         let abs_a = a.abs(); let abs_b = b.abs(); (the same loop on x, y) let gcd = x;
         let lcm = (abs_a / gcd) * abs_b;                    native `/` and `*`
     numeric/factorial.rs  Factorial::execute  (Int64 -> Int128)
         if n < 0 { put_null }  if n == 0 || n == 1 { put(1) }
         for i in 2..=n { match result.checked_mul(i as i128) { Some(r) => result = r, None => { put_null; return } } }
     binary/shl.rs, shr.rs a.checked_shl(b as u32).unwrap_or_default()   (b : i32; None when the count >= the width)
     binary/bitand.rs, bitor.rs, xor.rs, bitnot.rs           a & b, a | b, a ^ b, !a   (all ten integer widths)
     numeric/round.rs      RoundDecimal::{bind, execute} over cast/builtin/to_decimal.rs DecimalToDecimal
     numeric/{abs,sign,ceil,floor,trunc,round}.rs            Float16/32/64 signatures ONLY: an integer or decimal
         argument is implicitly cast to Float64 (`v as f64`; decimals: `(v as f64) / POWERS_OF_10[scale]`)
         and the float operation is applied.

   The native `-x`, `*` panic on overflow in builds with overflow checks (mode Debug) and wrap
   without (Release); `/` and `%` panic for a zero divisor and for MIN / -1, MIN % -1 in every
   build (model/Arith.v: arith_result Native, div_fault).  Loops run on fuel; `None` = out of fuel
   (the theorems show that the fuel given here always suffices). *)
From Coq Require Import ZArith List Bool.
From GV Require Import model.Arith model.Decimal.
Import ListNotations.
Open Scope Z_scope.

(* ---------------------------------------------------------------- Rust primitives *)
(* num_traits::Signed::abs on iN: `-x` for negative x *)
Definition rust_abs (m : mode) (w a : Z) : outcome Z := arith_result Native m Signed w (Z.abs a).
Definition rust_rem (w a b : Z) : outcome Z := if div_fault Signed w a b then Panic else Ok (Z.rem a b).
Definition rust_div (w a b : Z) : outcome Z := if div_fault Signed w a b then Panic else Ok (Z.quot a b).
Definition rust_mul (m : mode) (w a b : Z) : outcome Z := arith_result Native m Signed w (a * b).

(* ---------------------------------------------------------------- gcd / lcm *)
(* while b != 0 { temp = b; b = a % b; a = temp } *)
Fixpoint euclid (fuel : nat) (w a b : Z) : option (outcome Z) :=
  if b =? 0 then Some (Ok a) else
  match fuel with
  | O => None
  | S f => match rust_rem w a b with
           | Ok r => euclid f w b r
           | Err => Some Err
           | Panic => Some Panic
           end
  end.

(* |b| at least halves every two iterations and |b| <= 2^(w-1): 2w + 1 iterations suffice *)
Definition euclid_fuel (w : Z) : nat := S (2 * Z.to_nat w).

Definition old_impl_gcd (m : mode) (w a b : Z) : option (outcome Z) :=
  match rust_abs m w a with
  | Ok a' =>
    match rust_abs m w b with
    | Ok b' => if a' =? 0 then Some (Ok b') else if b' =? 0 then Some (Ok a')
               else euclid (euclid_fuel w) w a' b'
    | Err => Some Err
    | Panic => Some Panic
    end
  | Err => Some Err
  | Panic => Some Panic
  end.

Definition old_impl_lcm (m : mode) (w a b : Z) : option (outcome Z) :=
  if (a =? 0) || (b =? 0) then Some (Ok 0) else
  match rust_abs m w a with
  | Ok abs_a =>
    match rust_abs m w b with
    | Ok abs_b =>
      match euclid (euclid_fuel w) w abs_a abs_b with
      | Some (Ok g) => Some (bind_out (rust_div w abs_a g) (fun q => rust_mul m w q abs_b))
      | Some Err => Some Err
      | Some Panic => Some Panic
      | None => None
      end
    | Err => Some Err
    | Panic => Some Panic
    end
  | Err => Some Err
  | Panic => Some Panic
  end.

(* the greatest common divisor / least common multiple of the integers, non-negative *)
Definition spec_gcd (w a b : Z) : outcome Z := spec_of Signed w (Some (Z.gcd a b)).
Definition spec_lcm (w a b : Z) : outcome Z := spec_of Signed w (Some (Z.lcm a b)).

(* ---------------------------------------------------------------- factorial *)
(* for i in 2..=n { result = result.checked_mul(i)? }   inner None = SQL NULL *)
Fixpoint fact_loop (fuel : nat) (i n r : Z) : option (option Z) :=
  if n <? i then Some (Some r) else
  match fuel with
  | O => None
  | S f => if in_range Signed 128 (r * i) then fact_loop f (i + 1) n (r * i) else Some None
  end.

Definition fact_fuel : nat := 40.

Definition old_impl_factorial (n : Z) : option (outcome (option Z)) :=
  if n <? 0 then Some (Ok None)
  else if (n =? 0) || (n =? 1) then Some (Ok (Some 1))
  else match fact_loop fact_fuel 2 n 1 with None => None | Some r => Some (Ok r) end.

Fixpoint zfact (k : nat) : Z := match k with O => 1 | S k' => Z.of_nat k * zfact k' end.

(* n! for n >= 0 when it fits Int128; undefined (negative n) or unrepresentable: an error *)
Definition spec_factorial (n : Z) : outcome (option Z) :=
  if n <? 0 then Err
  else if in_range Signed 128 (zfact (Z.to_nat n)) then Ok (Some (zfact (Z.to_nat n))) else Err.
(* the same, computable for huge n (34! > 2^127; proofs/NumFnProofs.v: spec_factorial_exec_eq) *)
Definition spec_factorial_exec (n : Z) : outcome (option Z) :=
  if n <? 0 then Err else if 33 <? n then Err else spec_factorial n.

(* ---------------------------------------------------------------- bitwise: on the w-bit pattern *)
Definition to_bits (w a : Z) : Z := a mod 2 ^ w.             (* two's-complement pattern, 0 <= . < 2^w *)
Definition of_bits (sg : sgn) (w u : Z) : Z := wrap sg w u.  (* the value a pattern stands for *)

Definition impl_bitand (sg : sgn) (w a b : Z) : outcome Z := Ok (of_bits sg w (Z.land (to_bits w a) (to_bits w b))).
Definition impl_bitor (sg : sgn) (w a b : Z) : outcome Z := Ok (of_bits sg w (Z.lor (to_bits w a) (to_bits w b))).
Definition impl_xor (sg : sgn) (w a b : Z) : outcome Z := Ok (of_bits sg w (Z.lxor (to_bits w a) (to_bits w b))).
Definition impl_bitnot (sg : sgn) (w a : Z) : outcome Z := Ok (of_bits sg w (2 ^ w - 1 - to_bits w a)).

(* the operation on the (infinite two's-complement) integers *)
Definition spec_bitand (sg : sgn) (w a b : Z) : outcome Z := Ok (Z.land a b).
Definition spec_bitor (sg : sgn) (w a b : Z) : outcome Z := Ok (Z.lor a b).
Definition spec_xor (sg : sgn) (w a b : Z) : outcome Z := Ok (Z.lxor a b).
Definition spec_bitnot (sg : sgn) (w a : Z) : outcome Z :=
  Ok (match sg with Signed => Z.lnot a | Unsigned => Z.lxor a (Z.ones w) end).

(* shifts: `b as u32`, checked_shl/shr = None when the count >= the width, unwrap_or_default = 0.
   `<<` on the pattern drops the bits shifted out; `>>` is arithmetic for iN, logical for uN:
   floor (a / 2^n) in both cases *)
Definition as_u32 (b : Z) : Z := b mod 2 ^ 32.
Definition impl_shl (sg : sgn) (w a b : Z) : outcome Z :=
  let n := as_u32 b in
  if n <? w then Ok (of_bits sg w (Z.shiftl (to_bits w a) n)) else Ok 0.
Definition old_impl_shr (sg : sgn) (w a b : Z) : outcome Z :=
  let n := as_u32 b in
  if n <? w then Ok (a / 2 ^ n) else Ok 0.

(* shifting by b >= 0 bits: the low w bits of a * 2^b;  floor (a / 2^b).  A negative count is not a
   number of bits (docs silent): everything is shifted out, the value is 0 -- a definitional choice *)
Definition spec_shl (sg : sgn) (w a b : Z) : outcome Z :=
  if b <? 0 then Ok 0 else Ok (wrap sg w (Z.shiftl a b)).
Definition spec_shr (sg : sgn) (w a b : Z) : outcome Z :=
  if b <? 0 then Ok 0 else Ok (Z.shiftr a b).

(* the same, computable for huge counts (proofs/NumFnProofs.v: spec_shl_exec_eq, spec_shr_exec_eq) *)
Definition spec_shl_exec (sg : sgn) (w a b : Z) : outcome Z :=
  if b <? 0 then Ok 0 else if w <=? b then Ok 0 else Ok (wrap sg w (Z.shiftl a b)).
Definition spec_shr_exec (sg : sgn) (w a b : Z) : outcome Z :=
  if b <? 0 then Ok 0 else if w <=? b then Ok (if a <? 0 then -1 else 0) else Ok (Z.shiftr a b).

(* ---------------------------------------------------------------- round(decimal(p,s) [, n]) *)
(* RoundDecimal::bind:
     scale = i8::try_from(n)  (error "Decimal scale too large");  no second argument: n = 0
     new_scale = i8::min(scale, s);  result type decimal(p, new_scale)
   DecimalToDecimal::bind:
     scale_diff = s - new_scale                       (native i8 subtraction)
     scale_amount = checked_pow(TEN, |scale_diff|)    (error if it leaves the primitive)
     rounding_addition = scale_amount / 2 when scale_diff > 0
   result of bind: (new_scale, scale_diff, scale_amount) *)
Definition old_round_bind (m : mode) (kd : dkind) (s n : Z) : outcome (Z * Z * Z) :=
  if in_range Signed 8 n then
    let ns := Z.min n s in
    bind_out (arith_result Native m Signed 8 (s - ns)) (fun diff =>
    bind_out (checked kd (10 ^ Z.abs diff)) (fun amount => Ok (ns, diff, amount)))
  else Err.

(* validate_precision(value, precision) with precision <= MAX_PRECISION (the type exists) *)
Definition vprec (v p : Z) : bool := (v =? 0) || (digits v <=? p).

(* DecimalToDecimal::cast, one value *)
Definition round_val (kd : dkind) (p diff amount v : Z) : outcome Z :=
  let scaled :=
    if diff <? 0 then checked kd (v * amount)
    else if 0 <? diff then
      let adj := if 0 <=? v then amount / 2 else - (amount / 2) in
      bind_out (checked kd (v + adj)) (fun x => Ok (Z.quot x amount))
    else Ok v in
  bind_out scaled (fun x => if vprec x p then Ok x else Err).

(* (scale of the result type, unscaled result) *)
Definition old_impl_round (m : mode) (kd : dkind) (p s n v : Z) : outcome (Z * Z) :=
  bind_out (old_round_bind m kd s n) (fun b =>
    let '(ns, diff, amount) := b in
    bind_out (round_val kd p diff amount v) (fun x => Ok (ns, x))).

(* round half away from zero of v / d, d > 0 *)
Definition rha (v d : Z) : Z := Z.sgn v * ((2 * Z.abs v + d) / (2 * d)).
(* x = v / 10^s rounded to n fractional digits (n < 0: to a multiple of 10^-n), as a decimal(p, min n s);
   a scale below -128 is not a type *)
Definition spec_round (p s n v : Z) : outcome (Z * Z) :=
  let ns := Z.min n s in
  if ns <? -128 then Err
  else let r := rha v (10 ^ (s - ns)) in
       if fits p r then Ok (ns, r) else Err.

(* ---------------------------------------------------------------- the CURRENT source of gcd, lcm, factorial, shr,
   DecimalToDecimal::bind (after the fixes 9b10c8448, e09e186b9, eb21ac26a, 36f5e65a8): the checked operations of
   arith/checked.rs (CheckedArith / CheckedNeg) as + - * / % use them, an unrepresentable result is an error, an
   over-long right shift keeps the sign.  The definitions prefixed old_ further up transcribe what these five files did
   before; vlib/tables_numfn.py reads from the source which variant each file has (gen/TablesNumfn.v: all repaired today)
   and the driver runs that one against the engine, so that a regression is recognised for what it is.
     gcd:  Euclid on the signed operands, `b = a.rem_checked(b).unwrap_or(0)`, then |result| via neg_checked
     lcm:  a.div_checked(gcd).and_then(|q| q.mul_checked(b)), then |.| via neg_checked
     factorial: negative input and a product that leaves Int128 fail the statement
     shr:  `None if b > 0 => (a >> (bits - 1)) >> 1`, a negative count still gives 0
     DecimalToDecimal::bind: scale_diff = src.scale.checked_sub(target.scale) or an error *)
Definition rem_checked (a b : Z) : option Z := if b =? 0 then None else Some (Z.rem a b).   (* MIN % -1 = 0 *)
Definition div_checked (w a b : Z) : option Z := if div_fault Signed w a b then None else Some (Z.quot a b).
Definition mul_checked (w a b : Z) : option Z := if in_range Signed w (a * b) then Some (a * b) else None.
Definition neg_checked (w a : Z) : option Z := if in_range Signed w (- a) then Some (- a) else None.
Definition abs_checked (w a : Z) : option Z := if a <? 0 then neg_checked w a else Some a.
Definition of_opt (o : option Z) : outcome Z := match o with Some v => Ok v | None => Err end.

Fixpoint euclid_c (fuel : nat) (a b : Z) : option Z :=
  if b =? 0 then Some a else
  match fuel with
  | O => None
  | S f => euclid_c f b (match rem_checked a b with Some r => r | None => 0 end)
  end.

Definition impl_gcd (w a b : Z) : option (outcome Z) :=
  option_map (fun g => of_opt (abs_checked w g)) (euclid_c (euclid_fuel w) a b).

Definition impl_lcm (w a b : Z) : option (outcome Z) :=
  if (a =? 0) || (b =? 0) then Some (Ok 0) else
  option_map (fun g => of_opt (match div_checked w a g with
                               | Some q => match mul_checked w q b with Some v => abs_checked w v | None => None end
                               | None => None
                               end))
             (euclid_c (euclid_fuel w) a b).

Definition impl_factorial (n : Z) : option (outcome (option Z)) :=
  if n <? 0 then Some Err
  else if (n =? 0) || (n =? 1) then Some (Ok (Some 1))
  else match fact_loop fact_fuel 2 n 1 with
       | None => None
       | Some (Some r) => Some (Ok (Some r))
       | Some None => Some Err
       end.

Definition impl_shr (sg : sgn) (w a b : Z) : outcome Z :=
  let n := as_u32 b in
  if n <? w then Ok (a / 2 ^ n) else if 0 <? b then Ok ((a / 2 ^ (w - 1)) / 2) else Ok 0.

Definition round_bind (kd : dkind) (s n : Z) : outcome (Z * Z * Z) :=
  if in_range Signed 8 n then
    let ns := Z.min n s in
    bind_out (if in_range Signed 8 (s - ns) then Ok (s - ns) else Err) (fun diff =>
    bind_out (checked kd (10 ^ Z.abs diff)) (fun amount => Ok (ns, diff, amount)))
  else Err.
Definition impl_round (kd : dkind) (p s n v : Z) : outcome (Z * Z) :=
  bind_out (round_bind kd s n) (fun b =>
    let '(ns, diff, amount) := b in
    bind_out (round_val kd p diff amount v) (fun x => Ok (ns, x))).

(* the variant the source has: Native = the old_ definitions, Checked = the current ones *)
Definition impl_gcd_src (st : style) (m : mode) (w a b : Z) : option (outcome Z) :=
  match st with Native => old_impl_gcd m w a b | Checked => impl_gcd w a b end.
Definition impl_lcm_src (st : style) (m : mode) (w a b : Z) : option (outcome Z) :=
  match st with Native => old_impl_lcm m w a b | Checked => impl_lcm w a b end.
Definition impl_factorial_src (st : style) (n : Z) : option (outcome (option Z)) :=
  match st with Native => old_impl_factorial n | Checked => impl_factorial n end.
Definition impl_shr_src (st : style) (sg : sgn) (w a b : Z) : outcome Z :=
  match st with Native => old_impl_shr sg w a b | Checked => impl_shr sg w a b end.
Definition impl_round_src (st : style) (m : mode) (kd : dkind) (p s n v : Z) : outcome (Z * Z) :=
  match st with Native => old_impl_round m kd p s n v | Checked => impl_round kd p s n v end.

(* ---------------------------------------------------------------- abs sign ceil floor trunc round
   on integers and decimals: computed in binary64 *)
Inductive fop := FAbs | FSign | FCeil | FFloor | FTrunc | FRound.

(* a finite non-zero binary64 (normal range) as (negative?, m, e): value (-1)^neg * m * 2^e *)
Definition f64_decode (bits : Z) : bool * Z * Z :=
  let neg := 2 ^ 63 <=? bits in
  let r := bits mod 2 ^ 63 in
  (neg, 2 ^ 52 + r mod 2 ^ 52, r / 2 ^ 52 - 1075).

(* nearest binary64 (ties to even) of n / (m * 2^e) *)
Definition f64_div_me (n m e : Z) : option Z :=
  if 0 <=? e then round_q_f64 n (m * 2 ^ e) else round_q_f64 (n * 2 ^ (- e)) m.

(* the Float64 a decimal argument is cast to, as a bit pattern: `(v as f64) / POWERS_OF_10[s]`
   where the table entry is the literal 1e<s>, i.e. the binary64 nearest to 10^s *)
Definition dec_to_f64 (v s : Z) : option Z :=
  let '(n, _) := int_as_f64 v in
  match round_q_f64 (10 ^ s) 1 with
  | Some pb => let '(_, m, e) := f64_decode pb in f64_div_me n m e
  | None => None
  end.

(* result of a float operation that is an integer (ceil floor trunc round sign), with the sign of
   a zero result, or any float as its bit pattern (abs) *)
Inductive fres := FInt (negzero : bool) (n : Z) | FBits (bits : Z).

(* f64::abs / the closure of sign.rs / ceil / floor / the closure of trunc.rs (v < 0 ? ceil : floor) /
   f64::round (half away from zero) on a finite float given by its bit pattern *)
Definition f_apply (op : fop) (bits : Z) : fres :=
  if bits mod 2 ^ 63 =? 0 then
    match op with
    | FAbs => FBits 0
    | FSign => FInt false 0
    | _ => FInt (2 ^ 63 <=? bits) 0
    end
  else
  let '(neg, m, e) := f64_decode bits in
  let q := if 0 <=? e then m * 2 ^ e else m / 2 ^ (- e) in        (* integer part of the magnitude *)
  let r := if 0 <=? e then 0 else m mod 2 ^ (- e) in               (* fraction, in units of 2^e *)
  let up := if 0 <? r then q + 1 else q in
  let nearest := if 0 <=? e then q else if 2 ^ (- e) <=? 2 * r then q + 1 else q in
  let signed (k : Z) := FInt (neg && (k =? 0)) (if neg then - k else k) in
  match op with
  | FAbs => FBits (bits mod 2 ^ 63)
  | FSign => FInt false (if neg then -1 else 1)
  | FCeil => signed (if neg then q else up)
  | FFloor => signed (if neg then up else q)
  | FTrunc => signed q
  | FRound => signed nearest
  end.

(* integers: `a as f64` is itself an integer (model/Decimal.v int_as_f64), so ceil floor trunc round
   return it unchanged *)
Definition impl_int_fn (op : fop) (a : Z) : fres :=
  let '(n, _) := int_as_f64 a in
  match op with
  | FAbs => FInt false (Z.abs n)
  | FSign => FInt false (Z.sgn n)
  | _ => FInt false n
  end.
Definition impl_dec_fn (op : fop) (v s : Z) : option fres := option_map (f_apply op) (dec_to_f64 v s).

(* the exact function of the exact argument *)
Definition spec_int_fn (op : fop) (a : Z) : fres :=
  match op with
  | FAbs => FInt false (Z.abs a)
  | FSign => FInt false (Z.sgn a)
  | _ => FInt false a
  end.
(* decimals: the argument is v / 10^s; abs is not integer valued: its definition is the binary64
   nearest to |v| / 10^s *)
Definition spec_dec_fn (op : fop) (v s : Z) : option fres :=
  let d := 10 ^ s in
  match op with
  | FAbs => option_map FBits (round_q_f64 (Z.abs v) d)
  | FSign => Some (FInt false (Z.sgn v))
  | FCeil => Some (FInt false (- ((- v) / d)))
  | FFloor => Some (FInt false (v / d))
  | FTrunc => Some (FInt false (Z.quot v d))
  | FRound => Some (FInt false (rha v d))
  end.

(* equality of results up to the sign of zero (the definitions do not distinguish -0.0) *)
Definition fres_eqb (x y : fres) : bool :=
  match x, y with
  | FInt _ a, FInt _ b => a =? b
  | FBits a, FBits b => a =? b
  | _, _ => false
  end.

(* ---------------------------------------------------------------- comparisons across integer types
   (definition only: the six comparisons of the mathematical integers, whatever the two operand types;
   the implicit casts the binder inserts are the typing property's subject) *)
Inductive cmpop := CLt | CLe | CEq | CNe | CGe | CGt.
Definition spec_cmp (op : cmpop) (a b : Z) : bool :=
  match op with
  | CLt => a <? b | CLe => a <=? b | CEq => a =? b | CNe => negb (a =? b) | CGe => b <=? a | CGt => b <? a
  end.

(* ---------------------------------------------------------------- comparisons with a decimal operand
   crates/glaredb_core/src/functions/scalar/builtin/comparison.rs
     decimal_bind::<D>(left, right)    (DecimalComparison and DecimalDistinctComparison, D = Decimal64Type | Decimal128Type)
        if l_meta != r_meta {
          max_scale = i8::max(l.scale, r.scale)
          l_int_digits = (l.precision as i8) - l.scale;  r_int_digits likewise          native i8 arithmetic
          new_prec = (i8::max(l_int_digits, r_int_digits) + max_scale) as u8;  clamped to D::MAX_PRECISION ("Casting may fail at runtime")
          left  = if l_meta != new_meta { cast(left,  D(new_prec, max_scale)) } else { left }
          right = if r_meta != new_meta { cast(right, D(new_prec, max_scale)) } else { right }
        }
     execute: O::compare(left, right) on the unscaled integers
   The casts are DecimalToDecimal<D, D> (cast/builtin/to_decimal.rs; the same primitive on both sides): bind computes
   scale_diff by checked_sub and the factor 10^|scale_diff| by checked_pow on the primitive, cast() is round_val above
   (here always an upscale: checked_mul, then validate_precision against new_prec).  A NULL passes through a cast.
   Operands of other types are brought to a decimal (or not) by the signature binder (functions/candidate.rs: the
   candidate with the highest sum of implicit cast scores; NO_CAST 800, to Float64 181, to Decimal64 141, to
   Decimal128 140, Int64 -> Decimal64 is not implicit) and DataType::try_generate_cast_datatype (an integer becomes
   decimal(3|5|10|19, 0) by its width; Decimal64 -> Decimal128 keeps precision and scale):
     Decimal64 ~ Decimal128                         both compared as Decimal128
     IntN / UIntN (N <= 32) ~ Decimal_k(p,s)        the integer becomes Decimal_k(3|5|10, 0)
     Int64 / UInt64 ~ Decimal128(p,s)               the integer becomes Decimal128(19, 0) (a UInt64 of 20 digits fails the cast)
     Int64 ~ Decimal64(p,s)                         BOTH sides are cast to Float64 (362 beats 280)
     UInt64 ~ Decimal64(p,s)                        (Decimal64, Decimal64) is chosen, Decimal64(19,0) does not exist: bind error
     Float64 ~ Decimal_k(p,s)                       the decimal is cast to Float64 *)
Definition maxprec (kd : dkind) : Z := match kd with D64 => 18 | D128 => 38 end.

(* Three places of this path exist in two variants; vlib/tables_numfn.py reads from the source which one it has:
     bind_i8   true:  decimal_bind computes the digit counts in native i8 arithmetic, as quoted above (panics / wraps for
                      precision - scale > 127);  false: in i16, `i16::clamp(int_digits + scale, 1, MAX_PRECISION)`
     u64_prec  DecimalTypeMeta::new_for_datatype_id(UInt64).precision: 19 (one digit short) or 20
     wide128   false: the implicit casts to Decimal128 all score 140 and UInt64 -> Decimal64 is implicit (the table above);
               true: Int64 / UInt64 -> Decimal128 score 180, Decimal64 -> Decimal128 183 (180 + 183 > 2 * 181 Float64) and UInt64 -> Decimal64 is explicit:
                     Int64 / UInt64 ~ Decimal64 are compared as Decimal128 *)
Record cparams := { bind_i8 : bool; u64_prec : Z; wide128 : bool }.

(* the common (precision, scale) *)
Definition dec_bind_meta (P : cparams) (m : mode) (kd : dkind) (p1 s1 p2 s2 : Z) : outcome (Z * Z) :=
  if (p1 =? p2) && (s1 =? s2) then Ok (p1, s1) else
  let max_scale := Z.max s1 s2 in
  if bind_i8 P then
    bind_out (arith_result Native m Signed 8 (p1 - s1)) (fun li =>
    bind_out (arith_result Native m Signed 8 (p2 - s2)) (fun ri =>
    bind_out (arith_result Native m Signed 8 (Z.max li ri + max_scale)) (fun sum =>
    let np := sum mod 2 ^ 8 in
    Ok (if maxprec kd <? np then maxprec kd else np, max_scale))))
  else
    Ok (Z.max 1 (Z.min (Z.max (p1 - s1) (p2 - s2) + max_scale) (maxprec kd)), max_scale).

(* expr::cast of one side to decimal(np, ns) when its meta differs; None = NULL *)
Definition cast_side (kd : dkind) (p s np ns : Z) (v : option Z) : outcome (option Z) :=
  if (p =? np) && (s =? ns) then Ok v else
  bind_out (if in_range Signed 8 (s - ns) then Ok (s - ns) else Err) (fun diff =>
  bind_out (checked kd (10 ^ Z.abs diff)) (fun amount =>
  match v with
  | None => Ok None
  | Some x => bind_out (round_val kd np diff amount x) (fun y => Ok (Some y))
  end)).

(* Ok None = SQL NULL *)
Definition dec_cmp_core (P : cparams) (m : mode) (kd : dkind) (p1 s1 : Z) (v1 : option Z) (p2 s2 : Z) (v2 : option Z)
  : outcome (option comparison) :=
  bind_out (dec_bind_meta P m kd p1 s1 p2 s2) (fun ms =>
  let '(np, ns) := ms in
  bind_out (cast_side kd p1 s1 np ns v1) (fun a =>
  bind_out (cast_side kd p2 s2 np ns v2) (fun b =>
  Ok (match a, b with Some x, Some y => Some (x ?= y) | _, _ => None end)))).

(* the definition: the order of the rationals v1 / 10^s1 and v2 / 10^s2 *)
Definition spec_dec_cmp (s1 v1 s2 v2 : Z) : comparison :=
  let S := Z.max s1 s2 in (v1 * 10 ^ (S - s1)) ?= (v2 * 10 ^ (S - s2)).

(* ---- operands of other types *)
Inductive cop :=
| OpDec (kd : dkind) (p s : Z) (v : option Z)
| OpInt (sg : sgn) (w : Z) (v : option Z)
| OpF64 (bits : option Z).

(* total order key of a finite Float64 (-0.0 = 0.0) *)
Definition f64_key (bits : Z) : Z := if bits <? 2 ^ 63 then bits else - (bits - 2 ^ 63).
Definition f64_cmp (a b : option (option Z)) : outcome (option comparison) :=
  match a, b with
  | Some (Some x), Some (Some y) => Ok (Some (f64_key x ?= f64_key y))
  | Some None, Some _ | Some _, Some None => Ok None
  | _, _ => Err                                  (* outside the modelled float range: does not occur *)
  end.
(* `v as f64` / DecimalToFloat of an optional value; outer None = not representable in the model *)
Definition int_f64 (v : option Z) : option (option Z) :=
  match v with None => Some None | Some x => option_map Some (round_q_f64 x 1) end.
Definition dec_f64 (v : option Z) (s : Z) : option (option Z) :=
  match v with None => Some None | Some x => option_map Some (dec_to_f64 x s) end.

(* IntToDecimal to decimal(precision of the integer type, 0): the value itself, validated against the precision *)
Definition int_prec (P : cparams) (sg : sgn) (w : Z) : Z :=
  match sg with Unsigned => if w =? 64 then u64_prec P else int_meta_prec w | Signed => int_meta_prec w end.
Definition int_as_dec (P : cparams) (sg : sgn) (w : Z) (v : option Z) : outcome (option Z) :=
  match v with
  | None => Ok None
  | Some x => if vprec x (int_prec P sg w) then Ok (Some x) else Err
  end.

Definition kd_max (a b : dkind) : dkind := match a, b with D64, D64 => D64 | _, _ => D128 end.

(* decimal ~ r as the binder resolves it; flip = the decimal is the right operand *)
Definition dec_vs (P : cparams) (m : mode) (kd : dkind) (p s : Z) (v : option Z) (r : cop) (flip : bool) : outcome (option comparison) :=
  let core p1 s1 v1 k p2 s2 v2 :=
    if flip then dec_cmp_core P m k p2 s2 v2 p1 s1 v1 else dec_cmp_core P m k p1 s1 v1 p2 s2 v2 in
  let fl (a b : option (option Z)) := if flip then f64_cmp b a else f64_cmp a b in
  match r with
  | OpDec kd2 p2 s2 v2 => core p s v (kd_max kd kd2) p2 s2 v2
  | OpInt sg w x =>
    if w <=? 32 then bind_out (int_as_dec P sg w x) (fun y => core p s v kd (int_prec P sg w) 0 y)
    else if wide128 P then bind_out (int_as_dec P sg w x) (fun y => core p s v D128 (int_prec P sg w) 0 y)
    else match kd with
         | D128 => bind_out (int_as_dec P sg w x) (fun y => core p s v D128 (int_prec P sg w) 0 y)
         | D64 => match sg with
                  | Signed => fl (dec_f64 v s) (int_f64 x)
                  | Unsigned => Err
                  end
         end
  | OpF64 b => fl (dec_f64 v s) (match b with None => Some None | Some x => Some (Some x) end)
  end.

Definition impl_cmp_mixed (P : cparams) (m : mode) (l r : cop) : outcome (option comparison) :=
  match l, r with
  | OpDec kd p s v, _ => dec_vs P m kd p s v r false
  | _, OpDec kd p s v => dec_vs P m kd p s v l true
  | _, _ => Err                                   (* no decimal operand: not this section's subject *)
  end.

(* the definition for mixed operands: integers and decimals are exact rationals; against a Float64 the decimal is
   taken as the Float64 nearest to it (SQL: approximate numeric), then the floats are compared *)
Definition cop_null (o : cop) : bool :=
  match o with OpDec _ _ _ None | OpInt _ _ None | OpF64 None => true | _ => false end.
Definition spec_cmp_mixed (l r : cop) : outcome (option comparison) :=
  if cop_null l || cop_null r then Ok None else
  match l, r with
  | OpDec _ _ s1 (Some v1), OpDec _ _ s2 (Some v2) => Ok (Some (spec_dec_cmp s1 v1 s2 v2))
  | OpDec _ _ s1 (Some v1), OpInt _ _ (Some x) => Ok (Some (spec_dec_cmp s1 v1 0 x))
  | OpInt _ _ (Some x), OpDec _ _ s2 (Some v2) => Ok (Some (spec_dec_cmp 0 x s2 v2))
  | OpDec _ _ s1 (Some v1), OpF64 (Some b) =>
    match round_q_f64 v1 (10 ^ s1) with Some a => Ok (Some (f64_key a ?= f64_key b)) | None => Err end
  | OpF64 (Some b), OpDec _ _ s2 (Some v2) =>
    match round_q_f64 v2 (10 ^ s2) with Some a => Ok (Some (f64_key b ?= f64_key a)) | None => Err end
  | _, _ => Err
  end.

(* the eight SQL results from the three-way outcome: < <= = <> >= >, IS DISTINCT FROM, IS NOT DISTINCT FROM *)
Definition cmp_results (c : option comparison) (lnull rnull : bool) : list (option bool) :=
  let six := match c with
             | Some Lt => [true; true; false; true; false; false]
             | Some Eq => [false; true; true; false; true; false]
             | Some Gt => [false; false; false; true; true; true]
             | None => []
             end in
  let distinct := match c with
                  | Some Eq => false
                  | Some _ => true
                  | None => negb (lnull && rnull)
                  end in
  match c with
  | Some _ => map Some six ++ [Some distinct; Some (negb distinct)]
  | None => [None; None; None; None; None; None; Some distinct; Some (negb distinct)]
  end.
