(* C04 — the MergeQueue / GlobalSort barrier (execution/operators/sort/merge_queue.rs,
   global_sort.rs), N partitions, every critical section of `MergeQueue::inner` one atomic step.
   Definitions only.

   Phase of one partition (SortPartitionState + where it is inside poll_execute):
     MColl k  Collecting; its finalize will push k sorted blocks (k >= 0, fixed by its data)
     MMerge   Merging, runnable: the next poll calls poll_merge_next
     MBusy    popped two runs (running_merges += 1), merging outside the lock
     MParked  poll_merge_next stored the waker and returned Pending
     MTake    poll_merge_next returned Finished; lock released; take_sorted_run not yet called
     MDrain   take_sorted_run returned Some(run): this partition drains
     MDone    Exhausted (got None, or finished draining)
     MErr     an error path of the queue was taken (dec of 0, take before complete)
   A parked partition may be polled at any time (spurious poll): the poll rules apply to MMerge
   and MParked alike.  A waker stored in `wakers[p]` is identified with phase MParked of p: the
   slot is written only by the park branch and cleared only by wake_all, which makes p runnable
   (MMerge); extra wakes from a stale slot are covered by the spurious polls. *)
From Coq Require Import List Arith Bool.
From GV Require Import lib.Lts.
Import ListNotations.

Inductive mph := MColl (k : nat) | MMerge | MBusy | MParked | MTake | MDrain | MDone | MErr.

Record mst := {
  mps : list mph;
  runs : nat;        (* inner.runs.len() *)
  remaining : nat;   (* remaining_collection_count *)
  merging : nat;     (* running_merges *)
  taken : nat        (* ghost: number of take_sorted_run calls that returned Some *)
}.

(* MergeQueueInner::is_complete *)
(* MergeQueueInner::is_complete, as written:
     remaining == 0 && self.running_merges == 0 && (self.runs.len() == 1 || self.runs.is_empty()) *)
Definition complete (s : mst) : bool :=
  (remaining s =? 0) && (merging s =? 0) && ((runs s =? 1) || (runs s =? 0)).

(* PartitionWakers::wake_all *)
Definition mwake (p : mph) : mph := match p with MParked => MMerge | q => q end.
Definition pollable (p : mph) : bool := match p with MMerge | MParked => true | _ => false end.

Inductive mstep : mst -> mst -> Prop :=
(* poll_finalize_execute: sort_unsorted, add_sorted_blocks: [lock] runs.extend(k blocks);
   remaining.dec_by_one()?  -- NO wake -- ; NeedsDrain, state Merging *)
| m_finalize i k s :
    nth_error (mps s) i = Some (MColl k) -> 0 < remaining s ->
    mstep s {| mps := upd (mps s) i MMerge; runs := runs s + k; remaining := remaining s - 1;
               merging := merging s; taken := taken s |}
| m_finalize_err i k s :      (* dec_by_one on 0: "Attempted to decrement 0" (blocks were already pushed) *)
    nth_error (mps s) i = Some (MColl k) -> remaining s = 0 ->
    mstep s {| mps := upd (mps s) i MErr; runs := runs s + k; remaining := remaining s;
               merging := merging s; taken := taken s |}
(* poll_merge_next, first critical section *)
| m_poll_complete i p s :
    nth_error (mps s) i = Some p -> pollable p = true -> complete s = true ->
    mstep s {| mps := upd (mps s) i MTake; runs := runs s; remaining := remaining s;
               merging := merging s; taken := taken s |}
| m_poll_park i p s :
    nth_error (mps s) i = Some p -> pollable p = true -> complete s = false -> runs s < 2 ->
    mstep s {| mps := upd (mps s) i MParked; runs := runs s; remaining := remaining s;
               merging := merging s; taken := taken s |}
| m_poll_pop i p s :
    nth_error (mps s) i = Some p -> pollable p = true -> complete s = false -> 2 <= runs s ->
    mstep s {| mps := upd (mps s) i MBusy; runs := runs s - 2; remaining := remaining s;
               merging := S (merging s); taken := taken s |}
(* poll_merge_next, second critical section: push_back(out); running_merges -= 1; wake_all;
   Merged -> the operator wakes itself and returns Pending: runnable again *)
| m_merge_done i s :
    nth_error (mps s) i = Some MBusy -> 0 < merging s ->
    mstep s {| mps := upd (map mwake (mps s)) i MMerge; runs := S (runs s); remaining := remaining s;
               merging := merging s - 1; taken := taken s |}
| m_merge_done_err i s :      (* usize underflow of running_merges *)
    nth_error (mps s) i = Some MBusy -> merging s = 0 ->
    mstep s {| mps := upd (mps s) i MErr; runs := S (runs s); remaining := remaining s;
               merging := merging s; taken := taken s |}
(* take_sorted_run: [lock] !is_complete -> Err; wake_all; runs.pop_front() *)
| m_take_some i s :
    nth_error (mps s) i = Some MTake -> complete s = true -> 0 < runs s ->
    mstep s {| mps := upd (map mwake (mps s)) i MDrain; runs := runs s - 1; remaining := remaining s;
               merging := merging s; taken := S (taken s) |}
| m_take_none i s :
    nth_error (mps s) i = Some MTake -> complete s = true -> runs s = 0 ->
    mstep s {| mps := upd (map mwake (mps s)) i MDone; runs := runs s; remaining := remaining s;
               merging := merging s; taken := taken s |}
| m_take_err i s :
    nth_error (mps s) i = Some MTake -> complete s = false ->
    mstep s {| mps := upd (mps s) i MErr; runs := runs s; remaining := remaining s;
               merging := merging s; taken := taken s |}
(* Draining -> Exhausted *)
| m_drain_done i s :
    nth_error (mps s) i = Some MDrain ->
    mstep s {| mps := upd (mps s) i MDone; runs := runs s; remaining := remaining s;
               merging := merging s; taken := taken s |}.

(* prepare_for_partitions(N): remaining := N; partition j will contribute (nth j ks) blocks *)
Definition minit (ks : list nat) : mst :=
  {| mps := map MColl ks; runs := 0; remaining := length ks; merging := 0; taken := 0 |}.

Inductive mreach (ks : list nat) : mst -> Prop :=
| mr_init : mreach ks (minit ks)
| mr_step s s' : mreach ks s -> mstep s s' -> mreach ks s'.

Definition is_coll p := match p with MColl _ => true | _ => false end.
Definition is_merge p := match p with MMerge => true | _ => false end.
Definition is_busy p := match p with MBusy => true | _ => false end.
Definition is_parked p := match p with MParked => true | _ => false end.
Definition is_take p := match p with MTake => true | _ => false end.
Definition is_drain p := match p with MDrain => true | _ => false end.
Definition is_done p := match p with MDone => true | _ => false end.
Definition is_err p := match p with MErr => true | _ => false end.

Definition mall_done (s : mst) : Prop := count is_done (mps s) = length (mps s).

(* termination measure *)
Definition mweight (p : mph) : nat :=
  match p with
  | MColl k => 4 + 2 * k | MMerge => 3 | MParked => 3 | MBusy => 6 | MTake => 2 | MDrain => 1
  | MDone => 0 | MErr => 0
  end.
Definition mwork (s : mst) : nat := 2 * runs s + sumw mweight (mps s).
Definition mmeasure (s : mst) : nat := (length (mps s) + 1) * mwork s + count is_merge (mps s).

Definition future_blocks (p : mph) : nat := match p with MColl k => k | _ => 0 end.
Definition total_blocks (ks : list nat) : nat := fold_right Nat.add 0 ks.


(* ---------------------------------------------------------------------------------------------
   The queue's bookkeeping as executable functions (one per critical section), compared step for
   step with the real MergeQueue by `gv_sched mq` (hooks verif_state / verif_hooks::IN_FLIGHT).
   q_wakers p = a waker is stored in wakers[p].  proofs/BarrierMQProofs.v shows that every mstep of
   the relational model above is one of these operations (mq_model_steps_are_queue_ops). *)
Record mq := { q_runs : nat; q_remaining : nat; q_merging : nat; q_wakers : list bool }.

Definition q_complete (q : mq) : bool :=
  (q_remaining q =? 0) && (q_merging q =? 0) && ((q_runs q =? 1) || (q_runs q =? 0)).

(* new + prepare_for_partitions(n) *)
Definition q_new (n : nat) : mq :=
  {| q_runs := 0; q_remaining := n; q_merging := 0; q_wakers := repeat false n |}.

(* indices of stored wakers, ascending: what wake_all fires *)
Fixpoint stored_from (i : nat) (l : list bool) : list nat :=
  match l with [] => [] | b :: t => (if b then [i] else []) ++ stored_from (S i) t end.
Definition q_stored (q : mq) : list nat := stored_from 0 (q_wakers q).
Definition q_clear (q : mq) : list bool := map (fun _ => false) (q_wakers q).

(* add_sorted_blocks: runs.extend(k blocks); remaining.dec_by_one()? (Err if it was 0) *)
Definition q_add (q : mq) (k : nat) : mq * bool :=
  if q_remaining q =? 0 then
    ({| q_runs := q_runs q + k; q_remaining := 0; q_merging := q_merging q; q_wakers := q_wakers q |}, false)
  else
    ({| q_runs := q_runs q + k; q_remaining := q_remaining q - 1; q_merging := q_merging q; q_wakers := q_wakers q |}, true).

Inductive qpoll := QFinished | QPending | QPopped.
(* poll_merge_next, first critical section *)
Definition q_poll (q : mq) (p : nat) : mq * qpoll :=
  if q_complete q then (q, QFinished)
  else if q_runs q <? 2 then
    ({| q_runs := q_runs q; q_remaining := q_remaining q; q_merging := q_merging q;
        q_wakers := upd (q_wakers q) p true |}, QPending)
  else
    ({| q_runs := q_runs q - 2; q_remaining := q_remaining q; q_merging := S (q_merging q);
        q_wakers := q_wakers q |}, QPopped).

(* poll_merge_next, second critical section: push_back; running_merges -= 1; wake_all *)
Definition q_merge_done (q : mq) : mq * list nat :=
  ({| q_runs := S (q_runs q); q_remaining := q_remaining q; q_merging := q_merging q - 1;
      q_wakers := q_clear q |}, q_stored q).

Inductive qtake := QErr | QSome | QNone.
(* take_sorted_run *)
Definition q_take (q : mq) : mq * qtake * list nat :=
  if q_complete q then
    if q_runs q =? 0 then
      ({| q_runs := 0; q_remaining := q_remaining q; q_merging := q_merging q; q_wakers := q_clear q |}, QNone, q_stored q)
    else
      ({| q_runs := q_runs q - 1; q_remaining := q_remaining q; q_merging := q_merging q; q_wakers := q_clear q |}, QSome, q_stored q)
  else (q, QErr, []).

(* the queue part of a model state *)
Definition q_of (s : mst) : mq :=
  {| q_runs := runs s; q_remaining := remaining s; q_merging := merging s; q_wakers := map is_parked (mps s) |}.
