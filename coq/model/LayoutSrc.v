(* C16 — the string predicates of the CURRENT source (definitions only): model/Layout.v instantiated with
   gen/TablesLayout.v (regenerated on every run); None when a predicate could not be read. *)
From Coq Require Import NArith List.
From GV Require Import model.Layout.
From GV Require gen.TablesLayout.
Open Scope N_scope.

Definition mk_pred (op rhs : option N) : option pred :=
  match op, rhs with Some o, Some r => Some {| pr_op := o; pr_rhs := r |} | _, _ => None end.
Definition src_str_preds : option str_preds :=
  match mk_pred TablesLayout.array_push_inline_op TablesLayout.array_push_inline_rhs,
        mk_pred TablesLayout.sv_is_inline_op TablesLayout.sv_is_inline_rhs,
        mk_pred TablesLayout.sv_is_reference_op TablesLayout.sv_is_reference_rhs,
        mk_pred TablesLayout.sv_new_inline_assert_op TablesLayout.sv_new_inline_assert_rhs,
        mk_pred TablesLayout.sv_new_reference_assert_op TablesLayout.sv_new_reference_assert_rhs with
  | Some a, Some b, Some c, Some d, Some e =>
    match mk_pred TablesLayout.sp_is_inline_op TablesLayout.sp_is_inline_rhs,
          mk_pred TablesLayout.sp_is_reference_op TablesLayout.sp_is_reference_rhs,
          mk_pred TablesLayout.sp_new_inline_assert_op TablesLayout.sp_new_inline_assert_rhs,
          mk_pred TablesLayout.sp_new_reference_assert_op TablesLayout.sp_new_reference_assert_rhs with
    | Some f, Some g, Some h, Some i =>
      Some {| push_inline := a; sv_inline := b; sv_reference := c; sv_inline_assert := d; sv_reference_assert := e;
              sp_inline := f; sp_reference := g; sp_inline_assert := h; sp_reference_assert := i |}
    | _, _, _, _ => None
    end
  | _, _, _, _, _ => None
  end.
