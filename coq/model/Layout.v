(* C16 — the address arithmetic of the row formats (definitions only).  Transcribed from
     crates/glaredb_core/src/arrays/row/row_layout.rs        RowLayout::try_new, row_width_for_physical_type,
                                                             row_encoding_requires_heap, byte_offset
     crates/glaredb_core/src/arrays/bitmap/view.rs           num_bytes_for_bitmap
     crates/glaredb_core/src/arrays/row/aggregate_layout.rs  AggregateLayout::try_new, align_len
     crates/glaredb_core/src/arrays/sort/sort_layout.rs      SortLayout::try_new, key_width_for_physical_type
     crates/glaredb_core/src/arrays/row/block.rs             Block::num_rows, remaining_byte_capacity, remaing_row_capacity
     crates/glaredb_core/src/arrays/row/row_blocks.rs        RowBlocks::prepare_append (row blocks part),
                                                             allocate_and_init_fixed_size_block
     crates/glaredb_core/src/arrays/string.rs                StringView::new_inline / new_reference / is_inline
     crates/glaredb_core/src/execution/operators/hash_aggregate/hash_table/directory.rs
                                                             compute_offset_from_hash, inc_and_wrap_offset
     crates/glaredb_core/src/execution/operators/hash_join/hash_table/directory.rs   capacity_mask
   All sizes are unbounded naturals (N); usize overflow is not modelled.
   Partial operations: a division by a zero row width, the `unimplemented!()` of the sort key width and the
   `assert!(alignment != 0)` are `None` / `Panic` here, never a default value. *)
From Coq Require Import NArith List Bool.
Import ListNotations.
Open Scope N_scope.

(* PhysicalType *)
Inductive pty :=
| PNull | PBool | PI8 | PI16 | PI32 | PI64 | PI128 | PU8 | PU16 | PU32 | PU64 | PU128
| PF16 | PF32 | PF64 | PInterval | PBinary | PUtf8 | PList | PStruct.

(* row_width_for_physical_type: size_of of the stored value; StringPtr is 16 bytes, Interval 16 *)
Definition row_w (t : pty) : N :=
  match t with
  | PNull => 0 | PBool => 1
  | PI8 => 1 | PI16 => 2 | PI32 => 4 | PI64 => 8 | PI128 => 16
  | PU8 => 1 | PU16 => 2 | PU32 => 4 | PU64 => 8 | PU128 => 16
  | PF16 => 2 | PF32 => 4 | PF64 => 8
  | PInterval => 16 | PBinary => 16 | PUtf8 => 16
  | PList => 0 | PStruct => 0
  end.
Definition requires_heap (t : pty) : bool :=
  match t with PUtf8 | PBinary | PList | PStruct => true | _ => false end.

(* num_bytes_for_bitmap: entries.div_ceil(8) *)
Definition validity_bytes (n : nat) : N := (N.of_nat n + 7) / 8.

(* the running-offset loop shared by RowLayout::try_new and SortLayout::try_new:
   `offsets.push(offset); offset += width;`  -> (offsets, final offset) *)
Fixpoint offsets_from {A} (w : A -> N) (off : N) (ts : list A) : list N * N :=
  match ts with
  | [] => ([], off)
  | t :: r => let p := offsets_from w (off + w t) r in (off :: fst p, snd p)
  end.

Record row_layout := { rl_offsets : list N; rl_width : N; rl_validity : N; rl_heap : bool }.
Definition row_layout_of (ts : list pty) : row_layout :=
  let v := validity_bytes (List.length ts) in
  let p := offsets_from row_w v ts in
  {| rl_offsets := fst p; rl_width := snd p; rl_validity := v; rl_heap := existsb requires_heap ts |}.
(* RowLayout::byte_offset(row, column) *)
Definition byte_offset (L : row_layout) (row : N) (col : nat) : option N :=
  option_map (fun o => rl_width L * row + o) (nth_error (rl_offsets L) col).

(* ---- aggregate layout *)
(* align_len: assert!(alignment != 0); curr_len.div_ceil(alignment) * alignment *)
Definition align_len (cur al : N) : option N :=
  if al =? 0 then None else Some (((cur + al - 1) / al) * al).

(* aggregates: (size, align) of each state, as `aggregate_state_info()` reports them *)
Definition base_align_of (states : list (N * N)) : N :=
  match states with
  | [] => 1                                                  (* .max().unwrap_or(1) *)
  | _ => fold_left (fun m s => N.max m (snd s)) states 0
  end.
Fixpoint agg_offsets (base : N) (off : N) (states : list (N * N)) : option (list N * N) :=
  match states with
  | [] => Some ([], off)
  | s :: r =>
    match align_len (off + fst s) base with
    | None => None
    | Some off' => match agg_offsets base off' r with
                   | Some p => Some (off :: fst p, snd p)
                   | None => None
                   end
    end
  end.
Record agg_layout := { al_base : N; al_width : N; al_offsets : list N; al_groups : row_layout }.
Definition agg_layout_of (groups : list pty) (states : list (N * N)) : option agg_layout :=
  let g := row_layout_of groups in
  let base := base_align_of states in
  match align_len (rl_width g) base with
  | None => None
  | Some off0 =>
    match agg_offsets base off0 states with
    | None => None
    | Some p => match align_len (snd p) base with
                | None => None
                | Some w => Some {| al_base := base; al_width := w; al_offsets := fst p; al_groups := g |}
                end
    end
  end.

(* ---- sort layout *)
(* key_width_for_physical_type: ENCODE_WIDTH + 1 validity byte; `_ => unimplemented!()` *)
Definition key_w (t : pty) : option N :=
  match t with
  | PNull => Some 1 | PBool => Some 2
  | PI8 => Some 2 | PI16 => Some 3 | PI32 => Some 5 | PI64 => Some 9 | PI128 => Some 17
  | PU8 => Some 2 | PU16 => Some 3 | PU32 => Some 5 | PU64 => Some 9 | PU128 => Some 17
  | PF16 => Some 3 | PF32 => Some 5 | PF64 => Some 9
  | PInterval => Some 17 | PBinary => Some 13 | PUtf8 => Some 13
  | PList | PStruct => None
  end.
Definition row_index_width : N := 4.   (* SortLayout::ROW_INDEX_WIDTH = size_of::<u32>() *)
Definition key_w0 (t : pty) : N := match key_w t with Some w => w | None => 0 end.
Definition is_heap_key (t : pty) : bool := match t with PUtf8 | PBinary => true | _ => false end.
Fixpoint heap_mapping_from (next : nat) (ts : list pty) : list (option nat) :=
  match ts with
  | [] => []
  | t :: r => if is_heap_key t then Some next :: heap_mapping_from (S next) r else None :: heap_mapping_from next r
  end.
Record sort_layout := { sl_offsets : list N; sl_widths : list N; sl_compare : N; sl_width : N;
                        sl_heap_mapping : list (option nat); sl_heap : row_layout }.
Inductive outcome (A : Type) := Ok (a : A) | Err | Panic.
Arguments Ok {A} a.
Arguments Err {A}.
Arguments Panic {A}.
Definition is_nested (t : pty) : bool := match t with PList | PStruct => true | _ => false end.
(* since 59d348515 the loop starts with `if matches!(phys_type, List | Struct) { not_implemented!(..) }`, so the
   `unimplemented!()` of the width function (Panic) is no longer reached *)
Definition sort_layout_of (ts : list pty) : outcome sort_layout :=
  if existsb is_nested ts then Err
  else if forallb (fun t => match key_w t with Some _ => true | None => false end) ts then
    let p := offsets_from key_w0 0 ts in
    Ok {| sl_offsets := fst p; sl_widths := map key_w0 ts; sl_compare := snd p; sl_width := snd p + row_index_width;
          sl_heap_mapping := heap_mapping_from 0 ts; sl_heap := row_layout_of (filter is_heap_key ts) |}
  else Panic.

(* ---- blocks *)
Record block := { b_cap : N; b_res : N }.    (* data.len(), reserved_bytes *)
(* Block::num_rows: reserved_bytes / row_width (panics on a zero width) *)
Definition num_rows (b : block) (rw : N) : option N := if rw =? 0 then None else Some (b_res b / rw).
(* Block::remaing_row_capacity: (data.len() - reserved_bytes) / row_width *)
Definition remaining_rows (b : block) (rw : N) : option N :=
  if rw =? 0 then None else if b_cap b <? b_res b then None else Some ((b_cap b - b_res b) / rw).

Fixpoint nrange (start : N) (k : nat) : list N :=
  match k with O => [] | S k' => start :: nrange (start + 1) k' end.

Inductive pa_out :=
| PaOk (blocks : list block) (ptrs : list (nat * N))     (* row pointers: (block index, byte offset) *)
| PaPanic
| PaDiverge.                                              (* fuel exhausted: the `while remaining > 0` loop did not end *)

(* the `while remaining > 0` loop of prepare_append; `done ++ [cur]` are the row blocks, cur is the last *)
Fixpoint pa_loop (fuel : nat) (rw rc : N) (done : list block) (cur : block) (remaining : N)
         (ptrs : list (nat * N)) : pa_out :=
  match fuel with
  | O => PaDiverge
  | S f =>
    if remaining =? 0 then PaOk (done ++ [cur]) ptrs
    else
      match remaining_rows cur rw, num_rows cur rw with
      | Some free, Some start =>
        let k := N.min free remaining in
        let new_ptrs := map (fun j => (List.length done, rw * j)) (nrange start (N.to_nat k)) in
        let cur' := {| b_cap := b_cap cur; b_res := b_res cur + k * rw |} in
        let rem' := remaining - k in
        if rem' =? 0 then PaOk (done ++ [cur']) (ptrs ++ new_ptrs)
        else pa_loop f rw rc (done ++ [cur']) {| b_cap := rw * rc; b_res := 0 |} rem' (ptrs ++ new_ptrs)
      | _, _ => PaPanic
      end
  end.

Fixpoint split_last (l : list block) : option (list block * block) :=
  match l with
  | [] => None
  | [x] => Some ([], x)
  | x :: r => match split_last r with Some (d, c) => Some (x :: d, c) | None => None end
  end.
Definition prepare_append (fuel : nat) (rw rc : N) (blocks : list block) (rows : N) : pa_out :=
  match split_last blocks with
  | None => pa_loop fuel rw rc [] {| b_cap := rw * rc; b_res := 0 |} rows []      (* allocate the first block *)
  | Some (d, c) => pa_loop fuel rw rc d c rows []
  end.
(* a sequence of appends on the same blocks (the harness hook runs this) *)
Fixpoint appends (rw rc : N) (blocks : list block) (rows : list N) : option (list block * list (list (nat * N))) :=
  match rows with
  | [] => Some (blocks, [])
  | r :: rest =>
    match prepare_append (N.to_nat r + 2) rw rc blocks r with
    | PaOk bs ps => match appends rw rc bs rest with Some (bf, pss) => Some (bf, ps :: pss) | None => None end
    | _ => None
    end
  end.

(* ---- string views *)
(* new_inline asserts len <= MAX_INLINE_LEN, new_reference asserts len > MAX_INLINE_LEN; is_inline tests
   `len <= <literal>` with its own literal *)
Inductive sview := SInline (len : N) | SReference (len : N).
Definition sv_new (max_inline : N) (len : N) : sview := if len <=? max_inline then SInline len else SReference len.
Definition sv_len (v : sview) : N := match v with SInline l => l | SReference l => l end.
Definition sv_is_inline (literal : N) (v : sview) : bool := sv_len v <=? literal.

(* ---- hash table directories *)
Definition offset_from_hash (hash cap : N) : N := N.land hash (cap - 1).     (* hash & (cap - 1) *)
Definition inc_and_wrap (offset cap : N) : N := N.land (offset + 1) (cap - 1).

(* ---------------------------------------------------------------- inline / reference PREDICATES, site by site *)
(* every length test that chooses between the inline and the reference variant of the string unions, as written:
   operator code 0 `<`, 1 `<=`, 2 `>`, 3 `>=` against a right-hand side (gen/TablesLayout.v) *)
Record pred := { pr_op : N; pr_rhs : N }.
Definition holds (p : pred) (len : N) : bool :=
  match pr_op p with
  | 0 => len <? pr_rhs p
  | 1 => len <=? pr_rhs p
  | 2 => pr_rhs p <? len
  | 3 => pr_rhs p <=? len
  | _ => false
  end.
Record str_preds := {
  push_inline : pred;            (* array_buffer.rs: `if value.len() <= MAX_INLINE_LEN { StringView::new_inline .. }` *)
  sv_inline : pred;              (* StringView::is_inline  (array readers; the row writer and heap sizing: `!view.is_inline()`) *)
  sv_reference : pred;           (* StringView::is_reference *)
  sv_inline_assert : pred;       (* assert! in StringView::new_inline *)
  sv_reference_assert : pred;    (* assert! in StringView::new_reference *)
  sp_inline : pred;              (* StringPtr::is_inline   (row readers: StringPtr::as_bytes dispatches on it) *)
  sp_reference : pred;           (* StringPtr::is_reference *)
  sp_inline_assert : pred;       (* assert! in StringPtr::new_inline *)
  sp_reference_assert : pred }.  (* assert! in StringPtr::new_reference (row writer, reference path) *)

Inductive repr := RInline | RReference.          (* the union variant that was WRITTEN *)
Inductive acc (A : Type) := Safe (a : A) | Wild | AssertFail.   (* Wild: one variant read as the other *)
Arguments Safe {A} a.
Arguments Wild {A}.
Arguments AssertFail {A}.

(* pushing a value of `len` bytes into a string array *)
Definition push_view (S : str_preds) (len : N) : acc repr :=
  if holds (push_inline S) len
  then (if holds (sv_inline_assert S) len then Safe RInline else AssertFail)
  else (if holds (sv_reference_assert S) len then Safe RReference else AssertFail).
(* write_binary for a valid value whose view was written as variant v: `if !view.is_inline()` copies the bytes to
   the heap block (reading the view as a reference) and stores StringPtr::new_reference, else stores
   StringPtr::from( *view.as_inline()) *)
Definition row_write (S : str_preds) (v : repr) (len : N) : acc repr :=
  if negb (holds (sv_inline S) len)
  then match v with
       | RReference => if holds (sp_reference_assert S) len then Safe RReference else AssertFail
       | RInline => Wild
       end
  else match v with RInline => Safe RInline | RReference => Wild end.
(* StringPtr::as_bytes: `if self.is_inline() { inline bytes } else { from_raw_parts(reference.ptr, len) }` *)
Definition row_read (S : str_preds) (p : repr) (len : N) : acc N :=
  if holds (sp_inline S) len
  then match p with RInline => Safe len | RReference => Wild end
  else match p with RReference => Safe len | RInline => Wild end.
Definition roundtrip (S : str_preds) (len : N) : acc N :=
  match push_view S len with
  | Safe v => match row_write S v len with Safe p => row_read S p len | Wild => Wild | AssertFail => AssertFail end
  | Wild => Wild
  | AssertFail => AssertFail
  end.
(* a predicate that is `len <= k` / `len > k` for all lengths, if it is one *)
Definition le_thr (p : pred) : option N :=
  match pr_op p with
  | 1 => Some (pr_rhs p)
  | 0 => if pr_rhs p =? 0 then None else Some (pr_rhs p - 1)
  | _ => None
  end.
Definition gt_thr (p : pred) : option N :=
  match pr_op p with
  | 2 => Some (pr_rhs p)
  | 3 => if pr_rhs p =? 0 then None else Some (pr_rhs p - 1)
  | _ => None
  end.
Definition optN_is (o : option N) (k : N) : bool := match o with Some x => x =? k | None => false end.
Definition preds_agree (S : str_preds) (k : N) : bool :=
  optN_is (le_thr (push_inline S)) k && optN_is (le_thr (sv_inline S)) k && optN_is (le_thr (sv_inline_assert S)) k &&
  optN_is (le_thr (sp_inline S)) k && optN_is (le_thr (sp_inline_assert S)) k &&
  optN_is (gt_thr (sv_reference S)) k && optN_is (gt_thr (sv_reference_assert S)) k &&
  optN_is (gt_thr (sp_reference S)) k && optN_is (gt_thr (sp_reference_assert S)) k.

(* ---------------------------------------------------------------- heap sizes (RowLayout::compute_heap_sizes) *)
(* a Utf8/Binary array as the row code sees it: validity per row, the array's own selection (row -> view index),
   the byte length of every view *)
Record sarray := { a_valid : list bool; a_sel : list nat; a_lens : list N }.
(* the contribution of one array to one output row in compute_heap_sizes:
     if array.validity.is_valid(row) { let sel = selection.get(row).unwrap(); let view = metadatas[sel];
                                       if !view.is_inline() { sizes[output] += view.data_len() } }
   None = an index panics *)
Definition heap_contrib (S : str_preds) (a : sarray) (row : nat) : option N :=
  match nth_error (a_valid a) row with
  | None => None
  | Some false => Some 0
  | Some true =>
    match nth_error (a_sel a) row with
    | None => None
    | Some sel => match nth_error (a_lens a) sel with
                  | None => None
                  | Some len => Some (if holds (sv_inline S) len then 0 else len)
                  end
    end
  end.
(* `for (output, row) in rows.into_iter().enumerate()` for one array *)
Fixpoint add_array (S : str_preds) (a : sarray) (rows : list nat) (sizes : list N) : option (list N) :=
  match rows, sizes with
  | [], [] => Some []
  | r :: rs, s :: ss =>
    match heap_contrib S a r, add_array S a rs ss with
    | Some c, Some rest => Some (s + c :: rest)
    | _, _ => None
    end
  | _, _ => None
  end.
(* `sizes.fill(0); for array in arrays { .. }` *)
Definition compute_heap_sizes (S : str_preds) (arrays : list sarray) (rows : list nat) : option (list N) :=
  fold_left (fun acc a => match acc with Some sz => add_array S a rows sz | None => None end)
            arrays (Some (repeat 0 (List.length rows))).

(* what write_binary copies to the heap for one array and one row: the all-valid fast path does not look at the
   validity, the other path does *)
Definition write_contrib (S : str_preds) (a : sarray) (row : nat) : option N :=
  let body := match nth_error (a_sel a) row with
              | None => None
              | Some sel => match nth_error (a_lens a) sel with
                            | None => None
                            | Some len => Some (if negb (holds (sv_inline S) len) then len else 0)
                            end
              end in
  if forallb (fun b => b) (a_valid a) then body
  else match nth_error (a_valid a) row with
       | None => None
       | Some true => body
       | Some false => Some 0
       end.
(* bytes written for one row over all arrays (heap_pointers[output] advances by each) *)
Definition bytes_written (S : str_preds) (arrays : list sarray) (row : nat) : option N :=
  fold_left (fun acc a => match acc, write_contrib S a row with Some x, Some c => Some (x + c) | _, _ => None end)
            arrays (Some 0).
(* prepare_append (heap part): one heap block of `sum sizes` bytes, heap pointer i at the sum of the sizes before i *)
Definition heap_block_of (sizes : list N) : list N * N := offsets_from (fun s => s) 0 sizes.
