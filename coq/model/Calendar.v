(* Proleptic Gregorian calendar: day number (days since 1970-01-01, the Date32 value) <-> (y, m, d).
   The engine delegates to chrono 0.4.41 (`NaiveDate::num_days_from_ce`, `DateTime::from_timestamp`);
   this is the civil-from-days / days-from-civil formulation with floor division, tied to chrono by
   the correspondence check.  Definitions only; proofs in proofs/CalendarProofs.v. *)
From Coq Require Import ZArith Bool.
Open Scope Z_scope.

Definition is_leap (y : Z) : bool :=
  (y mod 4 =? 0) && (negb (y mod 100 =? 0) || (y mod 400 =? 0)).

Definition days_in_month (y m : Z) : Z :=
  if m =? 2 then (if is_leap y then 29 else 28)
  else if (m =? 4) || (m =? 6) || (m =? 9) || (m =? 11) then 30 else 31.

Definition valid_ymd (y m d : Z) : bool :=
  (1 <=? m) && (m <=? 12) && (1 <=? d) && (d <=? days_in_month y m).

(* day of era from (year of era, month index counted from March, day of month) *)
Definition doe_of (yoe mp d : Z) : Z :=
  yoe * 365 + yoe / 4 - yoe / 100 + (153 * mp + 2) / 5 + d - 1.

Definition days_from_civil (y m d : Z) : Z :=
  let y' := if m <=? 2 then y - 1 else y in
  let era := y' / 400 in
  let yoe := y' mod 400 in
  let mp := if 2 <? m then m - 3 else m + 9 in
  era * 146097 + doe_of yoe mp d - 719468.

Definition split_doe (doe : Z) : Z * Z * Z :=
  let yoe := (doe - doe / 1460 + doe / 36524 - doe / 146096) / 365 in
  let doy := doe - (365 * yoe + yoe / 4 - yoe / 100) in
  let mp := (5 * doy + 2) / 153 in
  let d := doy - (153 * mp + 2) / 5 + 1 in
  (yoe, mp, d).

Definition civil_from_days (z : Z) : Z * Z * Z :=
  let z' := z + 719468 in
  let era := z' / 146097 in
  let doe := z' mod 146097 in
  let '(yoe, mp, d) := split_doe doe in
  let m := if mp <? 10 then mp + 3 else mp - 9 in
  let y := yoe + era * 400 + (if m <=? 2 then 1 else 0) in
  (y, m, d).

(* chrono's supported years (NaiveDate::MIN / MAX) *)
Definition min_year : Z := -262143.
Definition max_year : Z := 262142.
Definition min_days : Z := days_from_civil min_year 1 1.
Definition max_days : Z := days_from_civil max_year 12 31.
Definition day_in_range (z : Z) : bool := (min_days <=? z) && (z <=? max_days).

(* length of month `mp` (0 = March .. 11 = February) of era-year yoe; February belongs to the
   civil year yoe + 1 *)
Definition mp_len (yoe mp : Z) : Z :=
  if mp =? 11 then (if is_leap (yoe + 1) then 29 else 28)
  else if (mp =? 1) || (mp =? 3) || (mp =? 6) || (mp =? 8) then 30 else 31.

(* bounded universal quantification by binary splitting: checks f on acc*2^depth .. +2^depth-1 *)
Fixpoint all_bits (depth : nat) (acc : Z) (f : Z -> bool) : bool :=
  match depth with
  | O => f acc
  | S k => all_bits k (2 * acc) f && all_bits k (2 * acc + 1) f
  end.

(* the two facts about one 400-year era that are established by exhaustive evaluation *)
Definition era_check_split (doe : Z) : bool :=
  if doe <? 146097 then
    let '(yoe, mp, d) := split_doe doe in
    (0 <=? yoe) && (yoe <? 400) && (0 <=? mp) && (mp <? 12) && (1 <=? d) && (d <=? mp_len yoe mp)
    && (doe_of yoe mp d =? doe)
  else true.

(* index = (yoe * 12 + mp) * 32 + d *)
Definition era_check_join (i : Z) : bool :=
  let d := i mod 32 in let mp := (i / 32) mod 12 in let yoe := i / 384 in
  if (yoe <? 400) && (1 <=? d) && (d <=? mp_len yoe mp) then
    let doe := doe_of yoe mp d in
    (0 <=? doe) && (doe <? 146097) &&
    (let '(yoe', mp', d') := split_doe doe in (yoe' =? yoe) && (mp' =? mp) && (d' =? d))
  else true.
