(* C03 (part): the shared-state operators LIMIT/OFFSET, generate_series, UNION ALL.
   Definitions only (executable).

   1. `limit_step` transcribes `PhysicalLimit::poll_execute`
      (/repo/crates/glaredb_core/src/execution/operators/limit.rs).  The operator state
      `(remaining_offset, remaining_count)` sits behind ONE mutex shared by all partitions; every
      partition calls poll_execute with its next input batch, so an execution is a sequence of calls
      in the order in which the lock was taken.  `usize` subtraction is modelled as checked
      (`None` = the subtraction would underflow: a panic in debug builds, a wrap in release builds).

   2. `series_*` transcribes `functions/table/builtin/series.rs` (`SeriesParams::generate_next`,
      `GenerateSeriesI64::poll_execute`) together with `operators/single_row.rs` (which partition
      receives the one parameter row).

   3. `union_*` transcribes `operators/union.rs`: per partition a one-slot buffer between the push
      side (left child) and the execute side (right child). *)
From Coq Require Import NArith ZArith List Bool Arith.
Import ListNotations.

(* ------------------------------------------------------------------ LIMIT *)

Inductive lpoll := LReady | LNeedsMore | LExhausted.

Definition lstate := (nat * nat)%type.          (* remaining_offset, remaining_count *)

Definition sub_chk (a b : nat) : option nat := if Nat.leb b a then Some (a - b) else None.

(* result of one poll_execute: new state, the slice (skip, take) of the input batch that is
   emitted (NeedsMore emits nothing: (0,0)), and the poll value *)
Definition limit_step (st : lstate) (n : nat) : option (lstate * (nat * nat) * lpoll) :=
  let '(ro, rc) := st in
  if Nat.ltb 0 ro then
    if Nat.leb n ro then
      (* state.remaining_offset -= input.num_rows(); return NeedsMore *)
      match sub_chk ro n with
      | Some ro' => Some ((ro', rc), (0, 0), LNeedsMore)
      | None => None
      end
    else
      (* count = min(num_rows - remaining_offset, remaining_count) *)
      match sub_chk n ro with
      | Some d =>
          let count := Nat.min d rc in
          match sub_chk rc count with
          | Some rc' => Some ((0, rc'), (ro, count), if Nat.eqb rc' 0 then LExhausted else LReady)
          | None => None
          end
      | None => None
      end
  else if Nat.ltb rc n then
    (* output.set_num_rows(remaining_count); remaining_count = 0; Exhausted *)
    Some ((0, 0), (0, rc), LExhausted)
  else
    (* remaining_count -= output.num_rows(); Ready   [note: Ready even when the count becomes 0] *)
    match sub_chk rc n with
    | Some rc' => Some ((0, rc'), (0, n), LReady)
    | None => None
    end.

Definition limit_init (limit : nat) (offset : option nat) : lstate :=
  (match offset with Some o => o | None => 0 end, limit).

Definition slice_of {A} (sk : nat * nat) (b : list A) : list A := firstn (snd sk) (skipn (fst sk) b).

(* run over the batches in lock order; collects every emitted slice and every poll *)
Fixpoint limit_run {A} (st : lstate) (bs : list (list A)) : option (lstate * list (list A) * list lpoll) :=
  match bs with
  | [] => Some (st, [], [])
  | b :: bs' =>
      match limit_step st (length b) with
      | None => None
      | Some (st1, sk, p) =>
          match limit_run st1 bs' with
          | None => None
          | Some (st2, outs, ps) => Some (st2, slice_of sk b :: outs, p :: ps)
          end
      end
  end.

(* an interleaving of the partitions' batch streams: repeatedly pick a partition with a batch left *)
Fixpoint interleave {A} (sched : list nat) (parts : list (list A)) : list A :=
  match sched with
  | [] => []
  | i :: sched' =>
      match nth_error parts i with
      | Some (b :: rest) =>
          b :: interleave sched' (firstn i parts ++ rest :: skipn (S i) parts)
      | _ => interleave sched' parts
      end
  end.

(* ------------------------------------------------------------------ generate_series *)

Definition i64_ok (z : Z) : bool := (Z.leb (- 2 ^ 63) z && Z.ltb z (2 ^ 63))%Z.

Inductive gen_out := GOk (vals : list Z) (curr : Z) | GOverflow (vals : list Z).

(* the two `while` loops of generate_next: `cap` = out.len(); fuel = cap.
   `self.curr += self.step` is an i64 addition: out of range = GOverflow (panic in debug builds,
   wrap-around in release builds). *)
Fixpoint gen_loop (up : bool) (curr stop step : Z) (fuel : nat) (acc : list Z) : gen_out :=
  match fuel with
  | O => GOk (rev acc) curr
  | S f =>
      if (if up then Z.leb curr stop else Z.geb curr stop) then
        let c' := (curr + step)%Z in
        if i64_ok c' then gen_loop up c' stop step f (curr :: acc)
        else GOverflow (rev (curr :: acc))
      else GOk (rev acc) curr
  end.

Definition generate_next (curr stop step : Z) (cap : nat) : gen_out :=
  if (Z.leb curr stop && Z.ltb 0 step)%bool then gen_loop true curr stop step cap []
  else if (Z.geb curr stop && Z.ltb step 0)%bool then gen_loop false curr stop step cap []
  else GOk [] curr.
(* (`self.curr = *last + self.step` after the loop recomputes the value `curr` already has.) *)

(* poll_execute for ONE parameter row: the batches produced until `count == 0`; fuel bounds the
   number of polls *)
Fixpoint series_row (curr stop step : Z) (cap : nat) (fuel : nat) : option (list (list Z)) :=
  match fuel with
  | O => None
  | S f =>
      match generate_next curr stop step cap with
      | GOverflow _ => None
      | GOk [] _ => Some []
      | GOk vals c' =>
          match series_row c' stop step cap f with
          | Some bs => Some (vals :: bs)
          | None => None
          end
      end
  end.

(* one partition: every parameter row of every input batch, in order *)
Fixpoint series_partition (rows : list (Z * Z * Z)) (cap fuel : nat) : option (list (list Z)) :=
  match rows with
  | [] => Some []
  | (start, stop, step) :: rows' =>
      if Z.eqb step 0 then None else
      match series_row start stop step cap fuel, series_partition rows' cap fuel with
      | Some a, Some b => Some (a ++ b)
      | _, _ => None
      end
  end.

(* single_row.rs: `vec![Emit]` resized to `partitions` with NoEmit: partition 0 gets the row *)
Definition single_row_deal {A} (x : A) (partitions : nat) : list (list A) :=
  match partitions with
  | O => []
  | S p => [x] :: repeat [] p
  end.

Fixpoint mapM_opt {A B} (f : A -> option B) (l : list A) : option (list B) :=
  match l with
  | [] => Some []
  | x :: l' => match f x, mapM_opt f l' with Some y, Some ys => Some (y :: ys) | _, _ => None end
  end.

Definition series_exec (deal : list (list (Z * Z * Z))) (cap fuel : nat) : option (list (list (list Z))) :=
  mapM_opt (fun rows => series_partition rows cap fuel) deal.

(* specification: start, start+step, ... while within stop *)
Fixpoint series_spec_up (curr stop step : Z) (fuel : nat) : list Z :=
  match fuel with
  | O => []
  | S f => if Z.leb curr stop then curr :: series_spec_up (curr + step) stop step f else []
  end.
Fixpoint series_spec_down (curr stop step : Z) (fuel : nat) : list Z :=
  match fuel with
  | O => []
  | S f => if Z.geb curr stop then curr :: series_spec_down (curr + step) stop step f else []
  end.
Definition series_spec (start stop step : Z) : list Z :=
  if Z.ltb 0 step then series_spec_up start stop step (Z.to_nat ((stop - start) / step + 1))
  else if Z.ltb step 0 then series_spec_down start stop step (Z.to_nat ((start - stop) / (- step) + 1))
  else [].

(* ------------------------------------------------------------------ UNION ALL, one partition *)

(* shared: has_data/buffer (one slot), push_finished; execute side: draining *)
Record ustate (A : Type) := mkU {
  u_left : list (list A);        (* batches the push side (left child) still has to push *)
  u_right : list (list A);       (* batches the execute side (right child) still passes through *)
  u_buf : option (list A);       (* has_data + buffer *)
  u_push_finished : bool;
  u_draining : bool;
  u_done : bool;                 (* execute side returned Exhausted *)
  u_out : list (list A) }.       (* emitted so far, newest first *)
Arguments mkU {A}.
Arguments u_left {A}. Arguments u_right {A}. Arguments u_buf {A}. Arguments u_push_finished {A}.
Arguments u_draining {A}. Arguments u_done {A}. Arguments u_out {A}.

Inductive uevent := UPush | UExec.

(* one scheduler step; a call that returns Pending leaves the state unchanged (wakers elided) *)
Definition union_step {A} (e : uevent) (s : ustate A) : ustate A :=
  match e with
  | UPush =>
      if u_push_finished s then s else
      match u_left s with
      | [] => mkU [] (u_right s) (u_buf s) true (u_draining s) (u_done s) (u_out s)   (* poll_finalize_push *)
      | b :: l' =>
          match u_buf s with
          | Some _ => s                                                              (* Pending *)
          | None => mkU l' (u_right s) (Some b) false (u_draining s) (u_done s) (u_out s)
          end
      end
  | UExec =>
      if u_done s then s else
      if negb (u_draining s) then
        match u_right s with
        | b :: r' => mkU (u_left s) r' (u_buf s) (u_push_finished s) false false (b :: u_out s)  (* pass through *)
        | [] => mkU (u_left s) [] (u_buf s) (u_push_finished s) true false (u_out s)            (* finalize: NeedsDrain *)
        end
      else
        match u_buf s with
        | Some b => mkU (u_left s) (u_right s) None (u_push_finished s) true false (b :: u_out s) (* HasMore *)
        | None =>
            if u_push_finished s
            then mkU (u_left s) (u_right s) None true true true (u_out s)                        (* Exhausted *)
            else s                                                                               (* Pending *)
        end
  end.

Definition union_init {A} (l r : list (list A)) : ustate A := mkU l r None false false false [].
Definition union_run {A} (sched : list uevent) (s : ustate A) : ustate A :=
  fold_left (fun st e => union_step e st) sched s.
Definition union_output {A} (s : ustate A) : list A := concat (rev (u_out s)).
