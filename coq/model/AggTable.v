(* C07: the open-addressing group table of the hash aggregate and the two-level (partitioned) scheme.
   Definitions only (executable).  Transcribed from
     /repo/crates/glaredb_core/src/execution/operators/hash_aggregate/hash_table/directory.rs
        (Entry {hash, ptr}, Directory {num_occupied, entries}, resize, needs_resize 7/10,
         inc_and_wrap_offset, compute_offset_from_hash)
     .../hash_table/base.rs       (find_or_create_groups, insert_with_hashes, merge_from)
     .../hash_table/partitioned.rs (partition(hash, n) = (hash * n) >> 64, insert_local, flush,
                                    merge_global)

   Shape of the model
   * `entries : list (option (N * nat))` — the directory: `None` = `ptr: None`, `Some (h, g)` = hash
     prefix and the row pointer, modelled as the index g of the group in the row collection.
   * `groups : list (row * S)` — the aggregate row collection in order of creation (group id =
     position); `num_occupied` is `length groups` (base.rs debug-asserts the two are equal).
     S is the aggregate payload of a group; an insert applies `f : S -> X -> S` (update with an
     input X = V, or combine with another table's state X = S).  A failing aggregate update
     (SUM overflow) is represented inside S (S := res state), see proofs/AggTableProofs.v.
   * The hash function is a Section variable; the stored hash of a group is recomputed as `hash key`
     where base.rs re-reads the hash column it stored next to the group values.

   ABSTRACTION (documented, not hidden): `find_or_create_groups` processes a batch in vectorised
   rounds (all rows probe; rows that hit an equal hash are compared together; mismatches advance by one
   slot and go to the next round).  The model processes the rows of a batch one after the other.  Two
   rows of one batch with the same key take the same probe path and the earlier one claims first in
   every round, so both orders assign the same groups; slot positions inside the directory can differ,
   group identity cannot.  The resize decision (once per batch, from the batch length) is modelled
   exactly.  Probing of one row is bounded by `cap` steps (`iter_count < cap`), running out =
   Err "Hash table completely full". *)
From Coq Require Import NArith ZArith List Bool Arith.
From GV Require Import lib.Bytes model.Sql.
Import ListNotations.

Inductive terr := TFull | TShrink | THang | TOob | TNoTables.
Inductive tres (A : Type) := TOk (a : A) | TErr (e : terr).
Arguments TOk {A} a.
Arguments TErr {A} e.
Definition tbind {A B} (x : tres A) (f : A -> tres B) : tres B :=
  match x with TOk a => f a | TErr e => TErr e end.

Fixpoint set_nth {A} (l : list A) (i : nat) (x : A) : list A :=
  match l, i with
  | [], _ => []
  | _ :: l', O => x :: l'
  | y :: l', S i' => y :: set_nth l' i' x
  end.

(* directory.rs: `hash & (cap - 1)`, `(offset + 1) & (cap - 1)` *)
Definition offset_of (h : N) (cap : nat) : nat := N.to_nat (N.land h (N.of_nat cap - 1)).
Definition inc_wrap (o cap : nat) : nat := N.to_nat (N.land (N.of_nat o + 1) (N.of_nat cap - 1)).

(* usize::next_power_of_two *)
Fixpoint next_pow2_from (p n fuel : nat) : nat :=
  match fuel with
  | O => p
  | S f => if Nat.leb n p then p else next_pow2_from (2 * p) n f
  end.
Definition next_pow2 (n : nat) : nat := next_pow2_from 1 n n.
(* directory.rs is_power_of_two: (v & (v - 1)) == 0 *)
Definition is_pow2 (v : nat) : bool := N.eqb (N.land (N.of_nat v) (N.of_nat v - 1)) 0.

Section Table.
  Variable hash : row -> N.
  Variable S : Type.
  Variable init : S.

  Definition entry := option (N * nat).
  Record table := mkT { entries : list entry; groups : list (row * S) }.

  Definition cap (t : table) : nat := length (entries t).
  Definition num_occupied (t : table) : nat := length (groups t).

  (* Directory::try_with_capacity(capacity): capacity.next_power_of_two() empty slots *)
  Definition table_new (capacity : nat) : table := mkT (repeat None (next_pow2 capacity)) [].

  (* (num_occupied + num_inputs) * 10 > capacity * 7 *)
  Definition needs_resize (t : table) (num_inputs : nat) : bool :=
    Nat.ltb (cap t * 7) ((num_occupied t + num_inputs) * 10).

  (* resize: the `loop` that looks for an empty slot, bounded by the new capacity (THang otherwise) *)
  Fixpoint reinsert (es : list entry) (e : N * nat) (off fuel : nat) : tres (list entry) :=
    match fuel with
    | O => TErr THang
    | Datatypes.S f =>
        match nth_error es off with
        | None => TErr TOob
        | Some None => TOk (set_nth es off (Some e))
        | Some (Some _) => reinsert es e (inc_wrap off (length es)) f
        end
    end.

  Definition resize (t : table) (new_capacity : nat) : tres table :=
    let nc := if is_pow2 new_capacity then new_capacity else next_pow2 new_capacity in
    if Nat.ltb nc (cap t) then TErr TShrink else
    tbind (fold_left (fun acc ent =>
                        tbind acc (fun es =>
                          match ent with
                          | None => TOk es
                          | Some (h, g) => reinsert es (h, g) (offset_of h nc) nc
                          end))
                     (entries t) (TOk (repeat None nc)))
          (fun es => TOk (mkT es (groups t))).

  (* probing for one row: empty slot -> claim; equal hash -> compare the stored group values *)
  Inductive probe_res := PFound (g : nat) | PNew (off : nat) | PFull | POob.
  Fixpoint probe (es : list entry) (gs : list (row * S)) (h : N) (key : row) (off fuel : nat) : probe_res :=
    match fuel with
    | O => PFull
    | Datatypes.S f =>
        match nth_error es off with
        | None => POob
        | Some None => PNew off
        | Some (Some (h', g)) =>
            if N.eqb h' h then
              match nth_error gs g with
              | None => POob
              | Some (k', _) => if row_same key k' then PFound g else probe es gs h key (inc_wrap off (length es)) f
              end
            else probe es gs h key (inc_wrap off (length es)) f
        end
    end.

  Section Apply.
    Variable X : Type.
    Variable f : S -> X -> S.     (* update_states / combine_states on the group's payload *)

    (* one row: returns the table and the group id the row was assigned *)
    Definition find_or_insert (t : table) (key : row) (x : X) : tres (table * nat) :=
      let h := hash key in
      match probe (entries t) (groups t) h key (offset_of h (cap t)) (cap t) with
      | PFound g =>
          match nth_error (groups t) g with
          | Some (k, s) => TOk (mkT (entries t) (set_nth (groups t) g (k, f s x)), g)
          | None => TErr TOob
          end
      | PNew off =>
          let g := length (groups t) in
          TOk (mkT (set_nth (entries t) off (Some (h, g))) (groups t ++ [(key, f init x)]), g)
      | PFull => TErr TFull
      | POob => TErr TOob
      end.

    (* find_or_create_groups + update/combine for one batch; also returns the group ids *)
    Definition apply_batch (t : table) (items : list (row * X)) : tres (table * list nat) :=
      match items with
      | [] => TOk (t, [])
      | _ =>
          let n := length items in
          tbind (if needs_resize t n
                 then resize t (Nat.max (cap t * 2) (n + cap t))
                 else TOk t)
                (fun t1 =>
                   fold_left (fun acc it =>
                                tbind acc (fun tg =>
                                  tbind (find_or_insert (fst tg) (fst it) (snd it))
                                        (fun r => TOk (fst r, snd tg ++ [snd r]))))
                             items (TOk (t1, [])))
      end.
  End Apply.

  (* ---------------------------------------------------------------- two-level scheme *)
  Variable V : Type.
  Variable upd : S -> V -> S.
  Variable mrg : S -> S -> S.

  (* partitioned.rs: ((hash as u128 * partitions as u128) >> 64) as usize, hash: u64 *)
  Definition route (h : N) (partitions : nat) : nat :=
    N.to_nat (((h mod 2 ^ 64) * N.of_nat partitions) / 2 ^ 64)%N.

  Fixpoint mapi_from {A B} (i : nat) (g : nat -> A -> tres B) (l : list A) : tres (list B) :=
    match l with
    | [] => TOk []
    | x :: l' => tbind (g i x) (fun y => tbind (mapi_from (Datatypes.S i) g l') (fun ys => TOk (y :: ys)))
    end.

  (* insert_local: one input batch, routed to the P_out local tables of this input partition *)
  Definition insert_local (pout : nat) (tables : list table) (batch : list (row * V)) : tres (list table) :=
    mapi_from 0 (fun j t =>
                   let sub := filter (fun it => Nat.eqb (route (hash (fst it)) pout) j) batch in
                   tbind (apply_batch V upd t sub) (fun r => TOk (fst r)))
              tables.

  (* one input partition: all its batches *)
  Definition local_build (pout capacity : nat) (batches : list (list (row * V))) : tres (list table) :=
    fold_left (fun acc b => tbind acc (fun ts => insert_local pout ts b))
              batches (TOk (repeat (table_new capacity) pout)).

  Fixpoint chunks {A} (n : nat) (l : list A) (fuel : nat) : list (list A) :=
    match fuel with
    | O => []
    | Datatypes.S fu => match l with [] => [] | _ => firstn n l :: chunks n (skipn n l) fu end
    end.

  (* base.rs merge_from: scans `other` in chunks of `row_capacity` groups *)
  Definition merge_from (chunk : nat) (dst src : table) : tres table :=
    if Nat.eqb (num_occupied dst) 0 then TOk src          (* mem::swap(self, other) *)
    else if Nat.eqb (num_occupied src) 0 then TOk dst
    else fold_left (fun acc c => tbind acc (fun t => tbind (apply_batch S mrg t c) (fun r => TOk (fst r))))
                   (chunks chunk (groups src) (length (groups src))) (TOk dst).

  (* merge_global for output partition j: global = flushed.tables[0]; merge tables[1..] into it *)
  Definition merge_global (chunk j : nat) (locals : list (list table)) : tres table :=
    match locals with
    | [] => TErr TNoTables
    | first :: others =>
        match nth_error first j with
        | None => TErr TOob
        | Some g0 =>
            fold_left (fun acc ts => tbind acc (fun g =>
                          match nth_error ts j with
                          | None => TErr TOob
                          | Some o => merge_from chunk g o
                          end))
                      others (TOk g0)
        end
    end.

  (* parts: per input partition its list of batches *)
  Definition two_level (pout capacity chunk : nat) (parts : list (list (list (row * V)))) : tres (list table) :=
    tbind (mapi_from 0 (fun _ p => local_build pout capacity p) parts)
          (fun locals => mapi_from 0 (fun j _ => merge_global chunk j locals) (repeat tt pout)).

End Table.

Arguments mkT {S}.
Arguments entries {S}.
Arguments groups {S}.

(* specification: an association list with groups in order of first insertion *)
Section Spec.
  Context {S X : Type}.
  Variable init : S.
  Variable f : S -> X -> S.
  Fixpoint al_find (gs : list (row * S)) (key : row) (i : nat) : option nat :=
    match gs with
    | [] => None
    | (k, _) :: gs' => if row_same key k then Some i else al_find gs' key (Datatypes.S i)
    end.
  Fixpoint al_apply (gs : list (row * S)) (key : row) (x : X) : list (row * S) :=
    match gs with
    | [] => [(key, f init x)]
    | (k, s) :: gs' => if row_same key k then (k, f s x) :: gs' else (k, s) :: al_apply gs' key x
    end.
  Definition al_id (gs : list (row * S)) (key : row) : nat :=
    match al_find gs key 0 with Some i => i | None => length gs end.
  (* ids and final association list for a sequence of keys *)
  Fixpoint al_run (gs : list (row * S)) (items : list (row * X)) : list (row * S) * list nat :=
    match items with
    | [] => (gs, [])
    | (k, x) :: items' =>
        let r := al_run (al_apply gs k x) items' in (fst r, al_id gs k :: snd r)
    end.
End Spec.
