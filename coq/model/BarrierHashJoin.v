(* C04 — the hash-join probe / drain barrier (execution/operators/hash_join/mod.rs: poll_execute,
   poll_finalize_execute) for join types that need a drain phase (LEFT / FULL / SEMI / ANTI / MARK),
   N probe partitions, every critical section of `HashJoinOperatorState::shared` one atomic step.
   Definitions only.  Both sides are modelled: NB build partitions (poll_finalize_push: collect ->
   fetch_sub on the row collection's `remaining` -> last one inits the directory and sets
   hash_inserts_ready -> every partition inserts its hashes -> the last inserter sets scan_ready and
   wakes pending_probers AND pending_drainers) and NP probe partitions, in any arrival order.

   Phase of one build partition (BuildFinalizePhase + position inside poll_finalize_push):
     BColl      still collecting (poll_push), has not called finish_build
     BMid l     finish_build done (atomic fetch_sub; l = it was the last), shared lock not yet taken
     BParked    stored in pending_hash_inserters, Pending (phase InsertingHashes)
     BIns       phase InsertingHashes, runnable: next poll locks and tests hash_inserts_ready
     BProc      process_hashes outside the lock
     BDone      Finalized
     BErr       a dec_by_one / fetch_sub underflow

   Phase of one probe partition:
     HProbe        Probing, local scan_ready = false, runnable: the next call is either poll_execute (locks
                   and tests scan_ready) or — when no batch ever reaches the join in this partition
                   (empty input: the stack goes Fin(j-1) -> Fin(j) without Exec(j)) — directly
                   poll_finalize_execute
     HParkedScan   stored in pending_probers, Pending
     HScan         Probing with local scan_ready = true: probes its input batches (no shared state)
     HDrainChk     poll_finalize_execute done (remaining_probers decremented; NeedsDrain); Draining,
                   local drain_ready = false, runnable: next poll tests drain_ready && scan_ready
     HParkedDrain  stored in pending_drainers, Pending
     HDraining     draining its share of the table
     HDone         Exhausted
     HAbandoning   a DOWNSTREAM operator of this partition's pipeline answered Exhausted (e.g. LIMIT
                   reached) while this partition was probing: the join is never executed again
                   (C04_stack_exhausted_ops_never_run_again); since commit 131551599 the stack holds an
                   `AbandonOperator` instruction for it
     HAbandoned    the AbandonOperator instruction ran: poll_finalize_execute was called (same critical
                   section as a normal finalize: remaining_probers -= 1; if 0 drain_ready, wake drainers)
                   but the partition never drains
     HLost         (previous stack versions only) the join never hears that the partition is done:
                   before commit 131551599 every early exhaustion ended here; between 131551599 and
                   c83fc4e4d a pending AbandonOperator was dropped when a SECOND operator further down
                   answered Exhausted before it ran.  With c83fc4e4d the cleared AbandonOperator is
                   re-created (C04_stack_exhausted_finalizes_all_upstream): rule h_abandon_again.
   `ab`: early exhaustion can happen (a LIMIT / EXISTS above the join);
   `lose`: a pending abandon can be lost (previous stack versions; false for the current source);
   `wd`: the last hash inserter also wakes pending_drainers (true for the current source). *)
From Coq Require Import List Arith Bool.
From GV Require Import lib.Lts.
Import ListNotations.

Inductive bph := BColl | BMid (last : bool) | BParked | BIns | BProc | BDone | BErr.
Inductive hph := HProbe | HParkedScan | HScan | HDrainChk | HParkedDrain | HDraining | HDone | HAbandoning | HAbandoned | HLost | HErr.

Record hst := {
  bps : list bph;
  bremaining : nat;   (* PartitionedRowCollection remaining: AtomicUsize (fetch_sub) *)
  hready : bool;      (* shared.hash_inserts_ready *)
  rem_ins : nat;      (* shared.remaining_hash_inserters *)
  hps : list hph;
  sready : bool;      (* shared.scan_ready *)
  dready : bool;      (* shared.drain_ready *)
  rem_prob : nat      (* shared.remaining_probers *)
}.

Definition wake_ins (p : bph) : bph := match p with BParked => BIns | q => q end.
Definition ins_pollable (p : bph) : bool := match p with BIns | BParked => true | _ => false end.
Definition can_finalize (p : hph) : bool := match p with HProbe | HScan => true | _ => false end.
Definition wake_probers (p : hph) : hph := match p with HParkedScan => HProbe | q => q end.
Definition wake_drainers (p : hph) : hph := match p with HParkedDrain => HDrainChk | q => q end.
Definition scan_pollable (p : hph) : bool := match p with HProbe | HParkedScan => true | _ => false end.
Definition drain_pollable (p : hph) : bool := match p with HDrainChk | HParkedDrain => true | _ => false end.

Inductive hstep (ab lose wd : bool) : hst -> hst -> Prop :=
(* ---- build side: poll_finalize_push ---- *)
(* Collecting: finish_build = fetch_sub(1) on `remaining`, outside the shared lock *)
| b_fetch_sub i s :
    nth_error (bps s) i = Some BColl -> 0 < bremaining s ->
    hstep ab lose wd s {| bps := upd (bps s) i (BMid (bremaining s =? 1)); bremaining := bremaining s - 1; hready := hready s; rem_ins := rem_ins s; hps := hps s; sready := sready s; dready := dready s; rem_prob := rem_prob s |}
| b_fetch_underflow i s :
    nth_error (bps s) i = Some BColl -> bremaining s = 0 ->
    hstep ab lose wd s {| bps := upd (bps s) i BErr; bremaining := bremaining s; hready := hready s; rem_ins := rem_ins s; hps := hps s; sready := sready s; dready := dready s; rem_prob := rem_prob s |}
(* last builder: init_directory; [lock] hash_inserts_ready = true; pending_hash_inserters.wake_all(); continue *)
| b_last_lock i s :
    nth_error (bps s) i = Some (BMid true) ->
    hstep ab lose wd s {| bps := upd (map wake_ins (bps s)) i BIns; bremaining := bremaining s; hready := true; rem_ins := rem_ins s; hps := hps s; sready := sready s; dready := dready s; rem_prob := rem_prob s |}
(* not last: [lock] hash_inserts_ready ? continue : store waker, Pending *)
| b_nonlast_ready i s :
    nth_error (bps s) i = Some (BMid false) -> hready s = true ->
    hstep ab lose wd s {| bps := upd (bps s) i BIns; bremaining := bremaining s; hready := hready s; rem_ins := rem_ins s; hps := hps s; sready := sready s; dready := dready s; rem_prob := rem_prob s |}
| b_nonlast_park i s :
    nth_error (bps s) i = Some (BMid false) -> hready s = false ->
    hstep ab lose wd s {| bps := upd (bps s) i BParked; bremaining := bremaining s; hready := hready s; rem_ins := rem_ins s; hps := hps s; sready := sready s; dready := dready s; rem_prob := rem_prob s |}
(* InsertingHashes: [lock] !hash_inserts_ready -> store waker, Pending; else unlock, process_hashes *)
| b_ins_ready i p s :
    nth_error (bps s) i = Some p -> ins_pollable p = true -> hready s = true ->
    hstep ab lose wd s {| bps := upd (bps s) i BProc; bremaining := bremaining s; hready := hready s; rem_ins := rem_ins s; hps := hps s; sready := sready s; dready := dready s; rem_prob := rem_prob s |}
| b_ins_park i p s :
    nth_error (bps s) i = Some p -> ins_pollable p = true -> hready s = false ->
    hstep ab lose wd s {| bps := upd (bps s) i BParked; bremaining := bremaining s; hready := hready s; rem_ins := rem_ins s; hps := hps s; sready := sready s; dready := dready s; rem_prob := rem_prob s |}
(* after process_hashes: [lock] remaining_hash_inserters.dec_by_one()?; if 0 { scan_ready = true;
   pending_probers.wake_all(); pending_drainers.wake_all() }; Finalized *)
| b_proc_done_last i s :
    nth_error (bps s) i = Some BProc -> rem_ins s = 1 ->
    hstep ab lose wd s {| bps := upd (bps s) i BDone; bremaining := bremaining s; hready := hready s; rem_ins := 0; hps := (if wd then map wake_drainers (map wake_probers (hps s)) else map wake_probers (hps s)); sready := true; dready := dready s; rem_prob := rem_prob s |}
| b_proc_done i s :
    nth_error (bps s) i = Some BProc -> 1 < rem_ins s ->
    hstep ab lose wd s {| bps := upd (bps s) i BDone; bremaining := bremaining s; hready := hready s; rem_ins := rem_ins s - 1; hps := hps s; sready := sready s; dready := dready s; rem_prob := rem_prob s |}
| b_proc_err i s :
    nth_error (bps s) i = Some BProc -> rem_ins s = 0 ->
    hstep ab lose wd s {| bps := upd (bps s) i BErr; bremaining := bremaining s; hready := hready s; rem_ins := rem_ins s; hps := hps s; sready := sready s; dready := dready s; rem_prob := rem_prob s |}
(* ---- probe side ---- *)
(* poll_execute, Probing, local scan_ready false: [lock] test shared.scan_ready *)
| h_scan_ready i p s :
    nth_error (hps s) i = Some p -> scan_pollable p = true -> sready s = true ->
    hstep ab lose wd s {| bps := bps s; bremaining := bremaining s; hready := hready s; rem_ins := rem_ins s; hps := upd (hps s) i HScan; sready := sready s; dready := dready s; rem_prob := rem_prob s |}
| h_scan_park i p s :
    nth_error (hps s) i = Some p -> scan_pollable p = true -> sready s = false ->
    hstep ab lose wd s {| bps := bps s; bremaining := bremaining s; hready := hready s; rem_ins := rem_ins s; hps := upd (hps s) i HParkedScan; sready := sready s; dready := dready s; rem_prob := rem_prob s |}
(* poll_finalize_execute (input exhausted; possibly before poll_execute was ever called): Draining; [lock] remaining_probers.dec_by_one()?;
   if 0 { drain_ready = true; pending_drainers.wake_all() }; NeedsDrain *)
| h_finalize_last i p s :
    nth_error (hps s) i = Some p -> can_finalize p = true -> rem_prob s = 1 ->
    hstep ab lose wd s {| bps := bps s; bremaining := bremaining s; hready := hready s; rem_ins := rem_ins s; hps := upd (map wake_drainers (hps s)) i HDrainChk; sready := sready s; dready := true;
                  rem_prob := 0 |}
| h_finalize i p s :
    nth_error (hps s) i = Some p -> can_finalize p = true -> 1 < rem_prob s ->
    hstep ab lose wd s {| bps := bps s; bremaining := bremaining s; hready := hready s; rem_ins := rem_ins s; hps := upd (hps s) i HDrainChk; sready := sready s; dready := dready s;
                  rem_prob := rem_prob s - 1 |}
| h_finalize_err i p s :        (* "Attempted to decrement 0" *)
    nth_error (hps s) i = Some p -> can_finalize p = true -> rem_prob s = 0 ->
    hstep ab lose wd s {| bps := bps s; bremaining := bremaining s; hready := hready s; rem_ins := rem_ins s; hps := upd (hps s) i HErr; sready := sready s; dready := dready s; rem_prob := rem_prob s |}
(* poll_execute, Draining, local drain_ready false: [lock] test drain_ready && scan_ready *)
| h_drain_ready i p s :
    nth_error (hps s) i = Some p -> drain_pollable p = true -> dready s && sready s = true ->
    hstep ab lose wd s {| bps := bps s; bremaining := bremaining s; hready := hready s; rem_ins := rem_ins s; hps := upd (hps s) i HDraining; sready := sready s; dready := dready s; rem_prob := rem_prob s |}
| h_drain_park i p s :
    nth_error (hps s) i = Some p -> drain_pollable p = true -> dready s && sready s = false ->
    hstep ab lose wd s {| bps := bps s; bremaining := bremaining s; hready := hready s; rem_ins := rem_ins s; hps := upd (hps s) i HParkedDrain; sready := sready s; dready := dready s; rem_prob := rem_prob s |}
| h_drain_done i s :
    nth_error (hps s) i = Some HDraining ->
    hstep ab lose wd s {| bps := bps s; bremaining := bremaining s; hready := hready s; rem_ins := rem_ins s; hps := upd (hps s) i HDone; sready := sready s; dready := dready s; rem_prob := rem_prob s |}
(* early exhaustion by a downstream operator while this partition is still probing / draining *)
| h_abandon i s :
    ab = true -> nth_error (hps s) i = Some HScan ->
    hstep ab lose wd s {| bps := bps s; bremaining := bremaining s; hready := hready s; rem_ins := rem_ins s; hps := upd (hps s) i HAbandoning; sready := sready s; dready := dready s; rem_prob := rem_prob s |}
| h_abandon_draining i s :
    ab = true -> nth_error (hps s) i = Some HDraining ->
    hstep ab lose wd s {| bps := bps s; bremaining := bremaining s; hready := hready s; rem_ins := rem_ins s; hps := upd (hps s) i HDone; sready := sready s; dready := dready s; rem_prob := rem_prob s |}
(* AbandonOperator: poll_finalize_execute; its NeedsDrain answer is ignored *)
| h_abandon_fin_last i s :
    nth_error (hps s) i = Some HAbandoning -> rem_prob s = 1 ->
    hstep ab lose wd s {| bps := bps s; bremaining := bremaining s; hready := hready s; rem_ins := rem_ins s; hps := upd (map wake_drainers (hps s)) i HAbandoned; sready := sready s; dready := true;
                       rem_prob := 0 |}
| h_abandon_fin i s :
    nth_error (hps s) i = Some HAbandoning -> 1 < rem_prob s ->
    hstep ab lose wd s {| bps := bps s; bremaining := bremaining s; hready := hready s; rem_ins := rem_ins s; hps := upd (hps s) i HAbandoned; sready := sready s; dready := dready s;
                       rem_prob := rem_prob s - 1 |}
| h_abandon_fin_err i s :
    nth_error (hps s) i = Some HAbandoning -> rem_prob s = 0 ->
    hstep ab lose wd s {| bps := bps s; bremaining := bremaining s; hready := hready s; rem_ins := rem_ins s; hps := upd (hps s) i HErr; sready := sready s; dready := dready s; rem_prob := rem_prob s |}
(* nested exhaustion (c83fc4e4d): a second operator further down answers Exhausted while the
   AbandonOperator is pending: the stack is cleared and the instruction re-created: nothing changes *)
| h_abandon_again i s :
    ab = true -> nth_error (hps s) i = Some HAbandoning ->
    hstep ab lose wd s {| bps := bps s; bremaining := bremaining s; hready := hready s; rem_ins := rem_ins s; hps := upd (hps s) i HAbandoning; sready := sready s; dready := dready s; rem_prob := rem_prob s |}
(* previous stack versions: the pending AbandonOperator is dropped by a second Exhausted further down *)
| h_abandon_lost i s :
    lose = true -> nth_error (hps s) i = Some HAbandoning ->
    hstep ab lose wd s {| bps := bps s; bremaining := bremaining s; hready := hready s; rem_ins := rem_ins s; hps := upd (hps s) i HLost; sready := sready s; dready := dready s; rem_prob := rem_prob s |}.

(* create_partition_push_states: remaining_probers.set(partitions) *)
(* remaining_hash_inserters.set(partitions); `remaining` = number of build partitions *)
Definition hinit (nb n : nat) : hst :=
  {| bps := repeat BColl nb; bremaining := nb; hready := false; rem_ins := nb;
     hps := repeat HProbe n; sready := false; dready := false; rem_prob := n |}.

Inductive hreach (ab lose wd : bool) (nb n : nat) : hst -> Prop :=
| hr_init : hreach ab lose wd nb n (hinit nb n)
| hr_step s s' : hreach ab lose wd nb n s -> hstep ab lose wd s s' -> hreach ab lose wd nb n s'.

Definition is_bcoll p := match p with BColl => true | _ => false end.
Definition is_bmid p := match p with BMid _ => true | _ => false end.
Definition is_bmidlast p := match p with BMid true => true | _ => false end.
Definition is_bparked p := match p with BParked => true | _ => false end.
Definition is_bins p := match p with BIns => true | _ => false end.
Definition is_bproc p := match p with BProc => true | _ => false end.
Definition is_bdone p := match p with BDone => true | _ => false end.
Definition is_berr p := match p with BErr => true | _ => false end.
Definition is_hprobe p := match p with HProbe => true | _ => false end.
Definition is_hpscan p := match p with HParkedScan => true | _ => false end.
Definition is_hscan p := match p with HScan => true | _ => false end.
Definition is_hchk p := match p with HDrainChk => true | _ => false end.
Definition is_hpdrain p := match p with HParkedDrain => true | _ => false end.
Definition is_hdraining p := match p with HDraining => true | _ => false end.
Definition is_hdone p := match p with HDone => true | _ => false end.
Definition is_habing p := match p with HAbandoning => true | _ => false end.
Definition is_haband p := match p with HAbandoned => true | _ => false end.
Definition is_hlost p := match p with HLost => true | _ => false end.
Definition is_herr p := match p with HErr => true | _ => false end.

(* every partition's pipeline is through with the join *)
Definition hall_done (s : hst) : Prop :=
  count is_bdone (bps s) = length (bps s) /\
  count is_hdone (hps s) + count is_haband (hps s) + count is_hlost (hps s) = length (hps s).
