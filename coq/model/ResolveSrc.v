(* C18 — the resolution parameters and function sets of the CURRENT build (definitions only):
   model/Resolve.v instantiated with gen/TablesTyping.v (regenerated on every run). *)
From Coq Require Import NArith List.
From GV Require Import model.Resolve gen.TablesTyping.
Import ListNotations.
Open Scope N_scope.

(* The parameters as the current build has them: Some only if every constant was found. *)
Definition src_params : option params :=
  match tid_any, tid_i8, tid_i16, tid_i32, tid_i64 with
  | Some a, Some t8, Some t16, Some t32, Some t64 =>
    match tid_dec64, tid_dec128 with
    | Some td64, Some td128 =>
    match no_cast_score, refined_literal_bonus, variadic_same_score with
    | Some nc, Some bo, Some sm =>
      match default_score_i8, default_score_i16, default_score_i32, default_score_i64 with
      | Some d8, Some d16, Some d32, Some d64 =>
        Some {| p_scores := score_table; p_ntypes := n_types; p_nocast := nc; p_bonus := bo; p_same := sm;
                p_any := a; p_i8 := t8; p_i16 := t16; p_i32 := t32; p_i64 := t64; p_dec64 := td64; p_dec128 := td128;
                p_d8 := d8; p_d16 := d16; p_d32 := d32; p_d64 := d64 |}
      | _, _, _, _ => None
      end
    | _, _, _ => None
    end
    | _, _ => None
    end
  | _, _, _, _, _ => None
  end.
Definition all_sets : list fset := scalar_sets ++ aggregate_sets.

