(* Model of the Parquet footer loader and of the thrift compact READER (topic `fault`, C19).
   Executable definitions only.

   crates/glaredb_ext_parquet/src/metadata/loader.rs   MetaDataLoader::load_from_file
   crates/glaredb_ext_parquet/src/thrift.rs             TCompactSliceInputProtocol (read_byte, read_vlq, read_zig_zag,
                                                        read_field_begin, read_bytes/read_string, read_double,
                                                        read_list_set_begin, read_set_begin, read_map_begin)
   thrift-0.17.0 src/protocol/mod.rs                    TInputProtocol::skip / skip_till_depth (MAXIMUM_SKIP_DEPTH = 64)
   crates/glaredb_ext_parquet/src/format.rs             `Vec::with_capacity(list_ident.size as usize)` in front of every list

   Bytes are N < 256, buffers are byte lists (`self.buf`, the remaining slice).

   Every bounds check that the source does NOT make is a flag of `cfg`: flag = false transcribes the source as it
   is now (gen/TablesFault.v is scanned from the source on every run and says which flags hold), flag = true is
   the source with the smallest repair.  So one model states both "the current code is unsafe" and "the proposed
   patch is enough".

   Outcomes: TOk | TErr (a thrift::Error / DbError is returned) | TPanic site (the statement panics; in a worker
   thread that aborts the process) | TFuel (the model's step budget ran out: would be a hang; shown impossible).
   Allocations driven by a length read from the input are counted in bytes. *)
From Coq Require Import NArith ZArith List Bool.
From GV Require Import model.PqBits model.Utf8.
Import ListNotations.
Open Scope N_scope.

Record cfg := mk_cfg {
  c_footer_len : bool;   (* loader.rs compares metadata_len + 8 with the file size before allocating *)
  c_setmap : bool;       (* read_set_begin / read_map_begin return an error instead of unimplemented!() *)
  c_double : bool;       (* read_double tests that 8 bytes remain *)
  c_vlq_shift : bool;    (* read_vlq stops at shift >= 64 *)
  c_fid_add : bool;      (* read_field_begin adds the field delta with checked_add (overflow -> error) *)
  c_list_len : bool }.   (* read_list_set_begin rejects a count larger than the remaining input *)

(* the source BEFORE the repairs 142552dbd (loader.rs) and 58ae48eb3 (thrift.rs): no check at all *)
Definition cfg_source_now : cfg := mk_cfg false false false false false false.
Definition cfg_patched : cfg := mk_cfg true true true true true true.
Definition all_checked (c : cfg) : bool :=
  c_footer_len c && c_setmap c && c_double c && c_vlq_shift c && c_fid_add c && c_list_len c.

(* panic sites *)
Definition site_unimplemented : N := 1.   (* thrift.rs read_set_begin / read_map_begin: unimplemented!()          *)
Definition site_double_slice : N := 2.    (* thrift.rs read_double: self.buf[..8] with fewer than 8 bytes            *)
Definition site_vlq_shift : N := 3.       (* thrift.rs read_vlq: `<< shift` with shift >= 64 (overflow-checked build) *)
Definition site_fid_add : N := 4.         (* thrift.rs read_field_begin: last_read_field_id += delta overflows i16     *)
Definition site_capacity : N := 5.        (* format.rs Vec::with_capacity(negative i32 as usize): capacity overflow    *)

Inductive tout (A : Type) : Type :=
| TOk (a : A) | TErr | TPanic (site : N) | TFuel.
Arguments TOk {A} a.
Arguments TErr {A}.
Arguments TPanic {A} site.
Arguments TFuel {A}.

Definition tbind {A B} (o : tout A) (f : A -> tout B) : tout B :=
  match o with TOk a => f a | TErr => TErr | TPanic s => TPanic s | TFuel => TFuel end.
Notation "x <-- e ;;; f" := (tbind e (fun x => f)) (at level 61, e at next level, right associativity).
Notation "' p <-- e ;;; f" := (tbind e (fun p => f)) (at level 61, p pattern, e at next level, right associativity).

Definition lenN (l : list N) : N := N.of_nat (length l).

(* ------------------------------------------------------------------ footer loader *)
Definition magic_par1 : list N := [80; 65; 82; 49].   (* "PAR1" *)
Definition magic_pare : list N := [80; 65; 82; 69].   (* "PARE" *)
Definition FOOTER_SIZE : N := 8.
Definition MIN_FILE_SIZE : N := 12.

Fixpoint list_eqb (a b : list N) : bool :=
  match a, b with
  | [], [] => true
  | x :: a', y :: b' => (x =? y) && list_eqb a' b'
  | _, _ => false
  end.

Record loaded := mk_loaded {
  l_out : tout (list N);    (* the thrift bytes handed to decode_metadata *)
  l_alloc : N }.            (* bytes allocated for read_buf *)

(* load_from_file:
     size < MIN_FILE_SIZE -> Err
     read_buf = vec![0; 8]; seek End(-8); read_exact
     "PARE" -> Err; != "PAR1" -> Err
     metadata_len = u32 LE
     [c_footer_len: metadata_len + 8 > size -> Err]           <- NOT in the source
     read_buf.resize(metadata_len, 0)                          <- zero-filled allocation of metadata_len bytes
     seek End(-(metadata_len + 8))  -> io error when that is before the start of the file
     read_exact *)
Definition load_footer (c : cfg) (file : list N) : loaded :=
  let size := lenN file in
  if size <? MIN_FILE_SIZE then mk_loaded TErr 0 else
  let trailer := skipn (length file - 8) file in
  let lenb := firstn 4 trailer in
  let mg := skipn 4 trailer in
  if list_eqb lenb magic_pare then mk_loaded TErr FOOTER_SIZE else
  if negb (list_eqb mg magic_par1) then mk_loaded TErr FOOTER_SIZE else
  let mlen := le_num lenb in
  if c_footer_len c && (size <? mlen + FOOTER_SIZE) then mk_loaded TErr FOOTER_SIZE else
  let alloc := N.max FOOTER_SIZE mlen in
  if size <? mlen + FOOTER_SIZE then mk_loaded TErr alloc      (* seek before the start: after the allocation *)
  else mk_loaded (TOk (firstn (N.to_nat mlen) (skipn (length file - 8 - N.to_nat mlen) file))) alloc.

(* ------------------------------------------------------------------ thrift compact reader primitives *)
Definition t_read_byte (buf : list N) : tout (N * list N) :=
  match buf with [] => TErr | b :: r => TOk (b, r) end.

(* read_vlq: loop { byte = read_byte()?; in_progress |= ((byte & 0x7F) as u64) << shift; shift += 7;
                    if byte & 0x80 == 0 { return } }      -- no bound on shift *)
Fixpoint t_vlq (c : cfg) (bs : list N) (acc shift : N) : tout (N * list N) :=
  match bs with
  | [] => TErr
  | b :: r =>
      if 64 <=? shift then (if c_vlq_shift c then TErr else TPanic site_vlq_shift) else
      let acc' := N.lor acc (N.shiftl (N.land b 127) shift mod 2 ^ 64) in
      if N.land b 128 =? 0 then TOk (acc', r) else t_vlq c r acc' (shift + 7)
  end.
Definition t_read_vlq (c : cfg) (bs : list N) : tout (N * list N) := t_vlq c bs 0 0.

(* read_zig_zag as a 64 bit pattern, `as i16` / `as i32` keep the low bits *)
Definition t_zigzag (n : N) : N := zigzag_decode n.
Definition as_i16 (pat : N) : Z := to_signed 16 (pat mod 2 ^ 16).
Definition as_i32 (pat : N) : Z := to_signed 32 (pat mod 2 ^ 32).

(* read_bytes: len = read_vlq as usize; self.buf.get(..len).ok_or(eof)?.to_vec()  -- checked, allocates len *)
Definition t_read_bytes (c : cfg) (buf : list N) : tout (list N * list N * N) :=
  '(len, r) <-- t_read_vlq c buf ;;;
  if lenN r <? len then TErr
  else TOk (firstn (N.to_nat len) r, skipn (N.to_nat len) r, len).

(* read_string = read_bytes + String::from_utf8 *)
Definition t_read_string (c : cfg) (buf : list N) : tout (list N * N) :=
  '(bs, r, a) <-- t_read_bytes c buf ;;;
  if utf8_validb bs then TOk (r, a) else TErr.

(* read_double: (self.buf[..8]).try_into().unwrap() *)
Definition t_read_double (c : cfg) (buf : list N) : tout (list N) :=
  if lenN buf <? 8 then (if c_double c then TErr else TPanic site_double_slice)
  else TOk (skipn 8 buf).

(* TType of a compact type nibble: u8_to_type (None = protocol error).
   0 Stop 3 I08 4 I16 5 I32 6 I64 7 Double 8 String 9 List 10 Set 11 Map 12 Struct; 1 = Bool where allowed *)
Definition ty_stop : N := 0.
Definition ty_bool : N := 1.
Definition u8_to_type (b : N) : option N :=
  if b =? 0 then Some 0 else if (3 <=? b) && (b <=? 12) then Some b else None.
Definition collection_u8_to_type (b : N) : option N :=
  if b =? 1 then Some ty_bool else u8_to_type b.

(* read_list_set_begin: header byte, element type from the low nibble, count from the high nibble or a vlq `as i32` *)
Definition t_read_list_begin (c : cfg) (buf : list N) : tout (N * Z * list N) :=
  '(h, r) <-- t_read_byte buf ;;;
  match collection_u8_to_type (N.land h 15) with
  | None => TErr
  | Some ety =>
      let short := N.shiftr h 4 in
      '(cnt, r') <-- (if short =? 15 then '(v, r1) <-- t_read_vlq c r ;;; TOk (as_i32 v, r1)
                      else TOk (Z.of_N short, r)) ;;;
      if c_list_len c && ((cnt <? 0)%Z || (Z.of_N (lenN r') <? cnt)%Z) then TErr
      else TOk (ety, cnt, r')
  end.

(* format.rs, in front of every list of a known field:
     let list_ident = i_prot.read_list_begin()?;
     let mut val: Vec<E> = Vec::with_capacity(list_ident.size as usize);
   returns the bytes requested from the allocator; a negative size is 2^64 - |size| elements: capacity overflow *)
Definition t_list_alloc (c : cfg) (elem_size : N) (buf : list N) : tout (N * list N) :=
  '(ety, cnt, r) <-- t_read_list_begin c buf ;;;
  if (cnt <? 0)%Z then TPanic site_capacity
  else TOk (Z.to_N cnt * elem_size, r).

(* ------------------------------------------------------------------ skip (unknown fields) as a task machine *)
(* KFields d last : inside a struct whose fields are skipped with depth d; last = last_read_field_id
   KElems n ety d : n more list elements of type ety to skip with depth d *)
Inductive task :=
| KFields (d : nat) (last : Z)
| KElems (n : N) (ety : N) (d : nat).

Record st := mk_st { s_buf : list N; s_tasks : list task; s_alloc : N }.

(* skip_till_depth(ty, d) for ty not a struct field list: consumes the value or pushes a task *)
Definition skip_value (c : cfg) (ty : N) (d : nat) (pending_bool : bool) (s : st) : tout st :=
  match d with
  | O => TErr                                         (* depth == 0: DepthLimit *)
  | S d' =>
    let buf := s_buf s in
    if ty =? 1 then                                    (* Bool: the pending value of the field header, else a byte 1/2 *)
      if pending_bool then TOk s
      else '(b, r) <-- t_read_byte buf ;;;
           if (b =? 1) || (b =? 2) then TOk (mk_st r (s_tasks s) (s_alloc s)) else TErr
    else if ty =? 3 then '(_, r) <-- t_read_byte buf ;;; TOk (mk_st r (s_tasks s) (s_alloc s))
    else if (ty =? 4) || (ty =? 5) || (ty =? 6) then
      '(_, r) <-- t_read_vlq c buf ;;; TOk (mk_st r (s_tasks s) (s_alloc s))
    else if ty =? 7 then r <-- t_read_double c buf ;;; TOk (mk_st r (s_tasks s) (s_alloc s))
    else if ty =? 8 then '(r, a) <-- t_read_string c buf ;;; TOk (mk_st r (s_tasks s) (s_alloc s + a))
    else if ty =? 12 then TOk (mk_st buf (KFields d' 0 :: s_tasks s) (s_alloc s))
    else if ty =? 9 then
      '(ety, cnt, r) <-- t_read_list_begin c buf ;;;
      TOk (mk_st r (KElems (Z.to_N cnt) ety d' :: s_tasks s) (s_alloc s))      (* for _ in 0..size: none when negative *)
    else if (ty =? 10) || (ty =? 11) then (if c_setmap c then TErr else TPanic site_unimplemented)
    else TErr                                          (* Stop / unknown: "cannot skip field type" *)
  end.

(* one iteration of the struct loop: read_field_begin, then skip the field (the task KFields d last is
   already popped; it is pushed back unless the field is Stop) *)
Definition fields_step (c : cfg) (d : nat) (last : Z) (s : st) : tout st :=
  '(h, r) <-- t_read_byte (s_buf s) ;;;
  let delta := N.shiftr h 4 in
  let nib := N.land h 15 in
  let fty := if (nib =? 1) || (nib =? 2) then Some ty_bool else u8_to_type nib in
  match fty with
  | None => TErr
  | Some ty =>
      if ty =? 0 then TOk (mk_st r (s_tasks s) (s_alloc s))             (* Stop: read_struct_end *)
      else
        '(last', r') <-- (if negb (delta =? 0) then
                            let nl := (last + Z.of_N delta)%Z in
                            if (32767 <? nl)%Z then (if c_fid_add c then TErr else TPanic site_fid_add)   (* checked_add -> protocol error *)
                            else TOk (nl, r)
                          else '(v, r1) <-- t_read_vlq c r ;;; TOk (as_i16 (t_zigzag v), r1)) ;;;
        skip_value c ty d ((nib =? 1) || (nib =? 2)) (mk_st r' (KFields d last' :: s_tasks s) (s_alloc s))
  end.

Definition step (c : cfg) (s : st) : tout st :=
  match s_tasks s with
  | [] => TOk s
  | KFields d last :: rest => fields_step c d last (mk_st (s_buf s) rest (s_alloc s))
  | KElems n ety d :: rest =>
      if n =? 0 then TOk (mk_st (s_buf s) rest (s_alloc s))
      else
        let s1 := mk_st (s_buf s) (KElems (n - 1) ety d :: rest) (s_alloc s) in
        if ety =? 12 then
          (* a struct element: skip_till_depth(Struct, d) enters its field loop at once *)
          match d with O => TErr | S d' => fields_step c d' 0 s1 end
        else skip_value c ety d false s1
  end.

Fixpoint run (c : cfg) (fuel : nat) (s : st) : tout st :=
  match s_tasks s with
  | [] => TOk s
  | _ => match fuel with
         | O => TFuel
         | S f => s' <-- step c s ;;; run c f s'
         end
  end.

(* The top-level struct loop of FileMetaData::read_from_in_protocol restricted to fields the generated code does
   not know (`_ => i_prot.skip(field_ident.field_type)`, depth MAXIMUM_SKIP_DEPTH = 64): this is what
   decode_metadata executes on a footer all of whose field ids are outside 1..9.  Budget 3|buf| + 2. *)
Definition skip_budget (buf : list N) : nat := 3 * length buf + 2.
Definition t_skip_top (c : cfg) (buf : list N) : tout st :=
  run c (skip_budget buf) (mk_st buf [KFields 64 0] 0).

(* the whole path for such a file: footer loader, then the field loop *)
Definition read_unknown_footer (c : cfg) (file : list N) : tout st * N :=
  let l := load_footer c file in
  match l_out l with
  | TOk meta => (t_skip_top c meta, l_alloc l)
  | TErr => (TErr, l_alloc l)
  | TPanic x => (TPanic x, l_alloc l)
  | TFuel => (TFuel, l_alloc l)
  end.

(* ------------------------------------------------------------------ which cfg is the source (gen/TablesFault.v) *)
From GV Require gen.TablesFault.
Definition current_cfg : option cfg :=
  match TablesFault.footer_len_checked, TablesFault.setmap_implemented, TablesFault.double_checked,
        TablesFault.vlq_shift_checked, TablesFault.fid_add_checked, TablesFault.list_len_checked with
  | Some a, Some b, Some d, Some e, Some f, Some g => Some (mk_cfg a b d e f g)
  | _, _, _, _, _, _ => None
  end.

(* a parquet file made of a footer only: "PAR1" footer len "PAR1" *)
Definition wrap_footer (meta : list N) : list N :=
  magic_par1 ++ meta ++ le_bytes 4 (lenN meta) ++ magic_par1.

(* ------------------------------------------------------------------ loading an UNCOMPRESSED page body (page_reader.rs) *)
(* prepare_dictionary / prepare_data_page / prepare_data_page_v2 with codec = None, after read_header:
     decompressed_page.reset_and_resize(metadata.uncompressed_page_size as usize)?      <- allocation from the header
     src = chunk.get(chunk_offset .. chunk_offset + metadata.compressed_page_size as usize).ok_or(..)?
           (v2: chunk_slice: the same expression)          <- `+` unchecked: overflow panic in the dev profile
     dest.copy_from_slice(src)                              <- `// TODO: Check slice len`: panics unless the two sizes agree
     chunk_offset += compressed_page_size
   Both sizes are i32 fields of the thrift PageHeader; `as usize` sign-extends.  chk = true is the proposed repair:
   negative sizes, sizes that disagree and a body beyond the chunk are errors BEFORE anything is allocated.
   (Compressed pages: the allocation is uncompressed_page_size <= 2^31-1 whatever the input; not modelled.) *)
Definition site_copy_len : N := 6.        (* page_reader.rs dest.copy_from_slice(src) with different lengths *)
Definition site_offset_add : N := 7.      (* page_reader.rs chunk_offset + compressed_page_size as usize overflows *)
Definition usize_of_i32 (z : Z) : N := Z.to_N (z mod 2 ^ 64).

Record paged := mk_paged {
  p_out : tout N;           (* the new chunk_offset *)
  p_alloc : N }.            (* bytes requested for the decompressed page buffer *)

Definition load_page_plain (chk : bool) (chunk_len off : N) (usz csz : Z) : paged :=
  if chk && ((usz <? 0) || (csz <? 0) || negb (usz =? csz) || (Z.of_N chunk_len <? Z.of_N off + csz))%Z
  then mk_paged TErr 0 else
  let u := usize_of_i32 usz in
  let cs := usize_of_i32 csz in
  if 2 ^ 63 <=? u then mk_paged TErr 0                          (* resize_uninit: "failed to create memory layout" *)
  else if 2 ^ 64 <=? off + cs then mk_paged (TPanic site_offset_add) u
  else if chunk_len <? off + cs then mk_paged TErr u            (* "chunk buffer not large enough to read from" *)
  else if negb (u =? cs) then mk_paged (TPanic site_copy_len) u
  else mk_paged (TOk (off + cs)) u.

Definition is_i32 (z : Z) : Prop := (- 2 ^ 31 <= z < 2 ^ 31)%Z.

(* ------------------------------------------------------------------ fetching a column chunk (reader.rs fetch loop) *)
(* NeedsFetch: (start, len) = col.byte_range()   (u64 from the footer)
     [chk: start.checked_add(len) is None or > file size -> Err]                    <- repair f3bd995b4
     prepare_for_chunk(len): chunk.resize_uninit(len)                               <- allocation of len bytes
   Fetching: poll_read into buf[amount_written..] until amount_written == len;
     a read at end of file returns Ok(0): [chk: Err] else the loop spins forever    <- TFuel = the hang
   A seek beyond the end of the file succeeds (std::fs), so only the reads see the end. *)
Definition fetch_chunk (chk : bool) (file_size start len : N) : paged :=
  if chk && ((2 ^ 64 <=? start + len) || (file_size <? start + len)) then mk_paged TErr 0 else
  if 2 ^ 63 <=? len then mk_paged TErr 0                         (* "failed to create memory layout" *)
  else if file_size <? start + len then
    (if len =? 0 then mk_paged (TOk 0) 0 else mk_paged (if chk then TErr else TFuel) len)
  else mk_paged (TOk len) len.

(* ------------------------------------------------------------------ COMPRESSED data page v2 (page_reader.rs prepare_data_page_v2) *)
(* (c, u) = checked_page_sizes(metadata)?       non-negative, chunk_offset + c inside the chunk (no c = u test: codec is Some)
   reset_and_resize(u)                           allocation of u <= 2^31-1 bytes whatever the chunk holds
   ul = usize(rep_levels_byte_len) + usize(def_levels_byte_len)      (negative -> Err)
        .filter(|len| len <= c && len <= u)?     <- the two halves are the flags le_c / le_u (scanned: gen/TablesFault.v)
   levels_dest = &mut dest[..ul]                 <- slice panic when ul > u
   levels_src = chunk_slice(chunk_offset, ul)?   chunk_offset += ul
   compressed_len = c - ul                       <- underflow when ul > c (overflow-checked build: panic)
   page_src = chunk_slice(chunk_offset, compressed_len)?
   if compressed_len > 0 { codec.decompress(page_src, &mut dest[ul..])? }
   The codec is an oracle: codec_ok says whether decompress succeeds. *)
Definition site_levels_dest : N := 8.     (* &mut dest[..uncompressed_len]: range end index out of range *)
Definition site_levels_sub : N := 9.      (* compressed_size - uncompressed_len underflows *)

Definition load_page_v2_compressed (le_c le_u : bool) (chunk_len off : N) (usz csz rep def : Z) (codec_ok : bool) : paged :=
  if ((usz <? 0) || (csz <? 0))%Z then mk_paged TErr 0 else
  let u := Z.to_N usz in
  let c := Z.to_N csz in
  if chunk_len <? off + c then mk_paged TErr 0 else
  if ((rep <? 0) || (def <? 0))%Z then mk_paged TErr u else
  let ul := Z.to_N rep + Z.to_N def in
  if (le_c && (c <? ul)) || (le_u && (u <? ul)) then mk_paged TErr u else
  if u <? ul then mk_paged (TPanic site_levels_dest) u else
  if chunk_len <? off + ul then mk_paged TErr u else
  if c <? ul then mk_paged (TPanic site_levels_sub) u else
  if (0 <? c - ul) && negb codec_ok then mk_paged TErr u
  else mk_paged (TOk (off + c)) u.
