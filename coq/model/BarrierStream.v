(* C04 — the ResultStream single-slot hand-off (execution/operators/results/streaming.rs):
   N pushing partitions (PhysicalStreamingResults::poll_push / poll_finalize_push), one consumer
   (Stream::poll_next), the error sink (ResultErrorSink::set_error, also used by cancel()).
   Every step is one critical section of `ResultStreamInner`.  Definitions only.

   Pusher phase:  SProd q      runnable; q = the non-empty batches (ids) it still has to push
                  SParked b q  poll_push found the slot full: push_wakers[p] stored, Pending; it
                               still holds b, then q
                  SDone        poll_finalize_push done
                  SFailed      its task returned Err (errors.set_error called); never runs again
                  SPanic       usize underflow of remaining_inputs
   Consumer:      CRun runnable | CParked (pull_waker stored, Pending) | CEnded (got None)
                  | CErr (got Some(Err): try_collect stops and drops the stream)
   Stored wakers are identified with the parked phases (push_wakers[p] <-> SParked, pull_waker <->
   CParked); a stale waker only causes an extra wake, which is covered by spurious polls: the poll
   rules apply to parked agents at any time. Empty batches never take the lock (NeedsMore). *)
From Coq Require Import List Arith Bool.
From GV Require Import lib.Lts.
Import ListNotations.

Inductive sph := SProd (q : list nat) | SParked (b : nat) (q : list nat) | SDone | SFailed | SPanic.
Inductive cph := CRun | CParked | CEnded | CErr.

Record sst := {
  sps : list sph;
  slot : option nat;      (* buffered *)
  serr : bool;            (* error.is_some() *)
  srem : nat;             (* remaining_inputs *)
  cons : cph;
  delivered : list nat;   (* ghost: batches the consumer received, in order *)
  dropped : list nat      (* ghost: batches held by partitions that failed *)
}.

Definition swake (p : sph) : sph := match p with SParked b q => SProd (b :: q) | x => x end.
Definition wake_pull (c : cph) : cph := match c with CParked => CRun | x => x end.
(* the batch a partition presents to poll_push *)
Definition offers (p : sph) : option (nat * list nat) :=
  match p with SProd (b :: q) => Some (b, q) | SParked b q => Some (b, q) | _ => None end.
Definition holds (p : sph) : list nat :=
  match p with SProd q => q | SParked b q => b :: q | _ => [] end.
Definition can_fail (p : sph) : bool := match p with SProd _ | SParked _ _ => true | _ => false end.
Definition c_pollable (c : cph) : bool := match c with CRun | CParked => true | _ => false end.

(* Stream::poll_next *)
Definition c_poll (s : sst) : sst :=
  if serr s then
    {| sps := sps s; slot := slot s; serr := false; srem := srem s; cons := CErr;
       delivered := delivered s; dropped := dropped s |}
  else match slot s with
  | Some b =>
      {| sps := map swake (sps s); slot := None; serr := false; srem := srem s; cons := CRun;
         delivered := delivered s ++ [b]; dropped := dropped s |}
  | None =>
      if srem s =? 0 then
        {| sps := sps s; slot := None; serr := false; srem := srem s; cons := CEnded;
           delivered := delivered s; dropped := dropped s |}
      else
        {| sps := sps s; slot := None; serr := false; srem := srem s; cons := CParked;
           delivered := delivered s; dropped := dropped s |}
  end.

Inductive sstep : sst -> sst -> Prop :=
(* poll_push, slot full: store push_wakers[p]; wake pull_waker; Pending *)
| s_push_full i p b q x s :
    nth_error (sps s) i = Some p -> offers p = Some (b, q) -> slot s = Some x ->
    sstep s {| sps := upd (sps s) i (SParked b q); slot := slot s; serr := serr s; srem := srem s;
               cons := wake_pull (cons s); delivered := delivered s; dropped := dropped s |}
(* poll_push, slot empty: buffered = batch; wake pull_waker; NeedsMore *)
| s_push_ok i p b q s :
    nth_error (sps s) i = Some p -> offers p = Some (b, q) -> slot s = None ->
    sstep s {| sps := upd (sps s) i (SProd q); slot := Some b; serr := serr s; srem := srem s;
               cons := wake_pull (cons s); delivered := delivered s; dropped := dropped s |}
(* poll_finalize_push: remaining_inputs -= 1; wake pull_waker *)
| s_finalize i s :
    nth_error (sps s) i = Some (SProd []) -> 0 < srem s ->
    sstep s {| sps := upd (sps s) i SDone; slot := slot s; serr := serr s; srem := srem s - 1;
               cons := wake_pull (cons s); delivered := delivered s; dropped := dropped s |}
| s_finalize_underflow i s :
    nth_error (sps s) i = Some (SProd []) -> srem s = 0 ->
    sstep s {| sps := upd (sps s) i SPanic; slot := slot s; serr := serr s; srem := srem s;
               cons := cons s; delivered := delivered s; dropped := dropped s |}
(* the partition's task fails somewhere in its pipeline: errors.set_error(e): error = Some(e); wake pull *)
| s_fail i p s :
    nth_error (sps s) i = Some p -> can_fail p = true ->
    sstep s {| sps := upd (sps s) i SFailed; slot := slot s; serr := true; srem := srem s;
               cons := wake_pull (cons s); delivered := delivered s; dropped := dropped s ++ holds p |}
(* set_error from elsewhere: another pipeline of the query, or cancel() *)
| s_env_error s :
    sstep s {| sps := sps s; slot := slot s; serr := true; srem := srem s;
               cons := wake_pull (cons s); delivered := delivered s; dropped := dropped s |}
(* the consumer polls (woken, or spuriously) *)
| s_consume s :
    c_pollable (cons s) = true -> sstep s (c_poll s).

Definition sinit (qs : list (list nat)) : sst :=
  {| sps := map SProd qs; slot := None; serr := false; srem := length qs; cons := CRun;
     delivered := []; dropped := [] |}.

Inductive sreach (qs : list (list nat)) : sst -> Prop :=
| sr_init : sreach qs (sinit qs)
| sr_step s s' : sreach qs s -> sstep s s' -> sreach qs s'.

Definition is_sprod p := match p with SProd _ => true | _ => false end.
Definition is_sparked p := match p with SParked _ _ => true | _ => false end.
Definition is_sdone p := match p with SDone => true | _ => false end.
Definition is_sfailed p := match p with SFailed => true | _ => false end.
Definition is_spanic p := match p with SPanic => true | _ => false end.

(* multiset bookkeeping *)
Definition eqn (x b : nat) : nat := if Nat.eqb x b then 1 else 0.
Fixpoint occ (b : nat) (l : list nat) : nat :=
  match l with [] => 0 | x :: t => eqn x b + occ b t end.
Definition slot_occ (b : nat) (o : option nat) : nat := match o with Some x => eqn x b | None => 0 end.
Definition holds_occ (b : nat) (p : sph) : nat := occ b (holds p).

Definition consumer_finished (s : sst) : Prop := cons s = CEnded \/ cons s = CErr.

(* termination measure *)
Definition sweight (p : sph) : nat :=
  match p with SProd q => 2 + 2 * length q | SParked _ q => 4 + 2 * length q | _ => 0 end.
Definition cweight (c : cph) : nat := match c with CRun | CParked => 3 | _ => 0 end.
Definition swork (s : sst) : nat :=
  sumw sweight (sps s) + (match slot s with Some _ => 1 | None => 0 end)
  + (if serr s then 0 else 1) + cweight (cons s).
Definition srunnable (s : sst) : nat :=
  count is_sprod (sps s) + (match cons s with CRun => 1 | _ => 0 end).
Definition smeasure (s : sst) : nat := (length (sps s) + 2) * swork s + srunnable s.
