(* C06 — executable model of the hash join, at the algorithm level.
   Transcribed from /repo/crates/glaredb_core/src/execution/operators/hash_join/
     mod.rs, hash_table/{mod,scan,drain,directory}.rs and arrays/row/row_matcher.rs.
   Definitions only.

   What the source does (and the model keeps):
   * plan_join.rs `plan_comparison_join_as_hash_join`: children = [left, right]; the LEFT input is
     pushed (build side), the RIGHT input is executed against the table (probe side).  Every join
     condition is a comparison `left_expr op right_expr` (`HashJoinCondition`); at least one has
     op `=`.  ALL conditions (equalities and inequalities) are evaluated by the row matcher on the
     precomputed key columns (`NullCoercedComparison`: NULL on either side -> no match); only the
     `=` columns are hashed.
   * build rows are stored as [columns, keys, hash/next, matched]; a row pointer is modelled as
     (address, content) = `bptr`; the merged row collection is a list of blocks.
   * directory: 2^kbits chain heads, slot = hash land (2^kbits - 1); insertion by CAS puts the new row
     at the head of the chain; the order in which the (concurrent) insertions win is an input `ins`
     (any permutation of the stored rows).
   * probe of one right batch: per right row a chain pointer; lock-step walking of all chains
     (`chase_until_match_or_exhaust` / `follow_next_in_chain`): at each depth the row matcher selects
     the rows whose current chain entry matches, one output batch per depth that has a match;
     `right_matches` (per right row) is kept as the flag of the entry.
   * INNER: emits pairs.  LEFT: pairs + marks the build rows `matched`; after all probing the drain
     emits the unmatched build rows padded with NULLs, drain partition p reading blocks p, p+P, ...
     RIGHT: pairs, then per right batch the right rows whose flag is false, left-padded with NULLs.
     LEFT SEMI / LEFT MARK: probing only marks; the drain emits the marked build rows (SEMI) or every
     build row with its flag appended (MARK).
   * LEFT ANTI is `not_implemented` in scan.rs/drain.rs and FULL is rejected by `drain_next`; NOT
     EXISTS / NOT IN are planned (plan_subquery.rs) as LEFT MARK + Filter(NOT mark): `mark_filter`. *)
From Coq Require Import NArith ZArith List Bool.
From GV Require Import model.Sql.
Import ListNotations.

(* one comparison of the row matcher: TRUE only (NULL -> no match; operands have one type) *)
Definition cmp_true (op : cmpop) (a b : value) : bool :=
  match cmp3 op a b with Ok (VBool true) => true | _ => false end.

(* equality of key tuples: every component compares equal; a NULL matches nothing *)
Fixpoint keys_match (k1 k2 : list value) : bool :=
  match k1, k2 with
  | [], [] => true
  | a :: k1', b :: k2' => cmp_true CEq a b && keys_match k1' k2'
  | _, _ => false
  end.

(* PredicateRowMatcher::find_matches: all conditions, column by column (arity fixed by try_new) *)
Fixpoint conds_match (ops : list cmpop) (k1 k2 : list value) : bool :=
  match ops, k1, k2 with
  | [], [], [] => true
  | op :: ops', a :: k1', b :: k2' => cmp_true op a b && conds_match ops' k1' k2'
  | _, _, _ => false
  end.

(* `equality_columns`: the key columns whose operator is `=`; these are the hash inputs *)
Fixpoint eq_cols (ops : list cmpop) (ks : list value) : list value :=
  match ops, ks with
  | op :: ops', k :: ks' => (match op with CEq => [k] | _ => [] end) ++ eq_cols ops' ks'
  | _, _ => []
  end.

Inductive hkind := HInner | HLeft | HRight | HSemi | HMark.

Definition needs_match_column (k : hkind) : bool :=
  match k with HLeft | HSemi | HMark => true | HInner | HRight => false end.
Definition needs_drain (k : hkind) : bool :=
  match k with HLeft | HSemi | HMark => true | HInner | HRight => false end.

(* a stored build row: (address, original columns) *)
Definition bptr := (nat * row)%type.

(* consecutive addresses for the rows of the merged collection, block by block *)
Fixpoint number_blocks (start : nat) (blocks : list (list row)) : list (list bptr) :=
  match blocks with
  | [] => []
  | b :: bs => combine (seq start (length b)) b :: number_blocks (start + length b) bs
  end.

(* elements at positions p, p+P, p+2P, ... *)
Definition strided {A} (P p : nat) (l : list A) : list A :=
  map snd (filter (fun ix => Nat.eqb (Nat.modulo (fst ix) P) p) (combine (seq 0 (length l)) l)).

Definition last_flag_filter (want : bool) (x : row) : list row :=
  match last x VNull with
  | VBool m => if Bool.eqb m want then [removelast x] else []
  | _ => []
  end.
(* Filter(mark) / Filter(NOT mark) + projection of the mark column, as placed on a LEFT MARK join *)
Definition mark_filter (want : bool) (rows : list row) : list row := flat_map (last_flag_filter want) rows.

Section HashJoinModel.
  Variable hash : list value -> N.
  Variable ops : list cmpop.                 (* operators of the conditions *)
  Variables bkeys pkeys : row -> list value. (* build-side / probe-side key expressions *)
  Variable kbits : N.                        (* directory capacity 2^kbits *)

  Definition matcher (b r : row) : bool := conds_match ops (bkeys b) (pkeys r).
  Definition bhash (b : row) : N := hash (eq_cols ops (bkeys b)).
  Definition phash (r : row) : N := hash (eq_cols ops (pkeys r)).
  Definition slot (h : N) : N := N.land h (N.ones kbits).

  (* ---- directory ---- *)
  Definition directory := N -> list bptr.
  Definition dir_insert (d : directory) (x : bptr) : directory :=
    fun s => if N.eqb s (slot (bhash (snd x))) then x :: d s else d s.
  Definition build_dir (ins : list bptr) : directory := fold_left dir_insert ins (fun _ => []).

  (* ---- probe ---- *)
  (* (right row, rest of its chain = current pointer and what follows, right_matches flag) *)
  Definition entry := (row * list bptr * bool)%type.
  Definition e_row (e : entry) : row := fst (fst e).
  Definition e_chain (e : entry) : list bptr := snd (fst e).
  Definition e_flag (e : entry) : bool := snd e.

  Definition probe_init (d : directory) (batch : list row) : list entry :=
    map (fun r => (r, d (slot (phash r)), false)) batch.

  (* row matcher at the current pointers: the selected (build, probe) pairs *)
  Definition emit1 (e : entry) : list (bptr * row) :=
    match e_chain e with
    | b :: _ => if matcher (snd b) (e_row e) then [(b, e_row e)] else []
    | [] => []
    end.
  (* mark right_matches, follow_next_in_chain *)
  Definition adv1 (e : entry) : entry :=
    match e_chain e with
    | b :: rest => (e_row e, rest, e_flag e || matcher (snd b) (e_row e))
    | [] => e
    end.
  Definition chain_done (e : entry) : bool := match e_chain e with [] => true | _ => false end.

  (* one round per chain depth while `selection` is non-empty; a depth with a match yields a batch *)
  Fixpoint walk (fuel : nat) (st : list entry) : list (list (bptr * row)) * list entry :=
    match fuel with
    | O => ([], st)
    | S f =>
        if forallb chain_done st then ([], st)
        else
          let batch := flat_map emit1 st in
          let rest := walk f (map adv1 st) in
          (match batch with [] => fst rest | _ => batch :: fst rest end, snd rest)
    end.

  Definition max_chain (st : list entry) : nat :=
    fold_right (fun e m => Nat.max (length (e_chain e)) m) O st.

  Definition scan_batch (d : directory) (batch : list row) : list (list (bptr * row)) * list entry :=
    let st := probe_init d batch in walk (S (max_chain st)) st.

  Definition pair_row (x : bptr * row) : row := snd (fst x) ++ snd x.

  (* what the probe of one right batch emits *)
  Definition probe_output (k : hkind) (la : nat) (s : list (list (bptr * row)) * list entry) : list row :=
    match k with
    | HInner | HLeft => map pair_row (concat (fst s))
    | HRight => map pair_row (concat (fst s))
                ++ map (fun e => nulls la ++ e_row e) (filter (fun e => negb (e_flag e)) (snd s))
    | HSemi | HMark => []
    end.

  (* addresses written by write_rows_matched during that probe *)
  Definition probe_marks (k : hkind) (s : list (list (bptr * row)) * list entry) : list nat :=
    if needs_match_column k then map (fun x => fst (fst x)) (concat (fst s)) else [].

  (* ---- drain ---- *)
  Definition is_marked (marked : list nat) (b : bptr) : bool := existsb (Nat.eqb (fst b)) marked.

  Definition drain_row (k : hkind) (ra : nat) (marked : list nat) (b : bptr) : list row :=
    match k with
    | HLeft => if is_marked marked b then [] else [snd b ++ nulls ra]
    | HSemi => if is_marked marked b then [snd b] else []
    | HMark => [snd b ++ [VBool (is_marked marked b)]]
    | HInner | HRight => []
    end.

  Definition drain_partition (k : hkind) (ra : nat) (marked : list nat) (blocks : list (list bptr))
      (P p : nat) : list row :=
    flat_map (drain_row k ra marked) (concat (strided P p blocks)).

  Definition drain_all (k : hkind) (ra : nat) (marked : list nat) (blocks : list (list bptr)) (P : nat)
      : list row :=
    if needs_drain k then flat_map (drain_partition k ra marked blocks P) (seq 0 P) else [].

  (* ---- the operator ----
     Lparts: build input, partitions -> blocks -> rows (merged in partition order by init_directory);
     ins   : order in which the stored rows enter the directory;
     Rparts: probe input, partitions -> batches -> rows;  P: number of drain partitions. *)
  Definition hash_join (k : hkind) (la ra : nat) (P : nat)
      (Lparts : list (list (list row))) (ins : list bptr) (Rparts : list (list (list row))) : list row :=
    let blocks := number_blocks 0 (concat Lparts) in
    let d := build_dir ins in
    let scans := map (scan_batch d) (concat Rparts) in
    flat_map (probe_output k la) scans
    ++ drain_all k ra (flat_map (probe_marks k) scans) blocks P.

  (* the stored rows, i.e. what `ins` has to be a permutation of *)
  Definition stored_rows (Lparts : list (list (list row))) : list bptr :=
    concat (number_blocks 0 (concat Lparts)).
End HashJoinModel.

