(* C07: the partial-state algebra of the aggregate functions, transcribed from
   /repo/crates/glaredb_core/src/functions/aggregate/builtin/{count,sum,minmax,bool_and,bool_or}.rs
   (trait AggregateState: update / merge / finalize; simple.rs + arrays/executor/aggregate/unary.rs:
   `UnaryNonNullUpdater` calls `update` for valid (non-NULL) inputs only).
   Definitions only (executable).  Specification side: model/Sql.v `agg_apply`.

   Rows of one group are aggregated in several partial states (one per input partition / local hash
   table) which are later combined with `merge`:
       agg_parts fn parts = finalize (fold merge (map (fold update init) parts)).

   Transcription notes
   * count( * ) is rewritten by the binder (expr_binder.rs) to count(true): same state as count, the
     input is the literal `true` for every row.
   * CountNonNullState { count: i64 }: `count += 1`, `count += other.count` (unchecked i64; a wrap needs
     2^63 rows and is not modelled: Z).
   * SumStateCheckedAdd { sum: i64, valid }: update = `sum.checked_add(input)` else Err("Sum overflowed");
     merge = `sum.checked_add(other.sum)` else Err; valid |= other.valid; finalize: valid ? sum : NULL.
   * Min/MaxStatePrimitive / Binary { min: T (Default), valid }: the `Default` payload of an invalid state
     is never observed; it is modelled as VNull.
   * BoolAndState { result: true, valid: false }, BoolOrState { result: false, valid: false }. *)
From Coq Require Import NArith ZArith List Bool.
From GV Require Import lib.Bytes model.Sql.
Import ListNotations.

Inductive astate :=
| StCount (count : Z)
| StSum (sum : Z) (valid : bool)
| StExt (m : value) (valid : bool)          (* min or max *)
| StBool (result : bool) (valid : bool).

Definition agg_init (f : aggfn) : astate :=
  match f with
  | ACountStar | ACount => StCount 0
  | ASum => StSum 0 false
  | AMin | AMax => StExt VNull false
  | ABoolAnd => StBool true false
  | ABoolOr => StBool false false
  end.

(* `self.min.gt(input)` / `self.max.lt(input)` *)
Definition val_gt (a b : value) : res bool :=
  match val_compare a b with Some Gt => Ok true | Some _ => Ok false | None => Err EType end.
Definition val_lt (a b : value) : res bool :=
  match val_compare a b with Some Lt => Ok true | Some _ => Ok false | None => Err EType end.

(* update with a non-NULL input *)
Definition agg_update (f : aggfn) (st : astate) (v : value) : res astate :=
  match f, st with
  | (ACountStar | ACount), StCount c => Ok (StCount (c + 1))
  | ASum, StSum s _ =>
      match v with
      | VInt x => if in_range 64 (s + x) then Ok (StSum (s + x) true) else Err EOverflow
      | _ => Err EType
      end
  | AMin, StExt m valid =>
      if negb valid then Ok (StExt v true)
      else do g <- val_gt m v; Ok (StExt (if g then v else m) true)
  | AMax, StExt m valid =>
      if negb valid then Ok (StExt v true)
      else do l <- val_lt m v; Ok (StExt (if l then v else m) true)
  | ABoolAnd, StBool r _ =>
      match v with VBool b => Ok (StBool (andb r b) true) | _ => Err EType end
  | ABoolOr, StBool r _ =>
      match v with VBool b => Ok (StBool (orb r b) true) | _ => Err EType end
  | _, _ => Err EType
  end.

(* the executor: NULL inputs are skipped; count( * ) sees `true` for every row *)
Definition agg_input (f : aggfn) (v : value) : value :=
  match f with ACountStar => VBool true | _ => v end.
Definition agg_feed (f : aggfn) (st : astate) (v : value) : res astate :=
  match agg_input f v with
  | VNull => Ok st
  | x => agg_update f st x
  end.

(* self.merge(other) *)
Definition agg_merge (f : aggfn) (a b : astate) : res astate :=
  match f, a, b with
  | (ACountStar | ACount), StCount c1, StCount c2 => Ok (StCount (c1 + c2))
  | ASum, StSum s1 v1, StSum s2 v2 =>
      if in_range 64 (s1 + s2) then Ok (StSum (s1 + s2) (orb v1 v2)) else Err EOverflow
  | AMin, StExt m1 v1, StExt m2 v2 =>
      if negb v1 then Ok (StExt m2 v2)             (* self.valid = other.valid; swap(min) *)
      else if negb v2 then Ok (StExt m1 v1)
      else do g <- val_gt m1 m2; Ok (StExt (if g then m2 else m1) true)
  | AMax, StExt m1 v1, StExt m2 v2 =>
      if negb v1 then Ok (StExt m2 v2)
      else if negb v2 then Ok (StExt m1 v1)
      else do l <- val_lt m1 m2; Ok (StExt (if l then m2 else m1) true)
  | ABoolAnd, StBool r1 v1, StBool r2 v2 => Ok (StBool (andb r1 r2) (orb v1 v2))
  | ABoolOr, StBool r1 v1, StBool r2 v2 => Ok (StBool (orb r1 r2) (orb v1 v2))
  | _, _, _ => Err EType
  end.

Definition agg_finalize (st : astate) : value :=
  match st with
  | StCount c => VInt c
  | StSum s valid => if valid then VInt s else VNull
  | StExt m valid => if valid then m else VNull
  | StBool r valid => if valid then VBool r else VNull
  end.

Definition foldM {A B} (f : A -> B -> res A) (l : list B) (a : A) : res A :=
  fold_left (fun acc x => do s <- acc; f s x) l (Ok a).

(* the partial state of one partition *)
Definition part_state (f : aggfn) (vs : list value) : res astate := foldM (agg_feed f) vs (agg_init f).

(* all partial states merged into a fresh state, in partition order, then finalized *)
Definition agg_parts (f : aggfn) (parts : list (list value)) : res value :=
  do sts <- mapM (part_state f) parts;
  do m <- foldM (agg_merge f) sts (agg_init f);
  Ok (agg_finalize m).

(* DISTINCT aggregates (hash_aggregate/distinct_aggregates.rs): the argument values of a group are
   first collected into a per-group distinct table (a hash table keyed by group ++ argument, NULL
   arguments included as keys), then the surviving values are fed to the ordinary state. *)
Definition agg_parts_distinct (f : aggfn) (parts : list (list value)) : res value :=
  let distinct_vals := map (fun r => hd VNull r) (dedup_rows (map (fun v => [v]) (concat parts))) in
  agg_parts f [distinct_vals].
