(* Model of crates/glaredb_core/src/arrays/sort/sort_layout.rs: the comparable
   key encoding.  Executable definitions only; proofs live in proofs/.

   Values are raw bit patterns (N) of the column's physical type, exactly what
   `to_bits()` / two's complement gives; strings are byte lists. *)
From Coq Require Import NArith ZArith List Bool.
From GV Require Import lib.Bytes.
Import ListNotations.
Open Scope N_scope.

(* physical key types.  KF carries the shift constant used by the source
   (`bits >> K`), KBool the bytes written for true / false: both are read from
   the current source by gen/Tables.v, the model does not assume them. *)
Inductive kty :=
| KU (w : nat)                 (* unsigned integer of w bytes *)
| KS (w : nat)                 (* signed integer of w bytes *)
| KF (w : nat) (shift : N)     (* IEEE float of w bytes *)
| KBool (tkey fkey : N)
| KStr (pw : nat)              (* utf8 / binary, pw-byte zero padded prefix *)
| KInterval.                   (* months:i32, days:i32, nanos:i64 *)

Inductive kval :=
| KNull
| KBits (n : N)
| KBytes (s : list N)
| KIv (months days nanos : N). (* two's complement patterns *)

Record kcol := { k_ty : kty; k_desc : bool; k_nulls_first : bool }.

Definition bitsw (w : nat) : N := 8 * N.of_nat w.
Definition top_bit (w : nat) : N := 2 ^ (bitsw w - 1).

Definition enc_unsigned (w : nat) (bits : N) : list N := be_bytes w bits.
(* to_be_bytes, then b[0] ^= 128 *)
Definition enc_signed (w : nat) (bits : N) : list N := be_bytes w (N.lxor bits (top_bit w)).

(* `>>` on a signed integer of 8w bits, given as its two's complement pattern *)
Definition asr (w : nat) (bits k : N) : N :=
  if bits <? top_bit w then N.shiftr bits k
  else N.lor (N.shiftr bits k) (N.shiftl (N.ones k) (bitsw w - k)).

(* bits ^ (((bits >> K) as unsigned) >> 1) *)
Definition float_key (w : nat) (k : N) (bits : N) : N :=
  N.lxor bits (N.shiftr (asr w bits k) 1).

Definition enc_float (w : nat) (k : N) (bits : N) : list N := enc_signed w (float_key w k bits).

Definition val_width (t : kty) : nat :=
  match t with
  | KU w | KS w | KF w _ => w
  | KBool _ _ => 1
  | KStr pw => pw
  | KInterval => 16
  end.

Definition encode_val (t : kty) (v : kval) : list N :=
  match t, v with
  | KU w, KBits n => enc_unsigned w n
  | KS w, KBits n => enc_signed w n
  | KF w k, KBits n => enc_float w k n
  | KBool tk fk, KBits n => [if n =? 0 then fk else tk]
  | KStr pw, KBytes s => pad_prefix pw s
  | KInterval, KIv m d n => enc_signed 4 m ++ enc_signed 4 d ++ enc_signed 8 n
  | _, _ => repeat 0 (val_width t)
  end.

(* `<S::StorageType>::default()` encoded without inversion *)
Definition default_val (t : kty) : kval :=
  match t with
  | KStr _ => KBytes []
  | KInterval => KIv 0 0 0
  | _ => KBits 0
  end.

Definition valid_byte (c : kcol) : N := if k_nulls_first c then 255 else 0.
Definition invalid_byte (c : kcol) : N := if k_nulls_first c then 0 else 255.

Definition encode_col (c : kcol) (v : kval) : list N :=
  match v with
  | KNull => invalid_byte c :: encode_val (k_ty c) (default_val (k_ty c))
  | _ => valid_byte c ::
         (if k_desc c then inv_bytes (encode_val (k_ty c) v) else encode_val (k_ty c) v)
  end.

Fixpoint encode_row (cs : list kcol) (vs : list kval) : list N :=
  match cs, vs with
  | c :: cs', v :: vs' => encode_col c v ++ encode_row cs' vs'
  | _, _ => []
  end.

(* ---------- the declared order (specification side) ---------- *)

Definition sint (w : nat) (bits : N) : Z :=
  if bits <? top_bit w then Z.of_N bits else (Z.of_N bits - 2 ^ Z.of_N (bitsw w))%Z.

(* IEEE totalOrder rank of a bit pattern: negatives below positives, larger
   magnitude further from zero, -0 < +0, NaNs at the two extremes.  For the
   non-NaN values this is the numeric order; +NaN is above every number. *)
Definition float_rank (w : nat) (bits : N) : Z :=
  if bits <? top_bit w then Z.of_N bits else (- Z.of_N (bits - top_bit w) - 1)%Z.

Definition val_cmp (t : kty) (a b : kval) : comparison :=
  match t, a, b with
  | KU _, KBits x, KBits y => N.compare x y
  | KS w, KBits x, KBits y => Z.compare (sint w x) (sint w y)
  | KF w _, KBits x, KBits y => Z.compare (float_rank w x) (float_rank w y)
  | KBool _ _, KBits x, KBits y =>
      N.compare (if x =? 0 then 0 else 1) (if y =? 0 then 0 else 1)   (* false < true *)
  | KStr _, KBytes x, KBytes y => lex_cmp x y
  | KInterval, KIv m1 d1 n1, KIv m2 d2 n2 =>
      match Z.compare (sint 4 m1) (sint 4 m2) with
      | Eq => match Z.compare (sint 4 d1) (sint 4 d2) with
              | Eq => Z.compare (sint 8 n1) (sint 8 n2)
              | c => c end
      | c => c end
  | _, _, _ => Eq
  end.

Definition col_cmp (c : kcol) (a b : kval) : comparison :=
  match a, b with
  | KNull, KNull => Eq
  | KNull, _ => if k_nulls_first c then Lt else Gt
  | _, KNull => if k_nulls_first c then Gt else Lt
  | _, _ => if k_desc c then CompOpp (val_cmp (k_ty c) a b) else val_cmp (k_ty c) a b
  end.

Fixpoint row_cmp (cs : list kcol) (r1 r2 : list kval) : comparison :=
  match cs, r1, r2 with
  | c :: cs', a :: r1', b :: r2' =>
      match col_cmp c a b with Eq => row_cmp cs' r1' r2' | x => x end
  | _, _, _ => Eq
  end.

(* well-formedness of a value for a key type: bit patterns in range *)
Definition val_wf (t : kty) (v : kval) : Prop :=
  match t, v with
  | _, KNull => True
  | KU w, KBits n | KS w, KBits n | KF w _, KBits n => n < 2 ^ bitsw w
  | KBool _ _, KBits n => n < 2
  | KStr _, KBytes s => all_bytes s
  | KInterval, KIv m d n => m < 2 ^ 32 /\ d < 2 ^ 32 /\ n < 2 ^ 64
  | _, _ => False
  end.

Definition is_str (t : kty) : bool := match t with KStr _ => true | _ => false end.

(* source constants are sane: what the theorems need from gen/Tables.v *)
Definition kty_ok (t : kty) : Prop :=
  match t with
  | KU w | KS w => (0 < w)%nat
  | KF w k => (0 < w)%nat /\ k = bitsw w - 1
  | KBool tk fk => fk < tk /\ tk < 256
  | KStr _ => True
  | KInterval => True
  end.
