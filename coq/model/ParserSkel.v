(* The skeleton of the recursive-descent parser: Parser::{next, peek_nth, peek, consume_token, parse_keyword,
   parse_one_of_keywords, expect_*, next_keyword, maybe_parse, parse_comma_separated} of
   crates/glaredb_parser/src/parser.rs and the Pratt expression parser of ast/expr.rs
   (Expr::{parse_subexpr, parse_prefix, parse_infix, get_infix_precedence, parse_ident_expr, parse_string_literal,
   parse_i64_literal}, FunctionArg, Interval, IntervalUnit, DatePart, ArraySubscript) and ast/datatype.rs,
   transcribed AS WRITTEN on the token list produced by model/Lexer.v.

   What the Rust could do wrong is explicit:
     * `&self.toks[self.idx]` / `&self.toks[idx]`  ->  PPanic when the index is out of range (the guards
       `if self.idx >= self.toks.len()` are transcribed, not assumed);
     * every loop and every recursive call runs on fuel (one unit per call of `go`): PFuel;
     * the NATIVE recursion depth (nested active calls of Expr::parse_subexpr, the frames that overflow the
       stack in findings/C15.json parser-stack-overflow) is measured: every result carries `dep`.
   Constructs that lead out of the expression grammar into the query grammar (subqueries: EXISTS, IN (SELECT..),
   ANY/ALL/SOME, `(SELECT ..)`; OVER (<non-empty window definition>)) answer PUnsup at exactly the point where the
   Rust would call QueryNode::parse / WindowDefinition::parse.
   The AST is the generic tree `sx` mirroring the derived Debug rendering of the Rust AST (variant / struct name
   and the fields in declaration order), which is what the correspondence run compares.
   Definitions only; proofs in proofs/ParserSkelProofs.v. *)
From Coq Require Import NArith ZArith List Bool Arith.
From Coq.Strings Require Import Byte.
From GV Require Import model.Utf8 gen.TablesLexer model.Lexer.
Import ListNotations.
Local Open Scope nat_scope.

Scheme Equality for op.

(* names of Rust types / variants: byte strings with a literal notation *)
Inductive tag := Tag (bytes : list Byte.byte).
Definition tag_of_bytes (l : list Byte.byte) : tag := Tag l.
Definition bytes_of_tag (t : tag) : list Byte.byte := match t with Tag l => l end.
Declare Scope tag_scope.
Delimit Scope tag_scope with tag.
String Notation tag tag_of_bytes bytes_of_tag : tag_scope.
Local Open Scope tag_scope.
Definition tag_codes (t : tag) : list N := map Byte.to_N (bytes_of_tag t).

(* ---- generic AST ---- *)
Inductive sx := SN (name : tag) (args : list sx) | SS (s : str) | SV (l : list sx) | SZ (z : Z).
Definition sx_none : sx := SN "None" [].
Definition sx_some (x : sx) : sx := SN "Some" [x].
Definition sx_opt (o : option sx) : sx := match o with Some x => sx_some x | None => sx_none end.
Definition sx_bool (b : bool) : sx := SN (if b then "true" else "false") [].
Definition sx_unit (name : tag) : sx := SN name [].

(* ---- results: outcome + native recursion depth reached ---- *)
Inductive pres (A : Type) := POk (a : A) | PErr | PUnsup | PPanic | PFuel.
Arguments POk {A} a.
Arguments PErr {A}.
Arguments PUnsup {A}.
Arguments PPanic {A}.
Arguments PFuel {A}.
Record res (A : Type) := mk_res { out : pres (A * nat); dep : nat }.
Arguments mk_res {A} out dep.
Arguments out {A} r.
Arguments dep {A} r.

(* a parser action: from the index of the next token to a result and the new index *)
Definition P (A : Type) := nat -> res A.
Definition ret {A} (a : A) : P A := fun i => mk_res (POk (a, i)) 0.
Definition fail {A} : P A := fun _ => mk_res PErr 0.
Definition unsup {A} : P A := fun _ => mk_res PUnsup 0.
Definition bind {A B} (m : P A) (k : A -> P B) : P B := fun i =>
  let r := m i in
  match out r with
  | POk (a, i') => let r2 := k a i' in mk_res (out r2) (Nat.max (dep r) (dep r2))
  | PErr => mk_res PErr (dep r)
  | PUnsup => mk_res PUnsup (dep r)
  | PPanic => mk_res PPanic (dep r)
  | PFuel => mk_res PFuel (dep r)
  end.
(* one more native frame of Expr::parse_subexpr around m *)
Definition frame {A} (m : P A) : P A := fun i => let r := m i in mk_res (out r) (S (dep r)).
Definition set_idx (j : nat) : P unit := fun _ => mk_res (POk (tt, j)) 0.

Notation "'let*' x := e 'in' k" := (bind e (fun x => k)) (at level 200, x name, e at level 100, k at level 200).

(* ---- token tests ---- *)
Definition is_trivia (t : token) : bool :=
  match t with TWhitespace | TComment _ => true | _ => false end.     (* matches!(Whitespace | Comment(_)) *)
Definition tok_keyword (t : token) : option nat :=                    (* TokenWithLocation::keyword *)
  match t with TWord _ _ kw => kw | _ => None end.
Definition is_kw (t : token) (k : nat) : bool :=                      (* TokenWithLocation::is_keyword *)
  match tok_keyword t with Some k' => k' =? k | None => false end.
Definition is_op (t : token) (o : op) : bool :=                       (* tok == &Token::<punctuation> *)
  match t with TOp o' => op_beq o' o | _ => false end.
Definition kw_in (k : nat) (l : list nat) : bool := existsb (Nat.eqb k) l.

Definition pv (o : option N) : N := match o with Some k => k | None => 0%N end.
Definition PREC_OR := pv prec_or.
Definition PREC_AND := pv prec_and.
Definition PREC_NOT := pv prec_not.
Definition PREC_IS := pv prec_is.
Definition PREC_COMPARISON := pv prec_comparison.
Definition PREC_CONTAINMENT := pv prec_containment.
Definition PREC_EVERYTHING_ELSE := pv prec_everything_else.
Definition PREC_ADD_SUB := pv prec_add_sub.
Definition PREC_MUL_DIV_MOD := pv prec_mul_div_mod.
Definition PREC_EXPONENTIATION := pv prec_exponentiation.
Definition PREC_UNARY_MINUS := pv prec_unary_minus.
Definition PREC_ARRAY_ELEM := pv prec_array_elem.
Definition PREC_CAST := pv prec_cast.

(* impl From<Word> for Ident *)
Definition ident_of (v : str) (quote : option N) : sx :=
  SN "Ident" [SS v; sx_bool (match quote with Some 34%N => true | _ => false end)].

(* str::parse::<i64> on the text of a Number token (digits and periods only): Some iff all digits and <= i64::MAX *)
Fixpoint digits_val (s : str) (acc : Z) : option Z :=
  match s with
  | [] => Some acc
  | c :: r => if is_digit c then digits_val r (acc * 10 + Z.of_N (c - 48)%N)%Z else None
  end.
Definition parse_i64 (s : str) : option Z :=
  match s with
  | [] => None
  | _ => match digits_val s 0%Z with
         | Some v => if (v <=? 9223372036854775807)%Z then Some v else None
         | None => None
         end
  end.

Section Parser.
Variable toks : list token.

(* ---------------------------------------------------------------- parser.rs *)
(* Parser::next: `loop { if self.idx >= self.toks.len() { return None }; let tok = &self.toks[self.idx];
   self.idx += 1; if trivia { continue }; return Some(tok) }` *)
Fixpoint next_loop (n : nat) (i : nat) : pres (option token * nat) :=
  match n with
  | O => PFuel
  | S n' =>
    if length toks <=? i then POk (None, i)
    else match nth_error toks i with
         | None => PPanic                                          (* self.toks[self.idx] out of bounds *)
         | Some t => if is_trivia t then next_loop n' (S i) else POk (Some t, S i)
         end
  end.
Definition next : P (option token) := fun i => mk_res (next_loop (S (length toks - i)) i) 0.

(* Parser::peek_nth *)
Fixpoint peek_loop (fuel : nat) (i : nat) (n : nat) : pres (option token) :=
  match fuel with
  | O => PFuel
  | S f =>
    if length toks <=? i then POk None
    else match nth_error toks i with
         | None => PPanic                                          (* self.toks[idx] out of bounds *)
         | Some t =>
           if is_trivia t then peek_loop f (S i) n
           else match n with O => POk (Some t) | S n' => peek_loop f (S i) n' end
         end
  end.
Definition peek_nth (n : nat) : P (option token) := fun i =>
  mk_res (match peek_loop (S (length toks - i)) i n with
          | POk r => POk (r, i) | PErr => PErr | PUnsup => PUnsup | PPanic => PPanic | PFuel => PFuel
          end) 0.
Definition peek : P (option token) := peek_nth 0.

(* Parser::consume_token *)
Definition consume_token (o : op) : P bool :=
  let* t := peek in
  match t with
  | Some t => if is_op t o then let* _ := next in ret true else ret false
  | None => ret false
  end.

(* Parser::parse_keyword *)
Definition parse_keyword (k : nat) : P bool := fun i =>
  (let* t := next in
   match t with
   | Some t => if is_kw t k then ret true else let* _ := set_idx i in ret false
   | None => let* _ := set_idx i in ret false
   end) i.

(* Parser::parse_one_of_keywords (`let tok = self.next()?` returns None WITHOUT resetting idx) *)
Definition parse_one_of_keywords (ks : list nat) : P (option nat) := fun i =>
  (let* t := next in
   match t with
   | None => ret None
   | Some t => match find (is_kw t) ks with
               | Some k => ret (Some k)
               | None => let* _ := set_idx i in ret None
               end
   end) i.

Definition expect_token (o : op) : P unit :=
  let* b := consume_token o in if b then ret tt else fail.
Definition expect_keyword (k : nat) : P unit :=
  let* b := parse_keyword k in if b then ret tt else fail.
Definition expect_one_of_tokens (o1 o2 : op) : P unit :=
  let* b := consume_token o1 in
  if b then ret tt else let* b2 := consume_token o2 in if b2 then ret tt else fail.

(* Parser::next_keyword *)
Definition next_keyword : P nat :=
  let* t := peek in
  match t with
  | None => fail
  | Some t => match tok_keyword t with
              | None => fail
              | Some k => let* _ := next in ret k
              end
  end.

(* Parser::maybe_parse: only an error is swallowed (and the index restored) *)
Definition maybe_parse {A} (p : P A) : P (option A) := fun i =>
  let r := p i in
  match out r with
  | POk (a, i') => mk_res (POk (Some a, i')) (dep r)
  | PErr => mk_res (POk (None, i)) (dep r)
  | PUnsup => mk_res PUnsup (dep r)
  | PPanic => mk_res PPanic (dep r)
  | PFuel => mk_res PFuel (dep r)
  end.

(* QueryNode::is_query_node_start *)
Definition is_query_node_start : P bool := fun i =>
  let r := next_keyword i in
  match out r with
  | POk (k, _) => mk_res (POk (kw_in k [kw_SELECT; kw_WITH; kw_VALUES], i)) (dep r)
  | PErr => mk_res (POk (false, i)) (dep r)
  | PUnsup => mk_res PUnsup (dep r)
  | PPanic => mk_res PPanic (dep r)
  | PFuel => mk_res PFuel (dep r)
  end.

(* `match parser.next() { Some(tok) => tok, None => return Err(..) }` *)
Definition next_tok : P token :=
  let* t := next in match t with Some t => ret t | None => fail end.

(* impl AstParseable for Ident *)
Definition ident_parse : P sx :=
  let* t := next_tok in
  match t with TWord v q _ => ret (ident_of v q) | _ => fail end.

(* Expr::parse_string_literal *)
Definition parse_string_literal : P str :=
  let* t := next_tok in
  match t with TString s => ret s | _ => fail end.

(* Expr::parse_i64_literal *)
Definition of_opt {A} (o : option A) : P A := match o with Some a => ret a | None => fail end.
Definition parse_i64_literal : P Z :=
  let* t := next_tok in
  match t with
  | TOp OMinus =>
    let* t2 := next_tok in
    match t2 with
    | TNumber s => let* v := of_opt (parse_i64 s) in ret (- v)%Z
    | _ => fail
    end
  | TNumber s => of_opt (parse_i64 s)
  | _ => fail
  end.

(* ---------------------------------------------------------------- ast/datatype.rs *)
Definition sx_optz (o : option Z) : sx := match o with Some z => sx_some (SZ z) | None => sx_none end.
Definition parse_precision_scale : P (option Z * option Z) :=
  let* b := consume_token OLParen in
  if b then
    let* p := parse_i64_literal in
    let* b2 := consume_token OComma in
    if b2 then
      let* s := parse_i64_literal in
      let* _ := expect_token ORParen in ret (Some p, Some s)
    else
      let* _ := expect_token ORParen in ret (Some p, None)
  else ret (None, None).

(* DataType::parse; the flag says DataType::Interval *)
Definition datatype_parse : P (bool * sx) :=
  let* t := next_tok in
  match tok_keyword t with
  | None => fail
  | Some k =>
    if kw_in k [kw_VARCHAR; kw_TEXT; kw_STRING] then ret (false, SN "Varchar" [sx_none])
    else if kw_in k [kw_BINARY; kw_BLOB] then ret (false, SN "Binary" [sx_none])
    else if kw_in k [kw_TINYINT; kw_INT1] then ret (false, sx_unit "TinyInt")
    else if kw_in k [kw_SMALLINT; kw_INT2] then ret (false, sx_unit "SmallInt")
    else if kw_in k [kw_INT; kw_INTEGER; kw_INT4] then ret (false, sx_unit "Integer")
    else if kw_in k [kw_BIGINT; kw_INT8] then ret (false, sx_unit "BigInt")
    else if kw_in k [kw_UTINYINT; kw_UINT1] then ret (false, sx_unit "UnsignedTinyInt")
    else if kw_in k [kw_USMALLINT; kw_UINT2] then ret (false, sx_unit "UnsignedSmallInt")
    else if kw_in k [kw_UINT; kw_UINT4] then ret (false, sx_unit "UnsignedInt")
    else if kw_in k [kw_UBIGINT; kw_UINT8] then ret (false, sx_unit "UnsignedBigInt")
    else if kw_in k [kw_HALF; kw_FLOAT2] then ret (false, sx_unit "Half")
    else if kw_in k [kw_REAL; kw_FLOAT; kw_FLOAT4] then ret (false, sx_unit "Real")
    else if kw_in k [kw_DOUBLE; kw_FLOAT8] then ret (false, sx_unit "Double")
    else if kw_in k [kw_DECIMAL; kw_NUMERIC] then
      let* ps := parse_precision_scale in
      ret (false, SN "Decimal" [sx_optz (fst ps); sx_optz (snd ps)])
    else if kw_in k [kw_BOOL; kw_BOOLEAN] then ret (false, sx_unit "Bool")
    else if k =? kw_DATE then ret (false, sx_unit "Date")
    else if k =? kw_TIMESTAMP then ret (false, sx_unit "Timestamp")
    else if k =? kw_INTERVAL then ret (true, sx_unit "Interval")
    else fail
  end.

(* ---------------------------------------------------------------- ast/expr.rs: the non-recursive parts *)
(* IntervalUnit::parse *)
Definition interval_unit_parse : P sx :=
  let* k := next_keyword in
  if kw_in k [kw_MILLENIUM; kw_MILLENIUMS] then ret (sx_unit "Millenium")
  else if kw_in k [kw_CENTURY; kw_CENTURIES] then ret (sx_unit "Century")
  else if kw_in k [kw_DECADE; kw_DECADES] then ret (sx_unit "Decade")
  else if kw_in k [kw_YEAR; kw_YEARS] then ret (sx_unit "Year")
  else if kw_in k [kw_MONTH; kw_MONTHS] then ret (sx_unit "Month")
  else if kw_in k [kw_WEEK; kw_WEEKS] then ret (sx_unit "Week")
  else if kw_in k [kw_DAY; kw_DAYS] then ret (sx_unit "Day")
  else if kw_in k [kw_HOUR; kw_HOURS] then ret (sx_unit "Hour")
  else if kw_in k [kw_MINUTE; kw_MINUTES] then ret (sx_unit "Minute")
  else if kw_in k [kw_SECOND; kw_SECONDS] then ret (sx_unit "Second")
  else if kw_in k [kw_MILLISECOND; kw_MILLISECONDS] then ret (sx_unit "Millisecond")
  else if kw_in k [kw_MICROSECOND; kw_MICROSECONDS] then ret (sx_unit "Microsecond")
  else if kw_in k [kw_NANOSECOND; kw_NANOSECONDS] then ret (sx_unit "Nanosecond")
  else fail.

(* DatePart::try_from_kw *)
Definition date_part_of_kw (k : nat) : option sx :=
  if k =? kw_CENTURY then Some (sx_unit "Century") else if k =? kw_DAY then Some (sx_unit "Day")
  else if k =? kw_DECADE then Some (sx_unit "Decade") else if k =? kw_DOW then Some (sx_unit "DayOfWeek")
  else if k =? kw_DOY then Some (sx_unit "DayOfYear") else if k =? kw_EPOCH then Some (sx_unit "Epoch")
  else if k =? kw_HOUR then Some (sx_unit "Hour") else if k =? kw_ISODOW then Some (sx_unit "IsoDayOfWeek")
  else if k =? kw_ISOYEAR then Some (sx_unit "IsoYear") else if k =? kw_JULIAN then Some (sx_unit "Julian")
  else if k =? kw_MICROSECONDS then Some (sx_unit "Microseconds") else if k =? kw_MILLENIUM then Some (sx_unit "Millenium")
  else if k =? kw_MILLISECONDS then Some (sx_unit "Milliseconds") else if k =? kw_MINUTE then Some (sx_unit "Minute")
  else if k =? kw_MONTH then Some (sx_unit "Month") else if k =? kw_QUARTER then Some (sx_unit "Quarter")
  else if k =? kw_SECOND then Some (sx_unit "Second") else if k =? kw_TIMEZONE then Some (sx_unit "Timezone")
  else if k =? kw_TIMEZONE_HOUR then Some (sx_unit "TimezoneHour")
  else if k =? kw_TIMEZONE_MINUTE then Some (sx_unit "TimezoneMinute")
  else if k =? kw_WEEK then Some (sx_unit "Week") else if k =? kw_YEAR then Some (sx_unit "Year")
  else None.

(* DatePart::parse *)
Definition date_part_parse : P sx :=
  let* t := peek in
  match t with
  | None => fail
  | Some (TWord _ _ None) => fail
  | Some (TWord _ _ (Some k)) => let* _ := next in of_opt (date_part_of_kw k)
  | Some (TString s) =>
    match keyword_from_str s with
    | None => fail
    | Some k => let* _ := next in of_opt (date_part_of_kw k)
    end
  | Some _ => fail
  end.

(* the operator table at the head of Expr::parse_infix *)
Definition bin_op_of (t : token) : option tag :=
  match t with
  | TOp ODoubleEq => Some "Eq" | TOp OEq => Some "Eq" | TOp ONeq => Some "NotEq" | TOp OGt => Some "Gt"
  | TOp OGtEq => Some "GtEq" | TOp OLt => Some "Lt" | TOp OLtEq => Some "LtEq" | TOp OPlus => Some "Plus"
  | TOp OMinus => Some "Minus" | TOp OMul => Some "Multiply" | TOp ODiv => Some "Divide"
  | TOp OIntDiv => Some "IntDiv" | TOp OMod => Some "Modulo" | TOp OCaret => Some "Exponent"
  | TOp OExponent => Some "Exponent" | TOp OShl => Some "BitShiftLeft" | TOp OShr => Some "BitShiftRight"
  | TOp OHash => Some "Xor" | TOp OPipe => Some "BitwiseOr" | TOp OAmp => Some "BitwiseAnd"
  | TOp OConcat => Some "StringConcat" | TOp OCaretAt => Some "StringStartsWith"
  | TWord _ _ (Some k) =>
    if k =? kw_AND then Some "And" else if k =? kw_OR then Some "Or" else if k =? kw_XOR then Some "Xor" else None
  | _ => None
  end.

(* Expr::get_infix_precedence *)
Definition containment_follow (k : nat) : bool :=
  kw_in k [kw_IN; kw_BETWEEN; kw_LIKE; kw_ILIKE; kw_RLIKE; kw_REGEXP; kw_SIMILAR].
Definition get_infix_precedence : P N :=
  let* t := peek in
  match t with
  | None => ret 0%N
  | Some (TWord _ _ (Some k)) =>
    if k =? kw_OR then ret PREC_OR
    else if k =? kw_AND then ret PREC_AND
    else if k =? kw_NOT then
      let* t2 := peek_nth 1 in
      match t2 with
      | Some t2 => match tok_keyword t2 with
                   | Some k2 => if containment_follow k2 then ret PREC_CONTAINMENT else ret 0%N
                   | None => ret 0%N
                   end
      | None => ret 0%N
      end
    else if k =? kw_IS then
      let* t2 := peek_nth 1 in
      match t2 with
      | Some t2 => match tok_keyword t2 with Some _ => ret PREC_IS | None => ret 0%N end
      | None => ret 0%N
      end
    else if containment_follow k then ret PREC_CONTAINMENT
    else if k =? kw_XOR then ret PREC_EVERYTHING_ELSE
    else ret 0%N
  | Some (TOp o) =>
    match o with
    | OEq | ODoubleEq | ONeq | OLt | OLtEq | OGt | OGtEq => ret PREC_COMPARISON
    | OPlus | OMinus => ret PREC_ADD_SUB
    | OMul | ODiv | OIntDiv | OMod => ret PREC_MUL_DIV_MOD
    | OCaret | OExponent => ret PREC_EXPONENTIATION
    | OShl | OShr | OPipe | OAmp | OHash => ret PREC_EVERYTHING_ELSE
    | ODoubleColon => ret PREC_CAST
    | OConcat => ret PREC_EVERYTHING_ELSE
    | OCaretAt => ret PREC_EVERYTHING_ELSE
    | OLBracket => ret PREC_ARRAY_ELEM
    | _ => ret 0%N
    end
  | Some _ => ret 0%N
  end.

(* the break conditions after a comma in Parser::parse_comma_separated *)
Definition comma_stop (t : token) : bool :=
  match t with
  | TOp ORParen | TOp OSemi | TOp ORBracket => true
  | TWord _ _ (Some k) => kw_in k reserved_for_column_alias
  | _ => false
  end.

(* ---------------------------------------------------------------- the recursive part, with open recursion *)
Inductive req :=
| RSubexpr (prec : N)                                  (* Expr::parse_subexpr(parser, prec) *)
| RLoop (e : sx) (prec : N)                            (* its `loop { .. parse_infix .. }` *)
| RComma (args : bool) (acc : list sx)                 (* parse_comma_separated(Expr::parse | FunctionArg::parse) *)
| RCaseLoop (conds results : list sx)                  (* the `loop` of the CASE arm *)
| RIdentLoop (idents : list sx) (wildcard : bool).     (* `while parser.consume_token(&Token::Period)` *)

Section Handlers.
Variable call : req -> P sx.

Definition expr_parse : P sx := call (RSubexpr 0%N).                  (* <Expr as AstParseable>::parse *)

(* FunctionArg::parse *)
Definition function_arg_parse : P sx :=
  let* t := peek_nth 1 in
  let is_named := match t with Some t => is_op t ORightArrow || is_op t OEq | None => false end in
  if is_named then
    let* name := ident_parse in
    let* _ := expect_one_of_tokens ORightArrow OEq in
    let* e := expr_parse in
    ret (SN "Named" [name; e])
  else
    let* e := expr_parse in ret (SN "Unnamed" [e]).

(* ArraySubscript::parse *)
Definition slice (lower upper stride : option sx) : sx :=
  SN "Slice" [sx_opt lower; sx_opt upper; sx_opt stride].
Definition array_subscript_parse : P sx :=
  let* c := consume_token OColon in
  let* lower := (if c then ret None else let* e := expr_parse in ret (Some e)) in
  let* rb := consume_token ORBracket in
  if rb then
    match lower with
    | Some l => ret (SN "Index" [l])
    | None => ret (slice lower None None)
    end
  else
    let* _ := (match lower with Some _ => expect_token OColon | None => ret tt end) in
    let* rb2 := consume_token ORBracket in
    if rb2 then ret (slice lower None None)
    else
      let* upper := expr_parse in
      let* rb3 := consume_token ORBracket in
      if rb3 then ret (slice lower (Some upper) None)
      else
        let* _ := expect_token OColon in
        let* stride := expr_parse in
        let* _ := expect_token ORBracket in
        ret (slice lower (Some upper) (Some stride)).

(* Interval::parse *)
Definition interval_parse : P sx :=
  let* e := call (RSubexpr PREC_CAST) in
  let* tr := maybe_parse interval_unit_parse in
  ret (SN "Interval" [e; sx_none; sx_opt tr]).

(* Expr::parse_ident_expr, after the loop over the periods *)
Definition ident_expr_tail (idents : list sx) (wildcard : bool) : P sx :=
  let* lp := consume_token OLParen in
  if lp then
    let* distinct := parse_keyword kw_DISTINCT in
    if wildcard then fail
    else
      let* rp := consume_token ORParen in
      let* args_star :=
        (if rp then ret (SV [], false)
         else
           let* t := peek in
           match t with
           | Some (TOp OMul) =>
             let* _ := next in
             let* _ := expect_token ORParen in ret (SV [], true)
           | _ =>
             let* args := call (RComma true []) in
             let* _ := expect_token ORParen in ret (args, false)
           end) in
      let* flt := parse_keyword kw_FILTER in
      let* filter :=
        (if flt then
           let* _ := expect_token OLParen in
           let* _ := expect_keyword kw_WHERE in
           let* f := expr_parse in
           let* _ := expect_token ORParen in ret (Some f)
         else ret None) in
      let* ov := parse_keyword kw_OVER in
      let* over :=
        (if ov then
           let* lp2 := consume_token OLParen in
           if lp2 then
             let* rp2 := consume_token ORParen in
             if rp2 then
               ret (Some (SN "Definition" [SN "WindowDefinition" [sx_none; SV []; SV []; sx_none]]))
             else unsup                                              (* WindowDefinition::parse *)
           else
             let* n := ident_parse in ret (Some (SN "Named" [n]))
         else ret None) in
      ret (SN "Function" [SN "Function" [SN "ObjectReference" [SV idents]; sx_bool distinct;
                                           sx_bool (snd args_star); fst args_star; sx_opt filter; sx_opt over]])
  else
    match idents, wildcard with
    | [i], false => ret (SN "Ident" [i])
    | _, true => ret (SN "QualifiedWildcard" [SV idents])
    | _, false => ret (SN "CompoundIdent" [SV idents])
    end.

Definition parse_ident_expr (v : str) (q : option N) : P sx :=
  let* r := call (RIdentLoop [ident_of v q] false) in
  match r with
  | SV [SV idents; SV []] => ident_expr_tail idents false
  | SV [SV idents; SV (_ :: _)] => ident_expr_tail idents true
  | _ => fail
  end.

Definition unary (opname : tag) (prec : N) : P sx :=
  let* e := call (RSubexpr prec) in ret (SN "UnaryExpr" [sx_unit opname; e]).

(* the keyword arms of Expr::parse_prefix *)
Definition prefix_keyword (k : nat) (v : str) (q : option N) : P sx :=
  if k =? kw_TRUE then ret (SN "Literal" [SN "Boolean" [sx_bool true]])
  else if k =? kw_FALSE then ret (SN "Literal" [SN "Boolean" [sx_bool false]])
  else if k =? kw_NULL then ret (SN "Literal" [sx_unit "Null"])
  else if k =? kw_EXISTS then
    let* _ := expect_token OLParen in unsup                            (* QueryNode::parse *)
  else if k =? kw_NOT then
    let* t := peek in
    match t with
    | Some t2 =>
      if is_kw t2 kw_EXISTS then
        let* _ := expect_keyword kw_EXISTS in
        let* _ := expect_token OLParen in unsup                        (* QueryNode::parse *)
      else unary "Not" PREC_NOT
    | None => unary "Not" PREC_NOT
    end
  else if k =? kw_CAST then
    let* _ := expect_token OLParen in
    let* e := expr_parse in
    let* _ := expect_keyword kw_AS in
    let* dt := datatype_parse in
    let* _ := expect_token ORParen in
    ret (SN "Cast" [snd dt; e])
  else if k =? kw_CASE then
    let* w := parse_keyword kw_WHEN in
    let* operand :=
      (if negb w then
         let* e := expr_parse in
         let* _ := expect_keyword kw_WHEN in ret (Some e)
       else ret None) in
    let* cr := call (RCaseLoop [] []) in
    let* el := parse_keyword kw_ELSE in
    let* else_expr := (if el then let* e := expr_parse in ret (Some e) else ret None) in
    let* _ := expect_keyword kw_END in
    match cr with
    | SV [conds; results] => ret (SN "Case" [sx_opt operand; conds; results; sx_opt else_expr])
    | _ => fail
    end
  else if k =? kw_POSITION then
    let* _ := expect_token OLParen in
    let* sub := call (RSubexpr PREC_CONTAINMENT) in
    let* i := parse_keyword kw_IN in
    if negb i then fail
    else
      let* s := expr_parse in
      let* _ := expect_token ORParen in
      ret (SN "Position" [sub; s])
  else if k =? kw_SUBSTRING then
    let* _ := expect_token OLParen in
    let* e := expr_parse in
    let* c1 := consume_token OComma in
    let* has_from := (if c1 then ret true else parse_keyword kw_FROM) in
    if negb has_from then fail
    else
      let* from := expr_parse in
      let* c2 := consume_token OComma in
      let* has_for := (if c2 then ret true else parse_keyword kw_FOR) in
      let* count := (if has_for then let* c := expr_parse in ret (Some c) else ret None) in
      let* _ := expect_token ORParen in
      ret (SN "Substring" [e; from; sx_opt count])
  else if k =? kw_EXTRACT then
    let* _ := expect_token OLParen in
    let* dp := date_part_parse in
    let* _ := expect_keyword kw_FROM in
    let* e := expr_parse in
    let* _ := expect_token ORParen in
    ret (SN "Extract" [dp; e])
  else if k =? kw_COLUMNS then
    let* _ := expect_token OLParen in
    let* pat := parse_string_literal in
    let* _ := expect_token ORParen in
    ret (SN "Columns" [SN "Pattern" [SS pat]])
  else parse_ident_expr v q.

(* Expr::parse_prefix *)
Definition parse_prefix : P sx :=
  let* dt := maybe_parse datatype_parse in
  match dt with
  | Some (true, _) => let* iv := interval_parse in ret (SN "Interval" [iv])
  | Some (false, d) => let* s := parse_string_literal in ret (SN "TypedString" [d; SS s])
  | None =>
    let* t := next_tok in
    match t with
    | TWord v q (Some k) => prefix_keyword k v q
    | TWord v q None => parse_ident_expr v q
    | TOp OLBracket =>
      let* rb := consume_token ORBracket in
      if rb then ret (SN "Array" [SV []])
      else
        let* es := call (RComma false []) in
        let* _ := expect_token ORBracket in
        ret (SN "Array" [es])
    | TString s => ret (SN "Literal" [SN "SingleQuotedString" [SS s]])
    | TNumber s => ret (SN "Literal" [SN "Number" [SS s]])
    | TOp OLParen =>
      let* q := is_query_node_start in
      if q then unsup                                                  (* QueryNode::parse *)
      else
        let* es := call (RComma false []) in
        let* e := (match es with
                   | SV [] => fail
                   | SV [e] => ret (SN "Nested" [e])
                   | _ => ret (SN "Tuple" [es])
                   end) in
        let* _ := expect_token ORParen in
        ret e
    | TOp OMinus => unary "Minus" PREC_UNARY_MINUS
    | TOp OPlus => unary "Plus" PREC_UNARY_MINUS
    | TOp OTilde => unary "BitwiseNot" PREC_UNARY_MINUS
    | _ => fail
    end
  end.

(* `IN (..)` of parse_infix *)
Definition in_list (negated : bool) (prefix : sx) : P sx :=
  let* _ := expect_token OLParen in
  let* q := is_query_node_start in
  if q then unsup                                                      (* QueryNode::parse *)
  else
    let* l := call (RComma false []) in
    let* _ := expect_token ORParen in
    ret (SN "InList" [sx_bool negated; prefix; l]).
Definition like (negated ci : bool) (prefix : sx) : P sx :=
  let* p := call (RSubexpr PREC_CONTAINMENT) in
  ret (SN "Like" [prefix; p; sx_bool negated; sx_bool ci]).
Definition between (negated : bool) (prefix : sx) : P sx :=
  let* lo := call (RSubexpr PREC_CONTAINMENT) in
  let* _ := expect_keyword kw_AND in
  let* hi := call (RSubexpr PREC_CONTAINMENT) in
  ret (SN "Between" [sx_bool negated; prefix; lo; hi]).
Definition is_tail (negated : bool) (prefix : sx) (k : nat) : P sx :=
  if k =? kw_NULL then ret (SN "IsNull" [prefix; sx_bool negated])
  else if k =? kw_TRUE then ret (SN "IsBool" [prefix; sx_bool true; sx_bool negated])
  else if k =? kw_FALSE then ret (SN "IsBool" [prefix; sx_bool false; sx_bool negated])
  else if k =? kw_DISTINCT then
    let* _ := expect_keyword kw_FROM in
    let* r := call (RSubexpr PREC_CONTAINMENT) in
    ret (SN "BinaryExpr" [prefix; sx_unit (if negated then "IsNotDistinctFrom" else "IsDistinctFrom"); r])
  else fail.

(* Expr::parse_infix *)
Definition parse_infix (prefix : sx) (prec : N) : P sx :=
  let* t := next_tok in
  match bin_op_of t with
  | Some opname =>
    let* q := parse_one_of_keywords [kw_ALL; kw_ANY; kw_SOME] in
    match q with
    | Some _ => let* _ := expect_token OLParen in unsup               (* QueryNode::parse *)
    | None =>
      let* r := call (RSubexpr prec) in
      ret (SN "BinaryExpr" [prefix; sx_unit opname; r])
    end
  | None =>
    match t with
    | TWord _ _ None => fail
    | TWord _ _ (Some k) =>
      if k =? kw_IS then
        let* k2 := next_keyword in
        if k2 =? kw_NOT then let* k3 := next_keyword in is_tail true prefix k3
        else is_tail false prefix k2
      else if k =? kw_NOT then
        let* k2 := next_keyword in
        if k2 =? kw_IN then in_list true prefix
        else if k2 =? kw_LIKE then like true false prefix
        else if k2 =? kw_ILIKE then like true true prefix
        else if k2 =? kw_BETWEEN then between true prefix
        else fail
      else if k =? kw_IN then in_list false prefix
      else if k =? kw_LIKE then like false false prefix
      else if k =? kw_ILIKE then like false true prefix
      else if k =? kw_BETWEEN then between false prefix
      else fail
    | TOp OLBracket =>
      let* s := array_subscript_parse in ret (SN "ArraySubscript" [prefix; s])
    | TOp ODoubleColon =>
      let* dt := datatype_parse in ret (SN "Cast" [snd dt; prefix])
    | _ => fail
    end
  end.

Definition handler (r : req) : P sx :=
  match r with
  | RSubexpr prec =>
    frame (let* e := parse_prefix in call (RLoop e prec))
  | RLoop e prec =>
    let* np := get_infix_precedence in
    if (np <=? prec)%N then ret e                                     (* if precedence >= next_precedence { break } *)
    else let* e' := parse_infix e np in call (RLoop e' prec)
  | RComma args acc =>
    let* v := (if args then function_arg_parse else expr_parse) in
    let acc' := (acc ++ [v])%list in
    let* c := consume_token OComma in
    if negb c then ret (SV acc')
    else
      let* t := peek in
      match t with
      | None => ret (SV acc')
      | Some t => if comma_stop t then ret (SV acc') else call (RComma args acc')
      end
  | RCaseLoop conds results =>
    let* c := expr_parse in
    let* _ := expect_keyword kw_THEN in
    let* r := expr_parse in
    let* w := parse_keyword kw_WHEN in
    if negb w then ret (SV [SV (conds ++ [c])%list; SV (results ++ [r])%list])
    else call (RCaseLoop (conds ++ [c])%list (results ++ [r])%list)
  | RIdentLoop idents wildcard =>
    let* p := consume_token OPeriod in
    if negb p then ret (SV [SV idents; SV (if wildcard then [SV []] else [])])
    else
      let* t := next_tok in
      match t with
      | TWord v q _ => call (RIdentLoop (idents ++ [ident_of v q])%list wildcard)
      | TOp OMul => call (RIdentLoop idents true)
      | _ => fail
      end
  end.
End Handlers.

Fixpoint go (fuel : nat) (r : req) : P sx :=
  match fuel with
  | O => fun _ => mk_res PFuel 0
  | S f => handler (go f) r
  end.

(* fuel: 3 per token (+2) is enough (proofs/ParserSkelProofs.v) *)
Definition parse_expr : res sx := go (3 * length toks + 2) (RSubexpr 0%N) 0.

End Parser.

(* witness families of the recursion depth *)
Definition nested_parens (n : nat) : list token :=
  (repeat (TOp OLParen) n ++ [TNumber [49%N]] ++ repeat (TOp ORParen) n)%list.
Definition nested_minus (n : nat) : list token := (repeat (TOp OMinus) n ++ [TNumber [49%N]])%list.

(* tokenizer and expression parser composed *)
Definition front_end (is_alpha is_numeric : N -> bool) (q : str) : outcome (res sx) :=
  match tokenize is_alpha is_numeric q with
  | Ok (toks, _) => Ok (parse_expr (map tok toks))
  | Err c => Err c
  | Panic => Panic
  | Fuel => Fuel
  end.

