(* C01 (composition) — a DEEP embedding of the engine's logical and physical plans, the planner that
   produces them from a query of model/Sql.v, and their semantics.  Definitions only (executable).

   Transcribed from /repo/crates/glaredb_core/src
     logical/planner/plan_query.rs   (QueryPlanner: Select / Setop / Values)
     logical/planner/plan_select.rs  (FROM -> WHERE Filter -> Aggregate -> HAVING Filter -> Project ->
                                      Distinct -> Order -> Limit)
     logical/planner/plan_from.rs    (BaseTable -> Scan; Subquery -> Project of all columns over the
                                      subquery's plan; Join -> plan_join: CrossJoin when there is no
                                      condition, otherwise JoinConditionExtractor + plan_join_from_conditions)
     optimizer/filter_pushdown/condition_extractor.rs (split on AND; classify every conjunct by the side(s) it
                                      reads; INNER: left-only/right-only conjuncts become Filters below the
                                      join, LEFT: right-only ones, RIGHT: left-only ones; `l op r` with one
                                      operand per side becomes a comparison condition, flipped when written
                                      `r op l`; everything else is "arbitrary")
     logical/planner/plan_setop.rs   (SetOp [+ Order + Limit])
     execution/planner/plan_*.rs     (physical choices: see the second half of this file)

   The semantics `eval_lplan` is compositional and does not mention Sql.eval_query: every operator is
   the corresponding operator of the shallow algebra model/Rel.v (filter = keep the rows whose predicate
   is TRUE, project = map, joins = the declarative join specification Sql.join_rows, aggregate =
   group_rows + agg_apply, ...).  Subquery expressions stay expressions (`PExists`, `PInSub`, `PScalar`
   carry the *plan* of the subquery); the engine turns them into joins in the same planner pass
   (plan_subquery.rs) — that step is not modelled semantically, its operator shape is (`lskel`). *)
From Coq Require Import NArith ZArith List Bool.
From GV Require Import lib.Bytes model.Sql model.Rel.
Import ListNotations.
Local Open Scope nat_scope.

(* ---------------------------------------------------------------- syntax *)

(* operators a JoinCondition can carry (expr/comparison_expr.rs ComparisonOperator) *)
Inductive jop := JOp (op : cmpop) | JDist (neg : bool).      (* neg = true: IS NOT DISTINCT FROM *)

Inductive pexpr :=
| PConst (v : value)
| PCol (depth idx : nat)
| PCmp (op : cmpop) (a b : pexpr)
| PDistinct (neg : bool) (a b : pexpr)
| PAnd (a b : pexpr)
| POr (a b : pexpr)
| PNot (a : pexpr)
| PIsNull (neg : bool) (a : pexpr)
| PArith (op : binop) (w : N) (a b : pexpr)
| PNeg (w : N) (a : pexpr)
| PCase (branches : list (pexpr * pexpr)) (els : pexpr)
| PInList (neg : bool) (a : pexpr) (es : list pexpr)
| PExists (neg : bool) (l : lplan)
| PInSub (neg : bool) (a : pexpr) (l : lplan)
| PScalar (l : lplan)
with lplan :=
| LScan (t : nat)                                             (* logical_scan.rs, base table *)
| LSingleRow                                                  (* logical_single_row.rs: FROM-less SELECT *)
| LExprList (rows : list (list pexpr))                        (* logical_expression_list.rs: VALUES *)
| LFilter (p : pexpr) (c : lplan)                             (* logical_filter.rs *)
| LProject (es : list pexpr) (c : lplan)                      (* logical_project.rs *)
| LProjectAll (c : lplan)                                     (* the Project plan_from.rs puts over a FROM
                                                                 subquery: one column expression per output
                                                                 column of the child, in order *)
| LCrossJoin (l r : lplan)                                    (* LogicalCrossJoin *)
| LArbitraryJoin (k : jkind) (cond : pexpr) (la ra : nat) (l r : lplan)      (* LogicalArbitraryJoin *)
| LComparisonJoin (k : jkind) (conds : list (jop * pexpr * pexpr)) (la ra : nat) (l r : lplan)
                                                              (* LogicalComparisonJoin: (op, left expr over
                                                                 the left row, right expr over the right row) *)
| LDependentJoin (k : jkind) (on : option pexpr) (ra : nat) (l r : lplan)     (* LATERAL: r once per left row *)
| LAggregate (keys : list pexpr) (aggs : list (aggfn * bool * pexpr)) (c : lplan)  (* logical_aggregate.rs;
                                                                 keys = [] <-> grouping_sets = None *)
| LDistinct (c : lplan)                                       (* logical_distinct.rs *)
| LSetop (all : bool) (l r : lplan)                           (* logical_setop.rs, kind = Union *)
| LOrder (keys : list (nat * bool * bool)) (c : lplan)        (* logical_order.rs *)
| LLimit (lim : option nat) (off : nat) (c : lplan)           (* logical_limit.rs *)
| LMaterializationScan (c : lplan).                           (* logical_materialization.rs: scan of the
                                                                 materialization whose plan is c (CTE) *)

(* ---------------------------------------------------------------- semantics *)

Definition jop_holds (o : jop) (a b : value) : res bool :=
  match o with
  | JOp op => do v <- cmp3 op a b; collapse3 v
  | JDist neg => Ok (if neg then val_same a b else negb (val_same a b))
  end.

(* the declarative join specification of Sql.join_rows, with the condition given the two rows
   separately (join_rows k L R la ra on = join2 k L R la ra (fun l r => on (l ++ r))) *)
Definition join2 (k : jkind) (L R : list row) (la ra : nat) (on : row -> row -> res bool) : res (list row) :=
  match k with
  | JCross | JInner =>
      do parts <- mapM (fun l => do ms <- mapM (fun r => do b <- on l r; Ok (if b then [l ++ r] else [])) R;
                                 Ok (concat ms)) L;
      Ok (concat parts)
  | JLeft =>
      do parts <- mapM (fun l => do ms <- mapM (fun r => do b <- on l r; Ok (if b then [l ++ r] else [])) R;
                                 let m := concat ms in
                                 Ok (match m with [] => [l ++ nulls ra] | _ => m end)) L;
      Ok (concat parts)
  | JRight =>
      do parts <- mapM (fun r => do ms <- mapM (fun l => do b <- on l r; Ok (if b then [l ++ r] else [])) L;
                                 let m := concat ms in
                                 Ok (match m with [] => [nulls la ++ r] | _ => m end)) R;
      Ok (concat parts)
  | JSemi =>
      do parts <- mapM (fun l => do ms <- mapM (fun r => on l r) R;
                                 Ok (if existsb (fun b => b) ms then [l] else [])) L;
      Ok (concat parts)
  | JAnti =>
      do parts <- mapM (fun l => do ms <- mapM (fun r => on l r) R;
                                 Ok (if existsb (fun b => b) ms then [] else [l])) L;
      Ok (concat parts)
  end.

Definition all_true (bs : list bool) : bool := forallb (fun b => b) bs.

Fixpoint eval_pexpr (d : db) (en : env) (e : pexpr) {struct e} : res value :=
  match e with
  | PConst v => Ok v
  | PCol depth idx =>
      match nth_error en depth with
      | Some r => match nth_error r idx with Some v => Ok v | None => Err EType end
      | None => Err EType
      end
  | PCmp op a b => do x <- eval_pexpr d en a; do y <- eval_pexpr d en b; cmp3 op x y
  | PDistinct neg a b =>
      do x <- eval_pexpr d en a; do y <- eval_pexpr d en b;
      Ok (VBool (if neg then val_same x y else negb (val_same x y)))
  | PAnd a b => do x <- eval_pexpr d en a; do y <- eval_pexpr d en b; and3 x y
  | POr a b => do x <- eval_pexpr d en a; do y <- eval_pexpr d en b; or3 x y
  | PNot a => do x <- eval_pexpr d en a; not3 x
  | PIsNull neg a =>
      do x <- eval_pexpr d en a;
      Ok (VBool (match x with VNull => negb neg | _ => neg end))
  | PArith op w a b => do x <- eval_pexpr d en a; do y <- eval_pexpr d en b; arith op w x y
  | PNeg w a => do x <- eval_pexpr d en a; arith Sub w (match x with VNull => VNull | _ => VInt 0 end) x
  | PCase branches els =>
      (fix go (bs : list (pexpr * pexpr)) : res value :=
         match bs with
         | [] => eval_pexpr d en els
         | (c, t) :: bs' =>
             do cv <- eval_pexpr d en c;
             if is_true cv then eval_pexpr d en t else go bs'
         end) branches
  | PInList neg a es =>
      do x <- eval_pexpr d en a;
      do vs <- mapM (eval_pexpr d en) es;
      do r <- in_set x vs;
      if neg then not3 r else Ok r
  | PExists neg l =>
      do rows <- eval_lplan d en l;
      Ok (VBool (match rows with [] => neg | _ => negb neg end))
  | PInSub neg a l =>
      do x <- eval_pexpr d en a;
      do rows <- eval_lplan d en l;
      do r <- in_set x (map (fun r => hd VNull r) rows);
      if neg then not3 r else Ok r
  | PScalar l =>
      do rows <- eval_lplan d en l;
      match rows with
      | [] => Ok VNull
      | [r] => Ok (hd VNull r)
      | _ => Err ECard
      end
  end
with eval_lplan (d : db) (en : env) (p : lplan) {struct p} : res (list row) :=
  match p with
  | LScan t => match nth_error d t with Some rows => Ok rows | None => Err EType end
  | LSingleRow => Ok [[]]
  | LExprList rows => mapM (fun r => mapM (eval_pexpr d en) r) rows
  | LFilter e c =>
      do rows <- eval_lplan d en c;
      rfilter (fun r => do v <- eval_pexpr d (r :: en) e; collapse3 v) rows
  | LProject es c =>
      do rows <- eval_lplan d en c;
      rproject (fun r => mapM (eval_pexpr d (r :: en)) es) rows
  | LProjectAll c => eval_lplan d en c
  | LCrossJoin l r =>
      do L <- eval_lplan d en l; do R <- eval_lplan d en r;
      Ok (rcross L R)
  | LArbitraryJoin k cond la ra l r =>
      do L <- eval_lplan d en l; do R <- eval_lplan d en r;
      rjoin k L R la ra (fun x => do v <- eval_pexpr d (x :: en) cond; collapse3 v)
  | LComparisonJoin k conds la ra l r =>
      do L <- eval_lplan d en l; do R <- eval_lplan d en r;
      (* the key expressions are evaluated per side (every row, whatever the other side holds) ... *)
      do LK <- mapM (fun x => mapM (fun c => match c with (_, a, _) => eval_pexpr d (x :: en) a end) conds) L;
      do RK <- mapM (fun y => mapM (fun c => match c with (_, _, b) => eval_pexpr d (y :: en) b end) conds) R;
      (* ... a pair joins when every condition holds *)
      join2 k L R la ra
        (fun x y => do bs <- mapM (fun c => match c with (o, a, b) =>
                                      do u <- eval_pexpr d (x :: en) a; do v <- eval_pexpr d (y :: en) b;
                                      jop_holds o u v end) conds;
                    Ok (all_true bs))
  | LDependentJoin k on ra l r =>
      do L <- eval_lplan d en l;
      do parts <- mapM (fun lr =>
            do R <- eval_lplan d (lr :: en) r;
            rjoin k [lr] R (length lr) ra
                  (fun x => match on with
                            | None => Ok true
                            | Some c => do v <- eval_pexpr d (x :: en) c; collapse3 v
                            end)) L;
      Ok (concat parts)
  | LAggregate keys aggs c =>
      do rows <- eval_lplan d en c;
      ragg (match keys with [] => true | _ => false end)
           (fun r => mapM (eval_pexpr d (r :: en)) keys)
           (map (fun a => match a with (fn, dis, arg) => (fn, dis, fun r => eval_pexpr d (r :: en) arg) end) aggs)
           rows
  | LDistinct c => do rows <- eval_lplan d en c; Ok (rdistinct rows)
  | LSetop all l r => do x <- eval_lplan d en l; do y <- eval_lplan d en r; Ok (runion all x y)
  | LOrder keys c => do rows <- eval_lplan d en c; Ok (rsort keys rows)
  | LLimit lim off c => do rows <- eval_lplan d en c; Ok (rlimit off lim rows)
  | LMaterializationScan c => eval_lplan d en c
  end.

(* ---------------------------------------------------------------- join condition extraction *)

(* split_conjunction (optimizer/filter_pushdown/split.rs) *)
Fixpoint split_conj (e : pexpr) : list pexpr :=
  match e with
  | PAnd a b => split_conj a ++ split_conj b
  | _ => [e]
  end.

(* expr::and(list): one n-ary conjunction; here right-nested binary ANDs (AND is associative) *)
Fixpoint and_all (l : list pexpr) : pexpr :=
  match l with
  | [] => PConst (VBool true)
  | [x] => x
  | x :: rest => PAnd x (and_all rest)
  end.

(* ExprJoinSide *)
Inductive side := SNone | SLeft | SRight | SBoth.

Definition side_combine (a b : side) : side :=
  match a, b with
  | x, SNone => x
  | SNone, y => y
  | SBoth, _ | _, SBoth => SBoth
  | SLeft, SLeft => SLeft
  | SRight, SRight => SRight
  | _, _ => SBoth
  end.

(* ExprJoinSide::try_from_expr for a condition over the row left ++ right, `la` = width of the left
   input.  A reference to an enclosing block and a subquery make the source return an error
   ("Table ref is invalid" / not_implemented "subquery in join condition"); the model classifies such a
   conjunct as SBoth, which keeps it in the join condition, and `plan_supported` says the engine does
   not plan the query. *)
Fixpoint expr_side (la : nat) (e : pexpr) : side :=
  match e with
  | PConst _ => SNone
  | PCol O idx => if Nat.ltb idx la then SLeft else SRight
  | PCol (S _) _ => SBoth
  | PCmp _ a b | PDistinct _ a b | PAnd a b | POr a b | PArith _ _ a b =>
      side_combine (expr_side la a) (expr_side la b)
  | PNot a | PIsNull _ a | PNeg _ a => expr_side la a
  | PCase branches els =>
      fold_right (fun ct s => match ct with (c, t) => side_combine (side_combine (expr_side la c) (expr_side la t)) s end)
                 (expr_side la els) branches
  | PInList _ a es => fold_right (fun x s => side_combine (expr_side la x) s) (expr_side la a) es
  | PExists _ _ | PInSub _ _ _ | PScalar _ => SBoth
  end.

(* a right-only expression, re-addressed to the right row alone (the engine resolves a column by its
   table reference; the positional model subtracts the width of the left input).  Subqueries never occur
   in an expression this is applied to (their side is SBoth). *)
Fixpoint shift_cols (la : nat) (e : pexpr) : pexpr :=
  match e with
  | PConst v => PConst v
  | PCol O idx => PCol O (idx - la)
  | PCol (S dd) idx => PCol (S dd) idx
  | PCmp op a b => PCmp op (shift_cols la a) (shift_cols la b)
  | PDistinct neg a b => PDistinct neg (shift_cols la a) (shift_cols la b)
  | PAnd a b => PAnd (shift_cols la a) (shift_cols la b)
  | POr a b => POr (shift_cols la a) (shift_cols la b)
  | PNot a => PNot (shift_cols la a)
  | PIsNull neg a => PIsNull neg (shift_cols la a)
  | PArith op w a b => PArith op w (shift_cols la a) (shift_cols la b)
  | PNeg w a => PNeg w (shift_cols la a)
  | PCase branches els =>
      PCase (map (fun ct => match ct with (c, t) => (shift_cols la c, shift_cols la t) end) branches)
            (shift_cols la els)
  | PInList neg a es => PInList neg (shift_cols la a) (map (shift_cols la) es)
  | PExists neg l => PExists neg l
  | PInSub neg a l => PInSub neg (shift_cols la a) l
  | PScalar l => PScalar l
  end.

(* ComparisonOperator::flip *)
Definition flip_cmp (op : cmpop) : cmpop :=
  match op with CEq => CEq | CNe => CNe | CLt => CGt | CLe => CGe | CGt => CLt | CGe => CLe end.
Definition flip_jop (o : jop) : jop := match o with JOp op => JOp (flip_cmp op) | JDist n => JDist n end.

(* ExtractedConditions; comparisons are kept over the concatenated row here: (op, left-side operand,
   right-side operand) *)
Record extracted := mkX {
  x_cmp : list (jop * pexpr * pexpr);
  x_arb : list pexpr;
  x_lf : list pexpr;
  x_rf : list pexpr }.

Definition push_lf (e : pexpr) (x : extracted) := mkX (x_cmp x) (x_arb x) (x_lf x ++ [e]) (x_rf x).
Definition push_rf (e : pexpr) (x : extracted) := mkX (x_cmp x) (x_arb x) (x_lf x) (x_rf x ++ [e]).
Definition push_arb (e : pexpr) (x : extracted) := mkX (x_cmp x) (x_arb x ++ [e]) (x_lf x) (x_rf x).
Definition push_cmp (c : jop * pexpr * pexpr) (x : extracted) := mkX (x_cmp x ++ [c]) (x_arb x) (x_lf x) (x_rf x).

(* a conjunct reading both sides: a comparison whose operands read one side each becomes a condition *)
Definition as_comparison (la : nat) (e : pexpr) : option (jop * pexpr * pexpr) :=
  let mk (o : jop) (a b : pexpr) :=
    match expr_side la a, expr_side la b with
    | SBoth, _ | _, SBoth => None
    | SRight, _ => Some (flip_jop o, b, a)        (* condition.flip_sides() *)
    | _, _ => Some (o, a, b)
    end in
  match e with
  | PCmp op a b => mk (JOp op) a b
  | PDistinct neg a b => mk (JDist neg) a b
  | _ => None
  end.

Definition is_inner (k : jkind) : bool := match k with JInner | JCross => true | _ => false end.

(* JoinConditionExtractor::extract, one conjunct *)
Definition classify (k : jkind) (la : nat) (x : extracted) (e : pexpr) : extracted :=
  match expr_side la e with
  | SBoth => match as_comparison la e with Some c => push_cmp c x | None => push_arb e x end
  | SRight => match k with JLeft | JInner | JCross => push_rf e x | _ => push_arb e x end
  | SLeft => match k with JRight | JInner | JCross => push_lf e x | _ => push_arb e x end
  | SNone => push_arb e x
  end.

Definition extract (k : jkind) (la : nat) (on : pexpr) : extracted :=
  fold_left (classify k la) (split_conj on) (mkX [] [] [] []).

Definition cmp_expr (c : jop * pexpr * pexpr) : pexpr :=
  match c with
  | (JOp op, a, b) => PCmp op a b
  | (JDist neg, a, b) => PDistinct neg a b
  end.

Definition is_nil {A} (l : list A) : bool := match l with [] => true | _ => false end.

(* plan_join (the non-lateral part after the CrossJoin shortcut) + plan_join_from_conditions *)
Definition extract_join (k : jkind) (on : pexpr) (la ra : nat) (l r : lplan) : lplan :=
  let x := extract k la on in
  let l' := match x_lf x with [] => l | fs => LFilter (and_all fs) l end in
  let r' := match x_rf x with [] => r | fs => LFilter (and_all (map (shift_cols la) fs)) r end in
  if is_nil (x_cmp x) || (negb (is_inner k) && negb (is_nil (x_arb x))) then
    LArbitraryJoin k (and_all (x_arb x ++ map cmp_expr (x_cmp x))) la ra l' r'
  else
    let j := LComparisonJoin k (map (fun c => match c with (o, a, b) => (o, a, shift_cols la b) end) (x_cmp x))
                             la ra l' r' in
    match x_arb x with [] => j | fs => LFilter (and_all fs) j end.

(* the join node without extraction: the whole ON condition in an ArbitraryJoin *)
Definition whole_join (k : jkind) (on : pexpr) (la ra : nat) (l r : lplan) : lplan :=
  LArbitraryJoin k on la ra l r.

(* ---------------------------------------------------------------- the planner *)

Section PlanOf.
  (* how a JOIN ... ON node is built: `extract_join` (the engine) or `whole_join` *)
  Variable mkjoin : jkind -> pexpr -> nat -> nat -> lplan -> lplan -> lplan.

  Fixpoint plan_expr (e : expr) : pexpr :=
    match e with
    | EConst v => PConst v
    | ECol depth idx => PCol depth idx
    | ECmp op a b => PCmp op (plan_expr a) (plan_expr b)
    | EDistinct neg a b => PDistinct neg (plan_expr a) (plan_expr b)
    | EAnd a b => PAnd (plan_expr a) (plan_expr b)
    | EOr a b => POr (plan_expr a) (plan_expr b)
    | ENot a => PNot (plan_expr a)
    | EIsNull neg a => PIsNull neg (plan_expr a)
    | EArith op w a b => PArith op w (plan_expr a) (plan_expr b)
    | ENeg w a => PNeg w (plan_expr a)
    | ECase branches els =>
        PCase (map (fun ct => match ct with (c, t) => (plan_expr c, plan_expr t) end) branches) (plan_expr els)
    | EInList neg a es => PInList neg (plan_expr a) (map plan_expr es)
    | EExists neg q => PExists neg (plan_query q)
    | EInSub neg a q => PInSub neg (plan_expr a) (plan_query q)
    | EScalar q => PScalar (plan_query q)
    end
  with plan_query (q : query) : lplan :=
    match q with
    | QTable t => LScan t
    | QValues rows => LExprList (map (map plan_expr) rows)
    | QSelect f wh grp hav sel distinct =>
        (* FROM *)
        let p0 := match f with None => LSingleRow | Some fc => plan_from fc end in
        (* WHERE *)
        let p1 := match wh with None => p0 | Some e => LFilter (plan_expr e) p0 end in
        (* GROUP BY / aggregates, then HAVING (Sql.v reads HAVING only of a grouped block) *)
        let p2 := match grp with
                  | None => p1
                  | Some (keys, aggs) =>
                      let a := LAggregate (map plan_expr keys)
                                          (map (fun x => match x with (fn, dis, arg) => (fn, dis, plan_expr arg) end) aggs)
                                          p1 in
                      match hav with None => a | Some e => LFilter (plan_expr e) a end
                  end in
        (* projections *)
        let p3 := LProject (map plan_expr sel) p2 in
        (* DISTINCT *)
        if distinct then LDistinct p3 else p3
    | QUnion all a b => LSetop all (plan_query a) (plan_query b)
    | QOrderLimit q' keys lim off =>
        let p := plan_query q' in
        let po := match keys with [] => p | _ => LOrder keys p end in
        match lim, off with
        | None, O => po
        | _, _ => LLimit lim off po
        end
    end
  with plan_from (f : fromc) : lplan :=
    match f with
    | FQuery q =>
        match q with
        | QTable t => LScan t                          (* BoundFromItem::BaseTable *)
        | _ => LProjectAll (plan_query q)              (* BoundFromItem::Subquery *)
        end
    | FJoin k l r on la ra =>
        match on with
        | None =>
            if is_inner k then LCrossJoin (plan_from l) (plan_from r)
            else LArbitraryJoin k (PConst (VBool true)) la ra (plan_from l) (plan_from r)
        | Some e => mkjoin k (plan_expr e) la ra (plan_from l) (plan_from r)
        end
    | FLateral k l r on ra =>
        LDependentJoin k (option_map plan_expr on) ra (plan_from l) (plan_query r)
    end.
End PlanOf.

(* the engine's logical planner, and the same planner keeping every ON condition whole *)
Definition plan_of : query -> lplan := plan_query extract_join.
Definition plan0_of : query -> lplan := plan_query whole_join.

(* ---------------------------------------------------------------- arities (for the extraction) *)

(* width of the rows of a query / FROM item, given the widths of the base tables; None = not uniform.
   The classification of a conjunct reads `la`, which Sql.v's FJoin carries for NULL padding; the
   extraction is only meaningful when `la` is the width of every row of the left input. *)
Definition opt_eqb (a b : option nat) : bool :=
  match a, b with Some x, Some y => Nat.eqb x y | _, _ => false end.

Fixpoint query_arity (sch : list nat) (q : query) : option nat :=
  match q with
  | QTable t => nth_error sch t
  | QValues rows =>
      match rows with
      | [] => None
      | r :: rest => if forallb (fun x => Nat.eqb (length x) (length r)) rest then Some (length r) else None
      end
  | QSelect _ _ _ _ sel _ => Some (length sel)
  | QUnion _ a b =>
      match query_arity sch a, query_arity sch b with
      | Some x, Some y => if Nat.eqb x y then Some x else None
      | _, _ => None
      end
  | QOrderLimit q' _ _ _ => query_arity sch q'
  end.

Fixpoint from_arity (sch : list nat) (f : fromc) : option nat :=
  match f with
  | FQuery q => query_arity sch q
  | FJoin k l r _ la ra =>
      if opt_eqb (from_arity sch l) (Some la) && opt_eqb (from_arity sch r) (Some ra)
      then Some (match k with JSemi | JAnti => la | _ => la + ra end)
      else None
  | FLateral k l r _ ra =>
      match from_arity sch l, query_arity sch r with
      | Some la, Some rb => if Nat.eqb rb ra then Some (match k with JSemi | JAnti => la | _ => la + ra end) else None
      | _, _ => None
      end
  end.

Definition db_arity_ok (sch : list nat) (d : db) : bool :=
  Nat.eqb (length sch) (length d) &&
  forallb (fun p => forallb (fun r => Nat.eqb (length r) (fst p)) (snd p)) (combine sch d).

(* a check `wfj` on every JOIN ... ON of the query (subqueries included); `joins_wf`: the declared width
   of the left input is its width, and the condition contains no subquery *)
Section Wf.
  Variable wfj : fromc -> fromc -> expr -> nat -> nat -> bool.

  Fixpoint wf_expr (e : expr) : bool :=
    match e with
    | EConst _ | ECol _ _ => true
    | ECmp _ a b | EDistinct _ a b | EAnd a b | EOr a b | EArith _ _ a b => wf_expr a && wf_expr b
    | ENot a | EIsNull _ a | ENeg _ a => wf_expr a
    | ECase branches els =>
        forallb (fun ct => match ct with (c, t) => wf_expr c && wf_expr t end) branches && wf_expr els
    | EInList _ a es => wf_expr a && forallb wf_expr es
    | EExists _ q => wf_query q
    | EInSub _ a q => wf_expr a && wf_query q
    | EScalar q => wf_query q
    end
  with wf_query (q : query) : bool :=
    match q with
    | QTable _ => true
    | QValues rows => forallb (forallb wf_expr) rows
    | QSelect f wh grp hav sel _ =>
        match f with None => true | Some fc => wf_from fc end
        && match wh with None => true | Some e => wf_expr e end
        && match grp with
           | None => true
           | Some (keys, aggs) =>
               forallb wf_expr keys && forallb (fun a => match a with (_, _, arg) => wf_expr arg end) aggs
           end
        && match hav with None => true | Some e => wf_expr e end
        && forallb wf_expr sel
    | QUnion _ a b => wf_query a && wf_query b
    | QOrderLimit q' _ _ _ => wf_query q'
    end
  with wf_from (f : fromc) : bool :=
    match f with
    | FQuery q => wf_query q
    | FJoin k l r on la ra =>
        wf_from l && wf_from r
        && match on with None => true | Some e => wf_expr e && wfj l r e la ra end
    | FLateral k l r on ra =>
        wf_from l && wf_query r && match on with None => true | Some e => wf_expr e end
    end.
End Wf.

(* no subquery inside (the source answers not_implemented "subquery in join condition") *)
Fixpoint nosub (e : expr) : bool :=
  match e with
  | EConst _ | ECol _ _ => true
  | ECmp _ a b | EDistinct _ a b | EAnd a b | EOr a b | EArith _ _ a b => nosub a && nosub b
  | ENot a | EIsNull _ a | ENeg _ a => nosub a
  | ECase branches els =>
      forallb (fun ct => match ct with (c, t) => nosub c && nosub t end) branches && nosub els
  | EInList _ a es => nosub a && forallb nosub es
  | EExists _ _ | EInSub _ _ _ | EScalar _ => false
  end.

Definition arity_wfj (sch : list nat) (l r : fromc) (on : expr) (la ra : nat) : bool :=
  opt_eqb (from_arity sch l) (Some la) && nosub on.
Definition joins_wf (sch : list nat) (q : query) : bool := wf_query (arity_wfj sch) q.

(* ---------------------------------------------------------------- operator skeletons (correspondence with EXPLAIN) *)

(* What is compared with the engine's EXPLAIN VERBOSE output: operator kinds, join types, counts.
   Subquery expressions: the engine's planner (plan_subquery.rs, SubqueryPlanner::plan_expression) replaces the
   input of the operator that holds the expression by a join of that input with the subquery's plan, one join
   per subquery expression, in traversal order.  `lskel` reproduces that SHAPE (not its semantics):
     uncorrelated scalar  : CrossJoin(input, Aggregate[first](sub))
     uncorrelated EXISTS  : CrossJoin(input, Project[1](Aggregate[count](Limit 1 (sub))))
     uncorrelated IN      : ComparisonJoin LEFT MARK (input, sub), one condition
     correlated           : MagicJoin LEFT (scalar) / LEFT MARK (EXISTS, IN) (MaterializationScan(input), sub')
   where sub' is the subquery's plan after the dependent-join push-down; the check compares sub' with the
   subquery's own plan modulo the push-down artefacts (see vlib/c01plan.py). *)
Inductive subkind := SubScalar | SubExists | SubIn.

Inductive skop :=
| KScan (t : nat)
| KSingleRow
| KExprList (nrows : nat)
| KFilter
| KProject (n : option nat)
| KCrossJoin
| KArbitraryJoin (k : jkind)
| KComparisonJoin (k : jkind) (nconds : nat) (has_eq : bool)
| KDependentJoin (k : jkind)
| KAggregate (nkeys naggs : nat)
| KDistinct
| KSetop (all : bool)
| KOrder (nkeys : nat)
| KLimit (lim : option nat) (off : nat)
| KMatScan
| KMarkJoin (nconds : nat)                  (* ComparisonJoin LEFT MARK of an uncorrelated IN *)
| KMagicJoin (kind : subkind).              (* MagicJoin LEFT (scalar) / LEFT MARK (EXISTS, IN) *)

Inductive sk := Sk (op : skop) (children : list sk).

(* does an expression / a plan refer to a row outside itself?  `m` = number of rows of the environment that
   belong to the expression / plan itself *)
Fixpoint corr_expr (m : nat) (e : pexpr) : bool :=
  match e with
  | PConst _ => false
  | PCol dd _ => Nat.leb m dd
  | PCmp _ a b | PDistinct _ a b | PAnd a b | POr a b | PArith _ _ a b => corr_expr m a || corr_expr m b
  | PNot a | PIsNull _ a | PNeg _ a => corr_expr m a
  | PCase branches els =>
      existsb (fun ct => match ct with (c, t) => corr_expr m c || corr_expr m t end) branches || corr_expr m els
  | PInList _ a es => corr_expr m a || existsb (corr_expr m) es
  | PExists _ l => corr_plan m l
  | PInSub _ a l => corr_expr m a || corr_plan m l
  | PScalar l => corr_plan m l
  end
with corr_plan (m : nat) (p : lplan) : bool :=
  match p with
  | LScan _ | LSingleRow => false
  | LExprList rows => existsb (existsb (corr_expr m)) rows
  | LFilter e c => corr_expr (S m) e || corr_plan m c
  | LProject es c => existsb (corr_expr (S m)) es || corr_plan m c
  | LProjectAll c | LDistinct c | LOrder _ c | LLimit _ _ c | LMaterializationScan c => corr_plan m c
  | LCrossJoin l r | LSetop _ l r => corr_plan m l || corr_plan m r
  | LArbitraryJoin _ cond _ _ l r => corr_expr (S m) cond || corr_plan m l || corr_plan m r
  | LComparisonJoin _ conds _ _ l r =>
      existsb (fun c => match c with (_, a, b) => corr_expr (S m) a || corr_expr (S m) b end) conds
      || corr_plan m l || corr_plan m r
  | LDependentJoin _ on _ l r =>
      match on with None => false | Some c => corr_expr (S m) c end || corr_plan m l || corr_plan (S m) r
  | LAggregate keys aggs c =>
      existsb (corr_expr (S m)) keys || existsb (fun a => match a with (_, _, arg) => corr_expr (S m) arg end) aggs
      || corr_plan m c
  end.

(* the subquery expressions of an expression, in the order plan_expression_inner meets them *)
Fixpoint subqs (e : pexpr) : list (subkind * lplan) :=
  match e with
  | PConst _ | PCol _ _ => []
  | PCmp _ a b | PDistinct _ a b | PAnd a b | POr a b | PArith _ _ a b => subqs a ++ subqs b
  | PNot a | PIsNull _ a | PNeg _ a => subqs a
  | PCase branches els =>
      flat_map (fun ct => match ct with (c, t) => subqs c ++ subqs t end) branches ++ subqs els
  | PInList _ a es => subqs a ++ flat_map subqs es
  | PExists _ l => [(SubExists, l)]
  | PInSub _ a l => subqs a ++ [(SubIn, l)]
  | PScalar l => [(SubScalar, l)]
  end.

(* width of the rows of a plan (for the Project that re-exports a FROM subquery) *)
Fixpoint plan_arity (sch : list nat) (p : lplan) : option nat :=
  match p with
  | LScan t => nth_error sch t
  | LSingleRow => Some 0
  | LExprList rows => match rows with [] => None | r :: _ => Some (length r) end
  | LFilter _ c | LProjectAll c | LDistinct c | LOrder _ c | LLimit _ _ c | LMaterializationScan c => plan_arity sch c
  | LProject es _ => Some (length es)
  | LCrossJoin l r =>
      match plan_arity sch l, plan_arity sch r with Some a, Some b => Some (a + b) | _, _ => None end
  | LArbitraryJoin k _ la ra _ _ | LComparisonJoin k _ la ra _ _ =>
      Some (match k with JSemi | JAnti => la | _ => la + ra end)
  | LDependentJoin k _ ra l _ =>
      match plan_arity sch l with
      | Some la => Some (match k with JSemi | JAnti => la | _ => la + ra end)
      | None => None
      end
  | LAggregate keys aggs _ => Some (length keys + length aggs)
  | LSetop _ l _ => plan_arity sch l
  end.

Definition jop_is_eq (o : jop) : bool := match o with JOp CEq => true | _ => false end.

Section Skel.
  Variable sch : list nat.

  Definition subq_node (kind : subkind) (corr : bool) (inp sub : sk) : sk :=
    if corr then Sk (KMagicJoin kind) [inp; sub]
    else match kind with
         | SubScalar => Sk KCrossJoin [inp; Sk (KAggregate 0 1) [sub]]
         | SubExists => Sk KCrossJoin [inp; Sk (KProject (Some 1)) [Sk (KAggregate 0 1) [Sk (KLimit (Some 1) 0) [sub]]]]
         | SubIn => Sk (KMarkJoin 1) [inp; sub]
         end.

  (* wrap_expr e inp: `inp` joined with the plan of every subquery expression of e, in the order of `subqs e` *)
  Fixpoint wrap_expr (e : pexpr) (inp : sk) {struct e} : sk :=
    match e with
    | PConst _ | PCol _ _ => inp
    | PCmp _ a b | PDistinct _ a b | PAnd a b | POr a b | PArith _ _ a b => wrap_expr b (wrap_expr a inp)
    | PNot a | PIsNull _ a | PNeg _ a => wrap_expr a inp
    | PCase branches els =>
        wrap_expr els (fold_left (fun acc ct => match ct with (c, t) => wrap_expr t (wrap_expr c acc) end) branches inp)
    | PInList _ a es => fold_left (fun acc x => wrap_expr x acc) es (wrap_expr a inp)
    | PExists _ l => subq_node SubExists (corr_plan 0 l) inp (lskel l)
    | PInSub _ a l => subq_node SubIn (corr_plan 0 l) (wrap_expr a inp) (lskel l)
    | PScalar l => subq_node SubScalar (corr_plan 0 l) inp (lskel l)
    end
  with lskel (p : lplan) {struct p} : sk :=
    match p with
    | LScan t => Sk (KScan t) []
    | LSingleRow => Sk KSingleRow []
    | LExprList rows => Sk (KExprList (length rows)) [Sk KSingleRow []]
    | LFilter e c => Sk KFilter [wrap_expr e (lskel c)]
    | LProject es c => Sk (KProject (Some (length es))) [fold_left (fun acc x => wrap_expr x acc) es (lskel c)]
    | LProjectAll c => Sk (KProject (plan_arity sch c)) [lskel c]
    | LCrossJoin l r => Sk KCrossJoin [lskel l; lskel r]
    | LArbitraryJoin k _ _ _ l r => Sk (KArbitraryJoin k) [lskel l; lskel r]
    | LComparisonJoin k conds _ _ l r =>
        Sk (KComparisonJoin k (length conds) (existsb (fun c => match c with (o, _, _) => jop_is_eq o end) conds))
           [lskel l; lskel r]
    | LDependentJoin k _ _ l r => Sk (KDependentJoin k) [lskel l; lskel r]
    | LAggregate keys aggs c =>
        Sk (KAggregate (length keys) (length aggs))
           [fold_left (fun acc a => match a with (_, _, arg) => wrap_expr arg acc end) aggs
                      (fold_left (fun acc x => wrap_expr x acc) keys (lskel c))]
    | LDistinct c => Sk KDistinct [lskel c]
    | LSetop all l r => Sk (KSetop all) [lskel l; lskel r]
    | LOrder keys c => Sk (KOrder (length keys)) [lskel c]
    | LLimit lim off c => Sk (KLimit lim off) [lskel c]
    | LMaterializationScan c => Sk KMatScan [lskel c]
    end.
End Skel.

(* what the engine's planner does not accept (it answers an error): a subquery or a reference to an
   enclosing block inside JOIN ... ON; HAVING without grouping; LATERAL is not compared *)
Fixpoint on_supported (e : expr) : bool :=
  match e with
  | EConst _ => true
  | ECol dd _ => Nat.eqb dd 0
  | ECmp _ a b | EDistinct _ a b | EAnd a b | EOr a b | EArith _ _ a b => on_supported a && on_supported b
  | ENot a | EIsNull _ a | ENeg _ a => on_supported a
  | ECase branches els =>
      forallb (fun ct => match ct with (c, t) => on_supported c && on_supported t end) branches && on_supported els
  | EInList _ a es => on_supported a && forallb on_supported es
  | EExists _ _ | EInSub _ _ _ | EScalar _ => false
  end.

(* the fragment compared with EXPLAIN: every ON condition is `on_supported` *)
Definition plan_supported (q : query) : bool := wf_query (fun _ _ e _ _ => on_supported e) q.

(* ================================================================ physical plans *)

(* Transcribed from /repo/crates/glaredb_core/src/execution/planner/
     plan_join.rs      : ComparisonJoin -> HashJoin when some condition has op `=` (enable_hash_joins), otherwise
                         NestedLoopJoin with the conjunction of the conditions as filter; ArbitraryJoin ->
                         NestedLoopJoin(filter); CrossJoin -> NestedLoopJoin(INNER, no filter)
     plan_aggregate.rs : Project(group expressions ++ aggregate inputs) below, then HashAggregate when there are
                         grouping sets, UngroupedAggregate otherwise
     plan_distinct.rs  : HashAggregate grouping on every column, no aggregates
     plan_set_operation.rs : Union [+ HashAggregate on every column when not ALL]
     plan_sort.rs      : GlobalSort;  plan_limit.rs : Limit;  plan_filter.rs / plan_project.rs / plan_scan.rs
   `exec_pplan` runs every operator through its operator model (model/HashJoin.v, NlJoin.v, AggTable.v + AggState.v,
   LimitOp.v, Merge.v + SortSpec.v) on an ARBITRARY distribution of its input over partitions and batches. *)
From GV Require Import model.SortKey model.SortSpec model.Merge model.LimitOp model.HashJoin model.NlJoin
  model.AggState model.AggTable.
Local Open Scope nat_scope.

Inductive njcond :=
| NCNone                                           (* cross product *)
| NCWhole (e : pexpr)                              (* a filter over the concatenated row *)
| NCConds (cs : list (jop * pexpr * pexpr)).       (* comparison conditions, one operand per side *)

Inductive pplan :=
| XScan (t : nat)
| XSingleRow
| XExprList (rows : list (list pexpr))
| XFilter (p : pexpr) (c : pplan)
| XProject (es : list pexpr) (c : pplan)
| XProjectAll (c : pplan)
| XNlJoin (k : nkind) (cond : njcond) (la ra : nat) (l r : pplan)
| XHashJoin (k : hkind) (conds : list (cmpop * pexpr * pexpr)) (la ra : nat) (l r : pplan)
| XHashAggregate (keys : list pexpr) (aggs : list (aggfn * bool * pexpr)) (c : pplan)
| XUngroupedAggregate (aggs : list (aggfn * bool * pexpr)) (c : pplan)
| XDistinct (c : pplan)
| XUnion (l r : pplan)
| XSort (keys : list (nat * bool * bool)) (c : pplan)
| XLimit (lim off : nat) (c : pplan)
| XMaterialize (c : pplan)
| XUnsupported.                                    (* outside the fragment the composition theorem covers *)

Definition nkind_of (k : jkind) : option nkind :=
  match k with
  | JCross | JInner => Some NInner | JLeft => Some NLeft | JRight => Some NRight | JSemi => Some NSemi
  | JAnti => None
  end.
Definition hkind_of (k : jkind) : option hkind :=
  match k with
  | JCross | JInner => Some HInner | JLeft => Some HLeft | JRight => Some HRight | JSemi => Some HSemi
  | JAnti => None
  end.

Definition cmp_conds (conds : list (jop * pexpr * pexpr)) : option (list (cmpop * pexpr * pexpr)) :=
  fold_right (fun c acc => match c, acc with
                           | (JOp op, a, b), Some l => Some ((op, a, b) :: l)
                           | _, _ => None
                           end) (Some []) conds.

Fixpoint phys_of (p : lplan) : pplan :=
  match p with
  | LScan t => XScan t
  | LSingleRow => XSingleRow
  | LExprList rows => XExprList rows
  | LFilter e c => XFilter e (phys_of c)
  | LProject es c => XProject es (phys_of c)
  | LProjectAll c => XProjectAll (phys_of c)
  | LCrossJoin l r => XNlJoin NInner NCNone 0 0 (phys_of l) (phys_of r)
  | LArbitraryJoin k cond la ra l r =>
      match nkind_of k with
      | Some nk => XNlJoin nk (NCWhole cond) la ra (phys_of l) (phys_of r)
      | None => XUnsupported
      end
  | LComparisonJoin k conds la ra l r =>
      if existsb (fun c => match c with (o, _, _) => jop_is_eq o end) conds then
        match hkind_of k, cmp_conds conds with
        | Some hk, Some cs => XHashJoin hk cs la ra (phys_of l) (phys_of r)
        | _, _ => XUnsupported
        end
      else
        match nkind_of k with
        | Some nk => XNlJoin nk (NCConds conds) la ra (phys_of l) (phys_of r)
        | None => XUnsupported
        end
  | LDependentJoin _ _ _ _ _ => XUnsupported
  | LAggregate keys aggs c =>
      if existsb (fun a => match a with (_, dis, _) => dis end) aggs then XUnsupported
      else match keys with
           | [] => XUngroupedAggregate aggs (phys_of c)
           | _ => XHashAggregate keys aggs (phys_of c)
           end
  | LDistinct c => XDistinct (phys_of c)
  | LSetop all l r => if all then XUnion (phys_of l) (phys_of r) else XDistinct (XUnion (phys_of l) (phys_of r))
  | LOrder keys c => XSort keys (phys_of c)
  | LLimit lim off c => match lim with Some n => XLimit n off (phys_of c) | None => XUnsupported end
  | LMaterializationScan c => XMaterialize (phys_of c)
  end.

(* ---------------------------------------------------------------- typed columns *)

Definition vkind (v : value) : nat := match v with VNull => 0 | VBool _ => 1 | VInt _ => 2 | VStr _ => 3 end.

(* the arrays an aggregate is fed with are typed: one kind, 64-bit integers for SUM *)
Definition agg_wt_b (f : aggfn) (vs : list value) : bool :=
  match f with
  | ACountStar | ACount => true
  | ASum => forallb (fun v => match v with VNull => true | VInt x => in_range 64 x | _ => false end) vs
  | AMin | AMax =>
      match filter (fun v => negb (Nat.eqb (vkind v) 0)) vs with
      | [] => true
      | v0 :: _ => forallb (fun v => Nat.eqb (vkind v) 0 || Nat.eqb (vkind v) (vkind v0)) vs
      end
  | ABoolAnd | ABoolOr => forallb (fun v => match v with VNull | VBool _ => true | _ => false end) vs
  end.

(* ---------------------------------------------------------------- sort keys of Sql rows *)

Definition enc_key (v : value) : kval :=
  match v with
  | VNull => KNull
  | VBool b => KBits (if b then 1 else 0)%N
  | VInt z => KBits (Z.to_N (z mod 2 ^ 64)%Z)
  | VStr s => KBytes s
  end.
Definition kty_of_kind (k : nat) : kty :=
  match k with 1 => KBool 1%N 0%N | 3 => KStr 0 | _ => KS 8 end.
(* the kind of key column i: that of its first non-NULL value *)
Definition col_kind (rows : list row) (i : nat) : nat :=
  match filter (fun k => negb (Nat.eqb k 0)) (map (fun r => vkind (nth i r VNull)) rows) with
  | [] => 2
  | k :: _ => k
  end.
Definition sort_cols (rows : list row) (keys : list (nat * bool * bool)) : list kcol :=
  map (fun k => match k with (i, desc, nf) => Build_kcol (kty_of_kind (col_kind rows i)) desc nf end) keys.
Definition key_ok (kd : nat) (v : value) : bool :=
  match v with
  | VNull => true
  | VInt z => Nat.eqb kd 2 && in_range 64 z
  | _ => Nat.eqb (vkind v) kd
  end.
Definition sort_typed_b (rows : list row) (keys : list (nat * bool * bool)) : bool :=
  forallb (fun k => match k with (i, _, _) =>
             forallb (fun r => key_ok (col_kind rows i) (nth i r VNull)) rows end) keys.
(* (sort keys, payload = position of the row in the operator's input) *)
Definition srow_of (keys : list (nat * bool * bool)) (ir : nat * row) : srow :=
  (map (fun k => match k with (i, _, _) => enc_key (nth i (snd ir) VNull) end) keys, [KBits (N.of_nat (fst ir))]).
Definition row_of_srow (all : list row) (s : srow) : option row :=
  match snd s with
  | [KBits n] => nth_error all (N.to_nat n)
  | _ => None
  end.

(* the rows of the partitions, numbered consecutively *)
Fixpoint number_parts (start : nat) (ps : list (list row)) : list (list (nat * row)) :=
  match ps with
  | [] => []
  | p :: ps' => combine (seq start (length p)) p :: number_parts (start + length p) ps'
  end.

Fixpoint mapM_o {A B} (f : A -> option B) (l : list A) : res (list B) :=
  match l with
  | [] => Ok []
  | x :: l' => match f x with Some y => do ys <- mapM_o f l'; Ok (y :: ys) | None => Err EType end
  end.

(* ---------------------------------------------------------------- execution *)

Section Exec.
  (* the oracle: every choice the runtime makes.  `pth` = position of the operator in the plan. *)
  Variable deal : list nat -> nat -> list row -> list (list (list row)).   (* rows -> partitions -> batches *)
  Variable batching : list nat -> list row -> list (list row).             (* one ordered stream, cut in batches *)
  Variable perm_b : list nat -> list bptr -> list bptr.                    (* hash join: directory insertion order *)
  Variable perm_l : list nat -> list lptr -> list lptr.                    (* nested loop join: drain order *)
  Variable hash : list value -> N.
  Variable kbits : N.
  Variable Pn : nat.                                                        (* hash join drain partitions *)
  Variable hasha : row -> N.
  Variables pout capacity chunk : nat.                                      (* hash aggregate: two-level scheme *)
  Variable tree_of : list nat -> list (list srow) -> mtree.                 (* merge order of the sorted runs *)
  Variable lsched : list nat -> list nat.                                   (* limit: lock order *)
  Variable usched : list nat -> nat -> list uevent.                         (* union: per-partition schedule *)

  Definition flat (parts : list (list (list row))) : list row := concat (concat parts).

  Definition eval_conds (d : db) (en : env) (conds : list (jop * pexpr * pexpr)) (x y : row) : res bool :=
    do bs <- mapM (fun c => match c with (o, a, b) =>
                     do u <- eval_pexpr d (x :: en) a; do v <- eval_pexpr d (y :: en) b; jop_holds o u v end) conds;
    Ok (all_true bs).

  Definition nj_eval (d : db) (en : env) (c : njcond) (x y : row) : res bool :=
    match c with
    | NCNone => Ok true
    | NCWhole e => do v <- eval_pexpr d ((x ++ y) :: en) e; collapse3 v
    | NCConds cs => eval_conds d en cs x y
    end.

  (* the values of aggregate `i` for the group `k`, per input partition *)
  Definition group_vals (pparts : list (list (list (row * row)))) (k : row) (i : nat) : list (list value) :=
    map (fun part => map (fun it => nth i (snd it) VNull)
                         (filter (fun it => row_same k (fst it)) (concat part))) pparts.
  Definition agg_phys (f : aggfn) (parts : list (list value)) : res value :=
    if agg_wt_b f (concat parts) then agg_parts f parts else Err EType.

  Fixpoint indexed {A} (i : nat) (l : list A) : list (nat * A) :=
    match l with [] => [] | x :: l' => (i, x) :: indexed (S i) l' end.

  Fixpoint exec_pplan (pth : list nat) (d : db) (en : env) (p : pplan) {struct p} : res (list row) :=
    match p with
    | XScan t => match nth_error d t with Some rows => Ok rows | None => Err EType end
    | XSingleRow => Ok [[]]
    | XExprList rows => mapM (fun r => mapM (eval_pexpr d en) r) rows
    | XFilter e c =>
        do rows <- exec_pplan (0 :: pth) d en c;
        rfilter (fun r => do v <- eval_pexpr d (r :: en) e; collapse3 v) (flat (deal pth 0 rows))
    | XProject es c =>
        do rows <- exec_pplan (0 :: pth) d en c;
        rproject (fun r => mapM (eval_pexpr d (r :: en)) es) (flat (deal pth 0 rows))
    | XProjectAll c => exec_pplan (0 :: pth) d en c
    | XMaterialize c => exec_pplan (0 :: pth) d en c
    | XNlJoin k cond la ra l r =>
        do L <- exec_pplan (0 :: pth) d en l; do R <- exec_pplan (1 :: pth) d en r;
        let Lp := deal pth 0 L in let Rp := deal pth 1 R in
        (* the filter runs on every pair of the cross product *)
        do _ <- mapM (fun x => mapM (fun y => nj_eval d en cond x y) (flat Rp)) (flat Lp);
        Ok (nl_join (match cond with NCNone => None | _ => Some (fun x y => unres false (nj_eval d en cond x y)) end)
                    k la ra Lp (perm_l pth (collected Lp)) Rp)
    | XHashJoin k conds la ra l r =>
        do L <- exec_pplan (0 :: pth) d en l; do R <- exec_pplan (1 :: pth) d en r;
        let Lp := deal pth 0 L in let Rp := deal pth 1 R in
        (* key columns of both sides *)
        do _ <- mapM (fun x => mapM (fun c => match c with (_, a, _) => eval_pexpr d (x :: en) a end) conds) (flat Lp);
        do _ <- mapM (fun y => mapM (fun c => match c with (_, _, b) => eval_pexpr d (y :: en) b end) conds) (flat Rp);
        Ok (hash_join hash (map (fun c => match c with (op, _, _) => op end) conds)
              (fun x => unres [] (mapM (fun c => match c with (_, a, _) => eval_pexpr d (x :: en) a end) conds))
              (fun y => unres [] (mapM (fun c => match c with (_, _, b) => eval_pexpr d (y :: en) b end) conds))
              kbits k la ra Pn Lp (perm_b pth (stored_rows Lp)) Rp)
    | XHashAggregate keys aggs c =>
        do rows <- exec_pplan (0 :: pth) d en c;
        (* pre-projection: group expressions and aggregate inputs of every row *)
        do pparts <- mapM (mapM (mapM (fun r =>
                        do k <- mapM (eval_pexpr d (r :: en)) keys;
                        do args <- mapM (fun a => match a with (_, _, arg) => eval_pexpr d (r :: en) arg end) aggs;
                        Ok (k, args)))) (deal pth 0 rows);
        match two_level hasha (list row) [] row (fun s v => s ++ [v]) (@app row) pout capacity chunk pparts with
        | TErr _ => Err EType
        | TOk outs =>
            mapM (fun g =>
                    do avs <- mapM (fun ia => match ia with (i, (fn, _, _)) => agg_phys fn (group_vals pparts (fst g) i) end)
                                   (indexed 0 aggs);
                    Ok (fst g ++ avs)) (concat (map groups outs))
        end
    | XUngroupedAggregate aggs c =>
        do rows <- exec_pplan (0 :: pth) d en c;
        do pparts <- mapM (mapM (mapM (fun r =>
                        do args <- mapM (fun a => match a with (_, _, arg) => eval_pexpr d (r :: en) arg end) aggs;
                        Ok (@nil value, args)))) (deal pth 0 rows);
        do avs <- mapM (fun ia => match ia with (i, (fn, _, _)) => agg_phys fn (group_vals pparts [] i) end) (indexed 0 aggs);
        Ok [avs]
    | XDistinct c =>
        do rows <- exec_pplan (0 :: pth) d en c;
        match two_level hasha (list row) [] row (fun s v => s ++ [v]) (@app row) pout capacity chunk
                        (map (map (map (fun r => (r, r)))) (deal pth 0 rows)) with
        | TErr _ => Err EType
        | TOk outs => Ok (map fst (concat (map groups outs)))
        end
    | XUnion l r =>
        do L <- exec_pplan (0 :: pth) d en l; do R <- exec_pplan (1 :: pth) d en r;
        let ls := map (@concat row) (deal pth 0 L) in let rs := map (@concat row) (deal pth 1 R) in
        (* per partition: the left child is pushed into a one-slot buffer, the right child passes through *)
        let runs := map (fun ip => union_run (usched pth (fst ip)) (union_init [fst (snd ip)] [snd (snd ip)]))
                        (indexed 0 (combine ls rs)) in
        if Nat.eqb (length ls) (length rs) && forallb (fun s => u_done s) runs
        then Ok (concat (map union_output runs)) else Err EType
    | XSort keys c =>
        do rows <- exec_pplan (0 :: pth) d en c;
        let parts := map (@concat row) (deal pth 0 rows) in
        let all := concat parts in
        if sort_typed_b all keys then
          let cs := sort_cols all keys in
          (* every partition sorts its rows; the runs are merged pairwise in the order the merge queue hands out *)
          let numbered := number_parts 0 parts in
          let runs := map (fun p => isort cs (map (srow_of keys) p)) numbered in
          mapM_o (row_of_srow all) (merge_tree cs (tree_of pth runs))
        else Err EType
    | XLimit lim off c =>
        do rows <- exec_pplan (0 :: pth) d en c;
        (* the global sort emits one ordered stream; any other input arrives from all partitions *)
        let bs := match c with
                  | XSort _ _ => batching pth rows
                  | _ => interleave (lsched pth) (deal pth 0 rows)
                  end in
        match limit_run (limit_init lim (Some off)) bs with
        | Some (_, outs, _) => Ok (concat outs)
        | None => Err EType
        end
    | XUnsupported => Err EType
    end.
End Exec.

(* ---------------------------------------------------------------- physical skeletons *)

Inductive pjk := PJ (k : jkind) | PJMark.

Inductive pkop :=
| QScan (t : nat)
| QSingleRow
| QExprList (nrows : nat)
| QFilter
| QProject (n : option nat)
| QNlJoin (k : pjk) (has_filter : bool)
| QHashJoin (k : pjk) (nconds : nat)
| QHashAggregate (nkeys naggs : nat)
| QUngroupedAggregate (naggs : nat)
| QHashDistinct                              (* HashAggregate on every column, no aggregates *)
| QUnionOp
| QSort (nkeys : nat)
| QLimit (lim : option nat) (off : nat)
| QMaterialize
| QUnsupported.

Inductive psk := Psk (op : pkop) (children : list psk).

(* the physical planner on skeletons (execution/planner/plan_*.rs, including the joins that stand for
   subquery expressions) *)
Fixpoint phys_sk (s : sk) : psk :=
  match s with
  | Sk op cs =>
      let cs' := map phys_sk cs in
      match op with
      | KScan t => Psk (QScan t) cs'
      | KSingleRow => Psk QSingleRow cs'
      | KExprList n => Psk (QExprList n) cs'
      | KFilter => Psk QFilter cs'
      | KProject n => Psk (QProject n) cs'
      | KCrossJoin => Psk (QNlJoin (PJ JInner) false) cs'
      | KArbitraryJoin k => Psk (QNlJoin (PJ k) true) cs'
      | KComparisonJoin k n has_eq =>
          if has_eq then Psk (QHashJoin (PJ k) n) cs' else Psk (QNlJoin (PJ k) (negb (Nat.eqb n 0))) cs'
      | KDependentJoin _ => Psk QUnsupported cs'
      | KAggregate nk na =>
          let pre := Psk (QProject (Some (nk + na))) cs' in
          match nk with O => Psk (QUngroupedAggregate na) [pre] | _ => Psk (QHashAggregate nk na) [pre] end
      | KDistinct => Psk QHashDistinct cs'
      | KSetop all => if all then Psk QUnionOp cs' else Psk QHashDistinct [Psk QUnionOp cs']
      | KOrder n => Psk (QSort n) cs'
      | KLimit l o => Psk (QLimit l o) cs'
      | KMatScan => Psk QMaterialize cs'
      | KMarkJoin n => Psk (QHashJoin PJMark n) cs'
      | KMagicJoin SubIn => Psk (QHashJoin PJMark 0) cs'             (* correlation conditions + one `=` *)
      | KMagicJoin SubExists => Psk (QNlJoin PJMark true) cs'        (* IS NOT DISTINCT FROM conditions only *)
      | KMagicJoin SubScalar => Psk (QNlJoin (PJ JLeft) true) cs'
      end
  end.

Definition jk_of_n (k : nkind) : pjk :=
  match k with NInner => PJ JInner | NLeft => PJ JLeft | NRight => PJ JRight | NSemi => PJ JSemi | NMark => PJMark end.
Definition jk_of_h (k : hkind) : pjk :=
  match k with HInner => PJ JInner | HLeft => PJ JLeft | HRight => PJ JRight | HSemi => PJ JSemi | HMark => PJMark end.

(* the skeleton of a physical plan (no joins for subquery expressions: those stay expressions in `pplan`) *)
Section PSkel.
  Variable sch : list nat.
  Fixpoint pplan_arity (p : pplan) : option nat :=
    match p with
    | XScan t => nth_error sch t
    | XSingleRow => Some 0
    | XExprList rows => match rows with [] => None | r :: _ => Some (length r) end
    | XFilter _ c | XProjectAll c | XDistinct c | XSort _ c | XLimit _ _ c | XMaterialize c => pplan_arity c
    | XProject es _ => Some (length es)
    | XNlJoin k cond la ra l r =>
        match cond with
        | NCNone => match pplan_arity l, pplan_arity r with Some a, Some b => Some (a + b) | _, _ => None end
        | _ => Some (match k with NSemi => la | _ => la + ra end)
        end
    | XHashJoin k _ la ra _ _ => Some (match k with HSemi => la | _ => la + ra end)
    | XHashAggregate keys aggs _ => Some (length keys + length aggs)
    | XUngroupedAggregate aggs _ => Some (length aggs)
    | XUnion l _ => pplan_arity l
    | XUnsupported => None
    end.

  Fixpoint pskel (p : pplan) : psk :=
    match p with
    | XScan t => Psk (QScan t) []
    | XSingleRow => Psk QSingleRow []
    | XExprList rows => Psk (QExprList (length rows)) [Psk QSingleRow []]
    | XFilter _ c => Psk QFilter [pskel c]
    | XProject es c => Psk (QProject (Some (length es))) [pskel c]
    | XProjectAll c => Psk (QProject (pplan_arity c)) [pskel c]
    | XNlJoin k cond _ _ l r =>
        Psk (QNlJoin (jk_of_n k) (match cond with NCNone => false | NCWhole _ => true | NCConds cs => negb (is_nil cs) end))
            [pskel l; pskel r]
    | XHashJoin k conds _ _ l r => Psk (QHashJoin (jk_of_h k) (length conds)) [pskel l; pskel r]
    | XHashAggregate keys aggs c =>
        Psk (QHashAggregate (length keys) (length aggs)) [Psk (QProject (Some (length keys + length aggs))) [pskel c]]
    | XUngroupedAggregate aggs c =>
        Psk (QUngroupedAggregate (length aggs)) [Psk (QProject (Some (length aggs))) [pskel c]]
    | XDistinct c => Psk QHashDistinct [pskel c]
    | XUnion l r => Psk QUnionOp [pskel l; pskel r]
    | XSort keys c => Psk (QSort (length keys)) [pskel c]
    | XLimit lim off c => Psk (QLimit (Some lim) off) [pskel c]
    | XMaterialize c => Psk QMaterialize [pskel c]
    | XUnsupported => Psk QUnsupported []
    end.
End PSkel.

(* plans whose expressions contain no subquery (then `pskel sch (phys_of l) = phys_sk (lskel sch l)`
   up to PUnsupported, checked at run time by the driver) *)
Fixpoint psk_eqb (a b : psk) : bool :=
  match a, b with
  | Psk oa ca, Psk ob cb =>
      (match oa, ob with
       | QScan x, QScan y => Nat.eqb x y
       | QSingleRow, QSingleRow | QFilter, QFilter | QHashDistinct, QHashDistinct | QUnionOp, QUnionOp
       | QMaterialize, QMaterialize | QUnsupported, QUnsupported => true
       | QExprList x, QExprList y => Nat.eqb x y
       | QProject x, QProject y => match x, y with Some u, Some v => Nat.eqb u v | None, None => true | _, _ => false end
       | QNlJoin k f, QNlJoin k' f' =>
           Bool.eqb f f' && match k, k' with
                            | PJMark, PJMark => true
                            | PJ u, PJ v => match u, v with
                                            | JCross, JCross | JInner, JInner | JLeft, JLeft | JRight, JRight
                                            | JSemi, JSemi | JAnti, JAnti | JCross, JInner | JInner, JCross => true
                                            | _, _ => false end
                            | _, _ => false end
       | QHashJoin k n, QHashJoin k' n' =>
           Nat.eqb n n' && match k, k' with
                           | PJMark, PJMark => true
                           | PJ u, PJ v => match u, v with
                                           | JCross, JCross | JInner, JInner | JLeft, JLeft | JRight, JRight
                                           | JSemi, JSemi | JAnti, JAnti | JCross, JInner | JInner, JCross => true
                                           | _, _ => false end
                           | _, _ => false end
       | QHashAggregate a1 b1, QHashAggregate a2 b2 => Nat.eqb a1 a2 && Nat.eqb b1 b2
       | QUngroupedAggregate a1, QUngroupedAggregate a2 => Nat.eqb a1 a2
       | QSort a1, QSort a2 => Nat.eqb a1 a2
       | QLimit l1 o1, QLimit l2 o2 =>
           Nat.eqb o1 o2 && match l1, l2 with Some u, Some v => Nat.eqb u v | None, None => true | _, _ => false end
       | _, _ => false
       end)
      && (fix go (x y : list psk) : bool :=
            match x, y with
            | [], [] => true
            | u :: x', v :: y' => psk_eqb u v && go x' y'
            | _, _ => false
            end) ca cb
  end.

(* no LIMIT inside (a LIMIT over an unordered or tied input may pick any rows: only its position at the top of
   the statement is covered by the composition theorem) *)
Fixpoint no_limit (p : lplan) : bool :=
  match p with
  | LScan _ | LSingleRow | LExprList _ => true
  | LFilter _ c | LProject _ c | LProjectAll c | LAggregate _ _ c | LDistinct c | LOrder _ c
  | LMaterializationScan c => no_limit c
  | LCrossJoin l r | LArbitraryJoin _ _ _ _ l r | LComparisonJoin _ _ _ _ l r | LDependentJoin _ _ _ l r
  | LSetop _ l r => no_limit l && no_limit r
  | LLimit _ _ _ => false
  end.
