(* C04 — model of crates/glaredb_core/src/execution/execution_stack.rs (ExecutionStack::pop_next)
   and of the loop around it in partition_pipeline.rs (ExecutablePartitionPipeline::poll_execute).
   Definitions only.  The instruction Vec is a list whose HEAD is the TOP of the stack (Vec's last
   element).  The operator answers (the `Effects` callbacks) are an input: a `poll` carries the
   answer the environment would give to handle_execute and to handle_finalize; pop_next uses the
   one that the popped instruction asks for and reports which call it made. *)
From Coq Require Import List Arith Bool.
Import ListNotations.

(* IAbandon: `AbandonOperator` (commits 131551599, c83fc4e4d): finalize an operator upstream of an exhausted one
   without draining it. *)
Inductive instr := IExec (op : nat) (is_start : bool) | IFin (op : nat) | IAbandon (op : nat).

(* PollExecute / PollFinalize *)
Inductive pexec := XReady | XPending | XNeedsMore | XHasMore | XExhausted.
Inductive pfin := FFinalized | FNeedsDrain | FPending.
(* Result<_>: ROk a, or the operator call itself failed (the `?` in pop_next) *)
Inductive res (A : Type) := ROk (a : A) | RErr.
Arguments ROk {A} a.
Arguments RErr {A}.

Record poll := { on_exec : res pexec; on_fin : res pfin }.

Inductive errk := EOperator | ELastHasMore | ELastExhausted | ELastNeedsDrain.
(* StackControlFlow, plus the two ways pop_next does not return a control flow *)
Inductive control := Continue | Finished | Pending | Error (e : errk) | Panic.
(* which Effects callback was invoked by this pop_next (FinalizeOperator and AbandonOperator both
   call handle_finalize: CFin) *)
Inductive call := CNone | CExec (op : nat) | CFin (op : nat).

(* ntf = next_to_finalize: index of the first operator that has not been finalized yet *)
Record stack := { nops : nat; instrs : list instr; ntf : nat }.

(* ExecutionStack::new: assert_ne!(0, num_operators) *)
Definition new (n : nat) : option stack :=
  if n =? 0 then None else Some {| nops := n; instrs := [IExec 0 true]; ntf := 1 |}.

(* operator_idx == self.num_operators - 1 *)
Definition is_last (s : stack) (op : nat) : bool := op =? nops s - 1.

Definition with_instrs (s : stack) (l : list instr) : stack := {| nops := nops s; instrs := l; ntf := ntf s |}.
Definition with_both (s : stack) (l : list instr) (f : nat) : stack := {| nops := nops s; instrs := l; ntf := f |}.

Definition pop_next (s : stack) (p : poll) : stack * control * call :=
  match instrs s with
  | [] => (s, Finished, CNone)
  | IExec op st :: rest =>
      match on_exec p with
      | RErr => (with_instrs s rest, Error EOperator, CExec op)
      | ROk XReady =>
          let r1 := if st then IExec op st :: rest else rest in
          let r2 := if is_last s op then r1 else IExec (S op) false :: r1 in
          (with_instrs s r2, Continue, CExec op)
      | ROk XPending => (with_instrs s (IExec op st :: rest), Pending, CExec op)
      | ROk XNeedsMore => (with_instrs s rest, Continue, CExec op)
      | ROk XHasMore =>
          let r1 := IExec op st :: rest in
          if is_last s op then (with_instrs s r1, Error ELastHasMore, CExec op)
          else (with_instrs s (IExec (S op) false :: r1), Continue, CExec op)
      | ROk XExhausted =>
          if is_last s op then (with_instrs s [], Error ELastExhausted, CExec op)
          else
            (* push Fin(op+1); push Abandon j for j in (ntf..op).rev() (lowest j ends on top);
               push Exec(op+1) on top.  Since commit c83fc4e4d next_to_finalize is NOT advanced here:
               it advances only when a finalize actually completed, so a later Exhausted that clears
               these instructions re-creates them (and then also abandons `op` itself). *)
            (with_instrs s (IExec (S op) false :: map IAbandon (seq (ntf s) (op - ntf s)) ++ [IFin (S op)]),
             Continue, CExec op)
      end
  | IAbandon op :: rest =>
      match on_fin p with
      | RErr => (with_instrs s rest, Error EOperator, CFin op)
      | ROk FFinalized | ROk FNeedsDrain => (with_both s rest (Nat.max (ntf s) (S op)), Continue, CFin op)
      | ROk FPending => (with_instrs s (IAbandon op :: rest), Pending, CFin op)
      end
  | IFin op :: rest =>
      if op =? 0 then (with_instrs s rest, Panic, CNone)   (* assert_ne!(0, operator_idx) *)
      else
      match on_fin p with
      | RErr => (with_instrs s rest, Error EOperator, CFin op)
      (* if !Pending { next_to_finalize = max(next_to_finalize, op + 1) } happens before the match *)
      | ROk FFinalized =>
          if is_last s op then (with_both s rest (Nat.max (ntf s) (S op)), Finished, CFin op)
          else (with_both s (IFin (S op) :: rest) (Nat.max (ntf s) (S op)), Continue, CFin op)
      | ROk FNeedsDrain =>
          if is_last s op then (with_both s rest (Nat.max (ntf s) (S op)), Error ELastNeedsDrain, CFin op)
          else (with_both s (IExec op true :: rest) (Nat.max (ntf s) (S op)), Continue, CFin op)
      | ROk FPending => (with_instrs s (IFin op :: rest), Pending, CFin op)
      end
  end.

(* ---- ExecutablePartitionPipeline::poll_execute: `profile: Option<_>` is None once the pipeline
   returned Ready(Ok); a later call answers Err("poll_execute called on already completed
   pipeline") without touching the stack.  After Ready(Err) the profile stays Some and the stack
   keeps whatever pop_next left: a later poll_execute continues from there. *)
Record pipeline := { pstack : stack; profile_taken : bool }.
Inductive ppoll := PDone | PErr (e : errk) | PErrCompleted | PPending | PPanic | POutOfFuel.

(* one event per Effects call, in call order *)
Inductive ev := EvExec (op : nat) (a : res pexec) | EvFin (op : nat) (a : res pfin).

Definition ev_of (c : call) (p : poll) : list ev :=
  match c with CNone => [] | CExec op => [EvExec op (on_exec p)] | CFin op => [EvFin op (on_fin p)] end.

(* the loop of poll_execute, fed with a finite list of environment answers (one per pop_next);
   returns the pipeline, the poll result, the unused answers and the Effects calls made. *)
Fixpoint pipe_poll (pl : pipeline) (answers : list poll) : pipeline * ppoll * list poll * list ev :=
  if profile_taken pl then (pl, PErrCompleted, answers, [])
  else
  match answers with
  | [] =>
      (* an empty stack needs no answer: pop_next returns Finished *)
      match instrs (pstack pl) with
      | [] => ({| pstack := pstack pl; profile_taken := true |}, PDone, [], [])
      | _ => (pl, POutOfFuel, [], [])
      end
  | p :: more =>
      match pop_next (pstack pl) p with
      | (s', Continue, c) =>
          match pipe_poll {| pstack := s'; profile_taken := false |} more with
          | (pl', r, rest, evs) => (pl', r, rest, ev_of c p ++ evs)
          end
      | (s', Finished, c) =>
          ({| pstack := s'; profile_taken := true |}, PDone,
           match c with CNone => p :: more | _ => more end, ev_of c p)
      | (s', Pending, c) => ({| pstack := s'; profile_taken := false |}, PPending, more, ev_of c p)
      | (s', Error e, c) => ({| pstack := s'; profile_taken := false |}, PErr e, more, ev_of c p)
      | (s', Panic, c) => ({| pstack := s'; profile_taken := false |}, PPanic, more, ev_of c p)
      end
  end.

(* Run a whole script through pop_next (used by the correspondence driver): one line per step *)
Fixpoint run_script (s : stack) (script : list poll) : list (control * call) :=
  match script with
  | [] => []
  | p :: more => match pop_next s p with (s', c, k) => (c, k) :: run_script s' more end
  end.
