(* Session state machine and parser recursion depth (topic `session`, C15).  Executable definitions only.

   crates/glaredb_core/src/engine/session.rs      Session::{prepare, bind, bind_prepared, plan_intermediate, execute}
   crates/glaredb_core/src/engine/single_user.rs  SingleUserSession::query = parse; prepare(""); bind("",""); execute("")
   crates/glaredb_parser/src/parser.rs, ast/expr.rs  Expr::parse_subexpr / parse_prefix ( '(' -> parse_expr -> ')' )

   Observations transcribed here:
   * a parse error returns before the session is touched;
   * `prepare` only replaces the entry of the statement map; `bind` inserts a portal only when planning succeeded;
     `execute` removes the portal before running it;
   * SET / RESET mutate `self.config` DURING PLANNING (plan_intermediate: `self.config.set_from_scalar(..)?` followed only
     by planning the constant SINGLE_ROW), so the mutation is the last fallible action of a SET statement;
   * every other statement mutates the catalog only inside an operator (create / drop execute as pipelines), i.e. after
     parse, bind and plan have succeeded, and the operator's catalog call is its single effect. *)
From Coq Require Import NArith List Bool.
Import ListNotations.
Open Scope N_scope.

(* ------------------------------------------------------------------ session state *)
Record state := mk_state {
  s_tables : list N;                 (* names in the temp catalog *)
  s_settings : list (N * N);         (* session variables that differ from their defaults *)
  s_prepared : option N;             (* statement text id under the unnamed prepared statement *)
  s_portal : option N }.             (* unnamed portal *)

Inductive stmt :=
| StSet (k v : N)
| StReset (k : N)
| StResetAll
| StCreate (t : N)          (* CREATE TEMP TABLE t ..  (also CREATE .. AS: the operator creates, then the insert runs) *)
| StDrop (t : N)
| StOther.                  (* queries, INSERT, EXPLAIN, SHOW, DESCRIBE: no catalog / settings effect *)

(* the places where a statement can fail, in execution order *)
Inductive fail_point :=
| FParse                    (* parser::parse *)
| FBind                     (* resolve / bind: unknown names, ill-typed expressions *)
| FPlan                     (* logical / physical planning, optimizer; for SET: set_from_scalar rejects the value *)
| FExecBefore.              (* inside a pipeline, before the operator's catalog call (e.g. a cast error on the k-th row) *)

Fixpoint mem (x : N) (l : list N) : bool :=
  match l with [] => false | y :: r => (x =? y) || mem x r end.
Fixpoint remove_name (x : N) (l : list N) : list N :=
  match l with [] => [] | y :: r => if x =? y then remove_name x r else y :: remove_name x r end.
Fixpoint unset (k : N) (l : list (N * N)) : list (N * N) :=
  match l with [] => [] | (k', v) :: r => if k =? k' then unset k r else (k', v) :: unset k r end.

(* the catalog / settings effect of a statement that runs to completion; None = it fails by itself
   (duplicate table, unknown table): state unchanged *)
Definition effect (s : state) (st : stmt) : option (list N * list (N * N)) :=
  match st with
  | StSet k v => Some (s_tables s, (k, v) :: unset k (s_settings s))
  | StReset k => Some (s_tables s, unset k (s_settings s))
  | StResetAll => Some (s_tables s, [])
  | StCreate t => if mem t (s_tables s) then None else Some (t :: s_tables s, s_settings s)
  | StDrop t => if mem t (s_tables s) then Some (remove_name t (s_tables s), s_settings s) else None
  | StOther => Some (s_tables s, s_settings s)
  end.

(* query(sql) with text id `id`: parse; prepare(""); bind("", ""); execute("").
   fail = Some p: the statement fails at p.  Result: new state and ok flag. *)
Definition exec (s : state) (id : N) (st : stmt) (fail : option fail_point) : state * bool :=
  match fail with
  | Some FParse => (s, false)                                                  (* nothing touched *)
  | Some FBind | Some FPlan =>
      (mk_state (s_tables s) (s_settings s) (Some id) (s_portal s), false)    (* prepared replaced, no portal inserted *)
  | Some FExecBefore =>
      (mk_state (s_tables s) (s_settings s) (Some id) None, false)            (* portal inserted, removed by execute *)
  | None =>
      match effect s st with
      | Some (tabs, sets) => (mk_state tabs sets (Some id) None, true)
      | None =>
          match st with
          | StSet _ _ | StReset _ | StResetAll => (mk_state (s_tables s) (s_settings s) (Some id) (s_portal s), false)
          | _ => (mk_state (s_tables s) (s_settings s) (Some id) None, false)
          end
      end
  end.

(* what a probe can see *)
Definition visible (s : state) : list N * list (N * N) := (s_tables s, s_settings s).

Fixpoint run (s : state) (script : list (N * stmt * option fail_point)) : state :=
  match script with
  | [] => s
  | (id, st, f) :: r => run (fst (exec s id st f)) r
  end.

(* ------------------------------------------------------------------ parser recursion depth *)
Inductive token := TSelect | TLParen | TRParen | TNum | TOther | TSemi.

(* Expr::parse_subexpr -> parse_prefix: on '(' the parser calls parse_expr recursively and then expects ')'.
   The native recursion depth reached on a token list = the deepest parenthesis nesting of a prefix. *)
Fixpoint depth_go (toks : list token) (cur mx : nat) : nat :=
  match toks with
  | [] => mx
  | TLParen :: r => depth_go r (S cur) (Nat.max mx (S cur))
  | TRParen :: r => depth_go r (Nat.pred cur) mx
  | _ :: r => depth_go r cur mx
  end.
Definition depth_needed (toks : list token) : nat := depth_go toks 0 0.

(* SELECT (((( 1 )))) ; *)
Definition nested (n : nat) : list token :=
  TSelect :: repeat TLParen n ++ TNum :: repeat TRParen n ++ [TSemi].
