(* C04 — the nested-loop join barrier (execution/operators/nested_loop_join/mod.rs): two counters
   under one mutex (remaining_build_inputs, remaining_probe_inputs), ONE waker set (probe_wakers) used
   for both waits, phases build -> probe -> left drain (LEFT / SEMI / ANTI / MARK / FULL joins).
   Definitions only; every step is one critical section of `OperatorStateInner`.

   Build partition:  NColl (poll_push) -> NBDone (poll_finalize_push: [lock] remaining_build_inputs -= 1;
                     if 0 { probe_wakers.wake_all(); init left_matches })
   Probe partition (state.build_complete, state.draining_left + where it is):
     NProbe      build_complete = false, draining_left = false, runnable: poll_execute locks and tests
                 remaining_build_inputs > 0; or (empty input) poll_finalize_execute directly
     NParkB d    stored in probe_wakers waiting for the build side; d = draining_left
     NDrainB     draining_left = true (finalized early), build_complete = false, runnable
     NScan       build_complete = true: probes its batches and RECORDS MATCHES in left_matches
     NChk        finalized (remaining_probe_inputs -= 1; if 0 wake_all; NeedsDrain), draining_left,
                 build_complete: next poll_execute locks and tests the drain condition
     NParkD      stored in probe_wakers waiting for the drain condition
     NDraining   emits the build rows that have no match (parallel_scan of `collected` + left_matches)
     NPDone      Exhausted
   `wob` = the drain condition tests remaining_build_inputs instead of remaining_probe_inputs (a
   variant; the source tests remaining_probe_inputs: wob = false). *)
From Coq Require Import List Arith Bool.
From GV Require Import lib.Lts.
Import ListNotations.

Inductive nbph := NColl | NBDone | NBErr.
Inductive nph := NProbe | NParkB (d : bool) | NDrainB | NScan | NChk | NParkD | NDraining | NPDone | NPErr.

Record nst := { nbs : list nbph; nps : list nph; rem_build : nat; rem_probe : nat }.

(* probe_wakers.wake_all(): one set for every kind of waiting prober *)
Definition nwake (p : nph) : nph :=
  match p with NParkB false => NProbe | NParkB true => NDrainB | NParkD => NChk | q => q end.

Definition build_pollable (p : nph) : bool := match p with NProbe | NParkB false => true | _ => false end.
Definition build_pollable_d (p : nph) : bool := match p with NDrainB | NParkB true => true | _ => false end.
Definition drain_pollable (p : nph) : bool := match p with NChk | NParkD => true | _ => false end.
Definition can_fin (p : nph) : bool := match p with NProbe | NScan => true | _ => false end.
(* the phase after poll_finalize_execute *)
Definition after_fin (p : nph) : nph := match p with NProbe => NDrainB | _ => NChk end.
Definition drain_counter (wob : bool) (s : nst) : nat := if wob then rem_build s else rem_probe s.

Inductive nstep (wob : bool) : nst -> nst -> Prop :=
(* poll_finalize_push *)
| n_build_last i s :
    nth_error (nbs s) i = Some NColl -> rem_build s = 1 ->
    nstep wob s {| nbs := upd (nbs s) i NBDone; nps := map nwake (nps s); rem_build := 0; rem_probe := rem_probe s |}
| n_build i s :
    nth_error (nbs s) i = Some NColl -> 1 < rem_build s ->
    nstep wob s {| nbs := upd (nbs s) i NBDone; nps := nps s; rem_build := rem_build s - 1; rem_probe := rem_probe s |}
| n_build_err i s :
    nth_error (nbs s) i = Some NColl -> rem_build s = 0 ->
    nstep wob s {| nbs := upd (nbs s) i NBErr; nps := nps s; rem_build := rem_build s; rem_probe := rem_probe s |}
(* poll_execute, !build_complete: [lock] remaining_build_inputs > 0 ? store waker, Pending : build_complete = true *)
| n_wait_build i p s :
    nth_error (nps s) i = Some p -> build_pollable p = true -> 0 < rem_build s ->
    nstep wob s {| nbs := nbs s; nps := upd (nps s) i (NParkB false); rem_build := rem_build s; rem_probe := rem_probe s |}
| n_build_seen i p s :
    nth_error (nps s) i = Some p -> build_pollable p = true -> rem_build s = 0 ->
    nstep wob s {| nbs := nbs s; nps := upd (nps s) i NScan; rem_build := rem_build s; rem_probe := rem_probe s |}
| n_wait_build_d i p s :
    nth_error (nps s) i = Some p -> build_pollable_d p = true -> 0 < rem_build s ->
    nstep wob s {| nbs := nbs s; nps := upd (nps s) i (NParkB true); rem_build := rem_build s; rem_probe := rem_probe s |}
| n_build_seen_d i p s :
    nth_error (nps s) i = Some p -> build_pollable_d p = true -> rem_build s = 0 ->
    nstep wob s {| nbs := nbs s; nps := upd (nps s) i NChk; rem_build := rem_build s; rem_probe := rem_probe s |}
(* poll_finalize_execute: [lock] remaining_probe_inputs -= 1; draining_left = true; if 0 wake_all; NeedsDrain *)
| n_fin_last i p s :
    nth_error (nps s) i = Some p -> can_fin p = true -> rem_probe s = 1 ->
    nstep wob s {| nbs := nbs s; nps := upd (map nwake (nps s)) i (after_fin p); rem_build := rem_build s; rem_probe := 0 |}
| n_fin i p s :
    nth_error (nps s) i = Some p -> can_fin p = true -> 1 < rem_probe s ->
    nstep wob s {| nbs := nbs s; nps := upd (nps s) i (after_fin p); rem_build := rem_build s; rem_probe := rem_probe s - 1 |}
| n_fin_err i p s :
    nth_error (nps s) i = Some p -> can_fin p = true -> rem_probe s = 0 ->
    nstep wob s {| nbs := nbs s; nps := upd (nps s) i NPErr; rem_build := rem_build s; rem_probe := rem_probe s |}
(* poll_execute, draining_left: [lock] counter > 0 ? store waker, Pending : drain *)
| n_wait_drain i p s :
    nth_error (nps s) i = Some p -> drain_pollable p = true -> 0 < drain_counter wob s ->
    nstep wob s {| nbs := nbs s; nps := upd (nps s) i NParkD; rem_build := rem_build s; rem_probe := rem_probe s |}
| n_drain_start i p s :
    nth_error (nps s) i = Some p -> drain_pollable p = true -> drain_counter wob s = 0 ->
    nstep wob s {| nbs := nbs s; nps := upd (nps s) i NDraining; rem_build := rem_build s; rem_probe := rem_probe s |}
| n_drain_done i s :
    nth_error (nps s) i = Some NDraining ->
    nstep wob s {| nbs := nbs s; nps := upd (nps s) i NPDone; rem_build := rem_build s; rem_probe := rem_probe s |}.

Definition ninit (nb np : nat) : nst :=
  {| nbs := repeat NColl nb; nps := repeat NProbe np; rem_build := nb; rem_probe := np |}.

Inductive nreach (wob : bool) (nb np : nat) : nst -> Prop :=
| nr_init : nreach wob nb np (ninit nb np)
| nr_step s s' : nreach wob nb np s -> nstep wob s s' -> nreach wob nb np s'.

Definition is_ncoll p := match p with NColl => true | _ => false end.
Definition is_nbdone p := match p with NBDone => true | _ => false end.
Definition is_nberr p := match p with NBErr => true | _ => false end.
Definition is_nprobe p := match p with NProbe => true | _ => false end.
Definition is_nparkb0 p := match p with NParkB false => true | _ => false end.
Definition is_nparkb1 p := match p with NParkB true => true | _ => false end.
Definition is_ndrainb p := match p with NDrainB => true | _ => false end.
Definition is_nscan p := match p with NScan => true | _ => false end.
Definition is_nchk p := match p with NChk => true | _ => false end.
Definition is_nparkd p := match p with NParkD => true | _ => false end.
Definition is_ndraining p := match p with NDraining => true | _ => false end.
Definition is_npdone p := match p with NPDone => true | _ => false end.
Definition is_nperr p := match p with NPErr => true | _ => false end.

(* partitions that can still record a match in left_matches (now or later) *)
Definition can_still_match (s : nst) : nat :=
  count is_nprobe (nps s) + count is_nparkb0 (nps s) + count is_nscan (nps s).
(* partitions that have started (or finished) emitting drain rows *)
Definition drain_started (s : nst) : nat := count is_ndraining (nps s) + count is_npdone (nps s).
Definition nall_done (s : nst) : Prop :=
  count is_nbdone (nbs s) = length (nbs s) /\ count is_npdone (nps s) = length (nps s).
