(* LIKE: (a) the matcher the engine builds (functions/scalar/builtin/string/like.rs,
   `like_pattern_to_regex` + regex::Regex::is_match), (b) the declarative semantics,
   (c) the optimizer's rewrite of constant patterns (optimizer/expr_rewrite/like.rs).
   Strings and patterns are code-point lists.  Definitions only. *)
From Coq Require Import NArith List Bool.
From GV Require Import model.Utf8.
Import ListNotations.
Open Scope N_scope.

Definition PCT : N := 37.   (* % *)
Definition USC : N := 95.   (* _ *)
Definition BSL : N := 92.   (* \ *)
Definition NL  : N := 10.   (* \n *)

Inductive ltok := TLit (c : N) | TOne | TMany.

(* the `while let Some(c) = chars.next()` walk of like_pattern_to_regex with escape_char = '\':
   escape + next char -> literal next char; escape at the very end -> literal escape;
   '%' -> ".*", '_' -> ".", anything else -> regex::escape(c), i.e. the literal c *)
Fixpoint like_tokens (pat : list N) : list ltok :=
  match pat with
  | [] => []
  | c :: r =>
    if c =? BSL then
      match r with
      | [] => [TLit BSL]
      | x :: r' => TLit x :: like_tokens r'
      end
    else if c =? PCT then TMany :: like_tokens r
    else if c =? USC then TOne :: like_tokens r
    else TLit c :: like_tokens r
  end.

(* language of  ^ t1 t2 .. tn $  where a literal matches itself, `.` matches one code point x
   with `dot x`, `.*` any sequence of such code points *)
Fixpoint tmatch (dot : N -> bool) (ts : list ltok) (s : list N) : bool :=
  match ts with
  | [] => match s with [] => true | _ => false end
  | TLit c :: ts' => match s with x :: s' => (x =? c) && tmatch dot ts' s' | [] => false end
  | TOne :: ts' => match s with x :: s' => dot x && tmatch dot ts' s' | [] => false end
  | TMany :: ts' =>
    (fix star (s : list N) : bool :=
       tmatch dot ts' s || match s with x :: s' => dot x && star s' | [] => false end) s
  end.

(* (a) the regex is built as "(?s)^...$": with the `s` flag `.` is any Unicode scalar value,
   '\n' included; `^`/`$` are start/end of the haystack (no `m` flag) *)
Definition dot_regex (x : N) : bool := true.
Definition like_regex (pat s : list N) : bool := tmatch dot_regex (like_tokens pat) s.

(* (b) declarative: `_` any one character, `%` any sequence, `\x` the character x *)
Inductive LikeRel : list ltok -> list N -> Prop :=
| LR_nil : LikeRel [] []
| LR_lit c ts s : LikeRel ts s -> LikeRel (TLit c :: ts) (c :: s)
| LR_one x ts s : LikeRel ts s -> LikeRel (TOne :: ts) (x :: s)
| LR_many ts s1 s2 : LikeRel ts s2 -> LikeRel (TMany :: ts) (s1 ++ s2).
Definition dot_any (x : N) : bool := true.
Definition like_spec (pat s : list N) : bool := tmatch dot_any (like_tokens pat) s.

(* (c) optimizer/expr_rewrite/like.rs.  The Rust works on bytes (`as_bytes()[0]`, `s.len()`,
   `find` -> byte index); '%', '_' and '\' are ASCII and an ASCII byte never occurs inside a
   multi-byte sequence, so the same tests are written here on code points (the correspondence
   check runs patterns with multi-byte characters around the wildcards). *)
Definition has (c : N) (l : list N) : bool := existsb (N.eqb c) l.
Definition last_is (c : N) (l : list N) : bool :=
  match rev l with x :: _ => x =? c | [] => false end.

(* s.find(c): split at the first occurrence *)
Fixpoint split_first (c : N) (l : list N) : option (list N * list N) :=
  match l with
  | [] => None
  | x :: r => if x =? c then Some ([], r)
              else match split_first c r with Some (a, b) => Some (x :: a, b) | None => None end
  end.

Definition can_str_compare (p : list N) : bool := negb (has PCT p) && negb (has USC p).

Definition is_prefix_pattern (p : list N) : bool :=
  match split_first PCT p with
  | None => false
  | Some (pre, post) =>
    if has USC p then false
    else if negb (match post with [] => true | _ => false end) then false   (* pat_pos != len-1 *)
    else if last_is BSL pre then false                                        (* '%' escaped *)
    else true
  end.

Definition is_suffix_pattern (p : list N) : bool :=
  match p with
  | [] => false
  | c :: r => if negb (c =? PCT) then false
              else if has PCT r || has USC p then false else true
  end.

Definition is_contains_pattern (p : list N) : bool :=
  match p with
  | [] => false
  | c :: r =>
    match rev r with
    | [] => false                                   (* s.len() < 2 *)
    | l :: m =>
      if negb (c =? PCT) then false
      else if negb (l =? PCT) then false
      else let sub := rev m in
           if last_is BSL sub then false
           else if has PCT sub || has USC sub then false else true
    end
  end.

(* str::trim_matches('%') *)
Fixpoint trim_start (c : N) (l : list N) : list N :=
  match l with [] => [] | x :: r => if x =? c then trim_start c r else l end.
Definition trim_matches (c : N) (l : list N) : list N :=
  rev (trim_start c (rev (trim_start c l))).

Inductive rewrite :=
| REq (p : list N) | RStarts (p : list N) | REnds (p : list N) | RContains (p : list N)
| RKeep (pat : list N).

Definition classify (pat : list N) : rewrite :=
  if has BSL pat then RKeep pat           (* `if pattern.contains('\\') { return Ok(()) }` *)
  else if can_str_compare pat then REq pat
  else if is_prefix_pattern pat then RStarts (trim_matches PCT pat)
  else if is_suffix_pattern pat then REnds (trim_matches PCT pat)
  else if is_contains_pattern pat then RContains (trim_matches PCT pat)
  else RKeep pat.

Definition rewrite_sem (r : rewrite) (s : list N) : bool :=
  match r with
  | REq p => list_eqb s p
  | RStarts p => starts_with s p
  | REnds p => ends_with s p
  | RContains p => contains s p
  | RKeep pat => like_regex pat s
  end.

Definition no_bsl (pat : list N) : bool := negb (has BSL pat).
Definition no_nl (s : list N) : bool := negb (has NL s).

(* The definitions as they were before the fixes 243b792b2 (rewrite skipped for patterns with the
   escape character) and 41580d7d1 (regex built with `(?s)`): kept only for the regression
   witnesses in proofs/LikeProofs.v. *)
Module Old.
  Definition dot_regex (x : N) : bool := negb (x =? NL).
  Definition like_regex (pat s : list N) : bool := tmatch dot_regex (like_tokens pat) s.
  Definition classify (pat : list N) : rewrite :=
    if can_str_compare pat then REq pat
    else if is_prefix_pattern pat then RStarts (trim_matches PCT pat)
    else if is_suffix_pattern pat then REnds (trim_matches PCT pat)
    else if is_contains_pattern pat then RContains (trim_matches PCT pat)
    else RKeep pat.
  Definition rewrite_sem (r : rewrite) (s : list N) : bool :=
    match r with
    | REq p => list_eqb s p
    | RStarts p => starts_with s p
    | REnds p => ends_with s p
    | RContains p => contains s p
    | RKeep pat => like_regex pat s
    end.
End Old.
