(* C18 — the type a statement announces, for the SQL core of model/Sql.v extended with integer widths
   (definitions only).  What the binder of the engine does for this core:
   * an integer literal is Int32 when it fits, else Int64 (wider literals are decimals: untyped here);
   * arithmetic: int op int keeps the wider operand type; an integer LITERAL operand first takes the other
     operand's type when its value fits it (try_refine_literal), otherwise it counts with its own type;
     NULL op int has the int's type, NULL op NULL is Int32;
   * comparisons, IS [NOT] DISTINCT FROM, AND/OR/NOT, IS NULL, IN, EXISTS: Boolean;
   * CASE: the THEN types must be equal, untyped NULL THENs are ignored ("Case expression produces two different
     types" otherwise) and give the result type; the ELSE branch is cast to it (whatever its type: the reference
     evaluation has no such cast, so [type_of] types a CASE only when ELSE already has the result type or is an
     untyped NULL); all THENs NULL makes the result type Null; no literal refinement inside CASE;
   * aggregates: count -> Int64, sum(int) -> Int64, min/max keep the input type, bool_and/bool_or -> Boolean.
   `EArith`/`ENeg` carry the width the reference evaluation range-checks with; [type_of] demands that this
   annotation is the announced width ([annotate] fills it in). *)
From Coq Require Import NArith ZArith List Bool.
From GV Require Import lib.Bytes model.Sql.
Import ListNotations.

Inductive ty := TNull | TBool | TInt (w : N) | TStr.

Definition ty_eqb (a b : ty) : bool :=
  match a, b with
  | TNull, TNull | TBool, TBool | TStr, TStr => true
  | TInt x, TInt y => N.eqb x y
  | _, _ => false
  end.

(* a value inhabits a type; NULL inhabits every type *)
Definition has_type (v : value) (t : ty) : Prop :=
  match v, t with
  | VNull, _ => True
  | VBool _, TBool => True
  | VStr _, TStr => True
  | VInt z, TInt w => in_range w z = true
  | _, _ => False
  end.

Definition lit_type (v : value) : option ty :=
  match v with
  | VNull => Some TNull
  | VBool _ => Some TBool
  | VStr _ => Some TStr
  | VInt z => if in_range 32 z then Some (TInt 32) else if in_range 64 z then Some (TInt 64) else None
  end.

(* typing context: one list of column types per enclosing block (same shape as [env]) *)
Definition tenv := list (list ty).

(* CASE branch unification *)
Definition unify_ty (a b : ty) : option ty :=
  match a, b with
  | TNull, t | t, TNull => Some t
  | _, _ => if ty_eqb a b then Some a else None
  end.

Definition boolish (t : ty) : bool := match t with TBool | TNull => true | _ => false end.

(* the width an operand contributes to an arithmetic operator, given the other operand's type *)
Definition eff_width (e : expr) (t other : ty) : option N :=
  match t with
  | TInt w =>
    match e, other with
    | EConst (VInt z), TInt wo => Some (if in_range wo z then wo else w)     (* literal refinement *)
    | _, _ => Some w
    end
  | TNull => Some 0
  | _ => None
  end.
Definition arith_width (a b : expr) (ta tb : ty) : option N :=
  match eff_width a ta tb, eff_width b tb ta with
  | Some wa, Some wb => Some (if (N.eqb wa 0 && N.eqb wb 0)%bool then 32%N else N.max wa wb)
  | _, _ => None
  end.

Definition comparable (a b : ty) : bool :=
  match a, b with
  | TNull, _ | _, TNull => true
  | TBool, TBool | TStr, TStr | TInt _, TInt _ => true
  | _, _ => false
  end.

Fixpoint type_of (te : tenv) (e : expr) {struct e} : option ty :=
  match e with
  | EConst v => lit_type v
  | ECol depth idx => match nth_error te depth with Some r => nth_error r idx | None => None end
  | ECmp _ a b | EDistinct _ a b =>
    match type_of te a, type_of te b with
    | Some ta, Some tb => if comparable ta tb then Some TBool else None
    | _, _ => None
    end
  | EAnd a b | EOr a b =>
    match type_of te a, type_of te b with
    | Some ta, Some tb => if (boolish ta && boolish tb)%bool then Some TBool else None
    | _, _ => None
    end
  | ENot a => match type_of te a with Some ta => if boolish ta then Some TBool else None | None => None end
  | EIsNull _ a => match type_of te a with Some _ => Some TBool | None => None end
  | EArith op w a b =>
    match type_of te a, type_of te b with
    | Some ta, Some tb =>
      match arith_width a b ta tb with
      | Some w' => if N.eqb w w' then Some (TInt w) else None
      | None => None
      end
    | _, _ => None
    end
  | ENeg w a => match type_of te a with Some (TInt wa) => if N.eqb w wa then Some (TInt w) else None | _ => None end
  | ECase branches els =>
    (* CaseExpr::try_new: the non-NULL THEN types must be equal and give the result type; the ELSE branch is
       CAST to it by the engine - typed here only when that cast is the identity or casts an untyped NULL *)
    match (fix go (bs : list (expr * expr)) : option ty :=
             match bs with
             | [] => Some TNull
             | (c, t) :: bs' =>
               match type_of te c, type_of te t, go bs' with
               | Some tc, Some tb, Some tr => if boolish tc then unify_ty tb tr else None
               | _, _, _ => None
               end
             end) branches, type_of te els with
    | Some tr, Some TNull => Some tr
    | Some tr, Some tel => if ty_eqb tr tel then Some tr else None
    | _, _ => None
    end
  | EInList _ a es =>
    match type_of te a with
    | Some ta =>
      if forallb (fun x => match type_of te x with Some tx => comparable ta tx | None => false end) es
      then Some TBool else None
    | None => None
    end
  | EExists _ _ => Some TBool
  | EInSub _ a _ => match type_of te a with Some _ => Some TBool | None => None end
  | EScalar _ => None            (* needs the schema of a query: not typed by this model *)
  end.

(* fill in the width annotations of EArith / ENeg with the announced widths (0 where the operands are untyped) *)
Fixpoint annotate (te : tenv) (e : expr) {struct e} : expr :=
  match e with
  | ECmp op a b => ECmp op (annotate te a) (annotate te b)
  | EDistinct n a b => EDistinct n (annotate te a) (annotate te b)
  | EAnd a b => EAnd (annotate te a) (annotate te b)
  | EOr a b => EOr (annotate te a) (annotate te b)
  | ENot a => ENot (annotate te a)
  | EIsNull n a => EIsNull n (annotate te a)
  | EArith op _ a b =>
    let a' := annotate te a in let b' := annotate te b in
    let w := match type_of te a', type_of te b' with
             | Some ta, Some tb => match arith_width a' b' ta tb with Some w => w | None => 0%N end
             | _, _ => 0%N
             end in
    EArith op w a' b'
  | ENeg _ a =>
    let a' := annotate te a in
    ENeg (match type_of te a' with Some (TInt wa) => wa | _ => 0%N end) a'
  | ECase branches els =>
    ECase ((fix go (bs : list (expr * expr)) : list (expr * expr) :=
              match bs with [] => [] | (c, t) :: bs' => (annotate te c, annotate te t) :: go bs' end) branches)
          (annotate te els)
  | EInList n a es =>
    EInList n (annotate te a) ((fix go (l : list expr) : list expr :=
                                  match l with [] => [] | x :: l' => annotate te x :: go l' end) es)
  | EInSub n a q => EInSub n (annotate te a) q
  | other => other
  end.

(* aggregate result types *)
Definition agg_type (f : aggfn) (targ : ty) : option ty :=
  match f with
  | ACountStar | ACount => Some (TInt 64)
  | ASum => match targ with TInt w => if N.leb w 64 then Some (TInt 64) else None | TNull => Some (TInt 64) | _ => None end
  | AMin | AMax => Some targ
  | ABoolAnd | ABoolOr => if boolish targ then Some TBool else None
  end.

Definition env_ok (en : env) (te : tenv) : Prop := Forall2 (Forall2 has_type) en te.
