(* Model of the k-way merge of sorted runs as a tree of two-way merges, and of
   the top-k variant that knows the limit hint.  Definitions only; proofs live
   in proofs/MergeProofs.v. *)
From Coq Require Import List Bool.
From GV Require Import lib.Bytes model.SortKey model.SortSpec.
Import ListNotations.

(* deterministic two-way merge: take from `a` when its head is <= the head of `b` *)
Fixpoint merge (cs : list kcol) (a : list srow) : list srow -> list srow :=
  match a with
  | [] => fun b => b
  | x :: a' =>
      fix merge_b (b : list srow) : list srow :=
        match b with
        | [] => a
        | y :: b' => if sle cs x y then x :: merge cs a' b else y :: merge_b b'
        end
  end.

(* any pairing order of the merge queue is a binary tree over the runs *)
Inductive mtree :=
| Run (l : list srow)
| Node (l r : mtree).

Fixpoint merge_tree (cs : list kcol) (t : mtree) : list srow :=
  match t with
  | Run l => l
  | Node l r => merge cs (merge_tree cs l) (merge_tree cs r)
  end.

(* all rows, run after run *)
Fixpoint runs (t : mtree) : list srow :=
  match t with
  | Run l => l
  | Node l r => runs l ++ runs r
  end.

(* every leaf run satisfies P *)
Fixpoint all_runs (P : list srow -> Prop) (t : mtree) : Prop :=
  match t with
  | Run l => P l
  | Node l r => all_runs P l /\ all_runs P r
  end.

(* the merge that knows k = limit + offset: every input is cut to k rows, and so is the output *)
Definition merge_hint (cs : list kcol) (k : nat) (a b : list srow) : list srow :=
  firstn k (merge cs (firstn k a) (firstn k b)).

Fixpoint merge_tree_hint (cs : list kcol) (k : nat) (t : mtree) : list srow :=
  match t with
  | Run l => firstn k l
  | Node l r => merge_hint cs k (merge_tree_hint cs k l) (merge_tree_hint cs k r)
  end.
