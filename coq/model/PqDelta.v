(* Model of column/encoding/{delta_binary_packed,delta_length_byte_array,delta_byte_array,
   byte_stream_split,plain}.rs: the DELTA_BINARY_PACKED value decoder WITH its resumable
   state (faithful to `out[0] = self.prev_value` at the start of every `read`), and the
   specification-side encoders of every value encoding.  Executable definitions only. *)
From Coq Require Import NArith ZArith List Bool.
From GV Require Import model.PqBits.
Import ListNotations.
Open Scope N_scope.

(* ---------- values and physical types ---------- *)
Inductive ptype := PBool | PInt32 | PInt64 | PInt96 | PFloat | PDouble | PByteArray | PFlba (len : N).
(* numbers are bit patterns of the physical width; byte arrays are byte lists *)
Inductive pval := VNum (n : N) | VBytes (bs : list N).

Fixpoint bytes_eqb (a b : list N) : bool :=
  match a, b with
  | [], [] => true
  | x :: a', y :: b' => (x =? y) && bytes_eqb a' b'
  | _, _ => false
  end.
Definition pval_eqb (a b : pval) : bool :=
  match a, b with
  | VNum x, VNum y => x =? y
  | VBytes x, VBytes y => bytes_eqb x y
  | _, _ => false
  end.
Definition pnum (v : pval) : N := match v with VNum n => n | VBytes _ => 0 end.
Definition pbytes (v : pval) : list N := match v with VBytes b => b | VNum _ => [] end.

Definition type_id (t : ptype) : Z :=
  match t with PBool => 0 | PInt32 => 1 | PInt64 => 2 | PInt96 => 3 | PFloat => 4 | PDouble => 5
             | PByteArray => 6 | PFlba _ => 7 end%Z.
Definition num_bytes (t : ptype) : nat :=
  match t with PInt32 | PFloat => 4 | PInt64 | PDouble => 8 | PInt96 => 12 | _ => 0 end%nat.

(* ---------- PLAIN ---------- *)
Definition plain_encode (t : ptype) (vals : list pval) : list N :=
  match t with
  | PBool => bitpack 1 (map pnum vals)
  | PByteArray => flat_map (fun v => le_bytes 4 (N.of_nat (length (pbytes v))) ++ pbytes v) vals
  | PFlba _ => flat_map pbytes vals
  | _ => flat_map (fun v => le_bytes (num_bytes t) (pnum v)) vals
  end.

(* ---------- BYTE_STREAM_SPLIT ---------- *)
Definition bss_encode (k : nat) (vals : list N) : list N :=
  flat_map (fun i => map (fun v => (v / 256 ^ N.of_nat i) mod 256) vals) (seq 0 k).

(* ---------- DELTA_BINARY_PACKED: spec encoder ---------- *)
Fixpoint deltas (bits : N) (prev : N) (vals : list N) : list Z :=
  match vals with
  | [] => []
  | v :: r => to_signed bits (of_signed bits (Z.of_N v - Z.of_N prev)) :: deltas bits v r
  end.
Fixpoint chunks {A} (fuel : nat) (k : nat) (xs : list A) : list (list A) :=
  match fuel with
  | O => []
  | S f => match xs with [] => [] | _ => firstn k xs :: chunks f k (skipn k xs) end
  end.
Definition zmin_list (d : Z) (xs : list Z) : Z := fold_left Z.min xs d.
Definition nmax_list (xs : list N) : N := fold_left N.max xs 0.

(* one block: <zigzag min delta> <widths, one byte per miniblock> <miniblocks>; a needed
   miniblock is zero padded to `per` values, an unneeded one has width 0 and no data *)
Definition dbp_block (bits : N) (mbc per : nat) (blk : list Z) : list N :=
  let mn := zmin_list (hd 0%Z blk) blk in
  let rel := map (fun d => of_signed bits (d - mn)) blk in
  let mbs := chunks mbc per rel in
  let widths := map (fun mb => N.size (nmax_list mb)) mbs in
  vlq_encode (zigzag_encode mn)
  ++ widths ++ repeat 0 (mbc - length mbs)
  ++ flat_map (fun mb => bitpack (N.size (nmax_list mb)) (mb ++ repeat 0 (per - length mb))) mbs.

Definition dbp_encode (bits : N) (block mbc : N) (vals : list N) : list N :=
  let first := hd 0 vals in
  let ds := deltas bits first (tl vals) in
  let per := N.to_nat (block / mbc) in
  vlq_encode block ++ vlq_encode mbc ++ vlq_encode (N.of_nat (length vals))
  ++ vlq_encode (zigzag_encode (to_signed bits first))
  ++ flat_map (dbp_block bits (N.to_nat mbc) per) (chunks (length ds) (N.to_nat block) ds).

(* ---------- DELTA_BINARY_PACKED: the implementation's decoder ---------- *)
(* crates/glaredb_ext_parquet/src/column/encoding/delta_binary_packed.rs as of commit ec3835a3f:
   `first_value_pending` (the header value is emitted once), the first block is loaded only when
   total_values > 1, try_into_cursor skips padding only for a partially read miniblock. *)
Record dbp := mk_dbp {
  d_buf : list N; d_mbc : N; d_total : N; d_rem : N; d_widths : list N;
  d_mb_idx : N; d_mb_val : N; d_per : N; d_min : N; d_prev : N;
  d_first : bool;                      (* first_value_pending *)
  d_pos : N; d_w : N }.

Definition opt_err {A} (o : option A) : outcome A := match o with Some a => Ok a | None => Err end.
Definition nth_panic (l : list N) (i : N) : outcome N :=
  match nth_error l (N.to_nat i) with Some x => Ok x | None => Panic end.

(* load_next_block *)
Definition dbp_load (bits : N) (s : dbp) : outcome dbp :=
  '(z, buf1) <- vlq_decode (d_buf s) ;;
  mn <- opt_err (from_i64 bits (zigzag_decode z)) ;;
  '(ws, buf2) <- take_bytes (N.to_nat (d_mbc s)) buf1 ;;
  w0 <- nth_panic ws 0 ;;
  Ok (mk_dbp buf2 (d_mbc s) (d_total s) (d_rem s) ws 0 0 (d_per s) mn (d_prev s) (d_first s) 0 w0).

(* try_new: header; the first block only when there is at least one delta *)
Definition dbp_new (bits : N) (buf : list N) : outcome dbp :=
  '(block, b1) <- vlq_decode buf ;;
  '(mbc, b2) <- vlq_decode b1 ;;
  '(total, b3) <- vlq_decode b2 ;;
  '(fz, b4) <- vlq_decode b3 ;;
  first <- opt_err (from_i64 bits (zigzag_decode fz)) ;;
  if mbc =? 0 then Err else            (* `miniblock count is zero` error since 20ef7d280 (was block_size / 0) *)
  let s := mk_dbp b4 mbc total (total - 1) (repeat 0 (N.to_nat mbc)) 0 0 (block / mbc) 0 first (0 <? total) 0 0 in
  if 1 <? total then dbp_load bits s else Ok s.

(* prefix sums of (delta + min_delta + prev), wrapping *)
Fixpoint dbp_accum (bits : N) (mn prev : N) (ds : list N) : list N * N :=
  match ds with
  | [] => ([], prev)
  | d :: r => let v := (d + mn + prev) mod 2 ^ bits in
              let '(vs, last) := dbp_accum bits mn v r in (v :: vs, last)
  end.

(* the `while out_idx < out.len() && self.values_remaining > 0` loop; cap = out.len() - out_idx.
   `values_remaining.checked_sub(1)` fails (error; before c80d6338b: underflow panic) when more deltas are
   unpacked than remain.  Every iteration unpacks at least one delta when values_per_mini_block > 0,
   so fuel = cap suffices (with values_per_mini_block = 0 the real loop never terminates: Err here). *)
Fixpoint dbp_go (bits : N) (fuel : nat) (cap : nat) (s : dbp) : outcome (list N * dbp) :=
  match cap with
  | O => Ok ([], s)
  | S _ =>
    if d_rem s =? 0 then Ok ([], s) else
    match fuel with
    | O => Err
    | S f =>
      s1 <- (if (d_per s <=? d_mb_val s) || (d_mbc s <=? d_mb_idx s) then dbp_load bits s else Ok s) ;;
      s2 <- (if d_mb_val s1 =? 0 then
               w <- nth_panic (d_widths s1) (d_mb_idx s1) ;;
               Ok (mk_dbp (d_buf s1) (d_mbc s1) (d_total s1) (d_rem s1) (d_widths s1) (d_mb_idx s1)
                          (d_mb_val s1) (d_per s1) (d_min s1) (d_prev s1) (d_first s1) 0 w)
             else Ok s1) ;;
      let count := Nat.min cap (N.to_nat (d_per s2 - d_mb_val s2)) in
      '(raw, buf1, pos1) <- bit_unpack bits (d_w s2) count (d_buf s2) (d_pos s2) ;;
      if d_rem s2 <? N.of_nat count then Err else     (* values_remaining.checked_sub(1) since c80d6338b (was an underflow panic) *)
      let '(vs, last) := dbp_accum bits (d_min s2) (d_prev s2) raw in
      let mv := d_mb_val s2 + N.of_nat count in
      let s3 := mk_dbp buf1 (d_mbc s2) (d_total s2) (d_rem s2 - N.of_nat count) (d_widths s2)
                       (if d_per s2 <=? mv then d_mb_idx s2 + 1 else d_mb_idx s2)
                       (if d_per s2 <=? mv then 0 else mv)
                       (d_per s2) (d_min s2) last (d_first s2) pos1 (d_w s2) in
      '(rest, s4) <- dbp_go bits f (cap - count) s3 ;;
      Ok (vs ++ rest, s4)
    end
  end.

Definition dbp_clear_first (s : dbp) : dbp :=
  mk_dbp (d_buf s) (d_mbc s) (d_total s) (d_rem s) (d_widths s) (d_mb_idx s) (d_mb_val s) (d_per s)
         (d_min s) (d_prev s) false (d_pos s) (d_w s).

(* read(out) with out.len() = n; the header value is emitted only while first_value_pending;
   slots not written keep their initial value 0 *)
Definition dbp_read (bits : N) (n : nat) (s : dbp) : outcome (list N * dbp) :=
  match n with
  | O => Ok ([], s)
  | S k =>
      if d_first s then
        '(vs, s') <- dbp_go bits k k (dbp_clear_first s) ;;
        Ok (d_prev s :: vs ++ repeat 0 (k - length vs), s')
      else
        '(vs, s') <- dbp_go bits n n s ;;
        Ok (vs ++ repeat 0 (n - length vs), s')
  end.

(* a sequence of reads on one decoder (one per batch slice of the page) *)
Fixpoint dbp_reads (bits : N) (ns : list nat) (s : dbp) : outcome (list (list N)) :=
  match ns with
  | [] => Ok []
  | n :: r => '(vs, s1) <- dbp_read bits n s ;; rest <- dbp_reads bits r s1 ;; Ok (vs :: rest)
  end.

Definition dbp_decode_split (bits : N) (buf : list N) (ns : list nat) : outcome (list (list N)) :=
  s <- dbp_new bits buf ;; dbp_reads bits ns s.

(* try_into_cursor: skip the unread rest of a partially read miniblock *)
Definition dbp_into_cursor (s : dbp) : outcome (list N) :=
  if (0 <? d_mb_val s) && (d_mb_idx s <? N.of_nat (length (d_widths s))) then
    w <- nth_panic (d_widths s) (d_mb_idx s) ;;
    let rem_vals := d_per s - d_mb_val s in
    if (0 <? w) && (0 <? rem_vals) then
      '(_, rest) <- take_bytes (N.to_nat ((w * rem_vals + 7) / 8)) (d_buf s) ;; Ok rest
    else Ok (d_buf s)
  else Ok (d_buf s).

(* the length prefix of DELTA_LENGTH_BYTE_ARRAY / DELTA_BYTE_ARRAY pages: all lengths in one
   read, then the data cursor *)
Definition dbp_read_lengths (buf : list N) : outcome (list N * list N) :=
  s <- dbp_new 32 buf ;;
  '(lens, s1) <- dbp_read 32 (N.to_nat (d_total s)) s ;;
  rest <- dbp_into_cursor s1 ;;
  Ok (lens, rest).

Fixpoint split_lens (lens : list N) (buf : list N) : outcome (list (list N)) :=
  match lens with
  | [] => Ok []
  | l :: r => '(bs, rest) <- take_bytes (N.to_nat l) buf ;; vs <- split_lens r rest ;; Ok (bs :: vs)
  end.

(* DeltaLengthByteArrayDecoder::try_new + read of every value *)
Definition dlba_decode (buf : list N) : outcome (list (list N)) :=
  '(lens, rest) <- dbp_read_lengths buf ;;
  if fold_left N.add lens 0 mod 2 ^ 32 =? N.of_nat (length rest) then split_lens lens rest else Err.

(* ---------- DELTA_LENGTH_BYTE_ARRAY / DELTA_BYTE_ARRAY: spec encoders ---------- *)
Definition dlba_encode (block mbc : N) (vals : list (list N)) : list N :=
  dbp_encode 32 block mbc (map (fun v => N.of_nat (length v)) vals) ++ concat vals.

Fixpoint common_prefix (a b : list N) : nat :=
  match a, b with
  | x :: a', y :: b' => if x =? y then S (common_prefix a' b') else O
  | _, _ => O
  end.
Fixpoint dba_split (prev : list N) (vals : list (list N)) : list (nat * list N) :=
  match vals with
  | [] => []
  | v :: r => let k := common_prefix prev v in (k, skipn k v) :: dba_split v r
  end.
Definition dba_encode (block mbc : N) (vals : list (list N)) : list N :=
  let ps := dba_split [] vals in
  dbp_encode 32 block mbc (map (fun p => N.of_nat (fst p)) ps)
  ++ dbp_encode 32 block mbc (map (fun p => N.of_nat (length (snd p))) ps)
  ++ flat_map snd ps.

(* sequences of reads on one decoder state (one read per batch slice) *)
Fixpoint rle_reads (tw : N) (ns : list nat) (s : rle) : outcome (list (list N)) :=
  match ns with
  | [] => Ok []
  | n :: r => '(vs, s1) <- rle_read tw n s ;; rest <- rle_reads tw r s1 ;; Ok (vs :: rest)
  end.
Fixpoint unpack_reads (tw w : N) (ns : list nat) (buf : list N) (pos : N) : outcome (list (list N)) :=
  match ns with
  | [] => Ok []
  | n :: r => '(vs, b1, p1) <- bit_unpack tw w n buf pos ;; rest <- unpack_reads tw w r b1 p1 ;; Ok (vs :: rest)
  end.

(* DeltaByteArrayDecoder::try_new + read of every value: value = prefix of the previous value ++ suffix *)
Fixpoint dba_values (prev : list N) (pre suf : list N) (buf : list N) : outcome (list (list N)) :=
  match pre, suf with
  | p :: pre', s :: suf' =>
      if N.of_nat (length buf) <? s then Err else
      '(bs, rest) <- take_bytes (N.to_nat s) buf ;;
      let v := firstn (N.to_nat p) prev ++ bs in
      vs <- dba_values v pre' suf' rest ;; Ok (v :: vs)
  | _, _ => Ok []
  end.
Definition dba_decode (buf : list N) : outcome (list (list N)) :=
  '(pre, r1) <- dbp_read_lengths buf ;;
  '(suf, r2) <- dbp_read_lengths r1 ;;
  if negb (Nat.eqb (length pre) (length suf)) then Err else dba_values [] pre suf r2.

(* ---------- definition levels -> validity and value placement ---------- *)
(* PlainDecoder::read_plain with definitions: a level below `max` marks a NULL, any other level
   consumes the next decoded value; returns the rows and the values left for the next call *)
Fixpoint assemble {A} (max : N) (levels : list N) (vals : list A) : outcome (list (option A) * list A) :=
  match levels with
  | [] => Ok ([], vals)
  | l :: r =>
      if l <? max then '(rows, rest) <- assemble max r vals ;; Ok (None :: rows, rest)
      else match vals with
           | [] => OOB
           | v :: vs => '(rows, rest) <- assemble max r vs ;; Ok (Some v :: rows, rest)
           end
  end.
Definition def_level {A} (o : option A) : N := match o with Some _ => 1 | None => 0 end.
Definition present {A} (rows : list (option A)) : list A :=
  flat_map (fun o => match o with Some v => [v] | None => [] end) rows.

(* ---------- PLAIN decoding (column/encoding/plain.rs + value_reader/{primitive,varlen,bool}.rs) ---------- *)
(* fixed width little endian values of w bytes (PrimitiveValueReader: unchecked reads) *)
Fixpoint plain_decode_num (w : nat) (n : nat) (buf : list N) : outcome (list N * list N) :=
  match n with
  | O => Ok ([], buf)
  | S k => '(bs, b1) <- take_bytes w buf ;; '(vs, b2) <- plain_decode_num w k b1 ;; Ok (le_num bs :: vs, b2)
  end.
(* `read_next::<u32>()` / `read_bytes(len)`: checked, a short buffer is a DbError *)
Definition take_checked (k : nat) (buf : list N) : outcome (list N * list N) :=
  if Nat.ltb (length buf) k then Err else take_bytes k buf.
Fixpoint plain_decode_bytes (n : nat) (buf : list N) : outcome (list (list N) * list N) :=
  match n with
  | O => Ok ([], buf)
  | S k => '(lb, b1) <- take_checked 4 buf ;;
           '(bs, b2) <- take_checked (N.to_nat (le_num lb)) b1 ;;
           '(vs, b3) <- plain_decode_bytes k b2 ;; Ok (bs :: vs, b3)
  end.
(* BoolValueReader: one bit per value, LSB first, the bit position is kept across calls *)
Definition plain_decode_bool (n : nat) (buf : list N) (pos : N) : outcome (list N * list N * N) :=
  bit_unpack 8 1 n buf pos.

(* ---------- BYTE_STREAM_SPLIT decoding (byte_stream_split.rs) ---------- *)
(* try_new: K cursors of total = len / K bytes each *)
Fixpoint bss_streams (k : nat) (total : nat) (buf : list N) : list (list N) :=
  match k with O => [] | S k' => firstn total buf :: bss_streams k' total (skipn total buf) end.
Definition bss_new (k : nat) (buf : list N) : outcome (list (list N)) :=
  if Nat.eqb (length buf mod k) 0 then Ok (bss_streams k (length buf / k) buf) else Err.
(* read(values): for every stream, the next n bytes *)
Fixpoint bss_take (n : nat) (streams : list (list N)) : outcome (list (list N) * list (list N)) :=
  match streams with
  | [] => Ok ([], [])
  | st :: r => '(c, st') <- take_bytes n st ;; '(cs, r') <- bss_take n r ;; Ok (c :: cs, st' :: r')
  end.
Fixpoint zip_vals (n : nat) (cols : list (list N)) : list N :=
  match n with O => [] | S k => le_num (map (hd 0) cols) :: zip_vals k (map (@tl N) cols) end.
Definition bss_read (n : nat) (streams : list (list N)) : outcome (list N * list (list N)) :=
  '(cols, st') <- bss_take n streams ;; Ok (zip_vals n cols, st').
