(* A regex fragment (literals, classes, `.`, `*`, `+`, `?`, alternation, concatenation, anchors
   at the two ends of the pattern) for the regexp_* functions
   (functions/scalar/builtin/string/regexp_{like,count,instr,replace}.rs, which hand the pattern
   to regex::Regex::new and call is_match / find / find_iter / replace).
   `+` and `?` are sugar: a+ = a a*, a? = (a|) (same language, same leftmost-first priorities).
   Definitions only; proofs in proofs/RegexProofs.v. *)
From Coq Require Import NArith ZArith List Bool.
From GV Require Import model.Utf8 model.StrFn.
Import ListNotations.
Open Scope N_scope.

Inductive cls :=
| CAll                                   (* (?s:.) : every character; used for the search wrapper *)
| CDot                                   (* `.` : every character except '\n' (regex crate default) *)
| CLit (c : N)
| CSet (neg : bool) (ranges : list (N * N)).   (* [a-cx] / [^a-cx] *)

Definition in_ranges (x : N) (rs : list (N * N)) : bool :=
  existsb (fun r => (fst r <=? x) && (x <=? snd r)) rs.
Definition cls_matches (k : cls) (x : N) : bool :=
  match k with
  | CAll => true
  | CDot => negb (x =? 10)
  | CLit c => x =? c
  | CSet neg rs => xorb neg (in_ranges x rs)
  end.

Inductive re :=
| Empty | Eps | Chr (k : cls) | Cat (a b : re) | Alt (a b : re) | Star (a : re).

(* declarative language semantics *)
Inductive Matches : re -> list N -> Prop :=
| MEps : Matches Eps []
| MChr k x : cls_matches k x = true -> Matches (Chr k) [x]
| MCat a b s1 s2 : Matches a s1 -> Matches b s2 -> Matches (Cat a b) (s1 ++ s2)
| MAltL a b s : Matches a s -> Matches (Alt a b) s
| MAltR a b s : Matches b s -> Matches (Alt a b) s
| MStar0 a : Matches (Star a) []
| MStarS a s1 s2 : Matches a s1 -> Matches (Star a) s2 -> Matches (Star a) (s1 ++ s2).

(* Brzozowski derivatives *)
Fixpoint nullable (r : re) : bool :=
  match r with
  | Empty => false | Eps => true | Chr _ => false
  | Cat a b => nullable a && nullable b
  | Alt a b => nullable a || nullable b
  | Star _ => true
  end.
Definition cat' (a b : re) : re := match a with Empty => Empty | _ => Cat a b end.
Definition alt' (a b : re) : re :=
  match a, b with Empty, _ => b | _, Empty => a | _, _ => Alt a b end.
Fixpoint deriv (x : N) (r : re) : re :=
  match r with
  | Empty => Empty | Eps => Empty
  | Chr k => if cls_matches k x then Eps else Empty
  | Cat a b => alt' (cat' (deriv x a) b) (if nullable a then deriv x b else Empty)
  | Alt a b => alt' (deriv x a) (deriv x b)
  | Star a => cat' (deriv x a) (Star a)
  end.
Definition dmatch (r : re) (s : list N) : bool := nullable (fold_left (fun r x => deriv x r) s r).

(* a pattern: optional `^`, body, optional `$` (no multi-line flag: start / end of the haystack) *)
Record rx := { rx_bol : bool; rx_body : re; rx_eol : bool }.
Definition all_star : re := Star (Chr CAll).

(* declarative: some occurrence *)
Definition RxOccurs (p : rx) (pre m post : list N) : Prop :=
  Matches (rx_body p) m /\ (rx_bol p = true -> pre = []) /\ (rx_eol p = true -> post = []).

(* Regex::is_match by derivatives: the whole string against  [any-star] body [any-star]  *)
Definition search_re (p : rx) : re :=
  Cat (if rx_bol p then Eps else all_star) (Cat (rx_body p) (if rx_eol p then Eps else all_star)).
Definition rx_is_match (p : rx) (s : list N) : bool := dmatch (search_re p) s.

Definition impl_regexp_like (p : rx) (s : list N) : outcome bool := Ok (rx_is_match p s).

(* Regex::find(s).start(): the leftmost position at which some match starts *)
Definition prefix_re (p : rx) : re := Cat (rx_body p) (if rx_eol p then Eps else all_star).
Fixpoint find_from (q : re) (s : list N) (i : N) : option N :=
  if dmatch q s then Some i
  else match s with [] => None | _ :: t => find_from q t (i + 1) end.
Definition rx_find_start (p : rx) (s : list N) : option N :=
  if rx_bol p then (if dmatch (prefix_re p) s then Some 0 else None) else find_from (prefix_re p) s 0.

(* regexp_instr.rs: `pattern.find(s).map_or(0, |m| s[..m.start()].chars().count() + 1)`:
   m.start() is a byte offset, the prefix up to it is sliced and its characters counted *)
Definition impl_regexp_instr (p : rx) (cs : list N) : outcome Z :=
  match rx_find_start p cs with
  | Some i => bind (slice_to cs (blen (takeN i cs))) (fun pre => Ok (Z.of_N (lenN pre) + 1)%Z)
  | None => Ok 0%Z
  end.
(* before add0e7ca2: `m.start() + 1`, the byte offset itself; kept for the regression witness *)
Definition old_impl_regexp_instr (p : rx) (cs : list N) : outcome Z :=
  match rx_find_start p cs with
  | Some i => Ok (Z.of_N (blen (takeN i cs)) + 1)%Z
  | None => Ok 0%Z
  end.
(* the definition (PostgreSQL regexp_instr; docs: "starting position of the first match"): characters *)
Definition spec_regexp_instr (p : rx) (cs : list N) : Z :=
  match rx_find_start p cs with Some i => (Z.of_N i + 1)%Z | None => 0%Z end.

(* ---- leftmost-first (Perl-like) match end, for find_iter / replace: a backtracking matcher with
   the regex crate's priorities (left alternative first, greedy star); fuel covers the recursion.
   No theorem about it; it is tied to the engine by the correspondence check only. *)
Fixpoint bt (fuel : nat) (r : re) (s : list N) (k : list N -> option (list N)) : option (list N) :=
  match fuel with
  | O => None
  | S f =>
    match r with
    | Empty => None
    | Eps => k s
    | Chr c => match s with x :: t => if cls_matches c x then k t else None | [] => None end
    | Cat a b => bt f a s (fun s' => bt f b s' k)
    | Alt a b => match bt f a s k with Some o => Some o | None => bt f b s k end
    | Star a =>
      match bt f a s (fun s' => if (length s' <? length s)%nat then bt f (Star a) s' k else None) with
      | Some o => Some o
      | None => k s
      end
    end
  end.
Fixpoint re_size (r : re) : nat :=
  match r with Cat a b | Alt a b => S (re_size a + re_size b) | Star a => S (re_size a) | _ => 1%nat end.
Definition bt_fuel (r : re) (s : list N) : nat := ((2 * re_size r + 2) * (length s + 2) + 4)%nat.

(* leftmost-first match at exactly this position: Some (length of the match) *)
Definition match_here (p : rx) (s : list N) : option N :=
  match bt (bt_fuel (rx_body p) s) (rx_body p) s
           (fun rest => if rx_eol p then (match rest with [] => Some rest | _ => None end) else Some rest) with
  | Some rest => Some (lenN s - lenN rest)
  | None => None
  end.
(* leftmost match at or after the current position: (characters skipped, match length) *)
Fixpoint find_match (p : rx) (s : list N) (skipped : N) (at_start : bool) : option (N * N) :=
  match (if rx_bol p && negb at_start then None else match_here p s) with
  | Some l => Some (skipped, l)
  | None => match s with
            | [] => None
            | _ :: t => if rx_bol p then None else find_match p t (skipped + 1) false
            end
  end.

(* Regex::find_iter(s).count(): after a match the search resumes at its end; an empty match at the
   end of the previous match is not reported, the search moves one character on *)
Fixpoint count_loop (fuel : nat) (p : rx) (s : list N) (at_start last_end_here : bool) : Z :=
  match fuel with
  | O => 0%Z
  | S f =>
    match find_match p s 0 at_start with
    | None => 0%Z
    | Some (sk, l) =>
      if (sk =? 0) && (l =? 0) && last_end_here then
        match s with
        | [] => 0%Z
        | _ :: t => count_loop f p t false false
        end
      else Z.succ (count_loop f p (dropN (sk + l) s) (at_start && (sk + l =? 0)) true)
    end
  end.
Definition impl_regexp_count (p : rx) (s : list N) : outcome Z :=
  Ok (count_loop (2 * length s + 3) p s true false).

(* regexp_replace.rs PostgresReplacement with no capture groups in the pattern:
   \0 -> the match, \1..\9 -> nothing, \\ -> \, \x -> x, trailing \ -> \ *)
Fixpoint expand_repl (r m : list N) : list N :=
  match r with
  | [] => []
  | c :: t =>
    if c =? 92 then
      match t with
      | [] => [92]
      | d :: t' =>
        if (48 <=? d) && (d <=? 57) then (if d =? 48 then m else []) ++ expand_repl t' m
        else d :: expand_repl t' m
      end
    else c :: expand_repl t m
  end.
(* Regex::replace: the first match only *)
Definition impl_regexp_replace (p : rx) (s repl : list N) : outcome (list N) :=
  match find_match p s 0 true with
  | None => Ok s
  | Some (sk, l) =>
    let m := takeN l (dropN sk s) in
    Ok (takeN sk s ++ expand_repl repl m ++ dropN (sk + l) s)
  end.
