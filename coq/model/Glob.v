(* C11 model, part 2: glob expansion over a finite directory tree.
   Transcribed from crates/glaredb_core/src/runtime/filesystem/glob.rs (GlobHandle::poll_expand).

   The code keeps a stack of (directory handle, segment index).  Each round lists the directory on
   top of the stack; every entry is matched against segment `seg_idx` only (the last path
   component), files are emitted when the segment is the last one, directories that match are
   pushed with `seg_idx + 1`.  For a `**` segment every sub-directory is pushed TWICE (same
   segment: "consume one directory"; next segment: "skip the `**`"), nothing is matched against
   the next segment for the directory being listed (source TODO), and files are emitted only when
   `**` is the last segment.  The pushed handles are appended on top of the stack, so the directory
   pushed last is listed first; a directory whose listing is exhausted is popped.

   `run` / `expand_stack` below is that loop as written (stack of frames, fuel = loop iterations) for a
   directory handle that returns its whole listing at once (LocalDirHandle::list_inner).
   `walk` / `expand` is its denotation (proved: proofs/GlobProofs.v expand_stack_is_expand): output
   order = files of the listed directory in listing order, then the pushed handles in reverse push
   order, depth first.  The remaining segments are carried as a list (suffix of the segment
   vector) instead of an index.
   Segment matching (globset, external; string equality for literal segments) is the Section
   parameter `m`. *)
From Coq Require Import List Bool NArith.
Import ListNotations.

Definition name := N.
Record seg := mk_seg { dstar : bool; sid : N }.   (* dstar: the segment is exactly "**" *)

Inductive node := File (n : name) | Dir (n : name) (ch : forest)
with forest := FNil | FCons (t : node) (r : forest).

Section Glob.
  Variable m : N -> name -> bool.    (* m (sid s) n: does the last path component n match segment s *)

  (* files emitted while listing a directory with entries f, remaining segments segs *)
  Fixpoint emits (f : forest) (path : list name) (segs : list seg) : list (list name) :=
    match f with
    | FNil => []
    | FCons (File n) r =>
        (match segs with
         | [s] => if dstar s then [path ++ [n]] else if m (sid s) n then [path ++ [n]] else []
         | _ => []
         end) ++ emits r path segs
    | FCons (Dir _ _) r => emits r path segs
    end.

  Fixpoint walk (t : node) (path : list name) (segs : list seg) {struct t} : list (list name) :=
    match t with
    | File _ => []
    | Dir _ ch => emits ch path segs ++ subs ch path segs
    end
  with subs (f : forest) (path : list name) (segs : list seg) {struct f} : list (list name) :=
    match f with
    | FNil => []
    | FCons c r =>
        subs r path segs ++
        match c, segs with
        | Dir n _, s :: rest =>
            if dstar s then
              (* pushed: (child, seg_idx) then, if a next segment exists, (child, seg_idx + 1);
                 popped in the opposite order *)
              (match rest with [] => [] | _ :: _ => walk c (path ++ [n]) rest end)
              ++ walk c (path ++ [n]) segs
            else if m (sid s) n then
              (match rest with [] => [] | _ :: _ => walk c (path ++ [n]) rest end)
            else []
        | _, _ => []
        end
    end.

  (* ---- the loop itself, as written: a stack of directory handles.  A frame is a handle
     (entries fr_ch of the directory at fr_path, fr_done = the listing has been delivered, so the
     next poll_list returns 0) with the remaining segments.  The head of the list is the top of the
     Vec (`stack.last_mut()`); `temp_stack` is appended in push order, so the frame pushed last is
     on top.  One unit of fuel = one iteration of the `loop`. ---- *)
  Record frame := mk_fr { fr_ch : forest; fr_path : list name; fr_done : bool; fr_segs : list seg }.

  Definition child_frame (c : node) (path : list name) (segs : list seg) : list frame :=
    match c with
    | Dir n ch => [mk_fr ch (path ++ [n]) false segs]
    | File _ => []
    end.

  (* the handles pushed while listing entries f, in push order *)
  Fixpoint pushes (f : forest) (path : list name) (segs : list seg) : list frame :=
    match f with
    | FNil => []
    | FCons c r =>
        (match c, segs with
         | Dir n _, s :: rest =>
             if dstar s then
               child_frame c path segs ++ (match rest with [] => [] | _ :: _ => child_frame c path rest end)
             else if m (sid s) n then
               (match rest with [] => [] | _ :: _ => child_frame c path rest end)
             else []
         | _, _ => []
         end) ++ pushes r path segs
    end.

  Fixpoint run (fuel : nat) (stack : list frame) (acc : list (list name)) : option (list (list name)) :=
    match fuel with
    | O => None
    | S k =>
        match stack with
        | [] => Some acc                                      (* stack empty: Ready(Ok(0)) *)
        | fr :: below =>
            if fr_done fr then run k below acc                 (* poll_list = 0: pop *)
            else run k (rev (pushes (fr_ch fr) (fr_path fr) (fr_segs fr))
                        ++ mk_fr (fr_ch fr) (fr_path fr) true (fr_segs fr) :: below)
                       (acc ++ emits (fr_ch fr) (fr_path fr) (fr_segs fr))
        end
    end.

  Definition expand_stack (fuel : nat) (root : node) (segs : list seg) : option (list (list name)) :=
    match root with
    | Dir _ ch => run fuel [mk_fr ch [] false segs] []
    | File _ => Some []
    end.

  (* GlobHandle::open pushes the root directory with segment 0; paths are relative to it.
     `expand` is the denotation of `expand_stack` (proofs/GlobProofs.v: expand_stack_is_expand) *)
  Definition expand (root : node) (segs : list seg) : list (list name) := walk root [] segs.

  (* ---- the declarative meaning of a glob (globset): `**` followed by further segments stands for
     zero or more path components, a trailing `**` for one or more ("foo/** matches foo/a and
     foo/a/b, but not foo"), any other segment for exactly one ---- *)
  Fixpoint gmatch (segs : list seg) : list name -> bool :=
    match segs with
    | [] => fun p => match p with [] => true | _ => false end
    | s :: rest =>
        if dstar s then
          match rest with
          | [] => fun p => match p with [] => false | _ :: _ => true end
          | _ :: _ =>
              (fix star (p : list name) : bool :=
                 gmatch rest p || match p with [] => false | _ :: p' => star p' end)
          end
        else fun p => match p with [] => false | n :: p' => m (sid s) n && gmatch rest p' end
    end.

  (* all files below a directory, as paths relative to it, in the order `walk` visits them *)
  Fixpoint files (t : node) : list (list name) :=
    match t with
    | File _ => []
    | Dir _ ch => files_here ch ++ files_sub ch
    end
  with files_sub (f : forest) : list (list name) :=
    match f with
    | FNil => []
    | FCons c r => files_sub r ++ match c with Dir n _ => map (cons n) (files c) | File _ => [] end
    end
  with files_here (f : forest) : list (list name) :=
    match f with
    | FNil => []
    | FCons (File n) r => [n] :: files_here r
    | FCons (Dir _ _) r => files_here r
    end.

  Definition matches (root : node) (segs : list seg) (p : list name) : Prop :=
    In p (files root) /\ gmatch segs p = true.

  Definition spec_expand (root : node) (segs : list seg) : list (list name) :=
    filter (gmatch segs) (files root).
End Glob.

(* sibling names are pairwise distinct, at every level *)
Fixpoint names (f : forest) : list name :=
  match f with FNil => [] | FCons (File n) r => n :: names r | FCons (Dir n _) r => n :: names r end.
Fixpoint wf (t : node) : Prop :=
  match t with File _ => True | Dir _ ch => NoDup (names ch) /\ wf_f ch end
with wf_f (f : forest) : Prop :=
  match f with FNil => True | FCons c r => wf c /\ wf_f r end.
