(* GENERATED on every run by vlib/tables_arith.py from /repo's working tree. Do not edit. *)
From Coq Require Import ZArith.
Open Scope Z_scope.

Definition add_native : option Z := Some 0.
Definition d128_max_precision : option Z := Some 38.
Definition d64_max_precision : option Z := Some 18.
Definition dec_add_native : option Z := Some 0.
Definition dec_add_validates : option Z := Some 1.
Definition dec_mul_native : option Z := Some 0.
Definition dec_mul_validates : option Z := Some 1.
Definition dec_sub_native : option Z := Some 0.
Definition dec_sub_validates : option Z := Some 1.
Definition decimal_to_decimal_validates : option Z := Some 1.
Definition div_native : option Z := Some 0.
Definition int16_dec_precision : option Z := Some 5.
Definition int32_dec_precision : option Z := Some 10.
Definition int64_dec_precision : option Z := Some 19.
Definition int8_dec_precision : option Z := Some 3.
Definition int_to_decimal_pow_i32 : option Z := Some 0.
Definition mul_native : option Z := Some 0.
Definition neg_native : option Z := Some 0.
Definition rem_checked_min_neg1_is_zero : option Z := Some 1.
Definition rem_native : option Z := Some 0.
Definition sub_native : option Z := Some 0.
Definition sum_resets_on_overflow : option Z := Some 0.
