(* GENERATED on every run by vlib/tables_numfn.py from /repo's working tree. Do not edit. *)
From Coq Require Import ZArith.
Open Scope Z_scope.

Definition d2d_scale_sub_native : option Z := Some 0.
Definition decbind_i8 : option Z := Some 0.
Definition factorial_null : option Z := Some 0.
Definition gcd_native : option Z := Some 0.
Definition lcm_native : option Z := Some 0.
Definition shr_zero_fill : option Z := Some 0.
Definition u64_dec_precision : option Z := Some 20.
Definition wide_dec128 : option Z := Some 1.
