(* GENERATED on every run by vlib/tables_typing.py from `gv_typing dump-tables` (the built crates) and
   crates/glaredb_core/src/functions/candidate.rs.  Do not edit. *)
From Coq Require Import NArith List String.
From GV Require Import model.Resolve.
Import ListNotations.
Open Scope string_scope.
Open Scope N_scope.

Definition type_names : list string := ["Any"; "Table"; "Null"; "Boolean"; "Int8"; "Int16"; "Int32"; "Int64"; "Int128"; "UInt8"; "UInt16"; "UInt32"; "UInt64"; "UInt128"; "Float16"; "Float32"; "Float64"; "Decimal64"; "Decimal128"; "Timestamp"; "Date32"; "Date64"; "Interval"; "Utf8"; "Binary"; "Struct"; "List"].
Definition n_types : N := 27.
Definition tid_any : option N := Some 0.
Definition tid_i8 : option N := Some 4.
Definition tid_i16 : option N := Some 5.
Definition tid_i32 : option N := Some 6.
Definition tid_i64 : option N := Some 7.
Definition tid_dec64 : option N := Some 17.
Definition tid_dec128 : option N := Some 18.
Definition no_cast_score : option N := Some 800.
Definition refined_literal_bonus : option N := Some 100.
Definition default_score_i8 : option N := Some 160.
Definition default_score_i16 : option N := Some 161.
Definition default_score_i32 : option N := Some 191.
Definition default_score_i64 : option N := Some 190.
Definition variadic_same_score : option N := Some 200.
Definition setop_full_type_equality : option N := Some 1.
Definition setop_arity_check : option N := Some 1.
Definition setop_decimal_rule : option N := Some 1.
Definition src_dec64_max_precision : option N := Some 18.
Definition src_dec128_max_precision : option N := Some 38.
Definition score_table : list (list (option N)) := [
  [Some 10; None; None; None; None; None; None; None; None; None; None; None; None; None; None; None; None; None; None; None; None; None; None; None; None; None; None];
  [Some 10; None; None; None; None; None; None; None; None; None; None; None; None; None; None; None; None; None; None; None; None; None; None; None; None; None; None];
  [Some 10; None; None; Some 162; Some 160; Some 161; Some 191; Some 190; None; Some 152; Some 152; Some 154; Some 153; None; Some 179; Some 180; Some 181; Some 141; Some 140; None; Some 131; None; Some 132; Some 80; None; None; Some 10];
  [Some 10; None; None; None; None; None; None; None; None; None; None; None; None; None; None; None; None; None; None; None; None; None; None; None; None; None; None];
  [Some 10; None; None; None; Some 160; Some 161; Some 191; Some 190; Some 185; None; None; None; None; None; Some 179; Some 180; Some 181; Some 141; Some 140; None; None; None; None; Some 80; None; None; None];
  [Some 10; None; None; None; None; Some 161; Some 191; Some 190; Some 185; None; None; None; None; None; Some 179; Some 180; Some 181; Some 141; Some 140; None; None; None; None; Some 80; None; None; None];
  [Some 10; None; None; None; None; None; Some 191; Some 190; Some 185; None; None; None; None; None; Some 179; Some 180; Some 181; Some 141; Some 140; None; None; None; None; Some 80; None; None; None];
  [Some 10; None; None; None; None; None; None; Some 190; Some 185; None; None; None; None; None; None; Some 180; Some 181; None; Some 180; None; None; None; None; Some 80; None; None; None];
  [Some 10; None; None; None; None; None; None; None; None; None; None; None; None; None; None; Some 180; Some 181; None; None; None; None; None; None; Some 80; None; None; None];
  [Some 10; None; None; None; None; Some 161; Some 191; Some 190; Some 185; None; Some 152; Some 154; Some 153; None; Some 179; Some 180; Some 181; Some 141; Some 140; None; None; None; None; Some 80; None; None; None];
  [Some 10; None; None; None; None; None; Some 191; Some 190; Some 185; None; Some 152; Some 154; Some 153; None; Some 179; Some 180; Some 181; Some 141; Some 140; None; None; None; None; Some 80; None; None; None];
  [Some 10; None; None; None; None; None; None; Some 190; Some 185; None; None; None; Some 153; None; None; Some 180; Some 181; Some 141; Some 140; None; None; None; None; Some 80; None; None; None];
  [Some 10; None; None; None; None; None; None; None; Some 185; None; None; None; Some 153; None; None; Some 180; Some 181; None; Some 180; None; None; None; None; Some 80; None; None; None];
  [Some 10; None; None; None; None; None; None; None; None; None; None; None; None; None; None; Some 180; Some 181; None; None; None; None; None; None; Some 80; None; None; None];
  [Some 10; None; None; None; None; None; None; None; None; None; None; None; None; None; Some 179; Some 180; Some 181; Some 141; Some 140; None; None; None; None; Some 80; None; None; None];
  [Some 10; None; None; None; None; None; None; None; None; None; None; None; None; None; Some 179; Some 180; Some 181; Some 141; Some 140; None; None; None; None; Some 80; None; None; None];
  [Some 10; None; None; None; None; None; None; None; None; None; None; None; None; None; Some 179; Some 180; Some 181; Some 141; Some 140; None; None; None; None; Some 80; None; None; None];
  [Some 10; None; None; None; None; None; None; None; None; None; None; None; None; None; None; Some 180; Some 181; Some 141; Some 183; None; None; None; None; Some 80; None; None; None];
  [Some 10; None; None; None; None; None; None; None; None; None; None; None; None; None; None; Some 180; Some 181; None; Some 140; None; None; None; None; Some 80; None; None; None];
  [Some 10; None; None; None; None; None; None; None; None; None; None; None; None; None; None; None; None; None; None; None; None; None; None; Some 80; None; None; None];
  [Some 10; None; None; None; None; None; None; None; None; None; None; None; None; None; None; None; None; None; None; None; None; None; None; None; None; None; None];
  [Some 10; None; None; None; None; None; None; None; None; None; None; None; None; None; None; None; None; None; None; None; None; None; None; None; None; None; None];
  [Some 10; None; None; None; None; None; None; None; None; None; None; None; None; None; None; None; None; None; None; None; None; None; None; Some 80; None; None; None];
  [Some 10; None; None; Some 162; Some 160; Some 161; Some 191; Some 190; None; None; None; None; None; None; None; Some 180; Some 181; Some 141; Some 140; None; Some 131; None; Some 132; None; None; None; None];
  [Some 10; None; None; None; None; None; None; None; None; None; None; None; None; None; None; None; None; None; None; None; None; None; None; Some 80; None; None; None];
  [Some 10; None; None; None; None; None; None; None; None; None; None; None; None; None; None; None; None; None; None; None; None; None; None; None; None; None; None];
  [Some 10; None; None; None; None; None; None; None; None; None; None; None; None; None; None; None; None; None; None; None; None; None; None; None; None; None; None]
].
Definition scalar_sets : list fset := [
  (* + *) {| f_sigs := [
      {| s_pos := [14; 14]; s_var := None; s_ret := 14 |};
      {| s_pos := [15; 15]; s_var := None; s_ret := 15 |};
      {| s_pos := [16; 16]; s_var := None; s_ret := 16 |};
      {| s_pos := [4; 4]; s_var := None; s_ret := 4 |};
      {| s_pos := [5; 5]; s_var := None; s_ret := 5 |};
      {| s_pos := [6; 6]; s_var := None; s_ret := 6 |};
      {| s_pos := [7; 7]; s_var := None; s_ret := 7 |};
      {| s_pos := [8; 8]; s_var := None; s_ret := 8 |};
      {| s_pos := [9; 9]; s_var := None; s_ret := 9 |};
      {| s_pos := [10; 10]; s_var := None; s_ret := 10 |};
      {| s_pos := [11; 11]; s_var := None; s_ret := 11 |};
      {| s_pos := [12; 12]; s_var := None; s_ret := 12 |};
      {| s_pos := [13; 13]; s_var := None; s_ret := 13 |};
      {| s_pos := [17; 17]; s_var := None; s_ret := 17 |};
      {| s_pos := [17; 4]; s_var := None; s_ret := 17 |};
      {| s_pos := [17; 5]; s_var := None; s_ret := 17 |};
      {| s_pos := [17; 6]; s_var := None; s_ret := 17 |};
      {| s_pos := [4; 17]; s_var := None; s_ret := 17 |};
      {| s_pos := [5; 17]; s_var := None; s_ret := 17 |};
      {| s_pos := [6; 17]; s_var := None; s_ret := 17 |};
      {| s_pos := [18; 18]; s_var := None; s_ret := 18 |};
      {| s_pos := [18; 4]; s_var := None; s_ret := 18 |};
      {| s_pos := [18; 5]; s_var := None; s_ret := 18 |};
      {| s_pos := [18; 6]; s_var := None; s_ret := 18 |};
      {| s_pos := [18; 7]; s_var := None; s_ret := 18 |};
      {| s_pos := [4; 18]; s_var := None; s_ret := 18 |};
      {| s_pos := [5; 18]; s_var := None; s_ret := 18 |};
      {| s_pos := [6; 18]; s_var := None; s_ret := 18 |};
      {| s_pos := [7; 18]; s_var := None; s_ret := 18 |};
      {| s_pos := [20; 6]; s_var := None; s_ret := 20 |};
      {| s_pos := [6; 20]; s_var := None; s_ret := 20 |}] |};
  (* - *) {| f_sigs := [
      {| s_pos := [14; 14]; s_var := None; s_ret := 14 |};
      {| s_pos := [15; 15]; s_var := None; s_ret := 15 |};
      {| s_pos := [16; 16]; s_var := None; s_ret := 16 |};
      {| s_pos := [4; 4]; s_var := None; s_ret := 4 |};
      {| s_pos := [5; 5]; s_var := None; s_ret := 5 |};
      {| s_pos := [6; 6]; s_var := None; s_ret := 6 |};
      {| s_pos := [7; 7]; s_var := None; s_ret := 7 |};
      {| s_pos := [8; 8]; s_var := None; s_ret := 8 |};
      {| s_pos := [9; 9]; s_var := None; s_ret := 9 |};
      {| s_pos := [10; 10]; s_var := None; s_ret := 10 |};
      {| s_pos := [11; 11]; s_var := None; s_ret := 11 |};
      {| s_pos := [12; 12]; s_var := None; s_ret := 12 |};
      {| s_pos := [13; 13]; s_var := None; s_ret := 13 |};
      {| s_pos := [17; 17]; s_var := None; s_ret := 17 |};
      {| s_pos := [17; 4]; s_var := None; s_ret := 17 |};
      {| s_pos := [17; 5]; s_var := None; s_ret := 17 |};
      {| s_pos := [17; 6]; s_var := None; s_ret := 17 |};
      {| s_pos := [4; 17]; s_var := None; s_ret := 17 |};
      {| s_pos := [5; 17]; s_var := None; s_ret := 17 |};
      {| s_pos := [6; 17]; s_var := None; s_ret := 17 |};
      {| s_pos := [18; 18]; s_var := None; s_ret := 18 |};
      {| s_pos := [18; 4]; s_var := None; s_ret := 18 |};
      {| s_pos := [18; 5]; s_var := None; s_ret := 18 |};
      {| s_pos := [18; 6]; s_var := None; s_ret := 18 |};
      {| s_pos := [18; 7]; s_var := None; s_ret := 18 |};
      {| s_pos := [4; 18]; s_var := None; s_ret := 18 |};
      {| s_pos := [5; 18]; s_var := None; s_ret := 18 |};
      {| s_pos := [6; 18]; s_var := None; s_ret := 18 |};
      {| s_pos := [7; 18]; s_var := None; s_ret := 18 |};
      {| s_pos := [20; 6]; s_var := None; s_ret := 20 |}] |};
  (* / *) {| f_sigs := [
      {| s_pos := [14; 14]; s_var := None; s_ret := 14 |};
      {| s_pos := [15; 15]; s_var := None; s_ret := 15 |};
      {| s_pos := [16; 16]; s_var := None; s_ret := 16 |};
      {| s_pos := [4; 4]; s_var := None; s_ret := 4 |};
      {| s_pos := [5; 5]; s_var := None; s_ret := 5 |};
      {| s_pos := [6; 6]; s_var := None; s_ret := 6 |};
      {| s_pos := [7; 7]; s_var := None; s_ret := 7 |};
      {| s_pos := [8; 8]; s_var := None; s_ret := 8 |};
      {| s_pos := [9; 9]; s_var := None; s_ret := 9 |};
      {| s_pos := [10; 10]; s_var := None; s_ret := 10 |};
      {| s_pos := [11; 11]; s_var := None; s_ret := 11 |};
      {| s_pos := [12; 12]; s_var := None; s_ret := 12 |};
      {| s_pos := [13; 13]; s_var := None; s_ret := 13 |};
      {| s_pos := [17; 17]; s_var := None; s_ret := 16 |};
      {| s_pos := [18; 18]; s_var := None; s_ret := 16 |}] |};
  (* <star> *) {| f_sigs := [
      {| s_pos := [14; 14]; s_var := None; s_ret := 14 |};
      {| s_pos := [15; 15]; s_var := None; s_ret := 15 |};
      {| s_pos := [16; 16]; s_var := None; s_ret := 16 |};
      {| s_pos := [4; 4]; s_var := None; s_ret := 4 |};
      {| s_pos := [5; 5]; s_var := None; s_ret := 5 |};
      {| s_pos := [6; 6]; s_var := None; s_ret := 6 |};
      {| s_pos := [7; 7]; s_var := None; s_ret := 7 |};
      {| s_pos := [8; 8]; s_var := None; s_ret := 8 |};
      {| s_pos := [9; 9]; s_var := None; s_ret := 9 |};
      {| s_pos := [10; 10]; s_var := None; s_ret := 10 |};
      {| s_pos := [11; 11]; s_var := None; s_ret := 11 |};
      {| s_pos := [12; 12]; s_var := None; s_ret := 12 |};
      {| s_pos := [13; 13]; s_var := None; s_ret := 13 |};
      {| s_pos := [17; 17]; s_var := None; s_ret := 17 |};
      {| s_pos := [17; 4]; s_var := None; s_ret := 17 |};
      {| s_pos := [17; 5]; s_var := None; s_ret := 17 |};
      {| s_pos := [17; 6]; s_var := None; s_ret := 17 |};
      {| s_pos := [4; 17]; s_var := None; s_ret := 17 |};
      {| s_pos := [5; 17]; s_var := None; s_ret := 17 |};
      {| s_pos := [6; 17]; s_var := None; s_ret := 17 |};
      {| s_pos := [18; 18]; s_var := None; s_ret := 18 |};
      {| s_pos := [18; 4]; s_var := None; s_ret := 18 |};
      {| s_pos := [18; 5]; s_var := None; s_ret := 18 |};
      {| s_pos := [18; 6]; s_var := None; s_ret := 18 |};
      {| s_pos := [18; 7]; s_var := None; s_ret := 18 |};
      {| s_pos := [4; 18]; s_var := None; s_ret := 18 |};
      {| s_pos := [5; 18]; s_var := None; s_ret := 18 |};
      {| s_pos := [6; 18]; s_var := None; s_ret := 18 |};
      {| s_pos := [7; 18]; s_var := None; s_ret := 18 |};
      {| s_pos := [22; 6]; s_var := None; s_ret := 22 |};
      {| s_pos := [22; 7]; s_var := None; s_ret := 22 |};
      {| s_pos := [6; 22]; s_var := None; s_ret := 22 |};
      {| s_pos := [7; 22]; s_var := None; s_ret := 22 |}] |};
  (* % *) {| f_sigs := [
      {| s_pos := [14; 14]; s_var := None; s_ret := 14 |};
      {| s_pos := [15; 15]; s_var := None; s_ret := 15 |};
      {| s_pos := [16; 16]; s_var := None; s_ret := 16 |};
      {| s_pos := [4; 4]; s_var := None; s_ret := 4 |};
      {| s_pos := [5; 5]; s_var := None; s_ret := 5 |};
      {| s_pos := [6; 6]; s_var := None; s_ret := 6 |};
      {| s_pos := [7; 7]; s_var := None; s_ret := 7 |};
      {| s_pos := [8; 8]; s_var := None; s_ret := 8 |};
      {| s_pos := [9; 9]; s_var := None; s_ret := 9 |};
      {| s_pos := [10; 10]; s_var := None; s_ret := 10 |};
      {| s_pos := [11; 11]; s_var := None; s_ret := 11 |};
      {| s_pos := [12; 12]; s_var := None; s_ret := 12 |};
      {| s_pos := [13; 13]; s_var := None; s_ret := 13 |}] |};
  (* lcm *) {| f_sigs := [
      {| s_pos := [4; 4]; s_var := None; s_ret := 4 |};
      {| s_pos := [5; 5]; s_var := None; s_ret := 5 |};
      {| s_pos := [6; 6]; s_var := None; s_ret := 6 |};
      {| s_pos := [7; 7]; s_var := None; s_ret := 7 |};
      {| s_pos := [8; 8]; s_var := None; s_ret := 8 |}] |};
  (* xor *) {| f_sigs := [
      {| s_pos := [4; 4]; s_var := None; s_ret := 4 |};
      {| s_pos := [5; 5]; s_var := None; s_ret := 5 |};
      {| s_pos := [6; 6]; s_var := None; s_ret := 6 |};
      {| s_pos := [7; 7]; s_var := None; s_ret := 7 |};
      {| s_pos := [8; 8]; s_var := None; s_ret := 8 |};
      {| s_pos := [9; 9]; s_var := None; s_ret := 9 |};
      {| s_pos := [10; 10]; s_var := None; s_ret := 10 |};
      {| s_pos := [11; 11]; s_var := None; s_ret := 11 |};
      {| s_pos := [12; 12]; s_var := None; s_ret := 12 |};
      {| s_pos := [13; 13]; s_var := None; s_ret := 13 |}] |};
  (* shl *) {| f_sigs := [
      {| s_pos := [4; 6]; s_var := None; s_ret := 4 |};
      {| s_pos := [5; 6]; s_var := None; s_ret := 5 |};
      {| s_pos := [6; 6]; s_var := None; s_ret := 6 |};
      {| s_pos := [7; 6]; s_var := None; s_ret := 7 |};
      {| s_pos := [8; 6]; s_var := None; s_ret := 8 |};
      {| s_pos := [9; 6]; s_var := None; s_ret := 9 |};
      {| s_pos := [10; 6]; s_var := None; s_ret := 10 |};
      {| s_pos := [11; 6]; s_var := None; s_ret := 11 |};
      {| s_pos := [12; 6]; s_var := None; s_ret := 12 |};
      {| s_pos := [13; 6]; s_var := None; s_ret := 13 |}] |};
  (* shr *) {| f_sigs := [
      {| s_pos := [4; 6]; s_var := None; s_ret := 4 |};
      {| s_pos := [5; 6]; s_var := None; s_ret := 5 |};
      {| s_pos := [6; 6]; s_var := None; s_ret := 6 |};
      {| s_pos := [7; 6]; s_var := None; s_ret := 7 |};
      {| s_pos := [8; 6]; s_var := None; s_ret := 8 |};
      {| s_pos := [9; 6]; s_var := None; s_ret := 9 |};
      {| s_pos := [10; 6]; s_var := None; s_ret := 10 |};
      {| s_pos := [11; 6]; s_var := None; s_ret := 11 |};
      {| s_pos := [12; 6]; s_var := None; s_ret := 12 |};
      {| s_pos := [13; 6]; s_var := None; s_ret := 13 |}] |};
  (* and *) {| f_sigs := [
      {| s_pos := [3]; s_var := Some 3; s_ret := 3 |}] |};
  (* or *) {| f_sigs := [
      {| s_pos := [3]; s_var := Some 3; s_ret := 3 |}] |};
  (* = *) {| f_sigs := [
      {| s_pos := [3; 3]; s_var := None; s_ret := 3 |};
      {| s_pos := [4; 4]; s_var := None; s_ret := 3 |};
      {| s_pos := [5; 5]; s_var := None; s_ret := 3 |};
      {| s_pos := [6; 6]; s_var := None; s_ret := 3 |};
      {| s_pos := [7; 7]; s_var := None; s_ret := 3 |};
      {| s_pos := [8; 8]; s_var := None; s_ret := 3 |};
      {| s_pos := [9; 9]; s_var := None; s_ret := 3 |};
      {| s_pos := [10; 10]; s_var := None; s_ret := 3 |};
      {| s_pos := [11; 11]; s_var := None; s_ret := 3 |};
      {| s_pos := [12; 12]; s_var := None; s_ret := 3 |};
      {| s_pos := [13; 13]; s_var := None; s_ret := 3 |};
      {| s_pos := [14; 14]; s_var := None; s_ret := 3 |};
      {| s_pos := [15; 15]; s_var := None; s_ret := 3 |};
      {| s_pos := [16; 16]; s_var := None; s_ret := 3 |};
      {| s_pos := [20; 20]; s_var := None; s_ret := 3 |};
      {| s_pos := [21; 21]; s_var := None; s_ret := 3 |};
      {| s_pos := [19; 19]; s_var := None; s_ret := 3 |};
      {| s_pos := [22; 22]; s_var := None; s_ret := 3 |};
      {| s_pos := [17; 17]; s_var := None; s_ret := 3 |};
      {| s_pos := [18; 18]; s_var := None; s_ret := 3 |};
      {| s_pos := [24; 24]; s_var := None; s_ret := 3 |};
      {| s_pos := [23; 23]; s_var := None; s_ret := 3 |}] |};
  (* != *) {| f_sigs := [
      {| s_pos := [3; 3]; s_var := None; s_ret := 3 |};
      {| s_pos := [4; 4]; s_var := None; s_ret := 3 |};
      {| s_pos := [5; 5]; s_var := None; s_ret := 3 |};
      {| s_pos := [6; 6]; s_var := None; s_ret := 3 |};
      {| s_pos := [7; 7]; s_var := None; s_ret := 3 |};
      {| s_pos := [8; 8]; s_var := None; s_ret := 3 |};
      {| s_pos := [9; 9]; s_var := None; s_ret := 3 |};
      {| s_pos := [10; 10]; s_var := None; s_ret := 3 |};
      {| s_pos := [11; 11]; s_var := None; s_ret := 3 |};
      {| s_pos := [12; 12]; s_var := None; s_ret := 3 |};
      {| s_pos := [13; 13]; s_var := None; s_ret := 3 |};
      {| s_pos := [14; 14]; s_var := None; s_ret := 3 |};
      {| s_pos := [15; 15]; s_var := None; s_ret := 3 |};
      {| s_pos := [16; 16]; s_var := None; s_ret := 3 |};
      {| s_pos := [20; 20]; s_var := None; s_ret := 3 |};
      {| s_pos := [21; 21]; s_var := None; s_ret := 3 |};
      {| s_pos := [19; 19]; s_var := None; s_ret := 3 |};
      {| s_pos := [22; 22]; s_var := None; s_ret := 3 |};
      {| s_pos := [17; 17]; s_var := None; s_ret := 3 |};
      {| s_pos := [18; 18]; s_var := None; s_ret := 3 |};
      {| s_pos := [24; 24]; s_var := None; s_ret := 3 |};
      {| s_pos := [23; 23]; s_var := None; s_ret := 3 |}] |};
  (* < *) {| f_sigs := [
      {| s_pos := [3; 3]; s_var := None; s_ret := 3 |};
      {| s_pos := [4; 4]; s_var := None; s_ret := 3 |};
      {| s_pos := [5; 5]; s_var := None; s_ret := 3 |};
      {| s_pos := [6; 6]; s_var := None; s_ret := 3 |};
      {| s_pos := [7; 7]; s_var := None; s_ret := 3 |};
      {| s_pos := [8; 8]; s_var := None; s_ret := 3 |};
      {| s_pos := [9; 9]; s_var := None; s_ret := 3 |};
      {| s_pos := [10; 10]; s_var := None; s_ret := 3 |};
      {| s_pos := [11; 11]; s_var := None; s_ret := 3 |};
      {| s_pos := [12; 12]; s_var := None; s_ret := 3 |};
      {| s_pos := [13; 13]; s_var := None; s_ret := 3 |};
      {| s_pos := [14; 14]; s_var := None; s_ret := 3 |};
      {| s_pos := [15; 15]; s_var := None; s_ret := 3 |};
      {| s_pos := [16; 16]; s_var := None; s_ret := 3 |};
      {| s_pos := [20; 20]; s_var := None; s_ret := 3 |};
      {| s_pos := [21; 21]; s_var := None; s_ret := 3 |};
      {| s_pos := [19; 19]; s_var := None; s_ret := 3 |};
      {| s_pos := [22; 22]; s_var := None; s_ret := 3 |};
      {| s_pos := [17; 17]; s_var := None; s_ret := 3 |};
      {| s_pos := [18; 18]; s_var := None; s_ret := 3 |};
      {| s_pos := [24; 24]; s_var := None; s_ret := 3 |};
      {| s_pos := [23; 23]; s_var := None; s_ret := 3 |}] |};
  (* <= *) {| f_sigs := [
      {| s_pos := [3; 3]; s_var := None; s_ret := 3 |};
      {| s_pos := [4; 4]; s_var := None; s_ret := 3 |};
      {| s_pos := [5; 5]; s_var := None; s_ret := 3 |};
      {| s_pos := [6; 6]; s_var := None; s_ret := 3 |};
      {| s_pos := [7; 7]; s_var := None; s_ret := 3 |};
      {| s_pos := [8; 8]; s_var := None; s_ret := 3 |};
      {| s_pos := [9; 9]; s_var := None; s_ret := 3 |};
      {| s_pos := [10; 10]; s_var := None; s_ret := 3 |};
      {| s_pos := [11; 11]; s_var := None; s_ret := 3 |};
      {| s_pos := [12; 12]; s_var := None; s_ret := 3 |};
      {| s_pos := [13; 13]; s_var := None; s_ret := 3 |};
      {| s_pos := [14; 14]; s_var := None; s_ret := 3 |};
      {| s_pos := [15; 15]; s_var := None; s_ret := 3 |};
      {| s_pos := [16; 16]; s_var := None; s_ret := 3 |};
      {| s_pos := [20; 20]; s_var := None; s_ret := 3 |};
      {| s_pos := [21; 21]; s_var := None; s_ret := 3 |};
      {| s_pos := [19; 19]; s_var := None; s_ret := 3 |};
      {| s_pos := [22; 22]; s_var := None; s_ret := 3 |};
      {| s_pos := [17; 17]; s_var := None; s_ret := 3 |};
      {| s_pos := [18; 18]; s_var := None; s_ret := 3 |};
      {| s_pos := [24; 24]; s_var := None; s_ret := 3 |};
      {| s_pos := [23; 23]; s_var := None; s_ret := 3 |}] |};
  (* > *) {| f_sigs := [
      {| s_pos := [3; 3]; s_var := None; s_ret := 3 |};
      {| s_pos := [4; 4]; s_var := None; s_ret := 3 |};
      {| s_pos := [5; 5]; s_var := None; s_ret := 3 |};
      {| s_pos := [6; 6]; s_var := None; s_ret := 3 |};
      {| s_pos := [7; 7]; s_var := None; s_ret := 3 |};
      {| s_pos := [8; 8]; s_var := None; s_ret := 3 |};
      {| s_pos := [9; 9]; s_var := None; s_ret := 3 |};
      {| s_pos := [10; 10]; s_var := None; s_ret := 3 |};
      {| s_pos := [11; 11]; s_var := None; s_ret := 3 |};
      {| s_pos := [12; 12]; s_var := None; s_ret := 3 |};
      {| s_pos := [13; 13]; s_var := None; s_ret := 3 |};
      {| s_pos := [14; 14]; s_var := None; s_ret := 3 |};
      {| s_pos := [15; 15]; s_var := None; s_ret := 3 |};
      {| s_pos := [16; 16]; s_var := None; s_ret := 3 |};
      {| s_pos := [20; 20]; s_var := None; s_ret := 3 |};
      {| s_pos := [21; 21]; s_var := None; s_ret := 3 |};
      {| s_pos := [19; 19]; s_var := None; s_ret := 3 |};
      {| s_pos := [22; 22]; s_var := None; s_ret := 3 |};
      {| s_pos := [17; 17]; s_var := None; s_ret := 3 |};
      {| s_pos := [18; 18]; s_var := None; s_ret := 3 |};
      {| s_pos := [24; 24]; s_var := None; s_ret := 3 |};
      {| s_pos := [23; 23]; s_var := None; s_ret := 3 |}] |};
  (* >= *) {| f_sigs := [
      {| s_pos := [3; 3]; s_var := None; s_ret := 3 |};
      {| s_pos := [4; 4]; s_var := None; s_ret := 3 |};
      {| s_pos := [5; 5]; s_var := None; s_ret := 3 |};
      {| s_pos := [6; 6]; s_var := None; s_ret := 3 |};
      {| s_pos := [7; 7]; s_var := None; s_ret := 3 |};
      {| s_pos := [8; 8]; s_var := None; s_ret := 3 |};
      {| s_pos := [9; 9]; s_var := None; s_ret := 3 |};
      {| s_pos := [10; 10]; s_var := None; s_ret := 3 |};
      {| s_pos := [11; 11]; s_var := None; s_ret := 3 |};
      {| s_pos := [12; 12]; s_var := None; s_ret := 3 |};
      {| s_pos := [13; 13]; s_var := None; s_ret := 3 |};
      {| s_pos := [14; 14]; s_var := None; s_ret := 3 |};
      {| s_pos := [15; 15]; s_var := None; s_ret := 3 |};
      {| s_pos := [16; 16]; s_var := None; s_ret := 3 |};
      {| s_pos := [20; 20]; s_var := None; s_ret := 3 |};
      {| s_pos := [21; 21]; s_var := None; s_ret := 3 |};
      {| s_pos := [19; 19]; s_var := None; s_ret := 3 |};
      {| s_pos := [22; 22]; s_var := None; s_ret := 3 |};
      {| s_pos := [17; 17]; s_var := None; s_ret := 3 |};
      {| s_pos := [18; 18]; s_var := None; s_ret := 3 |};
      {| s_pos := [24; 24]; s_var := None; s_ret := 3 |};
      {| s_pos := [23; 23]; s_var := None; s_ret := 3 |}] |};
  (* is_distinct_from *) {| f_sigs := [
      {| s_pos := [3; 3]; s_var := None; s_ret := 3 |};
      {| s_pos := [4; 4]; s_var := None; s_ret := 3 |};
      {| s_pos := [5; 5]; s_var := None; s_ret := 3 |};
      {| s_pos := [6; 6]; s_var := None; s_ret := 3 |};
      {| s_pos := [7; 7]; s_var := None; s_ret := 3 |};
      {| s_pos := [8; 8]; s_var := None; s_ret := 3 |};
      {| s_pos := [9; 9]; s_var := None; s_ret := 3 |};
      {| s_pos := [10; 10]; s_var := None; s_ret := 3 |};
      {| s_pos := [11; 11]; s_var := None; s_ret := 3 |};
      {| s_pos := [12; 12]; s_var := None; s_ret := 3 |};
      {| s_pos := [13; 13]; s_var := None; s_ret := 3 |};
      {| s_pos := [14; 14]; s_var := None; s_ret := 3 |};
      {| s_pos := [15; 15]; s_var := None; s_ret := 3 |};
      {| s_pos := [16; 16]; s_var := None; s_ret := 3 |};
      {| s_pos := [20; 20]; s_var := None; s_ret := 3 |};
      {| s_pos := [21; 21]; s_var := None; s_ret := 3 |};
      {| s_pos := [19; 19]; s_var := None; s_ret := 3 |};
      {| s_pos := [22; 22]; s_var := None; s_ret := 3 |};
      {| s_pos := [17; 17]; s_var := None; s_ret := 3 |};
      {| s_pos := [18; 18]; s_var := None; s_ret := 3 |};
      {| s_pos := [24; 24]; s_var := None; s_ret := 3 |};
      {| s_pos := [23; 23]; s_var := None; s_ret := 3 |}] |};
  (* is_not_distinct_from *) {| f_sigs := [
      {| s_pos := [3; 3]; s_var := None; s_ret := 3 |};
      {| s_pos := [4; 4]; s_var := None; s_ret := 3 |};
      {| s_pos := [5; 5]; s_var := None; s_ret := 3 |};
      {| s_pos := [6; 6]; s_var := None; s_ret := 3 |};
      {| s_pos := [7; 7]; s_var := None; s_ret := 3 |};
      {| s_pos := [8; 8]; s_var := None; s_ret := 3 |};
      {| s_pos := [9; 9]; s_var := None; s_ret := 3 |};
      {| s_pos := [10; 10]; s_var := None; s_ret := 3 |};
      {| s_pos := [11; 11]; s_var := None; s_ret := 3 |};
      {| s_pos := [12; 12]; s_var := None; s_ret := 3 |};
      {| s_pos := [13; 13]; s_var := None; s_ret := 3 |};
      {| s_pos := [14; 14]; s_var := None; s_ret := 3 |};
      {| s_pos := [15; 15]; s_var := None; s_ret := 3 |};
      {| s_pos := [16; 16]; s_var := None; s_ret := 3 |};
      {| s_pos := [20; 20]; s_var := None; s_ret := 3 |};
      {| s_pos := [21; 21]; s_var := None; s_ret := 3 |};
      {| s_pos := [19; 19]; s_var := None; s_ret := 3 |};
      {| s_pos := [22; 22]; s_var := None; s_ret := 3 |};
      {| s_pos := [17; 17]; s_var := None; s_ret := 3 |};
      {| s_pos := [18; 18]; s_var := None; s_ret := 3 |};
      {| s_pos := [24; 24]; s_var := None; s_ret := 3 |};
      {| s_pos := [23; 23]; s_var := None; s_ret := 3 |}] |};
  (* ceil *) {| f_sigs := [
      {| s_pos := [14]; s_var := None; s_ret := 14 |};
      {| s_pos := [15]; s_var := None; s_ret := 15 |};
      {| s_pos := [16]; s_var := None; s_ret := 16 |}] |};
  (* floor *) {| f_sigs := [
      {| s_pos := [14]; s_var := None; s_ret := 14 |};
      {| s_pos := [15]; s_var := None; s_ret := 15 |};
      {| s_pos := [16]; s_var := None; s_ret := 16 |}] |};
  (* trunc *) {| f_sigs := [
      {| s_pos := [14]; s_var := None; s_ret := 14 |};
      {| s_pos := [15]; s_var := None; s_ret := 15 |};
      {| s_pos := [16]; s_var := None; s_ret := 16 |}] |};
  (* round *) {| f_sigs := [
      {| s_pos := [14]; s_var := None; s_ret := 14 |};
      {| s_pos := [15]; s_var := None; s_ret := 15 |};
      {| s_pos := [16]; s_var := None; s_ret := 16 |};
      {| s_pos := [17]; s_var := None; s_ret := 17 |};
      {| s_pos := [18]; s_var := None; s_ret := 18 |};
      {| s_pos := [17; 7]; s_var := None; s_ret := 17 |};
      {| s_pos := [18; 7]; s_var := None; s_ret := 18 |}] |};
  (* sign *) {| f_sigs := [
      {| s_pos := [14]; s_var := None; s_ret := 14 |};
      {| s_pos := [15]; s_var := None; s_ret := 15 |};
      {| s_pos := [16]; s_var := None; s_ret := 16 |}] |};
  (* abs *) {| f_sigs := [
      {| s_pos := [14]; s_var := None; s_ret := 14 |};
      {| s_pos := [15]; s_var := None; s_ret := 15 |};
      {| s_pos := [16]; s_var := None; s_ret := 16 |}] |};
  (* acos *) {| f_sigs := [
      {| s_pos := [14]; s_var := None; s_ret := 14 |};
      {| s_pos := [15]; s_var := None; s_ret := 15 |};
      {| s_pos := [16]; s_var := None; s_ret := 16 |}] |};
  (* acosh *) {| f_sigs := [
      {| s_pos := [16]; s_var := None; s_ret := 16 |}] |};
  (* asin *) {| f_sigs := [
      {| s_pos := [14]; s_var := None; s_ret := 14 |};
      {| s_pos := [15]; s_var := None; s_ret := 15 |};
      {| s_pos := [16]; s_var := None; s_ret := 16 |}] |};
  (* asinh *) {| f_sigs := [
      {| s_pos := [16]; s_var := None; s_ret := 16 |}] |};
  (* atan *) {| f_sigs := [
      {| s_pos := [14]; s_var := None; s_ret := 14 |};
      {| s_pos := [15]; s_var := None; s_ret := 15 |};
      {| s_pos := [16]; s_var := None; s_ret := 16 |}] |};
  (* atan2 *) {| f_sigs := [
      {| s_pos := [16; 16]; s_var := None; s_ret := 16 |}] |};
  (* atanh *) {| f_sigs := [
      {| s_pos := [16]; s_var := None; s_ret := 16 |}] |};
  (* cbrt *) {| f_sigs := [
      {| s_pos := [14]; s_var := None; s_ret := 14 |};
      {| s_pos := [15]; s_var := None; s_ret := 15 |};
      {| s_pos := [16]; s_var := None; s_ret := 16 |}] |};
  (* cos *) {| f_sigs := [
      {| s_pos := [14]; s_var := None; s_ret := 14 |};
      {| s_pos := [15]; s_var := None; s_ret := 15 |};
      {| s_pos := [16]; s_var := None; s_ret := 16 |}] |};
  (* cosh *) {| f_sigs := [
      {| s_pos := [16]; s_var := None; s_ret := 16 |}] |};
  (* cot *) {| f_sigs := [
      {| s_pos := [16]; s_var := None; s_ret := 16 |}] |};
  (* exp *) {| f_sigs := [
      {| s_pos := [14]; s_var := None; s_ret := 14 |};
      {| s_pos := [15]; s_var := None; s_ret := 15 |};
      {| s_pos := [16]; s_var := None; s_ret := 16 |}] |};
  (* factorial *) {| f_sigs := [
      {| s_pos := [7]; s_var := None; s_ret := 8 |}] |};
  (* ln *) {| f_sigs := [
      {| s_pos := [14]; s_var := None; s_ret := 14 |};
      {| s_pos := [15]; s_var := None; s_ret := 15 |};
      {| s_pos := [16]; s_var := None; s_ret := 16 |}] |};
  (* log *) {| f_sigs := [
      {| s_pos := [14]; s_var := None; s_ret := 14 |};
      {| s_pos := [15]; s_var := None; s_ret := 15 |};
      {| s_pos := [16]; s_var := None; s_ret := 16 |}] |};
  (* log2 *) {| f_sigs := [
      {| s_pos := [14]; s_var := None; s_ret := 14 |};
      {| s_pos := [15]; s_var := None; s_ret := 15 |};
      {| s_pos := [16]; s_var := None; s_ret := 16 |}] |};
  (* pi *) {| f_sigs := [
      {| s_pos := []; s_var := None; s_ret := 16 |}] |};
  (* power *) {| f_sigs := [
      {| s_pos := [16; 16]; s_var := None; s_ret := 16 |}] |};
  (* sin *) {| f_sigs := [
      {| s_pos := [14]; s_var := None; s_ret := 14 |};
      {| s_pos := [15]; s_var := None; s_ret := 15 |};
      {| s_pos := [16]; s_var := None; s_ret := 16 |}] |};
  (* sinh *) {| f_sigs := [
      {| s_pos := [16]; s_var := None; s_ret := 16 |}] |};
  (* sqrt *) {| f_sigs := [
      {| s_pos := [14]; s_var := None; s_ret := 14 |};
      {| s_pos := [15]; s_var := None; s_ret := 15 |};
      {| s_pos := [16]; s_var := None; s_ret := 16 |}] |};
  (* tan *) {| f_sigs := [
      {| s_pos := [14]; s_var := None; s_ret := 14 |};
      {| s_pos := [15]; s_var := None; s_ret := 15 |};
      {| s_pos := [16]; s_var := None; s_ret := 16 |}] |};
  (* tanh *) {| f_sigs := [
      {| s_pos := [16]; s_var := None; s_ret := 16 |}] |};
  (* degrees *) {| f_sigs := [
      {| s_pos := [14]; s_var := None; s_ret := 14 |};
      {| s_pos := [15]; s_var := None; s_ret := 15 |};
      {| s_pos := [16]; s_var := None; s_ret := 16 |}] |};
  (* radians *) {| f_sigs := [
      {| s_pos := [14]; s_var := None; s_ret := 14 |};
      {| s_pos := [15]; s_var := None; s_ret := 15 |};
      {| s_pos := [16]; s_var := None; s_ret := 16 |}] |};
  (* isnan *) {| f_sigs := [
      {| s_pos := [14]; s_var := None; s_ret := 3 |};
      {| s_pos := [15]; s_var := None; s_ret := 3 |};
      {| s_pos := [16]; s_var := None; s_ret := 3 |}] |};
  (* isfinite *) {| f_sigs := [
      {| s_pos := [14]; s_var := None; s_ret := 3 |};
      {| s_pos := [15]; s_var := None; s_ret := 3 |};
      {| s_pos := [16]; s_var := None; s_ret := 3 |}] |};
  (* isinf *) {| f_sigs := [
      {| s_pos := [14]; s_var := None; s_ret := 3 |};
      {| s_pos := [15]; s_var := None; s_ret := 3 |};
      {| s_pos := [16]; s_var := None; s_ret := 3 |}] |};
  (* gcd *) {| f_sigs := [
      {| s_pos := [4; 4]; s_var := None; s_ret := 4 |};
      {| s_pos := [5; 5]; s_var := None; s_ret := 5 |};
      {| s_pos := [6; 6]; s_var := None; s_ret := 6 |};
      {| s_pos := [7; 7]; s_var := None; s_ret := 7 |};
      {| s_pos := [8; 8]; s_var := None; s_ret := 8 |}] |};
  (* lower *) {| f_sigs := [
      {| s_pos := [23]; s_var := None; s_ret := 23 |}] |};
  (* upper *) {| f_sigs := [
      {| s_pos := [23]; s_var := None; s_ret := 23 |}] |};
  (* initcap *) {| f_sigs := [
      {| s_pos := [23]; s_var := None; s_ret := 23 |}] |};
  (* repeat *) {| f_sigs := [
      {| s_pos := [23; 7]; s_var := None; s_ret := 23 |}] |};
  (* substring *) {| f_sigs := [
      {| s_pos := [23; 7]; s_var := None; s_ret := 23 |};
      {| s_pos := [23; 7; 7]; s_var := None; s_ret := 23 |}] |};
  (* starts_with *) {| f_sigs := [
      {| s_pos := [23; 23]; s_var := None; s_ret := 3 |}] |};
  (* ends_with *) {| f_sigs := [
      {| s_pos := [23; 23]; s_var := None; s_ret := 3 |}] |};
  (* contains *) {| f_sigs := [
      {| s_pos := [23; 23]; s_var := None; s_ret := 3 |}] |};
  (* length *) {| f_sigs := [
      {| s_pos := [23]; s_var := None; s_ret := 7 |}] |};
  (* byte_length *) {| f_sigs := [
      {| s_pos := [23]; s_var := None; s_ret := 7 |};
      {| s_pos := [24]; s_var := None; s_ret := 7 |}] |};
  (* bit_length *) {| f_sigs := [
      {| s_pos := [23]; s_var := None; s_ret := 7 |};
      {| s_pos := [24]; s_var := None; s_ret := 7 |}] |};
  (* concat *) {| f_sigs := [
      {| s_pos := [23]; s_var := Some 23; s_ret := 23 |}] |};
  (* regexp_like *) {| f_sigs := [
      {| s_pos := [23; 23]; s_var := None; s_ret := 3 |}] |};
  (* regexp_replace *) {| f_sigs := [
      {| s_pos := [23; 23; 23]; s_var := None; s_ret := 23 |}] |};
  (* regexp_count *) {| f_sigs := [
      {| s_pos := [23; 23]; s_var := None; s_ret := 7 |}] |};
  (* regexp_instr *) {| f_sigs := [
      {| s_pos := [23; 23]; s_var := None; s_ret := 7 |}] |};
  (* ascii *) {| f_sigs := [
      {| s_pos := [23]; s_var := None; s_ret := 6 |}] |};
  (* lpad *) {| f_sigs := [
      {| s_pos := [23; 7]; s_var := None; s_ret := 23 |};
      {| s_pos := [23; 7; 23]; s_var := None; s_ret := 23 |}] |};
  (* rpad *) {| f_sigs := [
      {| s_pos := [23; 7]; s_var := None; s_ret := 23 |};
      {| s_pos := [23; 7; 23]; s_var := None; s_ret := 23 |}] |};
  (* ltrim *) {| f_sigs := [
      {| s_pos := [23; 23]; s_var := None; s_ret := 23 |};
      {| s_pos := [23]; s_var := None; s_ret := 23 |}] |};
  (* rtrim *) {| f_sigs := [
      {| s_pos := [23; 23]; s_var := None; s_ret := 23 |};
      {| s_pos := [23]; s_var := None; s_ret := 23 |}] |};
  (* btrim *) {| f_sigs := [
      {| s_pos := [23; 23]; s_var := None; s_ret := 23 |};
      {| s_pos := [23]; s_var := None; s_ret := 23 |}] |};
  (* like *) {| f_sigs := [
      {| s_pos := [23; 23]; s_var := None; s_ret := 3 |}] |};
  (* left *) {| f_sigs := [
      {| s_pos := [23; 7]; s_var := None; s_ret := 23 |}] |};
  (* right *) {| f_sigs := [
      {| s_pos := [23; 7]; s_var := None; s_ret := 23 |}] |};
  (* split_part *) {| f_sigs := [
      {| s_pos := [23; 23; 7]; s_var := None; s_ret := 23 |}] |};
  (* strpos *) {| f_sigs := [
      {| s_pos := [23; 23]; s_var := None; s_ret := 7 |}] |};
  (* reverse *) {| f_sigs := [
      {| s_pos := [23]; s_var := None; s_ret := 23 |}] |};
  (* replace *) {| f_sigs := [
      {| s_pos := [23; 23; 23]; s_var := None; s_ret := 23 |}] |};
  (* translate *) {| f_sigs := [
      {| s_pos := [23; 23; 23]; s_var := None; s_ret := 23 |}] |};
  (* md5 *) {| f_sigs := [
      {| s_pos := [23]; s_var := None; s_ret := 23 |}] |};
  (* struct_pack *) {| f_sigs := [
      {| s_pos := []; s_var := Some 0; s_ret := 25 |}] |};
  (* struct_extract *) {| f_sigs := [
      {| s_pos := [25]; s_var := None; s_ret := 0 |}] |};
  (* negate *) {| f_sigs := [
      {| s_pos := [14]; s_var := None; s_ret := 14 |};
      {| s_pos := [15]; s_var := None; s_ret := 15 |};
      {| s_pos := [16]; s_var := None; s_ret := 16 |};
      {| s_pos := [4]; s_var := None; s_ret := 4 |};
      {| s_pos := [5]; s_var := None; s_ret := 5 |};
      {| s_pos := [6]; s_var := None; s_ret := 6 |};
      {| s_pos := [7]; s_var := None; s_ret := 7 |};
      {| s_pos := [8]; s_var := None; s_ret := 8 |}] |};
  (* not *) {| f_sigs := [
      {| s_pos := [3]; s_var := None; s_ret := 3 |}] |};
  (* random *) {| f_sigs := [
      {| s_pos := []; s_var := None; s_ret := 16 |}] |};
  (* list_value *) {| f_sigs := [
      {| s_pos := []; s_var := Some 0; s_ret := 26 |}] |};
  (* list_extract *) {| f_sigs := [
      {| s_pos := [26; 7]; s_var := None; s_ret := 0 |}] |};
  (* date_part *) {| f_sigs := [
      {| s_pos := [23; 20]; s_var := None; s_ret := 17 |};
      {| s_pos := [23; 21]; s_var := None; s_ret := 17 |};
      {| s_pos := [23; 19]; s_var := None; s_ret := 17 |}] |};
  (* date_trunc *) {| f_sigs := [
      {| s_pos := [23; 19]; s_var := None; s_ret := 19 |}] |};
  (* epoch *) {| f_sigs := [
      {| s_pos := [7]; s_var := None; s_ret := 19 |}] |};
  (* epoch_ms *) {| f_sigs := [
      {| s_pos := [7]; s_var := None; s_ret := 19 |}] |};
  (* is_null *) {| f_sigs := [
      {| s_pos := [0]; s_var := None; s_ret := 3 |}] |};
  (* is_not_null *) {| f_sigs := [
      {| s_pos := [0]; s_var := None; s_ret := 3 |}] |};
  (* is_true *) {| f_sigs := [
      {| s_pos := [3]; s_var := None; s_ret := 3 |}] |};
  (* is_not_true *) {| f_sigs := [
      {| s_pos := [3]; s_var := None; s_ret := 3 |}] |};
  (* is_false *) {| f_sigs := [
      {| s_pos := [3]; s_var := None; s_ret := 3 |}] |};
  (* is_not_false *) {| f_sigs := [
      {| s_pos := [3]; s_var := None; s_ret := 3 |}] |};
  (* l2_distance *) {| f_sigs := [
      {| s_pos := [26; 26]; s_var := None; s_ret := 16 |};
      {| s_pos := [26; 26]; s_var := None; s_ret := 16 |};
      {| s_pos := [26; 26]; s_var := None; s_ret := 16 |}] |};
  (* debug_error_on_execute *) {| f_sigs := [
      {| s_pos := []; s_var := None; s_ret := 6 |}] |}
].
Definition aggregate_sets : list fset := [
  (* sum *) {| f_sigs := [
      {| s_pos := [16]; s_var := None; s_ret := 16 |};
      {| s_pos := [4]; s_var := None; s_ret := 7 |};
      {| s_pos := [5]; s_var := None; s_ret := 7 |};
      {| s_pos := [6]; s_var := None; s_ret := 7 |};
      {| s_pos := [7]; s_var := None; s_ret := 7 |};
      {| s_pos := [12]; s_var := None; s_ret := 8 |};
      {| s_pos := [17]; s_var := None; s_ret := 18 |};
      {| s_pos := [18]; s_var := None; s_ret := 18 |}] |};
  (* avg *) {| f_sigs := [
      {| s_pos := [17]; s_var := None; s_ret := 16 |};
      {| s_pos := [18]; s_var := None; s_ret := 16 |};
      {| s_pos := [7]; s_var := None; s_ret := 16 |};
      {| s_pos := [12]; s_var := None; s_ret := 16 |};
      {| s_pos := [16]; s_var := None; s_ret := 16 |}] |};
  (* count *) {| f_sigs := [
      {| s_pos := [0]; s_var := None; s_ret := 7 |}] |};
  (* min *) {| f_sigs := [
      {| s_pos := [3]; s_var := None; s_ret := 3 |};
      {| s_pos := [4]; s_var := None; s_ret := 4 |};
      {| s_pos := [5]; s_var := None; s_ret := 5 |};
      {| s_pos := [6]; s_var := None; s_ret := 6 |};
      {| s_pos := [7]; s_var := None; s_ret := 7 |};
      {| s_pos := [8]; s_var := None; s_ret := 8 |};
      {| s_pos := [9]; s_var := None; s_ret := 9 |};
      {| s_pos := [10]; s_var := None; s_ret := 10 |};
      {| s_pos := [11]; s_var := None; s_ret := 11 |};
      {| s_pos := [12]; s_var := None; s_ret := 12 |};
      {| s_pos := [13]; s_var := None; s_ret := 13 |};
      {| s_pos := [14]; s_var := None; s_ret := 14 |};
      {| s_pos := [15]; s_var := None; s_ret := 15 |};
      {| s_pos := [16]; s_var := None; s_ret := 16 |};
      {| s_pos := [17]; s_var := None; s_ret := 17 |};
      {| s_pos := [18]; s_var := None; s_ret := 18 |};
      {| s_pos := [20]; s_var := None; s_ret := 20 |};
      {| s_pos := [21]; s_var := None; s_ret := 21 |};
      {| s_pos := [19]; s_var := None; s_ret := 19 |};
      {| s_pos := [22]; s_var := None; s_ret := 22 |};
      {| s_pos := [23]; s_var := None; s_ret := 23 |};
      {| s_pos := [24]; s_var := None; s_ret := 24 |}] |};
  (* max *) {| f_sigs := [
      {| s_pos := [3]; s_var := None; s_ret := 3 |};
      {| s_pos := [4]; s_var := None; s_ret := 4 |};
      {| s_pos := [5]; s_var := None; s_ret := 5 |};
      {| s_pos := [6]; s_var := None; s_ret := 6 |};
      {| s_pos := [7]; s_var := None; s_ret := 7 |};
      {| s_pos := [8]; s_var := None; s_ret := 8 |};
      {| s_pos := [9]; s_var := None; s_ret := 9 |};
      {| s_pos := [10]; s_var := None; s_ret := 10 |};
      {| s_pos := [11]; s_var := None; s_ret := 11 |};
      {| s_pos := [12]; s_var := None; s_ret := 12 |};
      {| s_pos := [13]; s_var := None; s_ret := 13 |};
      {| s_pos := [14]; s_var := None; s_ret := 14 |};
      {| s_pos := [15]; s_var := None; s_ret := 15 |};
      {| s_pos := [16]; s_var := None; s_ret := 16 |};
      {| s_pos := [17]; s_var := None; s_ret := 17 |};
      {| s_pos := [18]; s_var := None; s_ret := 18 |};
      {| s_pos := [20]; s_var := None; s_ret := 20 |};
      {| s_pos := [21]; s_var := None; s_ret := 21 |};
      {| s_pos := [19]; s_var := None; s_ret := 19 |};
      {| s_pos := [22]; s_var := None; s_ret := 22 |};
      {| s_pos := [23]; s_var := None; s_ret := 23 |};
      {| s_pos := [24]; s_var := None; s_ret := 24 |}] |};
  (* first *) {| f_sigs := [
      {| s_pos := [3]; s_var := None; s_ret := 3 |};
      {| s_pos := [4]; s_var := None; s_ret := 4 |};
      {| s_pos := [5]; s_var := None; s_ret := 5 |};
      {| s_pos := [6]; s_var := None; s_ret := 6 |};
      {| s_pos := [7]; s_var := None; s_ret := 7 |};
      {| s_pos := [8]; s_var := None; s_ret := 8 |};
      {| s_pos := [9]; s_var := None; s_ret := 9 |};
      {| s_pos := [10]; s_var := None; s_ret := 10 |};
      {| s_pos := [11]; s_var := None; s_ret := 11 |};
      {| s_pos := [12]; s_var := None; s_ret := 12 |};
      {| s_pos := [13]; s_var := None; s_ret := 13 |};
      {| s_pos := [14]; s_var := None; s_ret := 14 |};
      {| s_pos := [15]; s_var := None; s_ret := 15 |};
      {| s_pos := [16]; s_var := None; s_ret := 16 |};
      {| s_pos := [17]; s_var := None; s_ret := 17 |};
      {| s_pos := [18]; s_var := None; s_ret := 18 |};
      {| s_pos := [20]; s_var := None; s_ret := 20 |};
      {| s_pos := [21]; s_var := None; s_ret := 21 |};
      {| s_pos := [19]; s_var := None; s_ret := 19 |};
      {| s_pos := [22]; s_var := None; s_ret := 22 |};
      {| s_pos := [23]; s_var := None; s_ret := 23 |};
      {| s_pos := [24]; s_var := None; s_ret := 24 |}] |};
  (* stddev_pop *) {| f_sigs := [
      {| s_pos := [16]; s_var := None; s_ret := 16 |}] |};
  (* stddev_samp *) {| f_sigs := [
      {| s_pos := [16]; s_var := None; s_ret := 16 |}] |};
  (* var_pop *) {| f_sigs := [
      {| s_pos := [16]; s_var := None; s_ret := 16 |}] |};
  (* var_samp *) {| f_sigs := [
      {| s_pos := [16]; s_var := None; s_ret := 16 |}] |};
  (* covar_pop *) {| f_sigs := [
      {| s_pos := [16; 16]; s_var := None; s_ret := 16 |}] |};
  (* covar_samp *) {| f_sigs := [
      {| s_pos := [16; 16]; s_var := None; s_ret := 16 |}] |};
  (* corr *) {| f_sigs := [
      {| s_pos := [16; 16]; s_var := None; s_ret := 16 |}] |};
  (* regr_count *) {| f_sigs := [
      {| s_pos := [16; 16]; s_var := None; s_ret := 7 |}] |};
  (* regr_avgy *) {| f_sigs := [
      {| s_pos := [16; 16]; s_var := None; s_ret := 16 |}] |};
  (* regr_avgx *) {| f_sigs := [
      {| s_pos := [16; 16]; s_var := None; s_ret := 16 |}] |};
  (* regr_r2 *) {| f_sigs := [
      {| s_pos := [16; 16]; s_var := None; s_ret := 16 |}] |};
  (* regr_slope *) {| f_sigs := [
      {| s_pos := [16; 16]; s_var := None; s_ret := 16 |}] |};
  (* string_agg *) {| f_sigs := [
      {| s_pos := [23; 23]; s_var := None; s_ret := 23 |}] |};
  (* bool_and *) {| f_sigs := [
      {| s_pos := [3]; s_var := None; s_ret := 3 |}] |};
  (* bool_or *) {| f_sigs := [
      {| s_pos := [3]; s_var := None; s_ret := 3 |}] |};
  (* bit_and *) {| f_sigs := [
      {| s_pos := [4]; s_var := None; s_ret := 4 |};
      {| s_pos := [5]; s_var := None; s_ret := 5 |};
      {| s_pos := [6]; s_var := None; s_ret := 6 |};
      {| s_pos := [7]; s_var := None; s_ret := 7 |};
      {| s_pos := [9]; s_var := None; s_ret := 9 |};
      {| s_pos := [10]; s_var := None; s_ret := 10 |};
      {| s_pos := [11]; s_var := None; s_ret := 11 |};
      {| s_pos := [12]; s_var := None; s_ret := 12 |}] |};
  (* bit_or *) {| f_sigs := [
      {| s_pos := [4]; s_var := None; s_ret := 4 |};
      {| s_pos := [5]; s_var := None; s_ret := 5 |};
      {| s_pos := [6]; s_var := None; s_ret := 6 |};
      {| s_pos := [7]; s_var := None; s_ret := 7 |};
      {| s_pos := [9]; s_var := None; s_ret := 9 |};
      {| s_pos := [10]; s_var := None; s_ret := 10 |};
      {| s_pos := [11]; s_var := None; s_ret := 11 |};
      {| s_pos := [12]; s_var := None; s_ret := 12 |}] |};
  (* approx_count_distinct *) {| f_sigs := [
      {| s_pos := [0]; s_var := None; s_ret := 7 |}] |};
  (* approx_quantile *) {| f_sigs := [
      {| s_pos := [16; 16]; s_var := None; s_ret := 16 |}] |}
].
Definition scalar_names : list string := ["+"; "-"; "/"; "*"; "%"; "lcm"; "xor"; "shl"; "shr"; "and"; "or"; "="; "!="; "<"; "<="; ">"; ">="; "is_distinct_from"; "is_not_distinct_from"; "ceil"; "floor"; "trunc"; "round"; "sign"; "abs"; "acos"; "acosh"; "asin"; "asinh"; "atan"; "atan2"; "atanh"; "cbrt"; "cos"; "cosh"; "cot"; "exp"; "factorial"; "ln"; "log"; "log2"; "pi"; "power"; "sin"; "sinh"; "sqrt"; "tan"; "tanh"; "degrees"; "radians"; "isnan"; "isfinite"; "isinf"; "gcd"; "lower"; "upper"; "initcap"; "repeat"; "substring"; "starts_with"; "ends_with"; "contains"; "length"; "byte_length"; "bit_length"; "concat"; "regexp_like"; "regexp_replace"; "regexp_count"; "regexp_instr"; "ascii"; "lpad"; "rpad"; "ltrim"; "rtrim"; "btrim"; "like"; "left"; "right"; "split_part"; "strpos"; "reverse"; "replace"; "translate"; "md5"; "struct_pack"; "struct_extract"; "negate"; "not"; "random"; "list_value"; "list_extract"; "date_part"; "date_trunc"; "epoch"; "epoch_ms"; "is_null"; "is_not_null"; "is_true"; "is_not_true"; "is_false"; "is_not_false"; "l2_distance"; "debug_error_on_execute"].
Definition aggregate_names : list string := ["sum"; "avg"; "count"; "min"; "max"; "first"; "stddev_pop"; "stddev_samp"; "var_pop"; "var_samp"; "covar_pop"; "covar_samp"; "corr"; "regr_count"; "regr_avgy"; "regr_avgx"; "regr_r2"; "regr_slope"; "string_agg"; "bool_and"; "bool_or"; "bit_and"; "bit_or"; "approx_count_distinct"; "approx_quantile"].
