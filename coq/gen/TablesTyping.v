(* GENERATED on every run by vlib/tables_typing.py from `gv_typing dump-tables` (the built crates) and
   crates/glaredb_core/src/functions/candidate.rs.  Do not edit. *)
From Coq Require Import NArith List String.
From GV Require Import model.Resolve.
Import ListNotations.
Open Scope string_scope.
Open Scope N_scope.

Definition type_names : list string := ["Any"; "Table"; "Null"; "Boolean"; "Int8"; "Int16"; "Int32"; "Int64"; "Int128"; "UInt8"; "UInt16"; "UInt32"; "UInt64"; "UInt128"; "Float16"; "Float32"; "Float64"; "Decimal64"; "Decimal128"; "Timestamp"; "Date32"; "Date64"; "Interval"; "Utf8"; "Binary"; "Struct"; "List"].
Definition n_types : N := 27.
Definition tid_any : option N := Some 0.
Definition tid_i8 : option N := Some 4.
Definition tid_i16 : option N := Some 5.
Definition tid_i32 : option N := Some 6.
Definition tid_i64 : option N := Some 7.
Definition no_cast_score : option N := Some 800.
Definition refined_literal_bonus : option N := Some 100.
Definition default_score_i8 : option N := Some 160.
Definition default_score_i16 : option N := Some 161.
Definition default_score_i32 : option N := Some 191.
Definition default_score_i64 : option N := Some 190.
Definition variadic_same_score : option N := Some 200.
Definition score_table : list (list (option N)) := [
  [Some 10; None; None; None; None; None; None; None; None; None; None; None; None; None; None; None; None; None; None; None; None; None; None; None; None; None; None];
  [Some 10; None; None; None; None; None; None; None; None; None; None; None; None; None; None; None; None; None; None; None; None; None; None; None; None; None; None];
  [Some 10; None; None; Some 162; Some 160; Some 161; Some 191; Some 190; None; Some 152; Some 152; Some 154; Some 153; None; Some 179; Some 180; Some 181; Some 141; Some 140; None; Some 131; None; Some 132; Some 80; None; None; Some 10];
  [Some 10; None; None; None; None; None; None; None; None; None; None; None; None; None; None; None; None; None; None; None; None; None; None; None; None; None; None];
  [Some 10; None; None; None; Some 160; Some 161; Some 191; Some 190; None; None; None; None; None; None; Some 179; Some 180; Some 181; Some 141; Some 140; None; None; None; None; Some 80; None; None; None];
  [Some 10; None; None; None; None; Some 161; Some 191; Some 190; None; None; None; None; None; None; Some 179; Some 180; Some 181; Some 141; Some 140; None; None; None; None; Some 80; None; None; None];
  [Some 10; None; None; None; None; None; Some 191; Some 190; None; None; None; None; None; None; Some 179; Some 180; Some 181; Some 141; Some 140; None; None; None; None; Some 80; None; None; None];
  [Some 10; None; None; None; None; None; None; Some 190; None; None; None; None; None; None; None; Some 180; Some 181; None; Some 140; None; None; None; None; Some 80; None; None; None];
  [Some 10; None; None; None; None; None; None; None; None; None; None; None; None; None; None; Some 180; Some 181; None; None; None; None; None; None; Some 80; None; None; None];
  [Some 10; None; None; None; None; Some 161; Some 191; Some 190; None; None; Some 152; Some 154; Some 153; None; Some 179; Some 180; Some 181; Some 141; Some 140; None; None; None; None; Some 80; None; None; None];
  [Some 10; None; None; None; None; None; Some 191; Some 190; None; None; Some 152; Some 154; Some 153; None; Some 179; Some 180; Some 181; Some 141; Some 140; None; None; None; None; Some 80; None; None; None];
  [Some 10; None; None; None; None; None; None; Some 190; None; None; None; None; Some 153; None; None; Some 180; Some 181; Some 141; Some 140; None; None; None; None; Some 80; None; None; None];
  [Some 10; None; None; None; None; None; None; None; None; None; None; None; Some 153; None; None; Some 180; Some 181; Some 141; Some 140; None; None; None; None; Some 80; None; None; None];
  [Some 10; None; None; None; None; None; None; None; None; None; None; None; None; None; None; Some 180; Some 181; None; None; None; None; None; None; Some 80; None; None; None];
  [Some 10; None; None; None; None; None; None; None; None; None; None; None; None; None; Some 179; Some 180; Some 181; Some 141; Some 140; None; None; None; None; Some 80; None; None; None];
  [Some 10; None; None; None; None; None; None; None; None; None; None; None; None; None; Some 179; Some 180; Some 181; Some 141; Some 140; None; None; None; None; Some 80; None; None; None];
  [Some 10; None; None; None; None; None; None; None; None; None; None; None; None; None; Some 179; Some 180; Some 181; Some 141; Some 140; None; None; None; None; Some 80; None; None; None];
  [Some 10; None; None; None; None; None; None; None; None; None; None; None; None; None; None; Some 180; Some 181; Some 141; Some 140; None; None; None; None; Some 80; None; None; None];
  [Some 10; None; None; None; None; None; None; None; None; None; None; None; None; None; None; Some 180; Some 181; None; Some 140; None; None; None; None; Some 80; None; None; None];
  [Some 10; None; None; None; None; None; None; None; None; None; None; None; None; None; None; None; None; None; None; None; None; None; None; Some 80; None; None; None];
  [Some 10; None; None; None; None; None; None; None; None; None; None; None; None; None; None; None; None; None; None; None; None; None; None; None; None; None; None];
  [Some 10; None; None; None; None; None; None; None; None; None; None; None; None; None; None; None; None; None; None; None; None; None; None; None; None; None; None];
  [Some 10; None; None; None; None; None; None; None; None; None; None; None; None; None; None; None; None; None; None; None; None; None; None; Some 80; None; None; None];
  [Some 10; None; None; Some 162; Some 160; Some 161; Some 191; Some 190; None; None; None; None; None; None; None; Some 180; Some 181; Some 141; Some 140; None; Some 131; None; Some 132; None; None; None; None];
  [Some 10; None; None; None; None; None; None; None; None; None; None; None; None; None; None; None; None; None; None; None; None; None; None; Some 80; None; None; None];
  [Some 10; None; None; None; None; None; None; None; None; None; None; None; None; None; None; None; None; None; None; None; None; None; None; None; None; None; None];
  [Some 10; None; None; None; None; None; None; None; None; None; None; None; None; None; None; None; None; None; None; None; None; None; None; None; None; None; None]
].
Definition scalar_sets : list fset := [
  {| f_name := "+"; f_sigs := [
      {| s_pos := [14; 14]; s_var := None; s_ret := 14 |};
      {| s_pos := [15; 15]; s_var := None; s_ret := 15 |};
      {| s_pos := [16; 16]; s_var := None; s_ret := 16 |};
      {| s_pos := [4; 4]; s_var := None; s_ret := 4 |};
      {| s_pos := [5; 5]; s_var := None; s_ret := 5 |};
      {| s_pos := [6; 6]; s_var := None; s_ret := 6 |};
      {| s_pos := [7; 7]; s_var := None; s_ret := 7 |};
      {| s_pos := [8; 8]; s_var := None; s_ret := 8 |};
      {| s_pos := [9; 9]; s_var := None; s_ret := 9 |};
      {| s_pos := [10; 10]; s_var := None; s_ret := 10 |};
      {| s_pos := [11; 11]; s_var := None; s_ret := 11 |};
      {| s_pos := [12; 12]; s_var := None; s_ret := 12 |};
      {| s_pos := [13; 13]; s_var := None; s_ret := 13 |};
      {| s_pos := [17; 17]; s_var := None; s_ret := 17 |};
      {| s_pos := [17; 4]; s_var := None; s_ret := 17 |};
      {| s_pos := [17; 5]; s_var := None; s_ret := 17 |};
      {| s_pos := [17; 6]; s_var := None; s_ret := 17 |};
      {| s_pos := [4; 17]; s_var := None; s_ret := 17 |};
      {| s_pos := [5; 17]; s_var := None; s_ret := 17 |};
      {| s_pos := [6; 17]; s_var := None; s_ret := 17 |};
      {| s_pos := [18; 18]; s_var := None; s_ret := 18 |};
      {| s_pos := [18; 4]; s_var := None; s_ret := 18 |};
      {| s_pos := [18; 5]; s_var := None; s_ret := 18 |};
      {| s_pos := [18; 6]; s_var := None; s_ret := 18 |};
      {| s_pos := [18; 7]; s_var := None; s_ret := 18 |};
      {| s_pos := [4; 18]; s_var := None; s_ret := 18 |};
      {| s_pos := [5; 18]; s_var := None; s_ret := 18 |};
      {| s_pos := [6; 18]; s_var := None; s_ret := 18 |};
      {| s_pos := [7; 18]; s_var := None; s_ret := 18 |};
      {| s_pos := [20; 6]; s_var := None; s_ret := 20 |};
      {| s_pos := [6; 20]; s_var := None; s_ret := 20 |}] |};
  {| f_name := "-"; f_sigs := [
      {| s_pos := [14; 14]; s_var := None; s_ret := 14 |};
      {| s_pos := [15; 15]; s_var := None; s_ret := 15 |};
      {| s_pos := [16; 16]; s_var := None; s_ret := 16 |};
      {| s_pos := [4; 4]; s_var := None; s_ret := 4 |};
      {| s_pos := [5; 5]; s_var := None; s_ret := 5 |};
      {| s_pos := [6; 6]; s_var := None; s_ret := 6 |};
      {| s_pos := [7; 7]; s_var := None; s_ret := 7 |};
      {| s_pos := [8; 8]; s_var := None; s_ret := 8 |};
      {| s_pos := [9; 9]; s_var := None; s_ret := 9 |};
      {| s_pos := [10; 10]; s_var := None; s_ret := 10 |};
      {| s_pos := [11; 11]; s_var := None; s_ret := 11 |};
      {| s_pos := [12; 12]; s_var := None; s_ret := 12 |};
      {| s_pos := [13; 13]; s_var := None; s_ret := 13 |};
      {| s_pos := [17; 17]; s_var := None; s_ret := 17 |};
      {| s_pos := [17; 4]; s_var := None; s_ret := 17 |};
      {| s_pos := [17; 5]; s_var := None; s_ret := 17 |};
      {| s_pos := [17; 6]; s_var := None; s_ret := 17 |};
      {| s_pos := [4; 17]; s_var := None; s_ret := 17 |};
      {| s_pos := [5; 17]; s_var := None; s_ret := 17 |};
      {| s_pos := [6; 17]; s_var := None; s_ret := 17 |};
      {| s_pos := [18; 18]; s_var := None; s_ret := 18 |};
      {| s_pos := [18; 4]; s_var := None; s_ret := 18 |};
      {| s_pos := [18; 5]; s_var := None; s_ret := 18 |};
      {| s_pos := [18; 6]; s_var := None; s_ret := 18 |};
      {| s_pos := [18; 7]; s_var := None; s_ret := 18 |};
      {| s_pos := [4; 18]; s_var := None; s_ret := 18 |};
      {| s_pos := [5; 18]; s_var := None; s_ret := 18 |};
      {| s_pos := [6; 18]; s_var := None; s_ret := 18 |};
      {| s_pos := [7; 18]; s_var := None; s_ret := 18 |};
      {| s_pos := [20; 6]; s_var := None; s_ret := 20 |}] |};
  {| f_name := "/"; f_sigs := [
      {| s_pos := [14; 14]; s_var := None; s_ret := 14 |};
      {| s_pos := [15; 15]; s_var := None; s_ret := 15 |};
      {| s_pos := [16; 16]; s_var := None; s_ret := 16 |};
      {| s_pos := [4; 4]; s_var := None; s_ret := 4 |};
      {| s_pos := [5; 5]; s_var := None; s_ret := 5 |};
      {| s_pos := [6; 6]; s_var := None; s_ret := 6 |};
      {| s_pos := [7; 7]; s_var := None; s_ret := 7 |};
      {| s_pos := [8; 8]; s_var := None; s_ret := 8 |};
      {| s_pos := [9; 9]; s_var := None; s_ret := 9 |};
      {| s_pos := [10; 10]; s_var := None; s_ret := 10 |};
      {| s_pos := [11; 11]; s_var := None; s_ret := 11 |};
      {| s_pos := [12; 12]; s_var := None; s_ret := 12 |};
      {| s_pos := [13; 13]; s_var := None; s_ret := 13 |};
      {| s_pos := [17; 17]; s_var := None; s_ret := 16 |};
      {| s_pos := [18; 18]; s_var := None; s_ret := 16 |}] |};
  {| f_name := "*"; f_sigs := [
      {| s_pos := [14; 14]; s_var := None; s_ret := 14 |};
      {| s_pos := [15; 15]; s_var := None; s_ret := 15 |};
      {| s_pos := [16; 16]; s_var := None; s_ret := 16 |};
      {| s_pos := [4; 4]; s_var := None; s_ret := 4 |};
      {| s_pos := [5; 5]; s_var := None; s_ret := 5 |};
      {| s_pos := [6; 6]; s_var := None; s_ret := 6 |};
      {| s_pos := [7; 7]; s_var := None; s_ret := 7 |};
      {| s_pos := [8; 8]; s_var := None; s_ret := 8 |};
      {| s_pos := [9; 9]; s_var := None; s_ret := 9 |};
      {| s_pos := [10; 10]; s_var := None; s_ret := 10 |};
      {| s_pos := [11; 11]; s_var := None; s_ret := 11 |};
      {| s_pos := [12; 12]; s_var := None; s_ret := 12 |};
      {| s_pos := [13; 13]; s_var := None; s_ret := 13 |};
      {| s_pos := [17; 17]; s_var := None; s_ret := 17 |};
      {| s_pos := [17; 4]; s_var := None; s_ret := 17 |};
      {| s_pos := [17; 5]; s_var := None; s_ret := 17 |};
      {| s_pos := [17; 6]; s_var := None; s_ret := 17 |};
      {| s_pos := [4; 17]; s_var := None; s_ret := 17 |};
      {| s_pos := [5; 17]; s_var := None; s_ret := 17 |};
      {| s_pos := [6; 17]; s_var := None; s_ret := 17 |};
      {| s_pos := [18; 18]; s_var := None; s_ret := 18 |};
      {| s_pos := [18; 4]; s_var := None; s_ret := 18 |};
      {| s_pos := [18; 5]; s_var := None; s_ret := 18 |};
      {| s_pos := [18; 6]; s_var := None; s_ret := 18 |};
      {| s_pos := [18; 7]; s_var := None; s_ret := 18 |};
      {| s_pos := [4; 18]; s_var := None; s_ret := 18 |};
      {| s_pos := [5; 18]; s_var := None; s_ret := 18 |};
      {| s_pos := [6; 18]; s_var := None; s_ret := 18 |};
      {| s_pos := [7; 18]; s_var := None; s_ret := 18 |};
      {| s_pos := [22; 6]; s_var := None; s_ret := 22 |};
      {| s_pos := [22; 7]; s_var := None; s_ret := 22 |};
      {| s_pos := [6; 22]; s_var := None; s_ret := 22 |};
      {| s_pos := [7; 22]; s_var := None; s_ret := 22 |}] |};
  {| f_name := "%"; f_sigs := [
      {| s_pos := [14; 14]; s_var := None; s_ret := 14 |};
      {| s_pos := [15; 15]; s_var := None; s_ret := 15 |};
      {| s_pos := [16; 16]; s_var := None; s_ret := 16 |};
      {| s_pos := [4; 4]; s_var := None; s_ret := 4 |};
      {| s_pos := [5; 5]; s_var := None; s_ret := 5 |};
      {| s_pos := [6; 6]; s_var := None; s_ret := 6 |};
      {| s_pos := [7; 7]; s_var := None; s_ret := 7 |};
      {| s_pos := [8; 8]; s_var := None; s_ret := 8 |};
      {| s_pos := [9; 9]; s_var := None; s_ret := 9 |};
      {| s_pos := [10; 10]; s_var := None; s_ret := 10 |};
      {| s_pos := [11; 11]; s_var := None; s_ret := 11 |};
      {| s_pos := [12; 12]; s_var := None; s_ret := 12 |};
      {| s_pos := [13; 13]; s_var := None; s_ret := 13 |}] |};
  {| f_name := "lcm"; f_sigs := [
      {| s_pos := [4; 4]; s_var := None; s_ret := 4 |};
      {| s_pos := [5; 5]; s_var := None; s_ret := 5 |};
      {| s_pos := [6; 6]; s_var := None; s_ret := 6 |};
      {| s_pos := [7; 7]; s_var := None; s_ret := 7 |};
      {| s_pos := [8; 8]; s_var := None; s_ret := 8 |}] |};
  {| f_name := "xor"; f_sigs := [
      {| s_pos := [4; 4]; s_var := None; s_ret := 4 |};
      {| s_pos := [5; 5]; s_var := None; s_ret := 5 |};
      {| s_pos := [6; 6]; s_var := None; s_ret := 6 |};
      {| s_pos := [7; 7]; s_var := None; s_ret := 7 |};
      {| s_pos := [8; 8]; s_var := None; s_ret := 8 |};
      {| s_pos := [9; 9]; s_var := None; s_ret := 9 |};
      {| s_pos := [10; 10]; s_var := None; s_ret := 10 |};
      {| s_pos := [11; 11]; s_var := None; s_ret := 11 |};
      {| s_pos := [12; 12]; s_var := None; s_ret := 12 |};
      {| s_pos := [13; 13]; s_var := None; s_ret := 13 |}] |};
  {| f_name := "shl"; f_sigs := [
      {| s_pos := [4; 6]; s_var := None; s_ret := 4 |};
      {| s_pos := [5; 6]; s_var := None; s_ret := 5 |};
      {| s_pos := [6; 6]; s_var := None; s_ret := 6 |};
      {| s_pos := [7; 6]; s_var := None; s_ret := 7 |};
      {| s_pos := [8; 6]; s_var := None; s_ret := 8 |};
      {| s_pos := [9; 6]; s_var := None; s_ret := 9 |};
      {| s_pos := [10; 6]; s_var := None; s_ret := 10 |};
      {| s_pos := [11; 6]; s_var := None; s_ret := 11 |};
      {| s_pos := [12; 6]; s_var := None; s_ret := 12 |};
      {| s_pos := [13; 6]; s_var := None; s_ret := 13 |}] |};
  {| f_name := "shr"; f_sigs := [
      {| s_pos := [4; 6]; s_var := None; s_ret := 4 |};
      {| s_pos := [5; 6]; s_var := None; s_ret := 5 |};
      {| s_pos := [6; 6]; s_var := None; s_ret := 6 |};
      {| s_pos := [7; 6]; s_var := None; s_ret := 7 |};
      {| s_pos := [8; 6]; s_var := None; s_ret := 8 |};
      {| s_pos := [9; 6]; s_var := None; s_ret := 9 |};
      {| s_pos := [10; 6]; s_var := None; s_ret := 10 |};
      {| s_pos := [11; 6]; s_var := None; s_ret := 11 |};
      {| s_pos := [12; 6]; s_var := None; s_ret := 12 |};
      {| s_pos := [13; 6]; s_var := None; s_ret := 13 |}] |};
  {| f_name := "and"; f_sigs := [
      {| s_pos := [3]; s_var := Some 3; s_ret := 3 |}] |};
  {| f_name := "or"; f_sigs := [
      {| s_pos := [3]; s_var := Some 3; s_ret := 3 |}] |};
  {| f_name := "="; f_sigs := [
      {| s_pos := [3; 3]; s_var := None; s_ret := 3 |};
      {| s_pos := [4; 4]; s_var := None; s_ret := 3 |};
      {| s_pos := [5; 5]; s_var := None; s_ret := 3 |};
      {| s_pos := [6; 6]; s_var := None; s_ret := 3 |};
      {| s_pos := [7; 7]; s_var := None; s_ret := 3 |};
      {| s_pos := [8; 8]; s_var := None; s_ret := 3 |};
      {| s_pos := [9; 9]; s_var := None; s_ret := 3 |};
      {| s_pos := [10; 10]; s_var := None; s_ret := 3 |};
      {| s_pos := [11; 11]; s_var := None; s_ret := 3 |};
      {| s_pos := [12; 12]; s_var := None; s_ret := 3 |};
      {| s_pos := [13; 13]; s_var := None; s_ret := 3 |};
      {| s_pos := [14; 14]; s_var := None; s_ret := 3 |};
      {| s_pos := [15; 15]; s_var := None; s_ret := 3 |};
      {| s_pos := [16; 16]; s_var := None; s_ret := 3 |};
      {| s_pos := [20; 20]; s_var := None; s_ret := 3 |};
      {| s_pos := [21; 21]; s_var := None; s_ret := 3 |};
      {| s_pos := [19; 19]; s_var := None; s_ret := 3 |};
      {| s_pos := [22; 22]; s_var := None; s_ret := 3 |};
      {| s_pos := [17; 17]; s_var := None; s_ret := 3 |};
      {| s_pos := [18; 18]; s_var := None; s_ret := 3 |};
      {| s_pos := [24; 24]; s_var := None; s_ret := 3 |};
      {| s_pos := [23; 23]; s_var := None; s_ret := 3 |}] |};
  {| f_name := "!="; f_sigs := [
      {| s_pos := [3; 3]; s_var := None; s_ret := 3 |};
      {| s_pos := [4; 4]; s_var := None; s_ret := 3 |};
      {| s_pos := [5; 5]; s_var := None; s_ret := 3 |};
      {| s_pos := [6; 6]; s_var := None; s_ret := 3 |};
      {| s_pos := [7; 7]; s_var := None; s_ret := 3 |};
      {| s_pos := [8; 8]; s_var := None; s_ret := 3 |};
      {| s_pos := [9; 9]; s_var := None; s_ret := 3 |};
      {| s_pos := [10; 10]; s_var := None; s_ret := 3 |};
      {| s_pos := [11; 11]; s_var := None; s_ret := 3 |};
      {| s_pos := [12; 12]; s_var := None; s_ret := 3 |};
      {| s_pos := [13; 13]; s_var := None; s_ret := 3 |};
      {| s_pos := [14; 14]; s_var := None; s_ret := 3 |};
      {| s_pos := [15; 15]; s_var := None; s_ret := 3 |};
      {| s_pos := [16; 16]; s_var := None; s_ret := 3 |};
      {| s_pos := [20; 20]; s_var := None; s_ret := 3 |};
      {| s_pos := [21; 21]; s_var := None; s_ret := 3 |};
      {| s_pos := [19; 19]; s_var := None; s_ret := 3 |};
      {| s_pos := [22; 22]; s_var := None; s_ret := 3 |};
      {| s_pos := [17; 17]; s_var := None; s_ret := 3 |};
      {| s_pos := [18; 18]; s_var := None; s_ret := 3 |};
      {| s_pos := [24; 24]; s_var := None; s_ret := 3 |};
      {| s_pos := [23; 23]; s_var := None; s_ret := 3 |}] |};
  {| f_name := "<"; f_sigs := [
      {| s_pos := [3; 3]; s_var := None; s_ret := 3 |};
      {| s_pos := [4; 4]; s_var := None; s_ret := 3 |};
      {| s_pos := [5; 5]; s_var := None; s_ret := 3 |};
      {| s_pos := [6; 6]; s_var := None; s_ret := 3 |};
      {| s_pos := [7; 7]; s_var := None; s_ret := 3 |};
      {| s_pos := [8; 8]; s_var := None; s_ret := 3 |};
      {| s_pos := [9; 9]; s_var := None; s_ret := 3 |};
      {| s_pos := [10; 10]; s_var := None; s_ret := 3 |};
      {| s_pos := [11; 11]; s_var := None; s_ret := 3 |};
      {| s_pos := [12; 12]; s_var := None; s_ret := 3 |};
      {| s_pos := [13; 13]; s_var := None; s_ret := 3 |};
      {| s_pos := [14; 14]; s_var := None; s_ret := 3 |};
      {| s_pos := [15; 15]; s_var := None; s_ret := 3 |};
      {| s_pos := [16; 16]; s_var := None; s_ret := 3 |};
      {| s_pos := [20; 20]; s_var := None; s_ret := 3 |};
      {| s_pos := [21; 21]; s_var := None; s_ret := 3 |};
      {| s_pos := [19; 19]; s_var := None; s_ret := 3 |};
      {| s_pos := [22; 22]; s_var := None; s_ret := 3 |};
      {| s_pos := [17; 17]; s_var := None; s_ret := 3 |};
      {| s_pos := [18; 18]; s_var := None; s_ret := 3 |};
      {| s_pos := [24; 24]; s_var := None; s_ret := 3 |};
      {| s_pos := [23; 23]; s_var := None; s_ret := 3 |}] |};
  {| f_name := "<="; f_sigs := [
      {| s_pos := [3; 3]; s_var := None; s_ret := 3 |};
      {| s_pos := [4; 4]; s_var := None; s_ret := 3 |};
      {| s_pos := [5; 5]; s_var := None; s_ret := 3 |};
      {| s_pos := [6; 6]; s_var := None; s_ret := 3 |};
      {| s_pos := [7; 7]; s_var := None; s_ret := 3 |};
      {| s_pos := [8; 8]; s_var := None; s_ret := 3 |};
      {| s_pos := [9; 9]; s_var := None; s_ret := 3 |};
      {| s_pos := [10; 10]; s_var := None; s_ret := 3 |};
      {| s_pos := [11; 11]; s_var := None; s_ret := 3 |};
      {| s_pos := [12; 12]; s_var := None; s_ret := 3 |};
      {| s_pos := [13; 13]; s_var := None; s_ret := 3 |};
      {| s_pos := [14; 14]; s_var := None; s_ret := 3 |};
      {| s_pos := [15; 15]; s_var := None; s_ret := 3 |};
      {| s_pos := [16; 16]; s_var := None; s_ret := 3 |};
      {| s_pos := [20; 20]; s_var := None; s_ret := 3 |};
      {| s_pos := [21; 21]; s_var := None; s_ret := 3 |};
      {| s_pos := [19; 19]; s_var := None; s_ret := 3 |};
      {| s_pos := [22; 22]; s_var := None; s_ret := 3 |};
      {| s_pos := [17; 17]; s_var := None; s_ret := 3 |};
      {| s_pos := [18; 18]; s_var := None; s_ret := 3 |};
      {| s_pos := [24; 24]; s_var := None; s_ret := 3 |};
      {| s_pos := [23; 23]; s_var := None; s_ret := 3 |}] |};
  {| f_name := ">"; f_sigs := [
      {| s_pos := [3; 3]; s_var := None; s_ret := 3 |};
      {| s_pos := [4; 4]; s_var := None; s_ret := 3 |};
      {| s_pos := [5; 5]; s_var := None; s_ret := 3 |};
      {| s_pos := [6; 6]; s_var := None; s_ret := 3 |};
      {| s_pos := [7; 7]; s_var := None; s_ret := 3 |};
      {| s_pos := [8; 8]; s_var := None; s_ret := 3 |};
      {| s_pos := [9; 9]; s_var := None; s_ret := 3 |};
      {| s_pos := [10; 10]; s_var := None; s_ret := 3 |};
      {| s_pos := [11; 11]; s_var := None; s_ret := 3 |};
      {| s_pos := [12; 12]; s_var := None; s_ret := 3 |};
      {| s_pos := [13; 13]; s_var := None; s_ret := 3 |};
      {| s_pos := [14; 14]; s_var := None; s_ret := 3 |};
      {| s_pos := [15; 15]; s_var := None; s_ret := 3 |};
      {| s_pos := [16; 16]; s_var := None; s_ret := 3 |};
      {| s_pos := [20; 20]; s_var := None; s_ret := 3 |};
      {| s_pos := [21; 21]; s_var := None; s_ret := 3 |};
      {| s_pos := [19; 19]; s_var := None; s_ret := 3 |};
      {| s_pos := [22; 22]; s_var := None; s_ret := 3 |};
      {| s_pos := [17; 17]; s_var := None; s_ret := 3 |};
      {| s_pos := [18; 18]; s_var := None; s_ret := 3 |};
      {| s_pos := [24; 24]; s_var := None; s_ret := 3 |};
      {| s_pos := [23; 23]; s_var := None; s_ret := 3 |}] |};
  {| f_name := ">="; f_sigs := [
      {| s_pos := [3; 3]; s_var := None; s_ret := 3 |};
      {| s_pos := [4; 4]; s_var := None; s_ret := 3 |};
      {| s_pos := [5; 5]; s_var := None; s_ret := 3 |};
      {| s_pos := [6; 6]; s_var := None; s_ret := 3 |};
      {| s_pos := [7; 7]; s_var := None; s_ret := 3 |};
      {| s_pos := [8; 8]; s_var := None; s_ret := 3 |};
      {| s_pos := [9; 9]; s_var := None; s_ret := 3 |};
      {| s_pos := [10; 10]; s_var := None; s_ret := 3 |};
      {| s_pos := [11; 11]; s_var := None; s_ret := 3 |};
      {| s_pos := [12; 12]; s_var := None; s_ret := 3 |};
      {| s_pos := [13; 13]; s_var := None; s_ret := 3 |};
      {| s_pos := [14; 14]; s_var := None; s_ret := 3 |};
      {| s_pos := [15; 15]; s_var := None; s_ret := 3 |};
      {| s_pos := [16; 16]; s_var := None; s_ret := 3 |};
      {| s_pos := [20; 20]; s_var := None; s_ret := 3 |};
      {| s_pos := [21; 21]; s_var := None; s_ret := 3 |};
      {| s_pos := [19; 19]; s_var := None; s_ret := 3 |};
      {| s_pos := [22; 22]; s_var := None; s_ret := 3 |};
      {| s_pos := [17; 17]; s_var := None; s_ret := 3 |};
      {| s_pos := [18; 18]; s_var := None; s_ret := 3 |};
      {| s_pos := [24; 24]; s_var := None; s_ret := 3 |};
      {| s_pos := [23; 23]; s_var := None; s_ret := 3 |}] |};
  {| f_name := "is_distinct_from"; f_sigs := [
      {| s_pos := [3; 3]; s_var := None; s_ret := 3 |};
      {| s_pos := [4; 4]; s_var := None; s_ret := 3 |};
      {| s_pos := [5; 5]; s_var := None; s_ret := 3 |};
      {| s_pos := [6; 6]; s_var := None; s_ret := 3 |};
      {| s_pos := [7; 7]; s_var := None; s_ret := 3 |};
      {| s_pos := [8; 8]; s_var := None; s_ret := 3 |};
      {| s_pos := [9; 9]; s_var := None; s_ret := 3 |};
      {| s_pos := [10; 10]; s_var := None; s_ret := 3 |};
      {| s_pos := [11; 11]; s_var := None; s_ret := 3 |};
      {| s_pos := [12; 12]; s_var := None; s_ret := 3 |};
      {| s_pos := [13; 13]; s_var := None; s_ret := 3 |};
      {| s_pos := [14; 14]; s_var := None; s_ret := 3 |};
      {| s_pos := [15; 15]; s_var := None; s_ret := 3 |};
      {| s_pos := [16; 16]; s_var := None; s_ret := 3 |};
      {| s_pos := [20; 20]; s_var := None; s_ret := 3 |};
      {| s_pos := [21; 21]; s_var := None; s_ret := 3 |};
      {| s_pos := [19; 19]; s_var := None; s_ret := 3 |};
      {| s_pos := [22; 22]; s_var := None; s_ret := 3 |};
      {| s_pos := [17; 17]; s_var := None; s_ret := 3 |};
      {| s_pos := [18; 18]; s_var := None; s_ret := 3 |};
      {| s_pos := [24; 24]; s_var := None; s_ret := 3 |};
      {| s_pos := [23; 23]; s_var := None; s_ret := 3 |}] |};
  {| f_name := "is_not_distinct_from"; f_sigs := [
      {| s_pos := [3; 3]; s_var := None; s_ret := 3 |};
      {| s_pos := [4; 4]; s_var := None; s_ret := 3 |};
      {| s_pos := [5; 5]; s_var := None; s_ret := 3 |};
      {| s_pos := [6; 6]; s_var := None; s_ret := 3 |};
      {| s_pos := [7; 7]; s_var := None; s_ret := 3 |};
      {| s_pos := [8; 8]; s_var := None; s_ret := 3 |};
      {| s_pos := [9; 9]; s_var := None; s_ret := 3 |};
      {| s_pos := [10; 10]; s_var := None; s_ret := 3 |};
      {| s_pos := [11; 11]; s_var := None; s_ret := 3 |};
      {| s_pos := [12; 12]; s_var := None; s_ret := 3 |};
      {| s_pos := [13; 13]; s_var := None; s_ret := 3 |};
      {| s_pos := [14; 14]; s_var := None; s_ret := 3 |};
      {| s_pos := [15; 15]; s_var := None; s_ret := 3 |};
      {| s_pos := [16; 16]; s_var := None; s_ret := 3 |};
      {| s_pos := [20; 20]; s_var := None; s_ret := 3 |};
      {| s_pos := [21; 21]; s_var := None; s_ret := 3 |};
      {| s_pos := [19; 19]; s_var := None; s_ret := 3 |};
      {| s_pos := [22; 22]; s_var := None; s_ret := 3 |};
      {| s_pos := [17; 17]; s_var := None; s_ret := 3 |};
      {| s_pos := [18; 18]; s_var := None; s_ret := 3 |};
      {| s_pos := [24; 24]; s_var := None; s_ret := 3 |};
      {| s_pos := [23; 23]; s_var := None; s_ret := 3 |}] |};
  {| f_name := "ceil"; f_sigs := [
      {| s_pos := [14]; s_var := None; s_ret := 14 |};
      {| s_pos := [15]; s_var := None; s_ret := 15 |};
      {| s_pos := [16]; s_var := None; s_ret := 16 |}] |};
  {| f_name := "floor"; f_sigs := [
      {| s_pos := [14]; s_var := None; s_ret := 14 |};
      {| s_pos := [15]; s_var := None; s_ret := 15 |};
      {| s_pos := [16]; s_var := None; s_ret := 16 |}] |};
  {| f_name := "trunc"; f_sigs := [
      {| s_pos := [14]; s_var := None; s_ret := 14 |};
      {| s_pos := [15]; s_var := None; s_ret := 15 |};
      {| s_pos := [16]; s_var := None; s_ret := 16 |}] |};
  {| f_name := "round"; f_sigs := [
      {| s_pos := [14]; s_var := None; s_ret := 14 |};
      {| s_pos := [15]; s_var := None; s_ret := 15 |};
      {| s_pos := [16]; s_var := None; s_ret := 16 |};
      {| s_pos := [17]; s_var := None; s_ret := 17 |};
      {| s_pos := [18]; s_var := None; s_ret := 18 |};
      {| s_pos := [17; 7]; s_var := None; s_ret := 17 |};
      {| s_pos := [18; 7]; s_var := None; s_ret := 18 |}] |};
  {| f_name := "sign"; f_sigs := [
      {| s_pos := [14]; s_var := None; s_ret := 14 |};
      {| s_pos := [15]; s_var := None; s_ret := 15 |};
      {| s_pos := [16]; s_var := None; s_ret := 16 |}] |};
  {| f_name := "abs"; f_sigs := [
      {| s_pos := [14]; s_var := None; s_ret := 14 |};
      {| s_pos := [15]; s_var := None; s_ret := 15 |};
      {| s_pos := [16]; s_var := None; s_ret := 16 |}] |};
  {| f_name := "acos"; f_sigs := [
      {| s_pos := [14]; s_var := None; s_ret := 14 |};
      {| s_pos := [15]; s_var := None; s_ret := 15 |};
      {| s_pos := [16]; s_var := None; s_ret := 16 |}] |};
  {| f_name := "acosh"; f_sigs := [
      {| s_pos := [16]; s_var := None; s_ret := 16 |}] |};
  {| f_name := "asin"; f_sigs := [
      {| s_pos := [14]; s_var := None; s_ret := 14 |};
      {| s_pos := [15]; s_var := None; s_ret := 15 |};
      {| s_pos := [16]; s_var := None; s_ret := 16 |}] |};
  {| f_name := "asinh"; f_sigs := [
      {| s_pos := [16]; s_var := None; s_ret := 16 |}] |};
  {| f_name := "atan"; f_sigs := [
      {| s_pos := [14]; s_var := None; s_ret := 14 |};
      {| s_pos := [15]; s_var := None; s_ret := 15 |};
      {| s_pos := [16]; s_var := None; s_ret := 16 |}] |};
  {| f_name := "atan2"; f_sigs := [
      {| s_pos := [16; 16]; s_var := None; s_ret := 16 |}] |};
  {| f_name := "atanh"; f_sigs := [
      {| s_pos := [16]; s_var := None; s_ret := 16 |}] |};
  {| f_name := "cbrt"; f_sigs := [
      {| s_pos := [14]; s_var := None; s_ret := 14 |};
      {| s_pos := [15]; s_var := None; s_ret := 15 |};
      {| s_pos := [16]; s_var := None; s_ret := 16 |}] |};
  {| f_name := "cos"; f_sigs := [
      {| s_pos := [14]; s_var := None; s_ret := 14 |};
      {| s_pos := [15]; s_var := None; s_ret := 15 |};
      {| s_pos := [16]; s_var := None; s_ret := 16 |}] |};
  {| f_name := "cosh"; f_sigs := [
      {| s_pos := [16]; s_var := None; s_ret := 16 |}] |};
  {| f_name := "cot"; f_sigs := [
      {| s_pos := [16]; s_var := None; s_ret := 16 |}] |};
  {| f_name := "exp"; f_sigs := [
      {| s_pos := [14]; s_var := None; s_ret := 14 |};
      {| s_pos := [15]; s_var := None; s_ret := 15 |};
      {| s_pos := [16]; s_var := None; s_ret := 16 |}] |};
  {| f_name := "factorial"; f_sigs := [
      {| s_pos := [7]; s_var := None; s_ret := 8 |}] |};
  {| f_name := "ln"; f_sigs := [
      {| s_pos := [14]; s_var := None; s_ret := 14 |};
      {| s_pos := [15]; s_var := None; s_ret := 15 |};
      {| s_pos := [16]; s_var := None; s_ret := 16 |}] |};
  {| f_name := "log"; f_sigs := [
      {| s_pos := [14]; s_var := None; s_ret := 14 |};
      {| s_pos := [15]; s_var := None; s_ret := 15 |};
      {| s_pos := [16]; s_var := None; s_ret := 16 |}] |};
  {| f_name := "log2"; f_sigs := [
      {| s_pos := [14]; s_var := None; s_ret := 14 |};
      {| s_pos := [15]; s_var := None; s_ret := 15 |};
      {| s_pos := [16]; s_var := None; s_ret := 16 |}] |};
  {| f_name := "pi"; f_sigs := [
      {| s_pos := []; s_var := None; s_ret := 16 |}] |};
  {| f_name := "power"; f_sigs := [
      {| s_pos := [16; 16]; s_var := None; s_ret := 16 |}] |};
  {| f_name := "sin"; f_sigs := [
      {| s_pos := [14]; s_var := None; s_ret := 14 |};
      {| s_pos := [15]; s_var := None; s_ret := 15 |};
      {| s_pos := [16]; s_var := None; s_ret := 16 |}] |};
  {| f_name := "sinh"; f_sigs := [
      {| s_pos := [16]; s_var := None; s_ret := 16 |}] |};
  {| f_name := "sqrt"; f_sigs := [
      {| s_pos := [14]; s_var := None; s_ret := 14 |};
      {| s_pos := [15]; s_var := None; s_ret := 15 |};
      {| s_pos := [16]; s_var := None; s_ret := 16 |}] |};
  {| f_name := "tan"; f_sigs := [
      {| s_pos := [14]; s_var := None; s_ret := 14 |};
      {| s_pos := [15]; s_var := None; s_ret := 15 |};
      {| s_pos := [16]; s_var := None; s_ret := 16 |}] |};
  {| f_name := "tanh"; f_sigs := [
      {| s_pos := [16]; s_var := None; s_ret := 16 |}] |};
  {| f_name := "degrees"; f_sigs := [
      {| s_pos := [14]; s_var := None; s_ret := 14 |};
      {| s_pos := [15]; s_var := None; s_ret := 15 |};
      {| s_pos := [16]; s_var := None; s_ret := 16 |}] |};
  {| f_name := "radians"; f_sigs := [
      {| s_pos := [14]; s_var := None; s_ret := 14 |};
      {| s_pos := [15]; s_var := None; s_ret := 15 |};
      {| s_pos := [16]; s_var := None; s_ret := 16 |}] |};
  {| f_name := "isnan"; f_sigs := [
      {| s_pos := [14]; s_var := None; s_ret := 3 |};
      {| s_pos := [15]; s_var := None; s_ret := 3 |};
      {| s_pos := [16]; s_var := None; s_ret := 3 |}] |};
  {| f_name := "isfinite"; f_sigs := [
      {| s_pos := [14]; s_var := None; s_ret := 3 |};
      {| s_pos := [15]; s_var := None; s_ret := 3 |};
      {| s_pos := [16]; s_var := None; s_ret := 3 |}] |};
  {| f_name := "isinf"; f_sigs := [
      {| s_pos := [14]; s_var := None; s_ret := 3 |};
      {| s_pos := [15]; s_var := None; s_ret := 3 |};
      {| s_pos := [16]; s_var := None; s_ret := 3 |}] |};
  {| f_name := "gcd"; f_sigs := [
      {| s_pos := [4; 4]; s_var := None; s_ret := 4 |};
      {| s_pos := [5; 5]; s_var := None; s_ret := 5 |};
      {| s_pos := [6; 6]; s_var := None; s_ret := 6 |};
      {| s_pos := [7; 7]; s_var := None; s_ret := 7 |};
      {| s_pos := [8; 8]; s_var := None; s_ret := 8 |}] |};
  {| f_name := "lower"; f_sigs := [
      {| s_pos := [23]; s_var := None; s_ret := 23 |}] |};
  {| f_name := "upper"; f_sigs := [
      {| s_pos := [23]; s_var := None; s_ret := 23 |}] |};
  {| f_name := "initcap"; f_sigs := [
      {| s_pos := [23]; s_var := None; s_ret := 23 |}] |};
  {| f_name := "repeat"; f_sigs := [
      {| s_pos := [23; 7]; s_var := None; s_ret := 23 |}] |};
  {| f_name := "substring"; f_sigs := [
      {| s_pos := [23; 7]; s_var := None; s_ret := 23 |};
      {| s_pos := [23; 7; 7]; s_var := None; s_ret := 23 |}] |};
  {| f_name := "starts_with"; f_sigs := [
      {| s_pos := [23; 23]; s_var := None; s_ret := 3 |}] |};
  {| f_name := "ends_with"; f_sigs := [
      {| s_pos := [23; 23]; s_var := None; s_ret := 3 |}] |};
  {| f_name := "contains"; f_sigs := [
      {| s_pos := [23; 23]; s_var := None; s_ret := 3 |}] |};
  {| f_name := "length"; f_sigs := [
      {| s_pos := [23]; s_var := None; s_ret := 7 |}] |};
  {| f_name := "byte_length"; f_sigs := [
      {| s_pos := [23]; s_var := None; s_ret := 7 |};
      {| s_pos := [24]; s_var := None; s_ret := 7 |}] |};
  {| f_name := "bit_length"; f_sigs := [
      {| s_pos := [23]; s_var := None; s_ret := 7 |};
      {| s_pos := [24]; s_var := None; s_ret := 7 |}] |};
  {| f_name := "concat"; f_sigs := [
      {| s_pos := [23]; s_var := Some 23; s_ret := 23 |}] |};
  {| f_name := "regexp_like"; f_sigs := [
      {| s_pos := [23; 23]; s_var := None; s_ret := 3 |}] |};
  {| f_name := "regexp_replace"; f_sigs := [
      {| s_pos := [23; 23; 23]; s_var := None; s_ret := 23 |}] |};
  {| f_name := "regexp_count"; f_sigs := [
      {| s_pos := [23; 23]; s_var := None; s_ret := 7 |}] |};
  {| f_name := "regexp_instr"; f_sigs := [
      {| s_pos := [23; 23]; s_var := None; s_ret := 7 |}] |};
  {| f_name := "ascii"; f_sigs := [
      {| s_pos := [23]; s_var := None; s_ret := 6 |}] |};
  {| f_name := "lpad"; f_sigs := [
      {| s_pos := [23; 7]; s_var := None; s_ret := 23 |};
      {| s_pos := [23; 7; 23]; s_var := None; s_ret := 23 |}] |};
  {| f_name := "rpad"; f_sigs := [
      {| s_pos := [23; 7]; s_var := None; s_ret := 23 |};
      {| s_pos := [23; 7; 23]; s_var := None; s_ret := 23 |}] |};
  {| f_name := "ltrim"; f_sigs := [
      {| s_pos := [23; 23]; s_var := None; s_ret := 23 |};
      {| s_pos := [23]; s_var := None; s_ret := 23 |}] |};
  {| f_name := "rtrim"; f_sigs := [
      {| s_pos := [23; 23]; s_var := None; s_ret := 23 |};
      {| s_pos := [23]; s_var := None; s_ret := 23 |}] |};
  {| f_name := "btrim"; f_sigs := [
      {| s_pos := [23; 23]; s_var := None; s_ret := 23 |};
      {| s_pos := [23]; s_var := None; s_ret := 23 |}] |};
  {| f_name := "like"; f_sigs := [
      {| s_pos := [23; 23]; s_var := None; s_ret := 3 |}] |};
  {| f_name := "left"; f_sigs := [
      {| s_pos := [23; 7]; s_var := None; s_ret := 23 |}] |};
  {| f_name := "right"; f_sigs := [
      {| s_pos := [23; 7]; s_var := None; s_ret := 23 |}] |};
  {| f_name := "split_part"; f_sigs := [
      {| s_pos := [23; 23; 7]; s_var := None; s_ret := 23 |}] |};
  {| f_name := "strpos"; f_sigs := [
      {| s_pos := [23; 23]; s_var := None; s_ret := 7 |}] |};
  {| f_name := "reverse"; f_sigs := [
      {| s_pos := [23]; s_var := None; s_ret := 23 |}] |};
  {| f_name := "replace"; f_sigs := [
      {| s_pos := [23; 23; 23]; s_var := None; s_ret := 23 |}] |};
  {| f_name := "translate"; f_sigs := [
      {| s_pos := [23; 23; 23]; s_var := None; s_ret := 23 |}] |};
  {| f_name := "md5"; f_sigs := [
      {| s_pos := [23]; s_var := None; s_ret := 23 |}] |};
  {| f_name := "struct_pack"; f_sigs := [
      {| s_pos := []; s_var := Some 0; s_ret := 25 |}] |};
  {| f_name := "struct_extract"; f_sigs := [
      {| s_pos := [25]; s_var := None; s_ret := 0 |}] |};
  {| f_name := "negate"; f_sigs := [
      {| s_pos := [14]; s_var := None; s_ret := 14 |};
      {| s_pos := [15]; s_var := None; s_ret := 15 |};
      {| s_pos := [16]; s_var := None; s_ret := 16 |};
      {| s_pos := [4]; s_var := None; s_ret := 4 |};
      {| s_pos := [5]; s_var := None; s_ret := 5 |};
      {| s_pos := [6]; s_var := None; s_ret := 6 |};
      {| s_pos := [7]; s_var := None; s_ret := 7 |};
      {| s_pos := [8]; s_var := None; s_ret := 8 |}] |};
  {| f_name := "not"; f_sigs := [
      {| s_pos := [3]; s_var := None; s_ret := 3 |}] |};
  {| f_name := "random"; f_sigs := [
      {| s_pos := []; s_var := None; s_ret := 16 |}] |};
  {| f_name := "list_value"; f_sigs := [
      {| s_pos := []; s_var := Some 0; s_ret := 26 |}] |};
  {| f_name := "list_extract"; f_sigs := [
      {| s_pos := [26; 7]; s_var := None; s_ret := 0 |}] |};
  {| f_name := "date_part"; f_sigs := [
      {| s_pos := [23; 20]; s_var := None; s_ret := 17 |};
      {| s_pos := [23; 21]; s_var := None; s_ret := 17 |};
      {| s_pos := [23; 19]; s_var := None; s_ret := 17 |}] |};
  {| f_name := "date_trunc"; f_sigs := [
      {| s_pos := [23; 19]; s_var := None; s_ret := 19 |}] |};
  {| f_name := "epoch"; f_sigs := [
      {| s_pos := [7]; s_var := None; s_ret := 19 |}] |};
  {| f_name := "epoch_ms"; f_sigs := [
      {| s_pos := [7]; s_var := None; s_ret := 19 |}] |};
  {| f_name := "is_null"; f_sigs := [
      {| s_pos := [0]; s_var := None; s_ret := 3 |}] |};
  {| f_name := "is_not_null"; f_sigs := [
      {| s_pos := [0]; s_var := None; s_ret := 3 |}] |};
  {| f_name := "is_true"; f_sigs := [
      {| s_pos := [3]; s_var := None; s_ret := 3 |}] |};
  {| f_name := "is_not_true"; f_sigs := [
      {| s_pos := [3]; s_var := None; s_ret := 3 |}] |};
  {| f_name := "is_false"; f_sigs := [
      {| s_pos := [3]; s_var := None; s_ret := 3 |}] |};
  {| f_name := "is_not_false"; f_sigs := [
      {| s_pos := [3]; s_var := None; s_ret := 3 |}] |};
  {| f_name := "l2_distance"; f_sigs := [
      {| s_pos := [26; 26]; s_var := None; s_ret := 16 |};
      {| s_pos := [26; 26]; s_var := None; s_ret := 16 |};
      {| s_pos := [26; 26]; s_var := None; s_ret := 16 |}] |};
  {| f_name := "debug_error_on_execute"; f_sigs := [
      {| s_pos := []; s_var := None; s_ret := 6 |}] |}
].
Definition aggregate_sets : list fset := [
  {| f_name := "sum"; f_sigs := [
      {| s_pos := [16]; s_var := None; s_ret := 16 |};
      {| s_pos := [4]; s_var := None; s_ret := 7 |};
      {| s_pos := [5]; s_var := None; s_ret := 7 |};
      {| s_pos := [6]; s_var := None; s_ret := 7 |};
      {| s_pos := [7]; s_var := None; s_ret := 7 |};
      {| s_pos := [17]; s_var := None; s_ret := 18 |};
      {| s_pos := [18]; s_var := None; s_ret := 18 |}] |};
  {| f_name := "avg"; f_sigs := [
      {| s_pos := [17]; s_var := None; s_ret := 16 |};
      {| s_pos := [18]; s_var := None; s_ret := 16 |};
      {| s_pos := [7]; s_var := None; s_ret := 16 |};
      {| s_pos := [16]; s_var := None; s_ret := 16 |}] |};
  {| f_name := "count"; f_sigs := [
      {| s_pos := [0]; s_var := None; s_ret := 7 |}] |};
  {| f_name := "min"; f_sigs := [
      {| s_pos := [3]; s_var := None; s_ret := 3 |};
      {| s_pos := [4]; s_var := None; s_ret := 4 |};
      {| s_pos := [5]; s_var := None; s_ret := 5 |};
      {| s_pos := [6]; s_var := None; s_ret := 6 |};
      {| s_pos := [7]; s_var := None; s_ret := 7 |};
      {| s_pos := [8]; s_var := None; s_ret := 8 |};
      {| s_pos := [9]; s_var := None; s_ret := 9 |};
      {| s_pos := [10]; s_var := None; s_ret := 10 |};
      {| s_pos := [11]; s_var := None; s_ret := 11 |};
      {| s_pos := [12]; s_var := None; s_ret := 12 |};
      {| s_pos := [13]; s_var := None; s_ret := 13 |};
      {| s_pos := [14]; s_var := None; s_ret := 14 |};
      {| s_pos := [15]; s_var := None; s_ret := 15 |};
      {| s_pos := [16]; s_var := None; s_ret := 16 |};
      {| s_pos := [17]; s_var := None; s_ret := 17 |};
      {| s_pos := [18]; s_var := None; s_ret := 18 |};
      {| s_pos := [20]; s_var := None; s_ret := 20 |};
      {| s_pos := [21]; s_var := None; s_ret := 21 |};
      {| s_pos := [19]; s_var := None; s_ret := 19 |};
      {| s_pos := [22]; s_var := None; s_ret := 22 |};
      {| s_pos := [23]; s_var := None; s_ret := 23 |};
      {| s_pos := [24]; s_var := None; s_ret := 24 |}] |};
  {| f_name := "max"; f_sigs := [
      {| s_pos := [3]; s_var := None; s_ret := 3 |};
      {| s_pos := [4]; s_var := None; s_ret := 4 |};
      {| s_pos := [5]; s_var := None; s_ret := 5 |};
      {| s_pos := [6]; s_var := None; s_ret := 6 |};
      {| s_pos := [7]; s_var := None; s_ret := 7 |};
      {| s_pos := [8]; s_var := None; s_ret := 8 |};
      {| s_pos := [9]; s_var := None; s_ret := 9 |};
      {| s_pos := [10]; s_var := None; s_ret := 10 |};
      {| s_pos := [11]; s_var := None; s_ret := 11 |};
      {| s_pos := [12]; s_var := None; s_ret := 12 |};
      {| s_pos := [13]; s_var := None; s_ret := 13 |};
      {| s_pos := [14]; s_var := None; s_ret := 14 |};
      {| s_pos := [15]; s_var := None; s_ret := 15 |};
      {| s_pos := [16]; s_var := None; s_ret := 16 |};
      {| s_pos := [17]; s_var := None; s_ret := 17 |};
      {| s_pos := [18]; s_var := None; s_ret := 18 |};
      {| s_pos := [20]; s_var := None; s_ret := 20 |};
      {| s_pos := [21]; s_var := None; s_ret := 21 |};
      {| s_pos := [19]; s_var := None; s_ret := 19 |};
      {| s_pos := [22]; s_var := None; s_ret := 22 |};
      {| s_pos := [23]; s_var := None; s_ret := 23 |};
      {| s_pos := [24]; s_var := None; s_ret := 24 |}] |};
  {| f_name := "first"; f_sigs := [
      {| s_pos := [3]; s_var := None; s_ret := 3 |};
      {| s_pos := [4]; s_var := None; s_ret := 4 |};
      {| s_pos := [5]; s_var := None; s_ret := 5 |};
      {| s_pos := [6]; s_var := None; s_ret := 6 |};
      {| s_pos := [7]; s_var := None; s_ret := 7 |};
      {| s_pos := [8]; s_var := None; s_ret := 8 |};
      {| s_pos := [9]; s_var := None; s_ret := 9 |};
      {| s_pos := [10]; s_var := None; s_ret := 10 |};
      {| s_pos := [11]; s_var := None; s_ret := 11 |};
      {| s_pos := [12]; s_var := None; s_ret := 12 |};
      {| s_pos := [13]; s_var := None; s_ret := 13 |};
      {| s_pos := [14]; s_var := None; s_ret := 14 |};
      {| s_pos := [15]; s_var := None; s_ret := 15 |};
      {| s_pos := [16]; s_var := None; s_ret := 16 |};
      {| s_pos := [17]; s_var := None; s_ret := 17 |};
      {| s_pos := [18]; s_var := None; s_ret := 18 |};
      {| s_pos := [20]; s_var := None; s_ret := 20 |};
      {| s_pos := [21]; s_var := None; s_ret := 21 |};
      {| s_pos := [19]; s_var := None; s_ret := 19 |};
      {| s_pos := [22]; s_var := None; s_ret := 22 |};
      {| s_pos := [23]; s_var := None; s_ret := 23 |};
      {| s_pos := [24]; s_var := None; s_ret := 24 |}] |};
  {| f_name := "stddev_pop"; f_sigs := [
      {| s_pos := [16]; s_var := None; s_ret := 16 |}] |};
  {| f_name := "stddev_samp"; f_sigs := [
      {| s_pos := [16]; s_var := None; s_ret := 16 |}] |};
  {| f_name := "var_pop"; f_sigs := [
      {| s_pos := [16]; s_var := None; s_ret := 16 |}] |};
  {| f_name := "var_samp"; f_sigs := [
      {| s_pos := [16]; s_var := None; s_ret := 16 |}] |};
  {| f_name := "covar_pop"; f_sigs := [
      {| s_pos := [16; 16]; s_var := None; s_ret := 16 |}] |};
  {| f_name := "covar_samp"; f_sigs := [
      {| s_pos := [16; 16]; s_var := None; s_ret := 16 |}] |};
  {| f_name := "corr"; f_sigs := [
      {| s_pos := [16; 16]; s_var := None; s_ret := 16 |}] |};
  {| f_name := "regr_count"; f_sigs := [
      {| s_pos := [16; 16]; s_var := None; s_ret := 7 |}] |};
  {| f_name := "regr_avgy"; f_sigs := [
      {| s_pos := [16; 16]; s_var := None; s_ret := 16 |}] |};
  {| f_name := "regr_avgx"; f_sigs := [
      {| s_pos := [16; 16]; s_var := None; s_ret := 16 |}] |};
  {| f_name := "regr_r2"; f_sigs := [
      {| s_pos := [16; 16]; s_var := None; s_ret := 16 |}] |};
  {| f_name := "regr_slope"; f_sigs := [
      {| s_pos := [16; 16]; s_var := None; s_ret := 16 |}] |};
  {| f_name := "string_agg"; f_sigs := [
      {| s_pos := [23; 23]; s_var := None; s_ret := 23 |}] |};
  {| f_name := "bool_and"; f_sigs := [
      {| s_pos := [3]; s_var := None; s_ret := 3 |}] |};
  {| f_name := "bool_or"; f_sigs := [
      {| s_pos := [3]; s_var := None; s_ret := 3 |}] |};
  {| f_name := "bit_and"; f_sigs := [
      {| s_pos := [4]; s_var := None; s_ret := 4 |};
      {| s_pos := [5]; s_var := None; s_ret := 5 |};
      {| s_pos := [6]; s_var := None; s_ret := 6 |};
      {| s_pos := [7]; s_var := None; s_ret := 7 |};
      {| s_pos := [9]; s_var := None; s_ret := 9 |};
      {| s_pos := [10]; s_var := None; s_ret := 10 |};
      {| s_pos := [11]; s_var := None; s_ret := 11 |};
      {| s_pos := [12]; s_var := None; s_ret := 12 |}] |};
  {| f_name := "bit_or"; f_sigs := [
      {| s_pos := [4]; s_var := None; s_ret := 4 |};
      {| s_pos := [5]; s_var := None; s_ret := 5 |};
      {| s_pos := [6]; s_var := None; s_ret := 6 |};
      {| s_pos := [7]; s_var := None; s_ret := 7 |};
      {| s_pos := [9]; s_var := None; s_ret := 9 |};
      {| s_pos := [10]; s_var := None; s_ret := 10 |};
      {| s_pos := [11]; s_var := None; s_ret := 11 |};
      {| s_pos := [12]; s_var := None; s_ret := 12 |}] |};
  {| f_name := "approx_count_distinct"; f_sigs := [
      {| s_pos := [0]; s_var := None; s_ret := 7 |}] |};
  {| f_name := "approx_quantile"; f_sigs := [
      {| s_pos := [16; 16]; s_var := None; s_ret := 16 |}] |}
].
