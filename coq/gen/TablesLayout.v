(* GENERATED on every run by vlib/tables_layout.py from /repo's working tree. Do not edit. *)
From Coq Require Import NArith.
Open Scope N_scope.

Definition array_push_inline_op : option N := Some 1.
Definition array_push_inline_rhs : option N := Some 12.
Definition heap_sizes_validity_by_selected_row : option N := Some 1.
Definition inline_buffer_len : option N := Some 12.
Definition is_inline_literal : option N := Some 12.
Definition is_reference_literal : option N := Some 12.
Definition max_inline_len : option N := Some 12.
Definition row_index_width : option N := Some 4.
Definition row_writer_uses_view_is_inline : option N := Some 3.
Definition sp_is_inline_op : option N := Some 1.
Definition sp_is_inline_rhs : option N := Some 12.
Definition sp_is_reference_op : option N := Some 2.
Definition sp_is_reference_rhs : option N := Some 12.
Definition sp_new_inline_assert_op : option N := Some 1.
Definition sp_new_inline_assert_rhs : option N := Some 12.
Definition sp_new_reference_assert_op : option N := Some 2.
Definition sp_new_reference_assert_rhs : option N := Some 12.
Definition sv_is_inline_op : option N := Some 1.
Definition sv_is_inline_rhs : option N := Some 12.
Definition sv_is_reference_op : option N := Some 2.
Definition sv_is_reference_rhs : option N := Some 12.
Definition sv_new_inline_assert_op : option N := Some 1.
Definition sv_new_inline_assert_rhs : option N := Some 12.
Definition sv_new_reference_assert_op : option N := Some 2.
Definition sv_new_reference_assert_rhs : option N := Some 12.
