(* GENERATED on every run by vlib/tables_layout.py from /repo's working tree. Do not edit. *)
From Coq Require Import NArith.
Open Scope N_scope.

Definition inline_buffer_len : option N := Some 12.
Definition is_inline_literal : option N := Some 12.
Definition is_reference_literal : option N := Some 12.
Definition max_inline_len : option N := Some 12.
Definition row_index_width : option N := Some 4.
