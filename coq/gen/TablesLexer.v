(* GENERATED on every run by vlib/tables_lexer.py from /repo's working tree. Do not edit. *)
From Coq Require Import NArith List.
Import ListNotations.
Open Scope N_scope.

(* define_keywords!(...) of crates/glaredb_parser/src/keywords.rs, in source order (code points) *)
Definition keywords : list (list N) :=
  [[65; 76; 76]  (* ALL *);
   [65; 78; 65; 76; 89; 90; 69]  (* ANALYZE *);
   [65; 78; 68]  (* AND *);
   [65; 78; 84; 73]  (* ANTI *);
   [65; 78; 89]  (* ANY *);
   [65; 83]  (* AS *);
   [65; 83; 67]  (* ASC *);
   [65; 84; 84; 65; 67; 72]  (* ATTACH *);
   [66; 69; 71; 73; 78]  (* BEGIN *);
   [66; 69; 84; 87; 69; 69; 78]  (* BETWEEN *);
   [66; 73; 71; 68; 69; 67; 73; 77; 65; 76]  (* BIGDECIMAL *);
   [66; 73; 71; 73; 78; 84]  (* BIGINT *);
   [66; 73; 71; 78; 85; 77; 69; 82; 73; 67]  (* BIGNUMERIC *);
   [66; 73; 78; 65; 82; 89]  (* BINARY *);
   [66; 76; 79; 66]  (* BLOB *);
   [66; 79; 79; 76]  (* BOOL *);
   [66; 79; 79; 76; 69; 65; 78]  (* BOOLEAN *);
   [66; 89]  (* BY *);
   [67; 65; 83; 67; 65; 68; 69]  (* CASCADE *);
   [67; 65; 83; 69]  (* CASE *);
   [67; 65; 83; 84]  (* CAST *);
   [67; 65; 84; 65; 76; 79; 71; 83]  (* CATALOGS *);
   [67; 69; 78; 84; 85; 82; 73; 69; 83]  (* CENTURIES *);
   [67; 69; 78; 84; 85; 82; 89]  (* CENTURY *);
   [67; 76; 85; 83; 84; 69; 82]  (* CLUSTER *);
   [67; 79; 76; 85; 77; 78; 83]  (* COLUMNS *);
   [67; 79; 80; 89]  (* COPY *);
   [67; 82; 69; 65; 84; 69]  (* CREATE *);
   [67; 82; 79; 83; 83]  (* CROSS *);
   [67; 85; 66; 69]  (* CUBE *);
   [67; 85; 82; 82; 69; 78; 84]  (* CURRENT *);
   [68; 65; 84; 65; 66; 65; 83; 69]  (* DATABASE *);
   [68; 65; 84; 65; 66; 65; 83; 69; 83]  (* DATABASES *);
   [68; 65; 84; 69]  (* DATE *);
   [68; 65; 89]  (* DAY *);
   [68; 65; 89; 83]  (* DAYS *);
   [68; 69; 67; 65; 68; 69]  (* DECADE *);
   [68; 69; 67; 65; 68; 69; 83]  (* DECADES *);
   [68; 69; 67; 73; 77; 65; 76]  (* DECIMAL *);
   [68; 69; 83; 67]  (* DESC *);
   [68; 69; 83; 67; 82; 73; 66; 69]  (* DESCRIBE *);
   [68; 69; 84; 65; 67; 72]  (* DETACH *);
   [68; 73; 83; 67; 65; 82; 68]  (* DISCARD *);
   [68; 73; 83; 84; 73; 78; 67; 84]  (* DISTINCT *);
   [68; 73; 83; 84; 82; 73; 66; 85; 84; 69]  (* DISTRIBUTE *);
   [68; 79; 85; 66; 76; 69]  (* DOUBLE *);
   [68; 79; 87]  (* DOW *);
   [68; 79; 89]  (* DOY *);
   [68; 82; 79; 80]  (* DROP *);
   [69; 76; 83; 69]  (* ELSE *);
   [69; 78; 68]  (* END *);
   [69; 80; 79; 67; 72]  (* EPOCH *);
   [69; 88; 67; 69; 80; 84]  (* EXCEPT *);
   [69; 88; 67; 76; 85; 68; 69]  (* EXCLUDE *);
   [69; 88; 73; 83; 84; 83]  (* EXISTS *);
   [69; 88; 80; 76; 65; 73; 78]  (* EXPLAIN *);
   [69; 88; 84; 69; 82; 78; 65; 76]  (* EXTERNAL *);
   [69; 88; 84; 82; 65; 67; 84]  (* EXTRACT *);
   [70; 65; 76; 83; 69]  (* FALSE *);
   [70; 69; 84; 67; 72]  (* FETCH *);
   [70; 73; 76; 84; 69; 82]  (* FILTER *);
   [70; 73; 82; 83; 84]  (* FIRST *);
   [70; 76; 79; 65; 84]  (* FLOAT *);
   [70; 76; 79; 65; 84; 50]  (* FLOAT2 *);
   [70; 76; 79; 65; 84; 52]  (* FLOAT4 *);
   [70; 76; 79; 65; 84; 56]  (* FLOAT8 *);
   [70; 79; 76; 76; 79; 87; 73; 78; 71]  (* FOLLOWING *);
   [70; 79; 82]  (* FOR *);
   [70; 79; 82; 77; 65; 84]  (* FORMAT *);
   [70; 82; 79; 77]  (* FROM *);
   [70; 85; 76; 76]  (* FULL *);
   [70; 85; 78; 67; 84; 73; 79; 78]  (* FUNCTION *);
   [71; 82; 79; 85; 80]  (* GROUP *);
   [71; 82; 79; 85; 80; 73; 78; 71]  (* GROUPING *);
   [71; 82; 79; 85; 80; 83]  (* GROUPS *);
   [72; 65; 76; 70]  (* HALF *);
   [72; 65; 86; 73; 78; 71]  (* HAVING *);
   [72; 79; 85; 82]  (* HOUR *);
   [72; 79; 85; 82; 83]  (* HOURS *);
   [73; 70]  (* IF *);
   [73; 76; 73; 75; 69]  (* ILIKE *);
   [73; 78]  (* IN *);
   [73; 78; 68; 69; 88]  (* INDEX *);
   [73; 78; 78; 69; 82]  (* INNER *);
   [73; 78; 83; 69; 82; 84]  (* INSERT *);
   [73; 78; 84]  (* INT *);
   [73; 78; 84; 49]  (* INT1 *);
   [73; 78; 84; 50]  (* INT2 *);
   [73; 78; 84; 52]  (* INT4 *);
   [73; 78; 84; 56]  (* INT8 *);
   [73; 78; 84; 69; 71; 69; 82]  (* INTEGER *);
   [73; 78; 84; 69; 82; 83; 69; 67; 84]  (* INTERSECT *);
   [73; 78; 84; 69; 82; 86; 65; 76]  (* INTERVAL *);
   [73; 78; 84; 79]  (* INTO *);
   [73; 83]  (* IS *);
   [73; 83; 79; 68; 79; 87]  (* ISODOW *);
   [73; 83; 79; 89; 69; 65; 82]  (* ISOYEAR *);
   [74; 79; 73; 78]  (* JOIN *);
   [74; 83; 79; 78]  (* JSON *);
   [74; 85; 76; 73; 65; 78]  (* JULIAN *);
   [76; 65; 83; 84]  (* LAST *);
   [76; 65; 84; 69; 82; 65; 76]  (* LATERAL *);
   [76; 69; 70; 84]  (* LEFT *);
   [76; 73; 75; 69]  (* LIKE *);
   [76; 73; 77; 73; 84]  (* LIMIT *);
   [77; 65; 84; 69; 82; 73; 65; 76; 73; 90; 69; 68]  (* MATERIALIZED *);
   [77; 69; 84; 65; 68; 65; 84; 65]  (* METADATA *);
   [77; 73; 67; 82; 79; 83; 69; 67; 79; 78; 68]  (* MICROSECOND *);
   [77; 73; 67; 82; 79; 83; 69; 67; 79; 78; 68; 83]  (* MICROSECONDS *);
   [77; 73; 76; 76; 69; 78; 73; 85; 77]  (* MILLENIUM *);
   [77; 73; 76; 76; 69; 78; 73; 85; 77; 83]  (* MILLENIUMS *);
   [77; 73; 76; 76; 73; 83; 69; 67; 79; 78; 68]  (* MILLISECOND *);
   [77; 73; 76; 76; 73; 83; 69; 67; 79; 78; 68; 83]  (* MILLISECONDS *);
   [77; 73; 78; 85; 84; 69]  (* MINUTE *);
   [77; 73; 78; 85; 84; 69; 83]  (* MINUTES *);
   [77; 79; 78; 84; 72]  (* MONTH *);
   [77; 79; 78; 84; 72; 83]  (* MONTHS *);
   [78; 65; 78; 79; 83; 69; 67; 79; 78; 68]  (* NANOSECOND *);
   [78; 65; 78; 79; 83; 69; 67; 79; 78; 68; 83]  (* NANOSECONDS *);
   [78; 65; 84; 85; 82; 65; 76]  (* NATURAL *);
   [78; 79]  (* NO *);
   [78; 79; 84]  (* NOT *);
   [78; 85; 76; 76]  (* NULL *);
   [78; 85; 76; 76; 83]  (* NULLS *);
   [78; 85; 77; 69; 82; 73; 67]  (* NUMERIC *);
   [79; 70; 70; 83; 69; 84]  (* OFFSET *);
   [79; 78]  (* ON *);
   [79; 82]  (* OR *);
   [79; 82; 68; 69; 82]  (* ORDER *);
   [79; 84; 72; 69; 82; 83]  (* OTHERS *);
   [79; 85; 84; 69; 82]  (* OUTER *);
   [79; 86; 69; 82]  (* OVER *);
   [80; 65; 82; 84; 73; 84; 73; 79; 78]  (* PARTITION *);
   [80; 73; 86; 79; 84]  (* PIVOT *);
   [80; 76; 65; 78; 83]  (* PLANS *);
   [80; 79; 83; 73; 84; 73; 79; 78]  (* POSITION *);
   [80; 82; 69; 67; 69; 68; 73; 78; 71]  (* PRECEDING *);
   [80; 82; 73; 77; 65; 82; 89]  (* PRIMARY *);
   [81; 85; 65; 76; 73; 70; 89]  (* QUALIFY *);
   [81; 85; 65; 82; 84; 69; 82]  (* QUARTER *);
   [82; 65; 78; 71; 69]  (* RANGE *);
   [82; 69; 65; 76]  (* REAL *);
   [82; 69; 67; 85; 82; 83; 73; 86; 69]  (* RECURSIVE *);
   [82; 69; 71; 69; 88; 80]  (* REGEXP *);
   [82; 69; 80; 76; 65; 67; 69]  (* REPLACE *);
   [82; 69; 83; 69; 84]  (* RESET *);
   [82; 69; 83; 84; 82; 73; 67; 84]  (* RESTRICT *);
   [82; 73; 71; 72; 84]  (* RIGHT *);
   [82; 76; 73; 75; 69]  (* RLIKE *);
   [82; 79; 76; 76; 66; 65; 67; 75]  (* ROLLBACK *);
   [82; 79; 76; 76; 85; 80]  (* ROLLUP *);
   [82; 79; 87]  (* ROW *);
   [82; 79; 87; 83]  (* ROWS *);
   [83; 67; 72; 69; 77; 65]  (* SCHEMA *);
   [83; 67; 72; 69; 77; 65; 83]  (* SCHEMAS *);
   [83; 69; 67; 79; 78; 68]  (* SECOND *);
   [83; 69; 67; 79; 78; 68; 83]  (* SECONDS *);
   [83; 69; 76; 69; 67; 84]  (* SELECT *);
   [83; 69; 77; 73]  (* SEMI *);
   [83; 69; 84]  (* SET *);
   [83; 69; 84; 83]  (* SETS *);
   [83; 72; 79; 87]  (* SHOW *);
   [83; 73; 77; 73; 76; 65; 82]  (* SIMILAR *);
   [83; 77; 65; 76; 76; 73; 78; 84]  (* SMALLINT *);
   [83; 79; 77; 69]  (* SOME *);
   [83; 79; 82; 84]  (* SORT *);
   [83; 84; 82; 73; 78; 71]  (* STRING *);
   [83; 85; 66; 83; 84; 82; 73; 78; 71]  (* SUBSTRING *);
   [84; 65; 66; 76; 69]  (* TABLE *);
   [84; 65; 66; 76; 69; 83]  (* TABLES *);
   [84; 69; 77; 80]  (* TEMP *);
   [84; 69; 77; 80; 79; 82; 65; 82; 89]  (* TEMPORARY *);
   [84; 69; 88; 84]  (* TEXT *);
   [84; 72; 69; 78]  (* THEN *);
   [84; 73; 69; 83]  (* TIES *);
   [84; 73; 77; 69; 83; 84; 65; 77; 80]  (* TIMESTAMP *);
   [84; 73; 77; 69; 83; 84; 65; 77; 80; 84; 90]  (* TIMESTAMPTZ *);
   [84; 73; 77; 69; 90; 79; 78; 69]  (* TIMEZONE *);
   [84; 73; 77; 69; 90; 79; 78; 69; 95; 72; 79; 85; 82]  (* TIMEZONE_HOUR *);
   [84; 73; 77; 69; 90; 79; 78; 69; 95; 77; 73; 78; 85; 84; 69]  (* TIMEZONE_MINUTE *);
   [84; 73; 78; 89; 73; 78; 84]  (* TINYINT *);
   [84; 79]  (* TO *);
   [84; 79; 80]  (* TOP *);
   [84; 82; 85; 69]  (* TRUE *);
   [85; 66; 73; 71; 73; 78; 84]  (* UBIGINT *);
   [85; 73; 78; 84]  (* UINT *);
   [85; 73; 78; 84; 49]  (* UINT1 *);
   [85; 73; 78; 84; 50]  (* UINT2 *);
   [85; 73; 78; 84; 52]  (* UINT4 *);
   [85; 73; 78; 84; 56]  (* UINT8 *);
   [85; 78; 66; 79; 85; 78; 68; 69; 68]  (* UNBOUNDED *);
   [85; 78; 73; 79; 78]  (* UNION *);
   [85; 78; 80; 73; 86; 79; 84]  (* UNPIVOT *);
   [85; 83; 73; 78; 71]  (* USING *);
   [85; 83; 77; 65; 76; 76; 73; 78; 84]  (* USMALLINT *);
   [85; 84; 73; 78; 89; 73; 78; 84]  (* UTINYINT *);
   [86; 65; 76; 85; 69; 83]  (* VALUES *);
   [86; 65; 82; 67; 72; 65; 82]  (* VARCHAR *);
   [86; 69; 82; 66; 79; 83; 69]  (* VERBOSE *);
   [86; 73; 69; 87]  (* VIEW *);
   [87; 69; 69; 75]  (* WEEK *);
   [87; 69; 69; 75; 83]  (* WEEKS *);
   [87; 72; 69; 78]  (* WHEN *);
   [87; 72; 69; 82; 69]  (* WHERE *);
   [87; 73; 78; 68; 79; 87]  (* WINDOW *);
   [87; 73; 84; 72]  (* WITH *);
   [88; 79; 82]  (* XOR *);
   [89; 69; 65; 82]  (* YEAR *);
   [89; 69; 65; 82; 83]  (* YEARS *)
  ].

(* index of each keyword = `Keyword as usize` = position in ALL_KEYWORDS *)
Definition kw_ALL : nat := 0%nat.
Definition kw_ANALYZE : nat := 1%nat.
Definition kw_AND : nat := 2%nat.
Definition kw_ANTI : nat := 3%nat.
Definition kw_ANY : nat := 4%nat.
Definition kw_AS : nat := 5%nat.
Definition kw_ASC : nat := 6%nat.
Definition kw_ATTACH : nat := 7%nat.
Definition kw_BEGIN : nat := 8%nat.
Definition kw_BETWEEN : nat := 9%nat.
Definition kw_BIGDECIMAL : nat := 10%nat.
Definition kw_BIGINT : nat := 11%nat.
Definition kw_BIGNUMERIC : nat := 12%nat.
Definition kw_BINARY : nat := 13%nat.
Definition kw_BLOB : nat := 14%nat.
Definition kw_BOOL : nat := 15%nat.
Definition kw_BOOLEAN : nat := 16%nat.
Definition kw_BY : nat := 17%nat.
Definition kw_CASCADE : nat := 18%nat.
Definition kw_CASE : nat := 19%nat.
Definition kw_CAST : nat := 20%nat.
Definition kw_CATALOGS : nat := 21%nat.
Definition kw_CENTURIES : nat := 22%nat.
Definition kw_CENTURY : nat := 23%nat.
Definition kw_CLUSTER : nat := 24%nat.
Definition kw_COLUMNS : nat := 25%nat.
Definition kw_COPY : nat := 26%nat.
Definition kw_CREATE : nat := 27%nat.
Definition kw_CROSS : nat := 28%nat.
Definition kw_CUBE : nat := 29%nat.
Definition kw_CURRENT : nat := 30%nat.
Definition kw_DATABASE : nat := 31%nat.
Definition kw_DATABASES : nat := 32%nat.
Definition kw_DATE : nat := 33%nat.
Definition kw_DAY : nat := 34%nat.
Definition kw_DAYS : nat := 35%nat.
Definition kw_DECADE : nat := 36%nat.
Definition kw_DECADES : nat := 37%nat.
Definition kw_DECIMAL : nat := 38%nat.
Definition kw_DESC : nat := 39%nat.
Definition kw_DESCRIBE : nat := 40%nat.
Definition kw_DETACH : nat := 41%nat.
Definition kw_DISCARD : nat := 42%nat.
Definition kw_DISTINCT : nat := 43%nat.
Definition kw_DISTRIBUTE : nat := 44%nat.
Definition kw_DOUBLE : nat := 45%nat.
Definition kw_DOW : nat := 46%nat.
Definition kw_DOY : nat := 47%nat.
Definition kw_DROP : nat := 48%nat.
Definition kw_ELSE : nat := 49%nat.
Definition kw_END : nat := 50%nat.
Definition kw_EPOCH : nat := 51%nat.
Definition kw_EXCEPT : nat := 52%nat.
Definition kw_EXCLUDE : nat := 53%nat.
Definition kw_EXISTS : nat := 54%nat.
Definition kw_EXPLAIN : nat := 55%nat.
Definition kw_EXTERNAL : nat := 56%nat.
Definition kw_EXTRACT : nat := 57%nat.
Definition kw_FALSE : nat := 58%nat.
Definition kw_FETCH : nat := 59%nat.
Definition kw_FILTER : nat := 60%nat.
Definition kw_FIRST : nat := 61%nat.
Definition kw_FLOAT : nat := 62%nat.
Definition kw_FLOAT2 : nat := 63%nat.
Definition kw_FLOAT4 : nat := 64%nat.
Definition kw_FLOAT8 : nat := 65%nat.
Definition kw_FOLLOWING : nat := 66%nat.
Definition kw_FOR : nat := 67%nat.
Definition kw_FORMAT : nat := 68%nat.
Definition kw_FROM : nat := 69%nat.
Definition kw_FULL : nat := 70%nat.
Definition kw_FUNCTION : nat := 71%nat.
Definition kw_GROUP : nat := 72%nat.
Definition kw_GROUPING : nat := 73%nat.
Definition kw_GROUPS : nat := 74%nat.
Definition kw_HALF : nat := 75%nat.
Definition kw_HAVING : nat := 76%nat.
Definition kw_HOUR : nat := 77%nat.
Definition kw_HOURS : nat := 78%nat.
Definition kw_IF : nat := 79%nat.
Definition kw_ILIKE : nat := 80%nat.
Definition kw_IN : nat := 81%nat.
Definition kw_INDEX : nat := 82%nat.
Definition kw_INNER : nat := 83%nat.
Definition kw_INSERT : nat := 84%nat.
Definition kw_INT : nat := 85%nat.
Definition kw_INT1 : nat := 86%nat.
Definition kw_INT2 : nat := 87%nat.
Definition kw_INT4 : nat := 88%nat.
Definition kw_INT8 : nat := 89%nat.
Definition kw_INTEGER : nat := 90%nat.
Definition kw_INTERSECT : nat := 91%nat.
Definition kw_INTERVAL : nat := 92%nat.
Definition kw_INTO : nat := 93%nat.
Definition kw_IS : nat := 94%nat.
Definition kw_ISODOW : nat := 95%nat.
Definition kw_ISOYEAR : nat := 96%nat.
Definition kw_JOIN : nat := 97%nat.
Definition kw_JSON : nat := 98%nat.
Definition kw_JULIAN : nat := 99%nat.
Definition kw_LAST : nat := 100%nat.
Definition kw_LATERAL : nat := 101%nat.
Definition kw_LEFT : nat := 102%nat.
Definition kw_LIKE : nat := 103%nat.
Definition kw_LIMIT : nat := 104%nat.
Definition kw_MATERIALIZED : nat := 105%nat.
Definition kw_METADATA : nat := 106%nat.
Definition kw_MICROSECOND : nat := 107%nat.
Definition kw_MICROSECONDS : nat := 108%nat.
Definition kw_MILLENIUM : nat := 109%nat.
Definition kw_MILLENIUMS : nat := 110%nat.
Definition kw_MILLISECOND : nat := 111%nat.
Definition kw_MILLISECONDS : nat := 112%nat.
Definition kw_MINUTE : nat := 113%nat.
Definition kw_MINUTES : nat := 114%nat.
Definition kw_MONTH : nat := 115%nat.
Definition kw_MONTHS : nat := 116%nat.
Definition kw_NANOSECOND : nat := 117%nat.
Definition kw_NANOSECONDS : nat := 118%nat.
Definition kw_NATURAL : nat := 119%nat.
Definition kw_NO : nat := 120%nat.
Definition kw_NOT : nat := 121%nat.
Definition kw_NULL : nat := 122%nat.
Definition kw_NULLS : nat := 123%nat.
Definition kw_NUMERIC : nat := 124%nat.
Definition kw_OFFSET : nat := 125%nat.
Definition kw_ON : nat := 126%nat.
Definition kw_OR : nat := 127%nat.
Definition kw_ORDER : nat := 128%nat.
Definition kw_OTHERS : nat := 129%nat.
Definition kw_OUTER : nat := 130%nat.
Definition kw_OVER : nat := 131%nat.
Definition kw_PARTITION : nat := 132%nat.
Definition kw_PIVOT : nat := 133%nat.
Definition kw_PLANS : nat := 134%nat.
Definition kw_POSITION : nat := 135%nat.
Definition kw_PRECEDING : nat := 136%nat.
Definition kw_PRIMARY : nat := 137%nat.
Definition kw_QUALIFY : nat := 138%nat.
Definition kw_QUARTER : nat := 139%nat.
Definition kw_RANGE : nat := 140%nat.
Definition kw_REAL : nat := 141%nat.
Definition kw_RECURSIVE : nat := 142%nat.
Definition kw_REGEXP : nat := 143%nat.
Definition kw_REPLACE : nat := 144%nat.
Definition kw_RESET : nat := 145%nat.
Definition kw_RESTRICT : nat := 146%nat.
Definition kw_RIGHT : nat := 147%nat.
Definition kw_RLIKE : nat := 148%nat.
Definition kw_ROLLBACK : nat := 149%nat.
Definition kw_ROLLUP : nat := 150%nat.
Definition kw_ROW : nat := 151%nat.
Definition kw_ROWS : nat := 152%nat.
Definition kw_SCHEMA : nat := 153%nat.
Definition kw_SCHEMAS : nat := 154%nat.
Definition kw_SECOND : nat := 155%nat.
Definition kw_SECONDS : nat := 156%nat.
Definition kw_SELECT : nat := 157%nat.
Definition kw_SEMI : nat := 158%nat.
Definition kw_SET : nat := 159%nat.
Definition kw_SETS : nat := 160%nat.
Definition kw_SHOW : nat := 161%nat.
Definition kw_SIMILAR : nat := 162%nat.
Definition kw_SMALLINT : nat := 163%nat.
Definition kw_SOME : nat := 164%nat.
Definition kw_SORT : nat := 165%nat.
Definition kw_STRING : nat := 166%nat.
Definition kw_SUBSTRING : nat := 167%nat.
Definition kw_TABLE : nat := 168%nat.
Definition kw_TABLES : nat := 169%nat.
Definition kw_TEMP : nat := 170%nat.
Definition kw_TEMPORARY : nat := 171%nat.
Definition kw_TEXT : nat := 172%nat.
Definition kw_THEN : nat := 173%nat.
Definition kw_TIES : nat := 174%nat.
Definition kw_TIMESTAMP : nat := 175%nat.
Definition kw_TIMESTAMPTZ : nat := 176%nat.
Definition kw_TIMEZONE : nat := 177%nat.
Definition kw_TIMEZONE_HOUR : nat := 178%nat.
Definition kw_TIMEZONE_MINUTE : nat := 179%nat.
Definition kw_TINYINT : nat := 180%nat.
Definition kw_TO : nat := 181%nat.
Definition kw_TOP : nat := 182%nat.
Definition kw_TRUE : nat := 183%nat.
Definition kw_UBIGINT : nat := 184%nat.
Definition kw_UINT : nat := 185%nat.
Definition kw_UINT1 : nat := 186%nat.
Definition kw_UINT2 : nat := 187%nat.
Definition kw_UINT4 : nat := 188%nat.
Definition kw_UINT8 : nat := 189%nat.
Definition kw_UNBOUNDED : nat := 190%nat.
Definition kw_UNION : nat := 191%nat.
Definition kw_UNPIVOT : nat := 192%nat.
Definition kw_USING : nat := 193%nat.
Definition kw_USMALLINT : nat := 194%nat.
Definition kw_UTINYINT : nat := 195%nat.
Definition kw_VALUES : nat := 196%nat.
Definition kw_VARCHAR : nat := 197%nat.
Definition kw_VERBOSE : nat := 198%nat.
Definition kw_VIEW : nat := 199%nat.
Definition kw_WEEK : nat := 200%nat.
Definition kw_WEEKS : nat := 201%nat.
Definition kw_WHEN : nat := 202%nat.
Definition kw_WHERE : nat := 203%nat.
Definition kw_WINDOW : nat := 204%nat.
Definition kw_WITH : nat := 205%nat.
Definition kw_XOR : nat := 206%nat.
Definition kw_YEAR : nat := 207%nat.
Definition kw_YEARS : nat := 208%nat.

(* RESERVED_FOR_COLUMN_ALIAS of keywords.rs (Parser::parse_comma_separated stops before these) *)
Definition reserved_for_column_alias : list nat :=
  [205%nat (* WITH *); 55%nat (* EXPLAIN *); 1%nat (* ANALYZE *); 157%nat (* SELECT *); 203%nat (* WHERE *); 72%nat (* GROUP *); 165%nat (* SORT *); 76%nat (* HAVING *); 128%nat (* ORDER *); 182%nat (* TOP *); 101%nat (* LATERAL *); 199%nat (* VIEW *); 104%nat (* LIMIT *); 125%nat (* OFFSET *); 59%nat (* FETCH *); 191%nat (* UNION *); 52%nat (* EXCEPT *); 91%nat (* INTERSECT *); 24%nat (* CLUSTER *); 44%nat (* DISTRIBUTE *); 69%nat (* FROM *); 93%nat (* INTO *); 50%nat (* END *)].

(* precedences of Expr::parse_subexpr (ast/expr.rs) *)
Definition prec_or : option N := Some 10.
Definition prec_and : option N := Some 20.
Definition prec_not : option N := Some 30.
Definition prec_is : option N := Some 40.
Definition prec_comparison : option N := Some 50.
Definition prec_containment : option N := Some 60.
Definition prec_everything_else : option N := Some 70.
Definition prec_add_sub : option N := Some 80.
Definition prec_mul_div_mod : option N := Some 90.
Definition prec_exponentiation : option N := Some 100.
Definition prec_unary_minus : option N := Some 105.
Definition prec_array_elem : option N := Some 130.
Definition prec_cast : option N := Some 140.
