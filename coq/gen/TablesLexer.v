(* GENERATED on every run by vlib/tables_lexer.py from /repo's working tree. Do not edit. *)
From Coq Require Import NArith List.
Import ListNotations.
Open Scope N_scope.

(* define_keywords!(...) of crates/glaredb_parser/src/keywords.rs, in source order (code points) *)
Definition keywords : list (list N) :=
  [[65; 76; 76]  (* ALL *);
   [65; 78; 65; 76; 89; 90; 69]  (* ANALYZE *);
   [65; 78; 68]  (* AND *);
   [65; 78; 84; 73]  (* ANTI *);
   [65; 78; 89]  (* ANY *);
   [65; 83]  (* AS *);
   [65; 83; 67]  (* ASC *);
   [65; 84; 84; 65; 67; 72]  (* ATTACH *);
   [66; 69; 71; 73; 78]  (* BEGIN *);
   [66; 69; 84; 87; 69; 69; 78]  (* BETWEEN *);
   [66; 73; 71; 68; 69; 67; 73; 77; 65; 76]  (* BIGDECIMAL *);
   [66; 73; 71; 73; 78; 84]  (* BIGINT *);
   [66; 73; 71; 78; 85; 77; 69; 82; 73; 67]  (* BIGNUMERIC *);
   [66; 73; 78; 65; 82; 89]  (* BINARY *);
   [66; 76; 79; 66]  (* BLOB *);
   [66; 79; 79; 76]  (* BOOL *);
   [66; 79; 79; 76; 69; 65; 78]  (* BOOLEAN *);
   [66; 89]  (* BY *);
   [67; 65; 83; 67; 65; 68; 69]  (* CASCADE *);
   [67; 65; 83; 69]  (* CASE *);
   [67; 65; 83; 84]  (* CAST *);
   [67; 65; 84; 65; 76; 79; 71; 83]  (* CATALOGS *);
   [67; 69; 78; 84; 85; 82; 73; 69; 83]  (* CENTURIES *);
   [67; 69; 78; 84; 85; 82; 89]  (* CENTURY *);
   [67; 76; 85; 83; 84; 69; 82]  (* CLUSTER *);
   [67; 79; 76; 85; 77; 78; 83]  (* COLUMNS *);
   [67; 79; 80; 89]  (* COPY *);
   [67; 82; 69; 65; 84; 69]  (* CREATE *);
   [67; 82; 79; 83; 83]  (* CROSS *);
   [67; 85; 66; 69]  (* CUBE *);
   [67; 85; 82; 82; 69; 78; 84]  (* CURRENT *);
   [68; 65; 84; 65; 66; 65; 83; 69]  (* DATABASE *);
   [68; 65; 84; 65; 66; 65; 83; 69; 83]  (* DATABASES *);
   [68; 65; 84; 69]  (* DATE *);
   [68; 65; 89]  (* DAY *);
   [68; 65; 89; 83]  (* DAYS *);
   [68; 69; 67; 65; 68; 69]  (* DECADE *);
   [68; 69; 67; 65; 68; 69; 83]  (* DECADES *);
   [68; 69; 67; 73; 77; 65; 76]  (* DECIMAL *);
   [68; 69; 83; 67]  (* DESC *);
   [68; 69; 83; 67; 82; 73; 66; 69]  (* DESCRIBE *);
   [68; 69; 84; 65; 67; 72]  (* DETACH *);
   [68; 73; 83; 67; 65; 82; 68]  (* DISCARD *);
   [68; 73; 83; 84; 73; 78; 67; 84]  (* DISTINCT *);
   [68; 73; 83; 84; 82; 73; 66; 85; 84; 69]  (* DISTRIBUTE *);
   [68; 79; 85; 66; 76; 69]  (* DOUBLE *);
   [68; 79; 87]  (* DOW *);
   [68; 79; 89]  (* DOY *);
   [68; 82; 79; 80]  (* DROP *);
   [69; 76; 83; 69]  (* ELSE *);
   [69; 78; 68]  (* END *);
   [69; 80; 79; 67; 72]  (* EPOCH *);
   [69; 88; 67; 69; 80; 84]  (* EXCEPT *);
   [69; 88; 67; 76; 85; 68; 69]  (* EXCLUDE *);
   [69; 88; 73; 83; 84; 83]  (* EXISTS *);
   [69; 88; 80; 76; 65; 73; 78]  (* EXPLAIN *);
   [69; 88; 84; 69; 82; 78; 65; 76]  (* EXTERNAL *);
   [69; 88; 84; 82; 65; 67; 84]  (* EXTRACT *);
   [70; 65; 76; 83; 69]  (* FALSE *);
   [70; 69; 84; 67; 72]  (* FETCH *);
   [70; 73; 76; 84; 69; 82]  (* FILTER *);
   [70; 73; 82; 83; 84]  (* FIRST *);
   [70; 76; 79; 65; 84]  (* FLOAT *);
   [70; 76; 79; 65; 84; 50]  (* FLOAT2 *);
   [70; 76; 79; 65; 84; 52]  (* FLOAT4 *);
   [70; 76; 79; 65; 84; 56]  (* FLOAT8 *);
   [70; 79; 76; 76; 79; 87; 73; 78; 71]  (* FOLLOWING *);
   [70; 79; 82]  (* FOR *);
   [70; 79; 82; 77; 65; 84]  (* FORMAT *);
   [70; 82; 79; 77]  (* FROM *);
   [70; 85; 76; 76]  (* FULL *);
   [70; 85; 78; 67; 84; 73; 79; 78]  (* FUNCTION *);
   [71; 82; 79; 85; 80]  (* GROUP *);
   [71; 82; 79; 85; 80; 73; 78; 71]  (* GROUPING *);
   [71; 82; 79; 85; 80; 83]  (* GROUPS *);
   [72; 65; 76; 70]  (* HALF *);
   [72; 65; 86; 73; 78; 71]  (* HAVING *);
   [72; 79; 85; 82]  (* HOUR *);
   [72; 79; 85; 82; 83]  (* HOURS *);
   [73; 70]  (* IF *);
   [73; 76; 73; 75; 69]  (* ILIKE *);
   [73; 78]  (* IN *);
   [73; 78; 68; 69; 88]  (* INDEX *);
   [73; 78; 78; 69; 82]  (* INNER *);
   [73; 78; 83; 69; 82; 84]  (* INSERT *);
   [73; 78; 84]  (* INT *);
   [73; 78; 84; 49]  (* INT1 *);
   [73; 78; 84; 50]  (* INT2 *);
   [73; 78; 84; 52]  (* INT4 *);
   [73; 78; 84; 56]  (* INT8 *);
   [73; 78; 84; 69; 71; 69; 82]  (* INTEGER *);
   [73; 78; 84; 69; 82; 83; 69; 67; 84]  (* INTERSECT *);
   [73; 78; 84; 69; 82; 86; 65; 76]  (* INTERVAL *);
   [73; 78; 84; 79]  (* INTO *);
   [73; 83]  (* IS *);
   [73; 83; 79; 68; 79; 87]  (* ISODOW *);
   [73; 83; 79; 89; 69; 65; 82]  (* ISOYEAR *);
   [74; 79; 73; 78]  (* JOIN *);
   [74; 83; 79; 78]  (* JSON *);
   [74; 85; 76; 73; 65; 78]  (* JULIAN *);
   [76; 65; 83; 84]  (* LAST *);
   [76; 65; 84; 69; 82; 65; 76]  (* LATERAL *);
   [76; 69; 70; 84]  (* LEFT *);
   [76; 73; 75; 69]  (* LIKE *);
   [76; 73; 77; 73; 84]  (* LIMIT *);
   [77; 65; 84; 69; 82; 73; 65; 76; 73; 90; 69; 68]  (* MATERIALIZED *);
   [77; 69; 84; 65; 68; 65; 84; 65]  (* METADATA *);
   [77; 73; 67; 82; 79; 83; 69; 67; 79; 78; 68]  (* MICROSECOND *);
   [77; 73; 67; 82; 79; 83; 69; 67; 79; 78; 68; 83]  (* MICROSECONDS *);
   [77; 73; 76; 76; 69; 78; 73; 85; 77]  (* MILLENIUM *);
   [77; 73; 76; 76; 69; 78; 73; 85; 77; 83]  (* MILLENIUMS *);
   [77; 73; 76; 76; 73; 83; 69; 67; 79; 78; 68]  (* MILLISECOND *);
   [77; 73; 76; 76; 73; 83; 69; 67; 79; 78; 68; 83]  (* MILLISECONDS *);
   [77; 73; 78; 85; 84; 69]  (* MINUTE *);
   [77; 73; 78; 85; 84; 69; 83]  (* MINUTES *);
   [77; 79; 78; 84; 72]  (* MONTH *);
   [77; 79; 78; 84; 72; 83]  (* MONTHS *);
   [78; 65; 78; 79; 83; 69; 67; 79; 78; 68]  (* NANOSECOND *);
   [78; 65; 78; 79; 83; 69; 67; 79; 78; 68; 83]  (* NANOSECONDS *);
   [78; 65; 84; 85; 82; 65; 76]  (* NATURAL *);
   [78; 79]  (* NO *);
   [78; 79; 84]  (* NOT *);
   [78; 85; 76; 76]  (* NULL *);
   [78; 85; 76; 76; 83]  (* NULLS *);
   [78; 85; 77; 69; 82; 73; 67]  (* NUMERIC *);
   [79; 70; 70; 83; 69; 84]  (* OFFSET *);
   [79; 78]  (* ON *);
   [79; 82]  (* OR *);
   [79; 82; 68; 69; 82]  (* ORDER *);
   [79; 84; 72; 69; 82; 83]  (* OTHERS *);
   [79; 85; 84; 69; 82]  (* OUTER *);
   [79; 86; 69; 82]  (* OVER *);
   [80; 65; 82; 84; 73; 84; 73; 79; 78]  (* PARTITION *);
   [80; 73; 86; 79; 84]  (* PIVOT *);
   [80; 76; 65; 78; 83]  (* PLANS *);
   [80; 79; 83; 73; 84; 73; 79; 78]  (* POSITION *);
   [80; 82; 69; 67; 69; 68; 73; 78; 71]  (* PRECEDING *);
   [80; 82; 73; 77; 65; 82; 89]  (* PRIMARY *);
   [81; 85; 65; 76; 73; 70; 89]  (* QUALIFY *);
   [81; 85; 65; 82; 84; 69; 82]  (* QUARTER *);
   [82; 65; 78; 71; 69]  (* RANGE *);
   [82; 69; 65; 76]  (* REAL *);
   [82; 69; 67; 85; 82; 83; 73; 86; 69]  (* RECURSIVE *);
   [82; 69; 71; 69; 88; 80]  (* REGEXP *);
   [82; 69; 80; 76; 65; 67; 69]  (* REPLACE *);
   [82; 69; 83; 69; 84]  (* RESET *);
   [82; 69; 83; 84; 82; 73; 67; 84]  (* RESTRICT *);
   [82; 73; 71; 72; 84]  (* RIGHT *);
   [82; 76; 73; 75; 69]  (* RLIKE *);
   [82; 79; 76; 76; 66; 65; 67; 75]  (* ROLLBACK *);
   [82; 79; 76; 76; 85; 80]  (* ROLLUP *);
   [82; 79; 87]  (* ROW *);
   [82; 79; 87; 83]  (* ROWS *);
   [83; 67; 72; 69; 77; 65]  (* SCHEMA *);
   [83; 67; 72; 69; 77; 65; 83]  (* SCHEMAS *);
   [83; 69; 67; 79; 78; 68]  (* SECOND *);
   [83; 69; 67; 79; 78; 68; 83]  (* SECONDS *);
   [83; 69; 76; 69; 67; 84]  (* SELECT *);
   [83; 69; 77; 73]  (* SEMI *);
   [83; 69; 84]  (* SET *);
   [83; 69; 84; 83]  (* SETS *);
   [83; 72; 79; 87]  (* SHOW *);
   [83; 73; 77; 73; 76; 65; 82]  (* SIMILAR *);
   [83; 77; 65; 76; 76; 73; 78; 84]  (* SMALLINT *);
   [83; 79; 77; 69]  (* SOME *);
   [83; 79; 82; 84]  (* SORT *);
   [83; 84; 82; 73; 78; 71]  (* STRING *);
   [83; 85; 66; 83; 84; 82; 73; 78; 71]  (* SUBSTRING *);
   [84; 65; 66; 76; 69]  (* TABLE *);
   [84; 65; 66; 76; 69; 83]  (* TABLES *);
   [84; 69; 77; 80]  (* TEMP *);
   [84; 69; 77; 80; 79; 82; 65; 82; 89]  (* TEMPORARY *);
   [84; 69; 88; 84]  (* TEXT *);
   [84; 72; 69; 78]  (* THEN *);
   [84; 73; 69; 83]  (* TIES *);
   [84; 73; 77; 69; 83; 84; 65; 77; 80]  (* TIMESTAMP *);
   [84; 73; 77; 69; 83; 84; 65; 77; 80; 84; 90]  (* TIMESTAMPTZ *);
   [84; 73; 77; 69; 90; 79; 78; 69]  (* TIMEZONE *);
   [84; 73; 77; 69; 90; 79; 78; 69; 95; 72; 79; 85; 82]  (* TIMEZONE_HOUR *);
   [84; 73; 77; 69; 90; 79; 78; 69; 95; 77; 73; 78; 85; 84; 69]  (* TIMEZONE_MINUTE *);
   [84; 73; 78; 89; 73; 78; 84]  (* TINYINT *);
   [84; 79]  (* TO *);
   [84; 79; 80]  (* TOP *);
   [84; 82; 85; 69]  (* TRUE *);
   [85; 66; 73; 71; 73; 78; 84]  (* UBIGINT *);
   [85; 73; 78; 84]  (* UINT *);
   [85; 73; 78; 84; 49]  (* UINT1 *);
   [85; 73; 78; 84; 50]  (* UINT2 *);
   [85; 73; 78; 84; 52]  (* UINT4 *);
   [85; 73; 78; 84; 56]  (* UINT8 *);
   [85; 78; 66; 79; 85; 78; 68; 69; 68]  (* UNBOUNDED *);
   [85; 78; 73; 79; 78]  (* UNION *);
   [85; 78; 80; 73; 86; 79; 84]  (* UNPIVOT *);
   [85; 83; 73; 78; 71]  (* USING *);
   [85; 83; 77; 65; 76; 76; 73; 78; 84]  (* USMALLINT *);
   [85; 84; 73; 78; 89; 73; 78; 84]  (* UTINYINT *);
   [86; 65; 76; 85; 69; 83]  (* VALUES *);
   [86; 65; 82; 67; 72; 65; 82]  (* VARCHAR *);
   [86; 69; 82; 66; 79; 83; 69]  (* VERBOSE *);
   [86; 73; 69; 87]  (* VIEW *);
   [87; 69; 69; 75]  (* WEEK *);
   [87; 69; 69; 75; 83]  (* WEEKS *);
   [87; 72; 69; 78]  (* WHEN *);
   [87; 72; 69; 82; 69]  (* WHERE *);
   [87; 73; 78; 68; 79; 87]  (* WINDOW *);
   [87; 73; 84; 72]  (* WITH *);
   [88; 79; 82]  (* XOR *);
   [89; 69; 65; 82]  (* YEAR *);
   [89; 69; 65; 82; 83]  (* YEARS *)
  ].

(* index of each keyword = `Keyword as usize` = position in ALL_KEYWORDS *)
Definition kw_ALL : nat := 0.
Definition kw_ANALYZE : nat := 1.
Definition kw_AND : nat := 2.
Definition kw_ANTI : nat := 3.
Definition kw_ANY : nat := 4.
Definition kw_AS : nat := 5.
Definition kw_ASC : nat := 6.
Definition kw_ATTACH : nat := 7.
Definition kw_BEGIN : nat := 8.
Definition kw_BETWEEN : nat := 9.
Definition kw_BIGDECIMAL : nat := 10.
Definition kw_BIGINT : nat := 11.
Definition kw_BIGNUMERIC : nat := 12.
Definition kw_BINARY : nat := 13.
Definition kw_BLOB : nat := 14.
Definition kw_BOOL : nat := 15.
Definition kw_BOOLEAN : nat := 16.
Definition kw_BY : nat := 17.
Definition kw_CASCADE : nat := 18.
Definition kw_CASE : nat := 19.
Definition kw_CAST : nat := 20.
Definition kw_CATALOGS : nat := 21.
Definition kw_CENTURIES : nat := 22.
Definition kw_CENTURY : nat := 23.
Definition kw_CLUSTER : nat := 24.
Definition kw_COLUMNS : nat := 25.
Definition kw_COPY : nat := 26.
Definition kw_CREATE : nat := 27.
Definition kw_CROSS : nat := 28.
Definition kw_CUBE : nat := 29.
Definition kw_CURRENT : nat := 30.
Definition kw_DATABASE : nat := 31.
Definition kw_DATABASES : nat := 32.
Definition kw_DATE : nat := 33.
Definition kw_DAY : nat := 34.
Definition kw_DAYS : nat := 35.
Definition kw_DECADE : nat := 36.
Definition kw_DECADES : nat := 37.
Definition kw_DECIMAL : nat := 38.
Definition kw_DESC : nat := 39.
Definition kw_DESCRIBE : nat := 40.
Definition kw_DETACH : nat := 41.
Definition kw_DISCARD : nat := 42.
Definition kw_DISTINCT : nat := 43.
Definition kw_DISTRIBUTE : nat := 44.
Definition kw_DOUBLE : nat := 45.
Definition kw_DOW : nat := 46.
Definition kw_DOY : nat := 47.
Definition kw_DROP : nat := 48.
Definition kw_ELSE : nat := 49.
Definition kw_END : nat := 50.
Definition kw_EPOCH : nat := 51.
Definition kw_EXCEPT : nat := 52.
Definition kw_EXCLUDE : nat := 53.
Definition kw_EXISTS : nat := 54.
Definition kw_EXPLAIN : nat := 55.
Definition kw_EXTERNAL : nat := 56.
Definition kw_EXTRACT : nat := 57.
Definition kw_FALSE : nat := 58.
Definition kw_FETCH : nat := 59.
Definition kw_FILTER : nat := 60.
Definition kw_FIRST : nat := 61.
Definition kw_FLOAT : nat := 62.
Definition kw_FLOAT2 : nat := 63.
Definition kw_FLOAT4 : nat := 64.
Definition kw_FLOAT8 : nat := 65.
Definition kw_FOLLOWING : nat := 66.
Definition kw_FOR : nat := 67.
Definition kw_FORMAT : nat := 68.
Definition kw_FROM : nat := 69.
Definition kw_FULL : nat := 70.
Definition kw_FUNCTION : nat := 71.
Definition kw_GROUP : nat := 72.
Definition kw_GROUPING : nat := 73.
Definition kw_GROUPS : nat := 74.
Definition kw_HALF : nat := 75.
Definition kw_HAVING : nat := 76.
Definition kw_HOUR : nat := 77.
Definition kw_HOURS : nat := 78.
Definition kw_IF : nat := 79.
Definition kw_ILIKE : nat := 80.
Definition kw_IN : nat := 81.
Definition kw_INDEX : nat := 82.
Definition kw_INNER : nat := 83.
Definition kw_INSERT : nat := 84.
Definition kw_INT : nat := 85.
Definition kw_INT1 : nat := 86.
Definition kw_INT2 : nat := 87.
Definition kw_INT4 : nat := 88.
Definition kw_INT8 : nat := 89.
Definition kw_INTEGER : nat := 90.
Definition kw_INTERSECT : nat := 91.
Definition kw_INTERVAL : nat := 92.
Definition kw_INTO : nat := 93.
Definition kw_IS : nat := 94.
Definition kw_ISODOW : nat := 95.
Definition kw_ISOYEAR : nat := 96.
Definition kw_JOIN : nat := 97.
Definition kw_JSON : nat := 98.
Definition kw_JULIAN : nat := 99.
Definition kw_LAST : nat := 100.
Definition kw_LATERAL : nat := 101.
Definition kw_LEFT : nat := 102.
Definition kw_LIKE : nat := 103.
Definition kw_LIMIT : nat := 104.
Definition kw_MATERIALIZED : nat := 105.
Definition kw_METADATA : nat := 106.
Definition kw_MICROSECOND : nat := 107.
Definition kw_MICROSECONDS : nat := 108.
Definition kw_MILLENIUM : nat := 109.
Definition kw_MILLENIUMS : nat := 110.
Definition kw_MILLISECOND : nat := 111.
Definition kw_MILLISECONDS : nat := 112.
Definition kw_MINUTE : nat := 113.
Definition kw_MINUTES : nat := 114.
Definition kw_MONTH : nat := 115.
Definition kw_MONTHS : nat := 116.
Definition kw_NANOSECOND : nat := 117.
Definition kw_NANOSECONDS : nat := 118.
Definition kw_NATURAL : nat := 119.
Definition kw_NO : nat := 120.
Definition kw_NOT : nat := 121.
Definition kw_NULL : nat := 122.
Definition kw_NULLS : nat := 123.
Definition kw_NUMERIC : nat := 124.
Definition kw_OFFSET : nat := 125.
Definition kw_ON : nat := 126.
Definition kw_OR : nat := 127.
Definition kw_ORDER : nat := 128.
Definition kw_OTHERS : nat := 129.
Definition kw_OUTER : nat := 130.
Definition kw_OVER : nat := 131.
Definition kw_PARTITION : nat := 132.
Definition kw_PIVOT : nat := 133.
Definition kw_PLANS : nat := 134.
Definition kw_POSITION : nat := 135.
Definition kw_PRECEDING : nat := 136.
Definition kw_PRIMARY : nat := 137.
Definition kw_QUALIFY : nat := 138.
Definition kw_QUARTER : nat := 139.
Definition kw_RANGE : nat := 140.
Definition kw_REAL : nat := 141.
Definition kw_RECURSIVE : nat := 142.
Definition kw_REGEXP : nat := 143.
Definition kw_REPLACE : nat := 144.
Definition kw_RESET : nat := 145.
Definition kw_RESTRICT : nat := 146.
Definition kw_RIGHT : nat := 147.
Definition kw_RLIKE : nat := 148.
Definition kw_ROLLBACK : nat := 149.
Definition kw_ROLLUP : nat := 150.
Definition kw_ROW : nat := 151.
Definition kw_ROWS : nat := 152.
Definition kw_SCHEMA : nat := 153.
Definition kw_SCHEMAS : nat := 154.
Definition kw_SECOND : nat := 155.
Definition kw_SECONDS : nat := 156.
Definition kw_SELECT : nat := 157.
Definition kw_SEMI : nat := 158.
Definition kw_SET : nat := 159.
Definition kw_SETS : nat := 160.
Definition kw_SHOW : nat := 161.
Definition kw_SIMILAR : nat := 162.
Definition kw_SMALLINT : nat := 163.
Definition kw_SOME : nat := 164.
Definition kw_SORT : nat := 165.
Definition kw_STRING : nat := 166.
Definition kw_SUBSTRING : nat := 167.
Definition kw_TABLE : nat := 168.
Definition kw_TABLES : nat := 169.
Definition kw_TEMP : nat := 170.
Definition kw_TEMPORARY : nat := 171.
Definition kw_TEXT : nat := 172.
Definition kw_THEN : nat := 173.
Definition kw_TIES : nat := 174.
Definition kw_TIMESTAMP : nat := 175.
Definition kw_TIMESTAMPTZ : nat := 176.
Definition kw_TIMEZONE : nat := 177.
Definition kw_TIMEZONE_HOUR : nat := 178.
Definition kw_TIMEZONE_MINUTE : nat := 179.
Definition kw_TINYINT : nat := 180.
Definition kw_TO : nat := 181.
Definition kw_TOP : nat := 182.
Definition kw_TRUE : nat := 183.
Definition kw_UBIGINT : nat := 184.
Definition kw_UINT : nat := 185.
Definition kw_UINT1 : nat := 186.
Definition kw_UINT2 : nat := 187.
Definition kw_UINT4 : nat := 188.
Definition kw_UINT8 : nat := 189.
Definition kw_UNBOUNDED : nat := 190.
Definition kw_UNION : nat := 191.
Definition kw_UNPIVOT : nat := 192.
Definition kw_USING : nat := 193.
Definition kw_USMALLINT : nat := 194.
Definition kw_UTINYINT : nat := 195.
Definition kw_VALUES : nat := 196.
Definition kw_VARCHAR : nat := 197.
Definition kw_VERBOSE : nat := 198.
Definition kw_VIEW : nat := 199.
Definition kw_WEEK : nat := 200.
Definition kw_WEEKS : nat := 201.
Definition kw_WHEN : nat := 202.
Definition kw_WHERE : nat := 203.
Definition kw_WINDOW : nat := 204.
Definition kw_WITH : nat := 205.
Definition kw_XOR : nat := 206.
Definition kw_YEAR : nat := 207.
Definition kw_YEARS : nat := 208.

(* RESERVED_FOR_COLUMN_ALIAS of keywords.rs (Parser::parse_comma_separated stops before these) *)
Definition reserved_for_column_alias : list nat :=
  [205 (* WITH *); 55 (* EXPLAIN *); 1 (* ANALYZE *); 157 (* SELECT *); 203 (* WHERE *); 72 (* GROUP *); 165 (* SORT *); 76 (* HAVING *); 128 (* ORDER *); 182 (* TOP *); 101 (* LATERAL *); 199 (* VIEW *); 104 (* LIMIT *); 125 (* OFFSET *); 59 (* FETCH *); 191 (* UNION *); 52 (* EXCEPT *); 91 (* INTERSECT *); 24 (* CLUSTER *); 44 (* DISTRIBUTE *); 69 (* FROM *); 93 (* INTO *); 50 (* END *)].

(* precedences of Expr::parse_subexpr (ast/expr.rs) *)
Definition prec_or : option N := Some 10.
Definition prec_and : option N := Some 20.
Definition prec_not : option N := Some 30.
Definition prec_is : option N := Some 40.
Definition prec_comparison : option N := Some 50.
Definition prec_containment : option N := Some 60.
Definition prec_everything_else : option N := Some 70.
Definition prec_add_sub : option N := Some 80.
Definition prec_mul_div_mod : option N := Some 90.
Definition prec_exponentiation : option N := Some 100.
Definition prec_unary_minus : option N := Some 105.
Definition prec_array_elem : option N := Some 130.
Definition prec_cast : option N := Some 140.
