(* GENERATED on every run by vlib/tables_fault.py from /repo's working tree. Do not edit. *)
From Coq Require Import NArith.
Open Scope N_scope.

(* crates/glaredb_ext_parquet/src/metadata/mod.rs *)
Definition footer_size : option N := (Some 8).
Definition min_file_size : option N := (Some 12).

(* shape of metadata/loader.rs and thrift.rs: is the bounds check present? *)
Definition footer_len_checked : option bool := (Some true).
Definition setmap_implemented : option bool := (Some true).
Definition double_checked : option bool := (Some true).
Definition vlq_shift_checked : option bool := (Some true).
Definition fid_add_checked : option bool := (Some true).
Definition list_len_checked : option bool := (Some true).
(* column/page_reader.rs: every `dest.copy_from_slice(src)` of an uncompressed page is guarded by a length test *)
Definition page_copy_len_checked : option bool := (Some true).
(* reader.rs: chunk range checked against the file size before prepare_for_chunk, and Ok(0) reads are errors *)
Definition chunk_range_checked : option bool := (Some true).
(* page_reader.rs prepare_data_page_v2 (compressed): rep + def level byte lengths <= compressed_page_size / <= uncompressed_page_size *)
Definition v2_levels_le_compressed : option bool := (Some true).
Definition v2_levels_le_uncompressed : option bool := (Some true).
