(* GENERATED on every run by vlib/tables_cast.py from /repo's working tree. Do not edit. *)
From Coq Require Import ZArith List.
Import ListNotations.
Open Scope Z_scope.

(* (signed, bits) of source and target of every PrimToPrim integer cast flagged CastFlatten::Safe *)
Definition safe_int_casts : list ((bool * Z) * (bool * Z)) :=
  [((true, 8), (true, 8));
   ((true, 8), (true, 16));
   ((true, 16), (true, 16));
   ((false, 8), (true, 16));
   ((false, 8), (false, 16));
   ((false, 16), (false, 16));
   ((true, 8), (true, 32));
   ((true, 16), (true, 32));
   ((true, 32), (true, 32));
   ((false, 8), (true, 32));
   ((false, 16), (true, 32));
   ((false, 8), (false, 32));
   ((false, 16), (false, 32));
   ((true, 8), (true, 64));
   ((true, 16), (true, 64));
   ((true, 32), (true, 64));
   ((true, 64), (true, 64));
   ((false, 8), (true, 64));
   ((false, 16), (true, 64));
   ((false, 32), (true, 64));
   ((false, 8), (false, 64));
   ((false, 16), (false, 64));
   ((false, 32), (false, 64));
   ((false, 64), (false, 64))].

(* CastExpr::new_using_default_casts drops the inner cast only if ... is flagged Safe *)
Definition flatten_requires_direct_safe : option bool := (Some true).
Definition flatten_requires_inner_safe : option bool := (Some true).
