(* Proofs about the session state machine and the parser recursion depth (model/Session.v): C15. *)
From Coq Require Import NArith Arith List Bool Lia.
From GV Require Import model.Session.
Import ListNotations.
Open Scope N_scope.

(* error atomicity: whatever the failure point, a failed statement leaves catalog and settings as they were *)
Theorem failed_stmt_state_unchanged s id st f s' :
  exec s id st f = (s', false) -> visible s' = visible s.
Proof.
  unfold exec, visible. destruct f as [[| | |]|].
  - intros H; inversion H; reflexivity.
  - intros H; inversion H; reflexivity.
  - intros H; inversion H; reflexivity.
  - intros H; inversion H; reflexivity.
  - destruct (effect s st) as [[tabs sets]|] eqn:E; [discriminate|].
    destruct st; intros H; inversion H; reflexivity.
Qed.

(* a statement that fails does not leave a portal behind that a later execute could pick up, unless one was
   already there; with the unnamed portal empty (the state after any completed query) it stays empty *)
Lemma exec_portal_empty s id st f : s_portal s = None -> s_portal (fst (exec s id st f)) = None.
Proof.
  intros Hp. unfold exec. destruct f as [[| | |]|]; cbn [fst s_portal]; try assumption; try reflexivity.
  destruct (effect s st) as [[tabs sets]|]; [reflexivity|]. destruct st; cbn [fst s_portal]; try assumption; reflexivity.
Qed.

Lemma exec_prepared s id st f : f <> Some FParse -> s_prepared (fst (exec s id st f)) = Some id.
Proof.
  intros Hf. unfold exec. destruct f as [[| | |]|]; cbn [fst s_prepared]; try reflexivity; try contradiction.
  destruct (effect s st) as [[tabs sets]|]; [reflexivity|]. destruct st; reflexivity.
Qed.

Theorem prepared_portal_replaced_cleanly s script :
  s_portal s = None -> s_portal (run s script) = None.
Proof.
  revert s. induction script as [|[[id st] f] r IH]; intros s Hp; cbn [run]; [assumption|].
  apply IH. apply exec_portal_empty. assumption.
Qed.

(* a run of failing statements never changes what probes see *)
Lemma run_failing_visible : forall script s,
  (forall id st f, In (id, st, Some f) script -> True) ->
  Forall (fun x => exists p, snd x = Some p) script ->
  visible (run s script) = visible s.
Proof.
  induction script as [|[[id st] f] r IH]; intros s _ HF; cbn [run]; [reflexivity|].
  inversion HF as [|x l [p Hp] HF']; subst. cbn [snd] in Hp. subst f.
  rewrite IH; [|intros; exact I|assumption].
  destruct (exec s id st (Some p)) as [s' b] eqn:E. cbn [fst].
  assert (b = false) by (unfold exec in E; destruct p; inversion E; reflexivity). subst b.
  eapply failed_stmt_state_unchanged; eauto.
Qed.

(* ---------------- parser recursion *)
Lemma depth_go_mono : forall toks cur mx, (mx <= depth_go toks cur mx)%nat.
Proof.
  induction toks as [|t r IH]; intros cur mx; cbn [depth_go]; [lia|].
  destruct t; try apply IH.
  etransitivity; [|apply IH]. lia.
Qed.

Lemma depth_go_lparens : forall n r cur mx, (cur <= mx)%nat ->
  (cur + n <= depth_go (repeat TLParen n ++ r) cur mx)%nat.
Proof.
  induction n as [|n IH]; intros r cur mx Hc; cbn [repeat app depth_go].
  - etransitivity; [|apply depth_go_mono]. lia.
  - etransitivity; [|apply IH; lia]. lia.
Qed.

Theorem depth_unbounded : forall n, exists toks, length toks = (2 * n + 3)%nat /\ (depth_needed toks >= n)%nat.
Proof.
  intros n. exists (nested n). split.
  - unfold nested. cbn [length]. rewrite app_length, repeat_length. cbn [length]. rewrite app_length, repeat_length. cbn. lia.
  - unfold depth_needed, nested. cbn [depth_go].
    pose proof (depth_go_lparens n (TNum :: repeat TRParen n ++ [TSemi]) 0 0 (le_n 0)) as H. lia.
Qed.

Example depth_unbounded_ex : depth_needed (nested 3000) = 3000%nat.
Proof. vm_compute. reflexivity. Qed.

Example failed_stmt_ex :
  exec (mk_state [1] [(7, 77)] None None) 5 (StCreate 2) (Some FExecBefore) = (mk_state [1] [(7, 77)] (Some 5) None, false).
Proof. reflexivity. Qed.
