(* Proofs about model/SortKey.v. *)
From Coq Require Import NArith ZArith List Bool Lia.
From GV Require Import lib.Bytes model.SortKey.
Import ListNotations.
Open Scope N_scope.

(* ---------- bit arithmetic helpers ---------- *)

Lemma land_low_pow2 c n : c < 2 ^ n -> N.land c (2 ^ n) = 0.
Proof.
  intros Hc. apply N.bits_inj. intros i.
  rewrite N.land_spec, N.pow2_bits_eqb, N.bits_0.
  destruct (N.eqb_spec n i) as [E|NE]; [|apply andb_false_r].
  subst i. rewrite <- (N.mod_small c (2 ^ n) Hc).
  rewrite N.mod_pow2_bits_high by lia. reflexivity.
Qed.

Lemma lxor_pow2_low c n : c < 2 ^ n -> N.lxor c (2 ^ n) = c + 2 ^ n.
Proof. intros Hc. symmetry. apply N.add_nocarry_lxor, land_low_pow2, Hc. Qed.

Lemma lxor_pow2_high x n : 2 ^ n <= x -> x < 2 * 2 ^ n -> N.lxor x (2 ^ n) = x - 2 ^ n.
Proof.
  intros Hlo Hhi.
  assert (Hc : x - 2 ^ n < 2 ^ n) by lia.
  replace x with ((x - 2 ^ n) + 2 ^ n) at 1 by lia.
  rewrite <- (lxor_pow2_low _ _ Hc).
  rewrite N.lxor_assoc, N.lxor_nilpotent, N.lxor_0_r. reflexivity.
Qed.

Lemma lxor_ones_low c n : c < 2 ^ n -> N.lxor c (N.ones n) = N.ones n - c.
Proof.
  intros Hc. destruct (N.eq_dec c 0) as [->|Hnz].
  - rewrite N.lxor_0_l. lia.
  - apply (N.lnot_sub_low c n). apply N.log2_lt_pow2; [lia|exact Hc].
Qed.

(* ---------- widths ---------- *)

Lemma pow2_bitsw w : (0 < w)%nat -> 2 ^ bitsw w = 2 * top_bit w.
Proof.
  intros Hw. unfold top_bit.
  assert (Hb : 1 <= bitsw w) by (unfold bitsw; lia).
  rewrite <- N.pow_succ_r'. f_equal. lia.
Qed.

Lemma pow256_bitsw w : 256 ^ N.of_nat w = 2 ^ bitsw w.
Proof. unfold bitsw. change 256 with (2 ^ 8). rewrite <- N.pow_mul_r. reflexivity. Qed.

Lemma top_bit_pos w : 0 < top_bit w.
Proof. unfold top_bit. apply N.neq_0_lt_0, N.pow_nonzero. discriminate. Qed.

(* ---------- signed integers ---------- *)

(* the biased value that enc_signed writes big-endian *)
Lemma signed_bias_low w a : a < top_bit w -> N.lxor a (top_bit w) = a + top_bit w.
Proof. apply lxor_pow2_low. Qed.

Lemma signed_bias_high w a : top_bit w <= a -> a < 2 * top_bit w ->
  N.lxor a (top_bit w) = a - top_bit w.
Proof. apply lxor_pow2_high. Qed.

Lemma compare_N_Z_transfer (x y : N) (p q : Z) :
  (x < y <-> (p < q)%Z) -> (x = y <-> p = q) -> N.compare x y = Z.compare p q.
Proof.
  intros Hlt Heq.
  destruct (Z.compare_spec p q) as [E|L|G].
  - apply N.compare_eq_iff. apply Heq, E.
  - apply N.compare_lt_iff. apply Hlt, L.
  - apply N.compare_gt_iff.
    destruct (N.lt_trichotomy x y) as [H|[H|H]]; [apply Hlt in H; lia|apply Heq in H; lia|exact H].
Qed.

Lemma enc_signed_order w a b : (0 < w)%nat -> a < 2 ^ bitsw w -> b < 2 ^ bitsw w ->
  lex_cmp (enc_signed w a) (enc_signed w b) = Z.compare (sint w a) (sint w b).
Proof.
  intros Hw Ha Hb. unfold enc_signed, sint.
  pose proof (pow2_bitsw w Hw) as Hp.
  assert (HpZ : (2 ^ Z.of_N (bitsw w) = 2 * Z.of_N (top_bit w))%Z).
  { change 2%Z with (Z.of_N 2) at 1. rewrite <- N2Z.inj_pow, Hp. lia. }
  pose proof (top_bit_pos w) as Ht.
  rewrite Hp in Ha, Hb. rewrite HpZ. clear Hp HpZ.
  rewrite be_bytes_order.
  - destruct (N.ltb_spec a (top_bit w)) as [La|La];
    destruct (N.ltb_spec b (top_bit w)) as [Lb|Lb];
    rewrite ?(signed_bias_low w a La), ?(signed_bias_low w b Lb),
            ?(signed_bias_high w a La Ha), ?(signed_bias_high w b Lb Hb);
    apply compare_N_Z_transfer; lia.
  - rewrite pow256_bitsw, (pow2_bitsw w Hw).
    destruct (N.ltb_spec a (top_bit w)) as [La|La];
    rewrite ?(signed_bias_low w a La), ?(signed_bias_high w a La Ha); lia.
  - rewrite pow256_bitsw, (pow2_bitsw w Hw).
    destruct (N.ltb_spec b (top_bit w)) as [Lb|Lb];
    rewrite ?(signed_bias_low w b Lb), ?(signed_bias_high w b Lb Hb); lia.
Qed.

(* ---------- floats ---------- *)

Lemma bitsw_ge8 w : (0 < w)%nat -> 8 <= bitsw w.
Proof. unfold bitsw. lia. Qed.

Lemma float_key_low w a : (0 < w)%nat -> a < top_bit w ->
  float_key w (bitsw w - 1) a = a.
Proof.
  intros Hw La. unfold float_key, asr.
  destruct (N.ltb_spec a (top_bit w)) as [_|C]; [|lia].
  rewrite (N.shiftr_div_pow2 a). unfold top_bit in La.
  rewrite (N.div_small a (2 ^ (bitsw w - 1)) La).
  rewrite N.shiftr_0_l, N.lxor_0_r. reflexivity.
Qed.

Lemma float_key_high w a : (0 < w)%nat -> top_bit w <= a -> a < 2 * top_bit w ->
  float_key w (bitsw w - 1) a = top_bit w + (top_bit w - 1 - (a - top_bit w)).
Proof.
  intros Hw La Ha. unfold float_key, asr.
  pose proof (bitsw_ge8 w Hw) as H8.
  destruct (N.ltb_spec a (top_bit w)) as [C|_]; [lia|].
  rewrite N.shiftr_lor.
  rewrite N.shiftr_shiftl_l by lia.
  replace (bitsw w - (bitsw w - 1) - 1) with 0 by lia.
  rewrite N.shiftl_0_r.
  (* (a >> K) >> 1 = 0 *)
  rewrite N.shiftr_shiftr.
  replace (bitsw w - 1 + 1) with (N.succ (bitsw w - 1)) by lia.
  rewrite N.shiftr_div_pow2, N.pow_succ_r'.
  change (2 ^ (bitsw w - 1)) with (top_bit w).
  rewrite (N.div_small a (2 * top_bit w) Ha), N.lor_0_l.
  (* a = c + top *)
  set (c := a - top_bit w).
  assert (Hc : c < top_bit w) by (unfold c; lia).
  replace a with (c + top_bit w) by (unfold c; lia).
  unfold top_bit in *. set (K := bitsw w - 1) in *.
  rewrite <- (lxor_pow2_low c K Hc).
  rewrite N.lxor_assoc, (N.lxor_comm (2 ^ K)), <- N.lxor_assoc.
  rewrite (lxor_ones_low c K Hc).
  assert (Ho : N.ones K = 2 ^ K - 1) by (rewrite N.ones_equiv; lia).
  rewrite lxor_pow2_low by lia. lia.
Qed.

Lemma float_key_order w a b : (0 < w)%nat -> a < 2 ^ bitsw w -> b < 2 ^ bitsw w ->
  lex_cmp (enc_float w (bitsw w - 1) a) (enc_float w (bitsw w - 1) b)
  = Z.compare (float_rank w a) (float_rank w b).
Proof.
  intros Hw Ha Hb. unfold enc_float, enc_signed, float_rank.
  pose proof (pow2_bitsw w Hw) as Hp.
  pose proof (top_bit_pos w) as Ht.
  rewrite Hp in Ha, Hb.
  assert (Ka : N.lxor (float_key w (bitsw w - 1) a) (top_bit w)
               = if a <? top_bit w then a + top_bit w else top_bit w - 1 - (a - top_bit w)).
  { destruct (N.ltb_spec a (top_bit w)) as [La|La].
    - rewrite (float_key_low w a Hw La). apply signed_bias_low, La.
    - rewrite (float_key_high w a Hw La Ha). rewrite signed_bias_high by lia. lia. }
  assert (Kb : N.lxor (float_key w (bitsw w - 1) b) (top_bit w)
               = if b <? top_bit w then b + top_bit w else top_bit w - 1 - (b - top_bit w)).
  { destruct (N.ltb_spec b (top_bit w)) as [Lb|Lb].
    - rewrite (float_key_low w b Hw Lb). apply signed_bias_low, Lb.
    - rewrite (float_key_high w b Hw Lb Hb). rewrite signed_bias_high by lia. lia. }
  rewrite Ka, Kb. clear Ka Kb.
  rewrite be_bytes_order.
  - destruct (N.ltb_spec a (top_bit w)) as [La|La];
    destruct (N.ltb_spec b (top_bit w)) as [Lb|Lb];
    apply compare_N_Z_transfer; lia.
  - rewrite pow256_bitsw, Hp. destruct (N.ltb_spec a (top_bit w)); lia.
  - rewrite pow256_bitsw, Hp. destruct (N.ltb_spec b (top_bit w)); lia.
Qed.

(* ---------- values ---------- *)

Lemma enc_signed_length w n : length (enc_signed w n) = w.
Proof. apply be_bytes_length. Qed.

Lemma repeat_zero_all_bytes k : all_bytes (repeat 0 k).
Proof.
  induction k as [|k IH]; cbn [repeat]; constructor; [unfold is_byte; lia|exact IH].
Qed.

Lemma encode_val_length t v : length (encode_val t v) = val_width t.
Proof.
  destruct t as [w|w|w k|tk fk|pw|]; destruct v as [|n|s|m d n];
    cbn [encode_val val_width];
    try apply repeat_length;
    try apply be_bytes_length;
    try apply pad_prefix_length;
    try reflexivity;
    try (rewrite !app_length, !enc_signed_length; reflexivity).
Qed.

Lemma encode_val_all_bytes t v : kty_ok t -> val_wf t v -> all_bytes (encode_val t v).
Proof.
  intros Hok Hwf.
  destruct t as [w|w|w k|tk fk|pw|]; destruct v as [|n|s|m d n];
    cbn [encode_val val_width val_wf] in *;
    try contradiction;
    try apply repeat_zero_all_bytes;
    try apply be_bytes_all_bytes.
  - cbn [kty_ok] in Hok. destruct Hok as [Hft Ht].
    constructor; [|constructor]. unfold is_byte. destruct (n =? 0); lia.
  - apply pad_prefix_all_bytes, Hwf.
  - unfold all_bytes. rewrite !Forall_app. repeat split; apply be_bytes_all_bytes.
Qed.

Lemma lex_cmp_single x y : lex_cmp [x] [y] = N.compare x y.
Proof. cbn [lex_cmp]. destruct (x ?= y); reflexivity. Qed.

Lemma encode_val_order t a b : kty_ok t -> is_str t = false ->
  a <> KNull -> b <> KNull -> val_wf t a -> val_wf t b ->
  lex_cmp (encode_val t a) (encode_val t b) = val_cmp t a b.
Proof.
  intros Hok Hstr Hna Hnb Hwa Hwb.
  destruct t as [w|w|w k|tk fk|pw|];
    destruct a as [|x|sx|m1 d1 n1]; try congruence;
    destruct b as [|y|sy|m2 d2 n2]; try congruence;
    cbn [val_wf] in Hwa, Hwb; try contradiction;
    cbn [encode_val val_cmp kty_ok is_str] in *.
  - (* KU *)
    unfold enc_unsigned. apply be_bytes_order; rewrite pow256_bitsw; assumption.
  - (* KS *)
    apply enc_signed_order; assumption.
  - (* KF *)
    destruct Hok as [Hw Hk]. subst k. apply float_key_order; assumption.
  - (* KBool *)
    destruct Hok as [Hft Ht]. rewrite lex_cmp_single.
    destruct (N.eqb_spec x 0) as [Ex|Ex]; destruct (N.eqb_spec y 0) as [Ey|Ey].
    + rewrite !N.compare_refl. reflexivity.
    + rewrite (proj2 (N.compare_lt_iff fk tk) Hft). reflexivity.
    + rewrite (proj2 (N.compare_gt_iff tk fk) Hft). reflexivity.
    + rewrite !N.compare_refl. reflexivity.
  - (* KStr *)
    discriminate.
  - (* KInterval *)
    destruct Hwa as (Hm1 & Hd1 & Hn1). destruct Hwb as (Hm2 & Hd2 & Hn2).
    rewrite lex_cmp_app by (rewrite !enc_signed_length; reflexivity).
    rewrite lex_cmp_app by (rewrite !enc_signed_length; reflexivity).
    rewrite !enc_signed_order; try lia; try reflexivity; assumption.
Qed.

(* strings: only the padded prefix is in the key, so the key order is sound but
   a tie on the key says nothing (the engine then compares the heap values) *)
Lemma encode_val_str_sound pw a b : val_wf (KStr pw) a -> val_wf (KStr pw) b ->
  a <> KNull -> b <> KNull ->
  forall c, c <> Eq -> lex_cmp (encode_val (KStr pw) a) (encode_val (KStr pw) b) = c ->
  val_cmp (KStr pw) a b = c.
Proof.
  intros Hwa Hwb Hna Hnb c Hc Hlex.
  destruct a as [|x|sx|m1 d1 n1]; try congruence;
    destruct b as [|y|sy|m2 d2 n2]; try congruence;
    cbn [val_wf] in Hwa, Hwb; try contradiction.
  cbn [encode_val val_cmp] in *.
  destruct c; [congruence| |].
  - apply (pad_prefix_lt_sound pw), Hlex.
  - apply (pad_prefix_gt_sound pw), Hlex.
Qed.

(* ---------- columns ---------- *)

Lemma encode_col_length c v : length (encode_col c v) = S (val_width (k_ty c)).
Proof.
  unfold encode_col.
  destruct v as [|n|s|m d n]; cbn [length]; f_equal;
    try apply encode_val_length;
    destruct (k_desc c); rewrite ?inv_bytes_length; apply encode_val_length.
Qed.

(* the part of a column key after the validity byte, for a non-null value *)
Definition col_body (c : kcol) (v : kval) : list N :=
  if k_desc c then inv_bytes (encode_val (k_ty c) v) else encode_val (k_ty c) v.

Lemma encode_col_nonnull c v : v <> KNull -> encode_col c v = valid_byte c :: col_body c v.
Proof. intros Hv. destruct v; [congruence|reflexivity..]. Qed.

Lemma col_cmp_nonnull c a b : a <> KNull -> b <> KNull ->
  col_cmp c a b = if k_desc c then CompOpp (val_cmp (k_ty c) a b) else val_cmp (k_ty c) a b.
Proof. intros Ha Hb. destruct a; [congruence|..]; destruct b; try congruence; reflexivity. Qed.

Lemma col_body_cmp c a b : kty_ok (k_ty c) -> val_wf (k_ty c) a -> val_wf (k_ty c) b ->
  lex_cmp (col_body c a) (col_body c b) =
  if k_desc c then CompOpp (lex_cmp (encode_val (k_ty c) a) (encode_val (k_ty c) b))
  else lex_cmp (encode_val (k_ty c) a) (encode_val (k_ty c) b).
Proof.
  intros Hok Hwa Hwb. unfold col_body. destruct (k_desc c); [|reflexivity].
  apply lex_cmp_inv.
  - rewrite !encode_val_length. reflexivity.
  - apply encode_val_all_bytes; assumption.
  - apply encode_val_all_bytes; assumption.
Qed.

(* null against anything: decided by the validity byte alone, for every key type *)
Lemma encode_col_null_l c b : b <> KNull ->
  lex_cmp (encode_col c KNull) (encode_col c b) = col_cmp c KNull b.
Proof.
  intros Hb. rewrite (encode_col_nonnull c b Hb).
  cbn [encode_col lex_cmp]. unfold invalid_byte, valid_byte.
  destruct b; [congruence|..]; cbn [col_cmp]; destruct (k_nulls_first c); reflexivity.
Qed.

Lemma encode_col_null_r c a : a <> KNull ->
  lex_cmp (encode_col c a) (encode_col c KNull) = col_cmp c a KNull.
Proof.
  intros Ha. rewrite (encode_col_nonnull c a Ha).
  cbn [encode_col lex_cmp]. unfold invalid_byte, valid_byte.
  destruct a; [congruence|..]; cbn [col_cmp]; destruct (k_nulls_first c); reflexivity.
Qed.

Lemma encode_col_nonnull_cmp c a b : a <> KNull -> b <> KNull ->
  lex_cmp (encode_col c a) (encode_col c b) = lex_cmp (col_body c a) (col_body c b).
Proof.
  intros Ha Hb. rewrite (encode_col_nonnull c a Ha), (encode_col_nonnull c b Hb).
  cbn [lex_cmp]. rewrite N.compare_refl. reflexivity.
Qed.

Lemma kval_null_dec (v : kval) : {v = KNull} + {v <> KNull}.
Proof. destruct v; [left; reflexivity|right; discriminate..]. Qed.

Lemma encode_col_order c a b : kty_ok (k_ty c) -> is_str (k_ty c) = false ->
  val_wf (k_ty c) a -> val_wf (k_ty c) b ->
  lex_cmp (encode_col c a) (encode_col c b) = col_cmp c a b.
Proof.
  intros Hok Hstr Hwa Hwb.
  destruct (kval_null_dec a) as [->|Hna]; destruct (kval_null_dec b) as [->|Hnb].
  - apply lex_cmp_refl.
  - apply encode_col_null_l, Hnb.
  - apply encode_col_null_r, Hna.
  - rewrite (encode_col_nonnull_cmp c a b Hna Hnb), (col_body_cmp c a b Hok Hwa Hwb).
    rewrite (col_cmp_nonnull c a b Hna Hnb).
    rewrite (encode_val_order (k_ty c) a b Hok Hstr Hna Hnb Hwa Hwb). reflexivity.
Qed.

Lemma CompOpp_neq_Eq x : x <> Eq -> CompOpp x <> Eq.
Proof. destruct x; cbn; congruence. Qed.

Lemma encode_col_sound c a b : kty_ok (k_ty c) ->
  val_wf (k_ty c) a -> val_wf (k_ty c) b ->
  forall x, x <> Eq -> lex_cmp (encode_col c a) (encode_col c b) = x -> col_cmp c a b = x.
Proof.
  intros Hok Hwa Hwb x Hx Hlex.
  destruct (is_str (k_ty c)) eqn:Hstr.
  2:{ rewrite <- Hlex. symmetry. apply encode_col_order; assumption. }
  destruct (kval_null_dec a) as [->|Hna]; destruct (kval_null_dec b) as [->|Hnb].
  - rewrite lex_cmp_refl in Hlex. congruence.
  - rewrite <- Hlex. symmetry. apply encode_col_null_l, Hnb.
  - rewrite <- Hlex. symmetry. apply encode_col_null_r, Hna.
  - rewrite (encode_col_nonnull_cmp c a b Hna Hnb), (col_body_cmp c a b Hok Hwa Hwb) in Hlex.
    rewrite (col_cmp_nonnull c a b Hna Hnb).
    destruct (k_ty c) as [w|w|w k|tk fk|pw|] eqn:Ety; try discriminate.
    destruct (k_desc c).
    + rewrite <- Hlex. f_equal.
      apply (encode_val_str_sound pw a b Hwa Hwb Hna Hnb); [|reflexivity].
      intros E. rewrite E in Hlex. cbn in Hlex. congruence.
    + apply (encode_val_str_sound pw a b Hwa Hwb Hna Hnb x Hx Hlex).
Qed.

(* ---------- rows ---------- *)

(* rows over fixed-width (non-string) key columns: byte order = declared order *)
Theorem encode_row_order cs r1 r2 :
  Forall (fun c => kty_ok (k_ty c) /\ is_str (k_ty c) = false) cs ->
  Forall2 (fun c v => val_wf (k_ty c) v) cs r1 ->
  Forall2 (fun c v => val_wf (k_ty c) v) cs r2 ->
  lex_cmp (encode_row cs r1) (encode_row cs r2) = row_cmp cs r1 r2.
Proof.
  intros Hcs. revert r1 r2.
  induction Hcs as [|c cs [Hok Hstr] Hcs IH]; intros r1 r2 H1 H2.
  - inversion H1; inversion H2; subst. reflexivity.
  - inversion H1 as [|c1 a cs1 r1' Hwa H1']; inversion H2 as [|c2 b cs2 r2' Hwb H2']; subst.
    cbn [encode_row row_cmp].
    rewrite lex_cmp_app by (rewrite !encode_col_length; reflexivity).
    rewrite (encode_col_order c a b Hok Hstr Hwa Hwb).
    rewrite (IH r1' r2' H1' H2'). reflexivity.
Qed.

(* the two shipped constants that were wrong at the pinned commit: witnesses *)
(* a = bits of 1.0 (0x3FF0000000000000), b = 0x3FF0000020000000: same upper 32
   bits, so `bits ^ (bits >> 32)` scrambles the lower word's order *)
Lemma f64_shift31_refuted : exists a b, a < 2 ^ 64 /\ b < 2 ^ 64 /\
  (float_rank 8 a < float_rank 8 b)%Z /\
  lex_cmp (enc_float 8 31 a) (enc_float 8 31 b) = Gt.
Proof.
  exists 4607182418800017408, 4607182419336888320.
  repeat split; vm_compute; reflexivity.
Qed.

Lemma bool_true0_refuted :
  val_cmp (KBool 0 1) (KBits 0) (KBits 1) = Lt /\
  lex_cmp (encode_val (KBool 0 1) (KBits 0)) (encode_val (KBool 0 1) (KBits 1)) = Gt.
Proof. split; vm_compute; reflexivity. Qed.

Print Assumptions encode_row_order.
Print Assumptions float_key_order.
Print Assumptions encode_col_sound.

