(* C04 — proofs about the MergeQueue barrier model (model/BarrierMergeQueue.v): invariants for
   an arbitrary number of partitions and arbitrary block counts, every interleaving. *)
From Coq Require Import List Arith Lia Bool.
From GV Require Import lib.Lts model.BarrierMergeQueue.
Import ListNotations.

(* ---------- wake_all and the counters ---------- *)
Lemma cw_parked l : count is_parked (map mwake l) = 0.
Proof.
  rewrite count_map, (count_ext _ (fun _ => false)); [apply count_false|]. intros []; reflexivity.
Qed.

Lemma cw_merge l : count is_merge (map mwake l) = count is_merge l + count is_parked l.
Proof.
  rewrite count_map, (count_ext _ (fun p => is_merge p || is_parked p)).
  - apply count_orb. intros []; reflexivity.
  - intros []; reflexivity.
Qed.

Lemma cw_other f l : (forall p, f (mwake p) = f p) -> count f (map mwake l) = count f l.
Proof. intros H. rewrite count_map. apply count_ext. exact H. Qed.

Lemma sw_wake (w : mph -> nat) l : (forall p, w (mwake p) = w p) -> sumw w (map mwake l) = sumw w l.
Proof. intros H. rewrite sumw_map. apply sumw_ext. exact H. Qed.

Lemma nth_wake l i p : nth_error l i = Some p -> nth_error (map mwake l) i = Some (mwake p).
Proof. apply map_nth_error. Qed.

Lemma length_parts l :
  length l = count is_coll l + count is_merge l + count is_busy l + count is_parked l
             + count is_take l + count is_drain l + count is_done l + count is_err l.
Proof.
  induction l as [|a l IH]; [reflexivity|]. rewrite !count_cons. cbn [length].
  destruct a; cbn [b2n is_coll is_merge is_busy is_parked is_take is_drain is_done is_err]; lia.
Qed.

Lemma complete_true s : complete s = true <-> remaining s = 0 /\ merging s = 0 /\ runs s <= 1.
Proof.
  unfold complete. rewrite !andb_true_iff, !Nat.eqb_eq, Nat.leb_le. tauto.
Qed.

Lemma complete_false s : complete s = false <-> ~ (remaining s = 0 /\ merging s = 0 /\ runs s <= 1).
Proof.
  rewrite <- complete_true. destruct (complete s); split; intros; try congruence; try tauto.
Qed.

Ltac facts H q :=
  pose proof (count_upd is_coll _ _ _ q H);
  pose proof (count_upd is_merge _ _ _ q H);
  pose proof (count_upd is_busy _ _ _ q H);
  pose proof (count_upd is_parked _ _ _ q H);
  pose proof (count_upd is_take _ _ _ q H);
  pose proof (count_upd is_drain _ _ _ q H);
  pose proof (count_upd is_done _ _ _ q H);
  pose proof (count_upd is_err _ _ _ q H);
  pose proof (sumw_upd future_blocks _ _ _ q H);
  pose proof (sumw_upd mweight _ _ _ q H);
  pose proof (length_upd _ _ _ q H).

Ltac wake_rw :=
  rewrite ?cw_parked, ?cw_merge,
    ?(cw_other is_coll), ?(cw_other is_busy), ?(cw_other is_take), ?(cw_other is_drain),
    ?(cw_other is_done), ?(cw_other is_err), ?(sw_wake future_blocks), ?(sw_wake mweight), ?map_length in *
    by (intros []; reflexivity).

Ltac red_all :=
  cbn [b2n is_coll is_merge is_busy is_parked is_take is_drain is_done is_err future_blocks mweight
       mps runs remaining merging taken mwake] in *.

Record MInv (T : nat) (s : mst) : Prop := {
  iA : remaining s = count is_coll (mps s);
  iB : merging s = count is_busy (mps s);
  iC : 0 < count is_parked (mps s) ->
       0 < count is_coll (mps s) + count is_merge (mps s) + count is_busy (mps s) + count is_take (mps s);
  iK : 0 < count is_take (mps s) + count is_drain (mps s) + count is_done (mps s) ->
       count is_coll (mps s) = 0 /\ count is_busy (mps s) = 0 /\ runs s <= 1;
  iJ : 0 < count is_drain (mps s) + count is_done (mps s) -> runs s = 0;
  iE : count is_err (mps s) = 0;
  iT1 : taken s <= 1;
  iT2 : taken s = 1 -> 0 < count is_drain (mps s) + count is_done (mps s);
  iQ1 : 0 < T -> 1 <= runs s + sumw future_blocks (mps s) + count is_busy (mps s) + taken s;
  iQ2 : T = 0 -> runs s + sumw future_blocks (mps s) + count is_busy (mps s) + taken s = 0
}.

Lemma count_map_coll f ks : (forall k, f (MColl k) = false) -> count f (map MColl ks) = 0.
Proof. intros H. induction ks as [|k ks IH]; [reflexivity|]. cbn [map]. rewrite count_cons, H, IH. reflexivity. Qed.

Lemma count_coll_init ks : count is_coll (map MColl ks) = length ks.
Proof. induction ks as [|k ks IH]; [reflexivity|]. cbn [map]. rewrite count_cons, IH. reflexivity. Qed.

Lemma future_init ks : sumw future_blocks (map MColl ks) = total_blocks ks.
Proof. induction ks as [|k ks IH]; [reflexivity|]. cbn [map]. rewrite sumw_cons, IH. reflexivity. Qed.

Lemma minv_init ks : MInv (total_blocks ks) (minit ks).
Proof.
  unfold minit. constructor; cbn [mps runs remaining merging taken];
    rewrite ?count_coll_init, ?future_init,
      ?(count_map_coll is_busy), ?(count_map_coll is_parked), ?(count_map_coll is_take),
      ?(count_map_coll is_drain), ?(count_map_coll is_done), ?(count_map_coll is_err), ?(count_map_coll is_merge)
      by reflexivity; intros; lia.
Qed.

Lemma minv_step T s s' : MInv T s -> mstep s s' -> MInv T s'.
Proof.
  intros [A B C K J E T1 T2 Q1 Q2] Hs.
  destruct Hs as [i k s H Hr | i k s H Hr | i p s H Hp Hc | i p s H Hp Hc Hr | i p s H Hp Hc Hr
                 | i s H Hr | i s H Hr | i s H Hc Hr | i s H Hc Hr | i s H Hc | i s H].
  - (* finalize *)
    facts H MMerge. red_all. constructor; red_all; intros; lia.
  - (* finalize_err: remaining = 0 but a Coll partition exists *)
    facts H MErr. red_all. exfalso. lia.
  - (* poll -> Take *)
    apply complete_true in Hc. destruct p; try discriminate; facts H MTake; red_all;
      constructor; red_all; intros; lia.
  - (* poll -> Parked *)
    apply complete_false in Hc. destruct p; try discriminate; facts H MParked; red_all;
      constructor; red_all; intros; lia.
  - (* poll -> Busy *)
    destruct p; try discriminate; facts H MBusy; red_all; constructor; red_all; intros; lia.
  - (* merge_done *)
    pose proof (nth_wake _ _ _ H) as H'. red_all. facts H' MMerge. wake_rw. facts H MBusy. red_all.
    constructor; red_all; wake_rw; intros; lia.
  - (* merge_done_err *)
    facts H MErr. red_all. exfalso. lia.
  - (* take_some *)
    apply complete_true in Hc.
    pose proof (nth_wake _ _ _ H) as H'. red_all. facts H' MDrain. wake_rw. facts H MTake. red_all.
    constructor; red_all; wake_rw; intros; lia.
  - (* take_none *)
    apply complete_true in Hc.
    pose proof (nth_wake _ _ _ H) as H'. red_all. facts H' MDone. wake_rw. facts H MTake. red_all.
    constructor; red_all; wake_rw; intros; lia.
  - (* take_err: Take exists, so the queue is complete *)
    apply complete_false in Hc. facts H MErr. red_all. exfalso. lia.
  - (* drain_done *)
    facts H MDone. red_all. constructor; red_all; intros; lia.
Qed.

Theorem minv_reach ks s : mreach ks s -> MInv (total_blocks ks) s.
Proof. induction 1; [apply minv_init | eapply minv_step; eassumption]. Qed.

Lemma length_reach ks s : mreach ks s -> length (mps s) = length ks.
Proof.
  induction 1 as [|s s' R IH Hs]; [unfold minit; cbn [mps]; apply map_length|].
  destruct Hs; cbn [mps]; rewrite <- IH;
    try (erewrite length_upd; [reflexivity|eassumption]);
    (erewrite length_upd; [apply map_length | apply nth_wake; eassumption]).
Qed.

(* ---------- the theorems ---------- *)

(* The error paths of the queue are unreachable. *)
Theorem mq_no_error_path ks s : mreach ks s -> count is_err (mps s) = 0.
Proof. intros R. apply (iE _ _ (minv_reach _ _ R)). Qed.

(* take_sorted_run is only ever called on a complete queue (its Err branch is dead) *)
Theorem mq_take_never_errors ks s i :
  mreach ks s -> nth_error (mps s) i = Some MTake -> complete s = true.
Proof.
  intros R H. destruct (minv_reach _ _ R) as [A B C K J E T1 T2 Q1 Q2].
  pose proof (count_nth_pos is_take _ _ _ H eq_refl). apply complete_true. lia.
Qed.

(* Appendix-A obligation: whenever some partition is parked, another partition is in a phase whose
   next queue operation wakes it (a collector that will finalize and then merge or take, a
   runnable merger, a merging merge, or a pending take_sorted_run). *)
Theorem mq_parked_implies_waker_pending ks s :
  mreach ks s -> 0 < count is_parked (mps s) ->
  0 < count is_coll (mps s) + count is_merge (mps s) + count is_busy (mps s) + count is_take (mps s).
Proof. intros R. apply (iC _ _ (minv_reach _ _ R)). Qed.

(* the literal "parked => nothing to do" does NOT hold for this queue: finalize adds runs without
   waking, so a partition can sleep while two or more runs are queued (lost parallelism, no hang) *)
Theorem mq_parked_with_work_available_refuted :
  exists ks s, mreach ks s /\ 0 < count is_parked (mps s) /\ 2 <= runs s.
Proof.
  exists [1; 2].
  eexists. split; [|split].
  - eapply mr_step. eapply mr_step. eapply mr_step. apply mr_init.
    + apply (m_finalize 0 1); [reflexivity | cbn; lia].
    + apply (m_poll_park 0 MMerge); [reflexivity | reflexivity | reflexivity | cbn; lia].
    + apply (m_finalize 1 2); [reflexivity | cbn; lia].
  - cbn. lia.
  - cbn. lia.
Qed.

Theorem mq_no_deadlock ks s :
  mreach ks s -> ~ mall_done s -> exists s', mstep s s' /\ s' <> s.
Proof.
  intros R ND. destruct (minv_reach _ _ R) as [A B C K J E T1 T2 Q1 Q2].
  unfold mall_done in ND. pose proof (length_parts (mps s)) as LP.
  destruct (Nat.eq_dec (count is_coll (mps s)) 0) as [Zc|Nc].
  2:{ destruct (count_pos_nth is_coll (mps s)) as (i & p & Hi & Hp); [lia|].
      destruct p; try discriminate. eexists. split; [eapply m_finalize; [eassumption|lia]|].
      intros X. apply (f_equal remaining) in X. cbn [remaining] in X. lia. }
  destruct (Nat.eq_dec (count is_merge (mps s)) 0) as [Zm|Nm].
  2:{ destruct (count_pos_nth is_merge (mps s)) as (i & p & Hi & Hp); [lia|].
      destruct p; try discriminate.
      destruct (complete s) eqn:Hc.
      - eexists. split; [eapply m_poll_complete; [eassumption|reflexivity|assumption]|].
        intros X. apply (f_equal mps) in X. cbn [mps] in X. eapply upd_neq in X; [assumption|eassumption|discriminate].
      - destruct (le_lt_dec 2 (runs s)) as [Hr|Hr].
        + eexists. split; [eapply m_poll_pop; [eassumption|reflexivity|assumption|assumption]|].
          intros X. apply (f_equal mps) in X. cbn [mps] in X. eapply upd_neq in X; [assumption|eassumption|discriminate].
        + eexists. split; [eapply m_poll_park; [eassumption|reflexivity|assumption|assumption]|].
          intros X. apply (f_equal mps) in X. cbn [mps] in X. eapply upd_neq in X; [assumption|eassumption|discriminate]. }
  destruct (Nat.eq_dec (count is_busy (mps s)) 0) as [Zb|Nb].
  2:{ destruct (count_pos_nth is_busy (mps s)) as (i & p & Hi & Hp); [lia|].
      destruct p; try discriminate. eexists. split; [eapply m_merge_done; [eassumption|lia]|].
      intros X. apply (f_equal merging) in X. cbn [merging] in X. lia. }
  destruct (Nat.eq_dec (count is_take (mps s)) 0) as [Zt|Nt].
  2:{ destruct (count_pos_nth is_take (mps s)) as (i & p & Hi & Hp); [lia|].
      destruct p; try discriminate.
      assert (Hc : complete s = true) by (apply complete_true; lia).
      pose proof (nth_wake _ _ _ Hi) as Hi'. cbn [mwake] in Hi'.
      destruct (Nat.eq_dec (runs s) 0) as [Zr|Nr].
      - eexists. split; [eapply m_take_none; eassumption|].
        intros X. apply (f_equal mps) in X. cbn [mps] in X.
        pose proof (nth_upd_eq _ _ _ MDone Hi') as Y. rewrite X in Y. congruence.
      - eexists. split; [eapply m_take_some; [eassumption|assumption|lia]|].
        intros X. apply (f_equal taken) in X. cbn [taken] in X. lia. }
  destruct (Nat.eq_dec (count is_drain (mps s)) 0) as [Zd|Nd].
  2:{ destruct (count_pos_nth is_drain (mps s)) as (i & p & Hi & Hp); [lia|].
      destruct p; try discriminate. eexists. split; [eapply m_drain_done; eassumption|].
      intros X. apply (f_equal mps) in X. cbn [mps] in X. eapply upd_neq in X; [assumption|eassumption|discriminate]. }
  (* only parked (and done) partitions are left: excluded by the invariant *)
  exfalso. lia.
Qed.

(* a spurious poll of a parked partition whose condition is still unmet changes nothing *)
Theorem mq_spurious_poll_stutters s i :
  nth_error (mps s) i = Some MParked -> complete s = false -> runs s < 2 ->
  {| mps := upd (mps s) i MParked; runs := runs s; remaining := remaining s;
     merging := merging s; taken := taken s |} = s.
Proof. intros H _ _. rewrite (upd_id _ _ _ H). destruct s; reflexivity. Qed.

(* every state-changing step strictly decreases the measure: no infinite run without stuttering,
   hence (with mq_no_deadlock) every weakly fair run ends with all partitions Exhausted *)
Theorem mq_progress_measure_decreases ks s s' :
  mreach ks s -> mstep s s' -> s' <> s -> mmeasure s' < mmeasure s.
Proof.
  intros R Hs Hne. destruct (minv_reach _ _ R) as [A B C K J E T1 T2 Q1 Q2].
  unfold mmeasure, mwork.
  pose proof (count_le_length is_parked (mps s)) as PL.
  pose proof (length_parts (mps s)) as LP.
  destruct Hs as [i k s H Hr | i k s H Hr | i p s H Hp Hc | i p s H Hp Hc Hr | i p s H Hp Hc Hr
                 | i s H Hr | i s H Hr | i s H Hc Hr | i s H Hc Hr | i s H Hc | i s H].
  - facts H MMerge. red_all. nia.
  - facts H MErr. red_all. nia.
  - destruct p; try discriminate; facts H MTake; red_all; nia.
  - destruct p; try discriminate.
    + facts H MParked. red_all. nia.
    + exfalso. apply Hne. rewrite (upd_id _ _ _ H). destruct s; reflexivity.
  - destruct p; try discriminate; facts H MBusy; red_all; nia.
  - pose proof (nth_wake _ _ _ H) as H'. red_all. facts H' MMerge. wake_rw. facts H MBusy. red_all. nia.
  - facts H MErr. red_all. nia.
  - pose proof (nth_wake _ _ _ H) as H'. red_all. facts H' MDrain. wake_rw. facts H MTake. red_all. nia.
  - pose proof (nth_wake _ _ _ H) as H'. red_all. facts H' MDone. wake_rw. facts H MTake. red_all. nia.
  - facts H MErr. red_all. nia.
  - facts H MDone. red_all. nia.
Qed.

(* exactly one partition receives the merged run iff there is any block at all; the others get None *)
Theorem mq_exactly_one_drainer ks s :
  mreach ks s -> taken s <= 1 /\
  (mall_done s -> taken s = (if total_blocks ks =? 0 then 0 else 1) /\ runs s = 0).
Proof.
  intros R. destruct (minv_reach _ _ R) as [A B C K J E T1 T2 Q1 Q2]. split; [assumption|].
  unfold mall_done. intros D. pose proof (length_parts (mps s)) as LP.
  pose proof (count_le_length is_done (mps s)).
  assert (Hfb : sumw future_blocks (mps s) = 0).
  { assert (forall l, count is_done l = length l -> sumw future_blocks l = 0) as X.
    { induction l as [|a l IH]; [reflexivity|]. rewrite count_cons, sumw_cons. cbn [length].
      pose proof (count_le_length is_done l). destruct a; cbn [b2n is_done future_blocks]; intros; lia. }
    apply X. exact D. }
  destruct (Nat.eqb_spec (total_blocks ks) 0) as [Z|NZ].
  - specialize (Q2 Z). lia.
  - destruct (Nat.eq_dec (length (mps s)) 0) as [L0|L1].
    + (* no partitions: then total_blocks = 0 *)
      exfalso. pose proof (length_reach _ _ R) as LR. destruct ks; [apply NZ; reflexivity|cbn in LR; lia].
    + assert (0 < total_blocks ks) as P by lia. specialize (Q1 P). lia.
Qed.

(* every hypothesis above is satisfiable: a complete 2-partition run *)
Example mq_run_example : exists s, mreach [1] s /\ mall_done s /\ taken s = 1.
Proof.
  eexists. split; [|split].
  - eapply mr_step. eapply mr_step. eapply mr_step. eapply mr_step. apply mr_init.
    + apply (m_finalize 0 1); [reflexivity | cbn; lia].
    + apply (m_poll_complete 0 MMerge); [reflexivity | reflexivity | reflexivity].
    + apply (m_take_some 0); [reflexivity | reflexivity | cbn; lia].
    + apply (m_drain_done 0); reflexivity.
  - reflexivity.
  - reflexivity.
Qed.

Print Assumptions mq_no_deadlock.
Print Assumptions mq_progress_measure_decreases.
Print Assumptions mq_exactly_one_drainer.
