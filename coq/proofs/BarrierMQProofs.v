(* C04 — proofs about the MergeQueue barrier model (model/BarrierMergeQueue.v): invariants for
   an arbitrary number of partitions and arbitrary block counts, every interleaving. *)
From Coq Require Import List Arith Lia Bool.
From GV Require Import lib.Lts model.BarrierMergeQueue.
Import ListNotations.

(* ---------- wake_all and the counters ---------- *)
Lemma cw_parked l : count is_parked (map mwake l) = 0.
Proof.
  rewrite count_map, (count_ext _ (fun _ => false)); [apply count_false|]. intros []; reflexivity.
Qed.

Lemma cw_merge l : count is_merge (map mwake l) = count is_merge l + count is_parked l.
Proof.
  rewrite count_map, (count_ext _ (fun p => is_merge p || is_parked p)).
  - apply count_orb. intros []; reflexivity.
  - intros []; reflexivity.
Qed.

Lemma cw_other f l : (forall p, f (mwake p) = f p) -> count f (map mwake l) = count f l.
Proof. intros H. rewrite count_map. apply count_ext. exact H. Qed.

Lemma sw_wake (w : mph -> nat) l : (forall p, w (mwake p) = w p) -> sumw w (map mwake l) = sumw w l.
Proof. intros H. rewrite sumw_map. apply sumw_ext. exact H. Qed.

Lemma nth_wake l i p : nth_error l i = Some p -> nth_error (map mwake l) i = Some (mwake p).
Proof. apply map_nth_error. Qed.

Lemma length_parts l :
  length l = count is_coll l + count is_merge l + count is_busy l + count is_parked l
             + count is_take l + count is_drain l + count is_done l + count is_err l.
Proof.
  induction l as [|a l IH]; [reflexivity|]. rewrite !count_cons. cbn [length].
  destruct a; cbn [b2n is_coll is_merge is_busy is_parked is_take is_drain is_done is_err]; lia.
Qed.

Lemma complete_true s : complete s = true <-> remaining s = 0 /\ merging s = 0 /\ runs s <= 1.
Proof.
  unfold complete. rewrite !andb_true_iff, orb_true_iff, !Nat.eqb_eq. lia.
Qed.

Lemma complete_false s : complete s = false <-> ~ (remaining s = 0 /\ merging s = 0 /\ runs s <= 1).
Proof.
  rewrite <- complete_true. destruct (complete s); split; intros; try congruence; try tauto.
Qed.

Ltac facts H q :=
  pose proof (count_upd is_coll _ _ _ q H);
  pose proof (count_upd is_merge _ _ _ q H);
  pose proof (count_upd is_busy _ _ _ q H);
  pose proof (count_upd is_parked _ _ _ q H);
  pose proof (count_upd is_take _ _ _ q H);
  pose proof (count_upd is_drain _ _ _ q H);
  pose proof (count_upd is_done _ _ _ q H);
  pose proof (count_upd is_err _ _ _ q H);
  pose proof (sumw_upd future_blocks _ _ _ q H);
  pose proof (sumw_upd mweight _ _ _ q H);
  pose proof (length_upd _ _ _ q H).

Ltac wake_rw :=
  rewrite ?cw_parked, ?cw_merge,
    ?(cw_other is_coll), ?(cw_other is_busy), ?(cw_other is_take), ?(cw_other is_drain),
    ?(cw_other is_done), ?(cw_other is_err), ?(sw_wake future_blocks), ?(sw_wake mweight), ?map_length in *
    by (intros []; reflexivity).

Ltac red_all :=
  cbn [b2n is_coll is_merge is_busy is_parked is_take is_drain is_done is_err future_blocks mweight
       mps runs remaining merging taken mwake] in *.

Record MInv (T : nat) (s : mst) : Prop := {
  iA : remaining s = count is_coll (mps s);
  iB : merging s = count is_busy (mps s);
  iC : 0 < count is_parked (mps s) ->
       0 < count is_coll (mps s) + count is_merge (mps s) + count is_busy (mps s) + count is_take (mps s);
  iK : 0 < count is_take (mps s) + count is_drain (mps s) + count is_done (mps s) ->
       count is_coll (mps s) = 0 /\ count is_busy (mps s) = 0 /\ runs s <= 1;
  iJ : 0 < count is_drain (mps s) + count is_done (mps s) -> runs s = 0;
  iE : count is_err (mps s) = 0;
  iT1 : taken s <= 1;
  iT2 : taken s = 1 -> 0 < count is_drain (mps s) + count is_done (mps s);
  iQ1 : 0 < T -> 1 <= runs s + sumw future_blocks (mps s) + count is_busy (mps s) + taken s;
  iQ2 : T = 0 -> runs s + sumw future_blocks (mps s) + count is_busy (mps s) + taken s = 0
}.

Lemma count_map_coll f ks : (forall k, f (MColl k) = false) -> count f (map MColl ks) = 0.
Proof. intros H. induction ks as [|k ks IH]; [reflexivity|]. cbn [map]. rewrite count_cons, H, IH. reflexivity. Qed.

Lemma count_coll_init ks : count is_coll (map MColl ks) = length ks.
Proof. induction ks as [|k ks IH]; [reflexivity|]. cbn [map]. rewrite count_cons, IH. reflexivity. Qed.

Lemma future_init ks : sumw future_blocks (map MColl ks) = total_blocks ks.
Proof. induction ks as [|k ks IH]; [reflexivity|]. cbn [map]. rewrite sumw_cons, IH. reflexivity. Qed.

Lemma minv_init ks : MInv (total_blocks ks) (minit ks).
Proof.
  unfold minit. constructor; cbn [mps runs remaining merging taken];
    rewrite ?count_coll_init, ?future_init,
      ?(count_map_coll is_busy), ?(count_map_coll is_parked), ?(count_map_coll is_take),
      ?(count_map_coll is_drain), ?(count_map_coll is_done), ?(count_map_coll is_err), ?(count_map_coll is_merge)
      by reflexivity; intros; lia.
Qed.

Lemma minv_step T s s' : MInv T s -> mstep s s' -> MInv T s'.
Proof.
  intros [A B C K J E T1 T2 Q1 Q2] Hs.
  destruct Hs as [i k s H Hr | i k s H Hr | i p s H Hp Hc | i p s H Hp Hc Hr | i p s H Hp Hc Hr
                 | i s H Hr | i s H Hr | i s H Hc Hr | i s H Hc Hr | i s H Hc | i s H].
  - (* finalize *)
    facts H MMerge. red_all. constructor; red_all; intros; lia.
  - (* finalize_err: remaining = 0 but a Coll partition exists *)
    facts H MErr. red_all. exfalso. lia.
  - (* poll -> Take *)
    apply complete_true in Hc. destruct p; try discriminate; facts H MTake; red_all;
      constructor; red_all; intros; lia.
  - (* poll -> Parked *)
    apply complete_false in Hc. destruct p; try discriminate; facts H MParked; red_all;
      constructor; red_all; intros; lia.
  - (* poll -> Busy *)
    destruct p; try discriminate; facts H MBusy; red_all; constructor; red_all; intros; lia.
  - (* merge_done *)
    pose proof (nth_wake _ _ _ H) as H'. red_all. facts H' MMerge. wake_rw. facts H MBusy. red_all.
    constructor; red_all; wake_rw; intros; lia.
  - (* merge_done_err *)
    facts H MErr. red_all. exfalso. lia.
  - (* take_some *)
    apply complete_true in Hc.
    pose proof (nth_wake _ _ _ H) as H'. red_all. facts H' MDrain. wake_rw. facts H MTake. red_all.
    constructor; red_all; wake_rw; intros; lia.
  - (* take_none *)
    apply complete_true in Hc.
    pose proof (nth_wake _ _ _ H) as H'. red_all. facts H' MDone. wake_rw. facts H MTake. red_all.
    constructor; red_all; wake_rw; intros; lia.
  - (* take_err: Take exists, so the queue is complete *)
    apply complete_false in Hc. facts H MErr. red_all. exfalso. lia.
  - (* drain_done *)
    facts H MDone. red_all. constructor; red_all; intros; lia.
Qed.

Theorem minv_reach ks s : mreach ks s -> MInv (total_blocks ks) s.
Proof. induction 1; [apply minv_init | eapply minv_step; eassumption]. Qed.

Lemma length_reach ks s : mreach ks s -> length (mps s) = length ks.
Proof.
  induction 1 as [|s s' R IH Hs]; [unfold minit; cbn [mps]; apply map_length|].
  destruct Hs; cbn [mps]; rewrite <- IH;
    try (erewrite length_upd; [reflexivity|eassumption]);
    (erewrite length_upd; [apply map_length | apply nth_wake; eassumption]).
Qed.

(* ---------- the theorems ---------- *)

(* The error paths of the queue are unreachable. *)
Theorem mq_no_error_path ks s : mreach ks s -> count is_err (mps s) = 0.
Proof. intros R. apply (iE _ _ (minv_reach _ _ R)). Qed.

(* take_sorted_run is only ever called on a complete queue (its Err branch is dead) *)
Theorem mq_take_never_errors ks s i :
  mreach ks s -> nth_error (mps s) i = Some MTake -> complete s = true.
Proof.
  intros R H. destruct (minv_reach _ _ R) as [A B C K J E T1 T2 Q1 Q2].
  pose proof (count_nth_pos is_take _ _ _ H eq_refl). apply complete_true. lia.
Qed.

(* Appendix-A obligation: whenever some partition is parked, another partition is in a phase whose
   next queue operation wakes it (a collector that will finalize and then merge or take, a
   runnable merger, a merging merge, or a pending take_sorted_run). *)
Theorem mq_parked_implies_waker_pending ks s :
  mreach ks s -> 0 < count is_parked (mps s) ->
  0 < count is_coll (mps s) + count is_merge (mps s) + count is_busy (mps s) + count is_take (mps s).
Proof. intros R. apply (iC _ _ (minv_reach _ _ R)). Qed.

(* the literal "parked => nothing to do" does NOT hold for this queue: finalize adds runs without
   waking, so a partition can sleep while two or more runs are queued (lost parallelism, no hang) *)
Theorem mq_parked_with_work_available_refuted :
  exists ks s, mreach ks s /\ 0 < count is_parked (mps s) /\ 2 <= runs s.
Proof.
  exists [1; 2].
  eexists. split; [|split].
  - eapply mr_step. eapply mr_step. eapply mr_step. apply mr_init.
    + apply (m_finalize 0 1); [reflexivity | cbn; lia].
    + apply (m_poll_park 0 MMerge); [reflexivity | reflexivity | reflexivity | cbn; lia].
    + apply (m_finalize 1 2); [reflexivity | cbn; lia].
  - cbn. lia.
  - cbn. lia.
Qed.

Theorem mq_no_deadlock ks s :
  mreach ks s -> ~ mall_done s -> exists s', mstep s s' /\ s' <> s.
Proof.
  intros R ND. destruct (minv_reach _ _ R) as [A B C K J E T1 T2 Q1 Q2].
  unfold mall_done in ND. pose proof (length_parts (mps s)) as LP.
  destruct (Nat.eq_dec (count is_coll (mps s)) 0) as [Zc|Nc].
  2:{ destruct (count_pos_nth is_coll (mps s)) as (i & p & Hi & Hp); [lia|].
      destruct p; try discriminate. eexists. split; [eapply m_finalize; [eassumption|lia]|].
      intros X. apply (f_equal remaining) in X. cbn [remaining] in X. lia. }
  destruct (Nat.eq_dec (count is_merge (mps s)) 0) as [Zm|Nm].
  2:{ destruct (count_pos_nth is_merge (mps s)) as (i & p & Hi & Hp); [lia|].
      destruct p; try discriminate.
      destruct (complete s) eqn:Hc.
      - eexists. split; [eapply m_poll_complete; [eassumption|reflexivity|assumption]|].
        intros X. apply (f_equal mps) in X. cbn [mps] in X. eapply upd_neq in X; [assumption|eassumption|discriminate].
      - destruct (le_lt_dec 2 (runs s)) as [Hr|Hr].
        + eexists. split; [eapply m_poll_pop; [eassumption|reflexivity|assumption|assumption]|].
          intros X. apply (f_equal mps) in X. cbn [mps] in X. eapply upd_neq in X; [assumption|eassumption|discriminate].
        + eexists. split; [eapply m_poll_park; [eassumption|reflexivity|assumption|assumption]|].
          intros X. apply (f_equal mps) in X. cbn [mps] in X. eapply upd_neq in X; [assumption|eassumption|discriminate]. }
  destruct (Nat.eq_dec (count is_busy (mps s)) 0) as [Zb|Nb].
  2:{ destruct (count_pos_nth is_busy (mps s)) as (i & p & Hi & Hp); [lia|].
      destruct p; try discriminate. eexists. split; [eapply m_merge_done; [eassumption|lia]|].
      intros X. apply (f_equal merging) in X. cbn [merging] in X. lia. }
  destruct (Nat.eq_dec (count is_take (mps s)) 0) as [Zt|Nt].
  2:{ destruct (count_pos_nth is_take (mps s)) as (i & p & Hi & Hp); [lia|].
      destruct p; try discriminate.
      assert (Hc : complete s = true) by (apply complete_true; lia).
      pose proof (nth_wake _ _ _ Hi) as Hi'. cbn [mwake] in Hi'.
      destruct (Nat.eq_dec (runs s) 0) as [Zr|Nr].
      - eexists. split; [eapply m_take_none; eassumption|].
        intros X. apply (f_equal mps) in X. cbn [mps] in X.
        pose proof (nth_upd_eq _ _ _ MDone Hi') as Y. rewrite X in Y. congruence.
      - eexists. split; [eapply m_take_some; [eassumption|assumption|lia]|].
        intros X. apply (f_equal taken) in X. cbn [taken] in X. lia. }
  destruct (Nat.eq_dec (count is_drain (mps s)) 0) as [Zd|Nd].
  2:{ destruct (count_pos_nth is_drain (mps s)) as (i & p & Hi & Hp); [lia|].
      destruct p; try discriminate. eexists. split; [eapply m_drain_done; eassumption|].
      intros X. apply (f_equal mps) in X. cbn [mps] in X. eapply upd_neq in X; [assumption|eassumption|discriminate]. }
  (* only parked (and done) partitions are left: excluded by the invariant *)
  exfalso. lia.
Qed.

(* a spurious poll of a parked partition whose condition is still unmet changes nothing *)
Theorem mq_spurious_poll_stutters s i :
  nth_error (mps s) i = Some MParked -> complete s = false -> runs s < 2 ->
  {| mps := upd (mps s) i MParked; runs := runs s; remaining := remaining s;
     merging := merging s; taken := taken s |} = s.
Proof. intros H _ _. rewrite (upd_id _ _ _ H). destruct s; reflexivity. Qed.

(* every state-changing step strictly decreases the measure: no infinite run without stuttering,
   hence (with mq_no_deadlock) every weakly fair run ends with all partitions Exhausted *)
Theorem mq_progress_measure_decreases ks s s' :
  mreach ks s -> mstep s s' -> s' <> s -> mmeasure s' < mmeasure s.
Proof.
  intros R Hs Hne. destruct (minv_reach _ _ R) as [A B C K J E T1 T2 Q1 Q2].
  unfold mmeasure, mwork.
  pose proof (count_le_length is_parked (mps s)) as PL.
  pose proof (length_parts (mps s)) as LP.
  destruct Hs as [i k s H Hr | i k s H Hr | i p s H Hp Hc | i p s H Hp Hc Hr | i p s H Hp Hc Hr
                 | i s H Hr | i s H Hr | i s H Hc Hr | i s H Hc Hr | i s H Hc | i s H].
  - facts H MMerge. red_all. nia.
  - facts H MErr. red_all. nia.
  - destruct p; try discriminate; facts H MTake; red_all; nia.
  - destruct p; try discriminate.
    + facts H MParked. red_all. nia.
    + exfalso. apply Hne. rewrite (upd_id _ _ _ H). destruct s; reflexivity.
  - destruct p; try discriminate; facts H MBusy; red_all; nia.
  - pose proof (nth_wake _ _ _ H) as H'. red_all. facts H' MMerge. wake_rw. facts H MBusy. red_all. nia.
  - facts H MErr. red_all. nia.
  - pose proof (nth_wake _ _ _ H) as H'. red_all. facts H' MDrain. wake_rw. facts H MTake. red_all. nia.
  - pose proof (nth_wake _ _ _ H) as H'. red_all. facts H' MDone. wake_rw. facts H MTake. red_all. nia.
  - facts H MErr. red_all. nia.
  - facts H MDone. red_all. nia.
Qed.

(* exactly one partition receives the merged run iff there is any block at all; the others get None *)
Theorem mq_exactly_one_drainer ks s :
  mreach ks s -> taken s <= 1 /\
  (mall_done s -> taken s = (if total_blocks ks =? 0 then 0 else 1) /\ runs s = 0).
Proof.
  intros R. destruct (minv_reach _ _ R) as [A B C K J E T1 T2 Q1 Q2]. split; [assumption|].
  unfold mall_done. intros D. pose proof (length_parts (mps s)) as LP.
  pose proof (count_le_length is_done (mps s)).
  assert (Hfb : sumw future_blocks (mps s) = 0).
  { assert (forall l, count is_done l = length l -> sumw future_blocks l = 0) as X.
    { induction l as [|a l IH]; [reflexivity|]. rewrite count_cons, sumw_cons. cbn [length].
      pose proof (count_le_length is_done l). destruct a; cbn [b2n is_done future_blocks]; intros; lia. }
    apply X. exact D. }
  destruct (Nat.eqb_spec (total_blocks ks) 0) as [Z|NZ].
  - specialize (Q2 Z). lia.
  - destruct (Nat.eq_dec (length (mps s)) 0) as [L0|L1].
    + (* no partitions: then total_blocks = 0 *)
      exfalso. pose proof (length_reach _ _ R) as LR. destruct ks; [apply NZ; reflexivity|cbn in LR; lia].
    + assert (0 < total_blocks ks) as P by lia. specialize (Q1 P). lia.
Qed.

(* ---------- the predicate is_complete itself ---------- *)

(* what `complete` (MergeQueueInner::is_complete as written) means *)
Theorem mq_complete_means_quiescent s :
  complete s = true <-> remaining s = 0 /\ merging s = 0 /\ runs s <= 1.
Proof. apply complete_true. Qed.

(* once complete, always complete: poll_merge_next's Finished and the later take_sorted_run (two
   separate critical sections) see the same answer; no run can appear or be in flight any more *)
Theorem mq_complete_is_stable ks s s' :
  mreach ks s -> mstep s s' -> complete s = true -> complete s' = true.
Proof.
  intros R Hs Hc. destruct (minv_reach _ _ R) as [A B C K J E T1 T2 Q1 Q2].
  apply complete_true in Hc. apply complete_true.
  destruct Hs as [i k s H Hr | i k s H Hr | i p s H Hp Hc' | i p s H Hp Hc' Hr | i p s H Hp Hc' Hr
                 | i s H Hr | i s H Hr | i s H Hc' Hr | i s H Hc' Hr | i s H Hc' | i s H]; red_all; try lia.
  - pose proof (count_nth_pos is_coll _ _ _ H eq_refl). lia.
  - pose proof (count_nth_pos is_busy _ _ _ H eq_refl). lia.
Qed.

(* a partition may leave the merge phase (MTake / MDrain / MDone) only when the queue is complete *)
Theorem mq_finished_only_when_complete ks s :
  mreach ks s -> 0 < count is_take (mps s) + count is_drain (mps s) + count is_done (mps s) -> complete s = true.
Proof.
  intros R H. destruct (minv_reach _ _ R) as [A B C K J E T1 T2 Q1 Q2]. apply complete_true. lia.
Qed.

(* ---------- the relational model only performs the executable queue operations ---------- *)
(* q simulates s: same counters, and every parked partition has its waker stored (the real queue may
   additionally hold stale wakers of partitions that were polled again) *)
Definition q_sim (s : mst) (q : mq) : Prop :=
  q_runs q = runs s /\ q_remaining q = remaining s /\ q_merging q = merging s /\
  length (q_wakers q) = length (mps s) /\
  forall i, nth_error (mps s) i = Some MParked -> nth_error (q_wakers q) i = Some true.

Lemma q_complete_sim s q : q_sim s q -> q_complete q = complete s.
Proof. intros (H1 & H2 & H3 & _). unfold q_complete, complete. rewrite H1, H2, H3. reflexivity. Qed.

Lemma nth_upd_other {A} (l : list A) i j p : i <> j -> nth_error (upd l i p) j = nth_error l j \/ length l <= i.
Proof.
  revert i j. induction l as [|a l IH]; intros i j Hn.
  - right. cbn. lia.
  - destruct i as [|i], j as [|j].
    + congruence.
    + left. reflexivity.
    + left. rewrite upd_cons_S. reflexivity.
    + rewrite upd_cons_S. cbn [nth_error length].
      destruct (IH i j) as [X|X]; [congruence|left; exact X|right; lia].
Qed.

Lemma nth_upd_other' {A} (l : list A) i j p old :
  nth_error l i = Some old -> i <> j -> nth_error (upd l i p) j = nth_error l j.
Proof.
  intros H Hn. destruct (nth_upd_other l i j p Hn) as [X|X]; [exact X|].
  pose proof (nth_error_lt _ _ _ H). lia.
Qed.

Lemma parked_after_upd l i old p j :
  nth_error l i = Some old -> p <> MParked -> nth_error (upd l i p) j = Some MParked -> nth_error l j = Some MParked.
Proof.
  intros H Hp Hj. destruct (Nat.eq_dec i j) as [->|Hn].
  - rewrite (nth_upd_eq _ _ _ p H) in Hj. congruence.
  - rewrite (nth_upd_other' _ _ _ _ _ H Hn) in Hj. exact Hj.
Qed.

Lemma no_parked_after_wake l j : nth_error (map mwake l) j <> Some MParked.
Proof.
  rewrite nth_error_map. destruct (nth_error l j) as [[]|]; cbn; congruence.
Qed.

Lemma clear_length q : length (q_clear q) = length (q_wakers q).
Proof. unfold q_clear. apply map_length. Qed.

Theorem mq_model_steps_are_queue_ops ks s s' q :
  mreach ks s -> mstep s s' -> q_sim s q ->
  exists q', q_sim s' q' /\
    ((exists k, q' = fst (q_add q k)) \/ (exists p, q' = fst (q_poll q p)) \/
     q' = fst (q_merge_done q) \/ q' = fst (fst (q_take q)) \/ q' = q).
Proof.
  intros R Hs Sim. pose proof (q_complete_sim _ _ Sim) as QC.
  destruct (minv_reach _ _ R) as [A B C K J E T1 T2 Q1 Q2].
  destruct Sim as (S1 & S2 & S3 & SL & SP).
  destruct Hs as [i k s H Hr | i k s H Hr | i p s H Hp Hc | i p s H Hp Hc Hr | i p s H Hp Hc Hr
                 | i s H Hr | i s H Hr | i s H Hc Hr | i s H Hc Hr | i s H Hc | i s H].
  - (* finalize = q_add *)
    exists (fst (q_add q k)). split; [|left; exists k; reflexivity].
    unfold q_add. destruct (Nat.eqb_spec (q_remaining q) 0) as [Z|NZ]; [lia|]. cbn [fst q_runs q_remaining q_merging q_wakers].
    unfold q_sim; repeat split; cbn [runs remaining merging mps q_runs q_remaining q_merging q_wakers fst]; try lia.
    + rewrite (length_upd _ _ _ _ H). exact SL.
    + intros j Hj. apply SP. eapply parked_after_upd in Hj; [exact Hj|exact H|discriminate].
  - exfalso. facts H MErr. red_all. lia.
  - (* poll -> Finished: queue unchanged *)
    exists q. split; [|right; left; exists i; unfold q_poll; rewrite QC, Hc; reflexivity].
    unfold q_sim; repeat split; cbn [runs remaining merging mps q_runs q_remaining q_merging q_wakers fst]; try assumption.
    + rewrite (length_upd _ _ _ _ H). exact SL.
    + intros j Hj. apply SP. eapply parked_after_upd in Hj; [exact Hj|exact H|discriminate].
  - (* poll -> Pending: waker stored *)
    exists (fst (q_poll q i)). split; [|right; left; exists i; reflexivity].
    unfold q_poll. rewrite QC, Hc. destruct (Nat.ltb_spec (q_runs q) 2) as [L2|L2]; [|lia].
    cbn [fst q_runs q_remaining q_merging q_wakers].
    assert (Hi : exists b, nth_error (q_wakers q) i = Some b).
    { destruct (nth_error (q_wakers q) i) eqn:X; [eauto|]. apply nth_error_None in X.
      pose proof (nth_error_lt _ _ _ H). lia. }
    destruct Hi as (b & Hb).
    unfold q_sim; repeat split; cbn [runs remaining merging mps q_runs q_remaining q_merging q_wakers fst]; try assumption.
    + rewrite (length_upd _ _ _ _ H), (length_upd _ _ _ _ Hb). exact SL.
    + intros j Hj. destruct (Nat.eq_dec i j) as [<-|Hn].
      * apply (nth_upd_eq _ _ _ true Hb).
      * rewrite (nth_upd_other' _ _ _ _ _ Hb Hn). apply SP.
        rewrite (nth_upd_other' _ _ _ _ _ H Hn) in Hj. exact Hj.
  - (* poll -> two runs popped *)
    exists (fst (q_poll q i)). split; [|right; left; exists i; reflexivity].
    unfold q_poll. rewrite QC, Hc. destruct (Nat.ltb_spec (q_runs q) 2) as [L2|L2]; [lia|].
    cbn [fst q_runs q_remaining q_merging q_wakers].
    unfold q_sim; repeat split; cbn [runs remaining merging mps q_runs q_remaining q_merging q_wakers fst]; try lia.
    + rewrite (length_upd _ _ _ _ H). exact SL.
    + intros j Hj. apply SP. eapply parked_after_upd in Hj; [exact Hj|exact H|discriminate].
  - (* merge_done *)
    exists (fst (q_merge_done q)). split; [|right; right; left; reflexivity].
    unfold q_merge_done. cbn [fst q_runs q_remaining q_merging q_wakers].
    pose proof (nth_wake _ _ _ H) as H'. cbn [mwake] in H'.
    unfold q_sim; repeat split; cbn [runs remaining merging mps q_runs q_remaining q_merging q_wakers fst]; try lia.
    + rewrite clear_length, (length_upd _ _ _ _ H'), map_length. exact SL.
    + intros j Hj. exfalso. eapply parked_after_upd in Hj; [|exact H'|discriminate].
      exact (no_parked_after_wake _ _ Hj).
  - exfalso. facts H MErr. red_all. lia.
  - (* take -> Some *)
    exists (fst (fst (q_take q))). split; [|right; right; right; left; reflexivity].
    unfold q_take. rewrite QC, Hc. destruct (Nat.eqb_spec (q_runs q) 0) as [Z|NZ]; [lia|].
    cbn [fst q_runs q_remaining q_merging q_wakers].
    pose proof (nth_wake _ _ _ H) as H'. cbn [mwake] in H'.
    unfold q_sim; repeat split; cbn [runs remaining merging mps q_runs q_remaining q_merging q_wakers fst]; try lia.
    + rewrite clear_length, (length_upd _ _ _ _ H'), map_length. exact SL.
    + intros j Hj. exfalso. eapply parked_after_upd in Hj; [|exact H'|discriminate].
      exact (no_parked_after_wake _ _ Hj).
  - (* take -> None *)
    exists (fst (fst (q_take q))). split; [|right; right; right; left; reflexivity].
    unfold q_take. rewrite QC, Hc. destruct (Nat.eqb_spec (q_runs q) 0) as [Z|NZ]; [|lia].
    cbn [fst q_runs q_remaining q_merging q_wakers].
    pose proof (nth_wake _ _ _ H) as H'. cbn [mwake] in H'.
    unfold q_sim; repeat split; cbn [runs remaining merging mps q_runs q_remaining q_merging q_wakers fst]; try lia.
    + rewrite clear_length, (length_upd _ _ _ _ H'), map_length. exact SL.
    + intros j Hj. exfalso. eapply parked_after_upd in Hj; [|exact H'|discriminate].
      exact (no_parked_after_wake _ _ Hj).
  - (* take before complete: unreachable *)
    exfalso. apply complete_false in Hc. facts H MErr. red_all. lia.
  - (* drain_done: queue untouched *)
    exists q. split; [|right; right; right; right; reflexivity].
    unfold q_sim; repeat split; cbn [runs remaining merging mps q_runs q_remaining q_merging q_wakers fst]; try assumption.
    + rewrite (length_upd _ _ _ _ H). exact SL.
    + intros j Hj. apply SP. eapply parked_after_upd in Hj; [exact Hj|exact H|discriminate].
Qed.

Example mq_sim_init ks : q_sim (minit ks) (q_new (length ks)).
Proof.
  unfold q_sim, minit, q_new. cbn [q_runs q_remaining q_merging q_wakers runs remaining merging mps].
  repeat split; try reflexivity.
  - rewrite repeat_length, map_length. reflexivity.
  - intros i Hi. rewrite nth_error_map in Hi. destruct (nth_error ks i); cbn in Hi; discriminate.
Qed.

(* every hypothesis above is satisfiable: a complete 2-partition run *)
Example mq_run_example : exists s, mreach [1] s /\ mall_done s /\ taken s = 1.
Proof.
  eexists. split; [|split].
  - eapply mr_step. eapply mr_step. eapply mr_step. eapply mr_step. apply mr_init.
    + apply (m_finalize 0 1); [reflexivity | cbn; lia].
    + apply (m_poll_complete 0 MMerge); [reflexivity | reflexivity | reflexivity].
    + apply (m_take_some 0); [reflexivity | reflexivity | cbn; lia].
    + apply (m_drain_done 0); reflexivity.
  - reflexivity.
  - reflexivity.
Qed.

Print Assumptions mq_no_deadlock.
Print Assumptions mq_progress_measure_decreases.
Print Assumptions mq_exactly_one_drainer.
Print Assumptions mq_complete_is_stable.
Print Assumptions mq_model_steps_are_queue_ops.
