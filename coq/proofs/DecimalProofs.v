(* Proofs about model/Decimal.v *)
From Coq Require Import ZArith List Bool Lia ZifyBool.
From GV Require Import model.Arith model.Decimal proofs.ArithProofs.
Import ListNotations.
Open Scope Z_scope.

Lemma pow10_pos : forall n, 0 <= n -> 0 < 10 ^ n.
Proof. intros n Hn. apply Z.pow_pos_nonneg; lia. Qed.

Lemma scaled_bound : forall a p s S M, 0 <= s <= p -> s <= S -> p - s <= M -> Z.abs a < 10 ^ p ->
  Z.abs (a * 10 ^ (S - s)) < 10 ^ (M + S).
Proof.
  intros a p s S M Hs HS HM Ha.
  pose proof (pow10_pos (S - s) ltac:(lia)) as Hc.
  rewrite Z.abs_mul, (Z.abs_eq (10 ^ (S - s))) by lia.
  apply Z.lt_le_trans with (10 ^ p * 10 ^ (S - s)).
  - apply Z.mul_lt_mono_pos_r; assumption.
  - rewrite <- Z.pow_add_r by lia. apply Z.pow_le_mono_r; lia.
Qed.

(* ------------------------------------------------------------ add_sub_type_fits *)
(* for EVERY (p1,s1), (p2,s2): when the precision was not clamped, the "+1" digit really is enough *)
Lemma add_sub_type_fits : forall P k p1 s1 p2 s2 p' s' a b (sub : bool),
  0 <= s1 <= p1 -> 0 <= s2 <= p2 ->
  add_sub_type P k p1 s1 p2 s2 = (p', s', false) ->
  Z.abs a < 10 ^ p1 -> Z.abs b < 10 ^ p2 ->
  s1 <= s' /\ s2 <= s' /\
  Z.abs (if sub then a * 10 ^ (s' - s1) - b * 10 ^ (s' - s2) else a * 10 ^ (s' - s1) + b * 10 ^ (s' - s2)) < 10 ^ p'.
Proof.
  intros P k p1 s1 p2 s2 p' s' a b sub H1 H2 Ht Ha Hb.
  unfold add_sub_type in Ht.
  destruct (max_prec P k <? Z.max (p1 - s1) (p2 - s2) + Z.max s1 s2 + 1); [discriminate|].
  injection Ht as <- <-.
  set (S := Z.max s1 s2). set (M := Z.max (p1 - s1) (p2 - s2)).
  pose proof (scaled_bound a p1 s1 S M H1 ltac:(subst S; lia) ltac:(subst M; lia) Ha) as Ba.
  pose proof (scaled_bound b p2 s2 S M H2 ltac:(subst S; lia) ltac:(subst M; lia) Hb) as Bb.
  assert (Hp : 10 ^ (M + S + 1) = 10 * 10 ^ (M + S)).
  { replace (M + S + 1) with (Z.succ (M + S)) by lia. apply Z.pow_succ_r. subst M S. lia. }
  repeat split; try (subst S; lia).
  rewrite Hp. destruct sub; lia.
Qed.

Example add_sub_type_fits_sat : add_sub_type {| max64 := 18; max128 := 38; pow_i32 := false; d2d_validates := true; res_validates := true |} D64 9 3 4 1 = (10, 3, false).
Proof. reflexivity. Qed.

(* ------------------------------------------------------------ mul_type_fits *)
Lemma mul_type_fits : forall P k p1 s1 p2 s2 p' s' a b,
  0 <= p1 -> 0 <= p2 ->
  mul_type P k p1 s1 p2 s2 = Some (p', s', false) ->
  Z.abs a < 10 ^ p1 -> Z.abs b < 10 ^ p2 ->
  s' = s1 + s2 /\ Z.abs (a * b) < 10 ^ p'.
Proof.
  intros P k p1 s1 p2 s2 p' s' a b Hp1 Hp2 Ht Ha Hb.
  unfold mul_type in Ht.
  destruct (max_prec P k <? s1 + s2); [discriminate|].
  destruct (max_prec P k <? p1 + p2); [destruct (max_prec P k <? s1 + s2); discriminate|].
  destruct (p1 + p2 <? s1 + s2); [discriminate|].
  injection Ht as <- <-. split; [reflexivity|].
  rewrite Z.abs_mul, Z.pow_add_r by lia.
  pose proof (Z.abs_nonneg a). pose proof (Z.abs_nonneg b).
  apply Z.le_lt_trans with (Z.abs a * 10 ^ p2).
  - apply Z.mul_le_mono_nonneg_l; lia.
  - apply Z.mul_lt_mono_pos_r; [apply pow10_pos|]; lia.
Qed.

Example mul_type_fits_sat : mul_type {| max64 := 18; max128 := 38; pow_i32 := false; d2d_validates := true; res_validates := true |} D64 4 1 6 2 = Some (10, 3, false).
Proof. reflexivity. Qed.

(* ------------------------------------------------------------ exactness when not clamped *)
Definition P0' : dparams := {| max64 := 18; max128 := 38; pow_i32 := false; d2d_validates := true; res_validates := true |}.
Definition params_ok (P : dparams) : Prop :=
  0 <= max64 P /\ 0 <= max128 P /\ 10 ^ max64 P < 2 ^ 63 /\ 10 ^ max128 P < 2 ^ 127.

Lemma fits_prim : forall P k p v, params_ok P -> 0 <= p <= max_prec P k -> Z.abs v < 10 ^ p ->
  in_range Signed (prim_bits k) v = true.
Proof.
  intros P k p v (H64 & H128 & B64 & B128) Hp Hv. apply in_range_iff.
  assert (Hle : 10 ^ p <= 10 ^ max_prec P k) by (apply Z.pow_le_mono_r; lia).
  destruct k; cbn [prim_bits max_prec lo hi] in *.
  - change (64 - 1) with 63. lia.
  - change (128 - 1) with 127. lia.
Qed.

Lemma fits_prim_le : forall P k p v, params_ok P -> 0 <= p <= max_prec P k -> Z.abs v <= 10 ^ p ->
  in_range Signed (prim_bits k) v = true.
Proof.
  intros P k p v (H64 & H128 & B64 & B128) Hp Hv. apply in_range_iff.
  assert (Hle : 10 ^ p <= 10 ^ max_prec P k) by (apply Z.pow_le_mono_r; lia).
  destruct k; cbn [prim_bits max_prec lo hi] in *.
  - change (64 - 1) with 63. lia.
  - change (128 - 1) with 127. lia.
Qed.

Lemma digits_fuel_nonneg : forall f v, 0 <= digits_fuel f v.
Proof. induction f as [|f IH]; intros v; cbn [digits_fuel]; [lia|]. destruct (v =? 0); [lia|]. specialize (IH (v / 10)). lia. Qed.

Lemma pow10_succ : forall p, 1 <= p -> 10 ^ p = 10 * 10 ^ (p - 1).
Proof. intros p Hp. replace p with (Z.succ (p - 1)) at 1 by lia. rewrite Z.pow_succ_r by lia. reflexivity. Qed.

(* |v| < 10^p  ->  at most p digits are counted (whatever the fuel) *)
Lemma digits_fuel_le : forall f v p, 0 <= p -> 0 <= v < 10 ^ p -> digits_fuel f v <= p.
Proof.
  induction f as [|f IH]; intros v p Hp Hv; cbn [digits_fuel]; [lia|].
  destruct (v =? 0) eqn:E; [lia|]. apply Z.eqb_neq in E.
  assert (Hp1 : 1 <= p). { destruct (Z.eq_dec p 0) as [->|]; [rewrite Z.pow_0_r in Hv; lia|lia]. }
  pose proof (pow10_succ p Hp1) as Hs.
  assert (Hd : 0 <= v / 10 < 10 ^ (p - 1)).
  { split; [apply Z.div_pos; lia|apply Z.div_lt_upper_bound; lia]. }
  specialize (IH (v / 10) (p - 1) ltac:(lia) Hd). lia.
Qed.

(* with enough fuel the count is the real number of digits: digits <= p -> |v| < 10^p *)
Lemma digits_fuel_lt : forall f v p, 0 <= p -> 0 <= v < 10 ^ Z.of_nat f -> digits_fuel f v <= p -> v < 10 ^ p.
Proof.
  induction f as [|f IH]; intros v p Hp Hv Hd.
  - change (Z.of_nat 0) with 0 in Hv. rewrite Z.pow_0_r in Hv. pose proof (pow10_pos p Hp). lia.
  - cbn [digits_fuel] in Hd. destruct (v =? 0) eqn:E.
    + apply Z.eqb_eq in E. pose proof (pow10_pos p Hp). lia.
    + apply Z.eqb_neq in E. pose proof (digits_fuel_nonneg f (v / 10)) as Hn.
      rewrite Nat2Z.inj_succ, Z.pow_succ_r in Hv by lia.
      assert (Hq : 0 <= v / 10 < 10 ^ Z.of_nat f).
      { split; [apply Z.div_pos; lia|apply Z.div_lt_upper_bound; lia]. }
      specialize (IH (v / 10) (p - 1) ltac:(lia) Hq ltac:(lia)).
      pose proof (pow10_succ p ltac:(lia)) as Hs.
      pose proof (Z.div_mod v 10 ltac:(lia)) as Hdm. pose proof (Z.mod_pos_bound v 10 ltac:(lia)) as Hm. lia.
Qed.

Lemma validate_ok : forall P k x p, 0 <= p <= max_prec P k -> Z.abs x < 10 ^ p -> validate_precision P k x p = true.
Proof.
  intros P k x p Hp Hx. unfold validate_precision, digits.
  apply andb_true_iff. split; [apply Z.leb_le; lia|]. apply orb_true_iff. right. apply Z.leb_le.
  apply digits_fuel_le; lia.
Qed.

(* a validated value of a primitive really has at most p digits (primitive < 2^127 < 10^60 = the fuel) *)
Lemma validate_sound : forall P k x p, 0 <= p -> in_range Signed (prim_bits k) x = true ->
  validate_precision P k x p = true -> Z.abs x < 10 ^ p.
Proof.
  intros P k x p Hp Hr Hv. unfold validate_precision, digits in Hv.
  apply andb_true_iff in Hv. destruct Hv as [_ Hv]. apply orb_true_iff in Hv. destruct Hv as [Hv|Hv].
  - apply Z.eqb_eq in Hv. subst x. cbn [Z.abs]. apply pow10_pos. exact Hp.
  - apply Z.leb_le in Hv. apply (digits_fuel_lt 60); [exact Hp| |exact Hv].
    apply in_range_iff in Hr. split; [lia|].
    assert (Hb : Z.abs x <= 2 ^ 127).
    { destruct k; cbn [prim_bits lo hi] in Hr; [change (64 - 1) with 63 in Hr|change (128 - 1) with 127 in Hr]; lia. }
    assert (2 ^ 127 < 10 ^ Z.of_nat 60) by reflexivity. lia.
Qed.

(* storing a result that fits the output precision: exact, in both variants, every style and mode *)
Lemma dec_result_exact : forall P st m k p' x, params_ok P -> 0 <= p' <= max_prec P k -> Z.abs x < 10 ^ p' ->
  dec_result P st m k p' x = Ok x.
Proof.
  intros P st m k p' x HP Hp Hx. unfold dec_result.
  pose proof (fits_prim P k p' x HP Hp Hx) as Hr.
  destruct (res_validates P).
  - unfold checked. rewrite Hr. cbn [bind_out]. rewrite validate_ok by assumption. reflexivity.
  - apply arith_result_exact; [destruct k; reflexivity|exact Hr].
Qed.

(* with the validation of the current source: exactly the spec -- the value when it fits p' digits, else an error *)
Lemma dec_result_spec : forall P st m k p' x, params_ok P -> res_validates P = true -> 0 <= p' <= max_prec P k ->
  dec_result P st m k p' x = if fits p' x then Ok x else Err.
Proof.
  intros P st m k p' x HP Hv Hp. unfold dec_result, fits. rewrite Hv.
  destruct (Z.abs x <? 10 ^ p') eqn:Hf.
  - apply Z.ltb_lt in Hf. unfold checked. rewrite (fits_prim P k p' x HP Hp Hf). cbn [bind_out].
    rewrite validate_ok by assumption. reflexivity.
  - apply Z.ltb_ge in Hf. unfold checked. destruct (in_range Signed (prim_bits k) x) eqn:Hr; cbn [bind_out]; [|reflexivity].
    destruct (validate_precision P k x p') eqn:Hval; [|reflexivity].
    pose proof (validate_sound P k x p' ltac:(lia) Hr Hval). lia.
Qed.

Lemma cast_dec_exact : forall P m k p s v p' s' M, params_ok P -> 0 <= s <= p -> s <= s' ->
  p - s <= M -> 0 <= M + s' <= p' -> p' <= max_prec P k -> Z.abs v < 10 ^ p ->
  cast_operand P m k p' s' (ODec p s v) = Ok (v * 10 ^ (s' - s)).
Proof.
  intros P m k p s v p' s' M HP Hs Hs' HM Hp' Hmax Hv. cbn [cast_operand].
  destruct ((p =? p') && (s =? s')) eqn:He.
  - apply andb_true_iff in He. destruct He as [_ He]. apply Z.eqb_eq in He. subst s'.
    rewrite Z.sub_diag. cbn [Z.pow]. f_equal. lia.
  - pose proof (scaled_bound v p s s' M Hs Hs' HM Hv) as Hb.
    assert (Hle : 10 ^ (M + s') <= 10 ^ p') by (apply Z.pow_le_mono_r; lia).
    assert (Hb' : Z.abs (v * 10 ^ (s' - s)) < 10 ^ p') by lia.
    destruct (d2d_validates P).
    + assert (Hamt : in_range Signed (prim_bits k) (10 ^ (s' - s)) = true).
      { apply (fits_prim_le P k p'); [exact HP|lia|].
        pose proof (pow10_pos (s' - s) ltac:(lia)). rewrite Z.abs_eq by lia. apply Z.pow_le_mono_r; lia. }
      unfold checked at 1. rewrite Hamt. cbn [bind_out]. unfold checked.
      rewrite (fits_prim P k p' _ HP ltac:(lia) Hb'). cbn [bind_out].
      rewrite validate_ok by (try assumption; lia). reflexivity.
    + unfold checked. rewrite (fits_prim P k p' _ HP ltac:(lia) Hb'). reflexivity.
Qed.

(* decimal (+|-) decimal: if the result precision was not clamped, the result is the exact value and
   it has at most p' digits -- in every style and mode *)
Lemma dec_addsub_exact_when_not_clamped : forall P st m k sub p1 s1 a p2 s2 b p' s',
  params_ok P -> 0 <= s1 <= p1 -> 0 <= s2 <= p2 -> Z.abs a < 10 ^ p1 -> Z.abs b < 10 ^ p2 ->
  add_sub_type P k p1 s1 p2 s2 = (p', s', false) ->
  dec_addsub P st m k sub (ODec p1 s1 a) (ODec p2 s2 b)
  = ((p', s', false), Ok (exact_addsub s' sub (ODec p1 s1 a) (ODec p2 s2 b)))
  /\ spec_addsub P k sub (ODec p1 s1 a) (ODec p2 s2 b) = Ok (exact_addsub s' sub (ODec p1 s1 a) (ODec p2 s2 b)).
Proof.
  intros P st m k sub p1 s1 a p2 s2 b p' s' HP H1 H2 Ha Hb Ht.
  pose proof (add_sub_type_fits P k p1 s1 p2 s2 p' s' a b sub H1 H2 Ht Ha Hb) as (Hs1 & Hs2 & Hfit).
  unfold dec_addsub, spec_addsub. cbn [op_meta]. rewrite Ht.
  assert (Hty : s' = Z.max s1 s2 /\ p' = Z.max (p1 - s1) (p2 - s2) + s' + 1 /\ p' <= max_prec P k).
  { unfold add_sub_type in Ht.
    destruct (max_prec P k <? Z.max (p1 - s1) (p2 - s2) + Z.max s1 s2 + 1) eqn:Hc; [discriminate|].
    injection Ht as <- <-. lia. }
  destruct Hty as (Es & Ep & Hmax).
  rewrite (cast_dec_exact P m k p1 s1 a p' s' (Z.max (p1 - s1) (p2 - s2))) by (auto; lia).
  rewrite (cast_dec_exact P m k p2 s2 b p' s' (Z.max (p1 - s1) (p2 - s2))) by (auto; lia).
  cbn [bind_out]. unfold exact_addsub. cbn [op_unscaled op_meta snd].
  assert (Hin : in_range Signed (prim_bits k)
            (if sub then a * 10 ^ (s' - s1) - b * 10 ^ (s' - s2) else a * 10 ^ (s' - s1) + b * 10 ^ (s' - s2)) = true).
  { apply (fits_prim P k p'); auto. lia. }
  split.
  - f_equal. apply dec_result_exact; [exact HP|lia|exact Hfit].
  - unfold fits. apply Z.ltb_lt in Hfit. destruct sub; rewrite Hfit; reflexivity.
Qed.

Example dec_addsub_exact_sat :
  params_ok P0' /\ add_sub_type P0' D128 20 10 4 1 = (21, 10, false) /\ Z.abs 99999999999999999999 < 10 ^ 20.
Proof. unfold params_ok, P0'. cbn [max64 max128]. repeat split; try lia; reflexivity. Qed.

(* decimal * decimal, precision not clamped: exact, in every style and mode *)
Lemma dec_mul_exact_when_not_clamped : forall P st m k p1 s1 a p2 s2 b p' s',
  params_ok P -> 0 <= p1 -> 0 <= p2 -> Z.abs a < 10 ^ p1 -> Z.abs b < 10 ^ p2 ->
  mul_type P k p1 s1 p2 s2 = Some (p', s', false) ->
  dec_mul P st m k (ODec p1 s1 a) (ODec p2 s2 b) = Some ((p', s', false), Ok (a * b))
  /\ spec_mul P k (ODec p1 s1 a) (ODec p2 s2 b) = Some (Ok (a * b)).
Proof.
  intros P st m k p1 s1 a p2 s2 b p' s' HP Hp1 Hp2 Ha Hb Ht.
  pose proof (mul_type_fits P k p1 s1 p2 s2 p' s' a b Hp1 Hp2 Ht Ha Hb) as (_ & Hfit).
  assert (Hmax : p' = p1 + p2 /\ p' <= max_prec P k).
  { unfold mul_type in Ht.
    destruct (max_prec P k <? s1 + s2); [discriminate|].
    destruct (max_prec P k <? p1 + p2) eqn:Hc; [destruct (max_prec P k <? s1 + s2); discriminate|].
    destruct (p1 + p2 <? s1 + s2); [discriminate|]. injection Ht as <- <-. lia. }
  unfold dec_mul, spec_mul. cbn [op_meta op_unscaled]. rewrite Ht. split.
  - do 2 f_equal. cbn [fst]. apply dec_result_exact; [exact HP|lia|exact Hfit].
  - unfold fits. apply Z.ltb_lt in Hfit. rewrite Hfit. reflexivity.
Qed.

(* ------------------------------------------------------------ every precision, clamped or not *)
Definition P0 : dparams := {| max64 := 18; max128 := 38; pow_i32 := false; d2d_validates := true; res_validates := true |}.

Lemma params_ok_P0 : params_ok P0.
Proof. unfold params_ok, P0. cbn [max64 max128]. repeat split; try lia; reflexivity. Qed.

Lemma cast_dec_ok_inv : forall P m k p s v p' s' x, d2d_validates P = true -> 0 <= p' -> Z.abs v < 10 ^ p ->
  cast_operand P m k p' s' (ODec p s v) = Ok x -> x = v * 10 ^ (s' - s) /\ Z.abs x < 10 ^ p'.
Proof.
  intros P m k p s v p' s' x Hd Hp' Hv H. cbn [cast_operand] in H.
  destruct ((p =? p') && (s =? s')) eqn:He.
  - injection H as <-. apply andb_true_iff in He. destruct He as [E1 E2]. apply Z.eqb_eq in E1, E2. subst p' s'.
    rewrite Z.sub_diag. split; [cbn [Z.pow]; lia|exact Hv].
  - rewrite Hd in H. unfold checked at 1 in H.
    destruct (in_range Signed (prim_bits k) (10 ^ (s' - s))); cbn [bind_out] in H; [|discriminate].
    unfold checked in H. destruct (in_range Signed (prim_bits k) (v * 10 ^ (s' - s))) eqn:Hr; cbn [bind_out] in H; [|discriminate].
    destruct (validate_precision P k (v * 10 ^ (s' - s)) p') eqn:Hval; [|discriminate]. injection H as <-.
    split; [reflexivity|]. exact (validate_sound P k _ p' Hp' Hr Hval).
Qed.

Lemma cast_dec_no_panic : forall P m k p s v p' s', d2d_validates P = true -> cast_operand P m k p' s' (ODec p s v) <> Panic.
Proof.
  intros P m k p s v p' s' Hd H. cbn [cast_operand] in H. destruct ((p =? p') && (s =? s')); [discriminate|]. rewrite Hd in H.
  unfold checked in H. destruct (in_range Signed (prim_bits k) (10 ^ (s' - s))); cbn [bind_out] in H; [|discriminate].
  destruct (in_range Signed (prim_bits k) (v * 10 ^ (s' - s))); cbn [bind_out] in H; [|discriminate].
  destruct (validate_precision P k (v * 10 ^ (s' - s)) p'); discriminate.
Qed.

Lemma add_sub_type_range : forall P k p1 s1 p2 s2 p' s' e, 0 <= max_prec P k -> 0 <= s1 <= p1 -> 0 <= s2 <= p2 ->
  add_sub_type P k p1 s1 p2 s2 = (p', s', e) -> 0 <= p' <= max_prec P k /\ s' = Z.max s1 s2.
Proof.
  intros P k p1 s1 p2 s2 p' s' e Hm H1 H2 Ht. unfold add_sub_type in Ht.
  destruct (max_prec P k <? Z.max (p1 - s1) (p2 - s2) + Z.max s1 s2 + 1) eqn:Hc; injection Ht as <- <- _; lia.
Qed.

(* decimal (+|-) decimal on the current source (casts validate, result checked and validated), for EVERY
   (p1,s1), (p2,s2), clamped or not, every style and mode: the outcome is the spec's -- the exact value
   when it has at most p' digits, else an error -- or, only when the precision was clamped, an error because
   an operand does not fit the common type.  Never a wrong value, never too many digits, never a panic. *)
Lemma dec_addsub_meets_spec_or_cast_error : forall P st m k sub p1 s1 a p2 s2 b ty r,
  params_ok P -> d2d_validates P = true -> res_validates P = true ->
  0 <= s1 <= p1 -> 0 <= s2 <= p2 -> Z.abs a < 10 ^ p1 -> Z.abs b < 10 ^ p2 ->
  dec_addsub P st m k sub (ODec p1 s1 a) (ODec p2 s2 b) = (ty, r) ->
  r = spec_addsub P k sub (ODec p1 s1 a) (ODec p2 s2 b) \/ (r = Err /\ snd ty = true).
Proof.
  intros P st m k sub p1 s1 a p2 s2 b ty r HP Hd Hv H1 H2 Ha Hb H.
  destruct (add_sub_type P k p1 s1 p2 s2) as [[p' s'] e] eqn:Ht.
  destruct e.
  2:{ (* not clamped: exact = spec *)
      destruct (dec_addsub_exact_when_not_clamped P st m k sub p1 s1 a p2 s2 b p' s' HP H1 H2 Ha Hb Ht) as [E1 E2].
      rewrite E1 in H. apply pair_equal_spec in H. destruct H as [_ <-]. left. symmetry. exact E2. }
  unfold dec_addsub in H. unfold spec_addsub. cbn [op_meta] in H |- *. rewrite Ht in H |- *.
  assert (Hmax0 : 0 <= max_prec P k) by (destruct HP as (? & ? & _); destruct k; cbn [max_prec]; lia).
  destruct (add_sub_type_range P k p1 s1 p2 s2 p' s' true Hmax0 H1 H2 Ht) as [Hp' Hs'].
  apply pair_equal_spec in H. destruct H as [<- <-]. cbn [snd].
  pose proof (cast_dec_no_panic P m k p1 s1 a p' s' Hd) as Na.
  pose proof (cast_dec_no_panic P m k p2 s2 b p' s' Hd) as Nb.
  destruct (cast_operand P m k p' s' (ODec p1 s1 a)) as [a'| |] eqn:Ca; cbn [bind_out]; [|right; auto|congruence].
  destruct (cast_operand P m k p' s' (ODec p2 s2 b)) as [b'| |] eqn:Cb; cbn [bind_out]; [|right; auto|congruence].
  destruct (cast_dec_ok_inv P m k p1 s1 a p' s' a' Hd ltac:(lia) Ha Ca) as [Ea _].
  destruct (cast_dec_ok_inv P m k p2 s2 b p' s' b' Hd ltac:(lia) Hb Cb) as [Eb _].
  left. unfold exact_addsub. cbn [op_unscaled op_meta snd]. rewrite <- Ea, <- Eb.
  apply dec_result_spec; assumption.
Qed.

Example dec_addsub_meets_spec_sat : params_ok P0 /\ d2d_validates P0 = true /\ res_validates P0 = true.
Proof. split; [exact params_ok_P0|split; reflexivity]. Qed.

(* decimal * decimal on the current source, EVERY precision pair: exactly the spec *)
Lemma dec_mul_meets_spec : forall P st m k p1 s1 a p2 s2 b ty r,
  params_ok P -> res_validates P = true -> 0 <= p1 -> 0 <= p2 ->
  dec_mul P st m k (ODec p1 s1 a) (ODec p2 s2 b) = Some (ty, r) ->
  spec_mul P k (ODec p1 s1 a) (ODec p2 s2 b) = Some r.
Proof.
  intros P st m k p1 s1 a p2 s2 b ty r HP Hv Hp1 Hp2 H.
  unfold dec_mul in H. unfold spec_mul. cbn [op_meta op_unscaled] in H |- *.
  destruct (mul_type P k p1 s1 p2 s2) as [[[p' s'] c]|] eqn:Ht; [|discriminate].
  injection H as <- <-. cbn [fst]. f_equal. symmetry.
  assert (Hmax0 : 0 <= max_prec P k) by (destruct HP as (? & ? & _); destruct k; cbn [max_prec]; lia).
  apply dec_result_spec; try assumption.
  unfold mul_type in Ht. destruct (max_prec P k <? s1 + s2); [discriminate|].
  destruct (max_prec P k <? p1 + p2) eqn:Hc; destruct (_ <? s1 + s2); try discriminate; injection Ht as <- _ _; lia.
Qed.

(* the inputs that used to give 19 digits in a decimal(18,_) / a panic / a wrapped product now fail *)
Lemma dec_clamped_now_error : forall m,
  dec_addsub P0 Checked m D64 false (ODec 18 0 999999999999999999) (ODec 18 0 1) = ((18, 0, true), Err)
  /\ spec_addsub P0 D64 false (ODec 18 0 999999999999999999) (ODec 18 0 1) = Err
  /\ dec_mul P0 Checked m D64 (ODec 9 0 500000000) (ODec 10 0 9999999999) = Some ((18, 0, true), Err)
  /\ dec_mul P0 Checked m D64 (ODec 10 0 9999999999) (ODec 10 0 9999999999) = Some ((18, 0, true), Err)
  /\ spec_mul P0 D64 (ODec 10 0 9999999999) (ODec 10 0 9999999999) = Some Err.
Proof. intros m. destruct m; vm_compute; repeat split; reflexivity. Qed.

(* integer operand of a decimal + / -: the scale factor 10^s' is exact (it used to be computed in i32) *)
Lemma int_to_decimal_scale_exact_now : forall m,
  dec_addsub P0 Checked m D64 false (ODec 12 10 15000000000) (OInt 8 1) = ((14, 10, false), Ok 25000000000)
  /\ spec_addsub P0 D64 false (ODec 12 10 15000000000) (OInt 8 1) = Ok 25000000000.
Proof. intros m. destruct m; vm_compute; auto. Qed.

(* The strict statement  dec_addsub .. = (ty, spec_addsub ..)  is refuted only on the error side, and only
   for clamped precisions: an operand that does not fit the common type fails its cast although the
   exact result (here 0.5) is representable in the result type decimal(18,18) *)
Lemma dec_add_clamped_cast_error_though_representable : forall m,
  dec_addsub P0 Checked m D64 false (ODec 18 0 1) (ODec 18 18 (-500000000000000000)) = ((18, 18, true), Err)
  /\ spec_addsub P0 D64 false (ODec 18 0 1) (ODec 18 18 (-500000000000000000)) = Ok 500000000000000000.
Proof. intros m. destruct m; vm_compute; auto. Qed.

(* SUM(decimal): exact or an error (i128 overflow) -- but a total of 39 digits (10^38 <= |t| < 2^127)
   is returned in a Decimal128(38,_) unvalidated *)
Lemma sum_dec_exact_or_error : forall parts,
  sum_dec_impl parts = Err \/ sum_dec_impl parts = Ok (if all_empty parts then None else Some (sum_exact parts)).
Proof.
  intros parts. destruct (sum_exact_or_error_never_wrong 128 parts ltac:(lia)) as [H|[_ H]]; [left|right]; exact H.
Qed.

Lemma sum_dec_exceeds_precision_refuted :
  sum_dec_impl [[10 ^ 38 - 1; 1]] = Ok (Some (10 ^ 38)) /\ sum_dec_spec P0 [[10 ^ 38 - 1; 1]] = Err /\
  sum_dec_impl [[10 ^ 38 - 1; 10 ^ 38 - 1]] = Err /\ sum_dec_spec P0 [[10 ^ 38 - 1; 10 ^ 38 - 1]] = Err.
Proof. vm_compute. auto. Qed.

(* AVG(decimal): the checked i128 accumulator gives the exact total or the error, in every profile
   (fixed by 2f7b0a8b9; the native `+=` panicked / wrapped on two Decimal128(38,_) maxima) *)
Lemma avg_dec_fold_from : forall (m : mode) xs s,
  let F := fun acc x => bind_out acc (fun t => arith_result Checked m Signed 128 (t + x)) in
  fold_left F xs (Ok s) = Ok (fold_left Z.add xs s) \/ fold_left F xs (Ok s) = Err.
Proof.
  intros m xs. induction xs as [|x xs IH]; intros s F; cbn [fold_left]; [left; reflexivity|].
  unfold F at 2 4. cbn [bind_out arith_result]. destruct (in_range Signed 128 (s + x)); [apply IH|].
  right. clear IH. induction xs as [|y ys IHy]; cbn [fold_left]; [reflexivity|].
  unfold F at 2. cbn [bind_out]. exact IHy.
Qed.

Lemma avg_dec_exact_or_error : forall m xs,
  avg_dec_acc m xs = Ok (fold_left Z.add xs 0) \/ avg_dec_acc m xs = Err.
Proof. intros m xs. exact (avg_dec_fold_from m xs 0). Qed.

Lemma avg_dec_overflow_is_error : forall m,
  avg_dec_acc m [10 ^ 38 - 1; 10 ^ 38 - 1] = Err /\
  avg_dec_acc m [10 ^ 38 - 1; 1] = Ok (10 ^ 38).
Proof. intros []; split; vm_compute; reflexivity. Qed.

(* ------------------------------------------------------------ round() on decimals *)
(* dec_round gives the nearest multiple, ties away from zero *)
Lemma dec_round_half_away : forall kd v k q, 0 < k -> dec_round kd v k = Ok q ->
  2 * Z.abs (q * 10 ^ k - v) <= 10 ^ k /\
  (2 * Z.abs (q * 10 ^ k - v) = 10 ^ k -> Z.abs v < Z.abs (q * 10 ^ k)).
Proof.
  intros kd v k q Hk Hr. unfold dec_round in Hr.
  destruct (checked kd (v + (if 0 <=? v then 10 ^ k / 2 else - (10 ^ k / 2)))) eqn:Hc; cbn [bind_out] in Hr; try discriminate.
  unfold checked in Hc. destruct (in_range _ _ _); [|discriminate]. injection Hc as <-. injection Hr as <-.
  assert (Hev : 10 ^ k = 2 * (10 ^ k / 2)).
  { replace k with (Z.succ (k - 1)) by lia. rewrite Z.pow_succ_r by lia.
    replace (10 * 10 ^ (k - 1)) with (5 * 10 ^ (k - 1) * 2) by lia. rewrite Z.div_mul by lia. lia. }
  pose proof (pow10_pos k ltac:(lia)) as Hpos.
  set (A := 10 ^ k) in *. set (h := A / 2) in *.
  destruct (0 <=? v) eqn:Hv.
  - apply Z.leb_le in Hv. rewrite Z.quot_div_nonneg by lia.
    pose proof (Z.div_mod (v + h) A ltac:(lia)) as Hd.
    pose proof (Z.mod_pos_bound (v + h) A ltac:(lia)) as Hm. nia.
  - apply Z.leb_gt in Hv.
    replace (v + - h) with (- (- v + h)) by lia. rewrite Z.quot_opp_l by lia.
    rewrite Z.quot_div_nonneg by lia.
    pose proof (Z.div_mod (- v + h) A ltac:(lia)) as Hd.
    pose proof (Z.mod_pos_bound (- v + h) A ltac:(lia)) as Hm. nia.
Qed.

Example dec_round_sat : dec_round D64 (-155) 1 = Ok (-16) /\ dec_round D64 (-155) 2 = Ok (-2) /\ dec_round D64 125 1 = Ok 13.
Proof. vm_compute. auto. Qed.

(* ------------------------------------------------------------ tie to the source constants *)
From GV Require Import gen.TablesArith.

Lemma src_params_ok : exists k64 k128,
  d64_max_precision = Some k64 /\ d128_max_precision = Some k128 /\
  forall pw dv rv, params_ok {| max64 := k64; max128 := k128; pow_i32 := pw; d2d_validates := dv; res_validates := rv |}.
Proof.
  eexists. eexists. split; [reflexivity|]. split; [reflexivity|]. intros pw dv rv.
  unfold params_ok. cbn [max64 max128]. repeat split; try lia; reflexivity.
Qed.

Lemma src_int_meta :
  int8_dec_precision = Some (int_meta_prec 8) /\ int16_dec_precision = Some (int_meta_prec 16) /\
  int32_dec_precision = Some (int_meta_prec 32) /\ int64_dec_precision = Some (int_meta_prec 64).
Proof. repeat split; reflexivity. Qed.

(* every signed integer of w bits has at most int_meta_prec w digits (so IntToDecimal's validation of
   the *unscaled* integer cannot fail for s' = 0) *)
Lemma int_meta_covers : forall w v, In w [8; 16; 32; 64] -> in_range Signed w v = true ->
  Z.abs v < 10 ^ int_meta_prec w.
Proof.
  intros w v Hw Hv. apply in_range_iff in Hv. cbn [In] in Hw.
  destruct Hw as [<-|[<-|[<-|[<-|[]]]]]; cbn [lo hi int_meta_prec Z.eqb] in *; cbn in Hv |- *; lia.
Qed.

Lemma src_dec_addsub_exact : exists k64 k128,
  d64_max_precision = Some k64 /\ d128_max_precision = Some k128 /\
  forall pw dv rv st m k sub p1 s1 a p2 s2 b p' s',
  let P := {| max64 := k64; max128 := k128; pow_i32 := pw; d2d_validates := dv; res_validates := rv |} in
  0 <= s1 <= p1 -> 0 <= s2 <= p2 -> Z.abs a < 10 ^ p1 -> Z.abs b < 10 ^ p2 ->
  add_sub_type P k p1 s1 p2 s2 = (p', s', false) ->
  dec_addsub P st m k sub (ODec p1 s1 a) (ODec p2 s2 b)
  = ((p', s', false), Ok (exact_addsub s' sub (ODec p1 s1 a) (ODec p2 s2 b)))
  /\ spec_addsub P k sub (ODec p1 s1 a) (ODec p2 s2 b) = Ok (exact_addsub s' sub (ODec p1 s1 a) (ODec p2 s2 b)).
Proof.
  destruct src_params_ok as (k64 & k128 & H64 & H128 & HP).
  exists k64, k128. split; [exact H64|]. split; [exact H128|].
  intros pw dv rv st m k sub p1 s1 a p2 s2 b p' s' P. apply dec_addsub_exact_when_not_clamped. exact (HP pw dv rv).
Qed.

Lemma src_dec_mul_exact : exists k64 k128,
  d64_max_precision = Some k64 /\ d128_max_precision = Some k128 /\
  forall pw dv rv st m k p1 s1 a p2 s2 b p' s',
  let P := {| max64 := k64; max128 := k128; pow_i32 := pw; d2d_validates := dv; res_validates := rv |} in
  0 <= p1 -> 0 <= p2 -> Z.abs a < 10 ^ p1 -> Z.abs b < 10 ^ p2 ->
  mul_type P k p1 s1 p2 s2 = Some (p', s', false) ->
  dec_mul P st m k (ODec p1 s1 a) (ODec p2 s2 b) = Some ((p', s', false), Ok (a * b))
  /\ spec_mul P k (ODec p1 s1 a) (ODec p2 s2 b) = Some (Ok (a * b)).
Proof.
  destruct src_params_ok as (k64 & k128 & H64 & H128 & HP).
  exists k64, k128. split; [exact H64|]. split; [exact H128|].
  intros pw dv rv st m k p1 s1 a p2 s2 b p' s' P. apply dec_mul_exact_when_not_clamped. exact (HP pw dv rv).
Qed.

(* the full-strength decimal theorems, about the source as scanned: the three facts they rest on are
   read from to_decimal.rs and arith/{add,sub,mul}.rs *)
Lemma src_dec_addsub_meets_spec : exists k64 k128,
  d64_max_precision = Some k64 /\ d128_max_precision = Some k128 /\
  decimal_to_decimal_validates = Some 1 /\ dec_add_validates = Some 1 /\ dec_sub_validates = Some 1 /\
  forall pw st m k sub p1 s1 a p2 s2 b ty r,
  let P := {| max64 := k64; max128 := k128; pow_i32 := pw; d2d_validates := true; res_validates := true |} in
  0 <= s1 <= p1 -> 0 <= s2 <= p2 -> Z.abs a < 10 ^ p1 -> Z.abs b < 10 ^ p2 ->
  dec_addsub P st m k sub (ODec p1 s1 a) (ODec p2 s2 b) = (ty, r) ->
  r = spec_addsub P k sub (ODec p1 s1 a) (ODec p2 s2 b) \/ (r = Err /\ snd ty = true).
Proof.
  destruct src_params_ok as (k64 & k128 & H64 & H128 & HP).
  exists k64, k128. repeat (split; [first [exact H64|exact H128|reflexivity]|]).
  intros pw st m k sub p1 s1 a p2 s2 b ty r P. apply dec_addsub_meets_spec_or_cast_error; try reflexivity.
  exact (HP pw true true).
Qed.

Lemma src_dec_mul_meets_spec : exists k64 k128,
  d64_max_precision = Some k64 /\ d128_max_precision = Some k128 /\ dec_mul_validates = Some 1 /\
  forall pw dv st m k p1 s1 a p2 s2 b ty r,
  let P := {| max64 := k64; max128 := k128; pow_i32 := pw; d2d_validates := dv; res_validates := true |} in
  0 <= p1 -> 0 <= p2 ->
  dec_mul P st m k (ODec p1 s1 a) (ODec p2 s2 b) = Some (ty, r) ->
  spec_mul P k (ODec p1 s1 a) (ODec p2 s2 b) = Some r.
Proof.
  destruct src_params_ok as (k64 & k128 & H64 & H128 & HP).
  exists k64, k128. repeat (split; [first [exact H64|exact H128|reflexivity]|]).
  intros pw dv st m k p1 s1 a p2 s2 b ty r P. apply dec_mul_meets_spec; try reflexivity.
  exact (HP pw dv true).
Qed.

(* P0, the parameters of the witness lemmas, is the variant the current source has *)
Lemma src_P0 : d64_max_precision = Some (max64 P0) /\ d128_max_precision = Some (max128 P0) /\
  int_to_decimal_pow_i32 = Some (if pow_i32 P0 then 1 else 0) /\
  decimal_to_decimal_validates = Some (if d2d_validates P0 then 1 else 0) /\
  dec_add_validates = Some (if res_validates P0 then 1 else 0).
Proof. repeat split; reflexivity. Qed.

(* sum.rs fails on overflow (the scanner finds no `unwrap_or_default` after checked_add) *)
Lemma src_sum_fails_on_overflow : sum_resets_on_overflow = Some 0.
Proof. reflexivity. Qed.

(* ------------------------------------------------------------ integers: the current source is the Checked style *)
Lemma src_never_wraps_never_panics :
  add_native = Some 0 /\ sub_native = Some 0 /\ mul_native = Some 0 /\ div_native = Some 0 /\ rem_native = Some 0 /\
  rem_checked_min_neg1_is_zero = Some 1 /\
  forall m sg w op a b, 0 < w -> in_range sg w a = true -> in_range sg w b = true ->
  impl_bin Checked m sg w op a b = spec_bin sg w op a b.
Proof. repeat (split; [reflexivity|]). exact checked_style_meets_spec. Qed.

Lemma src_neg_never_wraps_never_panics :
  neg_native = Some 0 /\ forall m w a, impl_neg Checked m w a = spec_neg w a.
Proof. split; [reflexivity|exact checked_neg_meets_spec]. Qed.
