(* Proofs about the text -> DECIMAL parser and the DECIMAL formatter of model/TextConv.v
   (DecimalParser::parse after 7b11b6c5d, DecimalFormatter::write). *)
From Coq Require Import NArith ZArith List Bool Lia ZifyBool ZifyN.
From GV Require Import model.Cast model.Calendar model.TextConv proofs.TextConvProofs proofs.CastProofs.
Import ListNotations.
Open Scope Z_scope.
Ltac Zify.zify_post_hook ::= Z.div_mod_to_equations.

(* std_dty (d = D64 \/ d = D128) comes from proofs/CastProofs.v; nothing else of that file is used *)

(* ---------- the parser, cut into named pieces (convertible with the model) ---------- *)
Definition sign_split (bs : list N) : bool * list N :=
  match bs with
  | b :: r => if (b =? 45)%N then (true, r) else if (b =? 43)%N then (false, r) else (false, bs)
  | [] => (false, bs)
  end.

Definition rescale (t : ity) (scale val decimals : Z) (round_up : bool) : outcome (Z * bool) :=
  if scale <? 0 then
    obind (checked_pow t 10 (Z.abs scale)) (fun div =>
    if div =? 0 then Panic
    else
      obind (checked t (Z.rem val div * 2)) (fun r2 =>
      Ok (Z.quot val div, div <=? r2)))
  else if decimals <? scale then
    obind (checked_pow t 10 (scale - decimals)) (fun mul =>
    obind (checked t (val * mul)) (fun v => Ok (v, round_up)))
  else Ok (val, round_up).

Definition finish (oc : bool) (t : ity) (precision : Z) (neg : bool) (x : Z * bool) : outcome Z :=
  let '(val, round_up) := x in
  obind (if round_up then checked t (val + 1) else Ok val) (fun val =>
  if (match checked_pow t 10 precision with Ok limit => limit <=? val | _ => false end) then Err
  else if neg then unchecked oc t (0 - val) else Ok val).

Definition parse_tail (oc : bool) (t : ity) (precision scale : Z) (neg : bool) (x : Z * Z * bool * bool) : outcome Z :=
  let '(val, decimals, seen, round_up) := x in
  if negb seen then Err
  else obind (rescale t scale val decimals round_up) (finish oc t precision neg).

Definition parse_body (oc : bool) (t : ity) (precision scale : Z) (neg : bool) (body : list N) : outcome Z :=
  obind (dec_lead t 0 false body) (fun '(val, seen, rest) =>
  obind (match rest with
         | Some r => dec_frac t scale val 0 seen false false r
         | None => Ok (val, 0, seen, false)
         end) (parse_tail oc t precision scale neg)).

Lemma parse_decimal_unfold oc d p s bs :
  parse_decimal oc d p s bs = parse_body oc (d_prim d) p s (fst (sign_split bs)) (snd (sign_split bs)).
Proof.
  unfold parse_decimal, parse_body, sign_split. destruct bs as [|b r]; [reflexivity|].
  destruct (b =? 45)%N; [reflexivity|]. destruct (b =? 43)%N; reflexivity.
Qed.

(* ---------- the integer type: signed two's complement ---------- *)
Definition sty (t : ity) : Prop := imin t = - imax t - 1 /\ 0 <= imax t.

Lemma std_sty d : std_dty d -> sty (d_prim d) /\ 10 ^ d_maxp d <= imax (d_prim d).
Proof. intros [-> | ->]; vm_compute; repeat split; discriminate. Qed.

Lemma checked_in t v : imin t <= v <= imax t -> checked t v = Ok v.
Proof. intros H. unfold checked. rewrite in_range_intro by exact H. reflexivity. Qed.

Lemma checked_cases t v : (checked t v = Ok v /\ imin t <= v <= imax t) \/ (checked t v = Err /\ ~ (imin t <= v <= imax t)).
Proof. unfold checked, in_range. destruct ((imin t <=? v) && (v <=? imax t)) eqn:E; [left|right]; split; try reflexivity; lia. Qed.

Lemma push_digit_eval t val b : imin t <= 0 -> 0 <= val -> is_digit b = true ->
  push_digit t val b = if val * 10 + digit_val b <=? imax t then Ok (val * 10 + digit_val b) else Err.
Proof.
  intros Hlo Hv Hb. pose proof (is_digit_val b Hb) as Hd. unfold push_digit.
  destruct (val * 10 + digit_val b <=? imax t) eqn:E.
  - rewrite (checked_in t (val * 10)) by lia. cbn [obind]. apply checked_in. lia.
  - destruct (checked_cases t (val * 10)) as [[-> Hr] | [-> Hr]]; cbn [obind]; [|reflexivity].
    destruct (checked_cases t (val * 10 + digit_val b)) as [[-> Hr'] | [-> Hr']]; [lia|reflexivity].
Qed.

(* ---------- 1. the parser never panics ---------- *)
Definition ok_nonneg {A} (t : ity) (proj : A -> Z) (o : outcome A) : Prop :=
  match o with Ok a => 0 <= proj a <= imax t | Err => True | Panic => False end.

Lemma push_digit_inv t val b : imin t <= 0 -> 0 <= val -> is_digit b = true ->
  ok_nonneg t (fun v => v) (push_digit t val b).
Proof.
  intros Hlo Hv Hb. rewrite push_digit_eval by assumption. pose proof (is_digit_val b Hb) as Hd.
  destruct (val * 10 + digit_val b <=? imax t) eqn:E; cbn [ok_nonneg]; [lia|exact I].
Qed.

Lemma dec_lead_inv t : imin t <= 0 -> forall bs val seen, 0 <= val <= imax t ->
  ok_nonneg t (fun x => fst (fst x)) (dec_lead t val seen bs).
Proof.
  intros Hlo. induction bs as [|b r IH]; intros val seen Hv; [cbn [dec_lead ok_nonneg fst]; lia|].
  cbn [dec_lead]. destruct (is_digit b) eqn:Hb.
  - pose proof (push_digit_inv t val b Hlo ltac:(lia) Hb) as Hp.
    destruct (push_digit t val b) as [v| |]; cbn [obind ok_nonneg] in *; [apply IH; exact Hp|exact I|exact Hp].
  - destruct (b =? 46)%N; cbn [ok_nonneg fst]; [lia|exact I].
Qed.

Lemma dec_frac_inv t s : imin t <= 0 -> forall bs val dec seen ru sd, 0 <= val <= imax t ->
  ok_nonneg t (fun x => fst (fst (fst x))) (dec_frac t s val dec seen ru sd bs).
Proof.
  intros Hlo. induction bs as [|b r IH]; intros val dec seen ru sd Hv; [cbn [dec_frac ok_nonneg fst]; lia|].
  cbn [dec_frac]. destruct (is_digit b) eqn:Hb; [|exact I].
  destruct ((s <=? 0) || (dec =? s)).
  - destruct sd; apply IH; exact Hv.
  - pose proof (push_digit_inv t val b Hlo ltac:(lia) Hb) as Hp.
    destruct (push_digit t val b) as [v| |]; cbn [obind ok_nonneg] in *; [apply IH; exact Hp|exact I|exact Hp].
Qed.

Lemma finish_nopanic oc t p neg v ru : sty t -> 0 <= v <= imax t -> finish oc t p neg (v, ru) <> Panic.
Proof.
  intros [Hs Hm] Hv. unfold finish.
  assert (Hw : exists w, (if ru then checked t (v + 1) else Ok v) = Ok w /\ 0 <= w <= imax t
               \/ (if ru then checked t (v + 1) else Ok v) = Err).
  { destruct ru; [|exists v; left; split; [reflexivity|lia]].
    destruct (checked_cases t (v + 1)) as [[E Hr] | [E Hr]]; exists (v + 1); [left; split; [exact E|lia]|right; exact E]. }
  destruct Hw as [w [[-> Hw] | ->]]; cbn [obind]; [|discriminate].
  destruct (match checked_pow t 10 p with Ok limit => limit <=? w | _ => false end); [discriminate|].
  destruct neg; [|discriminate]. unfold unchecked. rewrite in_range_intro by lia. discriminate.
Qed.

Lemma rescale_inv t s val dec ru : imin t <= 0 -> 0 <= val <= imax t ->
  ok_nonneg t fst (rescale t s val dec ru).
Proof.
  intros Hlo Hv. unfold rescale. destruct (s <? 0) eqn:Es.
  - unfold checked_pow. assert (Hp : 0 < 10 ^ Z.abs s) by (apply Z.pow_pos_nonneg; lia).
    destruct (checked_cases t (10 ^ Z.abs s)) as [[-> Hr] | [-> Hr]]; cbn [obind ok_nonneg]; [|exact I].
    replace (10 ^ Z.abs s =? 0) with false by lia.
    destruct (checked_cases t (Z.rem val (10 ^ Z.abs s) * 2)) as [[-> Hr'] | [-> Hr']]; cbn [obind ok_nonneg fst]; [|exact I].
    rewrite Z.quot_div_nonneg by lia. split; [apply Z.div_pos; lia|].
    apply Z.le_trans with val; [|lia]. apply Z.div_le_upper_bound; [lia|]. nia.
  - destruct (dec <? s) eqn:Ed; [|cbn [ok_nonneg fst]; lia].
    unfold checked_pow. pose proof (Z.pow_nonneg 10 (s - dec) ltac:(lia)) as Hp.
    destruct (checked_cases t (10 ^ (s - dec))) as [[-> Hr] | [-> Hr]]; cbn [obind ok_nonneg]; [|exact I].
    destruct (checked_cases t (val * 10 ^ (s - dec))) as [[-> Hr'] | [-> Hr']]; cbn [obind ok_nonneg fst]; [|exact I].
    split; [nia|lia].
Qed.

Lemma parse_tail_nopanic oc t p s neg val dec seen ru : sty t -> 0 <= val <= imax t ->
  parse_tail oc t p s neg (val, dec, seen, ru) <> Panic.
Proof.
  intros Hs Hv. unfold parse_tail. destruct (negb seen); [discriminate|].
  assert (Hlo : imin t <= 0) by (destruct Hs; lia).
  pose proof (rescale_inv t s val dec ru Hlo Hv) as Hr.
  destruct (rescale t s val dec ru) as [[v ru']| |]; cbn [obind ok_nonneg fst] in *; [|discriminate|destruct Hr].
  apply finish_nopanic; assumption.
Qed.

Lemma parse_body_nopanic oc t p s neg body : sty t -> parse_body oc t p s neg body <> Panic.
Proof.
  intros Hs. assert (Hlo : imin t <= 0) by (destruct Hs; lia). assert (Hm : 0 <= imax t) by (destruct Hs; lia).
  unfold parse_body.
  pose proof (dec_lead_inv t Hlo body 0 false ltac:(lia)) as Hl.
  destruct (dec_lead t 0 false body) as [[[val seen] rest]| |]; cbn [obind ok_nonneg fst] in *; [|discriminate|destruct Hl].
  destruct rest as [r|].
  - pose proof (dec_frac_inv t s Hlo r val 0 seen false false Hl) as Hf.
    destruct (dec_frac t s val 0 seen false false r) as [[[[v dc] sn] ru]| |]; cbn [obind ok_nonneg fst] in *; [|discriminate|destruct Hf].
    apply parse_tail_nopanic; assumption.
  - cbn [obind]. apply parse_tail_nopanic; assumption.
Qed.

Theorem parse_decimal_never_panics : forall oc d p s bs, std_dty d -> parse_decimal oc d p s bs <> Panic.
Proof.
  intros oc d p s bs Hd. rewrite parse_decimal_unfold. apply parse_body_nopanic. apply std_sty. exact Hd.
Qed.

(* ---------- 2. only well-formed text is accepted ---------- *)
Definition ptail (fpo : option (list N)) : list N := match fpo with Some r => 46%N :: r | None => [] end.
Definition fpl (fpo : option (list N)) : list N := match fpo with Some r => r | None => [] end.
Definition nonempty (l : list N) : bool := negb (length l =? 0)%nat.

Lemma dec_lead_ok_shape t : forall bs val seen v seen' rest,
  dec_lead t val seen bs = Ok (v, seen', rest) ->
  exists ip, forallb is_digit ip = true /\ bs = ip ++ ptail rest /\ seen' = seen || nonempty ip.
Proof.
  induction bs as [|b r IH]; intros val seen v seen' rest H.
  - cbn [dec_lead] in H. injection H as _ <- <-. exists []. rewrite orb_false_r. auto.
  - cbn [dec_lead] in H. destruct (is_digit b) eqn:Hb.
    + destruct (push_digit t val b) as [v1| |]; cbn [obind] in H; try discriminate.
      destruct (IH _ _ _ _ _ H) as [ip [H1 [H2 H3]]]. exists (b :: ip). repeat split.
      * cbn [forallb]. rewrite Hb, H1. reflexivity.
      * rewrite H2. reflexivity.
      * rewrite H3. unfold nonempty at 2. cbn [length Nat.eqb negb]. rewrite orb_true_r. reflexivity.
    + destruct (b =? 46)%N eqn:E; [|discriminate]. apply N.eqb_eq in E. subst b.
      injection H as _ <- <-. exists []. rewrite orb_false_r. auto.
Qed.

Lemma dec_frac_ok_shape t s : forall bs val dec seen ru sd v dec' seen' ru',
  dec_frac t s val dec seen ru sd bs = Ok (v, dec', seen', ru') ->
  forallb is_digit bs = true /\ seen' = seen || nonempty bs.
Proof.
  induction bs as [|b r IH]; intros val dec seen ru sd v dec' seen' ru' H.
  - cbn [dec_frac] in H. injection H as _ _ <- _. rewrite orb_false_r. auto.
  - cbn [dec_frac] in H. destruct (is_digit b) eqn:Hb; [|discriminate].
    assert (Hgoal : forall x, forallb is_digit r = true /\ seen' = true || x ->
                      forallb is_digit (b :: r) = true /\ seen' = seen || nonempty (b :: r)).
    { intros x [H1 H2]. cbn [forallb]. rewrite Hb, H1. split; [reflexivity|].
      unfold nonempty. cbn [length Nat.eqb negb]. rewrite orb_true_r. exact H2. }
    destruct ((s <=? 0) || (dec =? s)).
    + destruct sd; eapply Hgoal, IH, H.
    + destruct (push_digit t val b) as [v1| |]; cbn [obind] in H; try discriminate.
      eapply Hgoal, IH, H.
Qed.

Lemma wf_unfold bs :
  wellformed_decimal bs =
  all_digits_or_one_point false (snd (sign_split bs)) && negb (count_digits (snd (sign_split bs)) =? 0)%nat.
Proof.
  destruct bs as [|b r]; [reflexivity|]. unfold wellformed_decimal, sign_split.
  destruct (b =? 45)%N, (b =? 43)%N; reflexivity.
Qed.

Lemma is_digit_46 : is_digit 46 = false.
Proof. reflexivity. Qed.

Lemma adop_true_digits l : all_digits_or_one_point true l = forallb is_digit l.
Proof.
  induction l as [|b r IH]; [reflexivity|]. cbn [all_digits_or_one_point forallb].
  destruct (is_digit b); [exact IH|]. cbn [negb]. rewrite andb_false_r. reflexivity.
Qed.

Lemma adop_digits_app ip tl : forallb is_digit ip = true ->
  all_digits_or_one_point false (ip ++ tl) = all_digits_or_one_point false tl.
Proof.
  induction ip as [|b r IH]; intros H; [reflexivity|]. cbn [forallb] in H. apply andb_true_iff in H.
  destruct H as [Hb Hr]. cbn [app all_digits_or_one_point]. rewrite Hb. apply IH, Hr.
Qed.

Lemma adop_ptail fpo : all_digits_or_one_point false (ptail fpo) = forallb is_digit (fpl fpo).
Proof.
  destruct fpo as [r|]; [|reflexivity]. cbn [ptail fpl all_digits_or_one_point]. rewrite is_digit_46.
  change ((46 =? 46)%N && negb false) with true. cbn iota. apply adop_true_digits.
Qed.

Lemma count_digits_app l1 l2 : count_digits (l1 ++ l2) = (count_digits l1 + count_digits l2)%nat.
Proof.
  induction l1 as [|b r IH]; [reflexivity|]. cbn [app count_digits]. destruct (is_digit b); rewrite IH; reflexivity.
Qed.

Lemma count_digits_all l : forallb is_digit l = true -> count_digits l = length l.
Proof.
  induction l as [|b r IH]; intros H; [reflexivity|]. cbn [forallb] in H. apply andb_true_iff in H.
  destruct H as [Hb Hr]. cbn [count_digits length]. rewrite Hb, IH by exact Hr. reflexivity.
Qed.

Lemma count_digits_ptail fpo : count_digits (ptail fpo) = count_digits (fpl fpo).
Proof. destruct fpo as [r|]; [|reflexivity]. cbn [ptail fpl count_digits]. rewrite is_digit_46. reflexivity. Qed.

(* a body of the shape digits [ '.' digits ] with at least one digit is well formed *)
Lemma shape_wf ip fpo : forallb is_digit ip = true -> forallb is_digit (fpl fpo) = true ->
  nonempty ip || nonempty (fpl fpo) = true ->
  all_digits_or_one_point false (ip ++ ptail fpo) && negb (count_digits (ip ++ ptail fpo) =? 0)%nat = true.
Proof.
  intros Hi Hf Hn. rewrite adop_digits_app, adop_ptail, Hf by exact Hi. cbn [andb].
  rewrite count_digits_app, count_digits_ptail, !count_digits_all by assumption.
  unfold nonempty in Hn. lia.
Qed.

Lemma parse_body_ok_wf oc t p s neg body v : parse_body oc t p s neg body = Ok v ->
  all_digits_or_one_point false body && negb (count_digits body =? 0)%nat = true.
Proof.
  intros H. unfold parse_body in H.
  destruct (dec_lead t 0 false body) as [[[val seen] rest]| |] eqn:El; cbn [obind] in H; try discriminate.
  destruct (dec_lead_ok_shape _ _ _ _ _ _ _ El) as [ip [Hi [Hb Hs]]]. cbn [orb] in Hs.
  destruct rest as [r|].
  - destruct (dec_frac t s val 0 seen false false r) as [[[[v1 dc] sn] ru]| |] eqn:Ef; cbn [obind] in H; try discriminate.
    destruct (dec_frac_ok_shape _ _ _ _ _ _ _ _ _ _ _ _ Ef) as [Hf Hs'].
    unfold parse_tail in H. destruct sn; cbn [negb] in H; [|discriminate].
    rewrite Hb. apply (shape_wf ip (Some r)); [exact Hi|exact Hf|]. cbn [fpl]. rewrite <- Hs. auto.
  - cbn [obind] in H. unfold parse_tail in H. destruct seen; cbn [negb] in H; [|discriminate].
    rewrite Hb. apply (shape_wf ip None); [exact Hi|reflexivity|]. rewrite <- Hs. reflexivity.
Qed.

Theorem parse_decimal_rejects_garbage : forall oc d p s bs v,
  parse_decimal oc d p s bs = Ok v -> wellformed_decimal bs = true.
Proof.
  intros oc d p s bs v H. rewrite parse_decimal_unfold in H. rewrite wf_unfold. eapply parse_body_ok_wf, H.
Qed.

(* conversely a well-formed body has that shape, and split_point finds it *)
Lemma wf_body_shape : forall body, all_digits_or_one_point false body = true ->
  exists ip fpo, split_point body = (ip, fpo) /\ body = ip ++ ptail fpo
                 /\ forallb is_digit ip = true /\ forallb is_digit (fpl fpo) = true.
Proof.
  induction body as [|b r IH]; intros H.
  - exists [], None. auto.
  - cbn [all_digits_or_one_point] in H. destruct (is_digit b) eqn:Hb.
    + destruct (IH H) as [ip [fpo [H1 [H2 [H3 H4]]]]]. exists (b :: ip), fpo. repeat split.
      * cbn [split_point]. replace (b =? 46)%N with false by (unfold is_digit in Hb; lia). rewrite H1. reflexivity.
      * rewrite H2 at 1. reflexivity.
      * cbn [forallb]. rewrite Hb, H3. reflexivity.
      * exact H4.
    + destruct (b =? 46)%N eqn:E; cbn [andb negb] in H; [|discriminate]. apply N.eqb_eq in E. subst b.
      exists [], (Some r). rewrite adop_true_digits in H. repeat split; auto.
Qed.

(* ---------- 3. the parser computes the specified value ---------- *)
(* digit strings *)
Lemma dval_nil a : dval a [] = a.
Proof. reflexivity. Qed.
Lemma dval_cons a b r : dval a (b :: r) = dval (a * 10 + digit_val b) r.
Proof. reflexivity. Qed.

Lemma dval_shift : forall l a, dval a l = a * 10 ^ Z.of_nat (length l) + dval 0 l.
Proof.
  induction l as [|b r IH]; intros a.
  - rewrite !dval_nil. cbn [length Z.of_nat]. rewrite Z.pow_0_r. lia.
  - rewrite !dval_cons. rewrite (IH (a * 10 + digit_val b)), (IH (0 * 10 + digit_val b)).
    cbn [length]. rewrite Nat2Z.inj_succ, Z.pow_succ_r by lia. ring.
Qed.

Lemma dval_bound : forall l, forallb is_digit l = true -> 0 <= dval 0 l < 10 ^ Z.of_nat (length l).
Proof.
  induction l as [|b r IH]; intros H.
  - rewrite dval_nil. cbn [length Z.of_nat]. rewrite Z.pow_0_r. lia.
  - cbn [forallb] in H. apply andb_true_iff in H. destruct H as [Hb Hr]. specialize (IH Hr).
    pose proof (is_digit_val b Hb) as Hd.
    rewrite dval_cons, dval_shift. cbn [length]. rewrite Nat2Z.inj_succ, Z.pow_succ_r by lia.
    remember (10 ^ Z.of_nat (length r)) as P. nia.
Qed.

(* the first dropped digit decides: 2 * tail >= 10^len  iff  that digit is >= '5' *)
Lemma half_digit b r : forallb is_digit (b :: r) = true ->
  (10 ^ Z.of_nat (length (b :: r)) <=? 2 * dval 0 (b :: r)) = (53 <=? b)%N.
Proof.
  intros H. cbn [forallb] in H. apply andb_true_iff in H. destruct H as [Hb Hr].
  pose proof (dval_bound r Hr) as Hx. pose proof (is_digit_val b Hb) as Hd.
  rewrite dval_cons, dval_shift. cbn [length]. rewrite Nat2Z.inj_succ, Z.pow_succ_r by lia.
  remember (10 ^ Z.of_nat (length r)) as P. unfold digit_val in *.
  destruct (53 <=? b)%N eqn:E.
  - assert (5 * P <= (0 * 10 + (Z.of_N b - 48)) * P) by nia. lia.
  - assert ((0 * 10 + (Z.of_N b - 48)) * P <= 4 * P) by nia. lia.
Qed.

Lemma forallb_firstn (f : N -> bool) : forall k l, forallb f l = true -> forallb f (firstn k l) = true.
Proof.
  induction k as [|k IH]; intros l H; [reflexivity|]. destruct l as [|b r]; [reflexivity|].
  cbn [forallb] in H. apply andb_true_iff in H. destruct H as [Hb Hr].
  cbn [firstn forallb]. rewrite Hb, IH by exact Hr. reflexivity.
Qed.

Lemma forallb_skipn (f : N -> bool) : forall k l, forallb f l = true -> forallb f (skipn k l) = true.
Proof.
  induction k as [|k IH]; intros l H; [exact H|]. destruct l as [|b r]; [reflexivity|].
  cbn [forallb] in H. apply andb_true_iff in H. destruct H as [Hb Hr]. cbn [skipn]. apply IH, Hr.
Qed.

Lemma pow10_ge1 k : 0 <= k -> 1 <= 10 ^ k.
Proof. intros H. assert (0 < 10 ^ k) by (apply Z.pow_pos_nonneg; lia). lia. Qed.

(* rounding division *)
Lemma rha_exact K b : 0 <= K -> 0 < b -> rha_div (K * b) b = K.
Proof.
  intros HK Hb. unfold rha_div. assert (Hm : 0 <= K * b) by nia.
  rewrite Z.abs_eq by exact Hm.
  replace (2 * (K * b) + b) with (K * (2 * b) + b) by ring.
  rewrite Z.div_add_l by lia. rewrite (Z.div_small b (2 * b)) by lia.
  destruct (Z.eq_dec K 0) as [->|Hn]; [reflexivity|].
  rewrite Z.sgn_pos by nia. lia.
Qed.

Lemma rha_round A M T c : 0 <= A -> 0 < M -> 0 <= T < M -> 0 < c ->
  rha_div ((A * M + T) * c) (c * M) = A + (if M <=? 2 * T then 1 else 0).
Proof.
  intros HA HM HT Hc. unfold rha_div. assert (Hm : 0 <= (A * M + T) * c) by nia.
  rewrite Z.abs_eq by exact Hm.
  replace (2 * ((A * M + T) * c) + c * M) with ((A * (2 * M) + (2 * T + M)) * c) by ring.
  replace (2 * (c * M)) with ((2 * M) * c) by ring.
  rewrite Z.div_mul_cancel_r by lia. rewrite Z.div_add_l by lia.
  assert (Hq : (2 * T + M) / (2 * M) = if M <=? 2 * T then 1 else 0).
  { destruct (M <=? 2 * T) eqn:E.
    - symmetry. apply (Z.div_unique _ _ 1 (2 * T - M)); lia.
    - apply Z.div_small. lia. }
  rewrite Hq.
  destruct (Z.eq_dec ((A * M + T) * c) 0) as [E0|Hn].
  - assert (A * M + T = 0) by nia. assert (A = 0) by nia. assert (T = 0) by nia. subst A T.
    rewrite E0. replace (M <=? 2 * 0) with false by lia. reflexivity.
  - rewrite Z.sgn_pos by lia. lia.
Qed.

(* value demanded by the specification, in the two regimes *)
Lemma spec_value ip fp s : forallb is_digit ip = true -> forallb is_digit fp = true -> 0 <= s ->
  let k := Z.to_nat s in
  let A := dval 0 (ip ++ firstn k fp) in
  let D := rha_div (dval 0 (ip ++ fp) * 10 ^ s) (10 ^ Z.of_nat (length fp)) in
  dval 0 ip <= A /\ A <= D /\
  (Z.of_nat (length fp) <= s -> firstn k fp = fp /\ skipn k fp = [] /\ D = A * 10 ^ (s - Z.of_nat (length fp))) /\
  (s < Z.of_nat (length fp) ->
     Z.of_nat (length (firstn k fp)) = s /\
     exists b r, skipn k fp = b :: r /\ D = A + (if (53 <=? b)%N then 1 else 0)).
Proof.
  intros Hi Hf Hs k A D.
  assert (HiA : dval 0 ip <= A).
  { unfold A. rewrite dval_app. apply dval_ge; [apply dval_bound, Hi|apply forallb_firstn, Hf]. }
  assert (HA0 : 0 <= A) by (pose proof (dval_bound ip Hi); lia).
  assert (Hcases : (Z.of_nat (length fp) <= s -> firstn k fp = fp /\ skipn k fp = [] /\ D = A * 10 ^ (s - Z.of_nat (length fp))) /\
  (s < Z.of_nat (length fp) ->
     Z.of_nat (length (firstn k fp)) = s /\
     exists b r, skipn k fp = b :: r /\ D = A + (if (53 <=? b)%N then 1 else 0))).
  { split; intros Hn.
    - assert (H1 : firstn k fp = fp) by (apply firstn_all2; lia).
      assert (H2 : skipn k fp = []) by (apply skipn_all2; lia).
      split; [exact H1|]. split; [exact H2|]. unfold D, A. rewrite H1.
      replace (10 ^ s) with (10 ^ (s - Z.of_nat (length fp)) * 10 ^ Z.of_nat (length fp))
        by (rewrite <- Z.pow_add_r by lia; f_equal; lia).
      rewrite Z.mul_assoc. apply rha_exact.
      + assert (0 <= 10 ^ (s - Z.of_nat (length fp))) by (apply Z.pow_nonneg; lia).
        pose proof (dval_bound (ip ++ fp)) as Hb. rewrite forallb_app, Hi, Hf in Hb. specialize (Hb eq_refl). nia.
      + apply Z.pow_pos_nonneg; lia.
    - assert (Hlen : length (firstn k fp) = k) by (apply firstn_length_le; lia).
      split; [lia|].
      pose proof (firstn_skipn k fp) as Hsplit.
      pose proof (skipn_length k fp) as Hsl.
      destruct (skipn k fp) as [|b r] eqn:Esk; [cbn [length] in Hsl; lia|].
      exists b, r. split; [reflexivity|].
      assert (Hdr : forallb is_digit (b :: r) = true) by (rewrite <- Esk; apply forallb_skipn, Hf).
      unfold D. rewrite <- Hsplit at 1. rewrite app_assoc, dval_app. fold A.
      rewrite (dval_shift (b :: r) A).
      replace (10 ^ Z.of_nat (length fp)) with (10 ^ s * 10 ^ Z.of_nat (length (b :: r)))
        by (rewrite <- Z.pow_add_r by lia; f_equal; lia).
      pose proof (dval_bound (b :: r) Hdr) as Hb.
      rewrite rha_round; try lia; try (apply Z.pow_pos_nonneg; lia).
      rewrite half_digit by exact Hdr. reflexivity. }
  split; [exact HiA|]. split; [|exact Hcases].
  destruct Hcases as [H1 H2]. destruct (Z_le_gt_dec (Z.of_nat (length fp)) s) as [Hn|Hn].
  - destruct (H1 Hn) as [_ [_ ->]]. assert (1 <= 10 ^ (s - Z.of_nat (length fp))) by (apply pow10_ge1; lia). nia.
  - destruct (H2 ltac:(lia)) as [_ [b [r [_ ->]]]]. destruct (53 <=? b)%N; lia.
Qed.

(* evaluation of the two loops on digit strings *)
Lemma dec_lead_eval t : imin t <= 0 -> forall ip rest val seen, forallb is_digit ip = true -> 0 <= val <= imax t ->
  dec_lead t val seen (ip ++ rest) =
  if dval val ip <=? imax t then dec_lead t (dval val ip) (seen || nonempty ip) rest else Err.
Proof.
  intros Hlo. induction ip as [|b r IH]; intros rest val seen Hd Hv.
  - rewrite dval_nil. replace (val <=? imax t) with true by lia. rewrite orb_false_r. reflexivity.
  - cbn [forallb] in Hd. apply andb_true_iff in Hd. destruct Hd as [Hb Hr]. pose proof (is_digit_val b Hb) as Hdv.
    cbn [app dec_lead]. rewrite Hb, push_digit_eval by (assumption || lia). rewrite dval_cons.
    destruct (val * 10 + digit_val b <=? imax t) eqn:E; cbn [obind].
    + rewrite IH by (assumption || lia). unfold nonempty at 2. cbn [length Nat.eqb negb orb]. rewrite orb_true_r. reflexivity.
    + pose proof (dval_ge r (val * 10 + digit_val b) ltac:(lia) Hr) as Hge.
      replace (dval (val * 10 + digit_val b) r <=? imax t) with false by lia. reflexivity.
Qed.

Lemma dec_lead_ptail t val seen fpo :
  dec_lead t val seen (ptail fpo) = Ok (val, seen, fpo).
Proof. destruct fpo as [r|]; reflexivity. Qed.

Lemma dec_frac_eval t s : imin t <= 0 -> 0 <= s -> forall fp val dec seen ru sd,
  forallb is_digit fp = true -> 0 <= val <= imax t -> 0 <= dec <= s -> (sd = true -> dec = s) ->
  dec_frac t s val dec seen ru sd fp =
  if dval val (firstn (Z.to_nat (s - dec)) fp) <=? imax t then
    Ok (dval val (firstn (Z.to_nat (s - dec)) fp), dec + Z.of_nat (length (firstn (Z.to_nat (s - dec)) fp)),
        seen || nonempty fp,
        if sd then ru else match skipn (Z.to_nat (s - dec)) fp with [] => ru | b :: _ => (53 <=? b)%N end)
  else Err.
Proof.
  intros Hlo Hs. induction fp as [|b r IH]; intros val dec seen ru sd Hd Hv Hdec Hsd.
  - rewrite firstn_nil, skipn_nil, dval_nil. replace (val <=? imax t) with true by lia.
    cbn [dec_frac length Z.of_nat]. rewrite Z.add_0_r, orb_false_r. destruct sd; reflexivity.
  - cbn [forallb] in Hd. apply andb_true_iff in Hd. destruct Hd as [Hb Hr]. pose proof (is_digit_val b Hb) as Hdv.
    cbn [dec_frac]. rewrite Hb.
    assert (Hne : forall x, x || nonempty (b :: r) = true).
    { intros x. unfold nonempty. cbn [length Nat.eqb negb]. apply orb_true_r. }
    rewrite Hne.
    destruct (Z.eq_dec dec s) as [He|He].
    + replace ((s <=? 0) || (dec =? s)) with true by lia.
      replace (Z.to_nat (s - dec)) with 0%nat by lia. cbn [firstn skipn length Z.of_nat]. rewrite dval_nil.
      destruct sd.
      * rewrite IH by (assumption || lia || auto). replace (Z.to_nat (s - dec)) with 0%nat by lia.
        cbn [firstn length Z.of_nat orb]. rewrite dval_nil. reflexivity.
      * rewrite IH by (assumption || lia || auto). replace (Z.to_nat (s - dec)) with 0%nat by lia.
        cbn [firstn length Z.of_nat orb]. rewrite dval_nil. reflexivity.
    + replace ((s <=? 0) || (dec =? s)) with false by lia.
      assert (sd = false) by (destruct sd; [specialize (Hsd eq_refl); lia|reflexivity]). subst sd.
      replace (Z.to_nat (s - dec)) with (S (Z.to_nat (s - (dec + 1)))) by lia.
      cbn [firstn skipn length]. rewrite dval_cons, push_digit_eval by (assumption || lia).
      destruct (val * 10 + digit_val b <=? imax t) eqn:E; cbn [obind].
      * rewrite IH by (assumption || lia || discriminate).
        destruct (dval (val * 10 + digit_val b) (firstn (Z.to_nat (s - (dec + 1))) r) <=? imax t); [|reflexivity].
        cbn [orb]. apply f_equal. apply f_equal2; [|reflexivity]. apply f_equal2; [|reflexivity].
        apply f_equal2; [reflexivity|]. rewrite Nat2Z.inj_succ. lia.
      * pose proof (dval_ge (firstn (Z.to_nat (s - (dec + 1))) r) (val * 10 + digit_val b) ltac:(lia)
                      (forallb_firstn _ _ _ Hr)) as Hge.
        replace (dval (val * 10 + digit_val b) (firstn (Z.to_nat (s - (dec + 1))) r) <=? imax t) with false by lia.
        reflexivity.
Qed.

Lemma finish_eval oc t p neg v ru : sty t -> 0 <= p -> 10 ^ p <= imax t -> 0 <= v <= imax t ->
  finish oc t p neg (v, ru) =
  if v + (if ru then 1 else 0) <? 10 ^ p then Ok (if neg then - (v + (if ru then 1 else 0)) else v + (if ru then 1 else 0))
  else Err.
Proof.
  intros [Hs Hm] Hp Hlim Hv. unfold finish, checked_pow.
  assert (Hpp : 0 < 10 ^ p) by (apply Z.pow_pos_nonneg; lia).
  rewrite (checked_in t (10 ^ p)) by lia.
  assert (Hfin : forall w, 0 <= w <= imax t ->
            (if 10 ^ p <=? w then Err else if neg then unchecked oc t (0 - w) else Ok w) =
            if w <? 10 ^ p then Ok (if neg then - w else w) else Err).
  { intros w Hw. destruct (10 ^ p <=? w) eqn:E1; [replace (w <? 10 ^ p) with false by lia; reflexivity|].
    replace (w <? 10 ^ p) with true by lia. destruct neg; [|reflexivity].
    unfold unchecked. rewrite in_range_intro by lia. f_equal; lia. }
  destruct ru.
  - destruct (checked_cases t (v + 1)) as [[-> Hr] | [-> Hr]]; cbn [obind].
    + apply Hfin. lia.
    + replace (v + 1 <? 10 ^ p) with false by lia. reflexivity.
  - cbn [obind]. rewrite Z.add_0_r. apply Hfin. exact Hv.
Qed.

Lemma parse_body_spec oc t p s neg ip fpo :
  sty t -> 0 <= s <= p -> 10 ^ p <= imax t ->
  forallb is_digit ip = true -> forallb is_digit (fpl fpo) = true -> nonempty ip || nonempty (fpl fpo) = true ->
  parse_body oc t p s neg (ip ++ ptail fpo) =
  let D := rha_div (dval 0 (ip ++ fpl fpo) * 10 ^ s) (10 ^ Z.of_nat (length (fpl fpo))) in
  if D <? 10 ^ p then Ok (if neg then - D else D) else Err.
Proof.
  intros Hst Hsp Hlim Hi Hf Hne. assert (Hlo : imin t <= 0) by (destruct Hst; lia).
  assert (Hm : 0 <= imax t) by (destruct Hst; lia).
  destruct (spec_value ip (fpl fpo) s Hi Hf ltac:(lia)) as [HiA [HAD [Hle Hgt]]].
  set (D := rha_div (dval 0 (ip ++ fpl fpo) * 10 ^ s) (10 ^ Z.of_nat (length (fpl fpo)))) in *.
  set (k := Z.to_nat s) in *. set (A := dval 0 (ip ++ firstn k (fpl fpo))) in *.
  cbv zeta. unfold parse_body.
  rewrite dec_lead_eval by (assumption || lia). cbn [orb].
  destruct (dval 0 ip <=? imax t) eqn:EI; [|replace (D <? 10 ^ p) with false by lia; reflexivity].
  rewrite dec_lead_ptail. cbn [obind].
  assert (Hfrac : match fpo with
                  | Some r => dec_frac t s (dval 0 ip) 0 (nonempty ip) false false r
                  | None => Ok (dval 0 ip, 0, nonempty ip, false)
                  end = dec_frac t s (dval 0 ip) 0 (nonempty ip) false false (fpl fpo))
    by (destruct fpo; reflexivity).
  rewrite Hfrac. pose proof (dval_bound ip Hi) as Hib.
  rewrite dec_frac_eval by (assumption || lia || discriminate).
  rewrite Z.sub_0_r. fold k. rewrite <- dval_app. fold A. rewrite Hne.
  destruct (A <=? imax t) eqn:EA; [|replace (D <? 10 ^ p) with false by lia; reflexivity].
  cbn [obind]. unfold parse_tail. cbn [negb]. unfold rescale. replace (s <? 0) with false by lia.
  assert (HA0 : 0 <= A) by lia.
  destruct (Z_le_gt_dec (Z.of_nat (length (fpl fpo))) s) as [Hn|Hn].
  - destruct (Hle Hn) as [H1 [H2 HD]]. rewrite H1, H2. rewrite Z.add_0_l.
    destruct (Z.of_nat (length (fpl fpo)) <? s) eqn:Elt.
    + unfold checked_pow.
      assert (Hpw : 1 <= 10 ^ (s - Z.of_nat (length (fpl fpo))) <= 10 ^ p).
      { split; [apply pow10_ge1; lia|apply Z.pow_le_mono_r; lia]. }
      rewrite (checked_in t (10 ^ (s - Z.of_nat (length (fpl fpo))))) by lia. cbn [obind].
      rewrite <- HD.
      destruct (checked_cases t D) as [[-> Hr] | [-> Hr]]; cbn [obind].
      * rewrite finish_eval by (assumption || lia). rewrite Z.add_0_r. reflexivity.
      * replace (D <? 10 ^ p) with false by lia. reflexivity.
    + assert (HDA : D = A).
      { rewrite HD. replace (s - Z.of_nat (length (fpl fpo))) with 0 by lia. rewrite Z.pow_0_r. lia. }
      cbn [obind]. rewrite finish_eval by (assumption || lia). rewrite Z.add_0_r, HDA. reflexivity.
  - destruct (Hgt ltac:(lia)) as [Hlen [b [r [Hsk HD]]]]. rewrite Hlen, Hsk, Z.add_0_l.
    replace (s <? s) with false by lia. cbn [obind].
    rewrite finish_eval by (assumption || lia).
    replace (if (53 <=? b)%N then 1 else 0) with (if (53 <=? b)%N then 1 else 0) in HD by reflexivity.
    destruct (53 <=? b)%N; rewrite <- HD; reflexivity.
Qed.

Lemma spec_unfold p s bs :
  spec_parse_decimal p s bs =
  if wellformed_decimal bs then
    let '(ip, fp) := split_point (snd (sign_split bs)) in
    let d := rha_div (dval 0 (ip ++ fpl fp) * 10 ^ s) (10 ^ Z.of_nat (length (fpl fp))) in
    if d <? 10 ^ p then Some (if fst (sign_split bs) then - d else d) else None
  else None.
Proof.
  unfold spec_parse_decimal, sign_split, fpl. destruct (wellformed_decimal bs); [|reflexivity].
  destruct bs as [|b r]; [reflexivity|]. destruct (b =? 45)%N; [reflexivity|]. destruct (b =? 43)%N; reflexivity.
Qed.

Theorem parse_decimal_spec : forall oc d p s bs, std_dty d -> 0 <= s <= p -> p <= d_maxp d ->
  parse_decimal oc d p s bs = match spec_parse_decimal p s bs with Some v => Ok v | None => Err end.
Proof.
  intros oc d p s bs Hd Hsp Hp. destruct (std_sty d Hd) as [Hst Hmax].
  assert (Hlim : 10 ^ p <= imax (d_prim d)).
  { apply Z.le_trans with (10 ^ d_maxp d); [apply Z.pow_le_mono_r; lia|exact Hmax]. }
  rewrite spec_unfold. destruct (wellformed_decimal bs) eqn:Ewf.
  - rewrite parse_decimal_unfold. rewrite wf_unfold in Ewf. apply andb_true_iff in Ewf. destruct Ewf as [Ha Hc].
    destruct (wf_body_shape _ Ha) as [ip [fpo [Hsp' [Hb [Hi Hf]]]]]. rewrite Hsp'.
    assert (Hne : nonempty ip || nonempty (fpl fpo) = true).
    { rewrite Hb, count_digits_app, count_digits_ptail, !count_digits_all in Hc by assumption. unfold nonempty. lia. }
    rewrite Hb. rewrite parse_body_spec by assumption. cbv zeta.
    destruct (_ <? 10 ^ p); reflexivity.
  - destruct (parse_decimal oc d p s bs) as [v| |] eqn:E; [|reflexivity|].
    + apply parse_decimal_rejects_garbage in E. congruence.
    + exfalso. revert E. apply parse_decimal_never_panics, Hd.
Qed.

Example parse_decimal_spec_sat :
  std_dty D64 /\ 0 <= 2 <= 5 /\ 5 <= d_maxp D64
  /\ spec_parse_decimal 5 2 [49; 50; 46; 51; 52; 53]%N = Some 1235
  /\ parse_decimal true D64 5 2 [49; 50; 46; 51; 52; 53]%N = Ok 1235
  /\ spec_parse_decimal 5 2 [45; 46; 48; 48; 53]%N = Some (-1)
  /\ spec_parse_decimal 3 2 [49; 48]%N = None.
Proof. unfold std_dty. repeat split; auto; try (vm_compute; congruence). Qed.

(* ---------- 4. the formatter's output parses back ---------- *)
Lemma pow_in_ok oc t : imin t <= 0 -> forall n, 10 ^ Z.of_nat n <= imax t -> pow_in oc t 10 n = Ok (10 ^ Z.of_nat n).
Proof.
  intros Hlo. induction n as [|n IH]; intros Hn; [reflexivity|].
  rewrite Nat2Z.inj_succ, Z.pow_succ_r in * by lia.
  pose proof (pow10_ge1 (Z.of_nat n) ltac:(lia)) as Hp.
  cbn [pow_in]. rewrite IH by lia. cbn [obind]. unfold unchecked. rewrite in_range_intro by lia. f_equal; lia.
Qed.

Lemma udigits_len : forall fuel v acc k, 1 <= k -> 0 <= v < 10 ^ k ->
  Z.of_nat (length (udigits fuel v acc)) <= k + Z.of_nat (length acc).
Proof.
  induction fuel as [|f IH]; intros v acc k Hk Hv; [cbn [udigits]; lia|].
  cbn [udigits]. destruct (v <? 10) eqn:E.
  - cbn [length]. lia.
  - assert (Hk2 : 2 <= k).
    { destruct (Z.eq_dec k 1) as [->|]; [|lia]. change (10 ^ 1) with 10 in Hv. lia. }
    replace (10 ^ k) with (10 * 10 ^ (k - 1)) in Hv by (rewrite <- Z.pow_succ_r by lia; f_equal; lia).
    specialize (IH (v / 10) (digit_char (v mod 10) :: acc) (k - 1) ltac:(lia) ltac:(lia)).
    cbn [length] in IH. lia.
Qed.

Lemma format_uint_len v k : 1 <= k -> 0 <= v < 10 ^ k -> Z.of_nat (length (format_uint v)) <= k.
Proof. intros Hk Hv. unfold format_uint. pose proof (udigits_len (S (Z.to_nat (Z.log2 v))) v [] k Hk Hv) as H. cbn [length] in H. lia. Qed.

Lemma lpad_n_length n c l : length (lpad_n n c l) = (n + length l)%nat.
Proof. induction n as [|n IH]; [reflexivity|]. cbn [lpad_n length]. rewrite IH. reflexivity. Qed.

Lemma lpad_n_digits n l : forallb is_digit l = true -> forallb is_digit (lpad_n n 48%N l) = true.
Proof. intros H. induction n as [|n IH]; [exact H|]. cbn [lpad_n forallb]. rewrite IH. reflexivity. Qed.

Lemma lpad_n_dval n l : dval 0 (lpad_n n 48%N l) = dval 0 l.
Proof. induction n as [|n IH]; [reflexivity|]. cbn [lpad_n]. rewrite dval_cons. exact IH. Qed.

Lemma format_parts s a : 0 <= s -> 0 <= a ->
  let ip := format_uint (a / 10 ^ s) in
  let fpo := if s <=? 0 then None else Some (lpad s 48%N (format_uint (a mod 10 ^ s))) in
  forallb is_digit ip = true /\ nonempty ip = true /\ forallb is_digit (fpl fpo) = true
  /\ Z.of_nat (length (fpl fpo)) = s /\ dval 0 (ip ++ fpl fpo) = a.
Proof.
  intros Hs Ha ip fpo. assert (Hp : 0 < 10 ^ s) by (apply Z.pow_pos_nonneg; lia).
  assert (HI : 0 <= a / 10 ^ s) by (apply Z.div_pos; lia).
  destruct (format_uint_spec _ HI) as [ds [H1 [H2 [H3 H4]]]]. fold ip in H1. subst ds.
  split; [exact H3|]. split; [destruct ip; [congruence|reflexivity]|].
  unfold fpo. destruct (s <=? 0) eqn:Es.
  - cbn [fpl length Z.of_nat]. rewrite app_nil_r, H4. assert (s = 0) by lia. subst s.
    rewrite Z.pow_0_r, Z.div_1_r. auto.
  - pose proof (Z.mod_pos_bound a (10 ^ s) Hp) as HF.
    destruct (format_uint_spec (a mod 10 ^ s) ltac:(lia)) as [fs [F1 [F2 [F3 F4]]]].
    pose proof (format_uint_len (a mod 10 ^ s) s ltac:(lia) HF) as Hlen. rewrite F1 in *.
    cbn [fpl]. unfold lpad.
    split; [apply lpad_n_digits, F3|]. split; [rewrite lpad_n_length; lia|].
    rewrite dval_app, dval_shift, lpad_n_dval, lpad_n_length, H4, F4.
    replace (Z.of_nat (Z.to_nat (s - Z.of_nat (length fs)) + length fs)) with s by lia.
    pose proof (Z.div_mod a (10 ^ s) ltac:(lia)). lia.
Qed.

Lemma format_decimal_eval oc d p s v : std_dty d -> 0 <= s <= p -> p <= d_maxp d -> Z.abs v < 10 ^ p ->
  format_decimal oc d s v =
  Ok ((if v <? 0 then [45%N] else []) ++ format_uint (Z.abs v / 10 ^ s)
      ++ ptail (if s <=? 0 then None else Some (lpad s 48%N (format_uint (Z.abs v mod 10 ^ s))))).
Proof.
  intros Hd Hsp Hp Hv. destruct (std_sty d Hd) as [[Hst Hm] Hmax].
  assert (Hlim : 10 ^ p <= imax (d_prim d)).
  { apply Z.le_trans with (10 ^ d_maxp d); [apply Z.pow_le_mono_r; lia|exact Hmax]. }
  assert (Hps : 0 < 10 ^ s <= 10 ^ p) by (split; [apply Z.pow_pos_nonneg; lia|apply Z.pow_le_mono_r; lia]).
  unfold format_decimal.
  rewrite pow_in_ok by (rewrite ?Zabs2Nat.id_abs, ?Z.abs_eq by lia; lia).
  rewrite Zabs2Nat.id_abs, (Z.abs_eq s) by lia. cbn [obind].
  assert (Habs : (if v <? 0 then unchecked oc (d_prim d) (- v) else Ok v) = Ok (Z.abs v)).
  { destruct (v <? 0) eqn:Ev; [|f_equal; lia]. unfold unchecked. rewrite in_range_intro by lia. f_equal; lia. }
  rewrite Habs. cbn [obind]. replace (s <? 0) with false by lia. cbn [obind].
  assert (Ha : 0 <= Z.abs v) by lia.
  rewrite Z.quot_div_nonneg, Z.rem_mod_nonneg by lia.
  assert (HI : 0 <= Z.abs v / 10 ^ s) by (apply Z.div_pos; lia).
  pose proof (Z.mod_pos_bound (Z.abs v) (10 ^ s) ltac:(lia)) as HF.
  unfold format_int. replace (Z.abs v / 10 ^ s <? 0) with false by lia.
  replace (Z.abs v mod 10 ^ s <? 0) with false by lia.
  destruct (s <=? 0); cbn [ptail]; [rewrite app_nil_r|]; reflexivity.
Qed.

Theorem format_decimal_ok : forall oc d p s v, std_dty d -> 0 <= s <= p -> p <= d_maxp d -> Z.abs v < 10 ^ p ->
  exists bs, format_decimal oc d s v = Ok bs.
Proof. intros oc d p s v Hd Hsp Hp Hv. eexists. apply (format_decimal_eval oc d p s v); assumption. Qed.

Lemma sign_split_shape (ng : bool) ip tl : forallb is_digit ip = true -> nonempty ip = true ->
  sign_split ((if ng then [45%N] else []) ++ ip ++ tl) = (ng, ip ++ tl).
Proof.
  intros Hi Hn. destruct ng; [reflexivity|]. destruct ip as [|b r]; [discriminate|].
  cbn [forallb] in Hi. apply andb_true_iff in Hi. destruct Hi as [Hb _].
  cbn [app sign_split]. unfold is_digit in Hb.
  replace (b =? 45)%N with false by lia. replace (b =? 43)%N with false by lia. reflexivity.
Qed.

Theorem format_parse_decimal_roundtrip : forall oc d p s v bs,
  std_dty d -> 0 <= s <= p -> p <= d_maxp d -> Z.abs v < 10 ^ p ->
  format_decimal oc d s v = Ok bs -> parse_decimal oc d p s bs = Ok v.
Proof.
  intros oc d p s v bs Hd Hsp Hp Hv Hfmt. rewrite (format_decimal_eval oc d p s v) in Hfmt by assumption.
  injection Hfmt as <-. destruct (std_sty d Hd) as [Hst Hmax].
  assert (Hlim : 10 ^ p <= imax (d_prim d)).
  { apply Z.le_trans with (10 ^ d_maxp d); [apply Z.pow_le_mono_r; lia|exact Hmax]. }
  destruct (format_parts s (Z.abs v) ltac:(lia) ltac:(lia)) as [Hi [Hn [Hf [Hlen Hval]]]].
  rewrite parse_decimal_unfold, sign_split_shape by assumption. cbn [fst snd].
  rewrite parse_body_spec by (assumption || (rewrite Hn; reflexivity)).
  cbv zeta. rewrite Hval, Hlen. rewrite rha_exact by (try apply Z.pow_pos_nonneg; lia).
  replace (Z.abs v <? 10 ^ p) with true by lia. f_equal. destruct (v <? 0) eqn:Ev; lia.
Qed.

Example format_parse_decimal_roundtrip_sat :
  std_dty D128 /\ 0 <= 3 <= 5 /\ 5 <= d_maxp D128 /\ Z.abs (-7) < 10 ^ 5
  /\ format_decimal true D128 3 (-7) = Ok [45; 48; 46; 48; 48; 55]%N
  /\ parse_decimal true D128 5 3 [45; 48; 46; 48; 48; 55]%N = Ok (-7).
Proof. unfold std_dty. repeat split; auto; try (vm_compute; congruence). Qed.

Example parse_decimal_never_panics_sat : std_dty D64 /\ std_dty D128.
Proof. unfold std_dty. auto. Qed.

Example parse_decimal_rejects_garbage_sat :
  parse_decimal false D64 5 2 [43; 46; 53]%N = Ok 50 /\ wellformed_decimal [43; 46; 53]%N = true.
Proof. vm_compute. split; reflexivity. Qed.

Print Assumptions parse_decimal_never_panics.
Print Assumptions parse_decimal_rejects_garbage.
Print Assumptions parse_decimal_spec.
Print Assumptions format_decimal_ok.
Print Assumptions format_parse_decimal_roundtrip.
