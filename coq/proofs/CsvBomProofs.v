(* C17 — CsvDecoder::decode holds back a first input that ends inside a UTF-8 BOM (model/Csv.v decode_h): the
   decoder and the reader over it do not depend on where the reads cut the stream, the BOM included.

     decode_h_spec                   one call from a held prefix p: still undecided -> hold p ++ ch; otherwise the
                                     state of decode_inner on p ++ ch from the initial state
     decoder_h_chunking_irrelevant   decode_chunks_h d (c1 :: rest) = decode_h d h_init (c1 ++ concat rest)
     reader_h_chunking_irrelevant    reader_loop_h d cap skip h_init chunks = skipf (run_reader d (concat chunks))
                                     for EVERY sequence of non-empty reads (no BOM side condition)
     run_sample_eof_reader / run_sample_noeof_dfa   the inference sample through decode_h
   The proofs reduce to the theorems about decode_inner (CsvProofs.chunking_irrelevant_noflush,
   CsvFlushProofs.reader_chunking_irrelevant), whose BOM side condition holds for the regrouped first read. *)
From Coq Require Import NArith List Bool Arith Lia.
From GV Require Import model.Csv proofs.CsvProofs proofs.CsvFlushProofs.
Import ListNotations.

(* the bytes seen so far do not yet tell whether the stream starts with a BOM *)
Definition undecided (bs : list N) : bool := (length bs <? 3) && is_prefix bs BOM.
Definition held (p : list N) : hstate := {| h_started := false; h_prefix := p; h_st := st_init |}.

Lemma undecided_cases : forall p, undecided p = true -> p = [] \/ p = [239]%N \/ p = [239; 187]%N.
Proof.
  intros p H. unfold undecided, BOM in H. apply andb_prop in H. destruct H as [Hl Hp].
  destruct p as [|a [|b [|c p]]]; [auto| | |discriminate Hl].
  - cbn [is_prefix] in Hp. apply andb_prop in Hp. destruct Hp as [Ha _]. apply N.eqb_eq in Ha. subst a. auto.
  - cbn [is_prefix] in Hp. apply andb_prop in Hp. destruct Hp as [Ha Hp]. apply andb_prop in Hp.
    destruct Hp as [Hb _]. apply N.eqb_eq in Ha. apply N.eqb_eq in Hb. subst a b. auto.
Qed.

Lemma is_prefix_app_l : forall a b c, is_prefix (a ++ b) c = true -> is_prefix a c = true.
Proof.
  induction a as [|x a IH]; intros b c H; [reflexivity|].
  destruct c as [|y c]; [discriminate H|]. cbn [app is_prefix] in *.
  apply andb_prop in H. destruct H as [Hx H]. rewrite Hx. exact (IH b c H).
Qed.

Lemma undecided_app_l : forall a b, undecided (a ++ b) = true -> undecided a = true.
Proof.
  intros a b H. unfold undecided in *. apply andb_prop in H. destruct H as [Hl Hp].
  rewrite (is_prefix_app_l a b BOM Hp), andb_true_r.
  apply Nat.ltb_lt in Hl. apply Nat.ltb_lt. rewrite app_length in Hl. lia.
Qed.

(* a decided first read satisfies the BOM side condition of the decode_inner theorems *)
Lemma decided_strip : forall c1 X, undecided c1 = false ->
  3 <= length c1 \/ strip_bom rdr_init (c1 ++ X) = c1 ++ X.
Proof.
  intros c1 X H. destruct (le_lt_dec 3 (length c1)) as [Hl|Hl]; [left; exact Hl|right].
  destruct (strip_bom_cases rdr_init (c1 ++ X)) as [E|[_ E]]; [exact E|exfalso].
  unfold undecided in H. apply Nat.ltb_lt in Hl. rewrite Hl in H. cbn [andb] in H.
  assert (Hp : is_prefix c1 BOM = true).
  { unfold BOM. destruct c1 as [|a [|b [|c t]]]; [reflexivity| | |discriminate Hl].
    - cbn [app] in E. injection E as Ea _. subst a. reflexivity.
    - cbn [app] in E. injection E as Ea Eb _. subst a b. reflexivity. }
  rewrite Hp in H. discriminate H.
Qed.

Lemma decided_strip_app : forall c1 X, undecided c1 = false ->
  strip_bom rdr_init (c1 ++ X) = strip_bom rdr_init c1 ++ X.
Proof. intros c1 X H. apply strip_bom_app. apply decided_strip. exact H. Qed.

(* two calls of decode_inner, the first of at least 3 bytes *)
Lemma decode_two : forall d c1 c2, 3 <= length c1 -> c2 <> [] ->
  decode d (decode d st_init c1) c2 = decode d st_init (c1 ++ c2).
Proof.
  intros d c1 c2 Hl Hc2.
  assert (Hc1 : c1 <> []) by (intros ->; cbn [length] in Hl; lia).
  pose proof (chunking_irrelevant_noflush d c1 [c2] Hc1) as H.
  cbn [concat] in H. rewrite app_nil_r in H. unfold decode_chunks in H. cbn [fold_left] in H.
  apply H; [repeat constructor; exact Hc2|]. apply strip_bom_app_long. exact Hl.
Qed.

Ltac eqb_cases :=
  repeat match goal with
         | |- context [(?a =? ?b)%N] => destruct (a =? b)%N eqn:?
         end; cbn [andb orb negb].

(* ------------------------------------------------------------------ one call of CsvDecoder::decode *)
Theorem decode_h_spec : forall d p ch, undecided p = true -> ch <> [] ->
  decode_h d (held p) ch
  = if undecided (p ++ ch) then held (p ++ ch) else h_run (decode d st_init (p ++ ch)).
Proof.
  intros d p ch Hp Hch. destruct (undecided_cases p Hp) as [->|[->| ->]].
  - (* nothing held *)
    destruct ch as [|x [|y [|z ch]]]; [congruence| | |];
      unfold decode_h, undecided, held, BOM;
      cbn [h_started h_prefix h_st nilb length app firstn skipn Nat.min Nat.sub Nat.leb Nat.ltb is_prefix
           andb orb negb];
      eqb_cases; reflexivity.
  - (* EF held *)
    destruct ch as [|x [|y [|z ch]]]; [congruence| | |];
      unfold decode_h, undecided, held, BOM;
      cbn [h_started h_prefix h_st nilb length app firstn skipn Nat.min Nat.sub Nat.leb Nat.ltb is_prefix
           andb orb negb];
      eqb_cases; try reflexivity.
    all: f_equal; apply (decode_two d [239; x; y]%N (z :: ch)); [cbn [length]; lia|discriminate].
  - (* EF BB held *)
    destruct ch as [|x [|y ch]]; [congruence| |];
      unfold decode_h, undecided, held, BOM;
      cbn [h_started h_prefix h_st nilb length app firstn skipn Nat.min Nat.sub Nat.leb Nat.ltb is_prefix
           andb orb negb];
      eqb_cases; try reflexivity.
    all: f_equal; apply (decode_two d [239; 187; x]%N (y :: ch)); [cbn [length]; lia|discriminate].
Qed.

Example decode_h_spec_sat :
  let d := {| delim := 44; quote := 34 |}%N in
  decode_h d (held [239]%N) [187]%N = held [239; 187]%N /\
  records_of (snd (h_st (decode_h d (held [239; 187]%N) [191; 97; 10]%N))) = Some [[[97]]]%N /\
  records_of (snd (h_st (decode_h d (held [239; 187]%N) [97; 10]%N))) = Some [[[239; 187; 97]]]%N.
Proof. cbv zeta. repeat split; vm_compute; reflexivity. Qed.

Lemma decode_h_run : forall d st ch, decode_h d (h_run st) ch = h_run (decode d st ch).
Proof. reflexivity. Qed.

(* the end-of-input signal while bytes are held: they are data *)
Lemma decode_h_held_eof : forall d p, p <> [] ->
  decode_h d (held p) [] = h_run (decode_eof (decode d st_init p)).
Proof.
  intros d p Hp. unfold decode_h, held. cbn [h_started h_prefix h_st].
  destruct p as [|a p]; [congruence|]. cbn [nilb andb].
  rewrite Nat.min_0_r. cbn [firstn skipn nilb negb andb length]. rewrite app_nil_r. reflexivity.
Qed.

(* ------------------------------------------------------------------ the decoder, records accumulating *)
Lemma fold_h_run : forall d chunks st,
  fold_left (decode_h d) chunks (h_run st) = h_run (fold_left (decode d) chunks st).
Proof.
  intros d chunks. induction chunks as [|ch chunks IH]; intros st; [reflexivity|].
  cbn [fold_left]. rewrite decode_h_run. apply IH.
Qed.

Lemma fold_h_held : forall d chunks p, undecided p = true ->
  Forall (fun ch => ch <> []) chunks -> chunks <> [] ->
  fold_left (decode_h d) chunks (held p)
  = if undecided (p ++ concat chunks) then held (p ++ concat chunks)
    else h_run (decode d st_init (p ++ concat chunks)).
Proof.
  intros d chunks. induction chunks as [|ch rest IH]; intros p Hp HF Hne; [congruence|].
  inversion HF as [|x l Hch Hrest]; subst. cbn [fold_left concat].
  rewrite (decode_h_spec d p ch Hp Hch).
  destruct (undecided (p ++ ch)) eqn:U.
  - destruct rest as [|c2 rest2].
    + cbn [fold_left concat]. rewrite app_nil_r, U. reflexivity.
    + rewrite IH; [|exact U|exact Hrest|discriminate]. rewrite <- app_assoc. reflexivity.
  - rewrite fold_h_run.
    assert (U2 : undecided (p ++ ch ++ concat rest) = false).
    { destruct (undecided (p ++ ch ++ concat rest)) eqn:E; [|reflexivity].
      rewrite app_assoc in E. apply undecided_app_l in E. rewrite E in U. discriminate U. }
    rewrite U2. f_equal.
    assert (Hc1 : p ++ ch <> []) by (destruct p; [exact Hch|discriminate]).
    pose proof (chunking_irrelevant_noflush d (p ++ ch) rest Hc1 Hrest (decided_strip_app _ _ U)) as H.
    unfold decode_chunks in H. cbn [fold_left] in H. rewrite H, <- app_assoc. reflexivity.
Qed.

(* FULL STATEMENT (decoder): the complete state of CsvDecoder (started flag, held bytes, csv_core state, output
   position, buf, ends, record boundaries) after any sequence of non-empty reads is the state after one read of the
   whole input; no BOM side condition *)
Theorem decoder_h_chunking_irrelevant : forall d c1 rest,
  c1 <> [] -> Forall (fun ch => ch <> []) rest ->
  decode_chunks_h d (c1 :: rest) = decode_h d h_init (c1 ++ concat rest).
Proof.
  intros d c1 rest Hc1 HF. unfold decode_chunks_h. change h_init with (held []).
  rewrite fold_h_held; [|reflexivity|constructor; assumption|discriminate].
  rewrite decode_h_spec; [reflexivity|reflexivity|destruct c1; [congruence|discriminate]].
Qed.

(* ------------------------------------------------------------------ the reader *)
Lemma reader_h_run : forall d cap chunks skip st,
  reader_loop_h d cap skip (h_run st) chunks = reader_loop d cap skip st chunks.
Proof.
  intros d cap chunks. induction chunks as [|ch rest IH]; intros skip st; [reflexivity|].
  cbn [reader_loop_h reader_loop]. rewrite decode_h_run. cbn [h_run h_started h_prefix h_st].
  change {| h_started := true; h_prefix := [];
            h_st := (fst (decode d st ch), clear_completed (snd (decode d st ch))) |}
    with (h_run (fst (decode d st ch), clear_completed (snd (decode d st ch)))).
  change {| h_started := true; h_prefix := []; h_st := decode d st ch |} with (h_run (decode d st ch)).
  rewrite !IH. reflexivity.
Qed.

Lemma reader_h_held : forall d cap, 1 <= cap -> forall chunks p skip,
  undecided p = true -> Forall (fun ch => ch <> []) chunks ->
  reader_loop_h d cap skip (held p) chunks
  = option_map (fun rs => if skip then tl rs else rs) (run_reader d (p ++ concat chunks)).
Proof.
  intros d cap Hcap chunks. induction chunks as [|ch rest IH]; intros p skip Hp HF.
  - cbn [concat reader_loop_h]. rewrite app_nil_r.
    destruct p as [|a p].
    + reflexivity.
    + rewrite decode_h_held_eof by discriminate. reflexivity.
  - inversion HF as [|x l Hch Hrest]; subst. cbn [reader_loop_h concat].
    rewrite (decode_h_spec d p ch Hp Hch).
    destruct (undecided (p ++ ch)) eqn:U.
    + (* still held: nothing decoded, nothing to flush *)
      cbn [held h_st h_started h_prefix snd st_init br_empty bounds length].
      destruct cap as [|cap]; [lia|]. cbn [Nat.leb].
      change {| h_started := false; h_prefix := p ++ ch; h_st := (rdr_init, {| buf := []; ends := []; bounds := [] |}) |}
        with (held (p ++ ch)).
      rewrite IH by assumption. rewrite <- app_assoc. reflexivity.
    + (* decided: from here on the reader over decode_inner, first read p ++ ch *)
      assert (Hc1 : p ++ ch <> []) by (destruct p; [exact Hch|discriminate]).
      cbn [h_run h_started h_prefix h_st].
      change {| h_started := true; h_prefix := [];
                h_st := (fst (decode d st_init (p ++ ch)), clear_completed (snd (decode d st_init (p ++ ch)))) |}
        with (h_run (fst (decode d st_init (p ++ ch)), clear_completed (snd (decode d st_init (p ++ ch))))).
      change {| h_started := true; h_prefix := []; h_st := decode d st_init (p ++ ch) |}
        with (h_run (decode d st_init (p ++ ch))).
      rewrite !reader_h_run.
      change (if cap <=? length (bounds (snd (decode d st_init (p ++ ch))))
              then opt_app (option_map (fun rs => if skip then tl rs else rs)
                              (records_of (snd (decode d st_init (p ++ ch)))))
                     (reader_loop d cap false
                        (fst (decode d st_init (p ++ ch)), clear_completed (snd (decode d st_init (p ++ ch)))) rest)
              else reader_loop d cap skip (decode d st_init (p ++ ch)) rest)
        with (reader_loop d cap skip st_init ((p ++ ch) :: rest)).
      rewrite reader_chunking_irrelevant; [|exact Hcap|constructor; assumption|].
      * cbn [concat]. rewrite <- app_assoc. reflexivity.
      * right. cbn [hd concat]. apply decided_strip. exact U.
Qed.

(* FULL STATEMENT (reader): for every batch capacity, every sequence of non-empty reads, with or without header
   skipping, the rows are those of one read of the whole file followed by the end-of-input signal; no BOM side
   condition (a read may end inside the BOM) *)
Theorem reader_h_chunking_irrelevant : forall d out_cap skip chunks,
  1 <= out_cap -> Forall (fun ch => ch <> []) chunks ->
  reader_loop_h d out_cap skip h_init chunks
  = option_map (fun rs => if skip then tl rs else rs) (run_reader d (concat chunks)).
Proof.
  intros d cap skip chunks Hcap HF. change h_init with (held []).
  rewrite (reader_h_held d cap Hcap chunks [] skip); [reflexivity|reflexivity|exact HF].
Qed.

Example reader_h_chunking_sat :
  let d := {| delim := 44; quote := 34 |}%N in
  reader_loop_h d 1 true h_init [[239]; [187; 191; 97]; [10; 49; 10]]%N = Some [[[49]]]%N /\
  run_reader d [239; 187; 191; 97; 10; 49; 10]%N = Some [[[97]]; [[49]]]%N.
Proof. cbv zeta. split; vm_compute; reflexivity. Qed.

(* regression witness: the same reads through decode_inner alone (the decoder before the repair) keep the BOM *)
Lemma bom_split_old_refuted :
  exists d c1 rest, c1 <> [] /\ Forall (fun ch => ch <> []) rest /\
    records_of (snd (decode_chunks d (c1 :: rest))) <> records_of (snd (decode d st_init (c1 ++ concat rest))) /\
    decode_chunks_h d (c1 :: rest) = decode_h d h_init (c1 ++ concat rest) /\
    records_of (snd (h_st (decode_chunks_h d (c1 :: rest)))) = Some [[[97]]]%N.
Proof.
  exists comma_dq, [239;187]%N, [[191;97;10]]%N. split; [discriminate|]. split; [repeat constructor; discriminate|].
  split; [vm_compute; discriminate|]. split; vm_compute; reflexivity.
Qed.

(* ------------------------------------------------------------------ the inference sample *)
Lemma run_sample_eof_reader : forall d bs, run_sample d true bs = run_reader d bs.
Proof.
  intros d bs. destruct bs as [|b bs]; [reflexivity|].
  unfold run_sample. change h_init with (held []).
  rewrite decode_h_spec; [|reflexivity|discriminate]. cbn [app].
  destruct (undecided (b :: bs)).
  - rewrite decode_h_held_eof by discriminate. reflexivity.
  - reflexivity.
Qed.

(* a sample that is a proper prefix of the file (4096 bytes: never undecided) is decoded by decode_inner alone *)
Lemma run_sample_noeof_dfa : forall d bs, undecided bs = false -> run_sample d false bs = run_dfa d bs.
Proof.
  intros d bs U. destruct bs as [|b bs]; [discriminate U|].
  unfold run_sample, run_dfa. change h_init with (held []).
  rewrite decode_h_spec; [|reflexivity|discriminate]. cbn [app]. rewrite U. reflexivity.
Qed.

Print Assumptions decode_h_spec.
Print Assumptions decoder_h_chunking_irrelevant.
Print Assumptions reader_h_chunking_irrelevant.
Print Assumptions bom_split_old_refuted.
Print Assumptions run_sample_eof_reader.
Print Assumptions run_sample_noeof_dfa.
