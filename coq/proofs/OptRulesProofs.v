(* C02: the algebraic laws the optimizer rules of /repo/crates/glaredb_core/src/optimizer rely on, over ALL
   relations and predicates, in the res monad (model/Rel.v); negative results as closed witnesses. *)
From Coq Require Import NArith ZArith List Bool Permutation Lia.
From GV Require Import lib.Bytes model.Sql model.Rel proofs.RelProofs.
Import ListNotations.

(* "p reads only the first la columns" / "only the columns after the first la", at the res level *)
Definition reads_leftR (la : nat) (p pl : list value -> res bool) : Prop :=
  forall x y, length x = la -> p (x ++ y) = pl x.
Definition reads_rightR (la : nat) (p pr : list value -> res bool) : Prop :=
  forall x y, length x = la -> p (x ++ y) = pr y.

Lemma reads_leftR_pure la p pl : reads_leftR la p pl -> reads_left la (pure_of p) (pure_of pl).
Proof. intros H x y Hx. unfold pure_of. rewrite (H x y Hx). reflexivity. Qed.
Lemma reads_rightR_pure la p pr : reads_rightR la p pr -> reads_right la (pure_of p) (pure_of pr).
Proof. intros H x y Hx. unfold pure_of. rewrite (H x y Hx). reflexivity. Qed.

Lemma arity_In la a x : arity la a -> In x a -> length x = la.
Proof. unfold arity. rewrite Forall_forall. auto. Qed.

(* ================================================================ 1. filters *)

(* splitting a conjunction into two stacked filters only REMOVES evaluations (p1 is no longer evaluated on
   the rows p2 rejects); when both conjuncts are total on r the two plans agree exactly *)
Theorem filter_and_split p1 p2 r :
  refines (rfilter (pand p1 p2) r) (do r2 <- rfilter p2 r; rfilter p1 r2)
  /\ (total_on p1 r -> total_on p2 r ->
      rfilter (pand p1 p2) r ≡r (do r2 <- rfilter p2 r; rfilter p1 r2)).
Proof.
  assert (Hcore : total_on p1 r -> total_on p2 r ->
     rfilter (pand p1 p2) r = Ok (pfilter (pure_of p1) (pfilter (pure_of p2) r)) /\
     (do r2 <- rfilter p2 r; rfilter p1 r2) = Ok (pfilter (pure_of p1) (pfilter (pure_of p2) r))).
  { intros H1 H2. split.
    - rewrite rfilter_total by (apply pand_total_on; split; assumption).
      rewrite <- pfilter_and. f_equal. apply pfilter_ext_in. intros x Hx. apply pure_of_pand; auto.
    - rewrite (rfilter_total p2 r H2). cbn [bind].
      rewrite rfilter_total; [reflexivity|]. eapply total_on_incl; [apply pfilter_incl|exact H1]. }
  split.
  - intros a Ha. apply rfilter_ok in Ha as [Ht ->]. apply pand_total_on in Ht as [H1 H2].
    destruct (Hcore H1 H2) as [Hl Hr]. rewrite Hr. eexists. split; [reflexivity|].
    rewrite rfilter_total in Hl by (apply pand_total_on; split; assumption).
    injection Hl as ->. apply bag_eq_refl.
  - intros H1 H2. destruct (Hcore H1 H2) as [-> ->]. apply bag_eq_refl.
Qed.

Example filter_and_split_ex :
  total_on (pexpr (EConst (VBool true))) [[VInt 1]] /\ total_on (pexpr (EIsNull false (ECol 0 0))) [[VInt 1]].
Proof. split; intros x [<-|[]]; eexists; reflexivity. Qed.

(* the converse direction does not hold: the conjunction evaluates p1 on rows the split plan never shows it *)
Theorem filter_and_split_converse_refuted :
  exists p1 p2 r out, (do r2 <- rfilter p2 r; rfilter p1 r2) = Ok out /\ exists e, rfilter (pand p1 p2) r = Err e.
Proof.
  exists (pexpr (ECmp CGt (EArith Div 64 (EConst (VInt 10)) (ECol 0 0)) (EConst (VInt 1)))),
         (pexpr (ECmp CNe (ECol 0 0) (EConst (VInt 0)))), [[VInt 0]; [VInt 2]].
  eexists. split; [vm_compute; reflexivity|]. eexists. vm_compute. reflexivity.
Qed.

Theorem filter_comm p1 p2 r :
  total_on p1 r -> total_on p2 r ->
  (do r2 <- rfilter p2 r; rfilter p1 r2) ≡r (do r1 <- rfilter p1 r; rfilter p2 r1).
Proof.
  intros H1 H2. rewrite (rfilter_total p2 r H2), (rfilter_total p1 r H1). cbn [bind].
  rewrite !rfilter_total by (eapply total_on_incl; [apply pfilter_incl|assumption]).
  apply bag_eq_of_eq, pfilter_comm.
Qed.

(* the link with the three-valued AND of Sql.v: collapsing `a AND b` = && of the collapsed operands *)
Lemma collapse_and3 a b :
  (do v <- and3 a b; collapse3 v) = (do x <- collapse3 a; do y <- collapse3 b; Ok (x && y)).
Proof. destruct a as [|[]| |], b as [|[]| |]; reflexivity. Qed.

Lemma collapse_or3 a b :
  (do v <- or3 a b; collapse3 v) = (do x <- collapse3 a; do y <- collapse3 b; Ok (x || y)).
Proof. destruct a as [|[]| |], b as [|[]| |]; reflexivity. Qed.

Definition res_same {A} (x y : res A) : Prop :=
  match x, y with Ok a, Ok b => a = b | Err _, Err _ => True | _, _ => False end.

(* WHERE e1 AND e2 as a collapsed predicate is the conjunction of the collapsed predicates (same value; when
   both sides fail they may name different errors) *)
Theorem pexpr_and e1 e2 x : res_same (pexpr (EAnd e1 e2) x) (pand (pexpr e1) (pexpr e2) x).
Proof.
  unfold pexpr, pand, opt_pred. cbn [eval_expr].
  destruct (eval_expr [] [x] e1) as [a|ea]; cbn [bind].
  - destruct (eval_expr [] [x] e2) as [b|eb]; cbn [bind].
    + pose proof (collapse_and3 a b) as H. unfold collapse3 in H.
      destruct a as [|[]| |], b as [|[]| |]; cbn; exact I || reflexivity.
    + destruct a as [|[]| |]; cbn; exact I.
  - exact I.
Qed.

(* ================================================================ 2. filters and inner joins *)

Lemma total_p_on_inner la ra (p pl on : list value -> res bool) a b :
  reads_leftR la p pl -> arity la a -> total_on pl a ->
  total_on p (pjoin JInner a b la ra (pure_of on)).
Proof.
  intros Hr Ha Ht x Hx. apply pjoin_inner_In in Hx as [l [r [Hl [_ ->]]]].
  rewrite (Hr l r (arity_In _ _ _ Ha Hl)). apply Ht, Hl.
Qed.

Theorem filter_pushdown_inner_left la ra (p pl on : list value -> res bool) a b :
  reads_leftR la p pl -> arity la a -> total_on pl a -> pairs_total on a b ->
  (do j <- rjoin JInner a b la ra on; rfilter p j) ≡r (do a' <- rfilter pl a; rjoin JInner a' b la ra on).
Proof.
  intros Hr Ha Htl Hto.
  rewrite (rjoin_total _ _ _ _ _ _ Hto), (rfilter_total pl a Htl). cbn [bind].
  rewrite rfilter_total by (eapply total_p_on_inner; eauto).
  rewrite rjoin_total by (eapply pairs_total_incl; [apply pfilter_incl|apply incl_refl|exact Hto]).
  apply bag_eq_of_eq, pjoin_inner_filter_left; [apply reads_leftR_pure, Hr|exact Ha].
Qed.

Example filter_pushdown_inner_left_ex :
  reads_leftR 1 (fun x => pexpr (ECmp CEq (ECol 0 0) (EConst (VInt 1))) (firstn 1 x))
                (pexpr (ECmp CEq (ECol 0 0) (EConst (VInt 1))))
  /\ arity 1 [[VInt 1]; [VNull]] /\ total_on (pexpr (ECmp CEq (ECol 0 0) (EConst (VInt 1)))) [[VInt 1]; [VNull]]
  /\ pairs_total (fun _ => Ok true) [[VInt 1]; [VNull]] [[VInt 2]].
Proof.
  split; [|split; [|split]].
  - intros x y Hx. rewrite firstn_app, Hx, Nat.sub_diag, <- Hx, firstn_all. cbn. rewrite app_nil_r. reflexivity.
  - repeat constructor.
  - intros x [<-|[<-|[]]]; eexists; reflexivity.
  - intros l r _ _. eexists; reflexivity.
Qed.

(* without the totality hypothesis the pushed plan evaluates pl on rows that find no partner: an error can
   APPEAR (this is the one place where the rule goes beyond "only removes evaluations") *)
Theorem filter_pushdown_inner_left_adds_error_witness :
  exists la ra (p pl on : list value -> res bool) a b out e,
    reads_leftR la p pl /\ arity la a /\
    (do j <- rjoin JInner a b la ra on; rfilter p j) = Ok out /\
    (do a' <- rfilter pl a; rjoin JInner a' b la ra on) = Err e.
Proof.
  exists 1%nat, 1%nat,
    (fun x => pexpr (ECmp CGt (EArith Div 64 (EConst (VInt 10)) (ECol 0 0)) (EConst (VInt 1))) (firstn 1 x)),
    (pexpr (ECmp CGt (EArith Div 64 (EConst (VInt 10)) (ECol 0 0)) (EConst (VInt 1)))),
    (pexpr (ECmp CEq (ECol 0 0) (ECol 0 1))), [[VInt 0]; [VInt 2]], [[VInt 2]].
  eexists. eexists. split; [|split; [|split]].
  - intros x y Hx. rewrite firstn_app, Hx, Nat.sub_diag, <- Hx, firstn_all. cbn [firstn]. rewrite app_nil_r. reflexivity.
  - repeat constructor.
  - vm_compute. reflexivity.
  - vm_compute. reflexivity.
Qed.

Theorem filter_pushdown_inner_right la ra (p pr on : list value -> res bool) a b :
  reads_rightR la p pr -> arity la a -> total_on pr b -> pairs_total on a b ->
  (do j <- rjoin JInner a b la ra on; rfilter p j) ≡r (do b' <- rfilter pr b; rjoin JInner a b' la ra on).
Proof.
  intros Hr Ha Htr Hto.
  rewrite (rjoin_total _ _ _ _ _ _ Hto), (rfilter_total pr b Htr). cbn [bind].
  rewrite rfilter_total.
  - rewrite rjoin_total by (eapply pairs_total_incl; [apply incl_refl|apply pfilter_incl|exact Hto]).
    apply bag_eq_of_eq, pjoin_inner_filter_right; [apply reads_rightR_pure, Hr|exact Ha].
  - intros x Hx. apply pjoin_inner_In in Hx as [l [r [Hl [Hrr ->]]]].
    rewrite (Hr l r (arity_In _ _ _ Ha Hl)). apply Htr, Hrr.
Qed.

Example filter_pushdown_inner_right_ex :
  reads_rightR 1 (fun x => pexpr (EIsNull false (ECol 0 0)) (skipn 1 x)) (pexpr (EIsNull false (ECol 0 0)))
  /\ arity 1 [[VInt 1]] /\ total_on (pexpr (EIsNull false (ECol 0 0))) [[VNull]]
  /\ pairs_total (fun _ => Ok true) [[VInt 1]] [[VNull]].
Proof.
  split; [|split; [|split]].
  - intros x y Hx. rewrite skipn_app, Hx, Nat.sub_diag, <- Hx, skipn_all. reflexivity.
  - repeat constructor.
  - intros x [<-|[]]; eexists; reflexivity.
  - intros l r _ _. eexists; reflexivity.
Qed.

(* a filter above an inner join is the same as one more conjunct of the join condition *)
Theorem filter_into_join_condition la ra (p on : list value -> res bool) a b :
  pairs_total on a b -> pairs_total p a b ->
  (do j <- rjoin JInner a b la ra on; rfilter p j) ≡r rjoin JInner a b la ra (pand on p).
Proof.
  intros Hto Htp.
  rewrite (rjoin_total _ _ _ _ _ _ Hto). cbn [bind].
  rewrite rfilter_total.
  - rewrite rjoin_total.
    + apply bag_eq_of_eq. rewrite pjoin_inner_filter_into_cond. apply pjoin_ext_in.
      intros l r Hl Hr. symmetry. apply pure_of_pand; [apply Hto|apply Htp]; assumption.
    + intros l r Hl Hr. destruct (Hto l r Hl Hr) as [v Hv], (Htp l r Hl Hr) as [w Hw].
      unfold pand. rewrite Hv, Hw. cbn [bind]. eauto.
  - intros x Hx. apply pjoin_inner_In in Hx as [l [r [Hl [Hr ->]]]]. apply Htp; assumption.
Qed.

Example filter_into_join_condition_ex :
  pairs_total (pexpr (ECmp CEq (ECol 0 0) (ECol 0 1))) [[VInt 1]] [[VInt 1]; [VNull]].
Proof. intros l r [<-|[]] [<-|[<-|[]]]; eexists; reflexivity. Qed.

(* CrossJoin + Filter -> inner join with that condition (pushdown_cross_join) *)
Theorem cross_filter_is_inner_join la ra (p : list value -> res bool) a b :
  rfilter p (rcross a b) = rjoin JInner a b la ra p.
Proof.
  unfold rfilter, rjoin, join_rows, rcross.
  rewrite flat_map_concat_map.
  assert (H : forall (a : list (list value)),
    mapM (fun x => do c <- p x; Ok (if c then [x] else [])) (concat (map (fun x => map (app x) b) a))
    = do parts <- mapM (fun l => mapM (fun r => do c <- p (l ++ r); Ok (if c then [l ++ r] else [])) b) a;
      Ok (concat parts)).
  { clear a. induction a as [|l a IH]; [reflexivity|].
    cbn [map concat]. rewrite mapM_app, mapM_cons, IH.
    assert (Hl : mapM (fun x => do c <- p x; Ok (if c then [x] else [])) (map (app l) b)
               = mapM (fun r => do c <- p (l ++ r); Ok (if c then [l ++ r] else [])) b).
    { clear. induction b as [|r b IHb]; [reflexivity|]. cbn [map]. rewrite !mapM_cons, IHb. reflexivity. }
    rewrite Hl.
    destruct (mapM (fun r => do c <- p (l ++ r); Ok (if c then [l ++ r] else [])) b); cbn [bind]; [|reflexivity].
    destruct (mapM (fun l0 => mapM (fun r => do c <- p (l0 ++ r); Ok (if c then [l0 ++ r] else [])) b) a);
      reflexivity. }
  rewrite H. clear H.
  induction a as [|l a IH]; [reflexivity|].
  rewrite !mapM_cons.
  destruct (mapM (fun r => do c <- p (l ++ r); Ok (if c then [l ++ r] else [])) b) as [ms|e]; cbn [bind]; [|reflexivity].
  destruct (mapM (fun l0 => mapM (fun r => do c <- p (l0 ++ r); Ok (if c then [l0 ++ r] else [])) b) a) as [pp|e];
    cbn [bind] in *.
  - destruct (mapM (fun l0 => do ms0 <- mapM (fun r => do c <- p (l0 ++ r); Ok (if c then [l0 ++ r] else [])) b;
                              Ok (concat ms0)) a) as [qq|e]; cbn [bind] in *; [|discriminate].
    injection IH as IH. cbn [concat]. rewrite concat_app, IH. reflexivity.
  - destruct (mapM (fun l0 => do ms0 <- mapM (fun r => do c <- p (l0 ++ r); Ok (if c then [l0 ++ r] else [])) b;
                              Ok (concat ms0)) a) as [qq|e']; cbn [bind] in *; [discriminate|].
    injection IH as ->. reflexivity.
Qed.

(* ================================================================ 3. filters and LEFT joins *)

(* a filter on the PRESERVED side may go below the LEFT join *)
Theorem filter_left_join_left_only la ra (p pl on : list value -> res bool) a b :
  reads_leftR la p pl -> arity la a -> total_on pl a -> pairs_total on a b ->
  (do j <- rjoin JLeft a b la ra on; rfilter p j) ≡r (do a' <- rfilter pl a; rjoin JLeft a' b la ra on).
Proof.
  intros Hr Ha Htl Hto.
  rewrite (rjoin_total _ _ _ _ _ _ Hto), (rfilter_total pl a Htl). cbn [bind].
  rewrite rfilter_total.
  - rewrite rjoin_total by (eapply pairs_total_incl; [apply pfilter_incl|apply incl_refl|exact Hto]).
    apply bag_eq_of_eq, pjoin_left_filter_left; [apply reads_leftR_pure, Hr|exact Ha].
  - intros x Hx. apply pjoin_left_In in Hx as [l [Hl [[r [_ ->]]| ->]]];
      rewrite (Hr l _ (arity_In _ _ _ Ha Hl)); apply Htl, Hl.
Qed.

Example filter_left_join_left_only_ex :
  reads_leftR 1 (fun x => pexpr (EIsNull true (ECol 0 0)) (firstn 1 x)) (pexpr (EIsNull true (ECol 0 0)))
  /\ arity 1 [[VInt 1]; [VNull]] /\ total_on (pexpr (EIsNull true (ECol 0 0))) [[VInt 1]; [VNull]]
  /\ pairs_total (pexpr (ECmp CEq (ECol 0 0) (ECol 0 1))) [[VInt 1]; [VNull]] [[VInt 2]].
Proof.
  split; [|split; [|split]].
  - intros x y Hx. rewrite firstn_app, Hx, Nat.sub_diag, <- Hx, firstn_all. cbn [firstn]. rewrite app_nil_r. reflexivity.
  - repeat constructor.
  - intros x [<-|[<-|[]]]; eexists; reflexivity.
  - intros l r [<-|[<-|[]]] [<-|[]]; eexists; reflexivity.
Qed.

Lemma not_perm_nil_cons {A} (x : A) l : ~ Permutation [] (x :: l).
Proof. intros H. apply Permutation_nil in H. discriminate. Qed.

(* ... but a filter on the NULL-SUPPLYING side may not: the NULL-padded row makes the difference.
   SELECT * FROM a LEFT JOIN b ON true WHERE b.y = 3   with a = {(1)}, b = {(2)}:
   original: no row; pushed below the join: (1, NULL). *)
Theorem filter_left_join_right_refuted :
  exists la ra (p pr on : list value -> res bool) a b o1 o2,
    reads_rightR la p pr /\ arity la a /\
    (do j <- rjoin JLeft a b la ra on; rfilter p j) = Ok o1 /\
    (do b' <- rfilter pr b; rjoin JLeft a b' la ra on) = Ok o2 /\ ~ (o1 ≡b o2).
Proof.
  exists 1%nat, 1%nat, (fun x => pexpr (ECmp CEq (ECol 0 0) (EConst (VInt 3))) (skipn 1 x)),
    (pexpr (ECmp CEq (ECol 0 0) (EConst (VInt 3)))), (fun _ => Ok true), [[VInt 1]], [[VInt 2]].
  eexists. eexists. split; [|split; [|split; [|split]]].
  - intros x y Hx. rewrite skipn_app, Hx, Nat.sub_diag, <- Hx, skipn_all. reflexivity.
  - repeat constructor.
  - vm_compute. reflexivity.
  - vm_compute. reflexivity.
  - apply not_perm_nil_cons.
Qed.

(* ON-clause of a LEFT join: a conjunct on the LEFT (preserved) side cannot be pushed into the left input.
   SELECT * FROM a LEFT JOIN b ON true AND a.x = 5   with a = {(1)}, b = {(2)}:
   original: (1, NULL); pushed: no row. *)
Theorem left_join_on_left_refuted :
  exists la ra (p pl on : list value -> res bool) a b o1 o2,
    reads_leftR la p pl /\ arity la a /\
    rjoin JLeft a b la ra (pand on p) = Ok o1 /\
    (do a' <- rfilter pl a; rjoin JLeft a' b la ra on) = Ok o2 /\ ~ (o1 ≡b o2).
Proof.
  exists 1%nat, 1%nat, (fun x => pexpr (ECmp CEq (ECol 0 0) (EConst (VInt 5))) (firstn 1 x)),
    (pexpr (ECmp CEq (ECol 0 0) (EConst (VInt 5)))), (fun _ => Ok true), [[VInt 1]], [[VInt 2]].
  eexists. eexists. split; [|split; [|split; [|split]]].
  - intros x y Hx. rewrite firstn_app, Hx, Nat.sub_diag, <- Hx, firstn_all. cbn [firstn]. rewrite app_nil_r. reflexivity.
  - repeat constructor.
  - vm_compute. reflexivity.
  - vm_compute. reflexivity.
  - intros H. apply Permutation_sym, not_perm_nil_cons in H. exact H.
Qed.

(* ... while a conjunct on the RIGHT side inside ON can be applied to the right input first
   (condition_extractor.rs: JoinType::Left => right_filter) *)
Theorem left_join_on_right_pushable la ra (p pr on : list value -> res bool) a b :
  reads_rightR la p pr -> arity la a -> total_on pr b -> pairs_total on a b ->
  rjoin JLeft a b la ra (pand on p) ≡r (do b' <- rfilter pr b; rjoin JLeft a b' la ra on).
Proof.
  intros Hr Ha Htr Hto.
  assert (Htp : pairs_total p a b).
  { intros l r Hl Hrr. rewrite (Hr l r (arity_In _ _ _ Ha Hl)). apply Htr, Hrr. }
  rewrite (rfilter_total pr b Htr). cbn [bind].
  rewrite rjoin_total.
  - rewrite rjoin_total by (eapply pairs_total_incl; [apply incl_refl|apply pfilter_incl|exact Hto]).
    apply bag_eq_of_eq.
    rewrite <- (pjoin_left_on_right la ra (pure_of p)); [|apply reads_rightR_pure, Hr|exact Ha].
    apply pjoin_ext_in. intros l r Hl Hrr. apply pure_of_pand; [apply Hto|apply Htp]; assumption.
  - intros l r Hl Hrr. destruct (Hto l r Hl Hrr) as [v Hv], (Htp l r Hl Hrr) as [w Hw].
    unfold pand. rewrite Hv, Hw. cbn [bind]. eauto.
Qed.

Example left_join_on_right_pushable_ex :
  reads_rightR 1 (fun x => pexpr (EIsNull true (ECol 0 0)) (skipn 1 x)) (pexpr (EIsNull true (ECol 0 0)))
  /\ arity 1 [[VInt 1]] /\ total_on (pexpr (EIsNull true (ECol 0 0))) [[VNull]; [VInt 1]]
  /\ pairs_total (pexpr (ECmp CEq (ECol 0 0) (ECol 0 1))) [[VInt 1]] [[VNull]; [VInt 1]].
Proof.
  split; [|split; [|split]].
  - intros x y Hx. rewrite skipn_app, Hx, Nat.sub_diag, <- Hx, skipn_all. reflexivity.
  - repeat constructor.
  - intros x [<-|[<-|[]]]; eexists; reflexivity.
  - intros l r [<-|[]] [<-|[<-|[]]]; eexists; reflexivity.
Qed.

(* mirror image for RIGHT joins (JoinType::Right => left_filter) *)
Theorem right_join_on_left_pushable la ra (p pl on : list value -> res bool) a b :
  reads_leftR la p pl -> arity la a -> total_on pl a -> pairs_total on a b ->
  rjoin JRight a b la ra (pand on p) ≡r (do a' <- rfilter pl a; rjoin JRight a' b la ra on).
Proof.
  intros Hr Ha Htl Hto.
  assert (Htp : pairs_total p a b).
  { intros l r Hl Hrr. rewrite (Hr l r (arity_In _ _ _ Ha Hl)). apply Htl, Hl. }
  rewrite (rfilter_total pl a Htl). cbn [bind].
  rewrite rjoin_total.
  - rewrite rjoin_total by (eapply pairs_total_incl; [apply pfilter_incl|apply incl_refl|exact Hto]).
    apply bag_eq_of_eq.
    rewrite <- (pjoin_right_on_left la ra (pure_of p)); [|apply reads_leftR_pure, Hr|exact Ha].
    apply pjoin_ext_in. intros l r Hl Hrr. apply pure_of_pand; [apply Hto|apply Htp]; assumption.
  - intros l r Hl Hrr. destruct (Hto l r Hl Hrr) as [v Hv], (Htp l r Hl Hrr) as [w Hw].
    unfold pand. rewrite Hv, Hw. cbn [bind]. eauto.
Qed.

(* ================================================================ 4. semi / anti joins, projections *)

Theorem filter_pushdown_semi_anti k la ra (pl on : list value -> res bool) a b :
  k = JSemi \/ k = JAnti -> total_on pl a -> pairs_total on a b ->
  (do j <- rjoin k a b la ra on; rfilter pl j) ≡r (do a' <- rfilter pl a; rjoin k a' b la ra on).
Proof.
  intros Hk Htl Hto.
  rewrite (rjoin_total _ _ _ _ _ _ Hto), (rfilter_total pl a Htl). cbn [bind].
  assert (Hin : incl (pjoin k a b la ra (pure_of on)) a).
  { intros x Hx. destruct Hk as [-> | ->]; cbn [pjoin] in Hx; apply in_flat_map in Hx as [l [Hl Hx]];
      destruct (existsb _ b); try destruct Hx as [<-|[]]; try destruct Hx; exact Hl. }
  rewrite rfilter_total by (eapply total_on_incl; eauto).
  rewrite rjoin_total by (eapply pairs_total_incl; [apply pfilter_incl|apply incl_refl|exact Hto]).
  apply bag_eq_of_eq. destruct Hk as [-> | ->]; [apply pjoin_semi_filter|apply pjoin_anti_filter].
Qed.

Example filter_pushdown_semi_anti_ex :
  (JSemi = JSemi \/ JSemi = JAnti) /\ total_on (fun _ => Ok true) [[VInt 1]] /\
  pairs_total (fun _ => Ok true) [[VInt 1]] [[VInt 1]].
Proof. split; [left; reflexivity|split]; [intros x _|intros l r _ _]; eexists; reflexivity. Qed.

(* filter after a projection = projection after the filter with the projection substituted into the
   predicate (pushdown_project / replace_references); the pushed plan evaluates f on fewer rows *)
Theorem filter_through_project (p : list value -> res bool) (f : list value -> res (list value)) r :
  total_on f r -> total_on (fun x => do y <- f x; p y) r ->
  (do o <- rproject f r; rfilter p o) ≡r (do r' <- rfilter (fun x => do y <- f x; p y) r; rproject f r').
Proof.
  intros Hf Hp.
  rewrite (rproject_total f r Hf), (rfilter_total _ r Hp). cbn [bind].
  rewrite rfilter_total.
  - rewrite rproject_total by (eapply total_on_incl; [apply pfilter_incl|exact Hf]).
    apply bag_eq_of_eq. rewrite pfilter_project. unfold pproject. f_equal.
    apply pfilter_ext_in. intros x Hx. unfold pure_of.
    destruct (Hf x Hx) as [y Hy]. rewrite Hy. reflexivity.
  - intros y Hy. unfold pproject in Hy. apply in_map_iff in Hy as [x [<- Hx]].
    destruct (Hp x Hx) as [v Hv]. destruct (Hf x Hx) as [y Hy]. rewrite Hy in Hv |- *. cbn [bind unres] in *. eauto.
Qed.

Example filter_through_project_ex :
  total_on (fun x => Ok (x ++ x)) [[VInt 1]] /\
  total_on (fun x => do y <- Ok (x ++ x); pexpr (EIsNull true (ECol 0 1)) y) [[VInt 1]].
Proof. split; intros x [<-|[]]; eexists; reflexivity. Qed.

(* filters pass DISTINCT and (as bags) ORDER BY unchanged: pushdown_distinct, pushdown_order_by *)
Theorem filter_through_distinct (p : list value -> res bool) r :
  total_on p r -> rfilter p (rdistinct r) ≡r (do r' <- rfilter p r; Ok (rdistinct r')).
Proof.
  intros Hp. rewrite (rfilter_total p r Hp). cbn [bind].
  rewrite rfilter_total.
  - apply bag_eq_of_eq, pfilter_distinct.
  - intros x Hx. apply Hp. apply dedup_rows_In, Hx.
Qed.

Theorem filter_through_sort keys (p : list value -> res bool) r :
  total_on p r -> rfilter p (rsort keys r) ≡r (do r' <- rfilter p r; Ok (rsort keys r')).
Proof.
  intros Hp. rewrite (rfilter_total p r Hp). cbn [bind].
  rewrite rfilter_total.
  - apply pfilter_sort_bag.
  - intros x Hx. apply Hp. eapply Permutation_in; [apply sort_by_perm|exact Hx].
Qed.

(* ================================================================ 5. limits *)

(* LimitPushdown: Limit(Project(x)) -> Project(Limit(x)); as LISTS (order preserved); the rewritten plan
   evaluates f on fewer rows *)
Theorem limit_project_comm off lim (f : list value -> res (list value)) r out :
  rproject f r = Ok out -> rproject f (rlimit off lim r) = Ok (rlimit off lim out).
Proof.
  intros H. unfold rproject in *.
  assert (Ht : total_on f r) by (intros x Hx; eapply mapM_ok_total; eauto).
  rewrite (mapM_total f (fun x => unres [] (f x)) r) in H by (apply total_on_unres, Ht).
  injection H as <-.
  rewrite (mapM_total f (fun x => unres [] (f x))).
  - rewrite rlimit_map. reflexivity.
  - apply total_on_unres. eapply total_on_incl; [apply rlimit_incl|exact Ht].
Qed.

Example limit_project_comm_ex : rproject (fun x => Ok (x ++ x)) [[VInt 1]; [VInt 2]] = Ok [[VInt 1; VInt 1]; [VInt 2; VInt 2]].
Proof. reflexivity. Qed.

(* the limit removes evaluations: the original may fail on a row beyond the limit *)
Theorem limit_project_removes_error_witness :
  exists off lim (f : list value -> res (list value)) r e out,
    rproject f r = Err e /\ rproject f (rlimit off lim r) = Ok out.
Proof.
  exists 0%nat, (Some 1%nat), (fun x => mapM (eval_expr [] [x]) [EArith Div 64 (EConst (VInt 10)) (ECol 0 0)]),
    [[VInt 5]; [VInt 0]]. eexists. eexists. split; vm_compute; reflexivity.
Qed.

(* SortLimitHint: ORDER BY .. LIMIT n OFFSET off only needs the first n + off rows of the sort *)
Theorem sort_limit_hint_sound keys off n r :
  rlimit off (Some n) (firstn (n + off) (rsort keys r)) = rlimit off (Some n) (rsort keys r).
Proof. apply rlimit_firstn_hint. Qed.

(* ================================================================ 6. expression rewrites *)

(* DistributiveOrRewrite: (a AND b) OR (a AND c) = a AND (b OR c), for ALL values (type errors included) *)
Theorem distributive_or_sound a b c :
  (do x <- and3 a b; do y <- and3 a c; or3 x y) = (do z <- or3 b c; and3 a z).
Proof. destruct a as [|[]|?|?], b as [|[]|?|?], c as [|[]|?|?]; reflexivity. Qed.

Definition is_tv (v : value) : bool := match v with VNull | VBool _ => true | _ => false end.

(* absorption, the case the rule gets wrong: a OR (a AND b) = a *)
Theorem or_absorption a b : is_tv a = true -> is_tv b = true -> (do y <- and3 a b; or3 a y) = Ok a.
Proof. destruct a as [|[]|?|?], b as [|[]|?|?]; cbn; intros; try discriminate; reflexivity. Qed.

Example or_absorption_ex : is_tv (VBool true) = true /\ is_tv VNull = true.
Proof. split; reflexivity. Qed.

(* UnnestConjunctionRewrite: associativity (and commutativity) of the three-valued connectives *)
Theorem and3_assoc a b c : (do x <- and3 a b; and3 x c) = (do y <- and3 b c; and3 a y).
Proof. destruct a as [|[]|?|?], b as [|[]|?|?], c as [|[]|?|?]; reflexivity. Qed.
Theorem or3_assoc a b c : (do x <- or3 a b; or3 x c) = (do y <- or3 b c; or3 a y).
Proof. destruct a as [|[]|?|?], b as [|[]|?|?], c as [|[]|?|?]; reflexivity. Qed.
Theorem and3_comm a b : and3 a b = and3 b a.
Proof. destruct a as [|[]|?|?], b as [|[]|?|?]; reflexivity. Qed.
Theorem or3_comm a b : or3 a b = or3 b a.
Proof. destruct a as [|[]|?|?], b as [|[]|?|?]; reflexivity. Qed.

(* n-ary conjunction / disjunction (ConjunctionExpr with a Vec of operands) *)
Definition conj3 (l : list value) : res value := fold_right (fun v acc => do a <- acc; and3 v a) (Ok (VBool true)) l.
Definition disj3 (l : list value) : res value := fold_right (fun v acc => do a <- acc; or3 v a) (Ok (VBool false)) l.

Lemma and3_ok_tv a b v : and3 a b = Ok v -> is_tv v = true.
Proof. destruct a as [|[]|?|?], b as [|[]|?|?]; cbn; intros [= <-] || discriminate; reflexivity. Qed.
Lemma or3_ok_tv a b v : or3 a b = Ok v -> is_tv v = true.
Proof. destruct a as [|[]|?|?], b as [|[]|?|?]; cbn; intros [= <-] || discriminate; reflexivity. Qed.
Lemma and3_err a b e : and3 a b = Err e -> e = EType.
Proof. destruct a as [|[]|?|?], b as [|[]|?|?]; cbn; intros [= <-] || discriminate; reflexivity. Qed.
Lemma or3_err a b e : or3 a b = Err e -> e = EType.
Proof. destruct a as [|[]|?|?], b as [|[]|?|?]; cbn; intros [= <-] || discriminate; reflexivity. Qed.

Lemma conj3_ok_tv l v : conj3 l = Ok v -> is_tv v = true.
Proof.
  destruct l as [|x l]; cbn; [intros [= <-]; reflexivity|].
  destruct (fold_right _ _ l) as [a|e]; cbn [bind]; [apply and3_ok_tv|discriminate].
Qed.
Lemma conj3_err l e : conj3 l = Err e -> e = EType.
Proof.
  induction l as [|x l IH]; cbn; [discriminate|]. fold (conj3 l).
  destruct (conj3 l) as [a|e']; cbn [bind]; [apply and3_err|]. intros [= <-]. apply IH. reflexivity.
Qed.
Lemma disj3_ok_tv l v : disj3 l = Ok v -> is_tv v = true.
Proof.
  destruct l as [|x l]; cbn; [intros [= <-]; reflexivity|].
  destruct (fold_right _ _ l) as [a|e]; cbn [bind]; [apply or3_ok_tv|discriminate].
Qed.
Lemma disj3_err l e : disj3 l = Err e -> e = EType.
Proof.
  induction l as [|x l IH]; cbn; [discriminate|]. fold (disj3 l).
  destruct (disj3 l) as [a|e']; cbn [bind]; [apply or3_err|]. intros [= <-]. apply IH. reflexivity.
Qed.

Lemma and3_true_l b : is_tv b = true -> and3 (VBool true) b = Ok b.
Proof. destruct b as [|[]|?|?]; cbn; intros; try discriminate; reflexivity. Qed.
Lemma or3_false_l b : is_tv b = true -> or3 (VBool false) b = Ok b.
Proof. destruct b as [|[]|?|?]; cbn; intros; try discriminate; reflexivity. Qed.

(* flattening: a AND (b AND c) => a AND b AND c, for any nesting depth (apply repeatedly) *)
Theorem unnest_conjunction_and l1 l2 :
  conj3 (l1 ++ l2) = (do a <- conj3 l1; do b <- conj3 l2; and3 a b).
Proof.
  induction l1 as [|v l1 IH].
  - cbn [app]. change (conj3 []) with (Ok (VBool true)). cbn [bind].
    destruct (conj3 l2) as [b|e] eqn:Hb; cbn [bind]; [|reflexivity].
    symmetry. apply and3_true_l. eapply conj3_ok_tv; eauto.
  - cbn [app]. change (conj3 (v :: l1 ++ l2)) with (do a <- conj3 (l1 ++ l2); and3 v a).
    change (conj3 (v :: l1)) with (do a <- conj3 l1; and3 v a). rewrite IH.
    destruct (conj3 l1) as [x|e]; cbn [bind]; [|reflexivity].
    destruct (conj3 l2) as [y|e] eqn:Hy; cbn [bind].
    + symmetry. apply and3_assoc.
    + apply conj3_err in Hy. subst e. destruct (and3 v x) as [t|e] eqn:Hv; [reflexivity|].
      apply and3_err in Hv. subst e. reflexivity.
Qed.

Theorem unnest_conjunction_or l1 l2 :
  disj3 (l1 ++ l2) = (do a <- disj3 l1; do b <- disj3 l2; or3 a b).
Proof.
  induction l1 as [|v l1 IH].
  - cbn [app]. change (disj3 []) with (Ok (VBool false)). cbn [bind].
    destruct (disj3 l2) as [b|e] eqn:Hb; cbn [bind]; [|reflexivity].
    symmetry. apply or3_false_l. eapply disj3_ok_tv; eauto.
  - cbn [app]. change (disj3 (v :: l1 ++ l2)) with (do a <- disj3 (l1 ++ l2); or3 v a).
    change (disj3 (v :: l1)) with (do a <- disj3 l1; or3 v a). rewrite IH.
    destruct (disj3 l1) as [x|e]; cbn [bind]; [|reflexivity].
    destruct (disj3 l2) as [y|e] eqn:Hy; cbn [bind].
    + symmetry. apply or3_assoc.
    + apply disj3_err in Hy. subst e. destruct (or3 v x) as [t|e] eqn:Hv; [reflexivity|].
      apply or3_err in Hv. subst e. reflexivity.
Qed.

(* the value of an n-ary AND does not depend on the order of its operands (strict evaluation) *)
Theorem conj3_perm l l' : Permutation l l' -> conj3 l = conj3 l'.
Proof.
  induction 1 as [|x l l' H IH|x y l|l l' l'' H1 IH1 H2 IH2].
  - reflexivity.
  - change (conj3 (x :: l)) with (do a <- conj3 l; and3 x a). rewrite IH. reflexivity.
  - change (conj3 (y :: x :: l)) with (do b <- (do a <- conj3 l; and3 x a); and3 y b).
    change (conj3 (x :: y :: l)) with (do b <- (do a <- conj3 l; and3 y a); and3 x b).
    destruct (conj3 l) as [a|e]; cbn [bind]; [|reflexivity].
    destruct x as [|[]|?|?], y as [|[]|?|?], a as [|[]|?|?]; reflexivity.
  - congruence.
Qed.

(* JoinFilterOrRewrite: ((a1 AND b1) OR (a2 AND b2)) => (a1 OR a2) AND (b1 OR b2) AND <original>;
   the added disjunctions are implied by the original, so the VALUE is unchanged (not only its truth) *)
Theorem join_filter_or_sound a1 b1 a2 b2 :
  (do o1 <- or3 a1 a2; do o2 <- or3 b1 b2; do t <- and3 o1 o2;
   do o <- (do x <- and3 a1 b1; do y <- and3 a2 b2; or3 x y); and3 t o)
  = (do x <- and3 a1 b1; do y <- and3 a2 b2; or3 x y).
Proof.
  destruct a1 as [|[]|?|?], b1 as [|[]|?|?], a2 as [|[]|?|?], b2 as [|[]|?|?]; reflexivity.
Qed.

(* the rule also merges several single-table conjuncts of one disjunct into the same OR:
   (a1 AND a1' AND b1) OR (a2 AND b2) => (a1 OR a1' OR a2) AND (b1 OR b2) AND <original> *)
Theorem join_filter_or_sound_flat a1 a1' b1 a2 b2 :
  let orig := (do x0 <- and3 a1 a1'; do x <- and3 x0 b1; do y <- and3 a2 b2; or3 x y) in
  (do o0 <- or3 a1 a1'; do o1 <- or3 o0 a2; do o2 <- or3 b1 b2; do t <- and3 o1 o2; do o <- orig; and3 t o) = orig.
Proof.
  destruct a1 as [|[]|?|?], a1' as [|[]|?|?], b1 as [|[]|?|?], a2 as [|[]|?|?], b2 as [|[]|?|?]; reflexivity.
Qed.

(* FilterGenerator (generator.rs): from a = b and b = c it emits a = c as an additional filter *)
Lemma eq_true_eq a b : eq_true a b = true -> a = b /\ a <> VNull.
Proof.
  unfold eq_true, cmp3. destruct a as [|x|x|x], b as [|y|y|y]; cbn; try discriminate.
  - destruct x, y; try discriminate; split; congruence.
  - destruct (Z.compare x y) eqn:Hc; try discriminate. apply Z.compare_eq in Hc. split; congruence.
  - destruct (lex_cmp x y) eqn:Hc; try discriminate. apply lex_cmp_eq_iff in Hc. split; congruence.
Qed.

Theorem generated_equality_sound a b c : eq_true a b = true -> eq_true b c = true -> eq_true a c = true.
Proof. intros H1 H2. apply eq_true_eq in H1 as [-> _]. exact H2. Qed.

Example generated_equality_sound_ex : eq_true (VInt 1) (VInt 1) = true.
Proof. reflexivity. Qed.

(* ---------------------------------------------------------------- ConstFold *)

(* closed expressions: no column reference, no subquery *)
Inductive cexpr :=
| CConst (v : value)
| CCmp (op : cmpop) (a b : cexpr)
| CDistinct (neg : bool) (a b : cexpr)
| CAnd (a b : cexpr) | COr (a b : cexpr) | CNot (a : cexpr)
| CIsNull (neg : bool) (a : cexpr)
| CArith (op : binop) (w : N) (a b : cexpr)
| CNeg (w : N) (a : cexpr).

Fixpoint to_expr (c : cexpr) : expr :=
  match c with
  | CConst v => EConst v
  | CCmp op a b => ECmp op (to_expr a) (to_expr b)
  | CDistinct n a b => EDistinct n (to_expr a) (to_expr b)
  | CAnd a b => EAnd (to_expr a) (to_expr b)
  | COr a b => EOr (to_expr a) (to_expr b)
  | CNot a => ENot (to_expr a)
  | CIsNull n a => EIsNull n (to_expr a)
  | CArith op w a b => EArith op w (to_expr a) (to_expr b)
  | CNeg w a => ENeg w (to_expr a)
  end.

Lemma closed_eval_invariant c : forall d en d' en', eval_expr d en (to_expr c) = eval_expr d' en' (to_expr c).
Proof.
  induction c as [v|op a IHa b IHb|n a IHa b IHb|a IHa b IHb|a IHa b IHb|a IHa|n a IHa|op w a IHa b IHb|w a IHa];
    intros d en d' en'; cbn [to_expr eval_expr];
    try rewrite (IHa d en d' en'); try rewrite (IHb d en d' en'); reflexivity.
Qed.

(* replacing a closed expression by the literal it evaluates to is sound in every database / environment *)
Theorem const_fold_sound c v d0 en0 :
  eval_expr d0 en0 (to_expr c) = Ok v ->
  forall d en, eval_expr d en (to_expr c) = eval_expr d en (EConst v).
Proof. intros H d en. rewrite (closed_eval_invariant c d en d0 en0). exact H. Qed.

Example const_fold_sound_ex :
  eval_expr [] [] (to_expr (CArith Add 64 (CConst (VInt 1)) (CConst (VInt 2)))) = Ok (VInt 3).
Proof. reflexivity. Qed.

(* ... but folding at plan time evaluates the constant even when no row would: over an empty input the
   original returns no rows and no error, the folder reports the error *)
Theorem const_fold_plan_time_error_witness :
  exists c e, eval_expr [] [] (to_expr c) = Err e /\
              rproject (fun x => mapM (eval_expr [] [x]) [to_expr c]) [] = Ok [].
Proof.
  exists (CArith Div 64 (CConst (VInt 1)) (CConst (VInt 0))). eexists. split; vm_compute; reflexivity.
Qed.

(* ---------------------------------------------------------------- SelectionReorder *)

Lemma rfilter_ext_in (p q : list value -> res bool) r : (forall x, In x r -> p x = q x) -> rfilter p r = rfilter q r.
Proof.
  intros H. unfold rfilter.
  assert (He : mapM (fun x => do b <- p x; Ok (if b then [x] else [])) r
             = mapM (fun x => do b <- q x; Ok (if b then [x] else [])) r).
  { induction r as [|x r IH]; [reflexivity|]. rewrite !mapM_cons, (H x (or_introl eq_refl)), IH; [reflexivity|].
    intros y Hy. apply H. right. exact Hy. }
  rewrite He. reflexivity.
Qed.

Lemma pand_all_sc_total (ps : list (list value -> res bool)) x :
  (forall p, In p ps -> exists b, p x = Ok b) ->
  pand_all_sc ps x = Ok (forallb (fun p => pure_of p x) ps).
Proof.
  induction ps as [|p ps IH]; intros H; [reflexivity|].
  cbn [pand_all_sc fold_right forallb]. unfold pand_sc at 1. fold (pand_all_sc ps).
  destruct (H p (or_introl eq_refl)) as [b Hb]. unfold pure_of at 1. rewrite Hb. cbn [bind unres].
  destruct b; cbn [andb]; [|reflexivity]. apply IH. intros q Hq. apply H. right. exact Hq.
Qed.

Lemma forallb_perm {A} (f : A -> bool) l l' : Permutation l l' -> forallb f l = forallb f l'.
Proof.
  induction 1 as [|x l l' H IH|x y l|l l' l'' H1 IH1 H2 IH2]; cbn.
  - reflexivity.
  - rewrite IH. reflexivity.
  - destruct (f x), (f y); reflexivity.
  - congruence.
Qed.

(* reordering the conjuncts of a filter (evaluated left to right with short-circuit) does not change the
   result when no conjunct errors on a row of the input *)
Theorem selection_reorder_sound (ps ps' : list (list value -> res bool)) r :
  Permutation ps ps' -> (forall p, In p ps -> total_on p r) ->
  rfilter (pand_all_sc ps) r = rfilter (pand_all_sc ps') r.
Proof.
  intros Hperm Ht. apply rfilter_ext_in. intros x Hx.
  rewrite !pand_all_sc_total.
  - rewrite (forallb_perm _ _ _ Hperm). reflexivity.
  - intros p Hp. apply (Ht p); [eapply Permutation_in; [apply Permutation_sym, Hperm|exact Hp]|exact Hx].
  - intros p Hp. apply (Ht p Hp x Hx).
Qed.

Example selection_reorder_sound_ex :
  Permutation [pexpr (EConst (VBool true)); pexpr (EIsNull false (ECol 0 0))]
              [pexpr (EIsNull false (ECol 0 0)); pexpr (EConst (VBool true))]
  /\ (forall p, In p [pexpr (EConst (VBool true)); pexpr (EIsNull false (ECol 0 0))] -> total_on p [[VInt 1]]).
Proof.
  split; [apply perm_swap|]. intros p [<-|[<-|[]]] x [<-|[]]; eexists; reflexivity.
Qed.

(* with an erroring conjunct the order is observable: the permitted difference, in both directions *)
Theorem selection_reorder_error_witness :
  exists (p q : list value -> res bool) r e,
    rfilter (pand_all_sc [p; q]) r = Ok [] /\ rfilter (pand_all_sc [q; p]) r = Err e.
Proof.
  exists (pexpr (ECmp CNe (ECol 0 0) (EConst (VInt 0)))),
         (pexpr (ECmp CGt (EArith Div 64 (EConst (VInt 10)) (ECol 0 0)) (EConst (VInt 1)))),
         [[VInt 0]]. eexists. split; vm_compute; reflexivity.
Qed.

(* ---------------------------------------------------------------- the DistributiveOrRewrite RULE *)

(* faithful model of maybe_rewrite_or for an OR whose children are ANDs of atoms (a non-AND child is the
   one-element list).  Atoms are numbered; a valuation gives each atom its three-valued value. *)
Definition mem (n : nat) (l : list nat) : bool := existsb (Nat.eqb n) l.
Fixpoint dedup_nat (l : list nat) : list nat :=
  match l with [] => [] | x :: l' => x :: filter (fun y => negb (Nat.eqb x y)) (dedup_nat l') end.

Definition dor_common (children : list (list nat)) : list nat :=
  match children with
  | [] => []
  | c :: rest => filter (fun e => forallb (mem e) rest) (dedup_nat c)
  end.

(* Some (common, residual OR children) or None when the rule leaves the OR alone *)
Definition dor_rule (children : list (list nat)) : option (list nat * list (list nat)) :=
  match dor_common children with
  | [] => None
  | common =>
      Some (common,
            flat_map (fun c => match filter (fun e => negb (mem e common)) c with
                               | [] => []          (* "All AND expressions were pulled out." : child dropped *)
                               | r => [r]
                               end) children)
  end.

(* the repair: a child that disappears makes the residual OR true *)
Definition dor_rule_fixed (children : list (list nat)) : option (list nat * list (list nat)) :=
  match dor_common children with
  | [] => None
  | common =>
      let rs := map (fun c => filter (fun e => negb (mem e common)) c) children in
      Some (common, if existsb (fun r => match r with [] => true | _ => false end) rs then [] else rs)
  end.

Definition ev_and (rho : nat -> value) (c : list nat) : res value := conj3 (map rho c).
Definition ev_dnf (rho : nat -> value) (cs : list (list nat)) : res value :=
  do vs <- mapM (ev_and rho) cs; disj3 vs.
Definition ev_rule (rho : nat -> value) (r : list nat * list (list nat)) : res value :=
  do k <- ev_and rho (fst r);
  match snd r with
  | [] => Ok k
  | [c] => do v <- ev_and rho c; and3 k v
  | cs => do v <- ev_dnf rho cs; and3 k v
  end.

(* a OR (a AND b)  with a = TRUE, b = FALSE: the original is TRUE, the rewritten expression FALSE *)
Theorem distributive_or_rule_absorb_refuted :
  exists children rho r,
    dor_rule children = Some r /\ ev_dnf rho children = Ok (VBool true) /\ ev_rule rho r = Ok (VBool false).
Proof.
  exists [[0]; [0; 1]]%nat, (fun n => match n with O => VBool true | _ => VBool false end).
  eexists. split; [vm_compute; reflexivity|split; vm_compute; reflexivity].
Qed.

(* exhaustive check: every OR of up to 3 children over the atoms {0,1,2}, every three-valued valuation *)
Definition tv3 : list value := [VNull; VBool false; VBool true].
Definition subsets3 : list (list nat) := [[0]; [1]; [2]; [0;1]; [0;2]; [1;2]; [0;1;2]]%nat.
Definition shapes3 : list (list (list nat)) :=
  flat_map (fun a => flat_map (fun b => [[a; b]] ++ map (fun c => [a; b; c]) subsets3) subsets3) subsets3.
Definition valuations3 : list (nat -> value) :=
  flat_map (fun a => flat_map (fun b => map (fun c => fun n => match n with O => a | S O => b | _ => c end) tv3) tv3) tv3.
Definition res_value_eqb (x y : res value) : bool :=
  match x, y with
  | Ok a, Ok b => val_same a b
  | Err _, Err _ => true
  | _, _ => false
  end.
Definition rule_agrees (rule : list (list nat) -> option (list nat * list (list nat))) (cs : list (list nat)) : bool :=
  match rule cs with
  | None => true
  | Some r => forallb (fun rho => res_value_eqb (ev_dnf rho cs) (ev_rule rho r)) valuations3
  end.
Definition no_child_eliminated (cs : list (list nat)) : bool :=
  match dor_rule cs with None => true | Some r => Nat.eqb (length (snd r)) (length cs) end.

(* the rule as written is sound on every shape in which no child is eliminated ... *)
Theorem distributive_or_rule_bounded_partial :
  forallb (fun cs => implb (no_child_eliminated cs) (rule_agrees dor_rule cs)) shapes3 = true.
Proof. vm_compute. reflexivity. Qed.

(* ... and the repaired rule on every shape *)
Theorem distributive_or_rule_fixed_bounded :
  forallb (rule_agrees dor_rule_fixed) shapes3 = true.
Proof. vm_compute. reflexivity. Qed.

(* ================================================================ 4b. filter below an aggregate *)

Lemma filter_group_insert (pk : list value -> bool) k (r : list value) gs :
  filter (fun g => pk (fst g)) (group_insert k r gs)
  = if pk k then group_insert k r (filter (fun g => pk (fst g)) gs) else filter (fun g : list value * list (list value) => pk (fst g)) gs.
Proof.
  induction gs as [|[k' rs] gs IH].
  - cbn. destruct (pk k); reflexivity.
  - cbn [group_insert]. destruct (row_same k k') eqn:Hs.
    + apply row_same_eq in Hs. subst k'. cbn [filter fst]. destruct (pk k) eqn:Hp.
      * cbn [group_insert]. rewrite row_same_refl. reflexivity.
      * reflexivity.
    + cbn [filter fst]. rewrite IH. destruct (pk k') eqn:Hp', (pk k) eqn:Hp; try reflexivity.
      cbn [group_insert]. rewrite Hs. reflexivity.
Qed.

Lemma filter_group_rows_acc (pk : list value -> bool) (kv : list (list value * list value)) gs :
  filter (fun g => pk (fst g)) (fold_left (fun gs p => group_insert (fst p) (snd p) gs) kv gs)
  = fold_left (fun gs p => group_insert (fst p) (snd p) gs) (filter (fun p => pk (fst p)) kv)
      (filter (fun g => pk (fst g)) gs).
Proof.
  revert gs. induction kv as [|[k r] kv IH]; intros gs; [reflexivity|].
  cbn [fold_left filter fst snd]. rewrite IH, filter_group_insert.
  destruct (pk k); reflexivity.
Qed.

Lemma filter_map_comm {A B} (P : B -> bool) (Q : A -> bool) (f : A -> B) l :
  (forall x, P (f x) = Q x) -> filter P (map f l) = map f (filter Q l).
Proof.
  intros H. induction l as [|x l IH]; [reflexivity|]. cbn [map filter]. rewrite H, IH.
  destruct (Q x); reflexivity.
Qed.

(* pushdown_aggregate: a filter that reads only GROUP BY keys commutes with grouping + aggregation
   (P is the filter over the aggregate's output row, pk the same predicate over the key) *)
Theorem filter_through_aggregate_on_keys (P pk : list value -> bool) key out (r : list (list value)) :
  (forall g, P (out g) = pk (fst g)) ->
  pfilter P (pagg false key out r) = pagg false key out (pfilter (fun x => pk (key x)) r).
Proof.
  intros HP. unfold pagg, pgroups, group_rows, pfilter.
  assert (Hm : forall gs : list (list value * list (list value)),
             filter P (map out gs) = map out (filter (fun g => pk (fst g)) gs)).
  { intros gs. apply filter_map_comm. exact HP. }
  assert (Hg : forall l : list (list value * list (list value)), match l with [] => l | _ => l end = l) by (intros []; reflexivity).
  cbv beta iota. rewrite Hm, filter_group_rows_acc. cbn [filter]. f_equal. f_equal.
  clear. induction r as [|x r IH]; [reflexivity|]. cbn [map filter fst]. destruct (pk (key x)); cbn [map]; rewrite IH; reflexivity.
Qed.

Example filter_through_aggregate_on_keys_ex :
  forall g : list value * list (list value),
    (fun o => is_true (hd VNull o)) ((fun g => fst g ++ [VInt (Z.of_nat (length (snd g)))]) g)
    = (fun k => match k with [] => is_true (VInt (Z.of_nat (length (snd g)))) | v :: _ => is_true v end) (fst g).
Proof. intros [[|v k] rs]; reflexivity. Qed.

(* the global aggregate (no GROUP BY) is different: a filter must NOT be pushed below it, the empty input
   still produces one row.  (pushdown_aggregate: grouping_sets = None => the filter stays above) *)
Theorem filter_through_global_aggregate_refuted :
  exists (P pk : list value -> bool) key out (r : list (list value)),
    (forall g, P (out g) = pk (fst g)) /\
    pfilter P (pagg true key out r) <> pagg true key out (pfilter (fun x => pk (key x)) r).
Proof.
  exists (fun _ => false), (fun _ => false), (fun _ => []),
         (fun g => [VInt (Z.of_nat (length (snd g)))]), [[VInt 1]].
  split; [reflexivity|]. vm_compute. discriminate.
Qed.
