(* C04 — proofs about the nested-loop join barrier model (model/BarrierNestedLoopJoin.v). *)
From Coq Require Import List Arith Lia Bool.
From GV Require Import lib.Lts model.BarrierNestedLoopJoin.
Import ListNotations.

Lemma nw_zero f l : (forall p, f (nwake p) = false) -> count f (map nwake l) = 0.
Proof. intros H. rewrite count_map, (count_ext _ (fun _ => false)); [apply count_false|exact H]. Qed.
Lemma nw_sum f g h l : (forall p, f (nwake p) = g p || h p) -> (forall p, g p && h p = false) ->
  count f (map nwake l) = count g l + count h l.
Proof. intros H D. rewrite count_map, (count_ext _ (fun p => g p || h p)); [apply count_orb; exact D|exact H]. Qed.
Lemma nw_other f l : (forall p, f (nwake p) = f p) -> count f (map nwake l) = count f l.
Proof. intros H. rewrite count_map. apply count_ext. exact H. Qed.

Ltac dn := intros [| [|] | | | | | | |]; reflexivity.
Lemma nw_parkb0 l : count is_nparkb0 (map nwake l) = 0. Proof. apply nw_zero. dn. Qed.
Lemma nw_parkb1 l : count is_nparkb1 (map nwake l) = 0. Proof. apply nw_zero. dn. Qed.
Lemma nw_parkd l : count is_nparkd (map nwake l) = 0. Proof. apply nw_zero. dn. Qed.
Lemma nw_probe l : count is_nprobe (map nwake l) = count is_nprobe l + count is_nparkb0 l.
Proof. apply nw_sum; dn. Qed.
Lemma nw_drainb l : count is_ndrainb (map nwake l) = count is_ndrainb l + count is_nparkb1 l.
Proof. apply nw_sum; dn. Qed.
Lemma nw_chk l : count is_nchk (map nwake l) = count is_nchk l + count is_nparkd l.
Proof. apply nw_sum; dn. Qed.

Lemma nplength l :
  length l = count is_nprobe l + count is_nparkb0 l + count is_nparkb1 l + count is_ndrainb l + count is_nscan l
             + count is_nchk l + count is_nparkd l + count is_ndraining l + count is_npdone l + count is_nperr l.
Proof.
  induction l as [|a l IH]; [reflexivity|]. rewrite !count_cons. cbn [length].
  destruct a as [| [|] | | | | | | |];
    cbn [b2n is_nprobe is_nparkb0 is_nparkb1 is_ndrainb is_nscan is_nchk is_nparkd is_ndraining is_npdone is_nperr]; lia.
Qed.
Lemma nblength l : length l = count is_ncoll l + count is_nbdone l + count is_nberr l.
Proof.
  induction l as [|a l IH]; [reflexivity|]. rewrite !count_cons. cbn [length].
  destruct a; cbn [b2n is_ncoll is_nbdone is_nberr]; lia.
Qed.

Ltac pfacts H q :=
  pose proof (count_upd is_nprobe _ _ _ q H); pose proof (count_upd is_nparkb0 _ _ _ q H);
  pose proof (count_upd is_nparkb1 _ _ _ q H); pose proof (count_upd is_ndrainb _ _ _ q H);
  pose proof (count_upd is_nscan _ _ _ q H); pose proof (count_upd is_nchk _ _ _ q H);
  pose proof (count_upd is_nparkd _ _ _ q H); pose proof (count_upd is_ndraining _ _ _ q H);
  pose proof (count_upd is_npdone _ _ _ q H); pose proof (count_upd is_nperr _ _ _ q H);
  pose proof (count_nth_ge is_nprobe _ _ _ H); pose proof (count_nth_ge is_nparkb0 _ _ _ H);
  pose proof (count_nth_ge is_nparkb1 _ _ _ H); pose proof (count_nth_ge is_ndrainb _ _ _ H);
  pose proof (count_nth_ge is_nscan _ _ _ H); pose proof (count_nth_ge is_nchk _ _ _ H);
  pose proof (count_nth_ge is_nparkd _ _ _ H); pose proof (count_nth_ge is_ndraining _ _ _ H).
Ltac bfacts H q :=
  pose proof (count_upd is_ncoll _ _ _ q H); pose proof (count_upd is_nbdone _ _ _ q H);
  pose proof (count_upd is_nberr _ _ _ q H); pose proof (count_nth_ge is_ncoll _ _ _ H).
Ltac nwake_rw :=
  rewrite ?nw_parkb0, ?nw_parkb1, ?nw_parkd, ?nw_probe, ?nw_drainb, ?nw_chk,
    ?(nw_other is_nscan), ?(nw_other is_ndraining), ?(nw_other is_npdone), ?(nw_other is_nperr), ?map_length in *
    by dn.
Ltac nred :=
  cbn [b2n is_ncoll is_nbdone is_nberr is_nprobe is_nparkb0 is_nparkb1 is_ndrainb is_nscan is_nchk is_nparkd
       is_ndraining is_npdone is_nperr nbs nps rem_build rem_probe nwake after_fin drain_counter] in *.

Record NInv (s : nst) : Prop := {
  nRB : rem_build s = count is_ncoll (nbs s);
  nRP : rem_probe s = count is_nprobe (nps s) + count is_nparkb0 (nps s) + count is_nscan (nps s);
  nBS : 0 < count is_nscan (nps s) + count is_nchk (nps s) + count is_nparkd (nps s)
            + count is_ndraining (nps s) + count is_npdone (nps s) -> rem_build s = 0;
  nPB : rem_build s = 0 -> count is_nparkb0 (nps s) + count is_nparkb1 (nps s) = 0;
  nPD : 0 < count is_nparkd (nps s) -> 0 < rem_probe s;
  nDS : 0 < count is_ndraining (nps s) + count is_npdone (nps s) -> rem_probe s = 0;
  nE1 : count is_nberr (nbs s) = 0;
  nE2 : count is_nperr (nps s) = 0
}.

Lemma ninv_init nb np : NInv (ninit nb np).
Proof. unfold ninit. constructor; nred; rewrite ?count_repeat; nred; intros; lia. Qed.

Ltac nfin := constructor; nred; nwake_rw; intros; lia.

Lemma ninv_step s s' : NInv s -> nstep false s s' -> NInv s'.
Proof.
  intros [RB RP BS PB PD DS E1 E2] Hs.
  destruct Hs as [i s H Hr | i s H Hr | i s H Hr | i p s H Hp Hr | i p s H Hp Hr | i p s H Hp Hr | i p s H Hp Hr
                 | i p s H Hp Hr | i p s H Hp Hr | i p s H Hp Hr | i p s H Hp Hr | i p s H Hp Hr | i s H].
  - bfacts H NBDone. nfin.
  - bfacts H NBDone. nfin.
  - bfacts H NBErr. nred. exfalso. lia.
  - destruct p as [| [|] | | | | | | |]; try discriminate; pfacts H (NParkB false); nfin.
  - destruct p as [| [|] | | | | | | |]; try discriminate; pfacts H NScan; nfin.
  - destruct p as [| [|] | | | | | | |]; try discriminate; pfacts H (NParkB true); nfin.
  - destruct p as [| [|] | | | | | | |]; try discriminate; pfacts H NChk; nfin.
  - pose proof (map_nth_error nwake _ _ H) as H'.
    destruct p as [| [|] | | | | | | |]; try discriminate; nred;
      [pfacts H' NDrainB; nwake_rw; pfacts H NProbe | pfacts H' NChk; nwake_rw; pfacts H NScan]; nfin.
  - destruct p as [| [|] | | | | | | |]; try discriminate; nred; [pfacts H NDrainB | pfacts H NChk]; nfin.
  - destruct p as [| [|] | | | | | | |]; try discriminate; pfacts H NPErr; nred; exfalso; lia.
  - destruct p as [| [|] | | | | | | |]; try discriminate; pfacts H NParkD; nfin.
  - destruct p as [| [|] | | | | | | |]; try discriminate; pfacts H NDraining; nfin.
  - pfacts H NPDone. nfin.
Qed.

Theorem ninv_reach nb np s : nreach false nb np s -> NInv s.
Proof. induction 1; [apply ninv_init | eapply ninv_step; eassumption]. Qed.

(* ---------- theorems (the source: the drain waits on remaining_probe_inputs) ---------- *)

(* barrier ORDER: no partition emits a drain row while some partition can still record a match *)
Theorem nlj_drain_only_after_all_probed nb np s :
  nreach false nb np s -> 0 < drain_started s -> rem_probe s = 0 /\ can_still_match s = 0.
Proof.
  intros R H. destruct (ninv_reach _ _ _ R) as [RB RP BS PB PD DS E1 E2].
  unfold drain_started, can_still_match in *. specialize (DS H). lia.
Qed.

(* probing (recording matches) happens only after the build side is complete *)
Theorem nlj_probe_only_after_build nb np s :
  nreach false nb np s -> 0 < count is_nscan (nps s) -> rem_build s = 0 /\ count is_ncoll (nbs s) = 0.
Proof.
  intros R H. destruct (ninv_reach _ _ _ R) as [RB RP BS PB PD DS E1 E2]. assert (rem_build s = 0) by (apply BS; lia). lia.
Qed.

Theorem nlj_inv_parked_implies_flag_unset nb np s :
  nreach false nb np s ->
  (0 < count is_nparkb0 (nps s) + count is_nparkb1 (nps s) -> 0 < rem_build s) /\
  (0 < count is_nparkd (nps s) -> 0 < rem_probe s).
Proof.
  intros R. destruct (ninv_reach _ _ _ R) as [RB RP BS PB PD DS E1 E2]. split; intros H; [|apply PD; exact H].
  destruct (Nat.eq_dec (rem_build s) 0) as [Z|N]; [specialize (PB Z); lia|lia].
Qed.

Theorem nlj_no_error_path nb np s : nreach false nb np s -> count is_nberr (nbs s) = 0 /\ count is_nperr (nps s) = 0.
Proof. intros R. destruct (ninv_reach _ _ _ R) as [RB RP BS PB PD DS E1 E2]. split; assumption. Qed.

Ltac chg_p X H := intros X; apply (f_equal nps) in X; cbn [nps] in X; eapply upd_neq in X; [assumption|exact H|discriminate].

Theorem nlj_no_deadlock nb np s :
  nreach false nb np s -> ~ nall_done s -> exists s', nstep false s s' /\ s' <> s.
Proof.
  intros R ND. destruct (ninv_reach _ _ _ R) as [RB RP BS PB PD DS E1 E2].
  pose proof (nplength (nps s)) as LP. pose proof (nblength (nbs s)) as LB. unfold nall_done in ND.
  destruct (Nat.eq_dec (count is_ncoll (nbs s)) 0) as [Zc|Nc].
  2:{ destruct (count_pos_nth is_ncoll (nbs s)) as (i & p & Hi & Hp); [lia|]. destruct p; try discriminate.
      destruct (Nat.eq_dec (rem_build s) 1) as [R1|R1].
      - eexists. split; [eapply n_build_last; eassumption|].
        intros X. apply (f_equal rem_build) in X. cbn [rem_build] in X. lia.
      - assert (1 < rem_build s) by lia. eexists. split; [eapply n_build; eassumption|].
        intros X. apply (f_equal rem_build) in X. cbn [rem_build] in X. lia. }
  assert (Zb : rem_build s = 0) by lia. specialize (PB Zb).
  destruct (Nat.eq_dec (count is_nprobe (nps s)) 0) as [Z1|N1].
  2:{ destruct (count_pos_nth is_nprobe (nps s)) as (i & p & Hi & Hp); [lia|]. destruct p; try discriminate.
      eexists. split; [eapply n_build_seen; [exact Hi|reflexivity|assumption]|]. chg_p X Hi. }
  destruct (Nat.eq_dec (count is_ndrainb (nps s)) 0) as [Z2|N2].
  2:{ destruct (count_pos_nth is_ndrainb (nps s)) as (i & p & Hi & Hp); [lia|]. destruct p; try discriminate.
      eexists. split; [eapply n_build_seen_d; [exact Hi|reflexivity|assumption]|]. chg_p X Hi. }
  destruct (Nat.eq_dec (count is_nscan (nps s)) 0) as [Z3|N3].
  2:{ destruct (count_pos_nth is_nscan (nps s)) as (i & p & Hi & Hp); [lia|]. destruct p; try discriminate.
      destruct (Nat.eq_dec (rem_probe s) 1) as [R1|R1].
      - eexists. split; [eapply n_fin_last; [exact Hi|reflexivity|assumption]|].
        intros X. apply (f_equal rem_probe) in X. cbn [rem_probe] in X. lia.
      - assert (1 < rem_probe s) by lia. eexists. split; [eapply n_fin; [exact Hi|reflexivity|assumption]|].
        intros X. apply (f_equal rem_probe) in X. cbn [rem_probe] in X. lia. }
  destruct (Nat.eq_dec (count is_nchk (nps s)) 0) as [Z4|N4].
  2:{ destruct (count_pos_nth is_nchk (nps s)) as (i & p & Hi & Hp); [lia|]. destruct p; try discriminate.
      destruct (Nat.eq_dec (rem_probe s) 0) as [R0|R0].
      - eexists. split; [eapply n_drain_start; [exact Hi|reflexivity|exact R0]|]. chg_p X Hi.
      - assert (0 < drain_counter false s) by (cbn; lia).
        eexists. split; [eapply n_wait_drain; [exact Hi|reflexivity|assumption]|]. chg_p X Hi. }
  destruct (Nat.eq_dec (count is_ndraining (nps s)) 0) as [Z5|N5].
  2:{ destruct (count_pos_nth is_ndraining (nps s)) as (i & p & Hi & Hp); [lia|]. destruct p; try discriminate.
      eexists. split; [eapply n_drain_done; exact Hi|]. chg_p X Hi. }
  (* only probers parked for the drain are left: but then nobody is left to probe *)
  exfalso. apply ND. split; [lia|].
  destruct (Nat.eq_dec (count is_nparkd (nps s)) 0) as [Z|N]; [lia|]. assert (0 < rem_probe s) by (apply PD; lia). lia.
Qed.

(* ---------- REFUTED: the variant whose drain waits on remaining_build_inputs ---------- *)
Definition nmk bs ps rb rp : nst := {| nbs := bs; nps := ps; rem_build := rb; rem_probe := rp |}.

(* one build partition, two probe partitions: partition 0 finishes its (short) input and starts
   emitting unmatched build rows while partition 1 is still probing and can still record a match *)
Theorem nlj_drain_before_all_probed_refuted :
  exists s, nreach true 1 2 s /\ 0 < drain_started s /\ 0 < can_still_match s /\ rem_probe s = 1.
Proof.
  exists (nmk [NBDone] [NDraining; NScan] 0 1). split; [|cbn; lia].
  eapply nr_step; [|apply (n_drain_start true 0 NChk (nmk [NBDone] [NChk; NScan] 0 1)); reflexivity].
  eapply nr_step; [|apply (n_fin true 0 NScan (nmk [NBDone] [NScan; NScan] 0 2)); [reflexivity|reflexivity|cbn; lia]].
  eapply nr_step; [|apply (n_build_seen true 1 NProbe (nmk [NBDone] [NScan; NProbe] 0 2)); reflexivity].
  eapply nr_step; [|apply (n_build_seen true 0 NProbe (nmk [NBDone] [NProbe; NProbe] 0 2)); reflexivity].
  eapply nr_step; [|apply (n_build_last true 0 (nmk [NColl] [NProbe; NProbe] 1 2)); reflexivity].
  apply nr_init.
Qed.

Example nlj_run_example : exists s, nreach false 1 1 s /\ nall_done s.
Proof.
  exists (nmk [NBDone] [NPDone] 0 0). split; [|split; reflexivity].
  eapply nr_step; [|apply (n_drain_done false 0 (nmk [NBDone] [NDraining] 0 0)); reflexivity].
  eapply nr_step; [|apply (n_drain_start false 0 NChk (nmk [NBDone] [NChk] 0 0)); reflexivity].
  eapply nr_step; [|apply (n_build_seen_d false 0 NDrainB (nmk [NBDone] [NDrainB] 0 0)); reflexivity].
  eapply nr_step; [|apply (n_build_last false 0 (nmk [NColl] [NParkB true] 1 0)); reflexivity].
  eapply nr_step; [|apply (n_wait_build_d false 0 NDrainB (nmk [NColl] [NDrainB] 1 0)); [reflexivity|reflexivity|cbn; lia]].
  eapply nr_step; [|apply (n_fin_last false 0 NProbe (nmk [NColl] [NProbe] 1 1)); reflexivity].
  apply nr_init.
Qed.

Print Assumptions nlj_drain_only_after_all_probed.
Print Assumptions nlj_no_deadlock.
Print Assumptions nlj_drain_before_all_probed_refuted.
