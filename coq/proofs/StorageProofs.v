(* C14 — proofs about the storage transition system (model/Storage.v). *)
From Coq Require Import List NArith Arith Bool Permutation Lia.
From GV Require Import model.Storage.
Import ListNotations.

Definition cnt (r : row) (l : list row) : nat := count_occ N.eq_dec l r.
Definition cntn (i : nat) (l : list nat) : nat := count_occ Nat.eq_dec l i.

Lemma cnt_app : forall r a b, cnt r (a ++ b) = cnt r a + cnt r b.
Proof. intros r a b. unfold cnt. apply count_occ_app. Qed.
Lemma cntn_app : forall r a b, cntn r (a ++ b) = cntn r a + cntn r b.
Proof. intros r a b. unfold cntn. apply count_occ_app. Qed.
Lemma cnt_nil : forall r, cnt r [] = 0.
Proof. reflexivity. Qed.

Lemma replace_split : forall A (l : list A) i a,
  nth_error l i = Some a ->
  exists l1 l2, l = l1 ++ a :: l2 /\ (forall b, replace i b l = l1 ++ b :: l2) /\ length l1 = i.
Proof.
  intros A l i a Hn.
  destruct (nth_error_split l i Hn) as (l1 & l2 & Hl & Hlen).
  exists l1, l2. split; [exact Hl|]. split; [|exact Hlen].
  intros b. unfold replace. subst l. subst i.
  rewrite firstn_app, Nat.sub_diag, firstn_all. cbn [firstn]. rewrite app_nil_r.
  rewrite skipn_app. rewrite skipn_all2 by lia.
  replace (S (length l1) - length l1) with 1 by lia. reflexivity.
Qed.

Lemma concat_map_mid : forall A B (f : A -> list B) l1 a l2,
  concat (map f (l1 ++ a :: l2)) = concat (map f l1) ++ f a ++ concat (map f l2).
Proof. intros. rewrite map_app, concat_app. reflexivity. Qed.

Lemma sum_mid : forall A (f : A -> nat) l1 a l2,
  fold_right Nat.add 0 (map f (l1 ++ a :: l2)) = fold_right Nat.add 0 (map f l1) + f a + fold_right Nat.add 0 (map f l2).
Proof.
  intros A f l1 a l2. induction l1 as [|x l1 IH]; cbn [app map fold_right]; [lia|]. rewrite IH. lia.
Qed.

(* ------------------------------------------------------------------ the append side *)

Definition fin_empty (a : appender) : Prop := a_fin a = true -> a_buf a = [].

Record writes_rel (c c' : coll) (b : list row) : Prop := {
  wr_rows : forall r, cnt r (all_rows c') + cnt r (buf_rows c') = cnt r (all_rows c) + cnt r (buf_rows c) + cnt r b;
  wr_count : insert_count c' = insert_count c + length b;
  wr_scans : scans c' = scans c;
  wr_counter : counter c' = counter c;
  wr_fetched : fetched c' = fetched c;
  wr_fin : Forall fin_empty (apps c) -> Forall fin_empty (apps c');
  wr_grow : exists extra, segs c' = segs c ++ extra;
  wr_ne : Forall (fun g => g <> []) (segs c) -> Forall (fun g => g <> []) (segs c')
}.

Lemma Forall_mid : forall A (P : A -> Prop) l1 a b l2, Forall P (l1 ++ a :: l2) -> P b -> Forall P (l1 ++ b :: l2).
Proof.
  intros A P l1 a b l2 HF Hb. rewrite Forall_app in *. destruct HF as [H1 H2]. split; [exact H1|].
  inversion H2; subst. constructor; assumption.
Qed.

Lemma do_append_rel : forall k c i b c', do_append k c i b = Some c' -> writes_rel c c' b.
Proof.
  intros k c i b c' H. unfold do_append in H.
  destruct (nth_error (apps c) i) as [a|] eqn:Hn; [|discriminate].
  destruct (a_fin a) eqn:Hfin; [discriminate|].
  destruct (replace_split _ _ _ _ Hn) as (l1 & l2 & Hl & Hrep & Hlen).
  cbn [a_buf] in H.
  destruct (segsz k <=? _) eqn:Hflush.
  - unfold flush in H. cbn [a_buf a_count a_fin] in H.
    destruct (a_buf a ++ b) as [|x rest] eqn:Hab.
    + inversion H; subst c'; clear H. rewrite Hrep.
      apply app_eq_nil in Hab. destruct Hab as [Ha Hb]. subst b.
      constructor; unfold all_rows, buf_rows, insert_count, set_apps; cbn [segs apps scans counter fetched].
      * intros r. rewrite Hl. rewrite !concat_map_mid. cbn [a_buf]. rewrite Ha. rewrite !cnt_app. cbn. lia.
      * rewrite Hl. rewrite !sum_mid. cbn [a_count length]. lia.
      * reflexivity. * reflexivity. * reflexivity.
      * intros HF. rewrite Hl in HF. eapply Forall_mid; [exact HF|]. intros _. reflexivity.
      * exists []. rewrite app_nil_r. reflexivity.
      * auto.
    + inversion H; subst c'; clear H. rewrite Hrep.
      constructor; unfold all_rows, buf_rows, insert_count, set_apps; cbn [segs apps scans counter fetched].
      * intros r. rewrite Hl. rewrite concat_app. rewrite !concat_map_mid. cbn [a_buf concat].
        assert (Hc : cnt r (x :: rest) = cnt r (a_buf a) + cnt r b) by (rewrite <- Hab; apply cnt_app).
        rewrite !cnt_app, Hc, ?cnt_nil. lia.
      * rewrite Hl. rewrite !sum_mid. cbn [a_count]. lia.
      * reflexivity. * reflexivity. * reflexivity.
      * intros HF. rewrite Hl in HF. eapply Forall_mid; [exact HF|]. intros _. reflexivity.
      * eexists. reflexivity.
      * intros HF. apply Forall_app. split; [exact HF|]. constructor; [discriminate|constructor].
  - inversion H; subst c'; clear H. rewrite Hrep.
    constructor; unfold all_rows, buf_rows, insert_count, set_apps; cbn [segs apps scans counter fetched].
    + intros r. rewrite Hl. rewrite !concat_map_mid. cbn [a_buf]. rewrite !cnt_app. lia.
    + rewrite Hl. rewrite !sum_mid. cbn [a_count]. lia.
    + reflexivity. + reflexivity. + reflexivity.
    + intros HF. rewrite Hl in HF. eapply Forall_mid; [exact HF|]. intros Hc. cbn in Hc. discriminate.
    + exists []. rewrite app_nil_r. reflexivity.
    + auto.
Qed.

Lemma do_finalize_rel : forall c i c', do_finalize c i = Some c' -> writes_rel c c' [].
Proof.
  intros c i c' H. unfold do_finalize in H.
  destruct (nth_error (apps c) i) as [a|] eqn:Hn; [|discriminate].
  destruct (a_fin a) eqn:Hfin; [discriminate|].
  destruct (replace_split _ _ _ _ Hn) as (l1 & l2 & Hl & Hrep & Hlen).
  unfold flush in H.
  destruct (a_buf a) as [|x rest] eqn:Hab.
  - cbn [a_buf a_touched a_count] in H. inversion H; subst c'; clear H. rewrite Hrep.
    constructor; unfold all_rows, buf_rows, insert_count, set_apps; cbn [segs apps scans counter fetched].
    + intros r. rewrite Hl. rewrite !concat_map_mid. cbn [a_buf]. rewrite Hab. rewrite !cnt_app. cbn. lia.
    + rewrite Hl. rewrite !sum_mid. cbn [a_count length]. lia.
    + reflexivity. + reflexivity. + reflexivity.
    + intros HF. rewrite Hl in HF. eapply Forall_mid; [exact HF|]. intros _. reflexivity.
    + exists []. rewrite app_nil_r. reflexivity.
    + auto.
  - cbn [a_buf a_touched a_count] in H. inversion H; subst c'; clear H. rewrite Hrep.
    constructor; unfold all_rows, buf_rows, insert_count, set_apps; cbn [segs apps scans counter fetched].
    + intros r. rewrite Hl. rewrite concat_app. rewrite !concat_map_mid. cbn [a_buf concat].
      rewrite Hab. rewrite !cnt_app, ?cnt_nil. lia.
    + rewrite Hl. rewrite !sum_mid. cbn [a_count length]. lia.
    + reflexivity. + reflexivity. + reflexivity.
    + intros HF. rewrite Hl in HF. eapply Forall_mid; [exact HF|]. intros _. reflexivity.
    + eexists. reflexivity.
    + intros HF. apply Forall_app. split; [exact HF|]. constructor; [discriminate|constructor].
Qed.

Lemma do_scan_none_without_states : forall k c j, scans c = [] -> do_scan k c j = None.
Proof. intros k c j H. unfold do_scan. rewrite H. destruct j; reflexivity. Qed.

(* append phase: no scan states exist *)
Lemma writer_run : forall k ls c c',
  scans c = [] -> run k c ls = Some c' ->
  (forall r, cnt r (all_rows c') + cnt r (buf_rows c') = cnt r (all_rows c) + cnt r (buf_rows c) + cnt r (appended ls))
  /\ insert_count c' = insert_count c + length (appended ls)
  /\ scans c' = []
  /\ (Forall fin_empty (apps c) -> Forall fin_empty (apps c')).
Proof.
  intros k ls. induction ls as [|l ls IH]; intros c c' Hs Hr.
  - cbn in Hr. inversion Hr; subst. cbn. repeat split; auto; intros; lia.
  - cbn [run] in Hr. destruct (step k c l) as [c1|] eqn:Hst; [|discriminate].
    destruct l as [i b|i|j|j]; cbn [step] in Hst.
    + pose proof (do_append_rel _ _ _ _ _ Hst) as R. destruct R.
      assert (Hs1 : scans c1 = []) by congruence.
      destruct (IH _ _ Hs1 Hr) as (I1 & I2 & I3 & I4).
      cbn [appended]. repeat split.
      * intros r. rewrite I1, wr_rows0, cnt_app. lia.
      * rewrite I2, wr_count0, app_length. lia.
      * exact I3.
      * auto.
    + pose proof (do_finalize_rel _ _ _ Hst) as R. destruct R.
      assert (Hs1 : scans c1 = []) by congruence.
      destruct (IH _ _ Hs1 Hr) as (I1 & I2 & I3 & I4).
      cbn [appended]. repeat split.
      * intros r. rewrite I1, wr_rows0. cbn. lia.
      * rewrite I2, wr_count0. cbn. lia.
      * exact I3.
      * auto.
    + rewrite do_scan_none_without_states in Hst by assumption. discriminate.
    + rewrite do_scan_none_without_states in Hst by assumption. discriminate.
Qed.

Lemma finalized_buf_empty : forall l, Forall fin_empty l -> forallb a_fin l = true -> concat (map a_buf l) = [].
Proof.
  intros l HF. induction HF as [|a l Ha HF IH]; cbn; [reflexivity|].
  intros Hb. apply andb_true_iff in Hb. destruct Hb as [H1 H2]. rewrite (Ha H1), (IH H2). reflexivity.
Qed.

Lemma writers_fresh : forall sg n,
  Forall fin_empty (apps (writers sg n)) /\ buf_rows (writers sg n) = [] /\ insert_count (writers sg n) = 0.
Proof.
  intros sg n. unfold writers, buf_rows, insert_count. cbn [apps].
  induction n as [|n IH]; cbn [repeat map concat fold_right].
  - repeat split. constructor.
  - destruct IH as (I1 & I2 & I3). repeat split.
    + constructor; [intros Hc; reflexivity|exact I1].
    + cbn. exact I2.
    + cbn. exact I3.
Qed.

(* ------------------------------------------------------------------ the scan side *)

Definition curof (s : scanner) : list row := match s_cur s with Some r => r | None => [] end.
Definition segrows (SG : list (list row)) (f : list nat) : list row := concat (map (fun i => nth i SG []) f).

(* either every scan state carries the limit |SG| (table scan), or none carries a limit and the collection
   is quiescent (collection-level scan of a finished collection) *)
Definition lim_ok (SG : list (list row)) (c : coll) : Prop :=
  Forall (fun s => s_limit s = Some (length SG)) (scans c)
  \/ (Forall (fun s => s_limit s = None) (scans c) /\ forallb a_fin (apps c) = true /\ segs c = SG).

Record scan_inv (k : cfg) (SG : list (list row)) (c : coll) : Prop := {
  si_segs : exists extra, segs c = SG ++ extra;
  si_lim : lim_ok SG c;
  si_idx : forall i, cntn i (fetched c) + cntn i (map s_next (scans c)) = if i <? counter c then 1 else 0;
  si_rows : forall r, cnt r (scan_output c) + cnt r (cur_rows c) = cnt r (segrows SG (fetched c));
  si_lt : Forall (fun i => i < length SG) (fetched c);
  si_done : Forall (fun s => s_done s = true -> s_cur s = None /\ length SG <= s_next s) (scans c);
  si_off : Forall (fun s => s_off s < cap k) (scans c);
  si_cnt : counter c = length (scans c) + length (fetched c)
}.

Lemma out_of_push : forall s b nx cu of lm dn,
  out_of {| s_next := nx; s_cur := cu; s_off := of; s_limit := lm; s_done := dn; s_out := b :: s_out s |} = out_of s ++ b.
Proof. intros. unfold out_of. cbn [s_out rev]. rewrite concat_app. cbn. rewrite app_nil_r. reflexivity. Qed.

Lemma out_of_emit : forall k s nx rem off,
  out_of (emit_from k s nx rem off) = out_of s ++ firstn (slice k off rem) rem.
Proof. intros. unfold emit_from. apply out_of_push. Qed.

Lemma finalized_no_append : forall k c i b, forallb a_fin (apps c) = true -> do_append k c i b = None.
Proof.
  intros k c i b H. unfold do_append. destruct (nth_error (apps c) i) as [a|] eqn:Hn; [|reflexivity].
  rewrite forallb_forall in H. rewrite (H a (nth_error_In _ _ Hn)). reflexivity.
Qed.

Lemma finalized_no_finalize : forall c i, forallb a_fin (apps c) = true -> do_finalize c i = None.
Proof.
  intros c i H. unfold do_finalize. destruct (nth_error (apps c) i) as [a|] eqn:Hn; [|reflexivity].
  rewrite forallb_forall in H. rewrite (H a (nth_error_In _ _ Hn)). reflexivity.
Qed.

Lemma cntn_cons : forall i x l, cntn i (x :: l) = (if Nat.eq_dec x i then 1 else 0) + cntn i l.
Proof. intros. unfold cntn. cbn. destruct (Nat.eq_dec x i); reflexivity. Qed.

Lemma idx_step : forall (F A B : nat -> nat) nx cn,
  (forall i, F i + (A i + ((if Nat.eq_dec nx i then 1 else 0) + B i)) = if i <? cn then 1 else 0) ->
  forall i, (if Nat.eq_dec nx i then 1 else 0) + F i + (A i + ((if Nat.eq_dec cn i then 1 else 0) + B i)) =
            if i <? S cn then 1 else 0.
Proof.
  intros F A B nx cn H i. pose proof (H i) as Hi. pose proof (H cn) as Hc.
  destruct (Nat.ltb_spec cn cn) as [X|X]; [lia|].
  destruct (Nat.eq_dec nx cn) as [E3|E3]; [lia|].
  destruct (Nat.eq_dec cn i) as [E2|E2].
  - subst i. destruct (Nat.eq_dec nx cn) as [E1|E1]; [lia|].
    destruct (Nat.ltb_spec cn (S cn)); lia.
  - destruct (Nat.eq_dec nx i) as [E1|E1]; destruct (Nat.ltb_spec i cn); destruct (Nat.ltb_spec i (S cn)); lia.
Qed.

(* the three things one `parallel_scan` call can do *)
Definition fetch_of (c : coll) (s : scanner) : option (list row) :=
  if in_limit s then nth_error (segs c) (s_next s) else None.

Lemma do_scan_cases : forall k c j c', do_scan k c j = Some c' ->
  exists s l1 l2, scans c = l1 ++ s :: l2 /\ length l1 = j /\ s_done s = false /\
   ((exists rem, s_cur s = Some rem /\ rem <> [] /\
       c' = set_scans c (counter c) (fetched c) (l1 ++ emit_from k s (s_next s) rem (s_off s) :: l2))
    \/ (curof s = [] /\ fetch_of c s = None /\
        c' = set_scans c (counter c) (fetched c)
               (l1 ++ {| s_next := s_next s; s_cur := None; s_off := 0; s_limit := s_limit s; s_done := true; s_out := s_out s |} :: l2))
    \/ (curof s = [] /\ exists seg, fetch_of c s = Some seg /\
        c' = set_scans c (S (counter c)) (s_next s :: fetched c) (l1 ++ emit_from k s (counter c) seg 0 :: l2))).
Proof.
  intros k c j c' H. unfold do_scan in H.
  destruct (nth_error (scans c) j) as [s|] eqn:Hn; [|discriminate].
  destruct (s_done s) eqn:Hd; [discriminate|].
  destruct (replace_split _ _ _ _ Hn) as (l1 & l2 & Hl & Hrep & Hlen).
  exists s, l1, l2. split; [exact Hl|]. split; [exact Hlen|]. split; [exact Hd|].
  fold (fetch_of c s) in H.
  destruct (s_cur s) as [[|x rem]|] eqn:Hcur.
  - right. destruct (fetch_of c s) as [seg|] eqn:Hf; inversion H; subst c'; rewrite Hrep.
    + right. split; [unfold curof; rewrite Hcur; reflexivity|]. exists seg. split; reflexivity.
    + left. repeat split. unfold curof; rewrite Hcur; reflexivity.
  - left. exists (x :: rem). inversion H; subst c'. rewrite Hrep. repeat split. discriminate.
  - right. destruct (fetch_of c s) as [seg|] eqn:Hf; inversion H; subst c'; rewrite Hrep.
    + right. split; [unfold curof; rewrite Hcur; reflexivity|]. exists seg. split; reflexivity.
    + left. repeat split. unfold curof; rewrite Hcur; reflexivity.
Qed.

Lemma slice_le : forall k off rem, slice k off rem <= length rem.
Proof. intros. unfold slice, chunk_rem. lia. Qed.

Lemma slice_pos : forall k off rem, 0 < cap k -> 0 < ocap k -> off < cap k -> rem <> [] -> 1 <= slice k off rem.
Proof.
  intros k off rem H1 H2 H3 H4. unfold slice, chunk_rem. destruct rem as [|x rem]; [contradiction|]. cbn [length]. lia.
Qed.

Lemma emit_off_lt : forall k s nx rem off, 0 < cap k -> off < cap k -> s_off (emit_from k s nx rem off) < cap k.
Proof.
  intros k s nx rem off H1 H2. unfold emit_from. cbn [s_off].
  destruct (Nat.eqb_spec (slice k off rem) (chunk_rem k off rem)) as [E|E]; [exact H1|].
  unfold slice, chunk_rem in *. lia.
Qed.

Lemma lim_ok_mid : forall SG c cn f l1 s s' l2,
  scans c = l1 ++ s :: l2 -> s_limit s' = s_limit s -> lim_ok SG c ->
  lim_ok SG (set_scans c cn f (l1 ++ s' :: l2)).
Proof.
  intros SG c cn f l1 s s' l2 Hl He [H|(H1 & H2 & H3)]; unfold lim_ok; cbn [set_scans scans apps segs].
  - left. rewrite Hl in H. eapply Forall_mid; [exact H|]. rewrite He.
    rewrite Forall_app in H. destruct H as [_ H]. inversion H; assumption.
  - right. repeat split; try assumption. rewrite Hl in H1. eapply Forall_mid; [exact H1|]. rewrite He.
    rewrite Forall_app in H1. destruct H1 as [_ H1]. inversion H1; assumption.
Qed.

Lemma limit_of : forall SG c s, lim_ok SG c -> In s (scans c) ->
  s_limit s = Some (length SG) \/ (s_limit s = None /\ segs c = SG).
Proof.
  intros SG c s [H|(H1 & H2 & H3)] Hin.
  - left. rewrite Forall_forall in H. auto.
  - right. rewrite Forall_forall in H1. auto.
Qed.

Lemma fetch_some : forall SG c s seg, (exists extra, segs c = SG ++ extra) -> lim_ok SG c -> In s (scans c) ->
  fetch_of c s = Some seg -> s_next s < length SG /\ nth (s_next s) SG [] = seg.
Proof.
  intros SG c s seg [extra He] Hl Hin Hf. unfold fetch_of, in_limit in Hf.
  destruct (limit_of _ _ _ Hl Hin) as [E|[E E2]]; rewrite E in Hf.
  - destruct (Nat.ltb_spec (s_next s) (length SG)) as [L|L]; [|discriminate].
    split; [exact L|]. rewrite He in Hf. rewrite nth_error_app1 in Hf by exact L. apply nth_error_nth. exact Hf.
  - rewrite E2 in Hf. split; [apply nth_error_Some; congruence|apply nth_error_nth; exact Hf].
Qed.

Lemma fetch_none : forall SG c s, (exists extra, segs c = SG ++ extra) -> lim_ok SG c -> In s (scans c) ->
  fetch_of c s = None -> length SG <= s_next s.
Proof.
  intros SG c s [extra He] Hl Hin Hf. unfold fetch_of, in_limit in Hf.
  destruct (limit_of _ _ _ Hl Hin) as [E|[E E2]]; rewrite E in Hf.
  - destruct (Nat.ltb_spec (s_next s) (length SG)) as [L|L]; [|exact L].
    apply nth_error_None in Hf. rewrite He, app_length in Hf. lia.
  - apply nth_error_None in Hf. rewrite E2 in Hf. exact Hf.
Qed.

Lemma do_scan_inv : forall k SG c j c', 0 < cap k -> 0 < ocap k -> Forall (fun g => g <> []) SG ->
  scan_inv k SG c -> do_scan k c j = Some c' -> scan_inv k SG c'.
Proof.
  intros k SG c j c' Hcap Hocap Hne0 I H.
  destruct (do_scan_cases _ _ _ _ H) as (s & l1 & l2 & Hl & _ & Hd & Hcase). clear H.
  destruct I.
  assert (Hin : In s (scans c)) by (rewrite Hl; apply in_or_app; right; left; reflexivity).
  assert (Hoff : s_off s < cap k) by (rewrite Forall_forall in si_off0; auto).
  destruct Hcase as [(rem & Hcur & Hne & ->)|[(Hcur & Hf & ->)|(Hcur & seg & Hf & ->)]].
  - (* emit from the current segment *)
    pose proof (slice_pos k (s_off s) rem Hcap Hocap Hoff Hne) as Hpos.
    constructor; cbn [set_scans segs counter apps fetched scans]; auto.
    + eapply lim_ok_mid; [exact Hl|reflexivity|exact si_lim0].
    + intros i. rewrite <- (si_idx0 i). rewrite Hl. rewrite !map_app. cbn [map s_next emit_from]. reflexivity.
    + intros r. rewrite <- (si_rows0 r). unfold scan_output, cur_rows. cbn [scans set_scans]. rewrite Hl.
      rewrite !concat_map_mid. rewrite out_of_emit. cbn [s_cur emit_from]. rewrite Hcur.
      rewrite !cnt_app.
      assert (Hfs : cnt r rem = cnt r (firstn (slice k (s_off s) rem) rem) + cnt r (skipn (slice k (s_off s) rem) rem))
        by (rewrite <- cnt_app, firstn_skipn; reflexivity).
      lia.
    + rewrite Hl in si_done0. eapply Forall_mid; [exact si_done0|]. unfold emit_from. cbn [s_done].
      intros Hc. apply Nat.eqb_eq in Hc. lia.
    + rewrite Hl in si_off0. eapply Forall_mid; [exact si_off0|]. apply emit_off_lt; assumption.
    + rewrite si_cnt0, Hl, !app_length. reflexivity.
  - (* exhausted *)
    pose proof (fetch_none SG c s si_segs0 si_lim0 Hin Hf) as Hge.
    constructor; cbn [set_scans segs counter apps fetched scans]; auto.
    + eapply lim_ok_mid; [exact Hl|reflexivity|exact si_lim0].
    + intros i. rewrite <- (si_idx0 i). rewrite Hl. rewrite !map_app. reflexivity.
    + intros r. rewrite <- (si_rows0 r). unfold scan_output, cur_rows. cbn [scans set_scans]. rewrite Hl.
      rewrite !concat_map_mid. fold (curof s). rewrite Hcur. unfold out_of. cbn [s_out s_cur]. reflexivity.
    + rewrite Hl in si_done0. eapply Forall_mid; [exact si_done0|]. cbn. intros _. split; [reflexivity|exact Hge].
    + rewrite Hl in si_off0. eapply Forall_mid; [exact si_off0|]. cbn [s_off]. exact Hcap.
    + rewrite si_cnt0, Hl, !app_length. reflexivity.
  - (* fetch the next segment and emit from it *)
    destruct (fetch_some SG c s seg si_segs0 si_lim0 Hin Hf) as [Hlt Hnth].
    constructor; cbn [set_scans segs counter apps fetched scans]; auto.
    + eapply lim_ok_mid; [exact Hl|reflexivity|exact si_lim0].
    + intros i. rewrite !map_app. cbn [map s_next emit_from]. rewrite !cntn_app, !cntn_cons.
      apply (idx_step (fun i => cntn i (fetched c)) (fun i => cntn i (map s_next l1)) (fun i => cntn i (map s_next l2))).
      intros i0. rewrite <- (si_idx0 i0). rewrite Hl. rewrite !map_app. cbn [map]. rewrite !cntn_app, !cntn_cons. reflexivity.
    + intros r. pose proof (si_rows0 r) as Hr. unfold scan_output, cur_rows in *. cbn [scans set_scans].
      rewrite Hl in Hr. rewrite !concat_map_mid in *. rewrite out_of_emit. cbn [s_cur emit_from].
      fold (curof s) in Hr. rewrite Hcur in Hr.
      unfold segrows in *. cbn [map concat]. rewrite Hnth.
      rewrite !cnt_app in *.
      assert (Hfs : cnt r seg = cnt r (firstn (slice k 0 seg) seg) + cnt r (skipn (slice k 0 seg) seg))
        by (rewrite <- cnt_app, firstn_skipn; reflexivity).
      rewrite ?cnt_nil in *. lia.
    + rewrite Hl in si_done0. eapply Forall_mid; [exact si_done0|]. unfold emit_from. cbn [s_done].
      intros Hc. apply Nat.eqb_eq in Hc.
      assert (Hseg : seg <> []).
      { rewrite Forall_forall in Hne0. apply Hne0. rewrite <- Hnth. apply nth_In. exact Hlt. }
      pose proof (slice_pos k 0 seg Hcap Hocap Hcap Hseg). lia.
    + rewrite Hl in si_off0. eapply Forall_mid; [exact si_off0|]. apply emit_off_lt; assumption.
    + rewrite si_cnt0, Hl, !app_length. cbn [length]. lia.
Qed.

Lemma do_scan_length : forall k c j c', do_scan k c j = Some c' -> length (scans c') = length (scans c).
Proof.
  intros k c j c' H. destruct (do_scan_cases _ _ _ _ H) as (s & l1 & l2 & Hl & _ & _ & Hcase).
  destruct Hcase as [(rem & _ & _ & ->)|[(_ & _ & ->)|(_ & seg & _ & ->)]]; cbn [set_scans scans]; rewrite Hl, !app_length; reflexivity.
Qed.

Lemma do_scan_keeps : forall k c j c', do_scan k c j = Some c' -> segs c' = segs c /\ apps c' = apps c.
Proof.
  intros k c j c' H. destruct (do_scan_cases _ _ _ _ H) as (s & l1 & l2 & Hl & _ & _ & Hcase).
  destruct Hcase as [(rem & _ & _ & ->)|[(_ & _ & ->)|(_ & seg & _ & ->)]]; split; reflexivity.
Qed.

(* appends and flushes by anybody do not disturb a scan that carries its limit *)
Lemma writes_scan_inv : forall k SG c c' b,
  writes_rel c c' b -> forallb a_fin (apps c) = false \/ True -> scan_inv k SG c ->
  (forallb a_fin (apps c) = true -> False) -> scan_inv k SG c'.
Proof.
  intros k SG c c' b W _ I Hnf. destruct W. destruct I.
  destruct si_segs0 as [extra He]. destruct wr_grow0 as [extra' He'].
  constructor.
  - exists (extra ++ extra'). rewrite He', He, app_assoc. reflexivity.
  - destruct si_lim0 as [H|(H1 & H2 & H3)]; [left; rewrite wr_scans0; exact H|contradiction (Hnf H2)].
  - rewrite wr_fetched0, wr_scans0, wr_counter0. exact si_idx0.
  - unfold scan_output, cur_rows in *. rewrite wr_fetched0, wr_scans0. exact si_rows0.
  - rewrite wr_fetched0. exact si_lt0.
  - rewrite wr_scans0. exact si_done0.
  - rewrite wr_scans0. exact si_off0.
  - rewrite wr_scans0, wr_fetched0, wr_counter0. exact si_cnt0.
Qed.

Lemma do_append_inv : forall k SG c i b c', scan_inv k SG c -> do_append k c i b = Some c' -> scan_inv k SG c'.
Proof.
  intros k SG c i b c' I H. eapply writes_scan_inv; [eapply do_append_rel; exact H|right; exact Logic.I|exact I|].
  intros Hf. rewrite finalized_no_append in H by exact Hf. discriminate.
Qed.

Lemma do_finalize_inv : forall k SG c i c', scan_inv k SG c -> do_finalize c i = Some c' -> scan_inv k SG c'.
Proof.
  intros k SG c i c' I H. eapply writes_scan_inv; [eapply do_finalize_rel; exact H|right; exact Logic.I|exact I|].
  intros Hf. rewrite finalized_no_finalize in H by exact Hf. discriminate.
Qed.

Lemma step_inv : forall k SG c l c', 0 < cap k -> 0 < ocap k -> Forall (fun g => g <> []) SG ->
  scan_inv k SG c -> step k c l = Some c' -> scan_inv k SG c' /\ length (scans c') = length (scans c).
Proof.
  intros k SG c l c' Hcap Hocap Hne I H. destruct l as [i b|i|j|j]; cbn [step] in H.
  - split; [eapply do_append_inv; eassumption|]. destruct (do_append_rel _ _ _ _ _ H). congruence.
  - split; [eapply do_finalize_inv; eassumption|]. destruct (do_finalize_rel _ _ _ H). congruence.
  - split; [eapply do_scan_inv; eassumption|eapply do_scan_length; eassumption].
  - destruct (do_scan k c j) as [c1|] eqn:Hs; [|discriminate].
    pose proof (do_scan_inv _ _ _ _ _ Hcap Hocap Hne I Hs) as I1.
    pose proof (do_scan_length _ _ _ _ Hs) as L1.
    destruct (nth_error (scans c1) j) as [s1|]; [|discriminate].
    destruct (s_done s1).
    + inversion H; subst. split; assumption.
    + split; [eapply do_append_inv; eassumption|]. destruct (do_append_rel _ _ _ _ _ H). congruence.
Qed.

Lemma run_inv : forall k SG ls c c', 0 < cap k -> 0 < ocap k -> Forall (fun g => g <> []) SG ->
  scan_inv k SG c -> run k c ls = Some c' -> scan_inv k SG c' /\ length (scans c') = length (scans c).
Proof.
  intros k SG ls. induction ls as [|l ls IH]; intros c c' Hcap Hocap Hne I H; cbn [run] in H.
  - inversion H; subst. split; [assumption|reflexivity].
  - destruct (step k c l) as [c1|] eqn:Hst; [|discriminate].
    destruct (step_inv _ _ _ _ _ Hcap Hocap Hne I Hst) as [I1 L1].
    destruct (IH _ _ Hcap Hocap Hne I1 H) as [I2 L2]. split; [exact I2|congruence].
Qed.

Lemma cntn_seq : forall n st i, cntn i (seq st n) = if (st <=? i) && (i <? st + n) then 1 else 0.
Proof.
  induction n as [|n IH]; intros st i; cbn [seq].
  - unfold cntn; cbn [count_occ].
    destruct (Nat.leb_spec st i); destruct (Nat.ltb_spec i (st + 0)); cbn [andb]; try reflexivity; lia.
  - rewrite cntn_cons, IH.
    destruct (Nat.eq_dec st i); destruct (Nat.leb_spec (S st) i); destruct (Nat.ltb_spec i (S st + n));
      destruct (Nat.leb_spec st i); destruct (Nat.ltb_spec i (st + S n)); cbn [andb]; lia.
Qed.

Lemma fresh_scans_facts : forall lim p,
  map s_next (map (fresh_scan lim) (seq 0 p)) = seq 0 p /\
  concat (map out_of (map (fresh_scan lim) (seq 0 p))) = [] /\
  concat (map (fun s => match s_cur s with Some r0 => r0 | None => [] end) (map (fresh_scan lim) (seq 0 p))) = [] /\
  Forall (fun s => s_limit s = lim /\ s_done s = false /\ s_off s = 0) (map (fresh_scan lim) (seq 0 p)) /\
  length (map (fresh_scan lim) (seq 0 p)) = p.
Proof.
  intros lim p. repeat split.
  - rewrite map_map. cbn [fresh_scan s_next]. apply map_id.
  - induction (seq 0 p) as [|x l IH]; cbn; [reflexivity|exact IH].
  - induction (seq 0 p) as [|x l IH]; cbn; [reflexivity|exact IH].
  - apply Forall_forall. intros s Hin. apply in_map_iff in Hin. destruct Hin as (x & <- & _). cbn. auto.
  - rewrite map_length, seq_length. reflexivity.
Qed.

Lemma start_inv_common : forall k lim p c SG,
  0 < cap k -> segs c = SG ->
  lim_ok SG {| segs := segs c; counter := p; apps := apps c; scans := map (fresh_scan lim) (seq 0 p); fetched := [] |} ->
  scan_inv k SG {| segs := segs c; counter := p; apps := apps c; scans := map (fresh_scan lim) (seq 0 p); fetched := [] |}.
Proof.
  intros k lim p c SG Hcap Hs Hl. destruct (fresh_scans_facts lim p) as (F1 & F2 & F3 & F4 & F5).
  constructor; cbn [segs counter apps fetched scans].
  - exists []. rewrite app_nil_r. exact Hs.
  - exact Hl.
  - intros i. rewrite F1, cntn_seq. cbn. reflexivity.
  - intros r. unfold scan_output, cur_rows, segrows. cbn [scans map concat fetched]. rewrite F2, F3. reflexivity.
  - constructor.
  - eapply Forall_impl; [|exact F4]. cbn. intros s (_ & Hd & _) Hc. congruence.
  - eapply Forall_impl; [|exact F4]. cbn. intros s (_ & _ & Ho). rewrite Ho. exact Hcap.
  - rewrite F5. cbn. lia.
Qed.

Lemma start_scan_inv : forall k p c, 0 < cap k ->
  forallb a_fin (apps c) = true -> scan_inv k (segs c) (start_scan p c).
Proof.
  intros k p c Hcap Hf. unfold start_scan. apply start_inv_common; [exact Hcap|reflexivity|].
  right. cbn [scans apps segs]. destruct (fresh_scans_facts None p) as (_ & _ & _ & F4 & _).
  repeat split; auto. eapply Forall_impl; [|exact F4]. cbn. tauto.
Qed.

Lemma start_table_scan_inv : forall k p c, 0 < cap k -> scan_inv k (segs c) (start_table_scan p c).
Proof.
  intros k p c Hcap. unfold start_table_scan. apply start_inv_common; [exact Hcap|reflexivity|].
  left. cbn [scans]. destruct (fresh_scans_facts (Some (length (segs c))) p) as (_ & _ & _ & F4 & _).
  eapply Forall_impl; [|exact F4]. cbn. tauto.
Qed.

Lemma cntn_ge_zero : forall m l i, Forall (fun x => m <= x) l -> i < m -> cntn i l = 0.
Proof.
  intros m l i HF Hi. induction HF as [|x l Hx HF IH]; [reflexivity|].
  rewrite cntn_cons, IH. destruct (Nat.eq_dec x i); lia.
Qed.

Lemma cntn_lt_zero : forall m l i, Forall (fun x => x < m) l -> m <= i -> cntn i l = 0.
Proof.
  intros m l i HF Hi. induction HF as [|x l Hx HF IH]; [reflexivity|].
  rewrite cntn_cons, IH. destruct (Nat.eq_dec x i); lia.
Qed.

Lemma cntn_in_pos : forall l x, In x l -> 1 <= cntn x l.
Proof. intros l x Hin. unfold cntn. apply (count_occ_In Nat.eq_dec) in Hin. lia. Qed.

Lemma Permutation_concat : forall A (l l' : list (list A)), Permutation l l' -> Permutation (concat l) (concat l').
Proof.
  intros A l l' HP. induction HP; cbn.
  - constructor.
  - apply Permutation_app_head. assumption.
  - rewrite !app_assoc. apply Permutation_app_tail. apply Permutation_app_comm.
  - eapply Permutation_trans; eassumption.
Qed.

Lemma map_nth_seq : forall A (d : A) (p l : list A),
  map (fun i => nth i (p ++ l) d) (seq (length p) (length l)) = l.
Proof.
  intros A d p l. revert p. induction l as [|x l IH]; intros p; cbn [length seq map]; [reflexivity|].
  rewrite app_nth2 by lia. rewrite Nat.sub_diag. cbn [nth]. f_equal.
  specialize (IH (p ++ [x])). rewrite <- app_assoc in IH. cbn [app] in IH.
  rewrite app_length in IH. cbn [length] in IH. rewrite Nat.add_1_r in IH. exact IH.
Qed.

Lemma done_scanners : forall (SG : list (list row)) l,
  Forall (fun s => s_done s = true -> s_cur s = None /\ length SG <= s_next s) l ->
  forallb s_done l = true ->
  Forall (fun x => length SG <= x) (map s_next l) /\
  concat (map (fun s => match s_cur s with Some r => r | None => [] end) l) = [].
Proof.
  intros SG l HF. induction HF as [|s l Hs HF IH]; cbn; intros Hb; [split; constructor|].
  apply andb_true_iff in Hb. destruct Hb as [H1 H2]. destruct (Hs H1) as [Hc Hn]. destruct (IH H2) as [I1 I2].
  split; [constructor; assumption|]. rewrite Hc. cbn. exact I2.
Qed.

(* when every scan state is exhausted, the scan has returned exactly the rows of SG, each once *)
Lemma scan_complete_output : forall k SG c,
  scan_inv k SG c -> 1 <= length (scans c) -> all_done c = true ->
  Permutation (scan_output c) (concat SG).
Proof.
  intros k SG c I L Hd. destruct I. unfold all_done in Hd.
  destruct (done_scanners _ _ si_done0 Hd) as [Hge Hcur].
  set (m := length SG) in *.
  assert (Hne : exists x, In x (map s_next (scans c))).
  { destruct (scans c) as [|s l]; [cbn in L; lia|]. exists (s_next s). left. reflexivity. }
  destruct Hne as (x & Hx).
  assert (Hxm : m <= x) by (rewrite Forall_forall in Hge; apply Hge; exact Hx).
  assert (Hcm : m < counter c).
  { pose proof (si_idx0 x) as Hi. pose proof (cntn_in_pos _ _ Hx) as H1.
    destruct (x <? counter c) eqn:E; [apply Nat.ltb_lt in E; lia|lia]. }
  assert (Hperm : Permutation (fetched c) (seq 0 m)).
  { apply (Permutation_count_occ Nat.eq_dec). intros i. fold (cntn i (fetched c)). fold (cntn i (seq 0 m)).
    rewrite cntn_seq. cbn [Nat.leb andb Nat.add].
    destruct (i <? m) eqn:E.
    - apply Nat.ltb_lt in E. pose proof (si_idx0 i) as Hi.
      rewrite (cntn_ge_zero m _ i Hge E) in Hi.
      destruct (i <? counter c) eqn:E2; [lia|apply Nat.ltb_ge in E2; lia].
    - apply Nat.ltb_ge in E. apply (cntn_lt_zero m); assumption. }
  apply (Permutation_count_occ N.eq_dec). intros r. fold (cnt r (scan_output c)). fold (cnt r (concat SG)).
  pose proof (si_rows0 r) as Hr2. unfold cur_rows in Hr2. rewrite Hcur in Hr2. rewrite cnt_nil in Hr2.
  rewrite Nat.add_0_r in Hr2. rewrite Hr2.
  unfold cnt. apply (Permutation_count_occ N.eq_dec).
  unfold segrows. apply Permutation_concat.
  eapply Permutation_trans; [apply Permutation_map; exact Hperm|].
  pose proof (map_nth_seq _ ([] : list row) [] SG) as E. cbn [app length] in E. fold m in E. rewrite E.
  apply Permutation_refl.
Qed.

(* a full parallel scan of a quiescent collection (no limit) returns every row exactly once *)
Lemma full_scan_exactly_once : forall k c p ls c',
  0 < cap k -> 0 < ocap k -> Forall (fun g => g <> []) (segs c) ->
  forallb a_fin (apps c) = true -> 1 <= p ->
  run k (start_scan p c) ls = Some c' -> all_done c' = true ->
  Permutation (scan_output c') (all_rows c).
Proof.
  intros k c p ls c' Hcap Hocap Hne Hf Hp Hr Hd.
  destruct (run_inv _ _ _ _ _ Hcap Hocap Hne (start_scan_inv k p c Hcap Hf) Hr) as [I L].
  eapply scan_complete_output; [exact I| |exact Hd].
  rewrite L. cbn [start_scan scans]. rewrite map_length, seq_length. exact Hp.
Qed.

(* TABLE scan: started when the table held the segments of c, it returns exactly those rows, each once,
   whatever is appended / flushed concurrently (ls is ANY sequence of labels) *)
Theorem table_scan_snapshot_proof : forall k c p ls c',
  0 < cap k -> 0 < ocap k -> Forall (fun g => g <> []) (segs c) -> 1 <= p ->
  run k (start_table_scan p c) ls = Some c' -> all_done c' = true ->
  Permutation (scan_output c') (all_rows c).
Proof.
  intros k c p ls c' Hcap Hocap Hne Hp Hr Hd.
  destruct (run_inv _ _ _ _ _ Hcap Hocap Hne (start_table_scan_inv k p c Hcap) Hr) as [I L].
  eapply scan_complete_output; [exact I| |exact Hd].
  rewrite L. cbn [start_table_scan scans]. rewrite map_length, seq_length. exact Hp.
Qed.

(* ------------------------------------------------------------------ segments are never empty *)
Lemma step_nonempty : forall k c l c',
  step k c l = Some c' -> Forall (fun g => g <> []) (segs c) -> Forall (fun g => g <> []) (segs c').
Proof.
  intros k c l c' H HF. destruct l as [i b|i|j|j]; cbn [step] in H.
  - destruct (do_append_rel _ _ _ _ _ H). auto.
  - destruct (do_finalize_rel _ _ _ H). auto.
  - destruct (do_scan_keeps _ _ _ _ H) as [E _]. rewrite E. exact HF.
  - destruct (do_scan k c j) as [c1|] eqn:Hs; [|discriminate].
    destruct (do_scan_keeps _ _ _ _ Hs) as [E _].
    destruct (nth_error (scans c1) j) as [s1|]; [|discriminate].
    destruct (s_done s1).
    + inversion H; subst. rewrite E. exact HF.
    + destruct (do_append_rel _ _ _ _ _ H). apply wr_ne0. rewrite E. exact HF.
Qed.

Lemma run_nonempty : forall k ls c c',
  run k c ls = Some c' -> Forall (fun g => g <> []) (segs c) -> Forall (fun g => g <> []) (segs c').
Proof.
  intros k ls. induction ls as [|l ls IH]; intros c c' H HF; cbn [run] in H.
  - inversion H; subst. exact HF.
  - destruct (step k c l) as [c1|] eqn:Hst; [|discriminate]. eapply IH; [exact H|]. eapply step_nonempty; eassumption.
Qed.

(* ------------------------------------------------------------------ the property-level statements *)

Theorem append_scan_exactly_once_proof : forall k sg n ls1 c1 p ls2 c2,
  0 < cap k -> 0 < ocap k -> Forall (fun g => g <> []) sg ->
  run k (writers sg n) ls1 = Some c1 -> all_finalized c1 = true ->
  1 <= p -> run k (start_scan p c1) ls2 = Some c2 -> all_done c2 = true ->
  Permutation (scan_output c2) (concat sg ++ appended ls1).
Proof.
  intros k sg n ls1 c1 p ls2 c2 Hcap Hocap Hne H1 Hf Hp H2 Hd.
  destruct (writers_fresh sg n) as (W1 & W2 & W3).
  destruct (writer_run k ls1 (writers sg n) c1 eq_refl H1) as (R1 & R2 & R3 & R4).
  pose proof (run_nonempty _ _ _ _ H1 Hne) as Hne1.
  eapply Permutation_trans; [eapply full_scan_exactly_once; eassumption|].
  apply (Permutation_count_occ N.eq_dec). intros r.
  fold (cnt r (all_rows c1)). fold (cnt r (concat sg ++ appended ls1)).
  pose proof (R1 r) as E. rewrite W2 in E. unfold buf_rows in E.
  rewrite (finalized_buf_empty _ (R4 W1) Hf) in E. rewrite cnt_app.
  change (all_rows (writers sg n)) with (concat sg) in E. rewrite cnt_nil in E. lia.
Qed.

Theorem insert_count_proof : forall k sg n ls c,
  run k (writers sg n) ls = Some c -> insert_count c = length (appended ls).
Proof.
  intros k sg n ls c H.
  destruct (writers_fresh sg n) as (W1 & W2 & W3).
  destruct (writer_run k ls (writers sg n) c eq_refl H) as (R1 & R2 & R3 & R4). rewrite R2, W3. reflexivity.
Qed.

Example exactly_once_hypotheses_satisfiable :
  exists ls1 c1 ls2 c2,
    run {| segsz := 2; cap := 1; ocap := 1 |} (writers [] 2) ls1 = Some c1 /\ all_finalized c1 = true /\
    run {| segsz := 2; cap := 1; ocap := 1 |} (start_scan 2 c1) ls2 = Some c2 /\ all_done c2 = true /\
    scan_output c2 = [3; 4; 1; 2; 5]%N.
Proof.
  exists [LAppend 0 [1%N]; LAppend 1 [3%N; 4%N]; LAppend 0 [2%N]; LAppend 0 [5%N]; LFinalize 1; LFinalize 0].
  eexists.
  exists [LScan 1; LScan 0; LScan 1; LScan 0; LScan 0; LScan 1; LScan 1].
  eexists.
  vm_compute. repeat split; reflexivity.
Qed.

(* ---- what one scan call emits *)
Definition emitted (s1 : scanner) : list row := if s_done s1 then [] else hd [] (s_out s1).

Lemma nth_error_mid : forall A (l1 l2 : list A) a, nth_error (l1 ++ a :: l2) (length l1) = Some a.
Proof. intros. rewrite nth_error_app2 by lia. rewrite Nat.sub_diag. reflexivity. Qed.

Lemma do_scan_emits : forall k c j c', do_scan k c j = Some c' ->
  exists s1, nth_error (scans c') j = Some s1 /\
    forall r, cnt r (scan_output c') = cnt r (scan_output c) + cnt r (emitted s1).
Proof.
  intros k c j c' H. destruct (do_scan_cases _ _ _ _ H) as (s & l1 & l2 & Hl & Hlen & Hd & Hcase).
  destruct Hcase as [(rem & _ & _ & ->)|[(_ & _ & ->)|(_ & seg & _ & ->)]]; cbn [set_scans scans]; subst j;
    eexists; (split; [apply nth_error_mid|]); intros r; unfold scan_output; cbn [scans set_scans]; rewrite Hl, !concat_map_mid, !cnt_app.
  - rewrite out_of_emit, cnt_app. unfold emitted, emit_from. cbn [s_done s_out hd].
    destruct (Nat.eqb_spec (slice k (s_off s) rem) 0) as [E|E]; [rewrite E; cbn; lia|lia].
  - unfold out_of, emitted. cbn [s_out s_done]. rewrite cnt_nil. lia.
  - rewrite out_of_emit, cnt_app. unfold emitted, emit_from. cbn [s_done s_out hd].
    destruct (Nat.eqb_spec (slice k 0 seg) 0) as [E|E]; [rewrite E; cbn; lia|lia].
Qed.

(* accounting of the statement's own actions: everything scanned so far has been appended *)
Definition stmt_acct (K : row -> nat) (c : coll) : Prop :=
  (forall r, cnt r (all_rows c) + cnt r (buf_rows c) = K r + cnt r (scan_output c)) /\ Forall fin_empty (apps c).

Lemma stmt_step_acct : forall k K c l c',
  is_stmt_label l = true -> step k c l = Some c' -> stmt_acct K c -> stmt_acct K c'.
Proof.
  intros k K c l c' Hl H [A1 A2]. destruct l as [i b|i|j|j]; try discriminate; cbn [step] in H.
  - destruct (do_finalize_rel _ _ _ H). split; [|auto].
    intros r. unfold scan_output. rewrite wr_scans0. fold (scan_output c). rewrite wr_rows0, cnt_nil, A1. lia.
  - destruct (do_scan k c j) as [c1|] eqn:Hs; [|discriminate].
    destruct (do_scan_emits _ _ _ _ Hs) as (s1 & Hn & He).
    destruct (do_scan_keeps _ _ _ _ Hs) as [E1 E2].
    rewrite Hn in H. unfold emitted in He. destruct (s_done s1).
    + inversion H; subst c'. split; [|rewrite E2; exact A2].
      intros r. unfold all_rows, buf_rows. rewrite E1, E2. fold (all_rows c). fold (buf_rows c).
      rewrite He, cnt_nil, A1. lia.
    + destruct (do_append_rel _ _ _ _ _ H). split; [|apply wr_fin0; rewrite E2; exact A2].
      intros r. unfold scan_output at 1. rewrite wr_scans0. fold (scan_output c1).
      rewrite wr_rows0. unfold all_rows, buf_rows. rewrite E1, E2. fold (all_rows c). fold (buf_rows c).
      rewrite He, A1. lia.
Qed.

Lemma stmt_run_acct : forall k K ls c c',
  forallb is_stmt_label ls = true -> run k c ls = Some c' -> stmt_acct K c -> stmt_acct K c'.
Proof.
  intros k K ls. induction ls as [|l ls IH]; intros c c' Hl H A; cbn [run] in H.
  - inversion H; subst. exact A.
  - cbn [forallb] in Hl. apply andb_true_iff in Hl. destruct Hl as [H1 H2].
    destruct (step k c l) as [c1|] eqn:Hst; [|discriminate].
    eapply IH; [exact H2|exact H|]. eapply stmt_step_acct; eassumption.
Qed.

(* INSERT INTO t SELECT * FROM t inserts exactly the rows the table held when the statement started:
   any number of partitions, any interleaving of their scan calls, appends, flushes and finalizes *)
Theorem insert_select_snapshot_proof : forall k sg p ls c,
  0 < cap k -> 0 < ocap k -> Forall (fun g => g <> []) sg -> 1 <= p ->
  forallb is_stmt_label ls = true ->
  run k (self_insert sg p) ls = Some c -> complete c = true ->
  Permutation (added (length sg) c) (concat sg).
Proof.
  intros k sg p ls c Hcap Hocap Hne Hp Hl Hr Hc.
  unfold complete in Hc. apply andb_true_iff in Hc. destruct Hc as [Hd Hf].
  unfold self_insert in Hr.
  pose proof (table_scan_snapshot_proof k (writers sg p) p ls c Hcap Hocap Hne Hp Hr Hd) as Hout.
  change (all_rows (writers sg p)) with (concat sg) in Hout.
  destruct (run_inv _ _ _ _ _ Hcap Hocap Hne (start_table_scan_inv k p (writers sg p) Hcap) Hr) as [I _].
  destruct (writers_fresh sg p) as (W1 & W2 & W3).
  assert (A0 : stmt_acct (fun r => cnt r (concat sg)) (start_table_scan p (writers sg p))).
  { split; [|exact W1]. intros r.
    destruct (fresh_scans_facts (Some (length (segs (writers sg p)))) p) as (_ & F2 & _).
    unfold scan_output. cbn [start_table_scan scans]. rewrite F2.
    change (buf_rows (start_table_scan p (writers sg p))) with (buf_rows (writers sg p)). rewrite W2.
    change (all_rows (start_table_scan p (writers sg p))) with (concat sg). rewrite !cnt_nil. lia. }
  destruct (stmt_run_acct _ _ _ _ _ Hl Hr A0) as [A1 A2].
  destruct I. destruct si_segs0 as [extra He]. cbn [writers segs] in He.
  apply (Permutation_count_occ N.eq_dec). intros r. fold (cnt r (added (length sg) c)). fold (cnt r (concat sg)).
  pose proof (A1 r) as E. unfold buf_rows in E. unfold all_finalized in Hf.
  rewrite (finalized_buf_empty _ A2 Hf) in E. rewrite cnt_nil in E.
  unfold all_rows in E. rewrite He, concat_app, cnt_app in E.
  unfold added. rewrite He. rewrite skipn_app, skipn_all, Nat.sub_diag. cbn [skipn app].
  pose proof (proj1 (Permutation_count_occ N.eq_dec _ _) Hout r) as Ho.
  fold (cnt r (scan_output c)) in Ho. fold (cnt r (concat sg)) in Ho. lia.
Qed.

Definition kw : cfg := {| segsz := 2; cap := 1; ocap := 1 |}.
Definition w_sched : list label :=
  [LPipe 0; LPipe 0; LPipe 0; LFinalize 0; LPipe 1; LPipe 1; LPipe 1; LFinalize 1].
Definition w_sched_good : list label :=
  [LPipe 1; LFinalize 1; LPipe 0; LPipe 0; LPipe 0; LFinalize 0].

(* satisfiability: the former witness order (partition 0 to completion, then partition 1) now inserts the
   snapshot: partition 1 finds index 1 beyond its limit and is exhausted at once *)
Definition w_sched_new : list label := [LPipe 0; LPipe 0; LPipe 0; LFinalize 0; LPipe 1; LFinalize 1].
Example insert_select_snapshot_satisfiable :
  exists c, forallb is_stmt_label w_sched_new = true /\ run kw (self_insert [[1%N; 2%N]] 2) w_sched_new = Some c /\
            complete c = true /\ added 1 c = [1%N; 2%N] /\
            run_order kw 10 (self_insert [[1%N; 2%N]] 2) [0; 1] = Some c.
Proof. eexists. vm_compute. repeat split; reflexivity. Qed.

(* ------------------------------------------------------------------ termination *)

Lemma in_concat_length : forall (SG : list (list row)) g, In g SG -> length g <= length (concat SG).
Proof.
  intros SG g. induction SG as [|x SG IH]; cbn; [tauto|]. rewrite app_length. intros [->|H]; [lia|]. specialize (IH H). lia.
Qed.

Lemma fetched_bound : forall k SG c, scan_inv k SG c -> length (fetched c) <= length SG.
Proof.
  intros k SG c I. destruct I.
  assert (Hnd : NoDup (fetched c)).
  { apply (NoDup_count_occ Nat.eq_dec). intros x. pose proof (si_idx0 x) as H. fold (cntn x (fetched c)).
    destruct (x <? counter c); lia. }
  rewrite <- (seq_length (length SG) 0). apply NoDup_incl_length; [exact Hnd|].
  intros x Hx. apply in_seq. rewrite Forall_forall in si_lt0. specialize (si_lt0 x Hx). lia.
Qed.

Lemma live_mid : forall A (f : A -> bool) l1 a l2,
  length (filter f (l1 ++ a :: l2)) = length (filter f l1) + (if f a then 1 else 0) + length (filter f l2).
Proof. intros. rewrite filter_app, app_length. cbn [filter]. destruct (f a); cbn [length]; lia. Qed.

Lemma len_mid : forall A B (f : A -> list B) l1 a l2,
  length (concat (map f (l1 ++ a :: l2))) = length (concat (map f l1)) + length (f a) + length (concat (map f l2)).
Proof. intros. rewrite concat_map_mid, !app_length. lia. Qed.

Lemma do_scan_decreases : forall k SG c j c', 0 < cap k -> 0 < ocap k -> Forall (fun g => g <> []) SG ->
  scan_inv k SG c -> do_scan k c j = Some c' ->
  measure (length (concat SG)) (length SG) c' < measure (length (concat SG)) (length SG) c /\ live_apps c' = live_apps c.
Proof.
  intros k SG c j c' Hcap Hocap Hne I H.
  pose proof (do_scan_inv _ _ _ _ _ Hcap Hocap Hne I H) as I'.
  pose proof (fetched_bound _ _ _ I') as Hb'. pose proof (fetched_bound _ _ _ I) as Hb.
  pose proof (si_cnt _ _ _ I') as Hc'. pose proof (si_cnt _ _ _ I) as Hc.
  pose proof (do_scan_length _ _ _ _ H) as HL.
  destruct (do_scan_cases _ _ _ _ H) as (s & l1 & l2 & Hl & _ & Hd & Hcase).
  assert (Hin : In s (scans c)) by (rewrite Hl; apply in_or_app; right; left; reflexivity).
  assert (Hoff : s_off s < cap k) by (destruct I as [_ _ _ _ _ _ Ho _]; rewrite Forall_forall in Ho; auto).
  assert (Hfs : forall seg, fetch_of c s = Some seg -> seg <> [] /\ length seg <= length (concat SG)).
  { intros seg Hf. destruct I as [Hsegs Hlim _ _ _ _ _ _].
    destruct (fetch_some SG c s seg Hsegs Hlim Hin Hf) as [Hlt Hnth].
    assert (Hi : In seg SG) by (rewrite <- Hnth; apply nth_In; exact Hlt).
    split; [rewrite Forall_forall in Hne; apply Hne; exact Hi|apply in_concat_length; exact Hi]. }
  set (R := length (concat SG)) in *. set (L := length SG) in *.
  destruct Hcase as [(rem & Hcur & Hnz & ->)|[(Hcur & Hf & ->)|(Hcur & seg & Hf & ->)]];
    (split; [|reflexivity]); unfold measure, live_scans, live_apps, cur_rows in *;
    cbn [set_scans scans counter apps fetched] in *; rewrite Hl in *; rewrite !len_mid, !live_mid, !app_length; cbn [length].
  - pose proof (slice_pos k (s_off s) rem Hcap Hocap Hoff Hnz) as Hpos.
    pose proof (slice_le k (s_off s) rem) as Hle.
    cbn [emit_from s_cur s_done]. rewrite Hcur, Hd. rewrite skipn_length.
    destruct (Nat.eqb_spec (slice k (s_off s) rem) 0) as [E|E]; [lia|]. cbn [negb]. lia.
  - fold (curof s). rewrite Hcur. cbn [s_cur s_done negb length]. rewrite Hd. cbn [negb]. lia.
  - destruct (Hfs seg Hf) as [Hseg HsegR].
    pose proof (slice_pos k 0 seg Hcap Hocap Hcap Hseg) as Hpos.
    pose proof (slice_le k 0 seg) as Hle.
    fold (curof s). rewrite Hcur. cbn [emit_from s_cur s_done length]. rewrite Hd, skipn_length.
    destruct (Nat.eqb_spec (slice k 0 seg) 0) as [E|E]; [lia|]. cbn [negb].
    cbn [length] in Hc', Hb'. rewrite !app_length in Hc', Hc. cbn [length] in Hc', Hc.
    assert (Hm : S R * (length l1 + S (length l2) + L - S (counter c)) + S R = S R * (length l1 + S (length l2) + L - counter c)).
    { replace (length l1 + S (length l2) + L - counter c) with (S (length l1 + S (length l2) + L - S (counter c))) by lia. lia. }
    lia.
Qed.

Lemma do_append_live : forall k c i b c', do_append k c i b = Some c' -> live_apps c' = live_apps c.
Proof.
  intros k c i b c' H. unfold do_append in H.
  destruct (nth_error (apps c) i) as [a|] eqn:Hn; [|discriminate].
  destruct (a_fin a) eqn:Hfin; [discriminate|].
  destruct (replace_split _ _ _ _ Hn) as (l1 & l2 & Hl & Hrep & _).
  unfold live_apps. cbn [a_buf] in H.
  destruct (segsz k <=? _); [unfold flush in H; cbn [a_buf a_count a_fin] in H; destruct (a_buf a ++ b)|];
    inversion H; subst c'; cbn [set_apps apps]; rewrite Hrep, Hl, !live_mid; cbn [a_fin]; rewrite Hfin; reflexivity.
Qed.

Lemma do_finalize_live : forall c i c', do_finalize c i = Some c' -> S (live_apps c') = live_apps c.
Proof.
  intros c i c' H. unfold do_finalize in H.
  destruct (nth_error (apps c) i) as [a|] eqn:Hn; [|discriminate].
  destruct (a_fin a) eqn:Hfin; [discriminate|].
  destruct (replace_split _ _ _ _ Hn) as (l1 & l2 & Hl & Hrep & _).
  unfold live_apps, flush in *.
  destruct (a_buf a); inversion H; subst c'; cbn [set_apps apps]; rewrite Hrep, Hl, !live_mid; cbn [a_fin negb]; rewrite Hfin; cbn [negb]; lia.
Qed.

(* every action of the statement strictly decreases the measure *)
Theorem stmt_step_decreases_proof : forall k SG c l c',
  0 < cap k -> 0 < ocap k -> Forall (fun g => g <> []) SG -> scan_inv k SG c ->
  is_stmt_label l = true -> step k c l = Some c' ->
  measure (length (concat SG)) (length SG) c' < measure (length (concat SG)) (length SG) c.
Proof.
  intros k SG c l c' Hcap Hocap Hne I Hl H. destruct l as [i b|i|j|j]; try discriminate; cbn [step] in H.
  - pose proof (do_finalize_live _ _ _ H) as HL. destruct (do_finalize_rel _ _ _ H).
    unfold measure, live_scans, cur_rows in *. rewrite wr_scans0, wr_counter0. lia.
  - destruct (do_scan k c j) as [c1|] eqn:Hs; [|discriminate].
    destruct (do_scan_decreases _ _ _ _ _ Hcap Hocap Hne I Hs) as [Hm _].
    destruct (nth_error (scans c1) j) as [s1|]; [|discriminate].
    destruct (s_done s1).
    + inversion H; subst. exact Hm.
    + pose proof (do_append_live _ _ _ _ _ H) as HL. destruct (do_append_rel _ _ _ _ _ H).
      unfold measure, live_scans, cur_rows in *. rewrite wr_scans0, wr_counter0, HL. exact Hm.
Qed.

Lemma stmt_run_bounded : forall k SG ls c c',
  0 < cap k -> 0 < ocap k -> Forall (fun g => g <> []) SG -> scan_inv k SG c ->
  forallb is_stmt_label ls = true -> run k c ls = Some c' ->
  length ls + measure (length (concat SG)) (length SG) c' <= measure (length (concat SG)) (length SG) c.
Proof.
  intros k SG ls. induction ls as [|l ls IH]; intros c c' Hcap Hocap Hne I Hl H; cbn [run] in H.
  - inversion H; subst. cbn. lia.
  - cbn [forallb] in Hl. apply andb_true_iff in Hl. destruct Hl as [H1 H2].
    destruct (step k c l) as [c1|] eqn:Hst; [|discriminate].
    pose proof (stmt_step_decreases_proof _ _ _ _ _ Hcap Hocap Hne I H1 Hst) as Hd.
    destruct (step_inv _ _ _ _ _ Hcap Hocap Hne I Hst) as [I1 _].
    specialize (IH _ _ Hcap Hocap Hne I1 H2 H). cbn [length]. lia.
Qed.

Lemma live_fresh_apps : forall n, length (filter (fun a => negb (a_fin a)) (repeat fresh_app n)) = n.
Proof. induction n as [|q IH]; cbn; [reflexivity|]. f_equal. exact IH. Qed.

Lemma filter_all_true : forall A (f : A -> bool) l, Forall (fun x => f x = true) l -> filter f l = l.
Proof. intros A f l H. induction H as [|x l Hx H IH]; cbn; [reflexivity|]. rewrite Hx, IH. reflexivity. Qed.

(* the self-reading INSERT terminates: no run of the statement is longer than (R+1)*L + 2p steps
   (R rows in L segments at statement start, p partitions) *)
Theorem self_insert_terminates_proof : forall k sg p ls c,
  0 < cap k -> 0 < ocap k -> Forall (fun g => g <> []) sg ->
  forallb is_stmt_label ls = true -> run k (self_insert sg p) ls = Some c ->
  length ls <= S (length (concat sg)) * length sg + 2 * p.
Proof.
  intros k sg p ls c Hcap Hocap Hne Hl Hr. unfold self_insert in Hr.
  pose proof (stmt_run_bounded k sg ls _ _ Hcap Hocap Hne (start_table_scan_inv k p (writers sg p) Hcap) Hl Hr) as Hb.
  assert (Hm : measure (length (concat sg)) (length sg) (start_table_scan p (writers sg p)) = S (length (concat sg)) * length sg + 2 * p).
  { unfold measure, live_scans, live_apps, cur_rows. cbn [start_table_scan writers scans counter apps segs].
    destruct (fresh_scans_facts (Some (length sg)) p) as (_ & _ & F3 & F4 & F5). rewrite F3, F5.
    assert (E1 : length (filter (fun s => negb (s_done s)) (map (fresh_scan (Some (length sg))) (seq 0 p))) = p).
    { rewrite filter_all_true; [exact F5|]. eapply Forall_impl; [|exact F4]. cbn. intros s (_ & Hd & _). rewrite Hd. reflexivity. }
    rewrite E1, live_fresh_apps. cbn [length]. replace (p + length sg - p) with (length sg) by lia. lia. }
  lia.
Qed.

(* ------------------------------------------------------------------ the table scan before 2e9960218 (no limit) *)

Lemma old_insert_select_snapshot_refuted_proof :
  exists k sg p ls c, run k (Old.self_insert sg p) ls = Some c /\ complete c = true /\
    ~ Permutation (added (length sg) c) (concat sg).
Proof.
  exists kw, [[1%N; 2%N]], 2, w_sched.
  eexists. split; [vm_compute; reflexivity|]. split; [vm_compute; reflexivity|].
  intros HP. apply Permutation_length in HP. vm_compute in HP. discriminate.
Qed.

Lemma old_insert_select_schedule_dependent_proof :
  exists k sg p ls1 ls2 c1 c2,
    run k (Old.self_insert sg p) ls1 = Some c1 /\ complete c1 = true /\
    run k (Old.self_insert sg p) ls2 = Some c2 /\ complete c2 = true /\
    length (added (length sg) c1) = 4 /\ length (added (length sg) c2) = 2 /\ length (concat sg) = 2.
Proof.
  exists kw, [[1%N; 2%N]], 2, w_sched, w_sched_good. do 2 eexists. vm_compute. repeat split; reflexivity.
Qed.

Lemma old_witness_is_ascending_order :
  run_order kw 10 (Old.self_insert [[1%N; 2%N]] 2) [0; 1] = run kw (Old.self_insert [[1%N; 2%N]] 2) w_sched /\
  run_order kw 10 (Old.self_insert [[1%N; 2%N]] 2) [1; 0] = run kw (Old.self_insert [[1%N; 2%N]] 2) w_sched_good.
Proof. vm_compute. split; reflexivity. Qed.

Lemma old_self_insert_growth_witness_proof :
  exists c, run kw (Old.self_insert [[1%N; 2%N]] 1) (repeat (LPipe 0) 200) = Some c /\ complete c = false /\
            100 <= length (all_rows c).
Proof.
  eexists. split; [vm_compute; reflexivity|]. split; [vm_compute; reflexivity|].
  apply Nat.leb_le. vm_compute. reflexivity.
Qed.

(* ---- a statement that stops (fails) after a flush leaves the flushed segment visible: refuted (unrepaired) *)
Lemma storage_error_atomic_refuted_proof :
  exists k sg n ls c, run k (writers sg n) ls = Some c /\ all_finalized c = false /\ all_rows c <> concat sg.
Proof.
  exists kw, [], 1, [LAppend 0 [1%N]; LAppend 0 [2%N]]. eexists.
  split; [vm_compute; reflexivity|]. split; [vm_compute; reflexivity|]. vm_compute. discriminate.
Qed.

Lemma no_flush_below_threshold : forall k c i b c',
  do_append k c i b = Some c' ->
  (forall a, nth_error (apps c) i = Some a -> nchunks (cap k) true (length (a_buf a ++ b)) < segsz k) ->
  segs c' = segs c.
Proof.
  intros k c i b c' H Hlt. unfold do_append in H.
  destruct (nth_error (apps c) i) as [a|] eqn:Hn; [|discriminate].
  destruct (a_fin a); [discriminate|]. cbn [a_buf] in H.
  specialize (Hlt a eq_refl).
  destruct (segsz k <=? nchunks (cap k) true (length (a_buf a ++ b))) eqn:E.
  - apply Nat.leb_le in E. lia.
  - inversion H; subst. reflexivity.
Qed.

(* ------------------------------------------------------------------ chunk level: append_batch as written *)

Definition need (cp : nat) (cur : list row) (rem : nat) : nat :=
  if rem =? 0 then 1 else rem + 1 + (if length cur <? cp then 0 else 1).

Lemma skipn_add : forall A (l : list A) a b, skipn (a + b) l = skipn b (skipn a l).
Proof.
  intros A l a. revert l. induction a as [|a IH]; intros l b; [reflexivity|].
  destruct l as [|x l]; [cbn; destruct b; reflexivity|]. cbn [Nat.add skipn]. apply IH.
Qed.

Lemma append_loop_spec : forall fuel cp batch older cur off rem,
  0 < cp -> length cur <= cp -> off + rem = length batch -> need cp cur rem <= fuel ->
  exists h t, append_loop true cp fuel (cur :: older) batch off rem = Some ((h :: t) ++ older) /\
     concat (rev (h :: t)) = cur ++ skipn off batch /\
     length h <= cp /\ Forall (fun c => length c = cp) t /\ (t <> [] -> h <> []).
Proof.
  induction fuel as [|f IH]; intros cp batch older cur off rem Hcp Hcur Hlen Hfuel.
  - unfold need in Hfuel. destruct (rem =? 0); lia.
  - cbn [append_loop]. destruct (Nat.eqb_spec rem 0) as [E|E].
    + exists cur, []. split; [reflexivity|]. split; [|split; [exact Hcur|split; [constructor|intros H; contradiction]]].
      cbn. rewrite app_nil_r. rewrite skipn_all2 by lia. rewrite app_nil_r. reflexivity.
    + set (copy := Nat.min (cp - length cur) rem).
      assert (Hsk : length (skipn off batch) = rem) by (rewrite skipn_length; lia).
      assert (Hfl : length (firstn copy (skipn off batch)) = copy) by (rewrite firstn_length, Hsk; unfold copy; lia).
      assert (Halg : forall x, x = skipn (off + copy) batch ->
                (cur ++ firstn copy (skipn off batch)) ++ x = cur ++ skipn off batch).
      { intros x ->. rewrite <- app_assoc. f_equal. rewrite skipn_add. apply firstn_skipn. }
      unfold need in Hfuel. destruct (Nat.eqb_spec rem 0) as [|_]; [contradiction|].
      destruct (Nat.ltb_spec 0 (rem - copy)) as [Hr|Hr].
      * (* the batch does not fit: the current chunk is filled up, a new chunk is allocated *)
        assert (Hfull : length (cur ++ firstn copy (skipn off batch)) = cp) by (rewrite app_length, Hfl; unfold copy in *; lia).
        destruct (IH cp batch ((cur ++ firstn copy (skipn off batch)) :: older) [] (off + copy) (rem - copy)) as (h & t & He & Hc & Hh & Ht & Hn).
        -- exact Hcp.
        -- cbn; lia.
        -- unfold copy in *; lia.
        -- unfold need. destruct (Nat.eqb_spec (rem - copy) 0); [lia|]. cbn [length].
           destruct (Nat.ltb_spec 0 cp); [|lia]. destruct (Nat.ltb_spec (length cur) cp); unfold copy in *; lia.
        -- exists h, (t ++ [cur ++ firstn copy (skipn off batch)]). repeat split.
           ++ rewrite He. f_equal. cbn [app]. f_equal. rewrite <- app_assoc. reflexivity.
           ++ change (h :: t ++ [cur ++ firstn copy (skipn off batch)]) with ((h :: t) ++ [cur ++ firstn copy (skipn off batch)]).
              rewrite rev_app_distr. rewrite concat_app, Hc.
              change (concat (rev [cur ++ firstn copy (skipn off batch)])) with ((cur ++ firstn copy (skipn off batch)) ++ []).
              rewrite app_nil_r. cbn [app]. apply Halg. reflexivity.
           ++ exact Hh.
           ++ apply Forall_app. split; [exact Ht|]. constructor; [exact Hfull|constructor].
           ++ intros _. destruct t as [|t0 t1].
              ** cbn in Hc. rewrite app_nil_r in Hc. intros ->. apply (f_equal (@length row)) in Hc.
                 rewrite skipn_length in Hc. cbn in Hc. unfold copy in *; lia.
              ** apply Hn. discriminate.
      * (* the rest of the batch fits into the current chunk *)
        assert (Hcopy : copy = rem) by (unfold copy in *; lia).
        destruct (IH cp batch older (cur ++ firstn copy (skipn off batch)) (off + copy) (rem - copy)) as (h & t & He & Hc & Hh & Ht & Hn).
        -- exact Hcp.
        -- rewrite app_length, Hfl. unfold copy in *; lia.
        -- lia.
        -- unfold need. destruct (Nat.eqb_spec (rem - copy) 0); lia.
        -- exists h, t. repeat split; auto. rewrite Hc. apply Halg. reflexivity.
Qed.

Lemma chunk_rows_app : forall a b, chunk_rows (a ++ b) = chunk_rows b ++ chunk_rows a.
Proof. intros. unfold chunk_rows. rewrite rev_app_distr, concat_app. reflexivity. Qed.

(* one append_batch: nothing lost, duplicated or reordered; all chunks but the current one full *)
Lemma seg_append_spec : forall cp rchs batch, 0 < cp -> wfc cp rchs ->
  exists rchs', seg_append true cp rchs batch = Some rchs' /\ chunk_rows rchs' = chunk_rows rchs ++ batch /\ wfc cp rchs' /\ rchs' <> [].
Proof.
  intros cp rchs batch Hcp Hw. unfold seg_append.
  destruct rchs as [|cur older].
  - assert (F : need cp [] (length batch) <= length batch + 2)
      by (unfold need; destruct (length batch =? 0); destruct (length (@nil row) <? cp); lia).
    assert (L0 : length (@nil row) <= cp) by (cbn; lia).
    destruct (append_loop_spec (length batch + 2) cp batch [] [] 0 (length batch) Hcp L0 eq_refl F) as (h & t & He & Hc & Hh & Ht & Hn).
    exists ((h :: t) ++ []). rewrite app_nil_r in *. split; [exact He|].
    split; [unfold chunk_rows; rewrite Hc; reflexivity|]. split; [|discriminate].
    cbn [wfc]. repeat split; assumption.
  - destruct Hw as (W1 & W2 & W3).
    assert (F : need cp cur (length batch) <= length batch + 2)
      by (unfold need; destruct (length batch =? 0); destruct (length cur <? cp); lia).
    destruct (append_loop_spec (length batch + 2) cp batch older cur 0 (length batch) Hcp W1 eq_refl F) as (h & t & He & Hc & Hh & Ht & Hn).
    exists ((h :: t) ++ older). split; [exact He|]. split; [|split; [|discriminate]].
    + rewrite chunk_rows_app. unfold chunk_rows at 2. rewrite Hc. cbn [skipn].
      unfold chunk_rows. cbn [rev]. rewrite concat_app. cbn [concat]. rewrite app_nil_r, app_assoc. reflexivity.
    + cbn [app wfc]. repeat split; [exact Hh|apply Forall_app; split; assumption|].
      intros Hne. destruct t as [|t0 t1]; [|apply Hn; discriminate].
      cbn [app] in Hne. cbn in Hc. rewrite app_nil_r in Hc. intros ->.
      specialize (W3 Hne). destruct cur; [contradiction|discriminate].
Qed.

(* any sequence of append_batch calls, batches of any sizes, any chunk capacity > 0 *)
Theorem seg_appends_exact_proof : forall cp batches rchs, 0 < cp -> wfc cp rchs ->
  exists rchs', seg_appends true cp rchs batches = Some rchs' /\
    chunk_rows rchs' = chunk_rows rchs ++ concat batches /\ wfc cp rchs'.
Proof.
  intros cp batches. induction batches as [|b r IH]; intros rchs Hcp Hw; cbn [seg_appends concat].
  - exists rchs. rewrite app_nil_r. auto.
  - destruct (seg_append_spec cp rchs b Hcp Hw) as (r1 & E1 & C1 & W1 & _). rewrite E1.
    destruct (IH r1 Hcp W1) as (r2 & E2 & C2 & W2). exists r2. repeat split; [exact E2| |exact W2].
    rewrite C2, C1, app_assoc. reflexivity.
Qed.

Lemma full_chunks_length : forall cp (l : list (list row)), Forall (fun c => length c = cp) l -> length (concat l) = cp * length l.
Proof. intros cp l H. induction H as [|c l Hc H IH]; cbn; [lia|]. rewrite app_length, IH, Hc. lia. Qed.

(* the number of chunks is the closed form used by the collection model (`nchunks`, flush threshold of do_append) *)
Theorem chunk_count_is_nchunks_proof : forall cp rchs, 0 < cp -> wfc cp rchs -> rchs <> [] ->
  length rchs = nchunks cp true (length (chunk_rows rchs)).
Proof.
  intros cp rchs Hcp Hw Hne. destruct rchs as [|cur older]; [contradiction|]. destruct Hw as (W1 & W2 & W3).
  unfold chunk_rows, nchunks. cbn [rev length]. rewrite concat_app, app_length. cbn [concat]. rewrite app_nil_r.
  rewrite full_chunks_length with (cp := cp) by (apply Forall_rev; exact W2). rewrite rev_length.
  destruct older as [|o older'].
  - cbn [length]. rewrite Nat.mul_0_r. cbn [Nat.add].
    destruct (length cur) as [|lc] eqn:E.
    + rewrite Nat.div_small by lia. reflexivity.
    + assert (Hd : (S lc + cp - 1) / cp = 1).
      { symmetry. apply (Nat.div_unique _ _ 1 lc); lia. }
      rewrite Hd. reflexivity.
  - assert (Hc : cur <> []) by (apply W3; discriminate).
    assert (1 <= length cur) by (destruct cur; [contradiction|cbn; lia]).
    set (n := length (o :: older')) in *.
    assert (Hd : (cp * n + length cur + cp - 1) / cp = S n).
    { symmetry. apply (Nat.div_unique _ _ (S n) (length cur - 1)); lia. }
    rewrite Hd. lia.
Qed.

Lemma cflush_concat : forall sg rchs, concat (cflush sg rchs) = concat sg ++ chunk_rows rchs.
Proof.
  intros sg rchs. unfold cflush. destruct (chunk_rows rchs) eqn:E; [rewrite app_nil_r; reflexivity|].
  rewrite concat_app. cbn [concat]. rewrite app_nil_r. reflexivity.
Qed.

(* one appender partition with flushes: the table content is the previous content followed by the batches *)
Theorem bulk_content_proof : forall cp sz batches sg rchs, 0 < cp -> wfc cp rchs ->
  exists sg', bulk true cp sz sg rchs batches = Some sg' /\ concat sg' = concat sg ++ chunk_rows rchs ++ concat batches.
Proof.
  intros cp sz batches. induction batches as [|b r IH]; intros sg rchs Hcp Hw; cbn [bulk concat].
  - eexists. split; [reflexivity|]. rewrite cflush_concat, app_nil_r. reflexivity.
  - destruct (seg_append_spec cp rchs b Hcp Hw) as (r1 & E1 & C1 & W1 & _). rewrite E1.
    destruct (sz <=? length r1).
    + destruct (IH (cflush sg r1) [] Hcp Logic.I) as (sg' & E2 & C2). exists sg'. split; [exact E2|]. rewrite C2.
      rewrite cflush_concat, C1. change (chunk_rows []) with (@nil row). cbn [app]. rewrite <- !app_assoc. reflexivity.
    + destruct (IH sg r1 Hcp W1) as (sg' & E2 & C2). exists sg'. split; [exact E2|]. rewrite C2, C1, <- !app_assoc. reflexivity.
Qed.

(* the `input_offset = copy_count` variant: a batch spanning three chunks is stored with rows duplicated and lost,
   the count unchanged *)
Lemma seg_append_eq_variant_refuted_proof :
  exists cp batch rchs', seg_append false cp [] batch = Some rchs' /\
    length (chunk_rows rchs') = length batch /\ chunk_rows rchs' <> batch /\
    seg_append true cp [] batch = Some (rev [[1; 2]; [3; 4]; [5; 6]])%N.
Proof.
  exists 2, [1; 2; 3; 4; 5; 6]%N. eexists. split; [vm_compute; reflexivity|].
  split; [vm_compute; reflexivity|]. split; [vm_compute; discriminate|vm_compute; reflexivity].
Qed.

Example seg_appends_satisfiable :
  seg_appends true 3 [] [[1]; [2; 3; 4; 5; 6; 7; 8]; []; [9]]%N = Some [[7; 8; 9]; [4; 5; 6]; [1; 2; 3]]%N /\ wfc 3 [].
Proof. split; [vm_compute; reflexivity|exact Logic.I]. Qed.
