(* C14 — proofs about the storage transition system (model/Storage.v). *)
From Coq Require Import List NArith Arith Bool Permutation Lia.
From GV Require Import model.Storage.
Import ListNotations.

Definition cnt (r : row) (l : list row) : nat := count_occ N.eq_dec l r.
Definition cntn (i : nat) (l : list nat) : nat := count_occ Nat.eq_dec l i.

Lemma cnt_app : forall r a b, cnt r (a ++ b) = cnt r a + cnt r b.
Proof. intros r a b. unfold cnt. apply count_occ_app. Qed.
Lemma cntn_app : forall r a b, cntn r (a ++ b) = cntn r a + cntn r b.
Proof. intros r a b. unfold cntn. apply count_occ_app. Qed.
Lemma cnt_nil : forall r, cnt r [] = 0.
Proof. reflexivity. Qed.

Lemma replace_split : forall A (l : list A) i a,
  nth_error l i = Some a ->
  exists l1 l2, l = l1 ++ a :: l2 /\ forall b, replace i b l = l1 ++ b :: l2.
Proof.
  intros A l i a Hn.
  destruct (nth_error_split l i Hn) as (l1 & l2 & Hl & Hlen).
  exists l1, l2. split; [exact Hl|].
  intros b. unfold replace. subst l. subst i.
  rewrite firstn_app, Nat.sub_diag, firstn_all. cbn [firstn]. rewrite app_nil_r.
  rewrite skipn_app. rewrite skipn_all2 by lia.
  replace (S (length l1) - length l1) with 1 by lia. reflexivity.
Qed.

Lemma concat_map_mid : forall A B (f : A -> list B) l1 a l2,
  concat (map f (l1 ++ a :: l2)) = concat (map f l1) ++ f a ++ concat (map f l2).
Proof. intros. rewrite map_app, concat_app. reflexivity. Qed.

Lemma sum_mid : forall A (f : A -> nat) l1 a l2,
  fold_right Nat.add 0 (map f (l1 ++ a :: l2)) = fold_right Nat.add 0 (map f l1) + f a + fold_right Nat.add 0 (map f l2).
Proof.
  intros A f l1 a l2. induction l1 as [|x l1 IH]; cbn [app map fold_right]; [lia|]. rewrite IH. lia.
Qed.

(* ------------------------------------------------------------------ the append side *)

Definition fin_empty (a : appender) : Prop := a_fin a = true -> a_buf a = [].

Record writes_rel (c c' : coll) (b : list row) : Prop := {
  wr_rows : forall r, cnt r (all_rows c') + cnt r (buf_rows c') = cnt r (all_rows c) + cnt r (buf_rows c) + cnt r b;
  wr_count : insert_count c' = insert_count c + length b;
  wr_scans : scans c' = scans c;
  wr_counter : counter c' = counter c;
  wr_fetched : fetched c' = fetched c;
  wr_fin : Forall fin_empty (apps c) -> Forall fin_empty (apps c');
  wr_grow : exists extra, segs c' = segs c ++ extra
}.

Lemma Forall_mid : forall A (P : A -> Prop) l1 a b l2, Forall P (l1 ++ a :: l2) -> P b -> Forall P (l1 ++ b :: l2).
Proof.
  intros A P l1 a b l2 HF Hb. rewrite Forall_app in *. destruct HF as [H1 H2]. split; [exact H1|].
  inversion H2; subst. constructor; assumption.
Qed.

Lemma do_append_rel : forall k c i b c', do_append k c i b = Some c' -> writes_rel c c' b.
Proof.
  intros k c i b c' H. unfold do_append in H.
  destruct (nth_error (apps c) i) as [a|] eqn:Hn; [|discriminate].
  destruct (a_fin a) eqn:Hfin; [discriminate|].
  destruct (replace_split _ _ _ _ Hn) as (l1 & l2 & Hl & Hrep).
  cbn [a_buf] in H.
  destruct (segsz k <=? _) eqn:Hflush.
  - unfold flush in H. cbn [a_buf a_count a_fin] in H.
    destruct (a_buf a ++ b) as [|x rest] eqn:Hab.
    + inversion H; subst c'; clear H. rewrite Hrep.
      apply app_eq_nil in Hab. destruct Hab as [Ha Hb]. subst b.
      constructor; unfold all_rows, buf_rows, insert_count, set_apps; cbn [segs apps scans counter fetched].
      * intros r. rewrite Hl. rewrite !concat_map_mid. cbn [a_buf]. rewrite Ha. rewrite !cnt_app. cbn. lia.
      * rewrite Hl. rewrite !sum_mid. cbn [a_count length]. lia.
      * reflexivity. * reflexivity. * reflexivity.
      * intros HF. rewrite Hl in HF. eapply Forall_mid; [exact HF|]. intros _. reflexivity.
      * exists []. rewrite app_nil_r. reflexivity.
    + inversion H; subst c'; clear H. rewrite Hrep.
      constructor; unfold all_rows, buf_rows, insert_count, set_apps; cbn [segs apps scans counter fetched].
      * intros r. rewrite Hl. rewrite concat_app. rewrite !concat_map_mid. cbn [a_buf concat].
        assert (Hc : cnt r (x :: rest) = cnt r (a_buf a) + cnt r b) by (rewrite <- Hab; apply cnt_app).
        rewrite !cnt_app, Hc, ?cnt_nil. lia.
      * rewrite Hl. rewrite !sum_mid. cbn [a_count]. lia.
      * reflexivity. * reflexivity. * reflexivity.
      * intros HF. rewrite Hl in HF. eapply Forall_mid; [exact HF|]. intros _. reflexivity.
      * eexists. reflexivity.
  - inversion H; subst c'; clear H. rewrite Hrep.
    constructor; unfold all_rows, buf_rows, insert_count, set_apps; cbn [segs apps scans counter fetched].
    + intros r. rewrite Hl. rewrite !concat_map_mid. cbn [a_buf]. rewrite !cnt_app. lia.
    + rewrite Hl. rewrite !sum_mid. cbn [a_count]. lia.
    + reflexivity. + reflexivity. + reflexivity.
    + intros HF. rewrite Hl in HF. eapply Forall_mid; [exact HF|]. intros Hc. cbn in Hc. discriminate.
    + exists []. rewrite app_nil_r. reflexivity.
Qed.

Lemma do_finalize_rel : forall c i c', do_finalize c i = Some c' -> writes_rel c c' [].
Proof.
  intros c i c' H. unfold do_finalize in H.
  destruct (nth_error (apps c) i) as [a|] eqn:Hn; [|discriminate].
  destruct (a_fin a) eqn:Hfin; [discriminate|].
  destruct (replace_split _ _ _ _ Hn) as (l1 & l2 & Hl & Hrep).
  unfold flush in H.
  destruct (a_buf a) as [|x rest] eqn:Hab.
  - cbn [a_buf a_touched a_count] in H. inversion H; subst c'; clear H. rewrite Hrep.
    constructor; unfold all_rows, buf_rows, insert_count, set_apps; cbn [segs apps scans counter fetched].
    + intros r. rewrite Hl. rewrite !concat_map_mid. cbn [a_buf]. rewrite Hab. rewrite !cnt_app. cbn. lia.
    + rewrite Hl. rewrite !sum_mid. cbn [a_count length]. lia.
    + reflexivity. + reflexivity. + reflexivity.
    + intros HF. rewrite Hl in HF. eapply Forall_mid; [exact HF|]. intros _. reflexivity.
    + exists []. rewrite app_nil_r. reflexivity.
  - cbn [a_buf a_touched a_count] in H. inversion H; subst c'; clear H. rewrite Hrep.
    constructor; unfold all_rows, buf_rows, insert_count, set_apps; cbn [segs apps scans counter fetched].
    + intros r. rewrite Hl. rewrite concat_app. rewrite !concat_map_mid. cbn [a_buf concat].
      rewrite Hab. rewrite !cnt_app, ?cnt_nil. lia.
    + rewrite Hl. rewrite !sum_mid. cbn [a_count length]. lia.
    + reflexivity. + reflexivity. + reflexivity.
    + intros HF. rewrite Hl in HF. eapply Forall_mid; [exact HF|]. intros _. reflexivity.
    + eexists. reflexivity.
Qed.

Lemma do_scan_none_without_states : forall k c j, scans c = [] -> do_scan k c j = None.
Proof. intros k c j H. unfold do_scan. rewrite H. destruct j; reflexivity. Qed.

(* append phase: no scan states exist *)
Lemma writer_run : forall k ls c c',
  scans c = [] -> run k c ls = Some c' ->
  (forall r, cnt r (all_rows c') + cnt r (buf_rows c') = cnt r (all_rows c) + cnt r (buf_rows c) + cnt r (appended ls))
  /\ insert_count c' = insert_count c + length (appended ls)
  /\ scans c' = []
  /\ (Forall fin_empty (apps c) -> Forall fin_empty (apps c')).
Proof.
  intros k ls. induction ls as [|l ls IH]; intros c c' Hs Hr.
  - cbn in Hr. inversion Hr; subst. cbn. repeat split; auto; intros; lia.
  - cbn [run] in Hr. destruct (step k c l) as [c1|] eqn:Hst; [|discriminate].
    destruct l as [i b|i|j|j]; cbn [step] in Hst.
    + pose proof (do_append_rel _ _ _ _ _ Hst) as R. destruct R.
      assert (Hs1 : scans c1 = []) by congruence.
      destruct (IH _ _ Hs1 Hr) as (I1 & I2 & I3 & I4).
      cbn [appended]. repeat split.
      * intros r. rewrite I1, wr_rows0, cnt_app. lia.
      * rewrite I2, wr_count0, app_length. lia.
      * exact I3.
      * auto.
    + pose proof (do_finalize_rel _ _ _ Hst) as R. destruct R.
      assert (Hs1 : scans c1 = []) by congruence.
      destruct (IH _ _ Hs1 Hr) as (I1 & I2 & I3 & I4).
      cbn [appended]. repeat split.
      * intros r. rewrite I1, wr_rows0. cbn. lia.
      * rewrite I2, wr_count0. cbn. lia.
      * exact I3.
      * auto.
    + rewrite do_scan_none_without_states in Hst by assumption. discriminate.
    + rewrite do_scan_none_without_states in Hst by assumption. discriminate.
Qed.

Lemma finalized_buf_empty : forall l, Forall fin_empty l -> forallb a_fin l = true -> concat (map a_buf l) = [].
Proof.
  intros l HF. induction HF as [|a l Ha HF IH]; cbn; [reflexivity|].
  intros Hb. apply andb_true_iff in Hb. destruct Hb as [H1 H2]. rewrite (Ha H1), (IH H2). reflexivity.
Qed.

Lemma writers_fresh : forall sg n,
  Forall fin_empty (apps (writers sg n)) /\ buf_rows (writers sg n) = [] /\ insert_count (writers sg n) = 0.
Proof.
  intros sg n. unfold writers, buf_rows, insert_count. cbn [apps].
  induction n as [|n IH]; cbn [repeat map concat fold_right].
  - repeat split. constructor.
  - destruct IH as (I1 & I2 & I3). repeat split.
    + constructor; [intros Hc; reflexivity|exact I1].
    + cbn. exact I2.
    + cbn. exact I3.
Qed.

(* ------------------------------------------------------------------ the scan side *)

Definition curof (s : scanner) : list row := match s_cur s with Some r => r | None => [] end.
Definition segrows (SG : list (list row)) (f : list nat) : list row := concat (map (fun i => nth i SG []) f).

Record scan_inv (SG : list (list row)) (c : coll) : Prop := {
  si_segs : segs c = SG;
  si_fin : forallb a_fin (apps c) = true;
  si_idx : forall i, cntn i (fetched c) + cntn i (map s_next (scans c)) = if i <? counter c then 1 else 0;
  si_rows : forall r, cnt r (scan_output c) + cnt r (cur_rows c) = cnt r (segrows SG (fetched c));
  si_lt : Forall (fun i => i < length SG) (fetched c);
  si_done : Forall (fun s => s_done s = true -> s_cur s = None /\ length SG <= s_next s) (scans c)
}.

Lemma out_of_push : forall s b nx cu dn,
  out_of {| s_next := nx; s_cur := cu; s_done := dn; s_out := b :: s_out s |} = out_of s ++ b.
Proof. intros. unfold out_of. cbn [s_out rev]. rewrite concat_app. cbn. rewrite app_nil_r. reflexivity. Qed.

Lemma finalized_no_append : forall k c i b, forallb a_fin (apps c) = true -> do_append k c i b = None.
Proof.
  intros k c i b H. unfold do_append. destruct (nth_error (apps c) i) as [a|] eqn:Hn; [|reflexivity].
  rewrite forallb_forall in H. rewrite (H a (nth_error_In _ _ Hn)). reflexivity.
Qed.

Lemma finalized_no_finalize : forall c i, forallb a_fin (apps c) = true -> do_finalize c i = None.
Proof.
  intros c i H. unfold do_finalize. destruct (nth_error (apps c) i) as [a|] eqn:Hn; [|reflexivity].
  rewrite forallb_forall in H. rewrite (H a (nth_error_In _ _ Hn)). reflexivity.
Qed.

Lemma cntn_cons : forall i x l, cntn i (x :: l) = (if Nat.eq_dec x i then 1 else 0) + cntn i l.
Proof. intros. unfold cntn. cbn. destruct (Nat.eq_dec x i); reflexivity. Qed.

Lemma idx_step : forall (F A B : nat -> nat) nx cn,
  (forall i, F i + (A i + ((if Nat.eq_dec nx i then 1 else 0) + B i)) = if i <? cn then 1 else 0) ->
  forall i, (if Nat.eq_dec nx i then 1 else 0) + F i + (A i + ((if Nat.eq_dec cn i then 1 else 0) + B i)) =
            if i <? S cn then 1 else 0.
Proof.
  intros F A B nx cn H i. pose proof (H i) as Hi. pose proof (H cn) as Hc.
  destruct (Nat.ltb_spec cn cn) as [X|X]; [lia|].
  destruct (Nat.eq_dec nx cn) as [E3|E3]; [lia|].
  destruct (Nat.eq_dec cn i) as [E2|E2].
  - subst i. destruct (Nat.eq_dec nx cn) as [E1|E1]; [lia|].
    destruct (Nat.ltb_spec cn (S cn)); lia.
  - destruct (Nat.eq_dec nx i) as [E1|E1]; destruct (Nat.ltb_spec i cn); destruct (Nat.ltb_spec i (S cn)); lia.
Qed.

Lemma do_scan_inv : forall k SG c j c', scan_inv SG c -> do_scan k c j = Some c' -> scan_inv SG c'.
Proof.
  intros k SG c j c' I H. destruct I. unfold do_scan in H.
  destruct (nth_error (scans c) j) as [s|] eqn:Hn; [|discriminate].
  destruct (s_done s) eqn:Hd; [discriminate|].
  destruct (replace_split _ _ _ _ Hn) as (l1 & l2 & Hl & Hrep).
  assert (Hemit : forall rem, curof s = rem -> (s_cur s = Some rem /\ rem <> []) ->
     scan_inv SG {| segs := segs c; counter := counter c; apps := apps c; fetched := fetched c;
              scans := replace j {| s_next := s_next s; s_cur := Some (skipn (cap k) rem); s_done := false;
                                    s_out := firstn (cap k) rem :: s_out s |} (scans c) |}).
  { intros rem Hcur _. rewrite Hrep.
    constructor; cbn [segs counter apps fetched scans]; auto.
    - intros i. rewrite <- (si_idx0 i). rewrite Hl. rewrite !map_app. cbn [map s_next]. reflexivity.
    - intros r. rewrite <- (si_rows0 r). unfold scan_output, cur_rows. cbn [scans]. rewrite Hl.
      rewrite !concat_map_mid. rewrite out_of_push. fold (curof s). rewrite Hcur. cbn [s_cur].
      rewrite !cnt_app. rewrite <- (firstn_skipn (cap k) rem) at 3. rewrite cnt_app. lia.
    - rewrite Hl in si_done0. eapply Forall_mid; [exact si_done0|]. cbn. intros Hc; discriminate. }
  destruct (s_cur s) as [rem|] eqn:Hcur.
  - destruct rem as [|x rem].
    + (* end of the current segment: fetch *)
      destruct (nth_error (segs c) (s_next s)) as [seg|] eqn:Hseg.
      * inversion H; subst c'; clear H. rewrite Hrep.
        assert (Hlt : s_next s < length SG).
        { rewrite <- si_segs0. apply nth_error_Some. congruence. }
        constructor; cbn [segs counter apps fetched scans]; auto.
        -- intros i. rewrite !map_app. cbn [map s_next]. rewrite !cntn_app, !cntn_cons.
           apply (idx_step (fun i => cntn i (fetched c)) (fun i => cntn i (map s_next l1)) (fun i => cntn i (map s_next l2))).
           intros i0. rewrite <- (si_idx0 i0). rewrite Hl. rewrite !map_app. cbn [map]. rewrite !cntn_app, !cntn_cons. reflexivity.
        -- intros r. pose proof (si_rows0 r) as Hr. unfold scan_output, cur_rows in *. cbn [scans].
           rewrite Hl in Hr. rewrite !concat_map_mid in *. rewrite out_of_push. rewrite Hcur in Hr.
           cbn [s_cur]. unfold segrows in *. cbn [map concat].
           rewrite (nth_error_nth _ _ [] (eq_trans (f_equal (fun z => nth_error z (s_next s)) (eq_sym si_segs0)) Hseg)).
           rewrite !cnt_app in *. rewrite <- (firstn_skipn (cap k) seg) at 3. rewrite cnt_app. cbn in Hr. lia.
        -- rewrite Hl in si_done0. eapply Forall_mid; [exact si_done0|]. cbn. intros Hc; discriminate.
      * inversion H; subst c'; clear H. rewrite Hrep.
        constructor; cbn [segs counter apps fetched scans]; auto.
        -- intros i. rewrite <- (si_idx0 i). rewrite Hl. rewrite !map_app. reflexivity.
        -- intros r. rewrite <- (si_rows0 r). unfold scan_output, cur_rows. cbn [scans]. rewrite Hl.
           rewrite !concat_map_mid. rewrite Hcur. unfold out_of. cbn [s_out s_cur]. reflexivity.
        -- rewrite Hl in si_done0. eapply Forall_mid; [exact si_done0|]. cbn. intros _. split; [reflexivity|].
           apply nth_error_None in Hseg. rewrite <- si_segs0. exact Hseg.
    + inversion H; subst c'; clear H. apply (Hemit (x :: rem)); [unfold curof; rewrite Hcur; reflexivity|].
      split; [reflexivity|discriminate].
  - destruct (nth_error (segs c) (s_next s)) as [seg|] eqn:Hseg.
    + inversion H; subst c'; clear H. rewrite Hrep.
      assert (Hlt : s_next s < length SG).
      { rewrite <- si_segs0. apply nth_error_Some. congruence. }
      constructor; cbn [segs counter apps fetched scans]; auto.
      * intros i. rewrite !map_app. cbn [map s_next]. rewrite !cntn_app, !cntn_cons.
        apply (idx_step (fun i => cntn i (fetched c)) (fun i => cntn i (map s_next l1)) (fun i => cntn i (map s_next l2))).
        intros i0. rewrite <- (si_idx0 i0). rewrite Hl. rewrite !map_app. cbn [map]. rewrite !cntn_app, !cntn_cons. reflexivity.
      * intros r. pose proof (si_rows0 r) as Hr. unfold scan_output, cur_rows in *. cbn [scans].
        rewrite Hl in Hr. rewrite !concat_map_mid in *. rewrite out_of_push. rewrite Hcur in Hr.
        cbn [s_cur]. unfold segrows in *. cbn [map concat].
        rewrite (nth_error_nth _ _ [] (eq_trans (f_equal (fun z => nth_error z (s_next s)) (eq_sym si_segs0)) Hseg)).
        rewrite !cnt_app in *. rewrite <- (firstn_skipn (cap k) seg) at 3. rewrite cnt_app. cbn in Hr. lia.
      * rewrite Hl in si_done0. eapply Forall_mid; [exact si_done0|]. cbn. intros Hc; discriminate.
    + inversion H; subst c'; clear H. rewrite Hrep.
      constructor; cbn [segs counter apps fetched scans]; auto.
      * intros i. rewrite <- (si_idx0 i). rewrite Hl. rewrite !map_app. reflexivity.
      * intros r. rewrite <- (si_rows0 r). unfold scan_output, cur_rows. cbn [scans]. rewrite Hl.
        rewrite !concat_map_mid. rewrite Hcur. unfold out_of. cbn [s_out s_cur]. reflexivity.
      * rewrite Hl in si_done0. eapply Forall_mid; [exact si_done0|]. cbn. intros _. split; [reflexivity|].
        apply nth_error_None in Hseg. rewrite <- si_segs0. exact Hseg.
Qed.

Lemma do_scan_length : forall k c j c', do_scan k c j = Some c' -> length (scans c') = length (scans c).
Proof.
  intros k c j c' H. unfold do_scan in H.
  destruct (nth_error (scans c) j) as [s|] eqn:Hn; [|discriminate].
  destruct (replace_split _ _ _ _ Hn) as (l1 & l2 & Hl & Hrep).
  destruct (s_done s); [discriminate|].
  destruct (match s_cur s with Some [] => None | x => x end).
  - inversion H; subst; cbn [scans]. rewrite Hrep, Hl, !app_length. reflexivity.
  - destruct (nth_error (segs c) (s_next s)); inversion H; subst; cbn [scans]; rewrite Hrep, Hl, !app_length; reflexivity.
Qed.

Lemma step_scan_inv : forall k SG c l c',
  scan_inv SG c -> step k c l = Some c' -> scan_inv SG c' /\ length (scans c') = length (scans c).
Proof.
  intros k SG c l c' I H. destruct l as [i b|i|j|j]; cbn [step] in H.
  - rewrite finalized_no_append in H by (destruct I; assumption). discriminate.
  - rewrite finalized_no_finalize in H by (destruct I; assumption). discriminate.
  - split; [eapply do_scan_inv; eassumption|eapply do_scan_length; eassumption].
  - destruct (do_scan k c j) as [c1|] eqn:Hs; [|discriminate].
    pose proof (do_scan_inv _ _ _ _ _ I Hs) as I1.
    destruct (nth_error (scans c1) j) as [s1|]; [|discriminate].
    destruct (s_done s1).
    + inversion H; subst. split; [exact I1|eapply do_scan_length; eassumption].
    + rewrite finalized_no_append in H by (destruct I1; assumption). discriminate.
Qed.

Lemma run_scan_inv : forall k SG ls c c',
  scan_inv SG c -> run k c ls = Some c' -> scan_inv SG c' /\ length (scans c') = length (scans c).
Proof.
  intros k SG ls. induction ls as [|l ls IH]; intros c c' I H; cbn [run] in H.
  - inversion H; subst. split; [assumption|reflexivity].
  - destruct (step k c l) as [c1|] eqn:Hst; [|discriminate].
    destruct (step_scan_inv _ _ _ _ _ I Hst) as [I1 L1].
    destruct (IH _ _ I1 H) as [I2 L2]. split; [exact I2|congruence].
Qed.

Lemma cntn_seq : forall n st i, cntn i (seq st n) = if (st <=? i) && (i <? st + n) then 1 else 0.
Proof.
  induction n as [|n IH]; intros st i; cbn [seq].
  - unfold cntn; cbn [count_occ].
    destruct (Nat.leb_spec st i); destruct (Nat.ltb_spec i (st + 0)); cbn [andb]; try reflexivity; lia.
  - rewrite cntn_cons, IH.
    destruct (Nat.eq_dec st i); destruct (Nat.leb_spec (S st) i); destruct (Nat.ltb_spec i (S st + n));
      destruct (Nat.leb_spec st i); destruct (Nat.ltb_spec i (st + S n)); cbn [andb]; lia.
Qed.

Lemma start_scan_inv : forall p c,
  forallb a_fin (apps c) = true -> scan_inv (segs c) (start_scan p c).
Proof.
  intros p c Hf. unfold start_scan. constructor; cbn [segs counter apps fetched scans]; auto.
  - intros i. rewrite map_map. cbn [fresh_scan s_next]. rewrite map_id. rewrite cntn_seq. cbn.
    reflexivity.
  - intros r. unfold scan_output, cur_rows, segrows. cbn [scans map concat].
    assert (E1 : forall l, concat (map out_of (map fresh_scan l)) = []).
    { intros l. induction l as [|x l IH]; cbn; [reflexivity|exact IH]. }
    assert (E2 : forall l, concat (map (fun s => match s_cur s with Some r0 => r0 | None => [] end) (map fresh_scan l)) = []).
    { intros l. induction l as [|x l IH]; cbn; [reflexivity|exact IH]. }
    rewrite E1, E2. reflexivity.
  - apply Forall_forall. intros s Hin. apply in_map_iff in Hin. destruct Hin as (x & <- & _). cbn. intros Hc; discriminate.
Qed.

Lemma cntn_ge_zero : forall m l i, Forall (fun x => m <= x) l -> i < m -> cntn i l = 0.
Proof.
  intros m l i HF Hi. induction HF as [|x l Hx HF IH]; [reflexivity|].
  rewrite cntn_cons, IH. destruct (Nat.eq_dec x i); lia.
Qed.

Lemma cntn_lt_zero : forall m l i, Forall (fun x => x < m) l -> m <= i -> cntn i l = 0.
Proof.
  intros m l i HF Hi. induction HF as [|x l Hx HF IH]; [reflexivity|].
  rewrite cntn_cons, IH. destruct (Nat.eq_dec x i); lia.
Qed.

Lemma cntn_in_pos : forall l x, In x l -> 1 <= cntn x l.
Proof.
  intros l x Hin. unfold cntn. apply (count_occ_In Nat.eq_dec) in Hin. lia.
Qed.

Lemma Permutation_concat : forall A (l l' : list (list A)), Permutation l l' -> Permutation (concat l) (concat l').
Proof.
  intros A l l' HP. induction HP; cbn.
  - constructor.
  - apply Permutation_app_head. assumption.
  - rewrite !app_assoc. apply Permutation_app_tail. apply Permutation_app_comm.
  - eapply Permutation_trans; eassumption.
Qed.

Lemma map_nth_seq : forall A (d : A) (p l : list A),
  map (fun i => nth i (p ++ l) d) (seq (length p) (length l)) = l.
Proof.
  intros A d p l. revert p. induction l as [|x l IH]; intros p; cbn [length seq map]; [reflexivity|].
  rewrite app_nth2 by lia. rewrite Nat.sub_diag. cbn [nth]. f_equal.
  specialize (IH (p ++ [x])). rewrite <- app_assoc in IH. cbn [app] in IH.
  rewrite app_length in IH. cbn [length] in IH. rewrite Nat.add_1_r in IH. exact IH.
Qed.

Lemma done_scanners : forall (SG : list (list row)) l,
  Forall (fun s => s_done s = true -> s_cur s = None /\ length SG <= s_next s) l ->
  forallb s_done l = true ->
  Forall (fun x => length SG <= x) (map s_next l) /\
  concat (map (fun s => match s_cur s with Some r => r | None => [] end) l) = [].
Proof.
  intros SG l HF. induction HF as [|s l Hs HF IH]; cbn; intros Hb; [split; constructor|].
  apply andb_true_iff in Hb. destruct Hb as [H1 H2]. destruct (Hs H1) as [Hc Hn]. destruct (IH H2) as [I1 I2].
  split; [constructor; assumption|]. rewrite Hc. cbn. exact I2.
Qed.

(* a full parallel scan of a quiescent collection returns every row exactly once *)
Lemma full_scan_exactly_once : forall k c p ls c',
  forallb a_fin (apps c) = true -> 1 <= p ->
  run k (start_scan p c) ls = Some c' -> all_done c' = true ->
  Permutation (scan_output c') (all_rows c).
Proof.
  intros k c p ls c' Hf Hp Hr Hd.
  destruct (run_scan_inv _ _ _ _ _ (start_scan_inv p c Hf) Hr) as [I L].
  destruct I. unfold all_done in Hd.
  destruct (done_scanners _ _ si_done0 Hd) as [Hge Hcur].
  set (m := length (segs c)) in *.
  assert (Hne : exists x, In x (map s_next (scans c'))).
  { cbn [start_scan scans] in L. rewrite map_length, seq_length in L.
    destruct (scans c') as [|s l]; [cbn in L; lia|]. exists (s_next s). left. reflexivity. }
  destruct Hne as (x & Hx).
  assert (Hxm : m <= x) by (rewrite Forall_forall in Hge; apply Hge; exact Hx).
  assert (Hcm : m < counter c').
  { pose proof (si_idx0 x) as Hi. pose proof (cntn_in_pos _ _ Hx) as H1.
    destruct (x <? counter c') eqn:E; [apply Nat.ltb_lt in E; lia|lia]. }
  assert (Hperm : Permutation (fetched c') (seq 0 m)).
  { apply (Permutation_count_occ Nat.eq_dec). intros i. fold (cntn i (fetched c')). fold (cntn i (seq 0 m)).
    rewrite cntn_seq. cbn [Nat.leb andb Nat.add].
    destruct (i <? m) eqn:E.
    - apply Nat.ltb_lt in E. pose proof (si_idx0 i) as Hi.
      rewrite (cntn_ge_zero m _ i Hge E) in Hi.
      destruct (i <? counter c') eqn:E2; [lia|apply Nat.ltb_ge in E2; lia].
    - apply Nat.ltb_ge in E. apply (cntn_lt_zero m); assumption. }
  apply (Permutation_count_occ N.eq_dec). intros r. fold (cnt r (scan_output c')). fold (cnt r (all_rows c)).
  pose proof (si_rows0 r) as Hr2. unfold cur_rows in Hr2. rewrite Hcur in Hr2. cbn in Hr2.
  rewrite Nat.add_0_r in Hr2. rewrite Hr2.
  unfold cnt. apply (Permutation_count_occ N.eq_dec).
  unfold segrows, all_rows. apply Permutation_concat.
  eapply Permutation_trans; [apply Permutation_map; exact Hperm|].
  pose proof (map_nth_seq _ ([] : list row) [] (segs c)) as E. cbn [app length] in E. fold m in E. rewrite E.
  apply Permutation_refl.
Qed.

(* ------------------------------------------------------------------ the property-level statements *)

Theorem append_scan_exactly_once_proof : forall k sg n ls1 c1 p ls2 c2,
  run k (writers sg n) ls1 = Some c1 -> all_finalized c1 = true ->
  1 <= p -> run k (start_scan p c1) ls2 = Some c2 -> all_done c2 = true ->
  Permutation (scan_output c2) (concat sg ++ appended ls1).
Proof.
  intros k sg n ls1 c1 p ls2 c2 H1 Hf Hp H2 Hd.
  destruct (writers_fresh sg n) as (W1 & W2 & W3).
  destruct (writer_run k ls1 (writers sg n) c1 eq_refl H1) as (R1 & R2 & R3 & R4).
  eapply Permutation_trans; [eapply full_scan_exactly_once; eassumption|].
  apply (Permutation_count_occ N.eq_dec). intros r.
  fold (cnt r (all_rows c1)). fold (cnt r (concat sg ++ appended ls1)).
  pose proof (R1 r) as E. rewrite W2 in E. unfold buf_rows in E.
  rewrite (finalized_buf_empty _ (R4 W1) Hf) in E. rewrite cnt_app.
  change (all_rows (writers sg n)) with (concat sg) in E. rewrite cnt_nil in E. lia.
Qed.

Theorem insert_count_proof : forall k sg n ls c,
  run k (writers sg n) ls = Some c -> insert_count c = length (appended ls).
Proof.
  intros k sg n ls c H.
  destruct (writers_fresh sg n) as (W1 & W2 & W3).
  destruct (writer_run k ls (writers sg n) c eq_refl H) as (R1 & R2 & R3 & R4). rewrite R2, W3. reflexivity.
Qed.

(* satisfiability of the hypotheses of the two theorems above *)
Example exactly_once_hypotheses_satisfiable :
  exists ls1 c1 ls2 c2,
    run {| segsz := 2; cap := 1 |} (writers [] 2) ls1 = Some c1 /\ all_finalized c1 = true /\
    run {| segsz := 2; cap := 1 |} (start_scan 2 c1) ls2 = Some c2 /\ all_done c2 = true /\
    scan_output c2 = [3; 4; 1; 2; 5]%N.
Proof.
  exists [LAppend 0 [1%N]; LAppend 1 [3%N; 4%N]; LAppend 0 [2%N]; LAppend 0 [5%N]; LFinalize 1; LFinalize 0].
  eexists.
  exists [LScan 1; LScan 0; LScan 1; LScan 0; LScan 0; LScan 1; LScan 1].
  eexists.
  vm_compute. repeat split; reflexivity.
Qed.

(* ---- snapshot isolation of a self-reading INSERT: refuted *)
Definition kw : cfg := {| segsz := 2; cap := 1 |}.
Definition w_sched : list label :=
  [LPipe 0; LPipe 0; LPipe 0; LFinalize 0; LPipe 1; LPipe 1; LPipe 1; LFinalize 1].
Definition w_sched_good : list label :=
  [LPipe 1; LFinalize 1; LPipe 0; LPipe 0; LPipe 0; LFinalize 0].

Lemma insert_select_snapshot_refuted_proof :
  exists k sg p ls c, run k (self_insert sg p) ls = Some c /\ complete c = true /\
    ~ Permutation (added (length sg) c) (concat sg).
Proof.
  exists kw, [[1%N; 2%N]], 2, w_sched.
  eexists. split; [vm_compute; reflexivity|]. split; [vm_compute; reflexivity|].
  intros HP. apply Permutation_length in HP. vm_compute in HP. discriminate.
Qed.

(* the same statement under another schedule does satisfy it: the result depends on the schedule *)
Lemma insert_select_schedule_dependent_proof :
  exists k sg p ls1 ls2 c1 c2,
    run k (self_insert sg p) ls1 = Some c1 /\ complete c1 = true /\
    run k (self_insert sg p) ls2 = Some c2 /\ complete c2 = true /\
    length (added (length sg) c1) = 4 /\ length (added (length sg) c2) = 2 /\ length (concat sg) = 2.
Proof.
  exists kw, [[1%N; 2%N]], 2, w_sched, w_sched_good. do 2 eexists. vm_compute. repeat split; reflexivity.
Qed.

(* the witness schedule is the run-to-completion schedule in ascending partition order *)
Lemma witness_is_ascending_order :
  run_order kw 10 (self_insert [[1%N; 2%N]] 2) [0; 1] = run kw (self_insert [[1%N; 2%N]] 2) w_sched /\
  run_order kw 10 (self_insert [[1%N; 2%N]] 2) [1; 0] = run kw (self_insert [[1%N; 2%N]] 2) w_sched_good.
Proof. vm_compute. split; reflexivity. Qed.

(* ---- a statement that stops (fails) after a flush leaves the flushed segment visible: refuted *)
Lemma storage_error_atomic_refuted_proof :
  exists k sg n ls c, run k (writers sg n) ls = Some c /\ all_finalized c = false /\ all_rows c <> concat sg.
Proof.
  exists kw, [], 1, [LAppend 0 [1%N]; LAppend 0 [2%N]]. eexists.
  split; [vm_compute; reflexivity|]. split; [vm_compute; reflexivity|]. vm_compute. discriminate.
Qed.

(* what does hold: before the first flush nothing is visible (every prefix shorter than segment_size chunks) *)
Lemma no_flush_below_threshold : forall k c i b c',
  do_append k c i b = Some c' ->
  (forall a, nth_error (apps c) i = Some a -> nchunks (cap k) true (length (a_buf a ++ b)) < segsz k) ->
  segs c' = segs c.
Proof.
  intros k c i b c' H Hlt. unfold do_append in H.
  destruct (nth_error (apps c) i) as [a|] eqn:Hn; [|discriminate].
  destruct (a_fin a); [discriminate|]. cbn [a_buf] in H.
  specialize (Hlt a eq_refl).
  destruct (segsz k <=? nchunks (cap k) true (length (a_buf a ++ b))) eqn:E.
  - apply Nat.leb_le in E. lia.
  - inversion H; subst. reflexivity.
Qed.

(* a self-reading INSERT with one partition on a table of one full segment: after 200 scan calls the partition
   is still not exhausted and the table has grown from 2 to more than 100 rows (every index it fetches exists
   again because its own flushes keep pace with its reads) *)
Lemma self_insert_growth_witness_proof :
  exists c, run kw (self_insert [[1%N; 2%N]] 1) (repeat (LPipe 0) 200) = Some c /\ complete c = false /\
            100 <= length (all_rows c).
Proof.
  eexists. split; [vm_compute; reflexivity|]. split; [vm_compute; reflexivity|].
  apply Nat.leb_le. vm_compute. reflexivity.
Qed.
