(* Proofs about model/Regex.v: the derivative matcher decides the declarative language; search and
   leftmost start; regexp_instr counts bytes. *)
From Coq Require Import NArith ZArith List Bool Lia ZifyBool ZifyNat ZifyN.
From GV Require Import model.Utf8 model.StrFn model.Regex proofs.Utf8Proofs proofs.StrFnProofs.
Import ListNotations.
Open Scope N_scope.

Lemma matches_empty s : ~ Matches Empty s.
Proof. intros H. inversion H. Qed.

Lemma nullable_spec r : nullable r = true <-> Matches r [].
Proof.
  induction r as [| |k|a IHa b IHb|a IHa b IHb|a IHa]; cbn [nullable].
  - split; [discriminate|intros H; inversion H].
  - split; [constructor|reflexivity].
  - split; [discriminate|intros H; inversion H].
  - rewrite andb_true_iff, IHa, IHb. split.
    + intros [Ha Hb]. apply (MCat a b [] [] Ha Hb).
    + intros H. inversion H as [| |a' b' s1 s2 Ha Hb E1 E2| | | |]; subst.
      apply app_eq_nil in E2 as [-> ->]. split; assumption.
  - rewrite orb_true_iff, IHa, IHb. split.
    + intros [H|H]; [apply MAltL|apply MAltR]; exact H.
    + intros H. inversion H; subst; [left|right]; assumption.
  - split; [constructor|reflexivity].
Qed.

Lemma cat'_spec a b s : Matches (cat' a b) s <-> Matches (Cat a b) s.
Proof.
  destruct a; cbn [cat']; try reflexivity.
  split; intros H; [inversion H|]. inversion H as [| |a' b' s1 s2 Ha Hb| | | |]; subst. inversion Ha.
Qed.

Lemma alt'_spec a b s : Matches (alt' a b) s <-> Matches (Alt a b) s.
Proof.
  assert (L : Matches b s <-> Matches (Alt Empty b) s).
  { split; [apply MAltR|]. intros H. inversion H as [| | |a' b' s' Ha|a' b' s' Hb| |]; subst; [inversion Ha|exact Hb]. }
  assert (R : Matches a s <-> Matches (Alt a Empty) s).
  { split; [apply MAltL|]. intros H. inversion H as [| | |a' b' s' Ha|a' b' s' Hb| |]; subst; [exact Ha|inversion Hb]. }
  destruct a; cbn [alt']; try exact L; destruct b; try exact R; reflexivity.
Qed.

(* a non-empty match of a star starts with a non-empty match of the body *)
Lemma star_cons a x s : Matches (Star a) (x :: s) ->
  exists s1 s2, s = s1 ++ s2 /\ Matches a (x :: s1) /\ Matches (Star a) s2.
Proof.
  intros H. remember (Star a) as r eqn:Er. remember (x :: s) as t eqn:Et.
  revert a x s Er Et.
  induction H as [|k y Hk|a0 b0 s1 s2 H1 _ H2 _|a0 b0 s0 H0 _|a0 b0 s0 H0 _|a0|a0 s1 s2 H1 _ H2 IH2];
    intros a x s Er Et; try discriminate.
  inversion Er; subst a0. destruct s1 as [|y s1].
  - cbn [app] in Et. exact (IH2 a x s eq_refl Et).
  - cbn [app] in Et. inversion Et; subst. exists s1, s2. auto.
Qed.

Lemma deriv_spec r : forall x s, Matches (deriv x r) s <-> Matches r (x :: s).
Proof.
  induction r as [| |k|a IHa b IHb|a IHa b IHb|a IHa]; intros x s; cbn [deriv].
  - split; intros H; inversion H.
  - split; intros H; inversion H.
  - destruct (cls_matches k x) eqn:E.
    + split; intros H.
      * inversion H; subst. constructor. exact E.
      * inversion H; subst. constructor.
    + split; intros H; [inversion H|]. inversion H; subst. congruence.
  - rewrite alt'_spec. split.
    + intros H. inversion H as [| | |a' b' s' HL|a' b' s' HR| |]; subst.
      * apply cat'_spec in HL. inversion HL as [| |a' b' s1 s2 H1 H2| | | |]; subst.
        apply IHa in H1. apply (MCat a b (x :: s1) s2 H1 H2).
      * destruct (nullable a) eqn:Na; [|inversion HR].
        apply IHb in HR. apply nullable_spec in Na. apply (MCat a b [] (x :: s) Na HR).
    + intros H. inversion H as [| |a' b' s1 s2 H1 H2 E1 E2| | | |]; subst.
      destruct s1 as [|y s1].
      * cbn [app] in E2. subst s2. apply MAltR.
        apply nullable_spec in H1. rewrite H1. apply IHb, H2.
      * cbn [app] in E2. inversion E2; subst. apply MAltL, cat'_spec.
        apply MCat; [apply IHa, H1|exact H2].
  - rewrite alt'_spec. split.
    + intros H. inversion H; subst; [apply MAltL, IHa|apply MAltR, IHb]; assumption.
    + intros H. inversion H; subst; [apply MAltL, IHa|apply MAltR, IHb]; assumption.
  - rewrite cat'_spec. split.
    + intros H. inversion H as [| |a' b' s1 s2 H1 H2| | | |]; subst.
      apply IHa in H1. apply (MStarS a (x :: s1) s2 H1 H2).
    + intros H. apply star_cons in H as (s1 & s2 & -> & H1 & H2).
      apply MCat; [apply IHa, H1|exact H2].
Qed.

(* the derivative matcher decides the declarative language *)
Lemma dmatch_spec s : forall r, dmatch r s = true <-> Matches r s.
Proof.
  unfold dmatch. induction s as [|x s IH]; intros r; cbn [fold_left].
  - apply nullable_spec.
  - rewrite IH. apply deriv_spec.
Qed.

Lemma all_star_matches s : Matches all_star s.
Proof.
  induction s as [|x s IH]; [constructor|].
  apply (MStarS (Chr CAll) [x] s); [constructor; reflexivity|exact IH].
Qed.

(* Regex::is_match = some occurrence of the body, respecting the anchors *)
Lemma rx_is_match_spec p s :
  rx_is_match p s = true <-> exists pre m post, s = pre ++ m ++ post /\ RxOccurs p pre m post.
Proof.
  unfold rx_is_match, search_re, RxOccurs. rewrite dmatch_spec. split.
  - intros H. inversion H as [| |a b pre t H1 H2| | | |]; subst.
    inversion H2 as [| |a b m post H3 H4| | | |]; subst.
    exists pre, m, post. split; [reflexivity|]. split; [exact H3|]. split.
    + intros B. rewrite B in H1. inversion H1. reflexivity.
    + intros E. rewrite E in H4. inversion H4. reflexivity.
  - intros (pre & m & post & -> & Hm & Hb & He).
    apply MCat; [|apply MCat; [exact Hm|]].
    + destruct (rx_bol p); [rewrite (Hb eq_refl); constructor|apply all_star_matches].
    + destruct (rx_eol p); [rewrite (He eq_refl); constructor|apply all_star_matches].
Qed.

(* find_from returns the leftmost suffix at which the prefix matcher succeeds *)
Lemma find_from_spec q s : forall i0 i, find_from q s i0 = Some i ->
  i0 <= i /\ dmatch q (dropN (i - i0) s) = true /\
  forall j, j < i - i0 -> dmatch q (dropN j s) = false.
Proof.
  induction s as [|x s IH]; intros i0 i H; cbn [find_from] in H.
  - destruct (dmatch q []) eqn:E; [|discriminate]. inversion H; subst.
    rewrite N.sub_diag. split; [lia|]. split; [exact E|]. intros j Hj. lia.
  - destruct (dmatch q (x :: s)) eqn:E.
    + inversion H; subst. rewrite N.sub_diag. split; [lia|]. split; [exact E|]. intros j Hj. lia.
    + apply IH in H as (H1 & H2 & H3). split; [lia|]. split.
      * cbn [dropN]. destruct (i - i0 =? 0) eqn:Z; [lia|].
        replace (i - i0 - 1) with (i - (i0 + 1)) by lia. exact H2.
      * intros j Hj. cbn [dropN]. destruct (j =? 0) eqn:Z; [exact E|]. apply H3. lia.
Qed.

Lemma find_from_none q s : forall i0, find_from q s i0 = None -> forall j, dmatch q (dropN j s) = false.
Proof.
  induction s as [|x s IH]; intros i0 H j; cbn [find_from] in H.
  - destruct (dmatch q []) eqn:E; [discriminate|]. destruct j; exact E.
  - destruct (dmatch q (x :: s)) eqn:E; [discriminate|].
    cbn [dropN]. destruct (j =? 0); [exact E|]. apply (IH _ H).
Qed.

Lemma blen_ascii cs : forallb (fun c => c <? 0x80) cs = true -> blen cs = lenN cs.
Proof.
  induction cs as [|c cs IH]; [reflexivity|]. cbn [forallb]. intros H.
  apply andb_true_iff in H as [Hc H]. cbn [blen fold_right]. fold (blen cs).
  rewrite (IH H), lenN_cons. unfold cp_width. rewrite Hc. lia.
Qed.

Lemma forallb_takeN {A} (f : A -> bool) l : forall k, forallb f l = true -> forallb f (takeN k l) = true.
Proof.
  induction l as [|x l IH]; intros k H; [reflexivity|]. cbn [forallb] in H.
  apply andb_true_iff in H as [Hx H]. cbn [takeN]. destruct (k =? 0); [reflexivity|].
  cbn [forallb]. rewrite Hx, (IH _ H). reflexivity.
Qed.

Lemma rx_find_start_bound p s i : rx_find_start p s = Some i -> i <= lenN s.
Proof.
  unfold rx_find_start. destruct (rx_bol p).
  - destruct (dmatch (prefix_re p) s); [|discriminate]. intros H; inversion H; lia.
  - assert (G : forall s i0 i, find_from (prefix_re p) s i0 = Some i -> i <= i0 + lenN s).
    { clear. induction s as [|x s IH]; intros i0 i H; cbn [find_from] in H.
      - destruct (dmatch (prefix_re p) []); [inversion H; lia|discriminate].
      - destruct (dmatch (prefix_re p) (x :: s)); [inversion H; lia|].
        apply IH in H. rewrite lenN_cons. lia. }
    intros H. apply G in H. lia.
Qed.

(* full strength: the position is counted in characters, for every string *)
Lemma regexp_instr_correct p cs : impl_regexp_instr p cs = Ok (spec_regexp_instr p cs).
Proof.
  unfold impl_regexp_instr, spec_regexp_instr.
  destruct (rx_find_start p cs) as [i|] eqn:F; [|reflexivity].
  rewrite slice_to_blen_take. cbn [bind].
  rewrite lenN_takeN by (eapply rx_find_start_bound, F). reflexivity.
Qed.

(* regression witness about the definition before add0e7ca2: regexp_instr('日a', 'a') = 4 *)
Lemma old_regexp_instr_refuted :
  let p := {| rx_bol := false; rx_body := Chr (CLit 97); rx_eol := false |} in
  old_impl_regexp_instr p [26085; 97] = Ok 4%Z /\ spec_regexp_instr p [26085; 97] = 2%Z.
Proof. split; vm_compute; reflexivity. Qed.

(* leftmost start: at the reported position the rest of the pattern matches a prefix, at no
   earlier position does it *)
Lemma rx_find_start_leftmost p s i : rx_bol p = false -> rx_find_start p s = Some i ->
  (exists m post, dropN i s = m ++ post /\ Matches (rx_body p) m /\ (rx_eol p = true -> post = [])) /\
  forall j, j < i -> ~ exists m post, dropN j s = m ++ post /\ Matches (rx_body p) m /\ (rx_eol p = true -> post = []).
Proof.
  intros B. unfold rx_find_start. rewrite B. intros H.
  apply find_from_spec in H as (_ & H2 & H3). rewrite N.sub_0_r in *.
  assert (P : forall t, dmatch (prefix_re p) t = true <->
               exists m post, t = m ++ post /\ Matches (rx_body p) m /\ (rx_eol p = true -> post = [])).
  { intros t. rewrite dmatch_spec. unfold prefix_re. split.
    - intros M. inversion M as [| |a b m post H4 H5| | | |]; subst. exists m, post.
      split; [reflexivity|]. split; [exact H4|]. intros E. rewrite E in H5. inversion H5. reflexivity.
    - intros (m & post & -> & Hm & He). apply MCat; [exact Hm|].
      destruct (rx_eol p); [rewrite (He eq_refl); constructor|apply all_star_matches]. }
  split; [apply P, H2|]. intros j Hj C. apply P in C. rewrite (H3 j Hj) in C. discriminate.
Qed.
