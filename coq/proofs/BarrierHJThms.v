(* C04 — theorems about the hash-join barrier model, on top of the invariant in BarrierHJProofs.v *)
From Coq Require Import List Arith Lia Bool.
From GV Require Import lib.Lts model.BarrierHashJoin proofs.BarrierHJProofs.
Import ListNotations.

(* a parked agent's condition is unmet: build partitions parked for the directory, probers parked for
   scan_ready, probers parked for the drain *)
Theorem hj_inv_parked_implies_flag_unset ab nb n s :
  hreach ab false true nb n s ->
  (0 < count is_bparked (bps s) -> hready s = false) /\
  (0 < count is_hpscan (hps s) -> sready s = false) /\
  (0 < count is_hpdrain (hps s) -> dready s && sready s = false).
Proof.
  intros Hr. destruct (hinv_reach _ _ _ _ Hr) as [A B1 B2 C D1' D2' E' F' SS1 SS0 R S0 S1 D0 D0b D1 D2 E L].
  unfold sr_n, dr_n, hr_n in *. repeat split; intros H.
  - destruct (hready s); [|reflexivity]. specialize (C eq_refl). lia.
  - destruct (sready s); [|reflexivity]. specialize (S1 eq_refl). lia.
  - destruct (dready s), (sready s); try reflexivity. specialize (D0b eq_refl eq_refl). lia.
Qed.

Theorem hj_no_error_path ab nb n s :
  hreach ab false true nb n s -> count is_berr (bps s) = 0 /\ count is_herr (hps s) = 0.
Proof. intros Hr. split; [apply (bF _ (hinv_reach _ _ _ _ Hr)) | apply (hE _ (hinv_reach _ _ _ _ Hr))]. Qed.

(* the flag-dependent invariants with boolean premises (lia treats them as propositional atoms) *)
Lemma hinv_plain s : HInv s ->
  (hready s = true -> count is_bcoll (bps s) + count is_bmidlast (bps s) + count is_bparked (bps s) = 0) /\
  (hready s = false -> 0 < count is_bcoll (bps s) + count is_bmid (bps s) + count is_bparked (bps s) ->
     1 <= count is_bcoll (bps s) + count is_bmidlast (bps s)) /\
  (sready s = false -> rem_ins s = 0 -> count is_bdone (bps s) = 0) /\
  (sready s = true -> count is_hpscan (hps s) = 0) /\
  (dready s = true -> sready s = true -> count is_hpdrain (hps s) = 0) /\
  (dready s = false -> rem_prob s = 0 ->
     count is_hchk (hps s) + count is_hpdrain (hps s) + count is_hdraining (hps s) + count is_hdone (hps s)
     + count is_haband (hps s) = 0).
Proof.
  intros [A B1 B2 C D1' D2' E' F' SS1 SS0 R S0 S1 D0 D0b D1 D2 E L].
  unfold sr_n, dr_n, hr_n in *.
  destruct (hready s), (sready s), (dready s); repeat split; intros; try discriminate;
    first [apply C; reflexivity | apply D2'; [reflexivity|assumption] | apply SS0; [reflexivity|assumption]
          | apply S1; reflexivity | apply D0b; reflexivity | apply D1; [reflexivity|assumption]].
Qed.

Ltac chg_b X := intros X; apply (f_equal bps) in X; cbn [bps] in X; eapply upd_neq in X; [assumption|eassumption|discriminate].
Ltac chg_h X := intros X; apply (f_equal hps) in X; cbn [hps] in X; eapply upd_neq in X; [assumption|eassumption|discriminate].

(* No deadlock: as long as some partition (build or probe) is not through, a partition that is NOT
   parked has a state-changing step — for any numbers of build (>= 1) and probe partitions, any
   arrival order (probers may finalize and park as drainers before the build side completes), with
   or without early exhaustion by a LIMIT above the join (ab), incl. nested exhaustion. *)
Theorem hj_no_deadlock_with_limit ab nb n s :
  0 < nb -> hreach ab false true nb n s -> ~ hall_done s -> exists s', hstep ab false true s s' /\ s' <> s.
Proof.
  intros Hnb Hr ND. pose proof (hinv_reach _ _ _ _ Hr) as HI.
  destruct (hinv_plain _ HI) as (C & D2' & SS0 & S1 & D0b & D1).
  pose proof (bA _ HI) as A. pose proof (bE _ HI) as E'. pose proof (bF _ HI) as F'.
  pose proof (hR _ HI) as R. pose proof (hE _ HI) as E. pose proof (hL _ HI) as L. clear HI.
  pose proof (blength_reach _ _ _ _ _ _ Hr) as BL.
  pose proof (hlength_parts (hps s)) as LP. pose proof (blength_parts (bps s)) as BP.
  pose proof (midlast_le_mid (bps s)) as MLM.
  unfold hall_done in ND.
  (* build side first *)
  destruct (Nat.eq_dec (count is_bcoll (bps s)) 0) as [Zc|Nc].
  2:{ destruct (count_pos_nth is_bcoll (bps s)) as (i & p & Hi & Hp); [lia|]. destruct p; try discriminate.
      assert (Hpos : 0 < bremaining s) by lia.
      eexists. split; [eapply b_fetch_sub; eassumption|].
      intros X. apply (f_equal bremaining) in X. cbn [bremaining] in X. lia. }
  destruct (Nat.eq_dec (count is_bmid (bps s)) 0) as [Zm|Nm].
  2:{ destruct (count_pos_nth is_bmid (bps s)) as (i & p & Hi & Hp); [lia|]. destruct p as [|[|]| | | | |]; try discriminate.
      - eexists. split; [eapply b_last_lock; eassumption|].
        intros X. apply (f_equal hready) in X. cbn [hready] in X.
        pose proof (count_nth_ge is_bmidlast _ _ _ Hi) as G. cbn [b2n is_bmidlast] in G.
        destruct (hready s); [specialize (C eq_refl); lia|discriminate].
      - destruct (hready s) eqn:Hh.
        + eexists. split; [eapply b_nonlast_ready; eassumption|]. chg_b X.
        + eexists. split; [eapply b_nonlast_park; eassumption|]. chg_b X. }
  destruct (Nat.eq_dec (count is_bins (bps s)) 0) as [Zi|Ni].
  2:{ destruct (count_pos_nth is_bins (bps s)) as (i & p & Hi & Hp); [lia|]. destruct p; try discriminate.
      destruct (hready s) eqn:Hh.
      - eexists. split; [eapply b_ins_ready; [eassumption|reflexivity|assumption]|]. chg_b X.
      - eexists. split; [eapply b_ins_park; [eassumption|reflexivity|assumption]|]. chg_b X. }
  destruct (Nat.eq_dec (count is_bproc (bps s)) 0) as [Zp|Np].
  2:{ destruct (count_pos_nth is_bproc (bps s)) as (i & p & Hi & Hp); [lia|]. destruct p; try discriminate.
      destruct (Nat.eq_dec (rem_ins s) 1) as [R1|R1].
      - eexists. split; [eapply b_proc_done_last; eassumption|].
        intros X. apply (f_equal rem_ins) in X. cbn [rem_ins] in X. lia.
      - eexists. split; [eapply b_proc_done; [eassumption|lia]|].
        intros X. apply (f_equal rem_ins) in X. cbn [rem_ins] in X. lia. }
  (* no build partition parked: it would need a collector or the last builder *)
  assert (Zk : count is_bparked (bps s) = 0).
  { destruct (hready s); [specialize (C eq_refl); lia|].
    destruct (Nat.eq_dec (count is_bparked (bps s)) 0) as [Z|N]; [assumption|]. specialize (D2' eq_refl). lia. }
  (* hence every build partition is done and scan_ready is set *)
  assert (Hbd : count is_bdone (bps s) = length (bps s)) by lia.
  assert (Hsr : sready s = true).
  { destruct (sready s); [reflexivity|]. specialize (SS0 eq_refl). lia. }
  specialize (S1 Hsr).
  destruct (Nat.eq_dec (count is_hprobe (hps s)) 0) as [Z1|N1].
  2:{ destruct (count_pos_nth is_hprobe (hps s)) as (i & p & Hi & Hp); [lia|]. destruct p; try discriminate.
      eexists. split; [eapply h_scan_ready; [eassumption|reflexivity|assumption]|]. chg_h X. }
  destruct (Nat.eq_dec (count is_hscan (hps s)) 0) as [Z2|N2].
  2:{ destruct (count_pos_nth is_hscan (hps s)) as (i & p & Hi & Hp); [lia|]. destruct p; try discriminate.
      destruct (Nat.eq_dec (rem_prob s) 1) as [R1|R1].
      - eexists. split; [eapply h_finalize_last; [eassumption|reflexivity|assumption]|].
        intros X. apply (f_equal rem_prob) in X. cbn [rem_prob] in X. lia.
      - eexists. split; [eapply h_finalize; [eassumption|reflexivity|lia]|].
        intros X. apply (f_equal rem_prob) in X. cbn [rem_prob] in X. lia. }
  destruct (Nat.eq_dec (count is_habing (hps s)) 0) as [Z2b|N2b].
  2:{ destruct (count_pos_nth is_habing (hps s)) as (i & p & Hi & Hp); [lia|]. destruct p; try discriminate.
      destruct (Nat.eq_dec (rem_prob s) 1) as [R1|R1].
      - eexists. split; [eapply h_abandon_fin_last; eassumption|].
        intros X. apply (f_equal rem_prob) in X. cbn [rem_prob] in X. lia.
      - eexists. split; [eapply h_abandon_fin; [eassumption|lia]|].
        intros X. apply (f_equal rem_prob) in X. cbn [rem_prob] in X. lia. }
  destruct (Nat.eq_dec (count is_hchk (hps s)) 0) as [Z3|N3].
  2:{ destruct (count_pos_nth is_hchk (hps s)) as (i & p & Hi & Hp); [lia|]. destruct p; try discriminate.
      destruct (dready s && sready s) eqn:Hd.
      - eexists. split; [eapply h_drain_ready; [eassumption|reflexivity|assumption]|]. chg_h X.
      - eexists. split; [eapply h_drain_park; [eassumption|reflexivity|assumption]|]. chg_h X. }
  destruct (Nat.eq_dec (count is_hdraining (hps s)) 0) as [Z4|N4].
  2:{ destruct (count_pos_nth is_hdraining (hps s)) as (i & p & Hi & Hp); [lia|]. destruct p; try discriminate.
      eexists. split; [eapply h_drain_done; eassumption|]. chg_h X. }
  (* only probers parked for the drain are left: every prober finalized (normally, early, or by
     abandon), so drain_ready is set; scan_ready is set; both wakes happened *)
  exfalso. apply ND. split; [assumption|].
  destruct (dready s); [specialize (D0b eq_refl Hsr); lia|]. specialize (D1 eq_refl). lia.
Qed.

Theorem hj_no_deadlock_nested_limit nb n s :
  0 < nb -> hreach true false true nb n s -> ~ hall_done s -> exists s', hstep true false true s s' /\ s' <> s.
Proof. apply hj_no_deadlock_with_limit. Qed.

Theorem hj_no_deadlock nb n s :
  0 < nb -> hreach false false true nb n s -> ~ hall_done s -> exists s', hstep false false true s s' /\ s' <> s.
Proof. apply hj_no_deadlock_with_limit. Qed.

(* helpers to build witness runs backwards *)
Definition hmk (bp : list bph) br hr ri ps sr dr rm : hst :=
  {| bps := bp; bremaining := br; hready := hr; rem_ins := ri; hps := ps; sready := sr; dready := dr; rem_prob := rm |}.

(* ---------- REFUTED: the variant WITHOUT pending_drainers.wake_all() at build completion ---------- *)
(* One build, one probe partition.  The prober's input is empty: poll_finalize_execute runs before
   poll_execute ever did, it is the last prober (drain_ready = true), it parks in pending_drainers
   because scan_ready is still false.  Then the build side completes and wakes only the probers.
   Result: the prober is parked although drain_ready && scan_ready holds, every other agent is done,
   and the only enabled transition is a poll of the parked partition itself, which nobody triggers. *)
Definition hj_lost_wakeup_state : hst := hmk [BDone] 0 true 0 [HParkedDrain] true true 0.

Theorem hj_lost_wakeup_without_drainer_wake_refuted :
  hreach false false false 1 1 hj_lost_wakeup_state /\
  count is_hpdrain (hps hj_lost_wakeup_state) = 1 /\
  dready hj_lost_wakeup_state && sready hj_lost_wakeup_state = true /\
  count is_bdone (bps hj_lost_wakeup_state) = length (bps hj_lost_wakeup_state) /\
  forall s', hstep false false false hj_lost_wakeup_state s' -> s' = hmk [BDone] 0 true 0 [HDraining] true true 0.
Proof.
  split; [|split; [reflexivity|split; [reflexivity|split; [reflexivity|]]]].
  - unfold hj_lost_wakeup_state.
    eapply hr_step; [|apply (b_proc_done_last false false false 0 (hmk [BProc] 0 true 1 [HParkedDrain] false true 0)); reflexivity].
    eapply hr_step; [|apply (b_ins_ready false false false 0 BIns (hmk [BIns] 0 true 1 [HParkedDrain] false true 0)); reflexivity].
    eapply hr_step; [|apply (b_last_lock false false false 0 (hmk [BMid true] 0 false 1 [HParkedDrain] false true 0)); reflexivity].
    eapply hr_step; [|apply (b_fetch_sub false false false 0 (hmk [BColl] 1 false 1 [HParkedDrain] false true 0)); [reflexivity|cbn; lia]].
    eapply hr_step; [|apply (h_drain_park false false false 0 HDrainChk (hmk [BColl] 1 false 1 [HDrainChk] false true 0)); reflexivity].
    eapply hr_step; [|apply (h_finalize_last false false false 0 HProbe (hmk [BColl] 1 false 1 [HProbe] false false 1)); reflexivity].
    apply hr_init.
  - intros s' Hs. unfold hj_lost_wakeup_state, hmk in *.
    inversion Hs as [i s H Hr | i s H Hr | i s H | i s H Hr | i s H Hr | i p s H Hp Hr | i p s H Hp Hr
                 | i s H Hr | i s H Hr | i s H Hr
                 | i p s H Hp Hsr | i p s H Hp Hsr | i p s H Hp Hr | i p s H Hp Hr | i p s H Hp Hr
                 | i p s H Hp Hd | i p s H Hp Hd | i s H | i s Hab H | i s Hab H
                 | i s H Hr | i s H Hr | i s H Hr | i s Hab H | i s Hl H]; subst; cbn in *; try discriminate;
      try (destruct i as [|[|i]]; cbn in *; discriminate).
    all: destruct i as [|i]; cbn [nth_error] in H; try (destruct i; discriminate);
      injection H as <-; cbn in Hp; try discriminate; try reflexivity.
Qed.

(* ---------- PREVIOUS stack versions (lose = true): a lost abandon deadlocks the drain barrier.
   Before 131551599: any LIMIT above the join; before c83fc4e4d: two exhausting operators. ---------- *)
Definition hj_deadlock_state : hst := hmk [BDone] 0 true 0 [HLost; HParkedDrain] true false 1.

Theorem hj_drain_deadlock_when_abandon_lost_refuted :
  hreach true true true 1 2 hj_deadlock_state /\ ~ hall_done hj_deadlock_state /\
  forall s', hstep true true true hj_deadlock_state s' -> s' = hj_deadlock_state.
Proof.
  split; [|split].
  - unfold hj_deadlock_state.
    eapply hr_step; [|apply (h_drain_park true true true 1 HDrainChk (hmk [BDone] 0 true 0 [HLost; HDrainChk] true false 1)); reflexivity].
    eapply hr_step; [|apply (h_finalize true true true 1 HScan (hmk [BDone] 0 true 0 [HLost; HScan] true false 2)); [reflexivity|reflexivity|cbn; lia]].
    eapply hr_step; [|apply (h_abandon_lost true true true 0 (hmk [BDone] 0 true 0 [HAbandoning; HScan] true false 2)); reflexivity].
    eapply hr_step; [|apply (h_abandon true true true 0 (hmk [BDone] 0 true 0 [HScan; HScan] true false 2)); reflexivity].
    eapply hr_step; [|apply (h_scan_ready true true true 1 HProbe (hmk [BDone] 0 true 0 [HScan; HProbe] true false 2)); reflexivity].
    eapply hr_step; [|apply (h_scan_ready true true true 0 HProbe (hmk [BDone] 0 true 0 [HProbe; HProbe] true false 2)); reflexivity].
    eapply hr_step; [|apply (b_proc_done_last true true true 0 (hmk [BProc] 0 true 1 [HProbe; HProbe] false false 2)); reflexivity].
    eapply hr_step; [|apply (b_ins_ready true true true 0 BIns (hmk [BIns] 0 true 1 [HProbe; HProbe] false false 2)); reflexivity].
    eapply hr_step; [|apply (b_last_lock true true true 0 (hmk [BMid true] 0 false 1 [HProbe; HProbe] false false 2)); reflexivity].
    eapply hr_step; [|apply (b_fetch_sub true true true 0 (hmk [BColl] 1 false 1 [HProbe; HProbe] false false 2)); [reflexivity|cbn; lia]].
    apply hr_init.
  - unfold hall_done, hj_deadlock_state. cbn. lia.
  - intros s' Hs. unfold hj_deadlock_state, hmk in *.
    inversion Hs as [i s H Hr | i s H Hr | i s H | i s H Hr | i s H Hr | i p s H Hp Hr | i p s H Hp Hr
                 | i s H Hr | i s H Hr | i s H Hr
                 | i p s H Hp Hsr | i p s H Hp Hsr | i p s H Hp Hr | i p s H Hp Hr | i p s H Hp Hr
                 | i p s H Hp Hd | i p s H Hp Hd | i s H | i s Hab H | i s Hab H
                 | i s H Hr | i s H Hr | i s H Hr | i s Hab H | i s Hl H]; subst; cbn in *; try discriminate;
      try (destruct i as [|[|[|i]]]; cbn in *; discriminate).
    all: destruct i as [|[|i]]; cbn [nth_error] in H; try discriminate; try (destruct i; discriminate);
      injection H as <-; cbn in Hp; try discriminate; try reflexivity.
Qed.

(* hypotheses satisfiable: a probe partition with empty input parks as a drainer before the build side
   completes and is released by the last inserter's wake of pending_drainers *)
Example hj_run_example : exists s, hreach false false true 1 1 s /\ hall_done s.
Proof.
  exists (hmk [BDone] 0 true 0 [HDone] true true 0). split; [|split; reflexivity].
  eapply hr_step; [|apply (h_drain_done false false true 0 (hmk [BDone] 0 true 0 [HDraining] true true 0)); reflexivity].
  eapply hr_step; [|apply (h_drain_ready false false true 0 HDrainChk (hmk [BDone] 0 true 0 [HDrainChk] true true 0)); reflexivity].
  eapply hr_step; [|apply (b_proc_done_last false false true 0 (hmk [BProc] 0 true 1 [HParkedDrain] false true 0)); reflexivity].
  eapply hr_step; [|apply (b_ins_ready false false true 0 BIns (hmk [BIns] 0 true 1 [HParkedDrain] false true 0)); reflexivity].
  eapply hr_step; [|apply (b_last_lock false false true 0 (hmk [BMid true] 0 false 1 [HParkedDrain] false true 0)); reflexivity].
  eapply hr_step; [|apply (b_fetch_sub false false true 0 (hmk [BColl] 1 false 1 [HParkedDrain] false true 0)); [reflexivity|cbn; lia]].
  eapply hr_step; [|apply (h_drain_park false false true 0 HDrainChk (hmk [BColl] 1 false 1 [HDrainChk] false true 0)); reflexivity].
  eapply hr_step; [|apply (h_finalize_last false false true 0 HProbe (hmk [BColl] 1 false 1 [HProbe] false false 1)); reflexivity].
  apply hr_init.
Qed.

Print Assumptions hj_no_deadlock_with_limit.
Print Assumptions hj_inv_parked_implies_flag_unset.
Print Assumptions hj_lost_wakeup_without_drainer_wake_refuted.
Print Assumptions hj_drain_deadlock_when_abandon_lost_refuted.
