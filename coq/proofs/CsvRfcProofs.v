(* C17 -- RFC-4180 encodings are read back by (a) the csv_core DFA + ByteRecords model and (b) the reference parser.

   Main results (all closed under the global context):
     dfa_decodes_encoding      run_dfa d (enc_file d recs) = Some (contents (nonblank recs))
                               for every dialect_ok d, every list of record_ok records (blank lines included: they
                               are skipped), any per-field quoting and per-record terminator choice, provided the
                               file does not start with a UTF-8 BOM (strip_bom rdr_init bs = bs; boolean form:
                               no_bom bs = true)
     rfc4180_decodes_encoding  rfc4180 d (enc_file d recs) = contents (nonblank recs)
     dfa_refines_rfc4180       well_formed d bs -> no BOM -> run_dfa d bs = Some (rfc4180 d bs)
   ex_blank_skipped: a blank line is no record for either; ex_bom_needed: the BOM side condition cannot be dropped.
   Repaired reader (end-of-input signal, run_reader), optional last record without terminator:
     reader_decodes_encoding        run_reader d (enc_file_open d recs last) = Some (contents_open (nonblank recs) last)
     rfc4180_decodes_open_encoding  rfc4180 d (enc_file_open d recs last) = contents_open (nonblank recs) last
     reader_refines_rfc4180         well_formed_open d bs -> no BOM -> run_reader d bs = Some (rfc4180 d bs)
   ex_open_run_dfa_loses: run_dfa (no end-of-input signal) loses the unterminated last record.

   Route: `view` forgets r_has_read; `vstep` is byte_step on views; per byte-class DFA lemmas; field / record /
   file runs produce the flattened layout (flat_buf, flat_ends, flat_bounds); records_of reads a flattened layout
   back (slice_mid, fields_of_cum, records_from_flat). *)
From Coq Require Import NArith List Bool Arith Lia.
Import ListNotations.
From GV Require Import model.Csv.

(* ------------------------------------------------------------------ dialect facts *)
Record dfacts (d : dialect) : Prop := {
  df_qd : quote d <> delim d;
  df_qcr : quote d <> 13%N;
  df_qlf : quote d <> 10%N;
  df_dcr : delim d <> 13%N;
  df_dlf : delim d <> 10%N }.

Lemma dialect_ok_facts : forall d, dialect_ok d = true -> dfacts d.
Proof.
  intros d H. unfold dialect_ok, CR, LF in H.
  repeat (apply andb_prop in H; destruct H as [H ?]).
  repeat match goal with
         | H : negb _ = true |- _ => apply negb_true_iff in H
         | H : (_ || _) = false |- _ => apply orb_false_elim in H; destruct H
         | H : (_ =? _)%N = false |- _ => apply N.eqb_neq in H
         end.
  constructor; congruence.
Qed.

Lemma special_false : forall d c, special d c = false ->
  c <> delim d /\ c <> quote d /\ c <> 13%N /\ c <> 10%N.
Proof.
  intros d c H. unfold special, CR, LF in H.
  repeat match goal with
         | H : (_ || _) = false |- _ => apply orb_false_elim in H; destruct H
         | H : (_ =? _)%N = false |- _ => apply N.eqb_neq in H
         end.
  auto.
Qed.

Ltac dfa_go :=
  unfold dfa_step; cbn [dfa_closure is_end fst snd transition_nfa]; unfold term_equals, CR, LF;
  repeat (match goal with
          | |- context [N.eqb ?a ?b] =>
              destruct (N.eqb_spec a b); try (exfalso; congruence);
              cbn [dfa_closure is_end fst snd transition_nfa orb]; unfold term_equals, CR, LF
          end);
  try reflexivity.

Definition start3 (s : nfa) : Prop := s = StartRecord \/ s = EndRecord \/ s = EndFieldDelim.
Definition mid5 (s : nfa) : Prop :=
  s = StartRecord \/ s = EndRecord \/ s = EndFieldDelim \/ s = InField \/ s = InDoubleEscapedQuote.
Definition fend3 (s : nfa) : Prop := s = EndFieldDelim \/ s = InField \/ s = InDoubleEscapedQuote.

Section Dfa.
  Variable d : dialect.
  Hypothesis D : dfacts d.

  Let qd := df_qd d D. Let qcr := df_qcr d D. Let qlf := df_qlf d D.
  Let dcr := df_dcr d D. Let dlf := df_dlf d D.

  Lemma dfa_plain_start : forall s c, (start3 s \/ s = InField) -> special d c = false ->
    dfa_step d s c = (InField, true).
  Proof.
    intros s c Hs Hc. apply special_false in Hc. destruct Hc as (? & ? & ? & ?).
    destruct Hs as [[->|[->| ->]]| ->]; dfa_go.
  Qed.

  Lemma dfa_quote_start : forall s, start3 s -> dfa_step d s (quote d) = (InQuotedField, false).
  Proof. intros s [->|[->| ->]]; dfa_go. Qed.

  Lemma dfa_quoted_other : forall c, c <> quote d -> dfa_step d InQuotedField c = (InQuotedField, true).
  Proof. intros c Hc; dfa_go. Qed.

  Lemma dfa_quoted_quote : dfa_step d InQuotedField (quote d) = (InDoubleEscapedQuote, false).
  Proof. dfa_go. Qed.

  Lemma dfa_deq_quote : dfa_step d InDoubleEscapedQuote (quote d) = (InQuotedField, true).
  Proof. dfa_go. Qed.

  Lemma dfa_delim : forall s, mid5 s -> dfa_step d s (delim d) = (EndFieldDelim, false).
  Proof. intros s [->|[->|[->|[->| ->]]]]; dfa_go. Qed.

  Lemma dfa_lf : forall s, fend3 s -> dfa_step d s 10%N = (EndRecord, false).
  Proof. intros s [->|[->| ->]]; dfa_go. Qed.

  Lemma dfa_cr : forall s, fend3 s -> dfa_step d s 13%N = (CRLF, false).
  Proof. intros s [->|[->| ->]]; dfa_go. Qed.

  Lemma dfa_crlf_lf : dfa_step d CRLF 10%N = (StartRecord, false).
  Proof. dfa_go. Qed.

  (* a terminator byte at the start of a record (a blank line) is discarded *)
  Lemma dfa_term_start : forall s c, (s = StartRecord \/ s = EndRecord) -> (c = 13%N \/ c = 10%N) ->
    dfa_step d s c = (StartRecord, false).
  Proof. intros s c [->| ->] [->| ->]; dfa_go. Qed.
End Dfa.

(* ------------------------------------------------------------------ blank records *)
Lemma blank_inv : forall fs, blank fs = true -> fs = [(false, [])].
Proof.
  intros fs H. destruct fs as [|[q f] fs]; [discriminate H|].
  destruct q; [discriminate H|]. destruct f; [|discriminate H]. destruct fs; [reflexivity|discriminate H].
Qed.

Lemma nonblank_cons_blank : forall r recs, blank (snd r) = true -> nonblank (r :: recs) = nonblank recs.
Proof. intros r recs H. unfold nonblank. cbn [filter]. rewrite H. reflexivity. Qed.

Lemma nonblank_cons_keep : forall r recs, blank (snd r) = false -> nonblank (r :: recs) = r :: nonblank recs.
Proof. intros r recs H. unfold nonblank. cbn [filter]. rewrite H. reflexivity. Qed.

(* ------------------------------------------------------------------ a view of the state without has_read *)
Definition vstate := (nfa * nat * list N * list nat * list (nat * nat))%type.

Definition view (st : dstate) : vstate :=
  (r_state (fst st), r_opos (fst st), buf (snd st), ends (snd st), bounds (snd st)).

Definition vstep (d : dialect) (v : vstate) (c : N) : vstate :=
  let '(s, o, B, E, Bd) := v in
  let '(s', out) := dfa_step d s c in
  let B' := if out then B ++ [c] else B in
  let o' := if out then S o else o in
  let E' := if field_final s' then E ++ [o'] else E in
  if record_final s' then (s', 0, B', E', Bd ++ [(length E' - 1, length B')])
  else (s', o', B', E', Bd).

Lemma view_step : forall d st c, view (byte_step d st c) = vstep d (view st) c.
Proof.
  intros d [[s o h] [B E Bd]] c. unfold view, byte_step, vstep. cbn [fst snd r_state r_opos buf ends bounds].
  destruct (dfa_step d s c) as [s' out]. destruct (record_final s'); reflexivity.
Qed.

Lemma view_fold : forall d l st, view (fold_left (byte_step d) l st) = fold_left (vstep d) l (view st).
Proof.
  intros d l. induction l as [|c l IH]; intros st; cbn [fold_left]; [reflexivity|].
  rewrite IH, view_step. reflexivity.
Qed.

Lemma vstep_copy : forall d s c s' o B E Bd, dfa_step d s c = (s', true) -> field_final s' = false ->
  vstep d (s, o, B, E, Bd) c = (s', S o, B ++ [c], E, Bd).
Proof.
  intros d s c s' o B E Bd H F. unfold vstep. rewrite H, F.
  destruct s'; try discriminate F; reflexivity.
Qed.

Lemma vstep_skip : forall d s c s' o B E Bd, dfa_step d s c = (s', false) -> field_final s' = false ->
  vstep d (s, o, B, E, Bd) c = (s', o, B, E, Bd).
Proof.
  intros d s c s' o B E Bd H F. unfold vstep. rewrite H, F.
  destruct s'; try discriminate F; reflexivity.
Qed.

Lemma vstep_delim : forall d s c o B E Bd, dfa_step d s c = (EndFieldDelim, false) ->
  vstep d (s, o, B, E, Bd) c = (EndFieldDelim, o, B, E ++ [o], Bd).
Proof. intros d s c o B E Bd H. unfold vstep. rewrite H. reflexivity. Qed.

Lemma vstep_rec : forall d s c s' o B E Bd, dfa_step d s c = (s', false) -> record_final s' = true ->
  vstep d (s, o, B, E, Bd) c = (s', 0, B, E ++ [o], Bd ++ [(length (E ++ [o]) - 1, length B)]).
Proof.
  intros d s c s' o B E Bd H F. unfold vstep. rewrite H, F.
  destruct s'; try discriminate F; reflexivity.
Qed.

(* ------------------------------------------------------------------ fields *)
Section Fields.
  Variable d : dialect.
  Hypothesis D : dfacts d.

  Lemma plain_cons : forall c f, plain d (c :: f) = true -> special d c = false /\ plain d f = true.
  Proof.
    intros c f H. unfold plain in *. cbn [forallb] in H. apply andb_prop in H. destruct H as [H1 H2].
    apply negb_true_iff in H1. auto.
  Qed.

  Lemma bare_in : forall f o B E Bd, plain d f = true ->
    fold_left (vstep d) f (InField, o, B, E, Bd) = (InField, o + length f, B ++ f, E, Bd).
  Proof.
    induction f as [|c f IH]; intros o B E Bd P.
    - cbn [fold_left length]. rewrite Nat.add_0_r, app_nil_r. reflexivity.
    - apply plain_cons in P. destruct P as [Pc Pf]. cbn [fold_left length].
      rewrite (vstep_copy d InField c InField); [|apply dfa_plain_start; auto|reflexivity].
      rewrite IH by assumption. rewrite <- app_assoc, Nat.add_succ_comm. reflexivity.
  Qed.

  Lemma bare_field : forall f s o B E Bd, start3 s -> plain d f = true ->
    fold_left (vstep d) f (s, o, B, E, Bd)
    = (match f with [] => s | _ => InField end, o + length f, B ++ f, E, Bd).
  Proof.
    intros [|c f] s o B E Bd Hs P.
    - cbn [fold_left length]. rewrite Nat.add_0_r, app_nil_r. reflexivity.
    - apply plain_cons in P. destruct P as [Pc Pf]. cbn [fold_left length].
      rewrite (vstep_copy d s c InField); [|apply dfa_plain_start; auto|reflexivity].
      rewrite bare_in by assumption. rewrite <- app_assoc, Nat.add_succ_comm. reflexivity.
  Qed.

  Lemma escape_in : forall f o B E Bd,
    fold_left (vstep d) (escape d f) (InQuotedField, o, B, E, Bd)
    = (InQuotedField, o + length f, B ++ f, E, Bd).
  Proof.
    induction f as [|c f IH]; intros o B E Bd.
    - cbn [escape fold_left length]. rewrite Nat.add_0_r, app_nil_r. reflexivity.
    - cbn [escape]. destruct (N.eqb_spec c (quote d)) as [->|Hc].
      + cbn [fold_left length].
        rewrite (vstep_skip d InQuotedField (quote d) InDoubleEscapedQuote);
          [|apply dfa_quoted_quote; auto|reflexivity].
        rewrite (vstep_copy d InDoubleEscapedQuote (quote d) InQuotedField);
          [|apply dfa_deq_quote; auto|reflexivity].
        rewrite IH. rewrite <- app_assoc, Nat.add_succ_comm. reflexivity.
      + cbn [fold_left length].
        rewrite (vstep_copy d InQuotedField c InQuotedField);
          [|apply dfa_quoted_other; auto|reflexivity].
        rewrite IH. rewrite <- app_assoc, Nat.add_succ_comm. reflexivity.
  Qed.

  Lemma quoted_field : forall f s o B E Bd, start3 s ->
    fold_left (vstep d) (quote d :: escape d f ++ [quote d]) (s, o, B, E, Bd)
    = (InDoubleEscapedQuote, o + length f, B ++ f, E, Bd).
  Proof.
    intros f s o B E Bd Hs. cbn [fold_left].
    rewrite (vstep_skip d s (quote d) InQuotedField); [|apply dfa_quote_start; auto|reflexivity].
    rewrite fold_left_app, escape_in. cbn [fold_left].
    rewrite (vstep_skip d InQuotedField (quote d) InDoubleEscapedQuote);
      [|apply dfa_quoted_quote; auto|reflexivity].
    reflexivity.
  Qed.

  Lemma enc_field_run : forall q f s o B E Bd, start3 s -> field_ok d (q, f) = true ->
    exists s', fold_left (vstep d) (enc_field d q f) (s, o, B, E, Bd) = (s', o + length f, B ++ f, E, Bd)
      /\ ((q = false /\ f = [] /\ s' = s) \/ s' = InField \/ s' = InDoubleEscapedQuote).
  Proof.
    intros q f s o B E Bd Hs Hok. destruct q; cbn [enc_field].
    - exists InDoubleEscapedQuote. split; [apply quoted_field; assumption|auto].
    - unfold field_ok in Hok. cbn [fst snd orb] in Hok.
      rewrite bare_field by assumption. destruct f; eexists; split; try reflexivity; auto.
  Qed.
End Fields.

(* ------------------------------------------------------------------ the flattened (streaming) layout *)
Fixpoint cum (o : nat) (fs : list (list N)) : list nat :=
  match fs with [] => [] | f :: r => (o + length f) :: cum (o + length f) r end.

Definition flat_buf (recs : list (list (list N))) : list N := concat (map (@concat N) recs).
Definition flat_ends (recs : list (list (list N))) : list nat := concat (map (cum 0) recs).
Fixpoint flat_bounds (recs : list (list (list N))) (pi po : nat) : list (nat * nat) :=
  match recs with
  | [] => []
  | r :: rest =>
      (pi + length r - 1, po + length (concat r))
        :: flat_bounds rest (pi + length r) (po + length (concat r))
  end.

Lemma cum_length : forall fs o, length (cum o fs) = length fs.
Proof. induction fs as [|f fs IH]; intros o; cbn [cum length]; [reflexivity|]. rewrite IH. reflexivity. Qed.

Lemma enc_record_cons2 : forall d q f x rest,
  enc_record d ((q, f) :: x :: rest) = enc_field d q f ++ delim d :: enc_record d (x :: rest).
Proof. reflexivity. Qed.

Lemma enc_record_single : forall d q f, enc_record d [(q, f)] = enc_field d q f.
Proof. reflexivity. Qed.

Section Records.
  Variable d : dialect.
  Hypothesis D : dfacts d.

  Lemma term_run : forall crlf s o B E Bd, fend3 s ->
    fold_left (vstep d) (enc_term crlf) (s, o, B, E, Bd)
    = (if crlf then StartRecord else EndRecord, 0, B, E ++ [o],
       Bd ++ [(length (E ++ [o]) - 1, length B)]).
  Proof.
    intros crlf s o B E Bd Hs. destruct crlf; unfold enc_term, CR, LF; cbn [fold_left].
    - rewrite (vstep_rec d s 13%N CRLF); [|apply dfa_cr; auto|reflexivity].
      rewrite (vstep_skip d CRLF 10%N StartRecord); [|apply dfa_crlf_lf; auto|reflexivity].
      reflexivity.
    - rewrite (vstep_rec d s 10%N EndRecord); [|apply dfa_lf; auto|reflexivity].
      reflexivity.
  Qed.

  Lemma record_run : forall fs crlf s o B E Bd,
    fs <> [] -> forallb (field_ok d) fs = true -> start3 s ->
    (s = EndFieldDelim \/ blank fs = false) ->
    fold_left (vstep d) (enc_record d fs ++ enc_term crlf) (s, o, B, E, Bd)
    = (if crlf then StartRecord else EndRecord, 0,
       B ++ concat (map snd fs), E ++ cum o (map snd fs),
       Bd ++ [(length (E ++ cum o (map snd fs)) - 1, length (B ++ concat (map snd fs)))]).
  Proof.
    induction fs as [|[q f] fs IH]; intros crlf s o B E Bd Hne Hok Hs Hb; [congruence|].
    cbn [forallb] in Hok. apply andb_prop in Hok. destruct Hok as [Hf Hfs].
    destruct (enc_field_run d D q f s o B E Bd Hs Hf) as (s' & Hrun & Hs').
    destruct fs as [|x fs].
    - rewrite enc_record_single, fold_left_app, Hrun.
      assert (Hfe : fend3 s').
      { destruct Hs' as [(-> & -> & ->)|[->| ->]]; unfold fend3; auto.
        destruct Hb as [->|Hb]; [auto|discriminate Hb]. }
      rewrite term_run by assumption.
      cbn [map snd concat cum]. rewrite app_nil_r. reflexivity.
    - rewrite enc_record_cons2, <- app_assoc, fold_left_app, Hrun.
      cbn [app fold_left].
      rewrite (vstep_delim d s' (delim d)).
      2:{ apply dfa_delim; auto. unfold mid5, start3 in *.
          destruct Hs' as [(_ & _ & ->)|[->| ->]]; tauto. }
      rewrite IH; [|discriminate|assumption|unfold start3; auto|auto].
      cbn [map snd concat cum]. rewrite <- !app_assoc. reflexivity.
  Qed.

  Definition rec_start (s : nfa) : Prop := s = StartRecord \/ s = EndRecord.

  (* a blank line between records changes nothing but the DFA state *)
  Lemma blank_run : forall crlf s o B E Bd, rec_start s ->
    fold_left (vstep d) (enc_term crlf) (s, o, B, E, Bd) = (StartRecord, o, B, E, Bd).
  Proof.
    intros crlf s o B E Bd Hs. destruct crlf; unfold enc_term, CR, LF; cbn [fold_left].
    - rewrite (vstep_skip d s 13%N StartRecord); [|apply dfa_term_start; auto|reflexivity].
      rewrite (vstep_skip d StartRecord 10%N StartRecord); [|apply dfa_term_start; auto|reflexivity].
      reflexivity.
    - rewrite (vstep_skip d s 10%N StartRecord); [|apply dfa_term_start; auto|reflexivity].
      reflexivity.
  Qed.

  Lemma file_run : forall recs s B E Bd, rec_start s ->
    forallb (fun r => record_ok d (snd r)) recs = true ->
    exists s', rec_start s' /\
      fold_left (vstep d) (enc_file d recs) (s, 0, B, E, Bd)
      = (s', 0, B ++ flat_buf (contents (nonblank recs)), E ++ flat_ends (contents (nonblank recs)),
         Bd ++ flat_bounds (contents (nonblank recs)) (length E) (length B)).
  Proof.
    induction recs as [|[crlf fs] recs IH]; intros s B E Bd Hs Hok.
    - exists s. split; [assumption|]. cbn. rewrite !app_nil_r. reflexivity.
    - cbn [forallb snd] in Hok. apply andb_prop in Hok. destruct Hok as [Hrok Hrest].
      destruct (blank fs) eqn:Hnb.
      + (* a blank line *)
        rewrite nonblank_cons_blank by exact Hnb.
        apply blank_inv in Hnb. subst fs. cbn [enc_file enc_record enc_field app].
        rewrite fold_left_app, blank_run by assumption.
        apply IH; [left; reflexivity|assumption].
      + rewrite nonblank_cons_keep by exact Hnb.
        unfold record_ok in Hrok. apply andb_prop in Hrok. destruct Hrok as [Hlen Hfs].
        assert (Hne : fs <> []).
        { intros ->. discriminate Hlen. }
        cbn [enc_file]. rewrite app_assoc, fold_left_app.
        rewrite record_run; [|assumption|assumption|destruct Hs as [->| ->]; unfold start3; auto|auto].
        destruct (IH (if crlf then StartRecord else EndRecord)
                     (B ++ concat (map snd fs)) (E ++ cum 0 (map snd fs))
                     (Bd ++ [(length (E ++ cum 0 (map snd fs)) - 1, length (B ++ concat (map snd fs)))]))
          as (s' & Hs' & Hrun); [destruct crlf; unfold rec_start; auto|assumption|].
        exists s'. split; [assumption|]. rewrite Hrun.
        unfold flat_buf, flat_ends. cbn [contents map snd concat flat_bounds].
        rewrite !app_length, cum_length, map_length, <- !app_assoc. reflexivity.
  Qed.
End Records.

(* ------------------------------------------------------------------ reading the flattened layout back *)
Lemma skipn_length_app : forall A (a l : list A), skipn (length a) (a ++ l) = l.
Proof. induction a as [|x a IH]; intros l; cbn [length app skipn]; auto. Qed.

Lemma firstn_length_app : forall A (b c : list A), firstn (length b) (b ++ c) = b.
Proof. induction b as [|x b IH]; intros c; cbn [length app firstn]; [reflexivity|]. rewrite IH. reflexivity. Qed.

Lemma slice_mid : forall A (a b c : list A),
  slice (a ++ b ++ c) (length a) (length a + length b) = Some b.
Proof.
  intros A a b c. unfold slice.
  assert (H1 : (length a <=? length a + length b) = true) by (apply Nat.leb_le; lia).
  assert (H2 : (length a + length b <=? length (a ++ b ++ c)) = true).
  { apply Nat.leb_le. rewrite !app_length. lia. }
  rewrite H1, H2. cbn [andb].
  replace (length a + length b - length a) with (length b) by lia.
  rewrite skipn_length_app, firstn_length_app. reflexivity.
Qed.

Lemma fields_of_cum : forall r rbuf pre, rbuf = pre ++ concat r ->
  fields_of rbuf (length pre) (cum (length pre) r) = Some r.
Proof.
  induction r as [|f r IH]; intros rbuf pre Hb; cbn [cum fields_of]; [reflexivity|].
  cbn [concat] in Hb. subst rbuf. rewrite slice_mid.
  rewrite <- app_length. rewrite IH; [reflexivity|]. rewrite <- app_assoc. reflexivity.
Qed.

Lemma records_from_flat : forall recs br preB preE,
  Forall (fun r => r <> []) recs ->
  buf br = preB ++ flat_buf recs -> ends br = preE ++ flat_ends recs ->
  records_from br (length preE) (length preB) (flat_bounds recs (length preE) (length preB)) = Some recs.
Proof.
  induction recs as [|r recs IH]; intros br preB preE Hne HB HE; [reflexivity|].
  inversion Hne as [|? ? Hr Hrest]; subst.
  cbn [flat_bounds records_from].
  unfold flat_buf in HB. unfold flat_ends in HE. cbn [map concat] in HB, HE.
  assert (Hlen : S (length preE + length r - 1) = length preE + length r).
  { destruct r; [congruence|]. cbn [length]. lia. }
  rewrite Hlen. rewrite HB, slice_mid.
  rewrite HE. rewrite <- (cum_length r 0). rewrite slice_mid.
  pose proof (fields_of_cum r (concat r) [] eq_refl) as Hf. cbn [length] in Hf. rewrite Hf.
  rewrite <- !app_length.
  rewrite IH; [reflexivity|assumption| |].
  - rewrite HB, <- app_assoc. reflexivity.
  - rewrite HE, <- app_assoc. reflexivity.
Qed.

Lemma records_of_flat : forall recs br,
  Forall (fun r => r <> []) recs ->
  buf br = flat_buf recs -> ends br = flat_ends recs -> bounds br = flat_bounds recs 0 0 ->
  records_of br = Some recs.
Proof.
  intros recs br Hne HB HE HBd. unfold records_of. rewrite HBd.
  apply (records_from_flat recs br [] []); assumption.
Qed.

(* ------------------------------------------------------------------ (1) the DFA reads back every encoding *)
Lemma end_of_chunk_snd : forall st, snd (end_of_chunk st) = snd st.
Proof. intros [r br]. unfold end_of_chunk. destruct (record_final (r_state r)); reflexivity. Qed.

Lemma decode_whole : forall d bs, bs <> [] -> strip_bom rdr_init bs = bs ->
  snd (decode d st_init bs) = snd (fold_left (byte_step d) bs st_init).
Proof.
  intros d bs Hne Hbom. unfold decode. destruct bs as [|c bs]; [congruence|].
  change (fst st_init) with rdr_init. rewrite Hbom. apply end_of_chunk_snd.
Qed.

Lemma contents_nonempty : forall d recs,
  forallb (fun r => record_ok d (snd r)) recs = true ->
  Forall (fun r => r <> []) (contents (nonblank recs)).
Proof.
  induction recs as [|[crlf fs] recs IH]; intros H; [constructor|].
  cbn [forallb snd] in H. apply andb_prop in H. destruct H as [H Hrest].
  destruct (blank fs) eqn:Hb.
  - rewrite nonblank_cons_blank by exact Hb. apply IH. assumption.
  - rewrite nonblank_cons_keep by exact Hb. cbn [contents map]. constructor; [|apply IH; assumption].
    unfold record_ok in H. apply andb_prop in H. destruct H as [H _].
    cbn [snd]. destruct fs; [discriminate H|discriminate].
Qed.

Theorem dfa_decodes_encoding : forall d recs,
  dialect_ok d = true ->
  forallb (fun r => record_ok d (snd r)) recs = true ->
  strip_bom rdr_init (enc_file d recs) = enc_file d recs ->
  run_dfa d (enc_file d recs) = Some (contents (nonblank recs)).
Proof.
  intros d recs Hd Hok Hbom. unfold run_dfa.
  destruct recs as [|[crlf fs] recs]; [reflexivity|].
  rewrite decode_whole; [|destruct crlf; cbn [enc_file enc_term]; intros H; apply app_eq_nil in H;
                           destruct H as [_ H]; discriminate H|assumption].
  destruct (file_run d (dialect_ok_facts d Hd) ((crlf, fs) :: recs) StartRecord [] [] [])
    as (s' & _ & Hrun); [left; reflexivity|assumption|].
  pose proof (view_fold d (enc_file d ((crlf, fs) :: recs)) st_init) as Hv.
  change (view st_init) with (StartRecord, 0, @nil N, @nil nat, @nil (nat * nat)) in Hv.
  rewrite Hrun in Hv. unfold view in Hv. cbn [app length] in Hv.
  injection Hv as _ _ HB HE HBd.
  apply records_of_flat; [apply (contents_nonempty d); assumption|assumption|assumption|assumption].
Qed.

(* ------------------------------------------------------------------ (2) the reference parser reads back every encoding *)
Ltac rfc_tests :=
  repeat match goal with
         | |- context [N.eqb ?a ?b] => destruct (N.eqb_spec a b); try (exfalso; congruence)
         end.

Section Rfc.
  Variable d : dialect.
  Hypothesis D : dfacts d.

  Let qd := df_qd d D. Let qcr := df_qcr d D. Let qlf := df_qlf d D.
  Let dcr := df_dcr d D. Let dlf := df_dlf d D.

  Definition bare_mode (m : pmode) : Prop := m = PStart \/ m = PBare.
  Definition after_field (m : pmode) : Prop := m = PStart \/ m = PBare \/ m = PQuoteSeen.

  Lemma rfc_plain_byte : forall m c cur fs cr rest, bare_mode m -> special d c = false ->
    rfc_go d m cur fs cr (c :: rest) = rfc_go d PBare (c :: cur) fs false rest.
  Proof.
    intros m c cur fs cr rest Hm Hc. apply special_false in Hc. destruct Hc as (? & ? & ? & ?).
    unfold CR, LF in *. destruct Hm as [->| ->]; cbn [rfc_go]; unfold CR, LF; rfc_tests; reflexivity.
  Qed.

  Lemma rfc_bare_in : forall f cur fs rest, plain d f = true ->
    rfc_go d PBare cur fs false (f ++ rest) = rfc_go d PBare (rev f ++ cur) fs false rest.
  Proof.
    induction f as [|c f IH]; intros cur fs rest P; [reflexivity|].
    apply plain_cons in P. destruct P as [Pc Pf]. cbn [app].
    rewrite rfc_plain_byte; [|right; reflexivity|assumption].
    rewrite IH by assumption. cbn [rev]. rewrite <- app_assoc. reflexivity.
  Qed.

  Lemma rfc_escape_in : forall f cur fs rest,
    rfc_go d PQuoted cur fs false (escape d f ++ rest) = rfc_go d PQuoted (rev f ++ cur) fs false rest.
  Proof.
    induction f as [|c f IH]; intros cur fs rest; [reflexivity|].
    cbn [escape rev]. rewrite <- app_assoc. cbn [app].
    destruct (N.eqb_spec c (quote d)) as [->|Hc]; cbn [app rfc_go].
    - rewrite !N.eqb_refl. apply IH.
    - destruct (N.eqb_spec c (quote d)); [congruence|]. apply IH.
  Qed.

  (* the link between the mode and the field is kept: PStart only after a bare empty field *)
  Lemma rfc_field_mode : forall q f fs rest, field_ok d (q, f) = true ->
    exists m, after_field m /\ (m = PStart -> q = false /\ f = []) /\
      rfc_go d PStart [] fs false (enc_field d q f ++ rest) = rfc_go d m (rev f) fs false rest.
  Proof.
    intros q f fs rest Hok. destruct q; cbn [enc_field].
    - exists PQuoteSeen. split; [unfold after_field; auto|]. split; [discriminate|].
      cbn [app rfc_go]. rewrite N.eqb_refl. rewrite <- app_assoc, rfc_escape_in.
      cbn [app rfc_go]. rewrite N.eqb_refl, app_nil_r. reflexivity.
    - unfold field_ok in Hok. cbn [fst snd orb] in Hok. destruct f as [|c f].
      + exists PStart. split; [unfold after_field; auto|]. split; [auto|reflexivity].
      + exists PBare. split; [unfold after_field; auto|]. split; [discriminate|].
        apply plain_cons in Hok. destruct Hok as [Pc Pf]. cbn [app].
        rewrite rfc_plain_byte; [|left; reflexivity|assumption].
        rewrite rfc_bare_in by assumption. reflexivity.
  Qed.

  Lemma rfc_delim : forall m cur fs rest, after_field m ->
    rfc_go d m cur fs false (delim d :: rest) = rfc_go d PStart [] (rev cur :: fs) false rest.
  Proof.
    intros m cur fs rest [->|[->| ->]]; cbn [rfc_go]; rfc_tests; reflexivity.
  Qed.

  Lemma blank_line_false : forall m fs, (m <> PStart \/ fs <> []) -> blank_line m fs = false.
  Proof.
    intros m fs H. destruct m; try reflexivity. destruct fs; [|reflexivity].
    exfalso. destruct H as [H|H]; congruence.
  Qed.

  (* a terminator after at least one byte of the line (or after a delimiter) ends a record *)
  Lemma rfc_term : forall crlf m cur fs rest, after_field m -> (m <> PStart \/ fs <> []) ->
    rfc_go d m cur fs false (enc_term crlf ++ rest)
    = rev (rev cur :: fs) :: rfc_go d PStart [] [] false rest.
  Proof.
    intros crlf m cur fs rest Hm Hnb. apply blank_line_false in Hnb.
    destruct crlf; unfold enc_term, CR, LF; cbn [app].
    - destruct Hm as [->|[->| ->]]; cbn [rfc_go]; unfold CR, LF; rfc_tests; rewrite ?Hnb; reflexivity.
    - destruct Hm as [->|[->| ->]]; cbn [rfc_go]; unfold CR, LF; rfc_tests; rewrite ?Hnb; reflexivity.
  Qed.

  (* a terminator at the very start of a line: the blank line is skipped *)
  Lemma rfc_term_blank : forall crlf rest,
    rfc_go d PStart [] [] false (enc_term crlf ++ rest) = rfc_go d PStart [] [] false rest.
  Proof.
    intros crlf rest. destruct crlf; unfold enc_term, CR, LF; cbn [app rfc_go blank_line]; unfold CR, LF;
      rfc_tests; reflexivity.
  Qed.

  Lemma rfc_record : forall fs crlf acc rest, fs <> [] -> forallb (field_ok d) fs = true ->
    (acc <> [] \/ blank fs = false) ->
    rfc_go d PStart [] acc false (enc_record d fs ++ enc_term crlf ++ rest)
    = rev (rev (map snd fs) ++ acc) :: rfc_go d PStart [] [] false rest.
  Proof.
    induction fs as [|[q f] fs IH]; intros crlf acc rest Hne Hok Hb; [congruence|].
    cbn [forallb] in Hok. apply andb_prop in Hok. destruct Hok as [Hf Hfs].
    destruct fs as [|x fs].
    - rewrite enc_record_single.
      destruct (rfc_field_mode q f acc (enc_term crlf ++ rest) Hf) as (m & Hm & Hmf & Hrun).
      rewrite Hrun, rfc_term; [rewrite rev_involutive; reflexivity|assumption|].
      destruct Hb as [Hb|Hb]; [auto|]. left. intros ->.
      destruct (Hmf eq_refl) as [-> ->]. discriminate Hb.
    - rewrite enc_record_cons2, <- app_assoc.
      destruct (rfc_field_mode q f acc ((delim d :: enc_record d (x :: fs)) ++ enc_term crlf ++ rest) Hf)
        as (m & Hm & _ & Hrun).
      rewrite Hrun. cbn [app]. rewrite rfc_delim by assumption. rewrite rev_involutive.
      rewrite IH; [|discriminate|assumption|left; discriminate].
      cbn [map snd rev]. rewrite <- !app_assoc. reflexivity.
  Qed.

  Lemma rfc_file_app : forall recs rest, forallb (fun r => record_ok d (snd r)) recs = true ->
    rfc_go d PStart [] [] false (enc_file d recs ++ rest)
    = contents (nonblank recs) ++ rfc_go d PStart [] [] false rest.
  Proof.
    induction recs as [|[crlf fs] recs IH]; intros rest Hok; [reflexivity|].
    cbn [forallb snd] in Hok. apply andb_prop in Hok. destruct Hok as [Hr Hrest].
    destruct (blank fs) eqn:Hb.
    - rewrite nonblank_cons_blank by exact Hb. apply blank_inv in Hb. subst fs.
      cbn [enc_file enc_record enc_field app]. rewrite <- app_assoc, rfc_term_blank. apply IH. assumption.
    - rewrite nonblank_cons_keep by exact Hb.
      unfold record_ok in Hr. apply andb_prop in Hr. destruct Hr as [Hlen Hfs].
      cbn [enc_file]. rewrite <- !app_assoc.
      rewrite rfc_record; [|intros ->; discriminate Hlen|assumption|auto].
      rewrite IH by assumption. cbn [contents map snd app]. rewrite app_nil_r, rev_involutive. reflexivity.
  Qed.

  Lemma rfc_file : forall recs, forallb (fun r => record_ok d (snd r)) recs = true ->
    rfc_go d PStart [] [] false (enc_file d recs) = contents (nonblank recs).
  Proof.
    intros recs Hok. rewrite <- (app_nil_r (enc_file d recs)), rfc_file_app by assumption.
    cbn [rfc_go]. apply app_nil_r.
  Qed.
End Rfc.

Theorem rfc4180_decodes_encoding : forall d recs, dialect_ok d = true ->
  forallb (fun r => record_ok d (snd r)) recs = true ->
  rfc4180 d (enc_file d recs) = contents (nonblank recs).
Proof.
  intros d recs Hd Hok. unfold rfc4180. apply rfc_file; [apply dialect_ok_facts; assumption|assumption].
Qed.

(* ------------------------------------------------------------------ (3) refinement on well-formed input *)
(* a convenient boolean form of the no-BOM hypothesis *)
Definition no_bom (bs : list N) : bool :=
  match bs with 239%N :: 187%N :: 191%N :: _ => false | _ => true end.

Lemma no_bom_strip : forall bs, no_bom bs = true -> strip_bom rdr_init bs = bs.
Proof.
  intros bs H. unfold strip_bom, no_bom in *. cbn [r_has_read rdr_init].
  repeat match goal with
         | H : match ?x with _ => _ end = true |- _ => destruct x; try reflexivity; try discriminate H
         end.
Qed.

(* the bytes are an RFC-4180 encoding of some records, every record terminated; blank lines allowed *)
Definition well_formed (d : dialect) (bs : list N) : Prop :=
  exists recs, forallb (fun r => record_ok d (snd r)) recs = true /\ bs = enc_file d recs.

Theorem dfa_refines_rfc4180 : forall d bs,
  dialect_ok d = true -> well_formed d bs -> strip_bom rdr_init bs = bs ->
  run_dfa d bs = Some (rfc4180 d bs).
Proof.
  intros d bs Hd (recs & Hok & ->) Hbom.
  rewrite dfa_decodes_encoding by assumption.
  rewrite rfc4180_decodes_encoding by assumption. reflexivity.
Qed.

Corollary dfa_refines_rfc4180_no_bom : forall d bs,
  dialect_ok d = true -> well_formed d bs -> no_bom bs = true ->
  run_dfa d bs = Some (rfc4180 d bs).
Proof. intros d bs Hd Hwf Hb. apply dfa_refines_rfc4180; auto using no_bom_strip. Qed.

(* the hypotheses are satisfiable: comma / double quote; bare, quoted (with quote, delimiter and LF inside),
   bare empty first / last fields, a quoted empty single field, two blank lines, both terminators *)
Definition ex_d : dialect := {| delim := 44%N; quote := 34%N |}.
Definition ex_recs : list (bool * list (bool * list N)) :=
  [ (true,  [(false, [97%N]); (true, [34%N; 44%N; 10%N])]);
    (false, [(false, []); (true, [])]);
    (true,  [(false, [])]);
    (false, [(true, [])]);
    (false, [(false, [])]);
    (true,  [(false, [120%N]); (true, [121%N]); (false, [])]) ].

Example ex_hyps :
  dialect_ok ex_d = true
  /\ well_formed ex_d (enc_file ex_d ex_recs)
  /\ strip_bom rdr_init (enc_file ex_d ex_recs) = enc_file ex_d ex_recs
  /\ no_bom (enc_file ex_d ex_recs) = true.
Proof.
  split; [reflexivity|]. split; [exists ex_recs; split; reflexivity|]. split; reflexivity.
Qed.

Example ex_run :
  run_dfa ex_d (enc_file ex_d ex_recs) = Some (rfc4180 ex_d (enc_file ex_d ex_recs))
  /\ rfc4180 ex_d (enc_file ex_d ex_recs)
     = [ [[97%N]; [34%N; 44%N; 10%N]]; [[]; []]; [[]]; [[120%N]; [121%N]; []] ].
Proof. split; vm_compute; reflexivity. Qed.

(* a blank line is no record, for csv_core and for the reference parser; a quoted empty field on its own is one *)
Example ex_blank_skipped :
  run_dfa ex_d (enc_file ex_d [(false, [(false, [])])]) = Some []
  /\ rfc4180 ex_d (enc_file ex_d [(false, [(false, [])])]) = []
  /\ rfc4180 ex_d (enc_file ex_d [(false, [(true, [])])]) = [[[]]].
Proof. repeat split; vm_compute; reflexivity. Qed.

(* the side condition of (1) is needed: a leading BOM is stripped *)
Example ex_bom_needed :
  run_dfa ex_d (enc_file ex_d [(false, [(false, [239%N; 187%N; 191%N; 97%N])])]) = Some [[[97%N]]]
  /\ rfc4180 ex_d (enc_file ex_d [(false, [(false, [239%N; 187%N; 191%N; 97%N])])])
     = [[[239%N; 187%N; 191%N; 97%N]]].
Proof. split; vm_compute; reflexivity. Qed.

Print Assumptions dfa_decodes_encoding.
Print Assumptions rfc4180_decodes_encoding.
Print Assumptions dfa_refines_rfc4180.
Print Assumptions dfa_refines_rfc4180_no_bom.


(* ================================================================== the repaired reader: end-of-input signal *)
(* sanity: computed before proving *)
Example ex_open_checks :
  run_reader ex_d (enc_file_open ex_d [] None) = Some []
  /\ run_reader ex_d (enc_file_open ex_d [] (Some [(false, [97%N]); (false, [])])) = Some [[[97%N]; []]]
  /\ run_reader ex_d (enc_file_open ex_d [] (Some [(true, [])])) = Some [[[]]]
  /\ run_reader ex_d (enc_file_open ex_d ex_recs (Some [(false, []); (true, [34%N]); (false, [])]))
     = Some (contents_open (nonblank ex_recs) (Some [(false, []); (true, [34%N]); (false, [])]))
  /\ run_reader ex_d (enc_file_open ex_d ex_recs None) = Some (contents (nonblank ex_recs)).
Proof. repeat split; vm_compute; reflexivity. Qed.

Definition vend (v : vstate) : vstate :=
  let '(s, o, B, E, Bd) := v in if record_final s then (StartRecord, o, B, E, Bd) else v.

Definition eof_br (v : vstate) : byte_records :=
  let '(s, o, B, E, Bd) := v in
  if record_final s || is_start s then {| buf := B; ends := E; bounds := Bd |}
  else {| buf := B; ends := E ++ [o]; bounds := Bd ++ [(length (E ++ [o]) - 1, length B)] |}.

Lemma view_end_of_chunk : forall st, view (end_of_chunk st) = vend (view st).
Proof.
  intros [[s o h] [B E Bd]]. unfold view, end_of_chunk, vend. cbn [fst snd r_state r_opos buf ends bounds].
  destruct (record_final s); reflexivity.
Qed.

Lemma decode_eof_view : forall st, snd (decode_eof st) = eof_br (view st).
Proof.
  intros [[s o h] [B E Bd]]. unfold view, decode_eof, eof_br. cbn [fst snd r_state r_opos buf ends bounds].
  destruct (record_final s || is_start s); reflexivity.
Qed.

Lemma run_reader_view : forall d bs, bs <> [] -> strip_bom rdr_init bs = bs ->
  run_reader d bs
  = records_of (eof_br (vend (fold_left (vstep d) bs (StartRecord, 0, @nil N, @nil nat, @nil (nat * nat))))).
Proof.
  intros d bs Hne Hbom. unfold run_reader. destruct bs as [|c bs]; [congruence|].
  rewrite decode_eof_view. unfold decode. change (fst st_init) with rdr_init. rewrite Hbom.
  rewrite view_end_of_chunk, view_fold. reflexivity.
Qed.

(* the flattened layout of `recs ++ [r]` *)
Lemma flat_buf_snoc : forall a r, flat_buf (a ++ [r]) = flat_buf a ++ concat r.
Proof.
  intros a r. unfold flat_buf. rewrite map_app, concat_app. cbn [map concat]. rewrite app_nil_r. reflexivity.
Qed.

Lemma flat_ends_snoc : forall a r, flat_ends (a ++ [r]) = flat_ends a ++ cum 0 r.
Proof.
  intros a r. unfold flat_ends. rewrite map_app, concat_app. cbn [map concat]. rewrite app_nil_r. reflexivity.
Qed.

Lemma flat_bounds_snoc : forall a r pi po,
  flat_bounds (a ++ [r]) pi po
  = flat_bounds a pi po
    ++ [(pi + length (flat_ends a ++ cum 0 r) - 1, po + length (flat_buf a ++ concat r))].
Proof.
  induction a as [|r0 a IH]; intros r pi po.
  - cbn [app flat_bounds]. unfold flat_ends, flat_buf. cbn [map concat app]. rewrite cum_length. reflexivity.
  - cbn [app flat_bounds]. rewrite IH. f_equal. f_equal. f_equal.
    unfold flat_ends, flat_buf. cbn [map concat]. rewrite <- !app_assoc, !(app_length (cum 0 r0)), cum_length,
      !(app_length (concat r0)).
    f_equal; lia.
Qed.

Section OpenRecord.
  Variable d : dialect.
  Hypothesis D : dfacts d.

  Lemma open_record_run : forall fs s o B E Bd,
    fs <> [] -> forallb (field_ok d) fs = true -> start3 s ->
    (s = EndFieldDelim \/ blank fs = false) ->
    exists s' o' E', fend3 s' /\
      fold_left (vstep d) (enc_record d fs) (s, o, B, E, Bd) = (s', o', B ++ concat (map snd fs), E', Bd)
      /\ E' ++ [o'] = E ++ cum o (map snd fs).
  Proof.
    induction fs as [|[q f] fs IH]; intros s o B E Bd Hne Hok Hs Hb; [congruence|].
    cbn [forallb] in Hok. apply andb_prop in Hok. destruct Hok as [Hf Hfs].
    destruct (enc_field_run d D q f s o B E Bd Hs Hf) as (s' & Hrun & Hs').
    destruct fs as [|x fs].
    - exists s', (o + length f), E. rewrite enc_record_single, Hrun.
      split; [|split].
      + destruct Hs' as [(-> & -> & ->)|[->| ->]]; unfold fend3; auto.
        destruct Hb as [->|Hb]; [auto|discriminate Hb].
      + cbn [map snd concat]. rewrite app_nil_r. reflexivity.
      + reflexivity.
    - rewrite enc_record_cons2, fold_left_app, Hrun. cbn [fold_left].
      rewrite (vstep_delim d s' (delim d)).
      2:{ apply dfa_delim; auto. unfold mid5, start3 in *.
          destruct Hs' as [(_ & _ & ->)|[->| ->]]; tauto. }
      destruct (IH EndFieldDelim (o + length f) (B ++ f) (E ++ [o + length f]) Bd)
        as (s2 & o2 & E2 & Hs2 & Hrun2 & HE2); [discriminate|assumption|unfold start3; auto|auto|].
      exists s2, o2, E2. split; [assumption|]. split.
      + rewrite Hrun2. cbn [map snd concat]. rewrite <- app_assoc. reflexivity.
      + rewrite HE2. cbn [map snd cum]. rewrite <- app_assoc. reflexivity.
  Qed.

  Lemma enc_record_nonempty : forall fs, fs <> [] -> blank fs = false -> enc_record d fs <> [].
  Proof.
    intros [|[q f] [|x fs]] Hne Hb; [congruence| |].
    - rewrite enc_record_single. destruct q; cbn [enc_field]; [discriminate|].
      destruct f; [discriminate Hb|discriminate].
    - rewrite enc_record_cons2. intros H. apply app_eq_nil in H. destruct H as [_ H]. discriminate H.
  Qed.
End OpenRecord.

Lemma fend3_not_final : forall s, fend3 s -> record_final s || is_start s = false.
Proof. intros s [->|[->| ->]]; reflexivity. Qed.

Theorem reader_decodes_encoding : forall d recs last,
  dialect_ok d = true ->
  forallb (fun r => record_ok d (snd r)) recs = true ->
  match last with Some fs => record_ok d fs && negb (blank fs) = true | None => True end ->
  strip_bom rdr_init (enc_file_open d recs last) = enc_file_open d recs last ->
  run_reader d (enc_file_open d recs last) = Some (contents_open (nonblank recs) last).
Proof.
  intros d recs last Hd Hok Hlast Hbom.
  pose proof (dialect_ok_facts d Hd) as D.
  destruct (file_run d D recs StartRecord [] [] []) as (s1 & Hs1 & Hrun1); [left; reflexivity|assumption|].
  cbn [app length] in Hrun1.
  pose proof (contents_nonempty d recs Hok) as Hne.
  destruct last as [fs|].
  - (* an unterminated last record *)
    apply andb_prop in Hlast. destruct Hlast as [Hrok Hnb]. apply negb_true_iff in Hnb.
    unfold record_ok in Hrok. apply andb_prop in Hrok. destruct Hrok as [Hlen Hfs].
    assert (Hfne : fs <> []) by (intros ->; discriminate Hlen).
    rewrite run_reader_view; [| |assumption].
    2:{ unfold enc_file_open. intros H. apply app_eq_nil in H. destruct H as [_ H].
        revert H. apply enc_record_nonempty; assumption. }
    unfold enc_file_open, contents_open. rewrite fold_left_app, Hrun1.
    destruct (open_record_run d D fs s1 0 (flat_buf (contents (nonblank recs))) (flat_ends (contents (nonblank recs)))
                (flat_bounds (contents (nonblank recs)) 0 0)) as (s2 & o2 & E2 & Hs2 & Hrun2 & HE2);
      [assumption|assumption|destruct Hs1 as [->| ->]; unfold start3; auto|auto|].
    rewrite Hrun2. unfold vend.
    assert (Hrf : record_final s2 = false) by (destruct Hs2 as [->|[->| ->]]; reflexivity).
    rewrite Hrf. unfold eof_br. rewrite (fend3_not_final s2 Hs2), HE2.
    apply records_of_flat; cbn [buf ends bounds].
    + apply Forall_app. split; [assumption|]. constructor; [|constructor].
      destruct fs; [congruence|discriminate].
    + rewrite flat_buf_snoc. reflexivity.
    + rewrite flat_ends_snoc. reflexivity.
    + rewrite flat_bounds_snoc. reflexivity.
  - (* every record terminated *)
    unfold enc_file_open, contents_open in *. rewrite app_nil_r in Hbom. rewrite !app_nil_r.
    destruct recs as [|[crlf fs] recs]; [reflexivity|].
    rewrite run_reader_view; [| |assumption].
    2:{ destruct crlf; cbn [enc_file enc_term]; intros H; apply app_eq_nil in H;
        destruct H as [_ H]; discriminate H. }
    rewrite Hrun1. unfold vend, eof_br.
    destruct Hs1 as [->| ->]; cbn [record_final is_start orb].
    all: apply records_of_flat; try assumption; reflexivity.
Qed.

(* ------------------------------------------------------------------ the reference parser on open encodings *)
Section RfcOpen.
  Variable d : dialect.
  Hypothesis D : dfacts d.

  Lemma rfc_eof : forall m cur acc, (m <> PStart \/ acc <> []) ->
    rfc_go d m cur acc false [] = [rev (rev cur :: acc)].
  Proof.
    intros m cur acc H. destruct m; try reflexivity.
    destruct acc; [|destruct cur; reflexivity].
    exfalso. destruct H as [H|H]; congruence.
  Qed.

  Lemma rfc_open_record : forall fs acc, fs <> [] -> forallb (field_ok d) fs = true ->
    (acc <> [] \/ blank fs = false) ->
    rfc_go d PStart [] acc false (enc_record d fs) = [rev (rev (map snd fs) ++ acc)].
  Proof.
    induction fs as [|[q f] fs IH]; intros acc Hne Hok Hb; [congruence|].
    cbn [forallb] in Hok. apply andb_prop in Hok. destruct Hok as [Hf Hfs].
    destruct fs as [|x fs].
    - rewrite enc_record_single.
      destruct (rfc_field_mode d q f acc [] Hf) as (m & Hm & Hmf & Hrun).
      rewrite app_nil_r in Hrun. rewrite Hrun.
      rewrite rfc_eof; [rewrite rev_involutive; reflexivity|].
      destruct Hb as [Hb|Hb]; [auto|]. left. intros ->.
      destruct (Hmf eq_refl) as [-> ->]. discriminate Hb.
    - rewrite enc_record_cons2.
      destruct (rfc_field_mode d q f acc (delim d :: enc_record d (x :: fs)) Hf) as (m & Hm & _ & Hrun).
      rewrite Hrun. rewrite (rfc_delim d D) by assumption. rewrite rev_involutive.
      rewrite IH; [|discriminate|assumption|left; discriminate].
      cbn [map snd rev]. rewrite <- !app_assoc. reflexivity.
  Qed.
End RfcOpen.

Theorem rfc4180_decodes_open_encoding : forall d recs last,
  dialect_ok d = true ->
  forallb (fun r => record_ok d (snd r)) recs = true ->
  match last with Some fs => record_ok d fs && negb (blank fs) = true | None => True end ->
  rfc4180 d (enc_file_open d recs last) = contents_open (nonblank recs) last.
Proof.
  intros d recs last Hd Hok Hlast. pose proof (dialect_ok_facts d Hd) as D.
  unfold rfc4180, enc_file_open, contents_open. rewrite (rfc_file_app d D) by assumption.
  f_equal. destruct last as [fs|]; [|reflexivity].
  apply andb_prop in Hlast. destruct Hlast as [Hrok Hnb]. apply negb_true_iff in Hnb.
  unfold record_ok in Hrok. apply andb_prop in Hrok. destruct Hrok as [Hlen Hfs].
  rewrite (rfc_open_record d D); [|intros ->; discriminate Hlen|assumption|auto].
  rewrite app_nil_r, rev_involutive. reflexivity.
Qed.

(* ------------------------------------------------------------------ (3') refinement, repaired reader *)
(* an RFC-4180 encoding (blank lines allowed) whose last record may lack its terminator *)
Definition well_formed_open (d : dialect) (bs : list N) : Prop :=
  exists recs last,
    forallb (fun r => record_ok d (snd r)) recs = true
    /\ match last with Some fs => record_ok d fs && negb (blank fs) = true | None => True end
    /\ bs = enc_file_open d recs last.

Theorem reader_refines_rfc4180 : forall d bs,
  dialect_ok d = true -> well_formed_open d bs -> strip_bom rdr_init bs = bs ->
  run_reader d bs = Some (rfc4180 d bs).
Proof.
  intros d bs Hd (recs & last & Hok & Hlast & ->) Hbom.
  rewrite reader_decodes_encoding by assumption.
  rewrite rfc4180_decodes_open_encoding by assumption. reflexivity.
Qed.

Corollary reader_refines_rfc4180_no_bom : forall d bs,
  dialect_ok d = true -> well_formed_open d bs -> no_bom bs = true ->
  run_reader d bs = Some (rfc4180 d bs).
Proof. intros d bs Hd Hwf Hb. apply reader_refines_rfc4180; auto using no_bom_strip. Qed.

(* a terminated record then an unterminated last record:  a,b LF 1,2  *)
Definition ex_open_recs : list (bool * list (bool * list N)) := [(false, [(false, [97%N]); (false, [98%N])])].
Definition ex_open_last : option (list (bool * list N)) := Some [(false, [49%N]); (false, [50%N])].

Example ex_open_hyps :
  enc_file_open ex_d ex_open_recs ex_open_last = [97%N; 44%N; 98%N; 10%N; 49%N; 44%N; 50%N]
  /\ dialect_ok ex_d = true
  /\ well_formed_open ex_d (enc_file_open ex_d ex_open_recs ex_open_last)
  /\ strip_bom rdr_init (enc_file_open ex_d ex_open_recs ex_open_last)
     = enc_file_open ex_d ex_open_recs ex_open_last.
Proof.
  split; [reflexivity|]. split; [reflexivity|]. split; [|reflexivity].
  exists ex_open_recs, ex_open_last. repeat split; reflexivity.
Qed.

Example ex_open_run :
  run_reader ex_d (enc_file_open ex_d ex_open_recs ex_open_last)
  = Some (rfc4180 ex_d (enc_file_open ex_d ex_open_recs ex_open_last))
  /\ rfc4180 ex_d (enc_file_open ex_d ex_open_recs ex_open_last) = [[[97%N]; [98%N]]; [[49%N]; [50%N]]].
Proof. split; vm_compute; reflexivity. Qed.

(* without the end-of-input signal (run_dfa: what ReadCsv::bind's inference still does) that record is lost *)
Example ex_open_run_dfa_loses :
  run_dfa ex_d (enc_file_open ex_d ex_open_recs ex_open_last) = Some [[[97%N]; [98%N]]].
Proof. vm_compute. reflexivity. Qed.

Print Assumptions reader_decodes_encoding.
Print Assumptions rfc4180_decodes_open_encoding.
Print Assumptions reader_refines_rfc4180.
Print Assumptions reader_refines_rfc4180_no_bom.
