(* Proofs about model/Arith.v *)
From Coq Require Import ZArith List Bool Lia ZifyBool.
From GV Require Import model.Arith.
Import ListNotations.
Open Scope Z_scope.

Lemma in_range_iff : forall sg w x, in_range sg w x = true <-> lo sg w <= x <= hi sg w.
Proof.
  intros sg w x. unfold in_range. rewrite andb_true_iff, !Z.leb_le. tauto.
Qed.

Lemma in_range_false_iff : forall sg w x, in_range sg w x = false <-> ~ (lo sg w <= x <= hi sg w).
Proof.
  intros sg w x. rewrite <- in_range_iff. destruct (in_range sg w x).
  - split; [discriminate|]. intro H. exfalso. apply H. reflexivity.
  - split; [discriminate|reflexivity].
Qed.

Lemma pow2_pos : forall w, 0 <= w -> 0 < 2 ^ w.
Proof. intros w Hw. apply Z.pow_pos_nonneg; lia. Qed.

Lemma pow2_split : forall w, 0 < w -> 2 ^ w = 2 * 2 ^ (w - 1).
Proof.
  intros w Hw. replace w with (Z.succ (w - 1)) at 1 by lia. rewrite Z.pow_succ_r by lia. reflexivity.
Qed.

(* ------------------------------------------------------------ wrap is the identity on the range *)
Lemma wrap_id : forall sg w x, 0 < w -> in_range sg w x = true -> wrap sg w x = x.
Proof.
  intros sg w x Hw Hr. apply in_range_iff in Hr.
  pose proof (pow2_pos (w - 1) ltac:(lia)) as Hp.
  pose proof (pow2_split w Hw) as Hs.
  destruct sg; unfold wrap, lo, hi in *.
  - rewrite Z.mod_small by lia. lia.
  - apply Z.mod_small. lia.
Qed.

(* wrap always lands in the range, and differs from x by a multiple of 2^w *)
Lemma wrap_in_range : forall sg w x, 0 < w -> in_range sg w (wrap sg w x) = true.
Proof.
  intros sg w x Hw. apply in_range_iff.
  pose proof (pow2_pos (w - 1) ltac:(lia)) as Hp.
  pose proof (pow2_split w Hw) as Hs.
  destruct sg; unfold wrap, lo, hi.
  - pose proof (Z.mod_pos_bound (x + 2 ^ (w - 1)) (2 ^ w) ltac:(lia)) as Hb. lia.
  - pose proof (Z.mod_pos_bound x (2 ^ w) ltac:(lia)) as Hb. lia.
Qed.

Lemma wrap_congr : forall sg w x, 0 < w -> exists k, wrap sg w x = x + k * 2 ^ w.
Proof.
  intros sg w x Hw.
  pose proof (pow2_pos w ltac:(lia)) as Hp.
  destruct sg; unfold wrap.
  - exists (- ((x + 2 ^ (w - 1)) / 2 ^ w)).
    pose proof (Z.div_mod (x + 2 ^ (w - 1)) (2 ^ w) ltac:(lia)) as Hd. lia.
  - exists (- (x / 2 ^ w)). pose proof (Z.div_mod x (2 ^ w) ltac:(lia)) as Hd. lia.
Qed.

(* a wrapped result that was not representable is a WRONG value *)
Lemma wrap_wrong_when_unrepresentable : forall sg w x, 0 < w -> in_range sg w x = false -> wrap sg w x <> x.
Proof.
  intros sg w x Hw Hr Heq. pose proof (wrap_in_range sg w x Hw) as Hi. rewrite Heq in Hi. congruence.
Qed.

Lemma arith_result_exact : forall st m sg w x, 0 < w -> in_range sg w x = true ->
  arith_result st m sg w x = Ok x.
Proof.
  intros st m sg w x Hw Hr. unfold arith_result. destruct st, m; rewrite ?Hr, ?wrap_id by assumption; reflexivity.
Qed.

(* ------------------------------------------------------------ division facts *)
Lemma quot_abs_le : forall a b, b <> 0 -> Z.abs (Z.quot a b) <= Z.abs a.
Proof.
  intros a b Hb. rewrite <- Z.quot_abs by assumption.
  rewrite Z.quot_div_nonneg by lia.
  apply Z.div_le_upper_bound; nia.
Qed.

Lemma quot_abs_lt_half : forall a b H, 2 <= Z.abs b -> Z.abs a <= H -> 0 < H -> Z.abs (Z.quot a b) < H.
Proof.
  intros a b H Hb Ha HH. rewrite <- Z.quot_abs by lia.
  rewrite Z.quot_div_nonneg by lia.
  apply Z.div_lt_upper_bound; nia.
Qed.

Lemma rem_between : forall a b, b <> 0 -> (0 <= Z.rem a b <= a) \/ (a <= Z.rem a b <= 0).
Proof.
  intros a b Hb.
  pose proof (Z.rem_sign_mul a b Hb) as Hs.
  pose proof (Z.rem_abs a b Hb) as Ha.
  assert (Hle : Z.abs (Z.rem a b) <= Z.abs a).
  { rewrite <- Ha. apply Z.rem_le; lia. }
  nia.
Qed.

Lemma quot_in_range : forall sg w a b, 0 < w -> in_range sg w a = true -> in_range sg w b = true ->
  div_fault sg w a b = false -> in_range sg w (Z.quot a b) = true.
Proof.
  intros sg w a b Hw Ha Hbr Hf. apply in_range_iff in Ha. apply in_range_iff in Hbr. apply in_range_iff.
  pose proof (pow2_pos (w - 1) ltac:(lia)) as Hp.
  unfold div_fault in Hf. apply orb_false_iff in Hf. destruct Hf as [Hb0 Hm].
  apply Z.eqb_neq in Hb0.
  destruct sg; unfold lo, hi in *.
  - (* signed *)
    apply andb_false_iff in Hm.
    destruct (Z.eq_dec b 1) as [->|Hb1]; [rewrite Z.quot_1_r; lia|].
    destruct (Z.eq_dec b (-1)) as [->|Hbm1].
    + destruct Hm as [Hm|Hm]; [apply Z.eqb_neq in Hm|discriminate Hm].
      replace (-1) with (- (1)) by reflexivity. rewrite Z.quot_opp_r by lia. rewrite Z.quot_1_r. lia.
    + pose proof (quot_abs_lt_half a b (2 ^ (w - 1)) ltac:(lia) ltac:(lia) Hp) as Hq. lia.
  - (* unsigned *)
    pose proof (quot_abs_le a b Hb0) as Hq.
    assert (0 <= Z.quot a b) by (apply Z.quot_pos; lia). lia.
Qed.

Lemma rem_in_range : forall sg w a b, 0 < w -> in_range sg w a = true -> b <> 0 ->
  in_range sg w (Z.rem a b) = true.
Proof.
  intros sg w a b Hw Ha Hb. apply in_range_iff in Ha. apply in_range_iff.
  pose proof (pow2_pos (w - 1) ltac:(lia)) as Hp.
  pose proof (pow2_pos w ltac:(lia)) as Hp2.
  pose proof (rem_between a b Hb) as Hr.
  destruct sg; unfold lo, hi in *; lia.
Qed.

(* ------------------------------------------------------------ T1 impl_exact_when_representable *)
(* Full statement:
     forall st m sg w op a b x, 0 < w -> exact_bin op a b = Some x -> representable sg w x ->
       impl_bin st m sg w op a b = Ok x
   It is REFUTED by `MIN % -1` (exact result 0), see impl_exact_when_representable_refuted.
   Proved outside that single pair: *)
Lemma impl_exact_when_representable_partial : forall st m sg w op a b x, 0 < w ->
  exact_bin op a b = Some x -> representable sg w x -> ~ rem_min_neg1 sg w op a b ->
  impl_bin st m sg w op a b = Ok x.
Proof.
  intros st m sg w op a b x Hw Hx Hr Hn. unfold representable in Hr.
  destruct op; cbn [exact_bin impl_bin] in *.
  - injection Hx as <-. apply arith_result_exact; assumption.
  - injection Hx as <-. apply arith_result_exact; assumption.
  - injection Hx as <-. apply arith_result_exact; assumption.
  - destruct (b =? 0) eqn:Hb0; [discriminate|]. injection Hx as <-.
    assert (Hf : div_fault sg w a b = false).
    { unfold div_fault. rewrite Hb0. cbn [orb]. destruct sg; [|reflexivity].
      destruct (a =? lo Signed w) eqn:Ha; [|reflexivity]. destruct (b =? -1) eqn:Hb; [|reflexivity].
      exfalso. apply Z.eqb_eq in Ha, Hb. subst a b. apply in_range_iff in Hr.
      pose proof (pow2_pos (w - 1) ltac:(lia)) as Hp. unfold lo, hi in Hr.
      replace (-1) with (- (1)) in Hr by reflexivity. rewrite Z.quot_opp_r, Z.quot_1_r in Hr by lia. lia. }
    rewrite Hf. reflexivity.
  - destruct (b =? 0) eqn:Hb0; [discriminate|]. injection Hx as <-.
    assert (Hf : div_fault sg w a b = false).
    { unfold div_fault. rewrite Hb0. cbn [orb]. destruct sg; [|reflexivity].
      destruct (a =? lo Signed w) eqn:Ha; [|reflexivity]. destruct (b =? -1) eqn:Hb; [|reflexivity].
      exfalso. apply Hn. apply Z.eqb_eq in Ha, Hb. unfold rem_min_neg1. auto. }
    destruct st; [rewrite Hf|]; reflexivity.
Qed.

Example impl_exact_hyps_sat : exists sg w op a b x, 0 < w /\ exact_bin op a b = Some x /\
  representable sg w x /\ ~ rem_min_neg1 sg w op a b.
Proof.
  exists Signed, 8, Add, 100, 27, 127. repeat split; try reflexivity.
  intros [H _]. discriminate H.
Qed.

Lemma impl_exact_when_representable_refuted : exists st m sg w op a b x, 0 < w /\
  in_range sg w a = true /\ in_range sg w b = true /\
  exact_bin op a b = Some x /\ representable sg w x /\ impl_bin st m sg w op a b <> Ok x.
Proof.
  exists Native, Release, Signed, 8, Rem, (-128), (-1), 0. vm_compute. repeat split; try discriminate; reflexivity.
Qed.

Lemma impl_neg_exact_when_representable : forall st m w a, 0 < w -> representable Signed w (- a) ->
  impl_neg st m w a = Ok (- a).
Proof. intros st m w a Hw Hr. apply arith_result_exact; assumption. Qed.

(* ------------------------------------------------------------ T2 never_wraps_never_panics *)
(* Full statement: forall st m sg w op a b, operands in range -> impl_bin .. = spec_bin ..
   (exact value or Err; never a wrapped value, never Panic).  Refuted for the Native style: *)
Lemma never_wraps_never_panics_refuted_add_debug :
  in_range Signed 8 127 = true /\ in_range Signed 8 1 = true /\
  impl_bin Native Debug Signed 8 Add 127 1 = Panic /\ spec_bin Signed 8 Add 127 1 = Err.
Proof. vm_compute. auto. Qed.

Lemma never_wraps_never_panics_refuted_add_release :
  impl_bin Native Release Signed 8 Add 127 1 = Ok (-128) /\ spec_bin Signed 8 Add 127 1 = Err.
Proof. vm_compute. auto. Qed.

Lemma never_wraps_never_panics_refuted_div0 : forall m,
  impl_bin Native m Signed 32 Div 5 0 = Panic /\ spec_bin Signed 32 Div 5 0 = Err /\
  impl_bin Native m Signed 32 Rem 5 0 = Panic /\ spec_bin Signed 32 Rem 5 0 = Err.
Proof. intros m. destruct m; vm_compute; auto. Qed.

Lemma never_wraps_never_panics_refuted_min_div_neg1 : forall m,
  impl_bin Native m Signed 64 Div (- 2 ^ 63) (-1) = Panic /\ spec_bin Signed 64 Div (- 2 ^ 63) (-1) = Err.
Proof. intros m. destruct m; vm_compute; auto. Qed.

Lemma never_wraps_never_panics_refuted_min_rem_neg1 : forall m,
  impl_bin Native m Signed 64 Rem (- 2 ^ 63) (-1) = Panic /\ spec_bin Signed 64 Rem (- 2 ^ 63) (-1) = Ok 0.
Proof. intros m. destruct m; vm_compute; auto. Qed.

Lemma never_wraps_never_panics_refuted_neg_min :
  impl_neg Native Debug 8 (-128) = Panic /\ impl_neg Native Release 8 (-128) = Ok (-128) /\
  spec_neg 8 (-128) = Err.
Proof. vm_compute. auto. Qed.

Lemma never_wraps_never_panics_refuted_unsigned_sub :
  impl_bin Native Debug Unsigned 8 Sub 0 1 = Panic /\ impl_bin Native Release Unsigned 8 Sub 0 1 = Ok 255 /\
  spec_bin Unsigned 8 Sub 0 1 = Err.
Proof. vm_compute. auto. Qed.

(* Outside the known class the statement holds, for every style, mode, width, signedness, operator *)
Lemma never_wraps_never_panics_outside_class : forall st m sg w op a b, 0 < w ->
  ~ KnownClass_C12 sg w op a b -> impl_bin st m sg w op a b = spec_bin sg w op a b.
Proof.
  intros st m sg w op a b Hw Hk. unfold KnownClass_C12, unrepresentable_or_div0 in Hk.
  unfold spec_bin, spec_of. destruct (exact_bin op a b) as [x|] eqn:Hx; [|exfalso; apply Hk; left; exact I].
  destruct (in_range sg w x) eqn:Hr; [|exfalso; apply Hk; left; reflexivity].
  apply impl_exact_when_representable_partial; auto.
Qed.

Example outside_class_sat : ~ KnownClass_C12 Signed 8 Mul (-64) 2.
Proof.
  unfold KnownClass_C12, unrepresentable_or_div0, rem_min_neg1. cbn [exact_bin].
  intros [H|[H _]]; [vm_compute in H|]; discriminate H.
Qed.

(* Inside the class the Native operators NEVER meet the spec when the result is unrepresentable
   or undefined: Debug panics, Release returns a wrong (wrapped) value or panics. *)
Lemma native_deviates_inside_class : forall m sg w op a b, 0 < w ->
  in_range sg w a = true -> in_range sg w b = true ->
  unrepresentable_or_div0 sg w op a b -> impl_bin Native m sg w op a b <> spec_bin sg w op a b.
Proof.
  intros m sg w op a b Hw Ha Hb Hk. unfold unrepresentable_or_div0 in Hk.
  unfold spec_bin, spec_of. destruct (exact_bin op a b) as [x|] eqn:Hx.
  - rewrite Hk.
    destruct op; cbn [exact_bin impl_bin] in *.
    1-3: injection Hx as <-; unfold arith_result; destruct m; [rewrite Hk|]; discriminate.
    + destruct (b =? 0) eqn:Hb0; [discriminate|]. injection Hx as <-.
      destruct (div_fault sg w a b) eqn:Hf; [discriminate|].
      pose proof (quot_in_range sg w a b Hw Ha Hb Hf). congruence.
    + destruct (b =? 0) eqn:Hb0; [discriminate|]. injection Hx as <-.
      apply Z.eqb_neq in Hb0. pose proof (rem_in_range sg w a b Hw Ha Hb0). congruence.
  - destruct op; cbn [exact_bin impl_bin] in *; try discriminate.
    + destruct (b =? 0) eqn:Hb0; [|discriminate]. unfold div_fault. rewrite Hb0. discriminate.
    + destruct (b =? 0) eqn:Hb0; [|discriminate]. unfold div_fault. rewrite Hb0. discriminate.
Qed.

Example inside_class_sat :
  in_range Signed 8 127 = true /\ in_range Signed 8 1 = true /\ unrepresentable_or_div0 Signed 8 Add 127 1.
Proof. vm_compute. auto. Qed.

(* The checked implementation (the current source) meets the spec EVERYWHERE: every mode, width,
   signedness, operator and operand pair -- MIN % -1 included (rem_checked gives 0) *)
Lemma checked_style_meets_spec : forall m sg w op a b, 0 < w ->
  in_range sg w a = true -> in_range sg w b = true ->
  impl_bin Checked m sg w op a b = spec_bin sg w op a b.
Proof.
  intros m sg w op a b Hw Ha Hb. unfold spec_bin, spec_of.
  destruct op; cbn [exact_bin impl_bin arith_result]; try reflexivity.
  - destruct (b =? 0) eqn:Hb0; [unfold div_fault; rewrite Hb0; reflexivity|].
    destruct (div_fault sg w a b) eqn:Hf.
    + unfold div_fault in Hf. rewrite Hb0 in Hf. cbn [orb] in Hf. destruct sg; [|discriminate].
      apply andb_true_iff in Hf. destruct Hf as [H1 H2]. apply Z.eqb_eq in H1, H2. subst a b.
      pose proof (pow2_pos (w - 1) ltac:(lia)) as Hp.
      replace (-1) with (- (1)) by reflexivity. rewrite Z.quot_opp_r, Z.quot_1_r by lia.
      assert (Hr : in_range Signed w (- lo Signed w) = false).
      { apply in_range_false_iff. unfold lo, hi. lia. }
      rewrite Hr. reflexivity.
    + rewrite (quot_in_range sg w a b Hw Ha Hb Hf). reflexivity.
  - destruct (b =? 0) eqn:Hb0; [reflexivity|].
    apply Z.eqb_neq in Hb0. rewrite (rem_in_range sg w a b Hw Ha Hb0). reflexivity.
Qed.

Lemma checked_neg_meets_spec : forall m w a, impl_neg Checked m w a = spec_neg w a.
Proof. intros m w a. reflexivity. Qed.

Lemma checked_min_rem_neg1 : forall m w, 0 < w -> impl_bin Checked m Signed w Rem (lo Signed w) (-1) = Ok 0.
Proof.
  intros m w Hw. cbn [impl_bin]. change (-1 =? 0) with false. cbv iota.
  replace (-1) with (- (1)) by reflexivity. rewrite Z.rem_opp_r, Z.rem_1_r by lia. reflexivity.
Qed.

Example checked_style_sat : in_range Unsigned 16 65535 = true /\ in_range Unsigned 16 2 = true.
Proof. split; reflexivity. Qed.

(* the boolean class test used by the driver is the class *)
Lemma known_class_b_spec : forall sg w op a b, known_class_b sg w op a b = true <-> KnownClass_C12 sg w op a b.
Proof.
  intros sg w op a b. unfold known_class_b, KnownClass_C12, unrepresentable_or_div0, rem_min_neg1.
  rewrite orb_true_iff. split.
  - intros [H|H].
    + left. destruct (exact_bin op a b); [apply negb_true_iff in H; exact H|exact I].
    + right. destruct op; try discriminate. destruct sg; try discriminate.
      apply andb_true_iff in H. destruct H as [H1 H2]. apply Z.eqb_eq in H1, H2. auto.
  - intros [H|(Ho & Hs & Ha & Hb)].
    + left. destruct (exact_bin op a b); [rewrite H; reflexivity|reflexivity].
    + right. subst. rewrite !Z.eqb_refl. reflexivity.
Qed.

(* ------------------------------------------------------------ SUM *)
Fixpoint abs_total (xs : list Z) : Z := match xs with [] => 0 | x :: r => Z.abs x + abs_total r end.

Lemma abs_total_nonneg : forall xs, 0 <= abs_total xs.
Proof. induction xs as [|x r IH]; cbn [abs_total]; lia. Qed.

Lemma abs_total_app : forall xs ys, abs_total (xs ++ ys) = abs_total xs + abs_total ys.
Proof. induction xs as [|x r IH]; intros ys; cbn [abs_total app]; [lia|rewrite IH; lia]. Qed.

Lemma fold_add_shift : forall xs s, fold_left Z.add xs s = s + fold_left Z.add xs 0.
Proof.
  induction xs as [|x r IH]; intros s; cbn [fold_left]; [lia|].
  rewrite (IH (s + x)), (IH (0 + x)). lia.
Qed.

Lemma fold_add_abs : forall xs, Z.abs (fold_left Z.add xs 0) <= abs_total xs.
Proof.
  induction xs as [|x r IH]; cbn [fold_left abs_total]; [lia|].
  rewrite fold_add_shift. lia.
Qed.

Lemma all_empty_iff : forall parts, all_empty parts = true <-> concat parts = [].
Proof.
  unfold all_empty. induction parts as [|p r IH]; cbn [forallb concat]; [tauto|].
  destruct p as [|x p']; cbn [app andb]; [exact IH|split; discriminate].
Qed.

Lemma sum_step_err : forall w xs, fold_left (sum_step w) xs Err = Err.
Proof. intros w xs. induction xs as [|x r IH]; cbn [fold_left sum_step bind_out]; auto. Qed.

Lemma sum_merge_err : forall w ps, fold_left (sum_merge w) ps Err = Err.
Proof. intros w ps. induction ps as [|x r IH]; cbn [fold_left sum_merge bind_out]; auto. Qed.

(* a partition state is an error or the exact partial sum -- never anything else *)
Lemma sum_fold_cases : forall w xs s,
  fold_left (sum_step w) xs (Ok s) = Err \/ fold_left (sum_step w) xs (Ok s) = Ok (s + fold_left Z.add xs 0).
Proof.
  intros w xs. induction xs as [|x r IH]; intros s; cbn [fold_left].
  - right. f_equal. lia.
  - cbn [sum_step bind_out]. unfold chk. destruct (in_range Signed w (s + x)).
    + destruct (IH (s + x)) as [H|H]; [left; exact H|right]. rewrite H. f_equal.
      rewrite (fold_add_shift r (0 + x)). lia.
    + left. apply sum_step_err.
Qed.

Lemma sum_merge_cases : forall w ps s,
  fold_left (sum_merge w) (map (sum_fold w) ps) (Ok s) = Err \/
  fold_left (sum_merge w) (map (sum_fold w) ps) (Ok s) = Ok (s + fold_left Z.add (concat ps) 0).
Proof.
  intros w ps. induction ps as [|p r IH]; intros s; cbn [map fold_left concat].
  - right. f_equal. lia.
  - cbn [sum_merge bind_out].
    destruct (sum_fold_cases w p 0) as [H|H]; change (fold_left (sum_step w) p (Ok 0)) with (sum_fold w p) in H;
      rewrite H; cbn [bind_out].
    + left. apply sum_merge_err.
    + unfold chk. destruct (in_range Signed w (s + (0 + fold_left Z.add p 0))).
      * destruct (IH (s + (0 + fold_left Z.add p 0))) as [H2|H2]; [left; exact H2|right]. rewrite H2. f_equal.
        rewrite fold_left_app. rewrite (fold_add_shift (concat r) (fold_left Z.add p 0)). lia.
      * left. apply sum_merge_err.
Qed.

Lemma sum_merge_in_range : forall w ps s v, in_range Signed w s = true ->
  fold_left (sum_merge w) ps (Ok s) = Ok v -> in_range Signed w v = true.
Proof.
  intros w ps. induction ps as [|p r IH]; intros s v Hs H; cbn [fold_left] in H.
  - injection H as <-. exact Hs.
  - cbn [sum_merge bind_out] in H. destruct p as [t| |]; cbn [bind_out] in H.
    + unfold chk in H. destruct (in_range Signed w (s + t)) eqn:Hr.
      * apply (IH (s + t) v Hr H).
      * rewrite sum_merge_err in H. discriminate.
    + rewrite sum_merge_err in H. discriminate.
    + exfalso. clear - H. induction r as [|x r IHr]; cbn [fold_left sum_merge bind_out] in H; [discriminate|auto].
Qed.

(* ------------------------------------------------------------ sum_exact_or_error_never_wrong *)
(* For EVERY split of the rows into partitions (and every merge order: a reordering of `parts` is
   again some `parts`): SUM is an error, or exactly what the spec demands -- the exact total, which
   is then representable, or NULL when there are no rows.  It is never a wrong value, never a panic. *)
Lemma sum_exact_or_error_never_wrong : forall w parts, 0 < w ->
  sum_impl w parts = Err \/
  (sum_impl w parts = sum_spec w parts /\
   sum_impl w parts = Ok (if all_empty parts then None else Some (sum_exact parts))).
Proof.
  intros w parts Hw. unfold sum_impl, sum_spec.
  destruct (sum_merge_cases w parts 0) as [H|H]; rewrite H; cbn [bind_out]; [left; reflexivity|right].
  pose proof (pow2_pos (w - 1) ltac:(lia)) as Hp.
  assert (H0 : in_range Signed w 0 = true) by (apply in_range_iff; unfold lo, hi; lia).
  pose proof (sum_merge_in_range w _ 0 _ H0 H) as Hr.
  replace (0 + fold_left Z.add (concat parts) 0) with (sum_exact parts) in * by (unfold sum_exact; lia).
  destruct (all_empty parts); [split; reflexivity|]. rewrite Hr. split; reflexivity.
Qed.

(* an unrepresentable total is always an error *)
Lemma sum_unrepresentable_is_error : forall w parts, 0 < w -> sum_spec w parts = Err -> sum_impl w parts = Err.
Proof.
  intros w parts Hw Hs. destruct (sum_exact_or_error_never_wrong w parts Hw) as [H|[H _]]; [exact H|congruence].
Qed.

Lemma sum_fold_exact_from : forall w xs s, 0 < w -> Z.abs s + abs_total xs <= hi Signed w ->
  fold_left (sum_step w) xs (Ok s) = Ok (s + fold_left Z.add xs 0).
Proof.
  intros w xs. induction xs as [|x r IH]; intros s Hw Hb; cbn [fold_left abs_total] in *; [f_equal; lia|].
  pose proof (abs_total_nonneg r) as Hr.
  pose proof (pow2_pos (w - 1) ltac:(lia)) as Hp.
  assert (Hin : in_range Signed w (s + x) = true).
  { apply in_range_iff. unfold lo, hi in *. lia. }
  cbn [sum_step bind_out]. unfold chk. rewrite Hin. rewrite IH by (try assumption; lia).
  f_equal. rewrite (fold_add_shift r (0 + x)). lia.
Qed.

(* if the absolute values add up to at most MAX, no split into partitions can make SUM fail *)
Lemma sum_exact_when_no_overflow_possible : forall w parts, 0 < w ->
  abs_total (concat parts) <= hi Signed w ->
  sum_impl w parts = Ok (if all_empty parts then None else Some (sum_exact parts)).
Proof.
  intros w parts Hw Hb. unfold sum_impl, sum_exact.
  assert (Hgen : forall ps s, Z.abs s + abs_total (concat ps) <= hi Signed w ->
            fold_left (sum_merge w) (map (sum_fold w) ps) (Ok s) = Ok (s + fold_left Z.add (concat ps) 0)).
  { induction ps as [|p r IH]; intros s Hs; cbn [map fold_left concat] in *; [f_equal; lia|].
    rewrite abs_total_app in Hs.
    pose proof (abs_total_nonneg p) as Hp0. pose proof (abs_total_nonneg (concat r)) as Hr0.
    assert (Hp : sum_fold w p = Ok (fold_left Z.add p 0)).
    { unfold sum_fold. rewrite sum_fold_exact_from by (try assumption; cbn [Z.abs]; lia). f_equal. }
    pose proof (fold_add_abs p) as Hpa.
    pose proof (pow2_pos (w - 1) ltac:(lia)) as Hpw.
    assert (Hin : in_range Signed w (s + fold_left Z.add p 0) = true).
    { apply in_range_iff. unfold lo, hi in *. lia. }
    cbn [sum_merge bind_out]. rewrite Hp. cbn [bind_out]. unfold chk. rewrite Hin. rewrite IH by lia.
    f_equal. rewrite fold_left_app. rewrite (fold_add_shift (concat r) (fold_left Z.add p 0)). lia. }
  rewrite Hgen by (cbn [Z.abs]; lia). cbn [bind_out]. do 3 f_equal.
Qed.

Example sum_no_overflow_sat : abs_total (concat [[1; -2]; [3]]) <= hi Signed 64.
Proof. vm_compute. discriminate. Qed.

(* hence: an error is only possible when some order of additions could overflow *)
Lemma sum_error_only_when_overflow_possible : forall w parts, 0 < w ->
  sum_impl w parts = Err -> hi Signed w < abs_total (concat parts).
Proof.
  intros w parts Hw He. destruct (Z_le_gt_dec (abs_total (concat parts)) (hi Signed w)) as [Hle|Hgt]; [|lia].
  rewrite (sum_exact_when_no_overflow_possible w parts Hw Hle) in He. discriminate.
Qed.

(* The strict reading of the property (an error ONLY when the total is unrepresentable),
     forall parts, sum_impl 64 parts = sum_spec 64 parts,
   is refuted: an intermediate overflow fails the statement although the total is representable;
   whether it does depends on the order of the rows and on the split into partitions. *)
Lemma sum_error_though_total_representable :
  sum_impl 64 [[2 ^ 63 - 1; 1; -1]] = Err /\ sum_spec 64 [[2 ^ 63 - 1; 1; -1]] = Ok (Some (2 ^ 63 - 1)) /\
  sum_impl 64 [[2 ^ 63 - 1; -1]; [1]] = Ok (Some (2 ^ 63 - 1)) /\
  sum_impl 64 [[2 ^ 63 - 1; -1; 1]] = Ok (Some (2 ^ 63 - 1)).
Proof. vm_compute. auto. Qed.

(* the inputs that used to give wrong values (reset to 0) now fail *)
Lemma sum_overflow_is_error_now :
  sum_impl 64 [[2 ^ 63 - 1; 1; 5]] = Err /\ sum_spec 64 [[2 ^ 63 - 1; 1; 5]] = Err /\
  sum_impl 64 [[2 ^ 63 - 1]; [1; 5]] = Err /\ sum_impl 64 [[1; 5]; [2 ^ 63 - 1]] = Err.
Proof. vm_compute. auto. Qed.

(* AVG(bigint): the i128 accumulator cannot overflow for fewer than 2^64 rows *)
Lemma avg_acc_no_overflow : forall xs, Forall (fun x => in_range Signed 64 x = true) xs ->
  Z.of_nat (length xs) <= 2 ^ 64 ->
  forall pre, (exists suf, xs = pre ++ suf) -> in_range Signed 128 (fold_left Z.add pre 0) = true.
Proof.
  intros xs Hall Hlen pre [suf ->].
  assert (Hb : Z.abs (fold_left Z.add pre 0) <= Z.of_nat (length pre) * 2 ^ 63).
  { apply Forall_app in Hall. destruct Hall as [Hp _]. clear Hlen suf.
    induction pre as [|x r IH] using rev_ind; [cbn; lia|].
    apply Forall_app in Hp. destruct Hp as [Hr Hx]. inversion Hx as [|? ? Hx1 _]; subst.
    apply in_range_iff in Hx1. unfold lo, hi in Hx1.
    rewrite fold_left_app. cbn [fold_left]. rewrite app_length. cbn [length].
    specialize (IH Hr). rewrite Nat2Z.inj_add. change (Z.of_nat 1) with 1. lia. }
  rewrite app_length, Nat2Z.inj_add in Hlen.
  apply in_range_iff. unfold lo, hi.
  change (2 ^ (128 - 1)) with (2 ^ 64 * 2 ^ 63).
  assert (0 <= Z.of_nat (length suf)) by lia.
  assert (Z.of_nat (length pre) <= 2 ^ 64) by lia.
  assert (Hm : Z.of_nat (length pre) * 2 ^ 63 <= 2 ^ 64 * 2 ^ 63) by (apply Z.mul_le_mono_nonneg_r; lia).
  (* the bound is not strict at the top: -2^127 itself is representable, 2^127 is not; we need
     |sum| < 2^127 on the positive side: each x <= 2^63 - 1 *)
  assert (Hub : fold_left Z.add pre 0 <= Z.of_nat (length pre) * (2 ^ 63 - 1)).
  { apply Forall_app in Hall. destruct Hall as [Hp _]. clear - Hp.
    induction pre as [|x r IH] using rev_ind; [cbn; lia|].
    apply Forall_app in Hp. destruct Hp as [Hr Hx]. inversion Hx as [|? ? Hx1 _]; subst.
    apply in_range_iff in Hx1. unfold lo, hi in Hx1.
    rewrite fold_left_app. cbn [fold_left]. rewrite app_length. cbn [length].
    specialize (IH Hr). rewrite Nat2Z.inj_add. change (Z.of_nat 1) with 1. lia. }
  lia.
Qed.

Example avg_acc_sat : Forall (fun x => in_range Signed 64 x = true) [2 ^ 63 - 1; - 2 ^ 63] /\
  Z.of_nat (length [2 ^ 63 - 1; - 2 ^ 63]) <= 2 ^ 64.
Proof. split; [repeat constructor|vm_compute; discriminate]. Qed.
