(* Proofs for model/AggFn.v: every aggregate state machine is a homomorphism from "lists of non-NULL rows
   under ++" to "states under merge".  Method: an abstraction function alpha : list X -> S with
       alpha [] = init,  update (alpha xs) x = Ok (alpha (xs ++ [x])),
       merge (alpha xs) (alpha ys) = Ok (alpha (xs ++ ys)),  final (alpha xs) = spec xs,
   (and alpha invariant under permutations for the commutative functions); everything else is generic. *)
From Coq Require Import ZArith QArith Qreduction Qfield List Bool Lia Lqa Permutation.
From GV Require Import model.AggFn.
Import ListNotations.
Open Scope Z_scope.

(* ---------------------------------------------------------------- generic part *)
Lemma nn_app {X} (a b : list (option X)) : nn (a ++ b) = nn a ++ nn b.
Proof.
  induction a as [|[x|] a IH]; cbn [nn app]; [reflexivity| |]; rewrite IH; reflexivity.
Qed.

Lemma foldM_stuck {A B} (g : A -> B -> outcome A) (l : list B) (o : outcome A) :
  (forall a, o <> Ok a) -> fold_left (fun acc x => do s <- acc; g s x) l o = o.
Proof.
  intros Ho. induction l as [|x l IH]; cbn [fold_left]; [reflexivity|].
  destruct o as [a| | |]; cbn [bind]; try exact IH. exfalso; apply (Ho a); reflexivity.
Qed.

Lemma foldM_app {A B} (g : A -> B -> outcome A) (l1 l2 : list B) (a : A) :
  foldM g (l1 ++ l2) a = (do s <- foldM g l1 a; foldM g l2 s).
Proof.
  unfold foldM. rewrite fold_left_app.
  destruct (fold_left (fun acc x => do s <- acc; g s x) l1 (Ok a)) as [s| | |] eqn:E; cbn [bind];
    try reflexivity; apply foldM_stuck; discriminate.
Qed.

Section Total.
  Context {X S O : Type} (f : agg X S O) (alpha : list X -> S) (spec : list X -> O) (eqO : O -> O -> Prop).
  Hypothesis Hi : alpha [] = a_init f.
  Hypothesis Hu : forall xs x, a_update f (alpha xs) x = Ok (alpha (xs ++ [x])).
  Hypothesis Hm : forall xs ys, a_merge f (alpha xs) (alpha ys) = Ok (alpha (xs ++ ys)).
  Hypothesis Hf : forall xs, eqO (a_final f (alpha xs)) (spec xs).

  Lemma foldM_alpha : forall l xs, foldM (feed f) l (alpha xs) = Ok (alpha (xs ++ nn l)).
  Proof.
    induction l as [|[x|] l IH]; intros xs; cbn [nn].
    - rewrite app_nil_r. reflexivity.
    - change (Some x :: l) with ([Some x] ++ l). rewrite foldM_app.
      unfold foldM at 1. cbn [fold_left bind feed]. rewrite Hu. cbn [bind].
      rewrite IH, <- app_assoc. reflexivity.
    - change (None :: l) with ([None] ++ l). rewrite foldM_app.
      unfold foldM at 1. cbn [fold_left bind feed]. apply IH.
  Qed.

  Lemma chunk_alpha l : run_chunk f l = Ok (alpha (nn l)).
  Proof. unfold run_chunk. rewrite <- Hi, foldM_alpha. reflexivity. Qed.

  Lemma tree_alpha t : run_tree f t = Ok (alpha (nn (flatten t))).
  Proof.
    induction t as [xs|l IHl r IHr|t IH xs]; cbn [run_tree flatten].
    - apply chunk_alpha.
    - rewrite IHl, IHr. cbn [bind]. rewrite Hm, nn_app. reflexivity.
    - rewrite IH. cbn [bind]. rewrite foldM_alpha, nn_app. reflexivity.
  Qed.

  Lemma T_fold_correct : fold_correct f spec eqO.
  Proof. intros xs. exists (alpha (nn xs)). split; [apply chunk_alpha|apply Hf]. Qed.

  Lemma T_order_split_invariant : order_split_invariant f.
  Proof. intros t xs E. rewrite tree_alpha, chunk_alpha, E. reflexivity. Qed.

  Lemma T_merge_homomorphism : merge_homomorphism f.
  Proof.
    intros xs ys. rewrite !chunk_alpha. cbn [bind]. rewrite Hm, nn_app. reflexivity.
  Qed.

  Lemma T_empty_neutral : empty_neutral f.
  Proof.
    intros t s E. rewrite tree_alpha in E. injection E as <-. rewrite <- Hi. split.
    - rewrite Hm, app_nil_r. reflexivity.
    - rewrite Hm. reflexivity.
  Qed.

  Lemma T_total : total f.
  Proof. intros t. eexists. apply tree_alpha. Qed.

  Lemma T_never_wrong : never_wrong f spec eqO.
  Proof. intros t s E. rewrite tree_alpha in E. injection E as <-. apply Hf. Qed.

  Lemma T_all_ordered :
    fold_correct f spec eqO /\ order_split_invariant f /\ merge_homomorphism f /\ empty_neutral f /\ total f.
  Proof.
    split; [exact T_fold_correct|]. split; [exact T_order_split_invariant|].
    split; [exact T_merge_homomorphism|]. split; [exact T_empty_neutral|exact T_total].
  Qed.

  Hypothesis Hp : forall xs ys, Permutation xs ys -> alpha xs = alpha ys.

  Lemma T_split_invariant : split_invariant f.
  Proof. intros t xs P. rewrite tree_alpha, chunk_alpha, (Hp _ _ P). reflexivity. Qed.

  Lemma T_all :
    fold_correct f spec eqO /\ split_invariant f /\ merge_homomorphism f /\ empty_neutral f /\ total f.
  Proof.
    split; [exact T_fold_correct|]. split; [exact T_split_invariant|].
    split; [exact T_merge_homomorphism|]. split; [exact T_empty_neutral|exact T_total].
  Qed.
End Total.

(* accumulators that can fail *)
Section Partial.
  Context {X S O : Type} (f : agg X S O) (alpha : list X -> S) (spec : list X -> O) (eqO : O -> O -> Prop).
  Hypothesis Hi : alpha [] = a_init f.
  Hypothesis Hu : forall xs x s, a_update f (alpha xs) x = Ok s -> s = alpha (xs ++ [x]).
  Hypothesis Hm : forall xs ys s, a_merge f (alpha xs) (alpha ys) = Ok s -> s = alpha (xs ++ ys).
  Hypothesis Hf : forall xs, eqO (a_final f (alpha xs)) (spec xs).

  Lemma bind_ok {A B} (o : outcome A) (k : A -> outcome B) b :
    (do x <- o; k x) = Ok b -> exists a, o = Ok a /\ k a = Ok b.
  Proof. destruct o as [a| | |]; cbn [bind]; try discriminate. intros E. exists a. split; [reflexivity|exact E]. Qed.

  Lemma foldM_alpha_p : forall l xs s, foldM (feed f) l (alpha xs) = Ok s -> s = alpha (xs ++ nn l).
  Proof.
    induction l as [|[x|] l IH]; intros xs s; cbn [nn].
    - unfold foldM; cbn [fold_left]. intros E; injection E as <-. rewrite app_nil_r. reflexivity.
    - change (Some x :: l) with ([Some x] ++ l). rewrite foldM_app.
      unfold foldM at 1. cbn [fold_left bind feed]. intros E.
      apply bind_ok in E. destruct E as [a [E1 E2]]. apply Hu in E1. subst a.
      apply IH in E2. rewrite <- app_assoc in E2. exact E2.
    - change (None :: l) with ([None] ++ l). rewrite foldM_app.
      unfold foldM at 1. cbn [fold_left bind feed]. apply IH.
  Qed.

  Lemma tree_alpha_p t : forall s, run_tree f t = Ok s -> s = alpha (nn (flatten t)).
  Proof.
    induction t as [xs|l IHl r IHr|t IH xs]; cbn [run_tree flatten]; intros s E.
    - unfold run_chunk in E. rewrite <- Hi in E. apply foldM_alpha_p in E. exact E.
    - apply bind_ok in E. destruct E as [a [Ea E]]. apply bind_ok in E. destruct E as [b [Eb E]].
      rewrite (IHl _ Ea), (IHr _ Eb) in E. apply Hm in E. rewrite nn_app. exact E.
    - apply bind_ok in E. destruct E as [a [Ea E]]. rewrite (IH _ Ea) in E.
      apply foldM_alpha_p in E. rewrite nn_app. exact E.
  Qed.

  Lemma P_never_wrong : never_wrong f spec eqO.
  Proof. intros t s E. rewrite (tree_alpha_p _ _ E). apply Hf. Qed.

  Hypothesis Hp : forall xs ys, Permutation xs ys -> alpha xs = alpha ys.

  Lemma P_state_determined : state_determined f.
  Proof.
    intros t t' s s' P E E'. rewrite (tree_alpha_p _ _ E), (tree_alpha_p _ _ E'). apply Hp, P.
  Qed.
End Partial.

(* ---------------------------------------------------------------- small list facts *)
Definition nonempty {A} (l : list A) : bool := match l with [] => false | _ => true end.

Lemma nonempty_app {A} (a b : list A) : nonempty (a ++ b) = nonempty a || nonempty b.
Proof. destruct a; reflexivity. Qed.

Lemma nonempty_perm {A} (a b : list A) : Permutation a b -> nonempty a = nonempty b.
Proof.
  intros P. destruct a as [|x a], b as [|y b]; try reflexivity.
  - apply Permutation_nil in P. discriminate.
  - apply Permutation_sym, Permutation_nil in P. discriminate.
Qed.

Lemma zlen_app {A} (a b : list A) : zlen (a ++ b) = zlen a + zlen b.
Proof. unfold zlen. rewrite app_length. lia. Qed.

Lemma zlen_perm {A} (a b : list A) : Permutation a b -> zlen a = zlen b.
Proof. intros P. unfold zlen. rewrite (Permutation_length P). reflexivity. Qed.

Lemma zlen_nonneg {A} (a : list A) : 0 <= zlen a.
Proof. unfold zlen. lia. Qed.

Lemma zlen_pos {A} (x : A) (a : list A) : 0 < zlen (x :: a).
Proof. unfold zlen. cbn [length]. lia. Qed.

Lemma zsum_app a b : zsum (a ++ b) = zsum a + zsum b.
Proof. unfold zsum. induction a as [|x a IH]; cbn [app fold_right]; [reflexivity|]. rewrite IH. lia. Qed.

Lemma zsum_perm a b : Permutation a b -> zsum a = zsum b.
Proof.
  induction 1 as [|x a b P IH|x y a|a b c P1 IH1 P2 IH2]; unfold zsum in *; cbn [fold_right]; lia.
Qed.

(* ================================================================ count, regr_count *)
Section Count.
  Context {X : Type}.
  Definition al_count (xs : list X) : Z := zlen xs.

  Lemma count_i : al_count [] = a_init (@count_agg X). Proof. reflexivity. Qed.
  Lemma count_u xs x : a_update (@count_agg X) (al_count xs) x = Ok (al_count (xs ++ [x])).
  Proof. cbn. unfold al_count. rewrite zlen_app. reflexivity. Qed.
  Lemma count_m xs ys : a_merge (@count_agg X) (al_count xs) (al_count ys) = Ok (al_count (xs ++ ys)).
  Proof. cbn. unfold al_count. rewrite zlen_app. reflexivity. Qed.
  Lemma count_f xs : a_final (@count_agg X) (al_count xs) = spec_count xs. Proof. reflexivity. Qed.
  Lemma count_p xs ys : Permutation xs ys -> al_count xs = al_count ys. Proof. apply zlen_perm. Qed.

  Lemma count_homomorphism :
    fold_correct (@count_agg X) spec_count eq /\ split_invariant (@count_agg X) /\
    merge_homomorphism (@count_agg X) /\ empty_neutral (@count_agg X) /\ total (@count_agg X).
  Proof. exact (T_all _ _ _ _ count_i count_u count_m count_f count_p). Qed.
End Count.

(* ================================================================ sum (checked accumulator) *)
Definition al_sum (xs : list Z) : Z * bool := (zsum xs, nonempty xs).

Lemma zsum_snoc xs x : zsum (xs ++ [x]) = zsum xs + x.
Proof. rewrite zsum_app. unfold zsum; cbn [fold_right]. lia. Qed.

Lemma sum_i w : al_sum [] = a_init (sum_chk w). Proof. reflexivity. Qed.
Lemma sum_u w xs x s : a_update (sum_chk w) (al_sum xs) x = Ok s -> s = al_sum (xs ++ [x]).
Proof.
  cbn. destruct (in_i w (zsum xs + x)); [|discriminate]. intros E; injection E as <-.
  unfold al_sum. rewrite zsum_snoc, nonempty_app. cbn [nonempty]. rewrite orb_true_r. reflexivity.
Qed.
Lemma sum_m w xs ys s : a_merge (sum_chk w) (al_sum xs) (al_sum ys) = Ok s -> s = al_sum (xs ++ ys).
Proof.
  cbn. destruct (in_i w (zsum xs + zsum ys)); [|discriminate]. intros E; injection E as <-.
  unfold al_sum. rewrite zsum_app, nonempty_app. reflexivity.
Qed.
Lemma sum_f_ w xs : a_final (sum_chk w) (al_sum xs) = spec_sum xs.
Proof. destruct xs; reflexivity. Qed.
Lemma sum_p xs ys : Permutation xs ys -> al_sum xs = al_sum ys.
Proof. intros P. unfold al_sum. rewrite (zsum_perm _ _ P), (nonempty_perm _ _ P). reflexivity. Qed.

Lemma sum_never_wrong w : never_wrong (sum_chk w) spec_sum eq /\ state_determined (sum_chk w).
Proof.
  split.
  - exact (P_never_wrong _ _ _ _ (sum_i w) (sum_u w) (sum_m w) (sum_f_ w)).
  - exact (P_state_determined _ _ (sum_i w) (sum_u w) (sum_m w) sum_p).
Qed.

Lemma spec_sum_perm xs ys : Permutation xs ys -> spec_sum xs = spec_sum ys.
Proof.
  intros P. rewrite <- (sum_f_ 64 xs), <- (sum_f_ 64 ys), (sum_p _ _ P). reflexivity.
Qed.

Definition abs_sum (xs : list Z) : Z := zsum (map Z.abs xs).

Lemma abs_sum_app a b : abs_sum (a ++ b) = abs_sum a + abs_sum b.
Proof. unfold abs_sum. rewrite map_app, zsum_app. reflexivity. Qed.
Lemma abs_sum_nonneg a : 0 <= abs_sum a.
Proof. unfold abs_sum, zsum. induction a as [|x a IH]; cbn [map fold_right]; lia. Qed.
Lemma zsum_le_abs a : Z.abs (zsum a) <= abs_sum a.
Proof. unfold abs_sum, zsum. induction a as [|x a IH]; cbn [map fold_right]; lia. Qed.

Lemma in_i_bounded w z : Z.abs z < 2 ^ (w - 1) -> in_i w z = true.
Proof. intros H. unfold in_i. apply andb_true_iff. split; [apply Z.leb_le|apply Z.ltb_lt]; lia. Qed.

(* accumulators whose only failure is the range check of the running total *)
Section Guarded.
  Context {S O : Type} (f : agg Z S O) (alpha : list Z -> S) (w : Z).
  Hypothesis Hi : alpha [] = a_init f.
  Hypothesis Gu : forall xs x, in_i w (zsum xs + x) = true -> a_update f (alpha xs) x = Ok (alpha (xs ++ [x])).
  Hypothesis Gm : forall xs ys, in_i w (zsum xs + zsum ys) = true ->
                    a_merge f (alpha xs) (alpha ys) = Ok (alpha (xs ++ ys)).

  Lemma foldM_bounded : forall l xs,
    abs_sum (xs ++ nn l) < 2 ^ (w - 1) -> foldM (feed f) l (alpha xs) = Ok (alpha (xs ++ nn l)).
  Proof.
    induction l as [|[x|] l IH]; intros xs B; cbn [nn] in *.
    - rewrite app_nil_r. reflexivity.
    - change (Some x :: l) with ([Some x] ++ l). rewrite foldM_app.
      unfold foldM at 1. cbn [fold_left bind feed].
      rewrite Gu.
      + cbn [bind]. rewrite IH; rewrite <- app_assoc; [reflexivity|exact B].
      + apply in_i_bounded. rewrite <- zsum_snoc. pose proof (zsum_le_abs (xs ++ [x])) as H1.
        change (x :: nn l) with ([x] ++ nn l) in B. rewrite app_assoc, abs_sum_app in B.
        pose proof (abs_sum_nonneg (nn l)). lia.
    - change (None :: l) with ([None] ++ l). rewrite foldM_app.
      unfold foldM at 1. cbn [fold_left bind feed]. apply IH, B.
  Qed.

  Lemma tree_bounded : forall t,
    abs_sum (nn (flatten t)) < 2 ^ (w - 1) -> run_tree f t = Ok (alpha (nn (flatten t))).
  Proof.
    induction t as [xs|l IHl r IHr|t IH xs]; cbn [run_tree flatten]; intros B.
    - unfold run_chunk. rewrite <- Hi. apply (foldM_bounded xs []), B.
    - rewrite nn_app, abs_sum_app in B.
      pose proof (abs_sum_nonneg (nn (flatten l))). pose proof (abs_sum_nonneg (nn (flatten r))).
      rewrite IHl, IHr by lia. cbn [bind]. rewrite Gm, nn_app; [reflexivity|].
      apply in_i_bounded.
      pose proof (zsum_le_abs (nn (flatten l))). pose proof (zsum_le_abs (nn (flatten r))). lia.
    - rewrite nn_app in B. pose proof B as B'. rewrite abs_sum_app in B'.
      pose proof (abs_sum_nonneg (nn xs)).
      rewrite IH by lia. cbn [bind]. rewrite nn_app. apply foldM_bounded, B.
  Qed.
End Guarded.

Lemma sum_gu w xs x : in_i w (zsum xs + x) = true -> a_update (sum_chk w) (al_sum xs) x = Ok (al_sum (xs ++ [x])).
Proof.
  intros E. cbn. rewrite E. unfold al_sum. rewrite zsum_snoc, nonempty_app. cbn [nonempty].
  rewrite orb_true_r. reflexivity.
Qed.
Lemma sum_gm w xs ys : in_i w (zsum xs + zsum ys) = true ->
  a_merge (sum_chk w) (al_sum xs) (al_sum ys) = Ok (al_sum (xs ++ ys)).
Proof. intros E. cbn. rewrite E. unfold al_sum. rewrite zsum_app, nonempty_app. reflexivity. Qed.

Lemma sum_tree_bounded w : forall t,
  abs_sum (nn (flatten t)) < 2 ^ (w - 1) -> run_tree (sum_chk w) t = Ok (al_sum (nn (flatten t))).
Proof. exact (tree_bounded (sum_chk w) al_sum w (sum_i w) (sum_gu w) (sum_gm w)). Qed.

(* when the absolute values add up to less than the accumulator's range every plan succeeds and is exact *)
Lemma sum_total_when_bounded w : forall t xs,
  Permutation (nn (flatten t)) (nn xs) -> abs_sum (nn xs) < 2 ^ (w - 1) ->
  run_tree (sum_chk w) t = run_chunk (sum_chk w) xs /\
  result_tree (sum_chk w) t = Ok (spec_sum (nn xs)).
Proof.
  intros t xs P B.
  assert (B' : abs_sum (nn (flatten t)) < 2 ^ (w - 1)).
  { unfold abs_sum. rewrite (zsum_perm _ (map Z.abs (nn xs))); [exact B|]. apply Permutation_map, P. }
  assert (E : run_tree (sum_chk w) t = Ok (al_sum (nn xs))).
  { rewrite (sum_tree_bounded w t B'), (sum_p _ _ P). reflexivity. }
  split.
  - rewrite E. symmetry. exact (sum_tree_bounded w (Leaf xs) B).
  - unfold result_tree. rewrite E. cbn [bind]. rewrite sum_f_. reflexivity.
Qed.

(* the outcome is a value or the error "Sum overflowed", never a panic *)
Definition ok_or_err {A} (o : outcome A) : Prop := match o with Ok _ | Err => True | _ => False end.

Lemma sum_foldM_class w : forall l s, ok_or_err (foldM (feed (sum_chk w)) l s).
Proof.
  induction l as [|[x|] l IH]; intros s.
  - exact I.
  - change (Some x :: l) with ([Some x] ++ l). rewrite foldM_app.
    unfold foldM at 1. cbn [fold_left bind feed].
    destruct s as [sum valid]. cbn [a_update sum_chk].
    destruct (in_i w (sum + x)); cbn [bind]; [apply IH|exact I].
  - change (None :: l) with ([None] ++ l). rewrite foldM_app.
    unfold foldM at 1. cbn [fold_left bind feed]. apply IH.
Qed.

Lemma sum_tree_class w : forall t, ok_or_err (run_tree (sum_chk w) t).
Proof.
  induction t as [xs|l IHl r IHr|t IH xs]; cbn [run_tree].
  - apply sum_foldM_class.
  - destruct (run_tree (sum_chk w) l) as [a| | |]; cbn [bind]; try exact IHl.
    destruct (run_tree (sum_chk w) r) as [b| | |]; cbn [bind]; try exact IHr.
    destruct a as [s1 v1], b as [s2 v2]. cbn [a_merge sum_chk].
    destruct (in_i w (s1 + s2)); exact I.
  - destruct (run_tree (sum_chk w) t) as [a| | |]; cbn [bind]; try exact IH. apply sum_foldM_class.
Qed.

Lemma sum_outcome_class w : forall t,
  (exists s, run_tree (sum_chk w) t = Ok s) \/ run_tree (sum_chk w) t = Err.
Proof.
  intros t. pose proof (sum_tree_class w t) as H.
  destruct (run_tree (sum_chk w) t) as [a| | |]; cbn in H; try contradiction;
    [left; exists a; reflexivity|right; reflexivity].
Qed.

(* the faithful model is NOT split invariant: whether a representable total is returned or the query fails
   depends on the plan and on the order of the rows (C07_sum_order_changes_error shows the same for
   AggState.v; finding sum-error-on-intermediate-overflow) *)
Lemma sum_split_invariant_refuted :
  exists t xs, Permutation (nn (flatten t)) (nn xs) /\
    run_tree (sum_chk 64) t = Ok (2 ^ 63 - 1, true) /\ run_chunk (sum_chk 64) xs = Err.
Proof.
  exists (Node (Leaf [Some (2 ^ 63 - 1)]) (Leaf [Some 1; Some (-1)])).
  exists [Some (2 ^ 63 - 1); Some 1; Some (-1)].
  split; [apply Permutation_refl|]. split; vm_compute; reflexivity.
Qed.

(* ================================================================ semigroup accumulators with a valid flag:
   min, max, bit_and, bit_or *)
Section Semigroup.
  Variable op : Z -> Z -> Z.
  Hypothesis op_assoc : forall a b c, op (op a b) c = op a (op b c).
  Hypothesis op_comm : forall a b, op a b = op b a.

  Definition al_sg (xs : list Z) : Z * bool :=
    match xs with [] => (0, false) | x :: r => (fold_left op r x, true) end.

  Lemma fold_op_shift : forall r x y, fold_left op r (op x y) = op x (fold_left op r y).
  Proof.
    induction r as [|z r IH]; intros x y; cbn [fold_left]; [reflexivity|].
    rewrite op_assoc. apply IH.
  Qed.

  Lemma fold_op_app r x y r' :
    fold_left op (r ++ y :: r') x = op (fold_left op r x) (fold_left op r' y).
  Proof.
    rewrite fold_left_app. cbn [fold_left]. apply fold_op_shift.
  Qed.

  Lemma fold_op_perm : forall l l', Permutation l l' -> forall a, fold_left op l a = fold_left op l' a.
  Proof.
    induction 1 as [|x l l' P IH|x y l|l l' l'' P1 IH1 P2 IH2]; intros a; cbn [fold_left].
    - reflexivity.
    - apply IH.
    - f_equal. rewrite !op_assoc. f_equal. apply op_comm.
    - rewrite IH1. apply IH2.
  Qed.

  Lemma al_sg_perm xs ys : Permutation xs ys -> al_sg xs = al_sg ys.
  Proof.
    intros P. destruct xs as [|x r], ys as [|y r']; cbn [al_sg].
    - reflexivity.
    - apply Permutation_nil in P. discriminate.
    - apply Permutation_sym, Permutation_nil in P. discriminate.
    - f_equal. revert x r y r' P.
      assert (G : forall l l', Permutation l l' -> forall x r y r', l = x :: r -> l' = y :: r' ->
                   fold_left op r x = fold_left op r' y).
      { induction 1 as [|z l l' P IH|z1 z2 l|l l' l'' P1 IH1 P2 IH2]; intros x r y r' E1 E2.
        - discriminate.
        - inversion E1; inversion E2; subst. apply fold_op_perm, P.
        - inversion E1; inversion E2; subst. cbn [fold_left]. rewrite op_comm. reflexivity.
        - destruct l' as [|z l'].
          + subst l. apply Permutation_sym, Permutation_nil in P1. discriminate.
          + rewrite (IH1 x r z l' E1 eq_refl). apply (IH2 z l' y r' eq_refl E2). }
      intros x r y r' P. exact (G _ _ P x r y r' eq_refl eq_refl).
  Qed.
End Semigroup.

(* the two source shapes *)
Lemma ext_sg (better : Z -> Z -> bool) (pick : Z -> Z -> Z) :
  (forall x m, (if better x m then x else m) = pick m x) ->
  (forall a b c, pick (pick a b) c = pick a (pick b c)) -> (forall a b, pick a b = pick b a) ->
  al_sg pick [] = a_init (ext_agg better) /\
  (forall xs x, a_update (ext_agg better) (al_sg pick xs) x = Ok (al_sg pick (xs ++ [x]))) /\
  (forall xs ys, a_merge (ext_agg better) (al_sg pick xs) (al_sg pick ys) = Ok (al_sg pick (xs ++ ys))) /\
  (forall xs, a_final (ext_agg better) (al_sg pick xs) = spec_ext pick xs).
Proof.
  intros Hb Ha Hc. split; [reflexivity|]. split; [|split].
  - intros [|y r] x; cbn; [reflexivity|].
    rewrite fold_left_app. cbn [fold_left]. rewrite <- Hb.
    destruct (better x (fold_left pick r y)); reflexivity.
  - intros [|x r] [|y r']; cbn; try reflexivity.
    + rewrite app_nil_r. reflexivity.
    + rewrite (fold_op_app pick Ha). rewrite <- Hb.
      destruct (better (fold_left pick r' y) (fold_left pick r x)); reflexivity.
  - intros [|x r]; reflexivity.
Qed.

Lemma min_pick x m : (if m >? x then x else m) = Z.min m x.
Proof. destruct (Z.gtb_spec m x); lia. Qed.
Lemma max_pick x m : (if m <? x then x else m) = Z.max m x.
Proof. destruct (Z.ltb_spec m x); lia. Qed.
Lemma min_assoc a b c : Z.min (Z.min a b) c = Z.min a (Z.min b c). Proof. lia. Qed.
Lemma max_assoc a b c : Z.max (Z.max a b) c = Z.max a (Z.max b c). Proof. lia. Qed.

Lemma min_homomorphism :
  fold_correct min_agg spec_min eq /\ split_invariant min_agg /\ merge_homomorphism min_agg /\
  empty_neutral min_agg /\ total min_agg.
Proof.
  destruct (ext_sg (fun x m => m >? x) Z.min min_pick min_assoc Z.min_comm) as [Hi [Hu [Hm Hf]]].
  exact (T_all _ _ _ _ Hi Hu Hm Hf (al_sg_perm Z.min min_assoc Z.min_comm)).
Qed.

Lemma max_homomorphism :
  fold_correct max_agg spec_max eq /\ split_invariant max_agg /\ merge_homomorphism max_agg /\
  empty_neutral max_agg /\ total max_agg.
Proof.
  destruct (ext_sg (fun x m => m <? x) Z.max max_pick max_assoc Z.max_comm) as [Hi [Hu [Hm Hf]]].
  exact (T_all _ _ _ _ Hi Hu Hm Hf (al_sg_perm Z.max max_assoc Z.max_comm)).
Qed.

Lemma spec_ext_perm (pick : Z -> Z -> Z) :
  (forall a b c, pick (pick a b) c = pick a (pick b c)) -> (forall a b, pick a b = pick b a) ->
  forall xs ys, Permutation xs ys -> spec_ext pick xs = spec_ext pick ys.
Proof.
  intros Ha Hc xs ys P. pose proof (al_sg_perm pick Ha Hc xs ys P) as E.
  destruct xs as [|x r], ys as [|y r']; cbn in *; try discriminate; [reflexivity|].
  injection E as ->. reflexivity.
Qed.

Lemma bit_sg (op : Z -> Z -> Z) :
  (forall a b c, op (op a b) c = op a (op b c)) ->
  al_sg op [] = a_init (bit_agg op) /\
  (forall xs x, a_update (bit_agg op) (al_sg op xs) x = Ok (al_sg op (xs ++ [x]))) /\
  (forall xs ys, a_merge (bit_agg op) (al_sg op xs) (al_sg op ys) = Ok (al_sg op (xs ++ ys))) /\
  (forall xs, a_final (bit_agg op) (al_sg op xs) = spec_bit op xs).
Proof.
  intros Ha. split; [reflexivity|]. split; [|split].
  - intros [|y r] x; cbn; [reflexivity|]. rewrite fold_left_app. reflexivity.
  - intros [|x r] [|y r']; cbn; try reflexivity.
    + rewrite app_nil_r. reflexivity.
    + rewrite (fold_op_app op Ha). reflexivity.
  - intros [|x r]; reflexivity.
Qed.

Lemma bit_and_homomorphism :
  fold_correct bit_and_agg (spec_bit Z.land) eq /\ split_invariant bit_and_agg /\
  merge_homomorphism bit_and_agg /\ empty_neutral bit_and_agg /\ total bit_and_agg.
Proof.
  destruct (bit_sg Z.land (fun a b c => eq_sym (Z.land_assoc a b c))) as [Hi [Hu [Hm Hf]]].
  exact (T_all _ _ _ _ Hi Hu Hm Hf (al_sg_perm Z.land (fun a b c => eq_sym (Z.land_assoc a b c)) Z.land_comm)).
Qed.

Lemma bit_or_homomorphism :
  fold_correct bit_or_agg (spec_bit Z.lor) eq /\ split_invariant bit_or_agg /\
  merge_homomorphism bit_or_agg /\ empty_neutral bit_or_agg /\ total bit_or_agg.
Proof.
  destruct (bit_sg Z.lor (fun a b c => eq_sym (Z.lor_assoc a b c))) as [Hi [Hu [Hm Hf]]].
  exact (T_all _ _ _ _ Hi Hu Hm Hf (al_sg_perm Z.lor (fun a b c => eq_sym (Z.lor_assoc a b c)) Z.lor_comm)).
Qed.

(* ================================================================ bool_and, bool_or *)
Section BoolMonoid.
  Variable op : bool -> bool -> bool.
  Variable unit : bool.
  Hypothesis op_assoc : forall a b c, op (op a b) c = op a (op b c).
  Hypothesis op_comm : forall a b, op a b = op b a.
  Hypothesis op_unit : forall a, op unit a = a.

  Definition al_bool (xs : list bool) : bool * bool := (fold_left op xs unit, nonempty xs).

  Lemma fold_bool_shift : forall r x y, fold_left op r (op x y) = op x (fold_left op r y).
  Proof.
    induction r as [|z r IH]; intros x y; cbn [fold_left]; [reflexivity|]. rewrite op_assoc. apply IH.
  Qed.

  Lemma bool_i : al_bool [] = a_init (bool_agg op unit). Proof. reflexivity. Qed.
  Lemma bool_u xs x : a_update (bool_agg op unit) (al_bool xs) x = Ok (al_bool (xs ++ [x])).
  Proof.
    cbn. unfold al_bool. rewrite fold_left_app, nonempty_app. cbn [fold_left nonempty].
    rewrite orb_true_r. reflexivity.
  Qed.
  Lemma bool_m xs ys : a_merge (bool_agg op unit) (al_bool xs) (al_bool ys) = Ok (al_bool (xs ++ ys)).
  Proof.
    cbn. unfold al_bool. rewrite fold_left_app, nonempty_app.
    rewrite <- fold_bool_shift. rewrite (op_comm _ unit), op_unit. reflexivity.
  Qed.
  Lemma bool_p xs ys : Permutation xs ys -> al_bool xs = al_bool ys.
  Proof.
    intros P. unfold al_bool. rewrite (nonempty_perm _ _ P). f_equal.
    generalize unit. induction P as [|x l l' P IH|x y l|l l' l'' P1 IH1 P2 IH2]; intros a; cbn [fold_left].
    - reflexivity.
    - apply IH.
    - f_equal. rewrite !op_assoc. f_equal. apply op_comm.
    - rewrite IH1. apply IH2.
  Qed.
End BoolMonoid.

Lemma andb_assoc' a b c : (a && b) && c = a && (b && c). Proof. destruct a, b, c; reflexivity. Qed.
Lemma orb_assoc' a b c : (a || b) || c = a || (b || c). Proof. destruct a, b, c; reflexivity. Qed.

Lemma bool_and_f xs : a_final bool_and_agg (al_bool andb true xs) = spec_bool_and xs.
Proof.
  destruct xs as [|x r]; [reflexivity|]. cbn. f_equal.
  assert (E : forall l a, fold_left andb l a = a && forallb (fun b => b) l).
  { induction l as [|y l IH]; intros a; cbn [fold_left forallb]; [rewrite andb_true_r; reflexivity|].
    rewrite IH. apply andb_assoc'. }
  rewrite E. reflexivity.
Qed.
Lemma bool_or_f xs : a_final bool_or_agg (al_bool orb false xs) = spec_bool_or xs.
Proof.
  destruct xs as [|x r]; [reflexivity|]. cbn. f_equal.
  assert (E : forall l a, fold_left orb l a = a || existsb (fun b => b) l).
  { induction l as [|y l IH]; intros a; cbn [fold_left existsb]; [rewrite orb_false_r; reflexivity|].
    rewrite IH. apply orb_assoc'. }
  rewrite E. reflexivity.
Qed.

Lemma bool_and_homomorphism :
  fold_correct bool_and_agg spec_bool_and eq /\ split_invariant bool_and_agg /\
  merge_homomorphism bool_and_agg /\ empty_neutral bool_and_agg /\ total bool_and_agg.
Proof.
  exact (T_all _ _ _ _ (bool_i andb true) (bool_u andb true)
           (bool_m andb true andb_assoc' andb_comm andb_true_l) bool_and_f
           (bool_p andb true andb_assoc' andb_comm)).
Qed.

Lemma bool_or_homomorphism :
  fold_correct bool_or_agg spec_bool_or eq /\ split_invariant bool_or_agg /\
  merge_homomorphism bool_or_agg /\ empty_neutral bool_or_agg /\ total bool_or_agg.
Proof.
  exact (T_all _ _ _ _ (bool_i orb false) (bool_u orb false)
           (bool_m orb false orb_assoc' orb_comm orb_false_l) bool_or_f
           (bool_p orb false orb_assoc' orb_comm)).
Qed.

(* ================================================================ first *)
Section First.
  Context {X : Type}.
  Lemma first_u (xs : list X) x : a_update first_agg (hd_error xs) x = Ok (hd_error (xs ++ [x])).
  Proof. destruct xs; reflexivity. Qed.
  Lemma first_m (xs ys : list X) : a_merge first_agg (hd_error xs) (hd_error ys) = Ok (hd_error (xs ++ ys)).
  Proof. destruct xs; reflexivity. Qed.

  Lemma first_homomorphism :
    fold_correct (@first_agg X) spec_first eq /\ order_split_invariant (@first_agg X) /\
    merge_homomorphism (@first_agg X) /\ empty_neutral (@first_agg X) /\ total (@first_agg X).
  Proof.
    exact (T_all_ordered (@first_agg X) (@hd_error X) spec_first eq eq_refl first_u first_m (fun _ => eq_refl)).
  Qed.
End First.

(* first is order dependent by definition: documented as "the first non-NULL value" *)
Lemma first_not_commutative :
  exists t xs, Permutation (nn (flatten t)) (nn xs) /\
    result_tree (@first_agg Z) t = Ok (Some 2) /\ result_tree (@first_agg Z) (Leaf xs) = Ok (Some 1).
Proof.
  exists (Node (Leaf [Some 2]) (Leaf [Some 1])), [Some 1; Some 2].
  split; [apply perm_swap|]. split; reflexivity.
Qed.

(* ================================================================ string_agg *)
Section StringAgg.
  Variable sep : bytes.
  Definition al_str (xs : list bytes) : option bytes := spec_string_agg sep xs.

  Lemma join_app : forall xs ys, xs <> [] -> ys <> [] ->
    join sep (xs ++ ys) = join sep xs ++ sep ++ join sep ys.
  Proof.
    induction xs as [|x r IH]; intros ys Hx Hy; [contradiction|].
    destruct r as [|x' r].
    - cbn [app join]. destruct ys; [contradiction|reflexivity].
    - change ((x :: x' :: r) ++ ys) with (x :: (x' :: r) ++ ys).
      change (join sep (x :: x' :: r)) with (x ++ sep ++ join sep (x' :: r)).
      assert (E : join sep (x :: (x' :: r) ++ ys) = x ++ sep ++ join sep ((x' :: r) ++ ys)) by reflexivity.
      rewrite E, IH by (discriminate || exact Hy). rewrite <- !app_assoc. reflexivity.
  Qed.

  Lemma al_str_some xs : xs <> [] -> al_str xs = Some (join sep xs).
  Proof. destruct xs; [contradiction|reflexivity]. Qed.

  Lemma str_u xs x : a_update (string_agg sep) (al_str xs) x = Ok (al_str (xs ++ [x])).
  Proof.
    destruct xs as [|y r]; [reflexivity|].
    rewrite (al_str_some (y :: r)), (al_str_some ((y :: r) ++ [x])) by (destruct r; discriminate).
    rewrite join_app by discriminate. reflexivity.
  Qed.

  Lemma str_m xs ys : a_merge (string_agg sep) (al_str xs) (al_str ys) = Ok (al_str (xs ++ ys)).
  Proof.
    destruct xs as [|x r]; [reflexivity|]. destruct ys as [|y q].
    - rewrite app_nil_r. reflexivity.
    - rewrite (al_str_some (x :: r)), (al_str_some (y :: q)), (al_str_some ((x :: r) ++ y :: q)) by discriminate.
      rewrite join_app by discriminate. reflexivity.
  Qed.

  Lemma string_agg_homomorphism :
    fold_correct (string_agg sep) (spec_string_agg sep) eq /\ order_split_invariant (string_agg sep) /\
    merge_homomorphism (string_agg sep) /\ empty_neutral (string_agg sep) /\ total (string_agg sep).
  Proof.
    exact (T_all_ordered (string_agg sep) al_str (spec_string_agg sep) eq eq_refl str_u str_m (fun _ => eq_refl)).
  Qed.
End StringAgg.

(* ================================================================ exact rationals *)
Open Scope Q_scope.

Lemma inject_Z_eq0 z : inject_Z z == 0 <-> z = 0%Z.
Proof. unfold Qeq, inject_Z; cbn. lia. Qed.

Lemma qdiv_ok a b : ~ b == 0 -> qdiv a b = Ok (Qred (a / b)).
Proof.
  intros H. unfold qdiv. destruct (Qeq_bool b 0) eqn:E; [apply Qeq_bool_eq in E; contradiction|reflexivity].
Qed.

Lemma qsum_app a b : qsum (a ++ b) == qsum a + qsum b.
Proof. unfold qsum. induction a as [|x a IH]; cbn [app fold_right]; [ring|]. rewrite IH. ring. Qed.

Lemma qsum_perm a b : Permutation a b -> qsum a == qsum b.
Proof.
  unfold qsum. induction 1 as [|x a b P IH|x y a|a b c P1 IH1 P2 IH2]; cbn [fold_right].
  - reflexivity.
  - rewrite IH. reflexivity.
  - ring.
  - rewrite IH1. exact IH2.
Qed.

Lemma qlen_app {A} (a b : list A) : qlen (a ++ b) == qlen a + qlen b.
Proof. unfold qlen. rewrite app_length, Nat2Z.inj_add, inject_Z_plus. reflexivity. Qed.

Lemma qlen_zlen {A} (a : list A) : qlen a = inject_Z (zlen a). Proof. reflexivity. Qed.

Lemma qlen_pos {A} (x : A) a : 0 < qlen (x :: a).
Proof. unfold qlen, Qlt. cbn [length Qnum Qden inject_Z]. lia. Qed.

Lemma qlen_nonneg {A} (a : list A) : 0 <= qlen a.
Proof. unfold qlen, Qle. cbn [Qnum Qden inject_Z]. lia. Qed.

Lemma qlen_cons {A} (x : A) a : qlen (x :: a) == qlen a + 1.
Proof. unfold qlen. cbn [length]. rewrite Nat2Z.inj_succ, <- Z.add_1_r, inject_Z_plus. reflexivity. Qed.

Definition qsum2 (xs : list Q) : Q := qsum (map (fun x => x * x) xs).
Definition m2_of (xs : list Q) : Q := qsum2 xs - qsum xs * qsum xs / qlen xs.

Lemma dev_expand c : forall l,
  qsum (map (fun x => (x - c) * (x - c)) l) == qsum2 l - 2 * c * qsum l + qlen l * c * c.
Proof.
  induction l as [|x l IH].
  - unfold qsum2, qsum, qlen. cbn [map fold_right length]. change (inject_Z (Z.of_nat 0)) with 0. ring.
  - unfold qsum2 in *. cbn [map]. unfold qsum in *. cbn [fold_right].
    rewrite qlen_cons, IH. ring.
Qed.

Lemma ssd_m2 xs : xs <> [] -> ssd xs == m2_of xs.
Proof.
  intros H. unfold ssd. rewrite dev_expand. unfold m2_of, qmean.
  destruct xs as [|x r]; [contradiction|]. pose proof (qlen_pos x r) as P.
  field. intro E. rewrite E in P. apply Qlt_irrefl in P. exact P.
Qed.

Lemma qsum2_app a b : qsum2 (a ++ b) == qsum2 a + qsum2 b.
Proof. unfold qsum2. rewrite map_app. apply qsum_app. Qed.

Lemma qsum_one x : qsum [x] == x. Proof. unfold qsum. cbn [fold_right]. ring. Qed.
Lemma qsum2_one x : qsum2 [x] == x * x. Proof. unfold qsum2. cbn [map]. apply qsum_one. Qed.
Lemma qlen_one {A} (x : A) : qlen [x] == 1. Proof. reflexivity. Qed.

Lemma qz_succ {A} (l : list A) : qz (zlen l + 1) == qlen l + 1.
Proof. unfold qz. rewrite inject_Z_plus. reflexivity. Qed.

Lemma qz_succ_nz {A} (l : list A) : ~ qz (zlen l + 1) == 0.
Proof. unfold qz. rewrite inject_Z_eq0. pose proof (zlen_nonneg l). lia. Qed.

Definition al_var (xs : list Q) : vstate :=
  match xs with [] => v_init | _ => mkV (zlen xs) (Qred (qmean xs)) (Qred (m2_of xs)) end.

Lemma al_var_ne xs : xs <> [] -> al_var xs = mkV (zlen xs) (Qred (qmean xs)) (Qred (m2_of xs)).
Proof. destruct xs; [contradiction|reflexivity]. Qed.

Ltac qcanon := apply Qred_complete; unfold qadd, qsub, qmul; rewrite ?Qred_correct.

Lemma mkV_eq c c' m m' q q' : c = c' -> m = m' -> q = q' -> mkV c m q = mkV c' m' q'.
Proof. intros -> -> ->. reflexivity. Qed.

Lemma var_u xs x : v_update (al_var xs) x = Ok (al_var (xs ++ [x])).
Proof.
  rewrite (al_var_ne (xs ++ [x])) by (destruct xs; discriminate).
  unfold v_update.
  destruct xs as [|y r].
  - cbn [al_var v_init v_count v_mean v_m2 app].
    rewrite qdiv_ok by (intro E; discriminate E). cbn [bind]. f_equal.
    apply mkV_eq; [reflexivity| |]; qcanon; unfold qmean, m2_of; rewrite ?qsum_one, ?qsum2_one, ?qlen_one;
      change (qz (0 + 1)) with 1; field.
  - set (l := y :: r). assert (P : 0 < qlen l) by apply qlen_pos.
    rewrite (al_var_ne l) by discriminate. cbn [v_count v_mean v_m2].
    rewrite qdiv_ok by apply qz_succ_nz. cbn [bind]. f_equal.
    apply mkV_eq; [symmetry; apply zlen_app| |]; qcanon; unfold qmean, m2_of;
      rewrite ?qz_succ, ?qsum_app, ?qsum2_app, ?qlen_app, ?qsum_one, ?qsum2_one, ?qlen_one;
      set (n := qlen l) in *; field; repeat split; intro E; lra.
Qed.

Lemma zlen_eqb_ne {A} (x : A) l : (zlen (x :: l) =? 0)%Z = false.
Proof. apply Z.eqb_neq. pose proof (zlen_pos x l). lia. Qed.

Lemma qz_zlen {A} (l : list A) : qz (zlen l) = qlen l. Proof. reflexivity. Qed.

Lemma var_m xs ys : v_merge (al_var xs) (al_var ys) = Ok (al_var (xs ++ ys)).
Proof.
  destruct xs as [|x r]; [reflexivity|]. set (l := x :: r).
  assert (P : 0 < qlen l) by apply qlen_pos.
  unfold v_merge. rewrite (al_var_ne l) by discriminate. cbn [v_count v_mean v_m2].
  unfold l at 1. rewrite zlen_eqb_ne. fold l.
  destruct ys as [|y q].
  - cbn [al_var v_init v_count v_mean v_m2]. rewrite app_nil_r, (al_var_ne l) by discriminate.
    rewrite !qz_zlen. change (qz 0) with 0.
    rewrite !qdiv_ok by (unfold qadd; rewrite Qred_correct; intro E; lra). cbn [bind]. f_equal.
    apply mkV_eq; [lia| |]; qcanon; unfold qmean, m2_of; set (n := qlen l) in *; field; intro E; lra.
  - set (k := y :: q). assert (P' : 0 < qlen k) by apply qlen_pos.
    rewrite (al_var_ne k) by discriminate. cbn [v_count v_mean v_m2].
    rewrite (al_var_ne (l ++ k)) by discriminate.
    rewrite !qz_zlen.
    rewrite !qdiv_ok by (unfold qadd; rewrite Qred_correct; intro E; lra). cbn [bind]. f_equal.
    apply mkV_eq; [symmetry; apply zlen_app| |]; qcanon; unfold qmean, m2_of;
      rewrite ?qsum_app, ?qsum2_app, ?qlen_app;
      set (n := qlen l) in *; set (m := qlen k) in *; field; repeat split; intro E; lra.
Qed.

Lemma qz_pred {A} (l : list A) : qz (zlen l - 1) == qlen l - 1.
Proof. unfold qz, Z.sub. rewrite inject_Z_plus. reflexivity. Qed.

Lemma qlen_two {A} (x y : A) r : 1 < qlen (x :: y :: r).
Proof. unfold qlen, Qlt. cbn [length Qnum Qden inject_Z]. lia. Qed.

Lemma zlen_two_eqb {A} (x y : A) r : (zlen (x :: y :: r) =? 0)%Z = false /\ (zlen (x :: y :: r) =? 1)%Z = false.
Proof. unfold zlen. cbn [length]. split; apply Z.eqb_neq; lia. Qed.

Lemma var_f k xs : fres_eq (v_final k (al_var xs)) (spec_var k xs).
Proof.
  destruct xs as [|x [|y r]].
  - destruct k; exact I.
  - unfold v_final, v_value. cbn [al_var v_count v_m2]. change (zlen [x]) with 1%Z.
    assert (E : 0 == ssd [x] / qlen [x]).
    { rewrite ssd_m2 by discriminate. unfold m2_of. rewrite qsum_one, qsum2_one, qlen_one. field. }
    destruct k; cbn [Z.eqb Pos.eqb orb frat fsqrt spec_var length fres_eq]; try exact I; exact E.
  - set (l := x :: y :: r). assert (P : 1 < qlen l) by apply qlen_two.
    destruct (zlen_two_eqb x y r) as [E0 E1]. fold l in E0, E1.
    unfold v_final, v_value. rewrite (al_var_ne l) by discriminate. cbn [v_count v_m2]. rewrite E0, E1.
    cbn [orb]. rewrite !qdiv_ok by (rewrite ?qz_pred, ?qz_zlen; intro E; lra).
    destruct k; cbn [frat fsqrt spec_var length l fres_eq]; fold l;
      rewrite !Qred_correct, ?qz_pred, ?qz_zlen, ssd_m2 by discriminate; reflexivity.
Qed.

Lemma qlen_perm {A} (a b : list A) : Permutation a b -> qlen a = qlen b.
Proof. intros P. unfold qlen. rewrite (Permutation_length P). reflexivity. Qed.

Lemma qsum2_perm a b : Permutation a b -> qsum2 a == qsum2 b.
Proof. intros P. unfold qsum2. apply qsum_perm, Permutation_map, P. Qed.

Lemma perm_ne {A} (a b : list A) : Permutation a b -> a <> [] -> b <> [].
Proof. intros P H E. subst b. apply Permutation_sym, Permutation_nil in P. contradiction. Qed.

Lemma var_p xs ys : Permutation xs ys -> al_var xs = al_var ys.
Proof.
  intros P. destruct xs as [|x r].
  - apply Permutation_nil in P. subst ys. reflexivity.
  - assert (N : ys <> []) by (apply (perm_ne _ _ P); discriminate).
    rewrite (al_var_ne (x :: r)), (al_var_ne ys) by (discriminate || exact N).
    apply mkV_eq; [apply zlen_perm, P| |]; apply Qred_complete; unfold qmean, m2_of;
      rewrite (qsum_perm _ _ P), ?(qsum2_perm _ _ P), (qlen_perm _ _ P); reflexivity.
Qed.

Definition qsumxy (ps : list (Q * Q)) : Q := qsum (map (fun yx => snd yx * fst yx) ps).
Definition co_of (ps : list (Q * Q)) : Q := qsumxy ps - qsum (xs_of ps) * qsum (ys_of ps) / qlen ps.

Lemma qlen_map {A B} (g : A -> B) l : qlen (map g l) = qlen l.
Proof. unfold qlen. rewrite map_length. reflexivity. Qed.

Lemma qlen_xs ps : qlen (xs_of ps) = qlen ps. Proof. apply qlen_map. Qed.
Lemma qlen_ys ps : qlen (ys_of ps) = qlen ps. Proof. apply qlen_map. Qed.

Lemma prod_expand c d : forall l,
  qsum (map (fun yx : Q * Q => (snd yx - c) * (fst yx - d)) l)
  == qsumxy l - c * qsum (ys_of l) - d * qsum (xs_of l) + qlen l * c * d.
Proof.
  induction l as [|[y x] l IH].
  - unfold qsumxy, xs_of, ys_of, qsum, qlen. cbn [map fold_right length]. change (inject_Z (Z.of_nat 0)) with 0. ring.
  - unfold qsumxy, xs_of, ys_of in *. cbn [map]. unfold qsum in *. cbn [fold_right fst snd].
    rewrite qlen_cons, IH. ring.
Qed.

Lemma spd_co ps : ps <> [] -> spd ps == co_of ps.
Proof.
  intros H. unfold spd. rewrite prod_expand. unfold co_of, qmean. rewrite qlen_xs, qlen_ys.
  destruct ps as [|p r]; [contradiction|]. pose proof (qlen_pos p r) as P.
  field. intro E. lra.
Qed.

Definition al_cov (ps : list (Q * Q)) : cstate :=
  match ps with
  | [] => c_init
  | _ => mkC (zlen ps) (Qred (qmean (xs_of ps))) (Qred (qmean (ys_of ps))) (Qred (co_of ps))
  end.

Lemma al_cov_ne ps : ps <> [] ->
  al_cov ps = mkC (zlen ps) (Qred (qmean (xs_of ps))) (Qred (qmean (ys_of ps))) (Qred (co_of ps)).
Proof. destruct ps; [contradiction|reflexivity]. Qed.

Lemma mkC_eq c c' a a' b b' d d' : c = c' -> a = a' -> b = b' -> d = d' -> mkC c a b d = mkC c' a' b' d'.
Proof. intros -> -> -> ->. reflexivity. Qed.

Lemma xs_of_app a b : xs_of (a ++ b) = xs_of a ++ xs_of b. Proof. apply map_app. Qed.
Lemma ys_of_app a b : ys_of (a ++ b) = ys_of a ++ ys_of b. Proof. apply map_app. Qed.
Lemma qsumxy_app a b : qsumxy (a ++ b) == qsumxy a + qsumxy b.
Proof. unfold qsumxy. rewrite map_app. apply qsum_app. Qed.
Lemma qsumxy_one y x : qsumxy [(y, x)] == x * y.
Proof. unfold qsumxy. cbn [map fst snd]. apply qsum_one. Qed.

Lemma xs_of_one y x : xs_of [(y, x)] = [x]. Proof. reflexivity. Qed.
Lemma ys_of_one y x : ys_of [(y, x)] = [y]. Proof. reflexivity. Qed.

Lemma cov_u ps p : c_update (al_cov ps) p = Ok (al_cov (ps ++ [p])).
Proof.
  rewrite (al_cov_ne (ps ++ [p])) by (destruct ps; discriminate).
  destruct p as [y x]. unfold c_update.
  destruct ps as [|p0 r].
  - cbn [al_cov c_init c_count c_meanx c_meany c_co app].
    rewrite !qdiv_ok by (intro E; discriminate E). cbn [bind]. f_equal.
    apply mkC_eq; [reflexivity| | |]; qcanon; unfold qmean, co_of, xs_of, ys_of; cbn [map fst snd];
      rewrite ?qsum_one, ?qsumxy_one, ?qlen_one; change (qz (0 + 1)) with 1; field.
  - set (l := p0 :: r). assert (P : 0 < qlen l) by apply qlen_pos.
    rewrite (al_cov_ne l) by discriminate. cbn [c_count c_meanx c_meany c_co].
    rewrite !qdiv_ok by apply qz_succ_nz. cbn [bind]. f_equal.
    apply mkC_eq; [symmetry; apply zlen_app| | |]; qcanon; unfold qmean, co_of;
      rewrite ?qlen_xs, ?qlen_ys, ?xs_of_app, ?ys_of_app, ?xs_of_one, ?ys_of_one;
      rewrite ?qz_succ, ?qsum_app, ?qsumxy_app, ?qlen_app, ?qsum_one, ?qsumxy_one, ?qlen_one;
      set (n := qlen l) in *; field; repeat split; intro E; lra.
Qed.

Lemma cov_m ps qs : c_merge (al_cov ps) (al_cov qs) = Ok (al_cov (ps ++ qs)).
Proof.
  destruct ps as [|p r]; [reflexivity|]. set (l := p :: r).
  assert (P : 0 < qlen l) by apply qlen_pos.
  unfold c_merge. rewrite (al_cov_ne l) by discriminate. cbn [c_count c_meanx c_meany c_co].
  unfold l at 1. rewrite zlen_eqb_ne. fold l.
  destruct qs as [|q0 q].
  - cbn [al_cov c_init c_count Z.eqb]. rewrite app_nil_r, (al_cov_ne l) by discriminate. reflexivity.
  - set (k := q0 :: q). assert (P' : 0 < qlen k) by apply qlen_pos.
    rewrite (al_cov_ne k) by discriminate. cbn [c_count c_meanx c_meany c_co].
    unfold k at 1. rewrite zlen_eqb_ne. fold k.
    rewrite (al_cov_ne (l ++ k)) by discriminate.
    assert (Z : qz (zlen l + zlen k) == qlen l + qlen k).
    { unfold qz. rewrite inject_Z_plus. reflexivity. }
    rewrite !qdiv_ok by (rewrite Z; intro E; lra). cbn [bind]. f_equal.
    apply mkC_eq; [symmetry; apply zlen_app| | |]; qcanon; unfold qmean, co_of;
      rewrite ?qlen_xs, ?qlen_ys, ?xs_of_app, ?ys_of_app;
      rewrite ?Z, ?qz_zlen, ?qsum_app, ?qsumxy_app, ?qlen_app;
      set (n := qlen l) in *; set (m := qlen k) in *; field; repeat split; intro E; lra.
Qed.

Lemma cov_f k ps : fres_eq (c_final k (al_cov ps)) (spec_covar k ps).
Proof.
  destruct ps as [|p [|p' r]].
  - destruct k; exact I.
  - unfold c_final, c_value. cbn [al_cov c_count c_co]. change (zlen [p]) with 1%Z.
    destruct k; cbn [Z.eqb Pos.eqb orb spec_covar length]; [|exact I].
    rewrite qdiv_ok by (intro E; discriminate E). cbn [frat fres_eq].
    rewrite !Qred_correct, spd_co by discriminate. reflexivity.
  - set (l := p :: p' :: r). assert (P : 1 < qlen l) by apply qlen_two.
    destruct (zlen_two_eqb p p' r) as [E0 E1]. fold l in E0, E1.
    unfold c_final, c_value. rewrite (al_cov_ne l) by discriminate. cbn [c_count c_co]. rewrite E0, ?E1.
    cbn [orb]. rewrite !qdiv_ok by (rewrite ?qz_pred, ?qz_zlen; intro E; lra).
    destruct k; cbn [frat spec_covar length l fres_eq]; fold l;
      rewrite !Qred_correct, ?qz_pred, ?qz_zlen, spd_co by discriminate; reflexivity.
Qed.

Lemma qsumxy_perm a b : Permutation a b -> qsumxy a == qsumxy b.
Proof. intros P. unfold qsumxy. apply qsum_perm, Permutation_map, P. Qed.

Lemma cov_p ps qs : Permutation ps qs -> al_cov ps = al_cov qs.
Proof.
  intros P. destruct ps as [|x r].
  - apply Permutation_nil in P. subst qs. reflexivity.
  - assert (N : qs <> []) by (apply (perm_ne _ _ P); discriminate).
    rewrite (al_cov_ne (x :: r)), (al_cov_ne qs) by (discriminate || exact N).
    assert (Px : Permutation (xs_of (x :: r)) (xs_of qs)) by (apply Permutation_map, P).
    assert (Py : Permutation (ys_of (x :: r)) (ys_of qs)) by (apply Permutation_map, P).
    apply mkC_eq; [apply zlen_perm, P| | |]; apply Qred_complete; unfold qmean, co_of;
      rewrite ?qlen_xs, ?qlen_ys, ?(qsum_perm _ _ Px), ?(qsum_perm _ _ Py), ?(qsumxy_perm _ _ P),
        ?(qlen_perm _ _ P); reflexivity.
Qed.

(* population values of nonempty inputs *)
Lemma v_value_pop l : l <> [] ->
  exists v, v_value StdPop (al_var l) = Some (Ok v) /\ v_value VarPop (al_var l) = Some (Ok v) /\
            v == ssd l / qlen l.
Proof.
  intros H. destruct l as [|x [|y r]]; [contradiction| |].
  - exists 0. split; [reflexivity|]. split; [reflexivity|].
    rewrite ssd_m2 by discriminate. unfold m2_of. rewrite qsum_one, qsum2_one, qlen_one. field.
  - set (l := x :: y :: r). assert (P : 1 < qlen l) by apply qlen_two.
    destruct (zlen_two_eqb x y r) as [E0 E1]. fold l in E0, E1.
    exists (Qred (Qred (m2_of l) / qlen l)).
    unfold v_value. rewrite (al_var_ne l) by discriminate. cbn [v_count v_m2]. rewrite E0, E1.
    rewrite qdiv_ok by (rewrite qz_zlen; intro E; lra). rewrite qz_zlen.
    split; [reflexivity|]. split; [reflexivity|].
    rewrite !Qred_correct, ssd_m2 by discriminate. reflexivity.
Qed.

Lemma c_value_pop l : l <> [] ->
  exists c, c_value CovPop (al_cov l) = Some (Ok c) /\ c == spd l / qlen l.
Proof.
  intros H. destruct l as [|p r]; [contradiction|]. set (l := p :: r).
  assert (P : 0 < qlen l) by apply qlen_pos.
  exists (Qred (Qred (co_of l) / qlen l)).
  unfold c_value. rewrite (al_cov_ne l) by discriminate. cbn [c_count c_co].
  unfold l at 1. rewrite zlen_eqb_ne. fold l.
  rewrite qdiv_ok by (rewrite qz_zlen; intro E; lra). rewrite qz_zlen.
  split; [reflexivity|]. rewrite !Qred_correct, spd_co by discriminate. reflexivity.
Qed.

(* ---------------------------------------------------------------- corr, regr_r2 *)
Definition al_r (ps : list (Q * Q)) : rstate := (al_cov ps, al_var (xs_of ps), al_var (ys_of ps)).

Lemma xs_of_snoc ps p : xs_of (ps ++ [p]) = xs_of ps ++ [snd p]. Proof. apply map_app. Qed.
Lemma ys_of_snoc ps p : ys_of (ps ++ [p]) = ys_of ps ++ [fst p]. Proof. apply map_app. Qed.

Lemma r_u ps p : r_update (al_r ps) p = Ok (al_r (ps ++ [p])).
Proof.
  unfold r_update, al_r. rewrite cov_u. cbn [bind]. rewrite !var_u. cbn [bind].
  rewrite xs_of_snoc, ys_of_snoc. reflexivity.
Qed.

Lemma r_m ps qs : r_merge (al_r ps) (al_r qs) = Ok (al_r (ps ++ qs)).
Proof.
  unfold r_merge, al_r. rewrite cov_m. cbn [bind]. rewrite !var_m. cbn [bind].
  rewrite xs_of_app, ys_of_app. reflexivity.
Qed.

Lemma r_p ps qs : Permutation ps qs -> al_r ps = al_r qs.
Proof.
  intros P. unfold al_r. rewrite (cov_p _ _ P).
  rewrite (var_p (xs_of ps) (xs_of qs)) by (apply Permutation_map, P).
  rewrite (var_p (ys_of ps) (ys_of qs)) by (apply Permutation_map, P). reflexivity.
Qed.

Lemma map_ne {A B} (g : A -> B) l : l <> [] -> map g l <> [].
Proof. destruct l; [contradiction|discriminate]. Qed.

Lemma r_f sq ps : fres_eq (r_final sq (al_r ps)) (spec_corr sq ps).
Proof.
  destruct ps as [|p r]; [exact I|]. set (l := p :: r).
  assert (N : l <> []) by discriminate.
  destruct (c_value_pop l N) as [c [Ec Hc]].
  destruct (v_value_pop (xs_of l) (map_ne _ _ N)) as [vx [Ex [_ Hx]]].
  destruct (v_value_pop (ys_of l) (map_ne _ _ N)) as [vy [Ey [_ Hy]]].
  rewrite qlen_xs in Hx. rewrite qlen_ys in Hy.
  unfold r_final, al_r. rewrite Ec, Ex, Ey. unfold spec_corr. fold l.
  assert (B : Qeq_bool (qmul vx vy) 0 = Qeq_bool (ssd (xs_of l) / qlen l * (ssd (ys_of l) / qlen l)) 0).
  { unfold qmul. rewrite Qred_correct, Hx, Hy. reflexivity. }
  unfold l at 1. cbn iota. fold l. rewrite B.
  destruct (Qeq_bool (ssd (xs_of l) / qlen l * (ssd (ys_of l) / qlen l)) 0); [exact I|].
  destruct sq; cbn [fres_eq]; auto.
Qed.

(* ---------------------------------------------------------------- regr_slope *)
Definition al_s (ps : list (Q * Q)) : sstate := (al_cov ps, al_var (xs_of ps)).

Lemma s_u ps p : s_update (al_s ps) p = Ok (al_s (ps ++ [p])).
Proof.
  unfold s_update, al_s. rewrite cov_u. cbn [bind]. rewrite var_u. cbn [bind].
  rewrite xs_of_snoc. reflexivity.
Qed.

Lemma s_m ps qs : s_merge (al_s ps) (al_s qs) = Ok (al_s (ps ++ qs)).
Proof.
  unfold s_merge, al_s. rewrite cov_m. cbn [bind]. rewrite var_m. cbn [bind].
  rewrite xs_of_app. reflexivity.
Qed.

Lemma s_p ps qs : Permutation ps qs -> al_s ps = al_s qs.
Proof.
  intros P. unfold al_s. rewrite (cov_p _ _ P).
  rewrite (var_p (xs_of ps) (xs_of qs)) by (apply Permutation_map, P). reflexivity.
Qed.

Lemma s_f ps : fres_eq (s_final (al_s ps)) (spec_regr_slope ps).
Proof.
  destruct ps as [|p r]; [exact I|]. set (l := p :: r).
  assert (N : l <> []) by discriminate.
  destruct (c_value_pop l N) as [c [Ec Hc]].
  destruct (v_value_pop (xs_of l) (map_ne _ _ N)) as [vx [_ [Ex Hx]]].
  rewrite qlen_xs in Hx.
  unfold s_final, al_s. rewrite Ec, Ex. unfold spec_regr_slope. fold l.
  unfold l at 1. cbn iota. fold l.
  assert (B : Qeq_bool vx 0 = Qeq_bool (ssd (xs_of l) / qlen l) 0) by (rewrite Hx; reflexivity).
  rewrite <- B. destruct (Qeq_bool vx 0) eqn:E; [exact I|].
  rewrite qdiv_ok by (intro E'; apply Qeq_eq_bool in E'; rewrite E' in E; discriminate).
  cbn [frat fres_eq]. rewrite Qred_correct, Hc, Hx. reflexivity.
Qed.

(* ---------------------------------------------------------------- sum(float), avg, regr_avg *)
Definition al_sumf (xs : list Q) : Q * bool := (Qred (qsum xs), nonempty xs).

Lemma sumf_u xs x : a_update sum_f (al_sumf xs) x = Ok (al_sumf (xs ++ [x])).
Proof.
  cbn [a_update sum_f al_sumf]. unfold al_sumf. f_equal. apply f_equal2.
  - qcanon. rewrite qsum_app, qsum_one. reflexivity.
  - rewrite nonempty_app. cbn [nonempty]. rewrite orb_true_r. reflexivity.
Qed.
Lemma sumf_m xs ys : a_merge sum_f (al_sumf xs) (al_sumf ys) = Ok (al_sumf (xs ++ ys)).
Proof.
  cbn [a_merge sum_f al_sumf]. unfold al_sumf. f_equal. apply f_equal2.
  - qcanon. rewrite qsum_app. reflexivity.
  - rewrite nonempty_app. reflexivity.
Qed.
Lemma sumf_f xs : fres_eq (a_final sum_f (al_sumf xs)) (spec_sum_f xs).
Proof. destruct xs; [exact I|]. cbn [a_final sum_f al_sumf nonempty spec_sum_f fres_eq]. apply Qred_correct. Qed.
Lemma sumf_p xs ys : Permutation xs ys -> al_sumf xs = al_sumf ys.
Proof.
  intros P. unfold al_sumf. rewrite (nonempty_perm _ _ P). f_equal. apply Qred_complete, qsum_perm, P.
Qed.

(* (Qred (qsum (map sel xs)), zlen xs): avg_f (sel = id) and regr_avg *)
Section AvgQ.
  Context {X : Type} (sel : X -> Q).
  Definition al_avgq (xs : list X) : Q * Z := (Qred (qsum (map sel xs)), zlen xs).

  Lemma avgq_step xs x : (qadd (Qred (qsum (map sel xs))) (sel x), (zlen xs + 1)%Z) = al_avgq (xs ++ [x]).
  Proof.
    unfold al_avgq. apply f_equal2.
    - qcanon. rewrite map_app, qsum_app. cbn [map]. rewrite qsum_one. reflexivity.
    - symmetry. apply zlen_app.
  Qed.
  Lemma avgq_merge xs ys :
    (qadd (Qred (qsum (map sel xs))) (Qred (qsum (map sel ys))), (zlen xs + zlen ys)%Z) = al_avgq (xs ++ ys).
  Proof.
    unfold al_avgq. apply f_equal2.
    - qcanon. rewrite map_app, qsum_app. reflexivity.
    - symmetry. apply zlen_app.
  Qed.
  Lemma avgq_final xs : fres_eq (avg_final (Qred (qsum (map sel xs))) (zlen xs)) (spec_avg_f (map sel xs)).
  Proof.
    destruct xs as [|x r]; [exact I|]. unfold avg_final. rewrite zlen_eqb_ne.
    pose proof (qlen_pos x r) as P.
    rewrite qdiv_ok by (rewrite qz_zlen; intro E; lra).
    cbn [frat map spec_avg_f fres_eq]. rewrite !Qred_correct. unfold qmean.
    change (sel x :: map sel r) with (map sel (x :: r)). rewrite qlen_map, qz_zlen. reflexivity.
  Qed.
  Lemma avgq_perm xs ys : Permutation xs ys -> al_avgq xs = al_avgq ys.
  Proof.
    intros P. unfold al_avgq. rewrite (zlen_perm _ _ P). f_equal.
    apply Qred_complete, qsum_perm, Permutation_map, P.
  Qed.
End AvgQ.

Lemma map_id' (xs : list Q) : map (fun x => x) xs = xs. Proof. apply map_id. Qed.

Lemma avgf_all :
  fold_correct avg_f spec_avg_f fres_eq /\ split_invariant avg_f /\ merge_homomorphism avg_f /\
  empty_neutral avg_f /\ total avg_f.
Proof.
  apply (T_all avg_f (al_avgq (fun x => x)) spec_avg_f fres_eq).
  - reflexivity.
  - intros xs x. cbn [a_update avg_f al_avgq]. f_equal. apply (avgq_step (fun x => x)).
  - intros xs ys. cbn [a_merge avg_f al_avgq]. f_equal. apply (avgq_merge (fun x => x)).
  - intros xs. cbn [a_final avg_f al_avgq]. rewrite <- (map_id' xs) at 3. apply avgq_final.
  - apply avgq_perm.
Qed.

Lemma regr_avg_all (sel : Q * Q -> Q) :
  fold_correct (regr_avg sel) (fun ps => spec_avg_f (map sel ps)) fres_eq /\ split_invariant (regr_avg sel) /\
  merge_homomorphism (regr_avg sel) /\ empty_neutral (regr_avg sel) /\ total (regr_avg sel).
Proof.
  apply (T_all (regr_avg sel) (al_avgq sel) (fun ps => spec_avg_f (map sel ps)) fres_eq).
  - reflexivity.
  - intros xs x. cbn [a_update regr_avg al_avgq]. f_equal. apply avgq_step.
  - intros xs ys. cbn [a_merge regr_avg al_avgq]. f_equal. apply avgq_merge.
  - intros xs. cbn [a_final regr_avg al_avgq]. apply avgq_final.
  - apply avgq_perm.
Qed.

(* avg over integers: (zsum xs, zlen xs) *)
Definition al_avgz (xs : list Z) : Z * Z := (zsum xs, zlen xs).

Lemma inject_zsum xs : inject_Z (zsum xs) == qsum (map inject_Z xs).
Proof.
  unfold zsum, qsum. induction xs as [|x r IH]; cbn [map fold_right]; [reflexivity|].
  rewrite inject_Z_plus, IH. reflexivity.
Qed.

Lemma avgz_p xs ys : Permutation xs ys -> al_avgz xs = al_avgz ys.
Proof. intros P. unfold al_avgz. rewrite (zsum_perm _ _ P), (zlen_perm _ _ P). reflexivity. Qed.

Lemma avgi_f xs : fres_eq (a_final avg_i (al_avgz xs)) (spec_avg_i xs).
Proof.
  cbn [a_final avg_i al_avgz]. unfold spec_avg_i.
  destruct xs as [|x r]; [exact I|]. unfold avg_final. rewrite zlen_eqb_ne.
  pose proof (qlen_pos x r) as P.
  rewrite qdiv_ok by (rewrite qz_zlen; intro E; lra).
  cbn [frat map spec_avg_f fres_eq]. rewrite Qred_correct. unfold qmean, qz at 1.
  change (inject_Z x :: map inject_Z r) with (map inject_Z (x :: r)).
  rewrite qlen_map, qz_zlen, inject_zsum. reflexivity.
Qed.

Lemma avgi_all :
  fold_correct avg_i spec_avg_i fres_eq /\ split_invariant avg_i /\ merge_homomorphism avg_i /\
  empty_neutral avg_i /\ total avg_i.
Proof.
  apply (T_all avg_i al_avgz spec_avg_i fres_eq).
  - reflexivity.
  - intros xs x. cbn [a_update avg_i al_avgz]. unfold al_avgz. rewrite zsum_snoc, zlen_app. reflexivity.
  - intros xs ys. cbn [a_merge avg_i al_avgz]. unfold al_avgz. rewrite zsum_app, zlen_app. reflexivity.
  - apply avgi_f.
  - apply avgz_p.
Qed.

(* avg over decimals: the same state behind an i128 overflow check *)
Lemma avgd_u (k : Q) xs x s : a_update (avg_d k) (al_avgz xs) x = Ok s -> s = al_avgz (xs ++ [x]).
Proof.
  cbn [a_update avg_d al_avgz]. destruct (in_i 128 (zsum xs + x)); [|discriminate].
  intros E; injection E as <-. unfold al_avgz. rewrite zsum_snoc, zlen_app. reflexivity.
Qed.
Lemma avgd_m (k : Q) xs ys s : a_merge (avg_d k) (al_avgz xs) (al_avgz ys) = Ok s -> s = al_avgz (xs ++ ys).
Proof.
  cbn [a_merge avg_d al_avgz]. destruct (in_i 128 (zsum xs + zsum ys)); [|discriminate].
  intros E; injection E as <-. unfold al_avgz. rewrite zsum_app, zlen_app. reflexivity.
Qed.

Lemma qsum_scale c : forall xs, qsum (map (fun u => inject_Z u / c) xs) == qsum (map inject_Z xs) / c.
Proof.
  unfold qsum. induction xs as [|x r IH]; cbn [map fold_right].
  - unfold Qdiv. ring.
  - rewrite IH. unfold Qdiv. ring.
Qed.

Lemma avgd_f sc xs : 0 < sc -> fres_eq (a_final (avg_d sc) (al_avgz xs)) (spec_avg_d sc xs).
Proof.
  intros T. cbn [a_final avg_d al_avgz]. unfold spec_avg_d.
  destruct xs as [|x r]; [exact I|]. rewrite zlen_eqb_ne.
  pose proof (qlen_pos x r) as P.
  rewrite qdiv_ok by (unfold qmul; rewrite Qred_correct, qz_zlen; intro E; apply Qmult_integral in E; destruct E as [E|E]; lra).
  cbn [frat map spec_avg_f fres_eq]. rewrite Qred_correct. unfold qmul. rewrite Qred_correct.
  unfold qmean.
  change ((inject_Z x / sc) :: map (fun u => inject_Z u / sc) r) with (map (fun u => inject_Z u / sc) (x :: r)).
  rewrite qlen_map, qsum_scale, <- inject_zsum, qz_zlen. unfold qz in *. field.
  split; intro E; lra.
Qed.

(* ================================================================ the per-function statements *)
Lemma sumf_homomorphism :
  fold_correct sum_f spec_sum_f fres_eq /\ split_invariant sum_f /\ merge_homomorphism sum_f /\
  empty_neutral sum_f /\ total sum_f.
Proof. exact (T_all sum_f al_sumf spec_sum_f fres_eq eq_refl sumf_u sumf_m sumf_f sumf_p). Qed.

Lemma var_homomorphism k :
  fold_correct (var_agg k) (spec_var k) fres_eq /\ split_invariant (var_agg k) /\
  merge_homomorphism (var_agg k) /\ empty_neutral (var_agg k) /\ total (var_agg k).
Proof. exact (T_all (var_agg k) al_var (spec_var k) fres_eq eq_refl var_u var_m (var_f k) var_p). Qed.

Lemma covar_homomorphism k :
  fold_correct (covar_agg k) (spec_covar k) fres_eq /\ split_invariant (covar_agg k) /\
  merge_homomorphism (covar_agg k) /\ empty_neutral (covar_agg k) /\ total (covar_agg k).
Proof. exact (T_all (covar_agg k) al_cov (spec_covar k) fres_eq eq_refl cov_u cov_m (cov_f k) cov_p). Qed.

Lemma corr_homomorphism :
  fold_correct corr_agg (spec_corr false) fres_eq /\ split_invariant corr_agg /\
  merge_homomorphism corr_agg /\ empty_neutral corr_agg /\ total corr_agg.
Proof. exact (T_all corr_agg al_r (spec_corr false) fres_eq eq_refl r_u r_m (r_f false) r_p). Qed.

Lemma regr_r2_homomorphism :
  fold_correct regr_r2_agg (spec_corr true) fres_eq /\ split_invariant regr_r2_agg /\
  merge_homomorphism regr_r2_agg /\ empty_neutral regr_r2_agg /\ total regr_r2_agg.
Proof. exact (T_all regr_r2_agg al_r (spec_corr true) fres_eq eq_refl r_u r_m (r_f true) r_p). Qed.

Lemma regr_slope_homomorphism :
  fold_correct regr_slope_agg spec_regr_slope fres_eq /\ split_invariant regr_slope_agg /\
  merge_homomorphism regr_slope_agg /\ empty_neutral regr_slope_agg /\ total regr_slope_agg.
Proof. exact (T_all regr_slope_agg al_s spec_regr_slope fres_eq eq_refl s_u s_m s_f s_p). Qed.

Lemma regr_avgx_homomorphism :
  fold_correct regr_avgx spec_regr_avgx fres_eq /\ split_invariant regr_avgx /\
  merge_homomorphism regr_avgx /\ empty_neutral regr_avgx /\ total regr_avgx.
Proof. exact (regr_avg_all snd). Qed.

Lemma regr_avgy_homomorphism :
  fold_correct regr_avgy spec_regr_avgy fres_eq /\ split_invariant regr_avgy /\
  merge_homomorphism regr_avgy /\ empty_neutral regr_avgy /\ total regr_avgy.
Proof. exact (regr_avg_all fst). Qed.

(* ---------------------------------------------------------------- avg over decimals *)
Lemma avgd_never_wrong (k : Q) : 0 < k ->
  never_wrong (avg_d k) (spec_avg_d k) fres_eq /\ state_determined (avg_d k).
Proof.
  intros Hk. split.
  - exact (P_never_wrong (avg_d k) al_avgz (spec_avg_d k) fres_eq eq_refl (avgd_u k) (avgd_m k)
             (fun xs => avgd_f k xs Hk)).
  - exact (P_state_determined (avg_d k) al_avgz eq_refl (avgd_u k) (avgd_m k) avgz_p).
Qed.

Lemma avgd_gu (k : Q) xs x : in_i 128 (zsum xs + x) = true ->
  a_update (avg_d k) (al_avgz xs) x = Ok (al_avgz (xs ++ [x])).
Proof.
  intros E. cbn [a_update avg_d al_avgz]. rewrite E. unfold al_avgz. rewrite zsum_snoc, zlen_app. reflexivity.
Qed.
Lemma avgd_gm (k : Q) xs ys : in_i 128 (zsum xs + zsum ys) = true ->
  a_merge (avg_d k) (al_avgz xs) (al_avgz ys) = Ok (al_avgz (xs ++ ys)).
Proof.
  intros E. cbn [a_merge avg_d al_avgz]. rewrite E. unfold al_avgz. rewrite zsum_app, zlen_app. reflexivity.
Qed.

Lemma avgd_total_when_bounded (k : Q) : forall t xs,
  Permutation (nn (flatten t)) (nn xs) -> (abs_sum (nn xs) < 2 ^ 127)%Z ->
  run_tree (avg_d k) t = run_chunk (avg_d k) xs /\ exists s, run_tree (avg_d k) t = Ok s.
Proof.
  intros t xs P B.
  assert (B' : (abs_sum (nn (flatten t)) < 2 ^ (128 - 1))%Z).
  { unfold abs_sum. rewrite (zsum_perm _ (map Z.abs (nn xs))); [exact B|]. apply Permutation_map, P. }
  pose proof (tree_bounded (avg_d k) al_avgz 128 eq_refl (avgd_gu k) (avgd_gm k)) as TB.
  rewrite (TB t B'). split; [|eexists; reflexivity].
  rewrite (avgz_p _ _ P). symmetry. exact (TB (Leaf xs) B).
Qed.

(* three Decimal128(38, 0) values whose average is representable: the sequential run fails ("Avg overflowed")
   on the second row, a plan that first combines the last two rows succeeds *)
Lemma avgd_split_invariant_refuted :
  exists t xs, Permutation (nn (flatten t)) (nn xs) /\
    result_tree (avg_dec 0) t = Ok (FRat (inject_Z ((10 ^ 38 - 1) / 3))) /\ run_chunk (avg_dec 0) xs = Err.
Proof.
  exists (Node (Leaf [Some (10 ^ 38 - 1)%Z]) (Leaf [Some (10 ^ 38 - 1)%Z; Some (- (10 ^ 38 - 1))%Z])).
  exists [Some (10 ^ 38 - 1)%Z; Some (10 ^ 38 - 1)%Z; Some (- (10 ^ 38 - 1))%Z].
  split; [apply Permutation_refl|]. split; vm_compute; reflexivity.
Qed.

(* the function as bound for a Decimal(p, scale) column, any scale (negative included, since ae73b43ce) *)
Lemma pow10_pos scale : 0 < pow10 scale.
Proof.
  unfold pow10. destruct (Z.leb_spec 0 scale) as [H|H].
  - unfold Qlt. cbn [Qnum Qden inject_Z]. pose proof (Z.pow_pos_nonneg 10 scale). lia.
  - rewrite Qred_correct. apply Qinv_lt_0_compat.
    unfold Qlt. cbn [Qnum Qden inject_Z]. pose proof (Z.pow_pos_nonneg 10 (- scale)). lia.
Qed.

Lemma dec_value_pow10 scale u : dec_value scale u == inject_Z u / pow10 scale.
Proof.
  unfold dec_value, pow10. destruct (Z.leb_spec 0 scale) as [H|H]; [reflexivity|].
  rewrite Qred_correct, inject_Z_mult.
  assert (T : 0 < inject_Z (10 ^ (- scale))).
  { unfold Qlt. cbn [Qnum Qden inject_Z]. pose proof (Z.pow_pos_nonneg 10 (- scale)). lia. }
  field. intro E. lra.
Qed.

Lemma qsum_map_ext {A} (g h : A -> Q) : (forall a, g a == h a) -> forall l, qsum (map g l) == qsum (map h l).
Proof.
  intros E. unfold qsum. induction l as [|a l IH]; cbn [map fold_right]; [reflexivity|].
  rewrite IH, E. reflexivity.
Qed.

Lemma fres_eq_trans a b c : fres_eq a b -> fres_eq b c -> fres_eq a c.
Proof.
  destruct a, b, c; cbn [fres_eq]; try contradiction; try (intros; exact I).
  - intros H1 H2. rewrite H1. exact H2.
  - intros H1 H2. rewrite H1. exact H2.
  - intros [A1 [A2 A3]] [B1 [B2 B3]]. rewrite A1, A2, A3. auto.
  - intros [A1 [A2 A3]] [B1 [B2 B3]]. rewrite A1, A2, A3. auto.
Qed.

Lemma spec_avg_f_ext {A} (g h : A -> Q) : (forall a, g a == h a) ->
  forall l, fres_eq (spec_avg_f (map g l)) (spec_avg_f (map h l)).
Proof.
  intros E l. destruct l as [|a l]; [exact I|].
  change (map g (a :: l)) with (g a :: map g l). change (map h (a :: l)) with (h a :: map h l).
  cbn [spec_avg_f fres_eq]. unfold qmean.
  change (g a :: map g l) with (map g (a :: l)). change (h a :: map h l) with (map h (a :: l)).
  rewrite !qlen_map, (qsum_map_ext g h E). reflexivity.
Qed.

Lemma avg_dec_f scale xs : fres_eq (a_final (avg_dec scale) (al_avgz xs)) (spec_avg_dec scale xs).
Proof.
  apply (fres_eq_trans _ (spec_avg_d (pow10 scale) xs)).
  - exact (avgd_f (pow10 scale) xs (pow10_pos scale)).
  - unfold spec_avg_d, spec_avg_dec. apply spec_avg_f_ext. intros u. symmetry. apply dec_value_pow10.
Qed.

Lemma avg_dec_never_wrong scale :
  never_wrong (avg_dec scale) (spec_avg_dec scale) fres_eq /\ state_determined (avg_dec scale).
Proof.
  split.
  - exact (P_never_wrong (avg_dec scale) al_avgz (spec_avg_dec scale) fres_eq eq_refl
             (avgd_u (pow10 scale)) (avgd_m (pow10 scale)) (avg_dec_f scale)).
  - exact (P_state_determined (avg_dec scale) al_avgz eq_refl (avgd_u (pow10 scale)) (avgd_m (pow10 scale)) avgz_p).
Qed.

Lemma avg_dec_total_when_bounded scale : forall t xs,
  Permutation (nn (flatten t)) (nn xs) -> (abs_sum (nn xs) < 2 ^ 127)%Z ->
  run_tree (avg_dec scale) t = run_chunk (avg_dec scale) xs /\ exists s, run_tree (avg_dec scale) t = Ok s.
Proof. exact (avgd_total_when_bounded (pow10 scale)). Qed.

(* the outcome is a value or the error "Avg overflowed", never a panic *)
Lemma avgd_foldM_class (k : Q) : forall l s, ok_or_err (foldM (feed (avg_d k)) l s).
Proof.
  induction l as [|[x|] l IH]; intros s.
  - exact I.
  - change (Some x :: l) with ([Some x] ++ l). rewrite foldM_app.
    unfold foldM at 1. cbn [fold_left bind feed].
    destruct s as [sum count]. cbn [a_update avg_d].
    destruct (in_i 128 (sum + x)); cbn [bind]; [apply IH|exact I].
  - change (None :: l) with ([None] ++ l). rewrite foldM_app.
    unfold foldM at 1. cbn [fold_left bind feed]. apply IH.
Qed.

Lemma avgd_tree_class (k : Q) : forall t, ok_or_err (run_tree (avg_d k) t).
Proof.
  induction t as [xs|l IHl r IHr|t IH xs]; cbn [run_tree].
  - apply avgd_foldM_class.
  - destruct (run_tree (avg_d k) l) as [a| | |]; cbn [bind]; try exact IHl.
    destruct (run_tree (avg_d k) r) as [b| | |]; cbn [bind]; try exact IHr.
    destruct a as [s1 c1], b as [s2 c2]. cbn [a_merge avg_d].
    destruct (in_i 128 (s1 + s2)); exact I.
  - destruct (run_tree (avg_d k) t) as [a| | |]; cbn [bind]; try exact IH. apply avgd_foldM_class.
Qed.

Lemma avg_dec_outcome_class scale : forall t,
  (exists s, run_tree (avg_dec scale) t = Ok s) \/ run_tree (avg_dec scale) t = Err.
Proof.
  intros t. pose proof (avgd_tree_class (pow10 scale) t) as H. unfold avg_dec.
  destruct (run_tree (avg_d (pow10 scale)) t) as [a| | |]; cbn in H; try contradiction;
    [left; exists a; reflexivity|right; reflexivity].
Qed.

(* negative scales: avg over the Decimal(5,-2) values 1200, 3400 (unscaled 12, 34) is 2300 *)
Lemma avg_dec_negative_scale :
  result_tree (avg_dec (-2)) (Node (Leaf [Some 12%Z]) (Leaf [Some 34%Z])) = Ok (FRat (inject_Z 2300)) /\
  fres_eq (spec_avg_dec (-2) [12%Z; 34%Z]) (FRat (inject_Z 2300)).
Proof. split; vm_compute; reflexivity. Qed.

(* ---------------------------------------------------------------- the merges before 2ad5a541a *)
Lemma var_m_old xs ys : v_merge_old (al_var xs) (al_var ys) = Ok (al_var (xs ++ ys)).
Proof.
  destruct xs as [|x r]; [reflexivity|]. set (l := x :: r).
  assert (P : 0 < qlen l) by apply qlen_pos.
  unfold v_merge_old. rewrite (al_var_ne l) by discriminate. cbn [v_count v_mean v_m2].
  unfold l at 1. rewrite zlen_eqb_ne. fold l.
  destruct ys as [|y q].
  - cbn [al_var v_init v_count v_mean v_m2]. rewrite app_nil_r, (al_var_ne l) by discriminate.
    rewrite !qz_zlen. change (qz 0) with 0.
    rewrite !qdiv_ok by (unfold qadd; rewrite Qred_correct; intro E; lra). cbn [bind]. f_equal.
    apply mkV_eq; [lia| |]; qcanon; unfold qmean, m2_of; set (n := qlen l) in *; field; intro E; lra.
  - set (k := y :: q). assert (P' : 0 < qlen k) by apply qlen_pos.
    rewrite (al_var_ne k) by discriminate. cbn [v_count v_mean v_m2].
    rewrite (al_var_ne (l ++ k)) by discriminate.
    rewrite !qz_zlen.
    rewrite !qdiv_ok by (unfold qadd; rewrite Qred_correct; intro E; lra). cbn [bind]. f_equal.
    apply mkV_eq; [symmetry; apply zlen_app| |]; qcanon; unfold qmean, m2_of;
      rewrite ?qsum_app, ?qsum2_app, ?qlen_app;
      set (n := qlen l) in *; set (m := qlen k) in *; field; repeat split; intro E; lra.
Qed.

Lemma cov_m_old ps qs : c_merge_old (al_cov ps) (al_cov qs) = Ok (al_cov (ps ++ qs)).
Proof.
  destruct ps as [|p r]; [reflexivity|]. set (l := p :: r).
  assert (P : 0 < qlen l) by apply qlen_pos.
  unfold c_merge_old. rewrite (al_cov_ne l) by discriminate. cbn [c_count c_meanx c_meany c_co].
  unfold l at 1. rewrite zlen_eqb_ne. fold l.
  destruct qs as [|q0 q].
  - cbn [al_cov c_init c_count Z.eqb]. rewrite app_nil_r, (al_cov_ne l) by discriminate. reflexivity.
  - set (k := q0 :: q). assert (P' : 0 < qlen k) by apply qlen_pos.
    rewrite (al_cov_ne k) by discriminate. cbn [c_count c_meanx c_meany c_co].
    unfold k at 1. rewrite zlen_eqb_ne. fold k.
    rewrite (al_cov_ne (l ++ k)) by discriminate.
    assert (Z : qz (zlen l + zlen k) == qlen l + qlen k).
    { unfold qz. rewrite inject_Z_plus. reflexivity. }
    rewrite !qdiv_ok by (rewrite Z; intro E; lra). cbn [bind]. f_equal.
    apply mkC_eq; [symmetry; apply zlen_app| | |]; qcanon; unfold qmean, co_of;
      rewrite ?qlen_xs, ?qlen_ys, ?xs_of_app, ?ys_of_app;
      rewrite ?Z, ?qz_zlen, ?qsum_app, ?qsumxy_app, ?qlen_app;
      set (n := qlen l) in *; set (m := qlen k) in *; field; repeat split; intro E; lra.
Qed.

(* on every pair of reachable states the old merge computed, in exact arithmetic, the same state *)
Lemma old_variance_merge_equivalent k : forall t1 t2 a b,
  run_tree (var_agg k) t1 = Ok a -> run_tree (var_agg k) t2 = Ok b -> v_merge_old a b = v_merge a b.
Proof.
  intros t1 t2 a b Ea Eb.
  rewrite (tree_alpha (var_agg k) al_var eq_refl var_u var_m) in Ea, Eb.
  injection Ea as <-. injection Eb as <-. rewrite var_m_old, var_m. reflexivity.
Qed.

Lemma old_covariance_merge_equivalent k : forall t1 t2 a b,
  run_tree (covar_agg k) t1 = Ok a -> run_tree (covar_agg k) t2 = Ok b -> c_merge_old a b = c_merge a b.
Proof.
  intros t1 t2 a b Ea Eb.
  rewrite (tree_alpha (covar_agg k) al_cov eq_refl cov_u cov_m) in Ea, Eb.
  injection Ea as <-. injection Eb as <-. rewrite cov_m_old, cov_m. reflexivity.
Qed.

(* ---------------------------------------------------------------- UInt64 inputs (a40c65193) *)
Lemma u64_abs_sum xs : Forall is_u64 xs -> (abs_sum xs = zsum xs /\ 0 <= zsum xs <= zlen xs * (2 ^ 64 - 1))%Z.
Proof.
  unfold abs_sum, zsum, zlen. induction 1 as [|x xs Hx _ IH]; cbn [map fold_right length].
  - cbn. lia.
  - unfold is_u64 in Hx. rewrite Nat2Z.inj_succ. destruct IH as [E B]. rewrite E. lia.
Qed.

Lemma u64_rows_bound xs : Forall is_u64 xs -> (zlen xs <= 2 ^ 63)%Z -> (abs_sum xs < 2 ^ 127)%Z.
Proof.
  intros H L. destruct (u64_abs_sum xs H) as [E B]. rewrite E.
  assert ((2 ^ 63 * (2 ^ 64 - 1) < 2 ^ 127)%Z) by (vm_compute; reflexivity).
  pose proof (zlen_nonneg xs). nia.
Qed.

(* SUM(UInt64): with at most 2^63 rows every plan succeeds, equals the sequential run and is exact *)
Lemma sum_u64_exact : forall t xs,
  Permutation (nn (flatten t)) (nn xs) -> Forall is_u64 (nn xs) -> (zlen (nn xs) <= 2 ^ 63)%Z ->
  run_tree sum_u64 t = run_chunk sum_u64 xs /\ result_tree sum_u64 t = Ok (spec_sum (nn xs)).
Proof.
  intros t xs P H L. apply (sum_total_when_bounded 128 t xs P).
  change (128 - 1)%Z with 127%Z. apply u64_rows_bound; assumption.
Qed.

Lemma sum_u64_never_wrong : never_wrong sum_u64 spec_sum eq /\ state_determined sum_u64.
Proof. exact (sum_never_wrong 128). Qed.

(* AVG(UInt64): the state of every plan over at most 2^63 u64 rows has its sum inside i128 (every
   intermediate state of a plan is the state of a sub-plan over a sub-bag of the rows) *)
Lemma avg_u64_accumulator_in_range : forall t s c,
  Forall is_u64 (nn (flatten t)) -> (zlen (nn (flatten t)) <= 2 ^ 63)%Z ->
  run_tree avg_u64 t = Ok (s, c) -> in_i 128 s = true /\ c = zlen (nn (flatten t)).
Proof.
  intros t s c H L E. unfold avg_u64 in E.
  assert (A : run_tree avg_i t = Ok (al_avgz (nn (flatten t)))).
  { apply (tree_alpha avg_i al_avgz eq_refl).
    - intros xs x. cbn [a_update avg_i al_avgz]. unfold al_avgz. rewrite zsum_snoc, zlen_app. reflexivity.
    - intros xs ys. cbn [a_merge avg_i al_avgz]. unfold al_avgz. rewrite zsum_app, zlen_app. reflexivity. }
  rewrite A in E. injection E as <- <-. split; [|reflexivity].
  apply in_i_bounded. change (128 - 1)%Z with 127%Z.
  pose proof (zsum_le_abs (nn (flatten t))). pose proof (u64_rows_bound _ H L). lia.
Qed.

Lemma avg_u64_all :
  fold_correct avg_u64 spec_avg_i fres_eq /\ split_invariant avg_u64 /\ merge_homomorphism avg_u64 /\
  empty_neutral avg_u64 /\ total avg_u64.
Proof. exact avgi_all. Qed.

Example u64_hypotheses_satisfiable :
  Forall is_u64 [(2 ^ 64 - 1)%Z; (2 ^ 63)%Z; 0%Z] /\ (zlen [(2 ^ 64 - 1)%Z; (2 ^ 63)%Z; 0%Z] <= 2 ^ 63)%Z.
Proof. split; [repeat constructor; unfold is_u64; lia|vm_compute; discriminate]. Qed.

(* ---------------------------------------------------------------- consequences *)
(* any two plans over the same bag of rows end in the same state *)
Lemma two_plans_agree {X S O} (f : agg X S O) : split_invariant f ->
  forall t t', Permutation (nn (flatten t)) (nn (flatten t')) -> run_tree f t = run_tree f t'.
Proof.
  intros H t t' P. rewrite (H t (flatten t') P). symmetry. apply (H t' (flatten t')), Permutation_refl.
Qed.

Lemma two_plans_agree_ordered {X S O} (f : agg X S O) : order_split_invariant f ->
  forall t t', nn (flatten t) = nn (flatten t') -> run_tree f t = run_tree f t'.
Proof.
  intros H t t' P. rewrite (H t (flatten t') P). symmetry. apply (H t' (flatten t')). reflexivity.
Qed.

(* with fold_correct: every plan finalizes to the specification of the whole input *)
Lemma plan_result_is_spec {X S O} (f : agg X S O) spec (eqO : O -> O -> Prop) :
  fold_correct f spec eqO -> order_split_invariant f ->
  forall t, exists s, run_tree f t = Ok s /\ eqO (a_final f s) (spec (nn (flatten t))).
Proof.
  intros Hf Hs t. destruct (Hf (flatten t)) as [s [E1 E2]]. exists s. split; [|exact E2].
  rewrite (Hs t (flatten t) eq_refl). exact E1.
Qed.

Lemma split_invariant_ordered {X S O} (f : agg X S O) : split_invariant f -> order_split_invariant f.
Proof. intros H t xs E. apply H. rewrite E. apply Permutation_refl. Qed.

(* satisfiability of the hypotheses of the implication-shaped statements *)
Example sum_bounded_example :
  Permutation (nn (flatten (Node (Leaf [Some 5%Z; None]) (Leaf [Some (-7)%Z])))) (nn [Some (-7)%Z; Some 5%Z]) /\
  (abs_sum (nn [Some (-7)%Z; Some 5%Z]) < 2 ^ (64 - 1))%Z.
Proof. split; [apply perm_swap|vm_compute; reflexivity]. Qed.
