(* Proofs about model/PqBits.v *)
From Coq Require Import NArith ZArith List Bool Lia ZifyBool ZifyNat ZifyN.
From GV Require Import model.PqBits.
Import ListNotations.
Local Open Scope N_scope.

(* ---------- 1. splitting a bit-unpack call ---------- *)

Lemma unpack_n_split tw w n1 n2 buf pos :
  unpack_n tw w (n1 + n2) buf pos =
  ('(v1, b1, p1) <- unpack_n tw w n1 buf pos ;;
   '(v2, b2, p2) <- unpack_n tw w n2 b1 p1 ;; Ok (v1 ++ v2, b2, p2)).
Proof.
  revert buf pos. induction n1 as [|k IH]; intros buf pos.
  - cbn [Nat.add unpack_n bind].
    destruct (unpack_n tw w n2 buf pos) as [[[v b] p]| | |]; reflexivity.
  - cbn [Nat.add unpack_n].
    destruct (unpack_one tw w buf pos) as [[[v b] p]| | |]; cbn [bind]; try reflexivity.
    rewrite IH.
    destruct (unpack_n tw w k b p) as [[[v1 b1] p1]| | |]; cbn [bind]; try reflexivity.
    destruct (unpack_n tw w n2 b1 p1) as [[[v2 b2] p2]| | |]; reflexivity.
Qed.

Lemma bit_unpack_split tw w n1 n2 buf pos :
  bit_unpack tw w (n1 + n2) buf pos =
  ('(v1, b1, p1) <- bit_unpack tw w n1 buf pos ;;
   '(v2, b2, p2) <- bit_unpack tw w n2 b1 p1 ;; Ok (v1 ++ v2, b2, p2)).
Proof.
  unfold bit_unpack.
  destruct (64 <? w); [reflexivity|].
  destruct (w =? 0).
  - cbn [bind]. rewrite repeat_app. reflexivity.
  - apply unpack_n_split.
Qed.

(* ---------- byte-level facts by enumeration ---------- *)

Lemma forall_below (k : nat) (P : N -> bool) :
  forallb P (map N.of_nat (seq 0 k)) = true ->
  forall b, b < N.of_nat k -> P b = true.
Proof.
  intros Hall b Hb.
  rewrite forallb_forall in Hall. apply Hall.
  apply in_map_iff. exists (N.to_nat b). split; [lia|].
  apply in_seq. lia.
Qed.

Lemma byte_low_facts b : b < 128 ->
  N.land b 127 = b /\ (N.land b 128 =? 0) = true /\
  N.land (b + 128) 127 = b /\ (N.land (b + 128) 128 =? 0) = false.
Proof.
  intros Hb.
  pose (P := fun b => (N.land b 127 =? b) && (N.land b 128 =? 0) &&
                      (N.land (b + 128) 127 =? b) && negb (N.land (b + 128) 128 =? 0)).
  assert (HP : P b = true).
  { apply (forall_below 128); [vm_compute; reflexivity | exact Hb]. }
  unfold P in HP.
  apply andb_prop in HP. destruct HP as [HP H4].
  apply andb_prop in HP. destruct HP as [HP H3].
  apply andb_prop in HP. destruct HP as [H1 H2].
  apply N.eqb_eq in H1. apply N.eqb_eq in H3.
  apply negb_true_iff in H4.
  repeat split; assumption.
Qed.

(* ---------- 2. ULEB128 ---------- *)

Lemma lor_shiftl_disjoint a b s : a < 2 ^ s -> N.lor a (N.shiftl b s) = a + b * 2 ^ s.
Proof.
  intros Ha.
  assert (Hland : N.land a (N.shiftl b s) = 0).
  { apply N.bits_inj. intros i. rewrite N.land_spec, N.bits_0.
    destruct (N.lt_ge_cases i s) as [Hi|Hi].
    - rewrite N.shiftl_spec_low by exact Hi. apply andb_false_r.
    - replace a with (a mod 2 ^ s) by (apply N.mod_small; exact Ha).
      rewrite N.mod_pow2_bits_high by exact Hi. reflexivity. }
  rewrite <- N.lxor_lor by exact Hland.
  rewrite <- N.add_nocarry_lxor by exact Hland.
  rewrite N.shiftl_mul_pow2. reflexivity.
Qed.

Lemma lor_mul_disjoint a b s : a < 2 ^ s -> N.lor a (b * 2 ^ s) = a + b * 2 ^ s.
Proof.
  intros Ha. rewrite <- (lor_shiftl_disjoint a b s Ha), N.shiftl_mul_pow2. reflexivity.
Qed.

Lemma vlq_dec_enc f : forall n acc shift rest,
  shift + 7 * N.of_nat f = 63 ->
  acc < 2 ^ shift ->
  n * 2 ^ shift < 2 ^ 64 ->
  vlq_dec (vlq_enc f n ++ rest) acc shift = Ok (acc + n * 2 ^ shift, rest).
Proof.
  induction f as [|f IH]; intros n acc shift rest Hsh Hacc Hn.
  - assert (shift = 63) by lia. subst shift.
    assert (Hn2 : n < 2).
    { change (2 ^ 64) with (2 * 2 ^ 63) in Hn. nia. }
    cbn [vlq_enc app vlq_dec].
    rewrite (N.mod_small n 128) by lia.
    destruct (byte_low_facts n ltac:(lia)) as (H1 & H2 & _ & _).
    rewrite H1, H2.
    rewrite N.shiftl_mul_pow2, N.mod_small by exact Hn.
    rewrite lor_mul_disjoint by exact Hacc.
    reflexivity.
  - cbn [vlq_enc].
    assert (Hpos : 0 < 2 ^ shift) by (apply N.neq_0_lt_0, N.pow_nonzero; lia).
    destruct (n <? 128) eqn:Hlt.
    + apply N.ltb_lt in Hlt.
      cbn [app vlq_dec].
      destruct (byte_low_facts n Hlt) as (H1 & H2 & _ & _).
      rewrite H1, H2.
      rewrite N.shiftl_mul_pow2, N.mod_small by exact Hn.
      rewrite lor_mul_disjoint by exact Hacc.
      reflexivity.
    + apply N.ltb_ge in Hlt.
      cbn [app vlq_dec].
      assert (Hm : n mod 128 < 128) by (apply N.mod_lt; lia).
      destruct (byte_low_facts (n mod 128) Hm) as (_ & _ & H3 & H4).
      rewrite H3, H4.
      assert (Hdm : n = 128 * (n / 128) + n mod 128) by (apply N.div_mod; lia).
      assert (Hle : (n mod 128) * 2 ^ shift <= n * 2 ^ shift).
      { apply N.mul_le_mono_r. lia. }
      rewrite N.shiftl_mul_pow2, N.mod_small by lia.
      rewrite lor_mul_disjoint by exact Hacc.
      destruct (64 <=? shift + 7) eqn:H64.
      { apply N.leb_le in H64. lia. }
      assert (Hp7 : 2 ^ (shift + 7) = 128 * 2 ^ shift).
      { rewrite N.pow_add_r. change (2 ^ 7) with 128. lia. }
      rewrite IH.
      * f_equal. f_equal. rewrite Hp7. nia.
      * lia.
      * rewrite Hp7. nia.
      * rewrite Hp7. nia.
Qed.

Theorem vlq_roundtrip n rest : n < 2 ^ 64 -> vlq_decode (vlq_encode n ++ rest) = Ok (n, rest).
Proof.
  intros Hn. unfold vlq_decode, vlq_encode.
  rewrite vlq_dec_enc.
  - f_equal. f_equal. change (2 ^ 0) with 1. lia.
  - reflexivity.
  - change (2 ^ 0) with 1. lia.
  - change (2 ^ 0) with 1. lia.
Qed.

Example vlq_roundtrip_ex : vlq_decode (vlq_encode 300 ++ [7]) = Ok (300, [7]).
Proof. vm_compute. reflexivity. Qed.

Lemma vlq_enc_bytes f n : Forall (fun b => b < 256) (vlq_enc f n).
Proof.
  revert n. induction f as [|f IH]; intros n; cbn [vlq_enc].
  - constructor; [|constructor].
    assert (n mod 128 < 128) by (apply N.mod_lt; lia). lia.
  - destruct (n <? 128) eqn:Hlt.
    + apply N.ltb_lt in Hlt. constructor; [lia|constructor].
    + constructor; [|apply IH].
      assert (n mod 128 < 128) by (apply N.mod_lt; lia). lia.
Qed.

Theorem vlq_encode_bytes n : Forall (fun b => b < 256) (vlq_encode n).
Proof. apply vlq_enc_bytes. Qed.

(* ---------- 3. zigzag ---------- *)

Lemma lxor_ones_low x n : x < 2 ^ n -> N.lxor x (N.ones n) = 2 ^ n - 1 - x.
Proof.
  intros Hx.
  change (N.lxor x (N.ones n)) with (N.lnot x n).
  destruct (N.eq_dec x 0) as [Hx0|Hx0].
  - subst x. destruct (N.eq_dec n 0) as [Hn0|Hn0]; [subst n; reflexivity|].
    rewrite N.lnot_sub_low.
    + rewrite N.ones_equiv. lia.
    + cbn [N.log2]. lia.
  - rewrite N.lnot_sub_low.
    + rewrite N.ones_equiv. lia.
    + apply N.log2_lt_pow2; [lia | exact Hx].
Qed.

Theorem zigzag_roundtrip z : (- 2 ^ 63 <= z < 2 ^ 63)%Z ->
  to_signed 64 (zigzag_decode (zigzag_encode z)) = z.
Proof.
  intros Hz. unfold zigzag_encode, zigzag_decode.
  destruct (0 <=? z)%Z eqn:Hs.
  - apply Z.leb_le in Hs.
    assert (He : Z.to_N (2 * z) = 2 * Z.to_N z) by lia.
    rewrite He, N.odd_mul, N.odd_2. cbn [andb].
    rewrite N.shiftr_div_pow2. change (2 ^ 1) with 2.
    rewrite N.mul_comm, N.div_mul by lia.
    rewrite N.lxor_0_r. unfold to_signed. change (2 ^ (64 - 1)) with 9223372036854775808.
    destruct (Z.to_N z <? 9223372036854775808) eqn:Hlt.
    + lia.
    + apply N.ltb_ge in Hlt. lia.
  - apply Z.leb_gt in Hs.
    assert (He : Z.to_N (- 2 * z - 1) = 1 + 2 * Z.to_N (- z - 1)) by lia.
    rewrite He, N.odd_add_mul_2. change (N.odd 1) with true. cbn match.
    rewrite N.shiftr_div_pow2. change (2 ^ 1) with 2.
    replace ((1 + 2 * Z.to_N (- z - 1)) / 2) with (Z.to_N (- z - 1)).
    2:{ apply N.div_unique with (r := 1); lia. }
    rewrite lxor_ones_low.
    2:{ change (2 ^ 64) with 18446744073709551616. lia. }
    unfold to_signed. change (2 ^ (64 - 1)) with 9223372036854775808.
    change (2 ^ 64) with 18446744073709551616.
    change (2 ^ Z.of_N 64)%Z with 18446744073709551616%Z.
    destruct (_ <? 9223372036854775808) eqn:Hlt.
    + apply N.ltb_lt in Hlt. lia.
    + lia.
Qed.

Example zigzag_roundtrip_ex : to_signed 64 (zigzag_decode (zigzag_encode (-3))) = (-3)%Z.
Proof. vm_compute. reflexivity. Qed.

Theorem from_i64_roundtrip bits z : 0 < bits <= 64 ->
  (- 2 ^ (Z.of_N bits - 1) <= z < 2 ^ (Z.of_N bits - 1))%Z ->
  from_i64 bits (zigzag_decode (zigzag_encode z)) = Some (of_signed bits z).
Proof.
  intros Hb Hz. unfold from_i64.
  assert (Hp : (2 ^ (Z.of_N bits - 1) <= 2 ^ 63)%Z).
  { apply Z.pow_le_mono_r; lia. }
  rewrite zigzag_roundtrip by lia.
  destruct (- 2 ^ (Z.of_N bits - 1) <=? z)%Z eqn:H1; [|apply Z.leb_gt in H1; lia].
  destruct (z <? 2 ^ (Z.of_N bits - 1))%Z eqn:H2; [|apply Z.ltb_ge in H2; lia].
  reflexivity.
Qed.

Example from_i64_roundtrip_ex :
  from_i64 8 (zigzag_decode (zigzag_encode (-128))) = Some (of_signed 8 (-128)).
Proof. vm_compute. reflexivity. Qed.

(* ---------- 4. little endian numbers, take_bytes ---------- *)

Lemma le_bytes_length k x : length (le_bytes k x) = k.
Proof. revert x. induction k as [|k IH]; intros x; cbn [le_bytes length]; [|rewrite IH]; reflexivity. Qed.

Lemma le_bytes_bytes k x : Forall (fun b => b < 256) (le_bytes k x).
Proof.
  revert x. induction k as [|k IH]; intros x; cbn [le_bytes]; constructor.
  - apply N.mod_lt. lia.
  - apply IH.
Qed.

Lemma pow256_S k : 256 ^ N.of_nat (S k) = 256 * 256 ^ N.of_nat k.
Proof. rewrite Nat2N.inj_succ, N.pow_succ_r'. reflexivity. Qed.

Theorem le_num_le_bytes k x : x < 256 ^ N.of_nat k -> le_num (le_bytes k x) = x.
Proof.
  revert x. induction k as [|k IH]; intros x Hx.
  - cbn in Hx. cbn [le_bytes le_num]. lia.
  - rewrite pow256_S in Hx. cbn [le_bytes le_num].
    rewrite IH.
    + symmetry. rewrite N.add_comm. apply N.div_mod. lia.
    + apply N.div_lt_upper_bound; lia.
Qed.

Example le_num_le_bytes_ex : le_num (le_bytes 2 513) = 513.
Proof. vm_compute. reflexivity. Qed.

Theorem take_bytes_app bs rest : take_bytes (length bs) (bs ++ rest) = Ok (bs, rest).
Proof.
  induction bs as [|b bs IH]; cbn [length app take_bytes]; [reflexivity|].
  rewrite IH. reflexivity.
Qed.

(* ---------- 5. bit packing ---------- *)

Definition bytes_ok (buf : list N) : Prop := Forall (fun b => b < 256) buf.
(* the cursor (buf, pos) seen as the number of all remaining bits *)
Definition cur (buf : list N) (pos : N) : N := le_num buf / 2 ^ pos.

Lemma pow2_pos n : 0 < 2 ^ n.
Proof. apply N.neq_0_lt_0, N.pow_nonzero. lia. Qed.

Lemma pow2_nz n : 2 ^ n <> 0.
Proof. apply N.pow_nonzero. lia. Qed.

Lemma le_num_app a b : le_num (a ++ b) = le_num a + 256 ^ N.of_nat (length a) * le_num b.
Proof.
  induction a as [|x a IH].
  - cbn [app le_num length N.of_nat]. change (256 ^ 0) with 1. lia.
  - cbn [app le_num length]. rewrite pow256_S, IH. lia.
Qed.

Lemma unpack_val_eq fuel buf pos need off value :
  unpack_val fuel buf pos need off value =
  if need =? 0 then Ok (value, buf, pos) else
  match fuel with
  | O => Err
  | S f =>
      match buf with
      | [] => OOB
      | b :: rest =>
          let take := N.min need (8 - pos) in
          let chunk := (b / 2 ^ pos) mod 2 ^ take in
          let value' := N.lor value (N.shiftl chunk off) in
          let pos' := pos + take in
          if pos' =? 8 then unpack_val f rest 0 (need - take) (off + take) value'
          else unpack_val f buf pos' (need - take) (off + take) value'
      end
  end.
Proof. destruct fuel; reflexivity. Qed.

(* bits pos .. pos+take of the first byte are bits pos .. pos+take of the whole number *)
Lemma chunk_of_byte b R pos take : pos + take <= 8 ->
  ((b + 256 * R) / 2 ^ pos) mod 2 ^ take = (b / 2 ^ pos) mod 2 ^ take.
Proof.
  intros Hpt.
  assert (H256 : 256 = 2 ^ pos * (2 ^ take * 2 ^ (8 - pos - take))).
  { rewrite <- !N.pow_add_r. replace (pos + (take + (8 - pos - take))) with 8 by lia. reflexivity. }
  rewrite H256.
  replace (b + 2 ^ pos * (2 ^ take * 2 ^ (8 - pos - take)) * R)
    with (b + (2 ^ take * 2 ^ (8 - pos - take) * R) * 2 ^ pos) by lia.
  rewrite N.div_add by apply pow2_nz.
  replace (b / 2 ^ pos + 2 ^ take * 2 ^ (8 - pos - take) * R)
    with (b / 2 ^ pos + (2 ^ (8 - pos - take) * R) * 2 ^ take) by lia.
  rewrite N.mod_add by apply pow2_nz. reflexivity.
Qed.

Lemma rest_of_byte b R pos take : b < 256 -> pos + take = 8 ->
  (b + 256 * R) / 2 ^ pos / 2 ^ take = R.
Proof.
  intros Hb Hpt.
  assert (H256 : 256 = 2 ^ pos * 2 ^ take).
  { rewrite <- N.pow_add_r, Hpt. reflexivity. }
  rewrite N.div_div by apply pow2_nz.
  rewrite <- H256.
  replace (b + 256 * R) with (b + R * 256) by lia.
  rewrite N.div_add by lia. rewrite N.div_small by exact Hb. lia.
Qed.

Lemma mul_add_lt m t v a : m < t -> v < a -> v + m * a < a * t.
Proof.
  intros Hm Hv.
  assert (Hm1 : (m + 1) * a <= t * a) by (apply N.mul_le_mono_r; lia).
  lia.
Qed.

Lemma unpack_val_spec fuel : forall buf pos need off value,
  bytes_ok buf -> pos < 8 -> value < 2 ^ off ->
  pos + need <= 8 * N.of_nat (length buf) ->
  (N.to_nat need <= fuel)%nat ->
  exists buf' pos',
    unpack_val fuel buf pos need off value =
      Ok (value + (cur buf pos mod 2 ^ need) * 2 ^ off, buf', pos')
    /\ pos' < 8
    /\ cur buf' pos' = cur buf pos / 2 ^ need
    /\ 8 * N.of_nat (length buf') + pos + need = 8 * N.of_nat (length buf) + pos'
    /\ (exists pre, buf = pre ++ buf').
Proof.
  induction fuel as [|f IH]; intros buf pos need off value Hok Hpos Hval Hbits Hfuel;
    rewrite unpack_val_eq.
  - assert (need = 0) by lia. subst need. cbn [N.eqb].
    exists buf, pos. change (2 ^ 0) with 1. rewrite N.mod_1_r, N.div_1_r.
    split; [|split; [|split; [|split]]]; try lia; try reflexivity.
    + f_equal. f_equal. f_equal. lia.
    + exists []. reflexivity.
  - destruct (need =? 0) eqn:Hn0.
    + apply N.eqb_eq in Hn0. subst need.
      exists buf, pos. change (2 ^ 0) with 1. rewrite N.mod_1_r, N.div_1_r.
      split; [|split; [|split; [|split]]]; try lia; try reflexivity.
      * f_equal. f_equal. f_equal. lia.
      * exists []. reflexivity.
    + apply N.eqb_neq in Hn0.
      destruct buf as [|b rest]; [cbn [length] in Hbits; lia|].
      inversion Hok as [|b0 rest0 Hb Hrest]; subst b0 rest0.
      cbv zeta.
      set (take := N.min need (8 - pos)).
      assert (Htake : 0 < take /\ take <= need /\ pos + take <= 8) by (unfold take; lia).
      destruct Htake as (Ht0 & Htn & Htp).
      (* the chunk *)
      assert (Hchunk : (b / 2 ^ pos) mod 2 ^ take = cur (b :: rest) pos mod 2 ^ take).
      { unfold cur. cbn [le_num]. symmetry. apply chunk_of_byte. exact Htp. }
      rewrite Hchunk.
      set (C := cur (b :: rest) pos) in *.
      rewrite N.shiftl_mul_pow2, lor_mul_disjoint by exact Hval.
      (* the state after the step *)
      assert (Hstate : exists B P,
        (if pos + take =? 8
         then unpack_val f rest 0 (need - take) (off + take) (value + C mod 2 ^ take * 2 ^ off)
         else unpack_val f (b :: rest) (pos + take) (need - take) (off + take)
                (value + C mod 2 ^ take * 2 ^ off)) =
        unpack_val f B P (need - take) (off + take) (value + C mod 2 ^ take * 2 ^ off)
        /\ bytes_ok B /\ P < 8 /\ cur B P = C / 2 ^ take
        /\ 8 * N.of_nat (length B) + pos + take = 8 * N.of_nat (length (b :: rest)) + P
        /\ (exists pre, b :: rest = pre ++ B)).
      { destruct (pos + take =? 8) eqn:H8.
        - apply N.eqb_eq in H8. exists rest, 0.
          split; [reflexivity|]. split; [exact Hrest|]. split; [lia|].
          split; [|split].
          + unfold C, cur. cbn [le_num]. change (2 ^ 0) with 1. rewrite N.div_1_r.
            symmetry. apply rest_of_byte; assumption.
          + cbn [length]. lia.
          + exists [b]. reflexivity.
        - apply N.eqb_neq in H8. exists (b :: rest), (pos + take).
          split; [reflexivity|]. split; [exact Hok|]. split; [lia|].
          split; [|split].
          + unfold C, cur. rewrite N.pow_add_r, N.div_div by apply pow2_nz. reflexivity.
          + lia.
          + exists []. reflexivity. }
      destruct Hstate as (B & P & Hif & HBok & HP & HcurB & HlenB & HpreB).
      rewrite Hif.
      assert (Hmodlt : C mod 2 ^ take < 2 ^ take) by (apply N.mod_lt, pow2_nz).
      assert (Hval' : value + C mod 2 ^ take * 2 ^ off < 2 ^ (off + take)).
      { rewrite N.pow_add_r. apply mul_add_lt; assumption. }
      assert (Hbits' : P + (need - take) <= 8 * N.of_nat (length B))
        by (clear - HlenB Hbits Htn; lia).
      assert (Hfuel' : (N.to_nat (need - take) <= f)%nat)
        by (clear - Hfuel Ht0 Htn; lia).
      destruct (IH B P (need - take) (off + take) _ HBok HP Hval' Hbits' Hfuel') as
        (buf' & pos' & Hrun & Hpos' & Hcur' & Hlen' & Hpre').
      exists buf', pos'. rewrite Hrun.
      assert (Hneed : 2 ^ need = 2 ^ take * 2 ^ (need - take)).
      { rewrite <- N.pow_add_r. f_equal. clear - Htn. lia. }
      split; [|split; [|split; [|split]]].
      * f_equal. f_equal. f_equal.
        rewrite HcurB, Hneed, N.mod_mul_r by apply pow2_nz.
        rewrite N.pow_add_r. lia.
      * exact Hpos'.
      * rewrite Hcur', HcurB, Hneed, N.div_div by apply pow2_nz. reflexivity.
      * clear - Hlen' HlenB Htn. lia.
      * destruct HpreB as [pre1 Hpre1]. destruct Hpre' as [pre2 Hpre2].
        exists (pre1 ++ pre2). rewrite Hpre1, Hpre2, app_assoc. reflexivity.
Qed.

Lemma bytes_ok_suffix pre buf' : bytes_ok (pre ++ buf') -> bytes_ok buf'.
Proof. unfold bytes_ok. intros H. apply Forall_app in H. apply H. Qed.

Lemma unpack_one_spec tw w buf pos :
  w <= 64 -> w <= tw -> bytes_ok buf -> pos < 8 ->
  pos + w <= 8 * N.of_nat (length buf) ->
  exists buf' pos',
    unpack_one tw w buf pos = Ok (cur buf pos mod 2 ^ w, buf', pos')
    /\ pos' < 8
    /\ cur buf' pos' = cur buf pos / 2 ^ w
    /\ 8 * N.of_nat (length buf') + pos + w = 8 * N.of_nat (length buf) + pos'
    /\ (exists pre, buf = pre ++ buf').
Proof.
  intros Hw Htw Hok Hpos Hbits.
  destruct (unpack_val_spec 65 buf pos w 0 0 Hok Hpos) as
    (buf' & pos' & Hrun & Hpos' & Hcur' & Hlen' & Hpre');
    [change (2 ^ 0) with 1; lia | exact Hbits | lia |].
  exists buf', pos'. unfold unpack_one. rewrite Hrun. cbn [bind].
  repeat split; try assumption.
  f_equal. f_equal. f_equal. unfold trunc.
  change (2 ^ 0) with 1. rewrite N.add_0_l, N.mul_1_r.
  apply N.mod_small.
  apply N.lt_le_trans with (2 ^ w).
  - apply N.mod_lt, pow2_nz.
  - apply N.pow_le_mono_r; lia.
Qed.

Lemma unpack_n_spec tw w : w <= 64 -> w <= tw ->
  forall n vals buf pos Y,
  bytes_ok buf -> pos < 8 ->
  cur buf pos = pack_num w vals + 2 ^ (w * N.of_nat (length vals)) * Y ->
  Forall (fun v => v < 2 ^ w) vals ->
  (n <= length vals)%nat ->
  pos + w * N.of_nat n <= 8 * N.of_nat (length buf) ->
  exists buf' pos',
    unpack_n tw w n buf pos = Ok (firstn n vals, buf', pos')
    /\ pos' < 8
    /\ 8 * N.of_nat (length buf') + pos + w * N.of_nat n = 8 * N.of_nat (length buf) + pos'
    /\ (exists pre, buf = pre ++ buf').
Proof.
  intros Hw Htw.
  induction n as [|n IH]; intros vals buf pos Y Hok Hpos Hcur Hvals Hn Hbits.
  - exists buf, pos. cbn [unpack_n firstn]. repeat split; try lia.
    exists []. reflexivity.
  - destruct vals as [|v r]; [cbn [length] in Hn; lia|].
    inversion Hvals as [|v0 r0 Hv Hr]; subst v0 r0.
    cbn [length] in Hn.
    destruct (unpack_one_spec tw w buf pos Hw Htw Hok Hpos) as
      (b1 & p1 & Hrun1 & Hp1 & Hcur1 & Hlen1 & Hpre1); [lia|].
    assert (Hsplit : cur buf pos = v + (pack_num w r + 2 ^ (w * N.of_nat (length r)) * Y) * 2 ^ w).
    { rewrite Hcur. cbn [pack_num length]. rewrite Nat2N.inj_succ, N.mul_succ_r, N.pow_add_r. lia. }
    assert (Hmod : cur buf pos mod 2 ^ w = v).
    { rewrite Hsplit, N.mod_add by apply pow2_nz. apply N.mod_small. exact Hv. }
    assert (Hdiv : cur buf pos / 2 ^ w = pack_num w r + 2 ^ (w * N.of_nat (length r)) * Y).
    { rewrite Hsplit, N.div_add by apply pow2_nz. rewrite N.div_small by exact Hv. lia. }
    destruct Hpre1 as [pre1 Hpre1].
    assert (Hok1 : bytes_ok b1).
    { apply bytes_ok_suffix with pre1. rewrite <- Hpre1. exact Hok. }
    destruct (IH r b1 p1 Y Hok1 Hp1) as (b2 & p2 & Hrun2 & Hp2 & Hlen2 & Hpre2);
      [rewrite Hcur1; exact Hdiv | exact Hr | lia | lia |].
    exists b2, p2. cbn [unpack_n firstn]. rewrite Hrun1. cbn [bind].
    rewrite Hmod, Hrun2. cbn [bind].
    repeat split; try assumption; try lia.
    destruct Hpre2 as [pre2 Hpre2]. exists (pre1 ++ pre2).
    rewrite Hpre1, Hpre2, app_assoc. reflexivity.
Qed.

Lemma pack_num_bound w vals : Forall (fun v => v < 2 ^ w) vals ->
  pack_num w vals < 2 ^ (w * N.of_nat (length vals)).
Proof.
  induction 1 as [|v r Hv Hr IH]; cbn [pack_num length].
  - change (N.of_nat 0) with 0. rewrite N.mul_0_r. change (2 ^ 0) with 1. lia.
  - rewrite Nat2N.inj_succ, N.mul_succ_r, N.pow_add_r.
    pose proof (pow2_pos w). nia.
Qed.

Lemma pow256_pow2 k : 256 ^ k = 2 ^ (8 * k).
Proof. rewrite N.pow_mul_r. reflexivity. Qed.

Lemma packed_len_bits w n :
  exists pad, 8 * N.of_nat (packed_len w n) = w * N.of_nat n + pad /\ pad < 8
              /\ ((w * N.of_nat n) mod 8 = 0 -> pad = 0).
Proof.
  unfold packed_len. rewrite N2Nat.id.
  set (t := w * N.of_nat n).
  exists (8 * ((t + 7) / 8) - t).
  pose proof (N.div_mod (t + 7) 8 ltac:(lia)) as Hdm.
  pose proof (N.mod_lt (t + 7) 8 ltac:(lia)) as Hlt.
  pose proof (N.div_mod t 8 ltac:(lia)) as Hdm2.
  pose proof (N.mod_lt t 8 ltac:(lia)) as Hlt2.
  split; [lia|]. split; [lia|].
  intros H0. rewrite H0 in Hdm2.
  assert (Hq : (t + 7) / 8 = t / 8).
  { symmetry. apply N.div_unique with (r := 7); lia. }
  lia.
Qed.

Lemma cur_bitpack w vals rest : Forall (fun v => v < 2 ^ w) vals ->
  exists Y, cur (bitpack w vals ++ rest) 0 = pack_num w vals + 2 ^ (w * N.of_nat (length vals)) * Y.
Proof.
  intros Hvals. unfold cur, bitpack. change (2 ^ 0) with 1. rewrite N.div_1_r.
  destruct (packed_len_bits w (length vals)) as (pad & Hpl & _ & _).
  rewrite le_num_app, le_bytes_length, le_num_le_bytes.
  - rewrite pow256_pow2, Hpl, N.pow_add_r.
    exists (2 ^ pad * le_num rest). lia.
  - rewrite pow256_pow2, Hpl.
    apply N.lt_le_trans with (1 := pack_num_bound w vals Hvals).
    apply N.pow_le_mono_r; lia.
Qed.

Lemma bitpack_bytes_ok w vals rest : bytes_ok rest -> bytes_ok (bitpack w vals ++ rest).
Proof. intros Hr. apply Forall_app. split; [apply le_bytes_bytes | exact Hr]. Qed.

Lemma bit_unpack_pos_w tw w n buf pos : 0 < w <= 64 ->
  bit_unpack tw w n buf pos = unpack_n tw w n buf pos.
Proof.
  intros Hw. unfold bit_unpack.
  destruct (64 <? w) eqn:H1; [apply N.ltb_lt in H1; lia|].
  destruct (w =? 0) eqn:H2; [apply N.eqb_eq in H2; lia|]. reflexivity.
Qed.

(* prefix version with all the bookkeeping *)
Lemma bitpack_prefix_full tw w vals n rest :
  0 < w <= 64 -> w <= tw -> Forall (fun v => v < 2 ^ w) vals -> bytes_ok rest ->
  (n <= length vals)%nat ->
  exists buf' pos',
    bit_unpack tw w n (bitpack w vals ++ rest) 0 = Ok (firstn n vals, buf', pos')
    /\ pos' < 8
    /\ 8 * N.of_nat (length buf') + w * N.of_nat n
       = 8 * N.of_nat (length (bitpack w vals ++ rest)) + pos'
    /\ (exists pre, bitpack w vals ++ rest = pre ++ buf').
Proof.
  intros Hw Htw Hvals Hrest Hn.
  destruct (cur_bitpack w vals rest Hvals) as [Y HY].
  rewrite bit_unpack_pos_w by exact Hw.
  destruct (packed_len_bits w (length vals)) as (pad & Hpl & _ & _).
  destruct (unpack_n_spec tw w ltac:(lia) Htw n vals (bitpack w vals ++ rest) 0 Y)
    as (buf' & pos' & Hrun & Hpos' & Hlen' & Hpre'); try assumption; try lia.
  - apply bitpack_bytes_ok. exact Hrest.
  - rewrite app_length. unfold bitpack at 1. rewrite le_bytes_length. nia.
  - exists buf', pos'. repeat split; try assumption; lia.
Qed.

Theorem bitpack_prefix tw w vals n rest :
  0 < w <= 64 -> w <= tw -> Forall (fun v => v < 2 ^ w) vals -> bytes_ok rest ->
  (n <= length vals)%nat ->
  exists buf' pos',
    bit_unpack tw w n (bitpack w vals ++ rest) 0 = Ok (firstn n vals, buf', pos').
Proof.
  intros Hw Htw Hvals Hrest Hn.
  destruct (bitpack_prefix_full tw w vals n rest Hw Htw Hvals Hrest Hn) as (b & p & H & _).
  exists b, p. exact H.
Qed.

Lemma app_suffix_eq {A} (a b c d : list A) : a ++ b = c ++ d -> length b = length d -> b = d.
Proof.
  intros Heq Hlen.
  assert (Hla : length a = length c).
  { apply (f_equal (@length A)) in Heq. rewrite !app_length in Heq. lia. }
  apply (f_equal (skipn (length a))) in Heq.
  rewrite skipn_app, skipn_all, Nat.sub_diag in Heq. cbn [skipn app] in Heq.
  rewrite Hla, skipn_app, skipn_all, Nat.sub_diag in Heq. cbn [skipn app] in Heq.
  exact Heq.
Qed.

Theorem bitpack_roundtrip tw w vals rest :
  0 < w <= 64 -> w <= tw -> Forall (fun v => v < 2 ^ w) vals -> bytes_ok rest ->
  (w * N.of_nat (length vals)) mod 8 = 0 ->
  bit_unpack tw w (length vals) (bitpack w vals ++ rest) 0 = Ok (vals, rest, 0).
Proof.
  intros Hw Htw Hvals Hrest Hmod.
  destruct (bitpack_prefix_full tw w vals (length vals) rest Hw Htw Hvals Hrest (le_n _))
    as (b & p & Hrun & Hp & Hlen & pre & Hpre).
  rewrite Hrun, firstn_all.
  destruct (packed_len_bits w (length vals)) as (pad & Hpl & _ & Hpad0).
  specialize (Hpad0 Hmod). subst pad.
  rewrite app_length in Hlen. unfold bitpack at 1 in Hlen. rewrite le_bytes_length in Hlen.
  assert (p = 0 /\ length b = length rest) as [Hp0 Hlb] by lia.
  subst p. symmetry in Hpre.
  rewrite (app_suffix_eq _ _ _ _ Hpre Hlb). reflexivity.
Qed.

Example bitpack_roundtrip_ex :
  bit_unpack 32 3 8 (bitpack 3 [1;2;3;4;5;6;7;0] ++ [9]) 0 = Ok ([1;2;3;4;5;6;7;0], [9], 0).
Proof. vm_compute. reflexivity. Qed.

Example bitpack_prefix_ex :
  bit_unpack 32 3 3 (bitpack 3 [1;2;3;4;5] ++ [9]) 0 = Ok ([1;2;3], [88; 9], 1).
Proof. vm_compute. reflexivity. Qed.

(* ---------- 6. RLE / bit-packed hybrid ---------- *)
(* ---------- (a) fuel monotonicity ---------- *)
Lemma rle_go_fuel_mono : forall tw f f' n s r,
  rle_go tw f n s = Ok r -> (f <= f')%nat -> rle_go tw f' n s = Ok r.
Proof.
  intros tw f. induction f as [|f IH]; intros f' n s r H Hle.
  - destruct n as [|n]; cbn [rle_go] in H.
    + destruct f'; cbn [rle_go]; exact H.
    + discriminate H.
  - destruct n as [|n].
    + destruct f'; cbn [rle_go] in *; exact H.
    + destruct f' as [|f']; [lia|].
      cbn [rle_go] in *.
      destruct (0 <? r_rle_left s).
      * match type of H with (bind ?e _ = _) => destruct e as [[vs s2]| | |] eqn:E end;
          cbn [bind] in H; try discriminate H.
        rewrite (IH f' _ _ _ E ltac:(lia)). cbn [bind]. exact H.
      * destruct (0 <? r_bp_left s).
        -- destruct (bit_unpack tw (r_w s) (Nat.min (S n) (N.to_nat (r_bp_left s))) (r_buf s) (r_pos s))
             as [[[lit b1] p1]| | |]; cbn [bind] in *; try discriminate H.
           match type of H with (bind ?e _ = _) => destruct e as [[vs s2]| | |] eqn:E end;
             cbn [bind] in H; try discriminate H.
           rewrite (IH f' _ _ _ E ltac:(lia)). cbn [bind]. exact H.
        -- destruct (rle_read_next s) as [s1| | |]; cbn [bind] in *; try discriminate H.
           apply (IH f' _ _ _ H). lia.
Qed.

(* ---------- (b) length facts ---------- *)
Lemma vlq_dec_length : forall bs a sh x r,
  vlq_dec bs a sh = Ok (x, r) -> (length r < length bs)%nat.
Proof.
  induction bs as [|b bs IH]; intros a sh x r H.
  - discriminate H.
  - cbn [vlq_dec] in H. cbn [length].
    destruct (N.land b 128 =? 0).
    + injection H as _ Hr. subst r. lia.
    + destruct (64 <=? sh + 7); [discriminate H|].
      apply IH in H. lia.
Qed.

Lemma take_bytes_length : forall k b bs r,
  take_bytes k b = Ok (bs, r) -> (length r <= length b)%nat.
Proof.
  induction k as [|k IH]; intros b bs r H.
  - cbn [take_bytes] in H. injection H as _ Hr. subst r. lia.
  - cbn [take_bytes] in H. destruct b as [|x b]; [discriminate H|].
    destruct (take_bytes k b) as [[bs' r']| | |] eqn:E; cbn [bind] in H; try discriminate H.
    injection H as _ Hr. subst r. apply IH in E. cbn [length]. lia.
Qed.

Lemma unpack_val_length : forall fuel buf pos need off v x buf' pos',
  unpack_val fuel buf pos need off v = Ok (x, buf', pos') ->
  (length buf' <= length buf)%nat.
Proof.
  induction fuel as [|f IH]; intros buf pos need off v x buf' pos' H.
  - cbn [unpack_val] in H. destruct (need =? 0); [|discriminate H].
    injection H as _ Hb _. subst buf'. lia.
  - cbn [unpack_val] in H. destruct (need =? 0).
    + injection H as _ Hb _. subst buf'. lia.
    + destruct buf as [|b rest]; [discriminate H|].
      cbv zeta in H.
      destruct (pos + N.min need (8 - pos) =? 8).
      * apply IH in H. cbn [length]. lia.
      * apply IH in H. exact H.
Qed.

Lemma bind_ok {A B} (o : outcome A) (f : A -> outcome B) b :
  bind o f = Ok b -> exists a, o = Ok a /\ f a = Ok b.
Proof.
  intros H. destruct o as [a| | |]; cbn [bind] in H; try discriminate H.
  exists a. split; [reflexivity|exact H].
Qed.

Lemma unpack_one_length : forall tw w buf pos x buf' pos',
  unpack_one tw w buf pos = Ok (x, buf', pos') -> (length buf' <= length buf)%nat.
Proof.
  intros tw w buf pos x buf' pos'. unfold unpack_one.
  generalize (unpack_val_length 65 buf pos w 0 0).
  generalize (unpack_val 65 buf pos w 0 0).
  intros o Hlen H.
  destruct o as [[[v b] p]| | |]; cbn [bind] in H; try discriminate H.
  injection H as _ Hb _. subst buf'. eapply Hlen; reflexivity.
Qed.

Lemma unpack_n_S tw w k buf pos :
  unpack_n tw w (S k) buf pos =
  ('(v, buf1, pos1) <- unpack_one tw w buf pos ;;
   '(vs, buf2, pos2) <- unpack_n tw w k buf1 pos1 ;;
   Ok (v :: vs, buf2, pos2)).
Proof. reflexivity. Qed.

Lemma unpack_n_length : forall tw w n buf pos vs buf' pos',
  unpack_n tw w n buf pos = Ok (vs, buf', pos') -> (length buf' <= length buf)%nat.
Proof.
  intros tw w n. induction n as [|n IH]; intros buf pos vs buf' pos' H.
  - cbn [unpack_n] in H. injection H as _ Hb _. subst buf'. lia.
  - rewrite unpack_n_S in H.
    apply bind_ok in H. destruct H as [[[v b] p] [E H]].
    apply bind_ok in H. destruct H as [[[vs2 b2] p2] [E2 H]].
    injection H as _ Hb _. subst buf'.
    apply unpack_one_length in E. apply IH in E2. lia.
Qed.

Lemma bit_unpack_length : forall tw w n buf pos vs buf' pos',
  bit_unpack tw w n buf pos = Ok (vs, buf', pos') -> (length buf' <= length buf)%nat.
Proof.
  intros tw w n buf pos vs buf' pos' H. unfold bit_unpack in H.
  destruct (64 <? w); [discriminate H|].
  destruct (w =? 0).
  - injection H as _ Hb _. subst buf'. lia.
  - eapply unpack_n_length; exact H.
Qed.

Lemma rle_read_next_length : forall s s1,
  rle_read_next s = Ok s1 -> (length (r_buf s1) < length (r_buf s))%nat.
Proof.
  intros s s1 H. unfold rle_read_next in H.
  destruct (negb (r_pos s =? 0)); [discriminate H|].
  unfold vlq_decode in H.
  destruct (vlq_dec (r_buf s) 0 0) as [[ind buf1]| | |] eqn:E; cbn [bind] in H; try discriminate H.
  apply vlq_dec_length in E.
  destruct (N.odd ind).
  - injection H as Hs. subst s1. cbn [r_buf]. exact E.
  - destruct (take_bytes (byte_enc_len (r_w s)) buf1) as [[bs buf2]| | |] eqn:E2; cbn [bind] in H; try discriminate H.
    injection H as Hs. subst s1. cbn [r_buf]. apply take_bytes_length in E2. lia.
Qed.

(* ---------- (c) fuel independence ---------- *)
Lemma rle_go_0 tw f s : rle_go tw f 0 s = Ok ([], s).
Proof. destruct f; reflexivity. Qed.

Lemma rle_go_S tw f n s : (0 < n)%nat ->
  rle_go tw (S f) n s =
  if 0 <? r_rle_left s then
    '(vs, s2) <- rle_go tw f (n - Nat.min n (N.to_nat (r_rle_left s)))
                   (mk_rle (r_buf s) (r_w s) (r_cur s)
                      (r_rle_left s - N.of_nat (Nat.min n (N.to_nat (r_rle_left s))))
                      (r_bp_left s) (r_pos s)) ;;
    Ok (repeat (trunc tw (r_cur s)) (Nat.min n (N.to_nat (r_rle_left s))) ++ vs, s2)
  else if 0 <? r_bp_left s then
    '(lit, buf1, pos1) <- bit_unpack tw (r_w s) (Nat.min n (N.to_nat (r_bp_left s))) (r_buf s) (r_pos s) ;;
    '(vs, s2) <- rle_go tw f (n - Nat.min n (N.to_nat (r_bp_left s)))
                   (mk_rle buf1 (r_w s) (r_cur s) (r_rle_left s)
                      (r_bp_left s - N.of_nat (Nat.min n (N.to_nat (r_bp_left s)))) pos1) ;;
    Ok (lit ++ vs, s2)
  else
    s1 <- rle_read_next s ;; rle_go tw f n s1.
Proof.
  intros Hn. destruct n as [|n]; [lia | reflexivity].
Qed.

Lemma rle_go_fuel_indep : forall tw f F n s,
  (n + length (r_buf s) + 1 <= f)%nat -> (n + length (r_buf s) + 1 <= F)%nat ->
  rle_go tw f n s = rle_go tw F n s.
Proof.
  intros tw f. induction f as [|f IH]; intros F n s Hf HF; [lia|].
  destruct F as [|F]; [lia|].
  destruct n as [|n]; [rewrite !rle_go_0; reflexivity|].
  rewrite !rle_go_S by lia.
  destruct (0 <? r_rle_left s) eqn:Er.
  - rewrite (IH F); [reflexivity| cbn [r_buf]; lia | cbn [r_buf]; lia].
  - destruct (0 <? r_bp_left s) eqn:Eb.
    + destruct (bit_unpack tw (r_w s) (Nat.min (S n) (N.to_nat (r_bp_left s))) (r_buf s) (r_pos s))
        as [[[lit b1] p1]| | |] eqn:E; cbn [bind]; try reflexivity.
      apply bit_unpack_length in E.
      rewrite (IH F); [reflexivity| cbn [r_buf]; lia | cbn [r_buf]; lia].
    + destruct (rle_read_next s) as [s1| | |] eqn:E; cbn [bind]; try reflexivity.
      apply rle_read_next_length in E.
      apply IH; lia.
Qed.

Lemma rle_read_fuel tw f n s :
  (n + length (r_buf s) + 1 <= f)%nat -> rle_read tw n s = rle_go tw f n s.
Proof.
  intros Hf. unfold rle_read. apply rle_go_fuel_indep; lia.
Qed.

(* ---------- taking a prefix of the current run / literal group ---------- *)
Lemma rle_take_rle tw f k m s :
  (0 <? r_rle_left s) = true -> (0 < k)%nat -> (k <= N.to_nat (r_rle_left s))%nat ->
  (k + m + length (r_buf s) + 1 <= f)%nat ->
  rle_go tw f (k + m) s =
  ('(vs, s2) <- rle_read tw m (mk_rle (r_buf s) (r_w s) (r_cur s)
                                (r_rle_left s - N.of_nat k) (r_bp_left s) (r_pos s)) ;;
   Ok (repeat (trunc tw (r_cur s)) k ++ vs, s2)).
Proof.
  intros Hr Hk Hle Hf.
  destruct f as [|f]; [lia|].
  rewrite rle_go_S by lia. rewrite Hr.
  destruct m as [|m].
  - replace (k + 0)%nat with k by lia.
    replace (Nat.min k (N.to_nat (r_rle_left s))) with k by lia.
    replace (k - k)%nat with 0%nat by lia.
    unfold rle_read. rewrite !rle_go_0. cbn [bind]. reflexivity.
  - destruct (0 <? r_rle_left s - N.of_nat k) eqn:E2.
    + rewrite (rle_read_fuel tw (S f) (S m)) by (cbn [r_buf]; lia).
      rewrite (rle_go_S tw f (S m)) by lia.
      cbn [r_buf r_w r_cur r_rle_left r_bp_left r_pos]. rewrite E2.
      replace (Nat.min (k + S m) (N.to_nat (r_rle_left s)))
        with (k + Nat.min (S m) (N.to_nat (r_rle_left s - N.of_nat k)))%nat by lia.
      match goal with
      | |- bind (rle_go _ _ ?a ?sa) _ = bind (bind (rle_go _ _ ?b ?sb) _) _ =>
          replace a with b by lia; replace sa with sb by (f_equal; lia)
      end.
      match goal with
      | |- bind ?e _ = _ => destruct e as [[vs s2]| | |]; cbn [bind]; try reflexivity
      end.
      rewrite repeat_app, <- app_assoc. reflexivity.
    + replace (Nat.min (k + S m) (N.to_nat (r_rle_left s))) with k by lia.
      replace (k + S m - k)%nat with (S m) by lia.
      rewrite (rle_read_fuel tw f (S m)) by (cbn [r_buf]; lia).
      reflexivity.
Qed.

Lemma rle_take_bp tw f k m s :
  (0 <? r_rle_left s) = false -> (0 <? r_bp_left s) = true ->
  (0 < k)%nat -> (k <= N.to_nat (r_bp_left s))%nat ->
  (k + m + length (r_buf s) + 1 <= f)%nat ->
  rle_go tw f (k + m) s =
  ('(lit, b1, p1) <- bit_unpack tw (r_w s) k (r_buf s) (r_pos s) ;;
   '(vs, s2) <- rle_read tw m (mk_rle b1 (r_w s) (r_cur s) (r_rle_left s)
                                (r_bp_left s - N.of_nat k) p1) ;;
   Ok (lit ++ vs, s2)).
Proof.
  intros Hr Hb Hk Hle Hf.
  destruct f as [|f]; [lia|].
  rewrite rle_go_S by lia. rewrite Hr, Hb.
  destruct m as [|m].
  - replace (k + 0)%nat with k by lia.
    replace (Nat.min k (N.to_nat (r_bp_left s))) with k by lia.
    replace (k - k)%nat with 0%nat by lia.
    destruct (bit_unpack tw (r_w s) k (r_buf s) (r_pos s)) as [[[lit b1] p1]| | |];
      cbn [bind]; try reflexivity.
    unfold rle_read. rewrite !rle_go_0. cbn [bind]. reflexivity.
  - destruct (0 <? r_bp_left s - N.of_nat k) eqn:E2.
    + replace (Nat.min (k + S m) (N.to_nat (r_bp_left s)))
        with (k + Nat.min (S m) (N.to_nat (r_bp_left s - N.of_nat k)))%nat by lia.
      rewrite bit_unpack_split.
      destruct (bit_unpack tw (r_w s) k (r_buf s) (r_pos s)) as [[[lit b1] p1]| | |] eqn:E1;
        cbn [bind]; try reflexivity.
      apply bit_unpack_length in E1.
      rewrite (rle_read_fuel tw (S f) (S m)) by (cbn [r_buf]; lia).
      rewrite (rle_go_S tw f (S m)) by lia.
      cbn [r_buf r_w r_cur r_rle_left r_bp_left r_pos]. rewrite Hr, E2.
      match goal with
      | |- bind (bind ?e _) _ = _ => destruct e as [[[lit2 b2] p2]| | |]; cbn [bind]; try reflexivity
      end.
      match goal with
      | |- bind (rle_go _ _ ?a ?sa) _ = bind (bind (rle_go _ _ ?b ?sb) _) _ =>
          replace a with b by lia; replace sa with sb by (f_equal; lia)
      end.
      match goal with
      | |- bind ?e _ = _ => destruct e as [[vs s2]| | |]; cbn [bind]; try reflexivity
      end.
      rewrite <- app_assoc. reflexivity.
    + replace (Nat.min (k + S m) (N.to_nat (r_bp_left s))) with k by lia.
      replace (k + S m - k)%nat with (S m) by lia.
      destruct (bit_unpack tw (r_w s) k (r_buf s) (r_pos s)) as [[[lit b1] p1]| | |] eqn:E1;
        cbn [bind]; try reflexivity.
      apply bit_unpack_length in E1.
      rewrite (rle_read_fuel tw f (S m)) by (cbn [r_buf]; lia).
      reflexivity.
Qed.

(* ---------- (d) splitting a read ---------- *)
Lemma rle_read_0 tw s : rle_read tw 0 s = Ok ([], s).
Proof. unfold rle_read. apply rle_go_0. Qed.

Lemma rle_go_split tw n2 : forall f n1 s,
  (n1 + n2 + length (r_buf s) + 1 <= f)%nat ->
  rle_go tw f (n1 + n2) s =
  ('(v1, s1) <- rle_go tw f n1 s ;;
   '(v2, s2) <- rle_read tw n2 s1 ;; Ok (v1 ++ v2, s2)).
Proof.
  induction f as [|f IH]; intros n1 s Hf; [lia|].
  destruct n1 as [|n1].
  - cbn [Nat.add]. rewrite (rle_go_0 tw (S f) s). cbn [bind].
    rewrite (rle_read_fuel tw (S f) n2 s) by lia.
    destruct (rle_go tw (S f) n2 s) as [[v s2]| | |]; reflexivity.
  - destruct (0 <? r_rle_left s) eqn:Er.
    + destruct (Nat.leb (S n1) (N.to_nat (r_rle_left s))) eqn:El.
      * rewrite (rle_take_rle tw (S f) (S n1) n2 s) by lia.
        pose proof (rle_take_rle tw (S f) (S n1) 0 s Er ltac:(lia) ltac:(lia) ltac:(lia)) as E0.
        rewrite Nat.add_0_r in E0. rewrite rle_read_0 in E0. cbn [bind] in E0.
        rewrite E0. cbn [bind]. rewrite app_nil_r.
        match goal with
        | |- bind ?e _ = _ => destruct e as [[vs s2]| | |]; cbn [bind]; reflexivity
        end.
      * rewrite !rle_go_S by lia. rewrite Er.
        replace (Nat.min (S n1 + n2) (N.to_nat (r_rle_left s))) with (N.to_nat (r_rle_left s)) by lia.
        replace (Nat.min (S n1) (N.to_nat (r_rle_left s))) with (N.to_nat (r_rle_left s)) by lia.
        replace (S n1 + n2 - N.to_nat (r_rle_left s))%nat
          with (S n1 - N.to_nat (r_rle_left s) + n2)%nat by lia.
        rewrite IH by (cbn [r_buf]; lia).
        match goal with
        | |- bind (bind ?e _) _ = _ => destruct e as [[v1 s1]| | |]; cbn [bind]; try reflexivity
        end.
        destruct (rle_read tw n2 s1) as [[v2 s2]| | |]; cbn [bind]; try reflexivity.
        rewrite app_assoc. reflexivity.
    + destruct (0 <? r_bp_left s) eqn:Eb.
      * destruct (Nat.leb (S n1) (N.to_nat (r_bp_left s))) eqn:El.
        -- rewrite (rle_take_bp tw (S f) (S n1) n2 s) by lia.
           pose proof (rle_take_bp tw (S f) (S n1) 0 s Er Eb ltac:(lia) ltac:(lia) ltac:(lia)) as E0.
           rewrite Nat.add_0_r in E0. rewrite E0.
           destruct (bit_unpack tw (r_w s) (S n1) (r_buf s) (r_pos s)) as [[[lit b1] p1]| | |];
             cbn [bind]; try reflexivity.
           rewrite rle_read_0. cbn [bind]. rewrite app_nil_r.
           match goal with
           | |- bind ?e _ = _ => destruct e as [[vs s2]| | |]; cbn [bind]; reflexivity
           end.
        -- rewrite !rle_go_S by lia. rewrite Er, Eb.
           replace (Nat.min (S n1 + n2) (N.to_nat (r_bp_left s))) with (N.to_nat (r_bp_left s)) by lia.
           replace (Nat.min (S n1) (N.to_nat (r_bp_left s))) with (N.to_nat (r_bp_left s)) by lia.
           destruct (bit_unpack tw (r_w s) (N.to_nat (r_bp_left s)) (r_buf s) (r_pos s))
             as [[[lit b1] p1]| | |] eqn:E1; cbn [bind]; try reflexivity.
           apply bit_unpack_length in E1.
           replace (S n1 + n2 - N.to_nat (r_bp_left s))%nat
             with (S n1 - N.to_nat (r_bp_left s) + n2)%nat by lia.
           rewrite IH by (cbn [r_buf]; lia).
           match goal with
           | |- bind (bind ?e _) _ = _ => destruct e as [[v1 s1]| | |]; cbn [bind]; try reflexivity
           end.
           destruct (rle_read tw n2 s1) as [[v2 s2]| | |]; cbn [bind]; try reflexivity.
           rewrite app_assoc. reflexivity.
      * rewrite !rle_go_S by lia. rewrite Er, Eb.
        destruct (rle_read_next s) as [s1| | |] eqn:E; cbn [bind]; try reflexivity.
        apply rle_read_next_length in E.
        rewrite (IH (S n1) s1) by lia. reflexivity.
Qed.

Theorem rle_read_split tw n1 n2 s :
  rle_read tw (n1 + n2) s =
  ('(v1, s1) <- rle_read tw n1 s ;; '(v2, s2) <- rle_read tw n2 s1 ;; Ok (v1 ++ v2, s2)).
Proof.
  rewrite (rle_read_fuel tw (n1 + n2 + length (r_buf s) + 1) (n1 + n2) s) by lia.
  rewrite (rle_read_fuel tw (n1 + n2 + length (r_buf s) + 1) n1 s) by lia.
  apply rle_go_split. lia.
Qed.

Print Assumptions rle_read_split.
Print Assumptions rle_go_fuel_indep.
Print Assumptions rle_go_fuel_mono.

(* ---------- 6c. every well formed hybrid stream decodes to its values ---------- *)

Lemma rle_go_ok_read tw F n s r : rle_go tw F n s = Ok r -> rle_read tw n s = Ok r.
Proof.
  intros Hgo.
  rewrite (rle_read_fuel tw (Nat.max F (n + length (r_buf s) + 1)) n s) by lia.
  apply rle_go_fuel_mono with F; [exact Hgo | lia].
Qed.

Lemma firstn_repeat_le {A} (v : A) : forall k n, (k <= n)%nat -> firstn k (repeat v n) = repeat v k.
Proof.
  induction k as [|k IH]; intros n Hk; [reflexivity|].
  destruct n as [|n]; [lia|]. cbn [repeat firstn]. rewrite IH by lia. reflexivity.
Qed.

Lemma byte_enc_len_bits w : w <= 8 * N.of_nat (byte_enc_len w).
Proof.
  unfold byte_enc_len. rewrite N2Nat.id.
  pose proof (N.div_mod (w + 7) 8 ltac:(lia)) as Hdm.
  pose proof (N.mod_lt (w + 7) 8 ltac:(lia)) as Hlt. lia.
Qed.

Lemma read_next_rle w c v cur rest' : c < 2 ^ 62 -> v < 2 ^ w ->
  rle_read_next (mk_rle (run_bytes w (RunRle c v) ++ rest') w cur 0 0 0)
  = Ok (mk_rle rest' w v c 0 0).
Proof.
  intros Hc Hv. unfold rle_read_next.
  cbn [r_pos r_buf r_w r_cur r_rle_left r_bp_left run_bytes].
  change (negb (0 =? 0)) with false. cbv iota.
  rewrite <- app_assoc, vlq_roundtrip.
  2:{ change (2 ^ 62) with 4611686018427387904 in Hc.
      change (2 ^ 64) with 18446744073709551616. lia. }
  cbn [bind]. rewrite N.odd_mul, N.odd_2. cbn [andb]. cbv iota.
  pose proof (take_bytes_app (le_bytes (byte_enc_len w) v) rest') as Ht.
  rewrite le_bytes_length in Ht. rewrite Ht. cbn [bind].
  rewrite le_num_le_bytes.
  - rewrite N.mul_comm, N.div_mul by lia. reflexivity.
  - rewrite pow256_pow2. apply N.lt_le_trans with (1 := Hv).
    apply N.pow_le_mono_r; [lia | apply byte_enc_len_bits].
Qed.

Lemma read_next_lit w vs cur rest' :
  (exists g, length vs = (8 * g)%nat) -> N.of_nat (length vs) < 2 ^ 62 ->
  rle_read_next (mk_rle (run_bytes w (RunLit vs) ++ rest') w cur 0 0 0)
  = Ok (mk_rle (bitpack w vs ++ rest') w cur 0 (N.of_nat (length vs)) 0).
Proof.
  intros [g Hg] HL. unfold rle_read_next.
  cbn [r_pos r_buf r_w r_cur r_rle_left r_bp_left run_bytes].
  change (negb (0 =? 0)) with false. cbv iota.
  set (L := N.of_nat (length vs)) in *.
  assert (HLg : L = N.of_nat g * 8) by (unfold L; lia).
  assert (Hdiv : L / 8 = N.of_nat g) by (rewrite HLg; apply N.div_mul; lia).
  change (2 ^ 62) with 4611686018427387904 in HL.
  rewrite <- app_assoc, vlq_roundtrip.
  2:{ rewrite Hdiv. change (2 ^ 64) with 18446744073709551616. lia. }
  cbn [bind]. rewrite Hdiv.
  rewrite (N.add_comm (2 * N.of_nat g) 1), N.odd_add_mul_2. change (N.odd 1) with true. cbv iota.
  replace ((1 + 2 * N.of_nat g) / 2) with (N.of_nat g)
    by (apply N.div_unique with (r := 1); lia).
  rewrite <- HLg, N.mod_small by (change (2 ^ 64) with 18446744073709551616; lia).
  reflexivity.
Qed.

Lemma trunc_small tw w v : w <= tw -> v < 2 ^ w -> trunc tw v = v.
Proof.
  intros Htw Hv. unfold trunc. apply N.mod_small.
  apply N.lt_le_trans with (1 := Hv). apply N.pow_le_mono_r; lia.
Qed.

(* reading k > 0 values out of one run, starting at the run header *)
Lemma read_run tw w r cur rest' k :
  0 < w <= 64 -> w <= tw -> run_wf w r -> bytes_ok rest' ->
  (0 < k)%nat -> (k <= length (run_values r))%nat ->
  forall f, exists s',
    rle_go tw (S (S f)) k (mk_rle (run_bytes w r ++ rest') w cur 0 0 0)
    = Ok (firstn k (run_values r), s')
    /\ (k = length (run_values r) -> exists cur', s' = mk_rle rest' w cur' 0 0 0).
Proof.
  intros Hw Htw Hwf Hrest Hk0 Hk f.
  rewrite rle_go_S by exact Hk0.
  cbn [r_pos r_buf r_w r_cur r_rle_left r_bp_left].
  change (0 <? 0) with false. cbv iota.
  destruct r as [c v | vs].
  - destruct Hwf as [Hc Hv]. cbn [run_values] in *. rewrite repeat_length in Hk.
    rewrite read_next_rle by assumption. cbn [bind].
    rewrite rle_go_S by exact Hk0.
    cbn [r_pos r_buf r_w r_cur r_rle_left r_bp_left].
    destruct (0 <? c) eqn:Hc0; [|apply N.ltb_ge in Hc0; lia].
    replace (Nat.min k (N.to_nat c)) with k by lia.
    rewrite Nat.sub_diag, rle_go_0. cbn [bind].
    rewrite (trunc_small tw w v Htw Hv), app_nil_r, firstn_repeat_le by exact Hk.
    eexists. split; [reflexivity|].
    intros Hkc. rewrite repeat_length in Hkc. exists v. f_equal. lia.
  - destruct Hwf as (Hg & HL & Hvals). cbn [run_values] in *.
    rewrite read_next_lit by assumption. cbn [bind].
    rewrite rle_go_S by exact Hk0.
    cbn [r_pos r_buf r_w r_cur r_rle_left r_bp_left].
    change (0 <? 0) with false. cbv iota.
    destruct (0 <? N.of_nat (length vs)) eqn:HL0; [|apply N.ltb_ge in HL0; lia].
    replace (Nat.min k (N.to_nat (N.of_nat (length vs)))) with k by lia.
    destruct (Nat.eq_dec k (length vs)) as [Heq|Hne].
    + subst k. rewrite bitpack_roundtrip; try assumption.
      2:{ destruct Hg as [g Hg]. rewrite Hg.
          replace (w * N.of_nat (8 * g)) with (w * N.of_nat g * 8) by lia.
          apply N.mod_mul. lia. }
      cbn [bind]. rewrite Nat.sub_diag, rle_go_0. cbn [bind].
      rewrite app_nil_r, firstn_all, N.sub_diag.
      eexists. split; [reflexivity|]. intros _. exists cur. reflexivity.
    + destruct (bitpack_prefix tw w vs k rest' Hw Htw Hvals Hrest Hk) as (b' & p' & Hrun).
      rewrite Hrun. cbn [bind]. rewrite Nat.sub_diag, rle_go_0. cbn [bind].
      rewrite app_nil_r.
      eexists. split; [reflexivity|]. intros Hkc. lia.
Qed.

(* a run without values is skipped *)
Lemma read_skip_empty tw w r cur rest' n f :
  run_wf w r -> run_values r = [] -> (0 < n)%nat ->
  exists cur',
    rle_go tw (S f) n (mk_rle (run_bytes w r ++ rest') w cur 0 0 0)
    = rle_go tw f n (mk_rle rest' w cur' 0 0 0).
Proof.
  intros Hwf Hempty Hn.
  rewrite rle_go_S by exact Hn.
  cbn [r_pos r_buf r_w r_cur r_rle_left r_bp_left].
  change (0 <? 0) with false. cbv iota.
  destruct r as [c v | vs].
  - destruct Hwf as [Hc Hv]. cbn [run_values] in Hempty.
    assert (Hc0 : c = 0).
    { destruct (N.to_nat c) as [|m] eqn:Hm; [lia | cbn [repeat] in Hempty; discriminate]. }
    subst c. rewrite read_next_rle by assumption. cbn [bind].
    exists v. reflexivity.
  - destruct Hwf as (Hg & HL & Hvals). cbn [run_values] in Hempty. subst vs.
    rewrite read_next_lit by assumption. cbn [bind].
    exists cur.
    unfold bitpack, packed_len. cbn [length N.of_nat]. rewrite N.mul_0_r.
    change (N.to_nat ((0 + 7) / 8)) with 0%nat. cbn [le_bytes app]. reflexivity.
Qed.

Lemma rle_decode_runs_gen tw w rest :
  0 < w <= 64 -> w <= tw -> bytes_ok rest ->
  forall rs n cur,
  Forall (run_wf w) rs ->
  (n <= length (runs_values rs))%nat ->
  exists s', rle_read tw n (mk_rle (runs_bytes w rs ++ rest) w cur 0 0 0)
             = Ok (firstn n (runs_values rs), s').
Proof.
  intros Hw Htw Hrest.
  induction rs as [|r rs IH]; intros n cur Hwf Hn.
  - cbn [runs_values flat_map length] in Hn. assert (n = 0)%nat by lia. subst n.
    rewrite rle_read_0. eexists. reflexivity.
  - inversion Hwf as [|r0 rs0 Hr Hrs]; subst r0 rs0.
    destruct n as [|n'].
    { rewrite rle_read_0. eexists. reflexivity. }
    set (n := S n') in *. assert (Hn0 : (0 < n)%nat) by (unfold n; lia). clearbody n.
    unfold runs_values, runs_bytes in *. cbn [flat_map] in *.
    fold (runs_values rs) in *. fold (runs_bytes w rs) in *.
    rewrite <- app_assoc. rewrite app_length in Hn.
    assert (Hrest' : bytes_ok (runs_bytes w rs ++ rest)).
    { apply Forall_app. split; [|exact Hrest].
      unfold runs_bytes. clear. induction rs as [|r1 rs1 IH1]; cbn [flat_map]; [constructor|].
      apply Forall_app. split; [|exact IH1].
      destruct r1 as [c v|vs]; cbn [run_bytes]; apply Forall_app; split;
        try apply vlq_encode_bytes; apply le_bytes_bytes. }
    destruct (run_values r) as [|x xs] eqn:Hvals.
    + (* empty run *)
      cbn [app length] in *.
      destruct (IH n cur Hrs Hn) as [s0 Hs0].
      destruct (read_skip_empty tw w r cur (runs_bytes w rs ++ rest) n
                  (n + length (runs_bytes w rs ++ rest) + 1) Hr Hvals Hn0) as [cur' Hskip].
      destruct (IH n cur' Hrs Hn) as [s' Hs']. exists s'.
      apply rle_go_ok_read with (S (n + length (runs_bytes w rs ++ rest) + 1)).
      rewrite Hskip. exact Hs'.
    + rewrite <- Hvals in *.
      assert (HL0 : (0 < length (run_values r))%nat) by (rewrite Hvals; cbn [length]; lia).
      clear Hvals x xs.
      destruct (le_lt_dec n (length (run_values r))) as [Hle|Hgt].
      * destruct (read_run tw w r cur (runs_bytes w rs ++ rest) n Hw Htw Hr Hrest' Hn0 Hle 0%nat)
          as (s' & Hs' & _).
        exists s'. rewrite firstn_app.
        replace (n - length (run_values r))%nat with 0%nat by lia.
        cbn [firstn]. rewrite app_nil_r.
        apply rle_go_ok_read with 2%nat. exact Hs'.
      * set (L := length (run_values r)) in *.
        replace n with (L + (n - L))%nat by lia.
        destruct (read_run tw w r cur (runs_bytes w rs ++ rest) L Hw Htw Hr Hrest' HL0 (le_n _) 0%nat)
          as (s1 & Hs1 & Hfresh).
        destruct (Hfresh eq_refl) as [cur' Hs1eq]. subst s1.
        apply rle_go_ok_read in Hs1.
        destruct (IH (n - L)%nat cur' Hrs ltac:(lia)) as [s' Hs'].
        exists s'. rewrite rle_read_split, Hs1. cbn [bind]. rewrite Hs'. cbn [bind].
        subst L. rewrite firstn_app_2, firstn_all. reflexivity.
Qed.

Theorem rle_decode_runs tw w rs rest n :
  0 < w <= 64 -> w <= tw -> Forall (run_wf w) rs -> bytes_ok rest ->
  (n <= length (runs_values rs))%nat ->
  exists s', rle_read tw n (rle_new (runs_bytes w rs ++ rest) w)
             = Ok (firstn n (runs_values rs), s').
Proof.
  intros Hw Htw Hwf Hrest Hn. unfold rle_new.
  apply rle_decode_runs_gen; assumption.
Qed.

Example rle_decode_runs_ex :
  rle_read 32 12 (rle_new (runs_bytes 3 [RunRle 5 6; RunLit [1;2;3;4;5;6;7;0]; RunRle 2 1] ++ [9]) 3)
  = Ok ([6;6;6;6;6;1;2;3;4;5;6;7],
        mk_rle [31; 4; 1; 9] 3 6 0 1 5).
Proof. vm_compute. reflexivity. Qed.

Example rle_go_fuel_mono_ex :
  rle_go 32 3 2 (rle_new (runs_bytes 3 [RunRle 5 6]) 3) = Ok ([6;6], mk_rle [] 3 6 3 0 0)
  /\ (3 <= 7)%nat.
Proof. split; [vm_compute; reflexivity | lia]. Qed.

Example rle_read_split_ex :
  let s := rle_new (runs_bytes 3 [RunRle 2 6; RunLit [1;2;3;4;5;6;7;0]] ++ [9]) 3 in
  rle_read 32 (5 + 4) s = Ok ([6;6;1;2;3;4;5;6;7], mk_rle [31; 9] 3 6 0 1 5)
  /\ rle_read 32 5 s = Ok ([6;6;1;2;3], mk_rle [88; 31; 9] 3 6 0 5 1).
Proof. split; vm_compute; reflexivity. Qed.

Print Assumptions vlq_roundtrip.
Print Assumptions from_i64_roundtrip.
Print Assumptions bitpack_roundtrip.
Print Assumptions bitpack_prefix.
Print Assumptions rle_decode_runs.
